(** V.C10.Sites — the REVIEWED inventory of places where the anchored files observe the order of
    an unordered collection, with the disposition of each.  Props.sites_tie proves that this list
    is exactly the inventory regenerated from the tree under test (GenSites.v): a new unordered
    iteration, or an ordered container turned into a set, breaks the tie.

    Disposition
      [Oracle o]    the model has the oracle parameter [o] for this site and
                    Props.diag_oracle_independent quantifies over it;
      [Reviewed w]  not an oracle of the model; [w] says why the order cannot reach the output.
                    NOT proved -- covered only by the differential search (Part X).
    The "unknown" sites are iterations whose container type the scanner could not decide from
    syntax and annotations; each was looked up by hand and is an ordered container. *)
From Coq Require Import List String.
Import ListNotations.
Open Scope string_scope.

Inductive disposition := Oracle (o : string) | Reviewed (why : string).
Definition site := (string * string * string * string)%type.

Definition reviewed_set_sites : list (site * disposition) := [
  (("cfg/analysis.py", "ForwardAnalysis.run", "pop", "<local>"),
   Oracle "F: pop order of the forward work list = sched_run (ass_step ...) / schedule fs");
  (("cfg/cfg.py", "BaseCFG.update_reachable", "pop", "<local>"),
   Reviewed "marks bb.reachable = True and queues the successors: the marked set is the least set containing the entry and closed under successors whatever the pop order; runs in the CFG builder, before the modelled passes");
  (("compiler/core.py", "partially_monomorphize_args", "for", "original_ty.bound_vars"),
   Reviewed "body is the indexed store mono_args[var.idx] = args[var.idx]: stores to distinct indices commute");
  (("compiler/core.py", "require_monomorphization", "for", "ty.bound_vars"),
   Reviewed "body is mono_params.add(params[var.idx]) on a set: adds commute; the callers only test emptiness or take the minimum by idx (fix-3)")
].

Definition reviewed_unknown_sites : list (site * string) := [
  (("cfg/analysis.py", "BackwardAnalysis.run", "comp", "bbs"), "Iterable[BB] parameter; every caller passes the list cfg.bbs");
  (("cfg/analysis.py", "ForwardAnalysis.run", "comp", "bbs"), "Iterable[BB] parameter; every caller passes the list cfg.bbs");
  (("cfg/analysis.py", "ForwardAnalysis.run", "comp", "bbs"), "same (list after the reachable filter)");
  (("cfg/analysis.py", "ForwardAnalysis.run", "comp", "bbs"), "same");
  (("cfg/bb.py", "VariableVisitor._handle_assign_target", "for", "elts"), "ast list of tuple / list elements");
  (("cfg/bb.py", "VariableVisitor.visit_Assign", "for", "node.targets"), "ast list");
  (("cfg/bb.py", "VariableVisitor.visit_ModifiedBlock", "comp", "live[node.cfg.entry_bb].items()"), "liveness dict (insertion ordered; deterministic since fix-2)");
  (("cfg/bb.py", "VariableVisitor.visit_NestedFunctionDef", "comp", "live[node.cfg.entry_bb].items()"), "liveness dict (insertion ordered; deterministic since fix-2)");
  (("checker/cfg_checker.py", "check_rows_match", "for", "map1 | map2"), "dict union: row order (fix-1) = union_keys of the model");
  (("checker/core.py", "Globals.builtin_defs", "comp", "guppylang.std.builtins.__dict__.items()"), "module dict, insertion ordered by the module's source");
  (("checker/linearity_checker.py", "BBLinearityChecker._check_comprehension", "for", "inner_scope.vars.values()"), "dict");
  (("checker/linearity_checker.py", "BBLinearityChecker._check_comprehension", "for", "other_ifs"), "ast list");
  (("checker/linearity_checker.py", "BBLinearityChecker._check_comprehension", "for", "self.scope.vars.values()"), "dict");
  (("checker/linearity_checker.py", "BBLinearityChecker.visit_Return", "for", "node.value.elts"), "ast list");
  (("checker/linearity_checker.py", "Scope.stats", "for", "self.vars.items()"), "dict");
  (("checker/linearity_checker.py", "check_cfg_linearity", "for", "live.items()"), "dict (liveness over places, BackwardAnalysis: deterministic since fix-2)");
  (("checker/linearity_checker.py", "check_cfg_linearity", "for", "scope.values()"), "dict");
  (("compiler/core.py", "<module>", "comp", "RESULT_EXTENSION.operations.values()"), "dict of the hugr extension");
  (("compiler/core.py", "<module>", "star", "(op_def.qualified_name() for op_def in RESULT_EXTENSION.operations.values())"), "generator over a dict; the result is stored in a set used for membership only");
  (("compiler/core.py", "CompilerContext.compile", "comp", "params"), "Sequence[Parameter] bound by a match pattern");
  (("compiler/core.py", "DFContainer.__setitem__", "for", "enumerate(zip(place.ty.element_types, unpack, strict=True))"), "sequences");
  (("compiler/core.py", "DFContainer.__setitem__", "for", "zip(place.ty.fields, unpack, strict=True)"), "sequences");
  (("compiler/core.py", "insert_drops", "for", "hugr"), "Hugr node iteration in index order");
  (("compiler/core.py", "requires_drop", "comp", "row"), "list of types");
  (("compiler/core.py", "requires_drop", "comp", "rows"), "list of rows");
  (("engine.py", "CompilationEngine.compile", "star", "TKET_EXTENSIONS"), "module level list")
].

(* WHOLE guppylang_internals package: every set-order / hash() / id() / repr(object) / key=hash
   site (no 'unknown' iterations here).  The first five are the anchored ones above; the others
   are outside the modelled passes: dispositions are prose, sampled by the determinism search. *)
Definition reviewed_all_set_sites : list (site * string) := [
  (("cfg/analysis.py", "ForwardAnalysis.run", "pop", "<local>"), "oracle F (proved order independent)");
  (("cfg/cfg.py", "BaseCFG.update_reachable", "pop", "<local>"), "see reviewed_set_sites");
  (("checker/expr_checker.py", "check_call", "pop", "subst.keys() - ty.unsolved_vars"),
   "names one uninferable parameter in a note; SUSPECT (seed dependent if two candidates exist); no program found that reaches it with more than one");
  (("compiler/core.py", "partially_monomorphize_args", "for", "original_ty.bound_vars"), "see reviewed_set_sites");
  (("compiler/core.py", "require_monomorphization", "for", "ty.bound_vars"), "see reviewed_set_sites");
  (("definition/struct.py", "RawStructDef.parse", "pop", "<local>"),
   "names one overridden field; SUSPECT; the duplicate check on the first method fires earlier in every program tried");
  (("tys/ty.py", "_occurs", "comp", "t.unsolved_vars"), "argument of any(): order blind")
].

Fixpoint oracles_of (l : list (site * disposition)) : list string :=
  match l with
  | [] => []
  | (_, Oracle o) :: t => o :: oracles_of t
  | (_, Reviewed _) :: t => oracles_of t
  end.
