(** V.C10.Proofs — lemmas for Props.v *)
From Coq Require Import List Bool Arith Lia Permutation.
From V.C09 Require Import Analysis SetLemmas Spec ProofsTop Props.
From V.C10 Require Import Model.
Import ListNotations.

(** * the front end reads ass_before / maybe_ass_before only through membership tests *)
Lemma first_some_ext : forall A B (f f' : A -> option B) l,
  (forall a, f a = f' a) -> first_some f l = first_some f' l.
Proof. induction l as [|a t IH]; intros H; simpl; auto. rewrite H, IH; auto. Qed.

Section Ext.
Variables (g : xcfg) (LB : lvals) (asg : list nat) (glob : nat -> bool).
Variables (d d' : nat -> bool) (m m' : nat -> nat -> bool) (rm : row -> row -> list nat).
Hypothesis Hd : forall x, d x = d' x.
Hypothesis Hm : forall w x, m w x = m' w x.

Lemma check_var_ext : forall locals xw,
  check_var g asg glob m locals xw = check_var g asg glob m' locals xw.
Proof. intros locals [x w]. unfold check_var. rewrite Hm. reflexivity. Qed.

Lemma check_bb_ext : forall b inputs,
  check_bb g LB asg glob d m b inputs = check_bb g LB asg glob d' m' b inputs.
Proof.
  intros. unfold check_bb.
  rewrite (first_some_ext _ _ (fun x => if negb (d x) && (memb x asg || negb (glob x)) then Some (NotDefined 0 x) else None)
                          (fun x => if negb (d' x) && (memb x asg || negb (glob x)) then Some (NotDefined 0 x) else None)).
  2:{ intros a. rewrite Hd. reflexivity. }
  destruct (if b =? 0 then _ else None); auto.
  rewrite (first_some_ext _ _ _ (fun s => first_some (check_var g asg glob m' (x_defs (xblk g b) ++ inputs)) (getd LB s))).
  - reflexivity.
  - intros s. apply first_some_ext. intros a. apply check_var_ext.
Qed.

Lemma bfs_ext : forall fuel queue compiled,
  bfs g LB asg glob d m rm fuel queue compiled = bfs g LB asg glob d' m' rm fuel queue compiled.
Proof.
  induction fuel as [|f IH]; intros; simpl; auto.
  destruct queue as [|[r b] q]; auto.
  destruct (assoc b compiled).
  - destruct (rows_match_on LB r r0 b (rm r r0)); auto.
  - rewrite check_bb_ext. destruct (check_bb g LB asg glob d' m' b r) as [e|[outs douts]]; auto.
Qed.

Lemma check_cfg_from_ext : forall inputs,
  check_cfg_from g LB asg glob d m rm inputs = check_cfg_from g LB asg glob d' m' rm inputs.
Proof.
  intros. unfold check_cfg_from. rewrite check_bb_ext.
  destruct (check_bb g LB asg glob d' m' 0 inputs) as [e|[outs douts]]; auto. apply bfs_ext.
Qed.
End Ext.

Lemma memb_same : forall x a b, (In x a <-> In x b) -> memb x a = memb x b.
Proof.
  intros x a b H. destruct (memb x a) eqn:Ea, (memb x b) eqn:Eb; auto.
  - apply memb_In in Ea. apply H in Ea. apply memb_In in Ea. congruence.
  - apply memb_In in Eb. apply H in Eb. apply memb_In in Eb. congruence.
Qed.

Lemma length_setv : forall A (l : list A) i v, length (setv l i v) = length l.
Proof. induction l; destruct i; simpl; auto. Qed.

Lemma length_xwith : forall g inout, length (xwith_exit_uses g inout) = length g.
Proof. intros. unfold xwith_exit_uses. apply length_setv. Qed.

Lemma nblocks_fe : forall g inout, nblocks (fe_cfg g inout) = length g.
Proof. intros. unfold fe_cfg. rewrite nblocks_with_exit_uses. unfold nblocks, base. apply map_length. Qed.

(* ass_before / maybe_ass_before that denote the same sets give the same diagnostics,
   whatever the two other oracles are *)
Lemma front_end_gen_same_sets : forall lsched rm g0 inputs inout glob D M D' M',
  same_sets (length g0) D D' -> same_sets (length g0) M M' ->
  front_end_gen lsched rm g0 inputs inout glob D M = front_end_gen lsched rm g0 inputs inout glob D' M'.
Proof.
  intros lsched rm g0 inputs inout glob D M D' M' HD HM. unfold front_end_gen.
  destruct (fst (wl_run (xwith_exit_uses g0 inout) (map (fun x => (x, exit_idx)) inout) lsched)); auto.
  apply check_cfg_from_ext.
  - intros x. rewrite length_xwith. destruct (0 <? length g0) eqn:E; simpl; auto.
    apply memb_same. apply HD. apply Nat.ltb_lt; auto.
  - intros w x. rewrite length_xwith. destruct (w <? length g0) eqn:E; simpl; auto.
    apply memb_same. apply HM. apply Nat.ltb_lt; auto.
Qed.

Lemma wf_fe : forall g0 inout, wf_cfg (base g0) = true -> wf_cfg (fe_cfg g0 inout) = true.
Proof. intros. unfold fe_cfg. apply wf_with_exit_uses; auto. Qed.

Lemma diag_oracle_independent_lemma : forall lsched rm g0 inputs inout glob,
  wf_cfg (base g0) = true ->
  forall s1 s2,
    sched_run (ass_step Repaired (fe_cfg g0 inout) (fe_names inputs)) fq
              (ass_init (fe_cfg g0 inout) (fe_names inputs) (fe_names inputs)) s1 ->
    sched_run (ass_step Repaired (fe_cfg g0 inout) (fe_names inputs)) fq
              (ass_init (fe_cfg g0 inout) (fe_names inputs) (fe_names inputs)) s2 ->
    front_end_gen lsched rm g0 inputs inout glob (befD s1) (befM s1) =
    front_end_gen lsched rm g0 inputs inout glob (befD s2) (befM s2).
Proof.
  intros lsched rm g0 inputs inout glob W s1 s2 H1 H2.
  destruct (order_independent (fe_cfg g0 inout) (wf_fe g0 inout W)) as [_ HA].
  destruct (HA _ _ _ _ H1 H2) as [HD HM]. rewrite nblocks_fe in HD, HM.
  apply front_end_gen_same_sets; auto.
Qed.

Lemma front_end_run_sched_independent : forall lsched rm g0 inputs inout glob fs1 fs2,
  wf_cfg (base g0) = true ->
  front_end_run lsched rm fs1 g0 inputs inout glob = front_end_run lsched rm fs2 g0 inputs inout glob.
Proof.
  intros lsched rm g0 inputs inout glob fs1 fs2 W. unfold front_end_run, assignment.
  destruct (run_terminates (fe_cfg g0 inout) (wf_fe g0 inout W)) as [_ HT].
  destruct (HT (fe_names inputs) (fe_names inputs) fs1) as [_ R1].
  destruct (HT (fe_names inputs) (fe_names inputs) fs2) as [_ R2].
  apply diag_oracle_independent_lemma; auto.
Qed.

(** * check_rows_match as released: the verdict does not depend on the visiting order *)
Lemma first_some_none : forall A B (f : A -> option B) l,
  first_some f l = None <-> forall a, In a l -> f a = None.
Proof.
  induction l as [|a t IH]; simpl.
  - split; auto. intros _ a [].
  - destruct (f a) eqn:E.
    + split; [discriminate|]. intros H. rewrite <- E. apply H; auto.
    + rewrite IH. split.
      * intros H b [->|Hb]; auto.
      * intros H b Hb. apply H; auto.
Qed.

Lemma rows_match_perm_verdict_lemma : forall LB r1 r2 b ks ks',
  Permutation ks ks' ->
  (rows_match_on LB r1 r2 b ks = None <-> rows_match_on LB r1 r2 b ks' = None).
Proof.
  intros LB r1 r2 b ks ks' P. unfold rows_match_on. rewrite !first_some_none.
  split; intros H a Ha; apply H.
  - eapply Permutation_in; [apply Permutation_sym; eauto|auto].
  - eapply Permutation_in; eauto.
Qed.

(* the reported variable is always a mismatching one of the visiting order *)
Lemma first_some_in : forall A B (f : A -> option B) l e,
  first_some f l = Some e -> exists a, In a l /\ f a = Some e.
Proof.
  induction l as [|a t IH]; simpl; intros e H; [discriminate|].
  destruct (f a) eqn:E.
  - inversion H; subst. exists a; auto.
  - destruct (IH e H) as [a' [Hi Hf]]. exists a'; auto.
Qed.
