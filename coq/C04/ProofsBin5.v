From Coq Require Import ZArith String List Bool Lia ZifyBool.
From V.C04 Require Import Int64 Int64Facts NumBase GenNumTable ModelNum Proofs.
Import ListNotations.
Open Scope Z_scope.
Lemma row_LtE : forall fm, bin_row fm LtE.
Proof. row. Qed.
Lemma row_Gt : forall fm, bin_row fm Gt.
Proof. row. Qed.
Lemma row_GtE : forall fm, bin_row fm GtE.
Proof. row. Qed.
