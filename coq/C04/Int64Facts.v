(** Int64Facts — lemmas about Int64.v: each HUGR op against Python's operator on the
    values the words stand for, reduced into the 64-bit range. *)
From Coq Require Import ZArith Bool Lia ZifyBool Zpow_facts.
From V.C04 Require Import Int64.
Open Scope Z_scope.

Lemma M64_eq : M64 = 2 ^ 64. Proof. reflexivity. Qed.
Lemma H64_eq : H64 = 2 ^ 63. Proof. reflexivity. Qed.
Lemma M64_H64 : M64 = 2 * H64. Proof. reflexivity. Qed.
Lemma M64_pos : 0 < M64. Proof. reflexivity. Qed.

Lemma wrap_u_word z : word (wrap_u z).
Proof. unfold word, wrap_u. apply Z.mod_pos_bound. exact M64_pos. Qed.
Lemma wrap_u_id w : word w -> wrap_u w = w.
Proof. unfold word, wrap_u. intros. apply Z.mod_small. assumption. Qed.
Lemma wrap_s_range z : srange (wrap_s z).
Proof.
  unfold srange, wrap_s. pose proof (Z.mod_pos_bound (z + H64) M64 M64_pos).
  rewrite M64_H64 in *. lia.
Qed.
Lemma to_s_range w : word w -> srange (to_s w).
Proof.
  unfold word, srange, to_s. intros. destruct (w <? H64) eqn:E; rewrite M64_H64 in *; lia.
Qed.

(* to_s w is congruent to w modulo 2^64 *)
Lemma to_s_cong w : wrap_u (to_s w) = wrap_u w.
Proof.
  unfold to_s, wrap_u. destruct (w <? H64); [reflexivity|].
  replace (w - M64) with (w + (-1) * M64) by ring. apply Z.mod_add. discriminate.
Qed.
Lemma wrap_u_to_s w : word w -> wrap_u (to_s w) = w.
Proof. intros. rewrite to_s_cong. apply wrap_u_id. assumption. Qed.

(* the word of a Python int result, read back as a signed value, is the result reduced
   into the signed range *)
Lemma to_s_wrap_u z : to_s (wrap_u z) = wrap_s z.
Proof.
  unfold to_s, wrap_u, wrap_s. destruct (z mod M64 <? H64) eqn:E; unfold M64, H64 in *;
    Z.to_euclidean_division_equations; lia.
Qed.
Lemma to_s_word_wrap_s w : word w -> to_s w = wrap_s w.
Proof. intros. rewrite <- (wrap_u_id w) at 1 by assumption. apply to_s_wrap_u. Qed.
Lemma wrap_s_id z : srange z -> wrap_s z = z.
Proof.
  unfold srange, wrap_s. intros. rewrite Z.mod_small; [ring | rewrite M64_H64; lia].
Qed.
Lemma wrap_u_idem z : wrap_u (wrap_u z) = wrap_u z.
Proof. unfold wrap_u. apply Z.mod_mod. discriminate. Qed.

Lemma to_s_nonneg w : word w -> 0 <= to_s w -> to_s w = w.
Proof. unfold word, to_s. intros. destruct (w <? H64) eqn:E; lia. Qed.
Lemma to_s_small w : 0 <= w < H64 -> to_s w = w.
Proof. unfold to_s. intros. destruct (w <? H64) eqn:E; lia. Qed.
Lemma to_s_inj a b : word a -> word b -> to_s a = to_s b -> a = b.
Proof. intros Ha Hb E. rewrite <- (wrap_u_to_s a Ha), <- (wrap_u_to_s b Hb), E. reflexivity. Qed.

(** congruence: replacing an operand by anything congruent mod 2^64 *)
Definition cong (x w : Z) : Prop := wrap_u x = wrap_u w.
Lemma cong_to_s w : cong (to_s w) w. Proof. apply to_s_cong. Qed.
Lemma cong_refl w : cong w w. Proof. reflexivity. Qed.

Lemma add_cong x y a b : cong x a -> cong y b -> wrap_u (a + b) = wrap_u (x + y).
Proof. unfold cong, wrap_u. intros E1 E2. rewrite (Zplus_mod a b), (Zplus_mod x y), E1, E2. reflexivity. Qed.
Lemma sub_cong x y a b : cong x a -> cong y b -> wrap_u (a - b) = wrap_u (x - y).
Proof. unfold cong, wrap_u. intros E1 E2. rewrite (Zminus_mod a b), (Zminus_mod x y), E1, E2. reflexivity. Qed.
Lemma mul_cong x y a b : cong x a -> cong y b -> wrap_u (a * b) = wrap_u (x * y).
Proof. unfold cong, wrap_u. intros E1 E2. rewrite (Zmult_mod a b), (Zmult_mod x y), E1, E2. reflexivity. Qed.
Lemma opp_cong x a : cong x a -> wrap_u (- a) = wrap_u (- x).
Proof. intros. replace (- a) with (0 - a) by ring. replace (- x) with (0 - x) by ring. apply sub_cong; [apply cong_refl | assumption]. Qed.
Lemma pow_cong x a e : cong x a -> wrap_u (a ^ e) = wrap_u (x ^ e).
Proof.
  unfold cong, wrap_u. intros E.
  rewrite (Zpower_mod a e M64 M64_pos), (Zpower_mod x e M64 M64_pos), E. reflexivity.
Qed.

(** ring ops, for operands read signed or unsigned *)
Lemma iadd_ok x y a b : cong x a -> cong y b -> iadd a b = wrap_u (x + y).
Proof. apply add_cong. Qed.
Lemma isub_ok x y a b : cong x a -> cong y b -> isub a b = wrap_u (x - y).
Proof. apply sub_cong. Qed.
Lemma imul_ok x y a b : cong x a -> cong y b -> imul a b = wrap_u (x * y).
Proof. apply mul_cong. Qed.
Lemma ineg_ok x a : cong x a -> ineg a = wrap_u (- x).
Proof. apply opp_cong. Qed.
Lemma ipow_ok x a e : cong x a -> ipow a e = wrap_u (x ^ e).
Proof. apply pow_cong. Qed.

Lemma iabs_ok a : word a -> iabs a = wrap_u (Z.abs (to_s a)).
Proof.
  intros H. unfold iabs. symmetry. apply wrap_u_id. pose proof (to_s_range a H).
  unfold word, srange in *. rewrite M64_H64. lia.
Qed.

(** shifts *)
Lemma ishl_ok x a k : cong x a -> 0 <= k -> ishl a k = wrap_u (Z.shiftl x k).
Proof.
  intros E Hk. unfold ishl. rewrite !Z.shiftl_mul_pow2 by assumption.
  apply mul_cong; [assumption | apply cong_refl].
Qed.
Lemma ishr_ok a k : word a -> 0 <= k -> ishr a k = wrap_u (Z.shiftr a k).
Proof.
  intros H Hk. unfold ishr. symmetry. apply wrap_u_id. unfold word in *.
  rewrite Z.shiftr_div_pow2 by assumption.
  assert (0 < 2 ^ k) by (apply Z.pow_pos_nonneg; lia).
  split; [apply Z.div_pos; lia|].
  apply Z.le_lt_trans with a; [|lia]. apply Z.div_le_upper_bound; [lia|]. nia.
Qed.

(** bitwise ops: x mod 2^64 = x land ones *)
Lemma wrap_u_land z : wrap_u z = Z.land z (Z.ones 64).
Proof. unfold wrap_u. rewrite M64_eq. symmetry. apply Z.land_ones. lia. Qed.
Lemma land_wrap x y : wrap_u (Z.land x y) = Z.land (wrap_u x) (wrap_u y).
Proof.
  rewrite !wrap_u_land. apply Z.bits_inj'. intros n Hn. rewrite !Z.land_spec.
  destruct (Z.testbit x n), (Z.testbit y n), (Z.testbit (Z.ones 64) n); reflexivity.
Qed.
Lemma lor_wrap x y : wrap_u (Z.lor x y) = Z.lor (wrap_u x) (wrap_u y).
Proof.
  rewrite !wrap_u_land. apply Z.bits_inj'. intros n Hn. rewrite !Z.land_spec, !Z.lor_spec, !Z.land_spec.
  destruct (Z.testbit x n), (Z.testbit y n), (Z.testbit (Z.ones 64) n); reflexivity.
Qed.
Lemma lxor_wrap x y : wrap_u (Z.lxor x y) = Z.lxor (wrap_u x) (wrap_u y).
Proof.
  rewrite !wrap_u_land. apply Z.bits_inj'. intros n Hn. rewrite !Z.land_spec, !Z.lxor_spec, !Z.land_spec.
  destruct (Z.testbit x n), (Z.testbit y n), (Z.testbit (Z.ones 64) n); reflexivity.
Qed.
Lemma iand_ok x y a b : word a -> word b -> cong x a -> cong y b -> iand a b = wrap_u (Z.land x y).
Proof. intros Ha Hb E1 E2. unfold iand, cong in *. rewrite land_wrap, E1, E2, !wrap_u_id by assumption. reflexivity. Qed.
Lemma ior_ok x y a b : word a -> word b -> cong x a -> cong y b -> ior a b = wrap_u (Z.lor x y).
Proof. intros Ha Hb E1 E2. unfold ior, cong in *. rewrite lor_wrap, E1, E2, !wrap_u_id by assumption. reflexivity. Qed.
Lemma ixor_ok x y a b : word a -> word b -> cong x a -> cong y b -> ixor a b = wrap_u (Z.lxor x y).
Proof. intros Ha Hb E1 E2. unfold ixor, cong in *. rewrite lxor_wrap, E1, E2, !wrap_u_id by assumption. reflexivity. Qed.
Lemma inot_ok x a : word a -> cong x a -> inot a = wrap_u (Z.lnot x).
Proof.
  intros Ha E. unfold inot. replace (Z.lnot x) with (- x - 1) by (unfold Z.lnot; lia).
  assert (wrap_u (- x - 1) = wrap_u (- a - 1)) as ->.
  { apply sub_cong; [|apply cong_refl]. unfold cong. apply opp_cong. unfold cong in *. congruence. }
  unfold wrap_u, word, M64 in *. Z.to_euclidean_division_equations; lia.
Qed.

(** division: unsigned, and signed with a POSITIVE divisor *)
Lemma idiv_u_ok a b : word a -> word b -> b <> 0 -> idiv_u a b = Some (wrap_u (a / b)).
Proof.
  intros Ha Hb Hz. unfold idiv_u, idivmod_u. destruct (b =? 0) eqn:E; [lia|]. simpl. f_equal.
  symmetry. apply wrap_u_id. unfold word in *. split; [apply Z.div_pos; lia|].
  apply Z.le_lt_trans with a; [|lia]. apply Z.div_le_upper_bound; [lia|]. nia.
Qed.
Lemma imod_u_ok a b : word a -> word b -> b <> 0 -> imod_u a b = Some (wrap_u (a mod b)).
Proof.
  intros Ha Hb Hz. unfold imod_u, idivmod_u. destruct (b =? 0) eqn:E; [lia|]. simpl. f_equal.
  symmetry. apply wrap_u_id. unfold word in *. pose proof (Z.mod_pos_bound a b). lia.
Qed.
Lemma idivmod_u_ok a b : word a -> word b -> b <> 0 -> idivmod_u a b = Some (wrap_u (a / b), wrap_u (a mod b)).
Proof.
  intros Ha Hb Hz. pose proof (idiv_u_ok a b Ha Hb Hz) as H1. pose proof (imod_u_ok a b Ha Hb Hz) as H2.
  unfold idiv_u, imod_u in *. destruct (idivmod_u a b) as [[q r]|]; simpl in *; [|discriminate].
  congruence.
Qed.
(* x, y: the Python values of dividend and divisor; the divisor positive *)
Lemma idiv_s_ok a b x y : word a -> word b -> to_s a = x -> cong y b -> 0 < y < H64 ->
  idiv_s a b = Some (wrap_u (x / y)).
Proof.
  intros Ha Hb <- E Hy. assert (b = y) as ->.
  { unfold cong in E. rewrite (wrap_u_id b Hb) in E. rewrite <- E. apply wrap_u_id. unfold word. rewrite M64_H64. lia. }
  unfold idiv_s, idivmod_s. destruct (y =? 0) eqn:E0; [lia|]. reflexivity.
Qed.
Lemma imod_s_ok a b x y : word a -> word b -> to_s a = x -> cong y b -> 0 < y < H64 ->
  imod_s a b = Some (wrap_u (x mod y)).
Proof.
  intros Ha Hb <- E Hy. assert (b = y) as ->.
  { unfold cong in E. rewrite (wrap_u_id b Hb) in E. rewrite <- E. apply wrap_u_id. unfold word. rewrite M64_H64. lia. }
  unfold imod_s, idivmod_s. destruct (y =? 0) eqn:E0; [lia|]. simpl. f_equal.
  symmetry. apply wrap_u_id. unfold word. pose proof (Z.mod_pos_bound (to_s a) y). rewrite M64_H64. lia.
Qed.
Lemma idivmod_s_ok a b x y : word a -> word b -> to_s a = x -> cong y b -> 0 < y < H64 ->
  idivmod_s a b = Some (wrap_u (x / y), wrap_u (x mod y)).
Proof.
  intros Ha Hb Ex E Hy. pose proof (idiv_s_ok a b x y Ha Hb Ex E Hy) as H1. pose proof (imod_s_ok a b x y Ha Hb Ex E Hy) as H2.
  unfold idiv_s, imod_s in *. destruct (idivmod_s a b) as [[q r]|]; simpl in *; [|discriminate].
  congruence.
Qed.

(* the divisor is a nat: it is read unsigned, which is its Python value, whatever its size *)
Lemma idiv_s_un a b : word a -> word b -> b <> 0 -> idiv_s a b = Some (wrap_u (to_s a / b)).
Proof. intros Ha Hb Hz. unfold idiv_s, idivmod_s. destruct (b =? 0) eqn:E0; [lia|]. reflexivity. Qed.
Lemma imod_s_un a b : word a -> word b -> b <> 0 -> imod_s a b = Some (wrap_u (to_s a mod b)).
Proof.
  intros Ha Hb Hz. unfold imod_s, idivmod_s. destruct (b =? 0) eqn:E0; [lia|]. simpl. f_equal.
  symmetry. apply wrap_u_id. unfold word in *. pose proof (Z.mod_pos_bound (to_s a) b). lia.
Qed.
Lemma idivmod_s_un a b : word a -> word b -> b <> 0 ->
  idivmod_s a b = Some (wrap_u (to_s a / b), wrap_u (to_s a mod b)).
Proof.
  intros Ha Hb Hz. pose proof (idiv_s_un a b Ha Hb Hz) as H1. pose proof (imod_s_un a b Ha Hb Hz) as H2.
  unfold idiv_s, imod_s in *. destruct (idivmod_s a b) as [[q r]|]; simpl in *; [|discriminate].
  congruence.
Qed.

(** comparisons *)
Lemma ieq_s_ok a b : word a -> word b -> ieq a b = (to_s a =? to_s b).
Proof.
  intros Ha Hb. unfold ieq. destruct (a =? b) eqn:E1, (to_s a =? to_s b) eqn:E2; try reflexivity.
  - apply Z.eqb_eq in E1. subst. lia.
  - apply Z.eqb_eq in E2. apply to_s_inj in E2; try assumption. lia.
Qed.
Lemma ine_s_ok a b : word a -> word b -> ine a b = negb (to_s a =? to_s b).
Proof. intros. unfold ine. f_equal. apply ieq_s_ok; assumption. Qed.

Lemma is_to_u_ok a : word a -> 0 <= to_s a -> is_to_u a = Some (wrap_u (to_s a)).
Proof.
  intros Ha H. unfold is_to_u. destruct (to_s a <? 0) eqn:E; [lia|]. f_equal. symmetry. apply wrap_u_to_s. assumption.
Qed.

Lemma is_to_u_small a : word a -> srange a -> is_to_u a = Some (wrap_u a).
Proof.
  intros Ha Hs. unfold is_to_u. rewrite to_s_small by (unfold word, srange in *; lia).
  destruct (a <? 0) eqn:E; [unfold word in *; lia|]. f_equal. symmetry. apply wrap_u_id. assumption.
Qed.
Lemma abs_nat_ok a : word a -> a = wrap_u (Z.abs a).
Proof. intros Ha. rewrite Z.abs_eq by (unfold word in *; lia). symmetry. apply wrap_u_id. assumption. Qed.

Lemma to_s_0 : to_s 0 = 0. Proof. reflexivity. Qed.
Lemma word_0 : word 0. Proof. unfold word, M64. lia. Qed.
Lemma ilt_s_zero_false w : word w -> (0 <= to_s w \/ w < H64) -> ilt_s w 0 = false.
Proof.
  intros Hw [H|H]; unfold ilt_s; rewrite to_s_0.
  - lia.
  - rewrite to_s_small by (unfold word in Hw; lia). unfold word in Hw. lia.
Qed.
Lemma ine_zero_s w : word w -> ine w 0 = negb (to_s w =? 0).
Proof. intros. rewrite (ine_s_ok w 0 H word_0), to_s_0. reflexivity. Qed.
Lemma ine_zero_u w : ine 0 w = negb (w =? 0).
Proof. unfold ine. rewrite Z.eqb_sym. reflexivity. Qed.
(* mixed nat/int equality, the nat below 2^63: ieq(b, a) with a the nat *)
Lemma ieq_mixed_l a b : word a -> word b -> a < H64 -> ieq b a = (a =? to_s b).
Proof. intros Ha Hb Hs. rewrite (ieq_s_ok b a Hb Ha), (to_s_small a) by (unfold word in Ha; lia). apply Z.eqb_sym. Qed.
Lemma ieq_mixed_r a b : word a -> word b -> b < H64 -> ieq a b = (to_s a =? b).
Proof. intros Ha Hb Hs. rewrite (ieq_s_ok a b Ha Hb), (to_s_small b) by (unfold word in Hb; lia). reflexivity. Qed.
Lemma ine_mixed_l a b : word a -> word b -> a < H64 -> ine b a = negb (a =? to_s b).
Proof. intros. unfold ine. fold (ieq b a). rewrite ieq_mixed_l by assumption. reflexivity. Qed.
Lemma ine_mixed_r a b : word a -> word b -> b < H64 -> ine a b = negb (to_s a =? b).
Proof. intros. unfold ine. fold (ieq a b). rewrite ieq_mixed_r by assumption. reflexivity. Qed.
