From Coq Require Import ZArith String List Bool Lia ZifyBool.
From V.C04 Require Import Int64 Int64Facts NumBase GenNumTable ModelNum Proofs.
Import ListNotations.
Open Scope Z_scope.

Lemma all_pow_ok : forall fm, Forall (fun c => pow_ok fm (fst c) (snd c)) ty_pairs.
Proof. intro fm. unfold ty_pairs, all_gty. all_entries ltac:(unfold pow_ok). Qed.
Lemma all_divmod_ok : forall fm, Forall (fun c => divmod_ok fm (fst c) (snd c)) ty_pairs.
Proof. intro fm. unfold ty_pairs, all_gty. all_entries ltac:(unfold divmod_ok). Qed.
