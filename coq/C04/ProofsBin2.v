From Coq Require Import ZArith String List Bool Lia ZifyBool.
From V.C04 Require Import Int64 Int64Facts NumBase GenNumTable ModelNum Proofs.
Import ListNotations.
Open Scope Z_scope.
Lemma row_FloorDiv : forall fm, bin_row fm FloorDiv.
Proof. row. Qed.
Lemma row_Mod : forall fm, bin_row fm Mod.
Proof. row. Qed.
Lemma row_Pow : forall fm, bin_row fm Pow.
Proof. row. Qed.
