From Coq Require Import ZArith String List Bool Lia ZifyBool.
From V.C04 Require Import Int64 Int64Facts NumBase GenNumTable ModelNum Proofs.
Import ListNotations.
Open Scope Z_scope.

Lemma all_un_ok : forall fm, Forall (fun c => un_ok fm (fst c) (snd c)) un_entries.
Proof. intro fm. unfold un_entries, all_pyun, all_gty. all_entries ltac:(unfold un_ok). Qed.
Lemma all_not_ok : forall fm, Forall (not_ok fm) all_gty.
Proof. intro fm. unfold all_gty. all_entries ltac:(unfold not_ok). Qed.
Lemma all_conv_ok : forall fm, Forall (fun c => conv_ok fm (fst c) (snd c)) ty_pairs.
Proof. intro fm. unfold ty_pairs, all_gty. all_entries ltac:(unfold conv_ok). Qed.
Lemma all_abs_ok : forall fm, Forall (abs_ok fm) all_gty.
Proof. intro fm. unfold all_gty. all_entries ltac:(unfold abs_ok). Qed.
