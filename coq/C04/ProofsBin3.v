From Coq Require Import ZArith String List Bool Lia ZifyBool.
From V.C04 Require Import Int64 Int64Facts NumBase GenNumTable ModelNum Proofs.
Import ListNotations.
Open Scope Z_scope.
Lemma row_LShift : forall fm, bin_row fm LShift.
Proof. row. Qed.
Lemma row_RShift : forall fm, bin_row fm RShift.
Proof. row. Qed.
Lemma row_BitOr : forall fm, bin_row fm BitOr.
Proof. row. Qed.
Lemma row_BitXor : forall fm, bin_row fm BitXor.
Proof. row. Qed.
Lemma row_BitAnd : forall fm, bin_row fm BitAnd.
Proof. row. Qed.
