(** Proofs — every entry of the generated tables against Python's semantics. *)
From Coq Require Import ZArith String List Bool Lia ZifyBool.
From V.C04 Require Import Int64 Int64Facts NumBase GenNumTable ModelNum.
Import ListNotations.
Open Scope Z_scope.

(** the tables of this run *)
Definition T : tables :=
  mkTables gen_methods gen_unary_table gen_binary_table gen_builtin_table gen_binary_dispatch
           gen_kind_order gen_reversing_prefix gen_reversing_order gen_bool_dunder.

Section P.
Variable fm : FloatModel.
Local Notation value := (value fm).
Local Notation pyv := (pyv fm).

(** statement for one (operator, left type, right type): either Guppy rejects the
    combination, or for all operands in the property's domain and outside the listed
    known-bad regions, whenever the model states Python's result, Guppy's HUGR computes
    exactly its encoding in the result type *)
Definition claim (r : option typed) (env : list value) (p : option pyv) : Prop :=
  match r with
  | None => True
  | Some (_, rt) =>
      match p with
      | None => True
      | Some p => exists v, encode fm rt p = Some v /\ run fm r env = Some (v, rt)
      end
  end.

Definition bin_ok (op : pybin) (t1 t2 : gty) : Prop :=
  forall a b pa pb, has_ty fm t1 a -> has_ty fm t2 b -> decode fm t1 a = Some pa -> decode fm t2 b = Some pb ->
    py_dom fm op pa pb -> ~ known_bad fm op t1 t2 pa pb ->
    claim (resolve_bin T op t1 t2) [a; b] (py_bin fm op pa pb).

Definition un_ok (op : pyun) (t : gty) : Prop :=
  forall a pa, has_ty fm t a -> decode fm t a = Some pa ->
    claim (resolve_un T op t) [a] (py_un fm op pa).

Definition not_ok (t : gty) : Prop :=
  forall a pa, has_ty fm t a -> decode fm t a = Some pa ->
    claim (resolve_not T t) [a] (option_map (fun b => PB (negb b)) (py_truth fm pa)).

Definition conv_ok (target t : gty) : Prop :=
  forall a pa, has_ty fm t a -> decode fm t a = Some pa -> conv_dom fm target pa ->
    claim (resolve_conv T target t) [a] (py_conv fm target pa).

Definition abs_ok (t : gty) : Prop :=
  forall a pa, has_ty fm t a -> decode fm t a = Some pa ->
    claim (resolve_builtin T "abs" [t]) [a] (py_abs fm pa).

Definition pow_ok (t1 t2 : gty) : Prop :=
  forall a b pa pb, has_ty fm t1 a -> has_ty fm t2 b -> decode fm t1 a = Some pa -> decode fm t2 b = Some pb ->
    py_dom fm Pow pa pb -> ~ known_bad fm Pow t1 t2 pa pb ->
    claim (resolve_builtin T "pow" [t1; t2]) [a; b] (py_bin fm Pow pa pb).

Definition divmod_ok (t1 t2 : gty) : Prop :=
  forall a b pa pb, has_ty fm t1 a -> has_ty fm t2 b -> decode fm t1 a = Some pa -> decode fm t2 b = Some pb ->
    py_dom fm FloorDiv pa pb -> ~ known_bad fm FloorDiv t1 t2 pa pb ->
    claim (resolve_builtin T "divmod" [t1; t2]) [a; b] (py_divmod fm pa pb).

(** finishing lemmas *)
Lemma fin_w (X Y : Z) (rt : rty) : X = Y -> Some (VW X, rt) = Some (@VW fm Y, rt).
Proof. intros ->. reflexivity. Qed.
Lemma fin_wo (X : option Z) (Y : Z) (rt : rty) : X = Some Y ->
  option_map (fun v : value => (v, rt)) (option_map VW X) = Some (VW Y, rt).
Proof. intros ->. reflexivity. Qed.
Lemma fin_b (X Y : bool) (rt : rty) : X = Y -> Some (VB X, rt) = Some (@VB fm Y, rt).
Proof. intros ->. reflexivity. Qed.
Lemma fin_p (X : option (Z * Z)) (Y1 Y2 : Z) (rt : rty) : X = Some (Y1, Y2) ->
  option_map (fun v : value => (v, rt)) (option_map (fun p => VP (VW (fst p)) (VW (snd p))) X) = Some (VP (VW Y1) (VW Y2), rt).
Proof. intros ->. reflexivity. Qed.

End P.

(** tactics *)
Ltac synrefl := lazymatch goal with |- ?x = ?x => reflexivity end.
Ltac side :=
  first [ assumption | apply cong_to_s | apply cong_refl | synrefl
        | (apply to_s_small; unfold word, srange, M64, H64 in *; lia)
        | (unfold cong; rewrite to_s_small by (unfold word, srange, M64, H64 in *; lia); synrefl)
        | (unfold word, srange, M64, H64 in *; lia) ].

Ltac ranges :=
  repeat match goal with
  | H : word ?w |- _ => lazymatch goal with
      | _ : srange (to_s w) |- _ => fail
      | _ => pose proof (to_s_range w H) end
  end.

(* a signed reading known to be non-negative is the word itself *)
Ltac norm_to_s :=
  repeat match goal with
  | H : word ?w |- context [to_s ?w] =>
      let E := fresh "E" in
      assert (E : to_s w = w) by (apply (to_s_nonneg w H); unfold srange, H64 in *; lia);
      rewrite E in *
  end.

Ltac arith_goal :=
  first
  [ eapply iadd_ok; side | eapply isub_ok; side | eapply imul_ok; side | eapply ineg_ok; side
  | eapply ipow_ok; side
  | eapply iabs_ok; side
  | eapply ishl_ok; side
  | eapply ishr_ok; side
  | eapply iand_ok; side | eapply ior_ok; side | eapply ixor_ok; side | eapply inot_ok; side
  | eapply idiv_u_ok; side | eapply imod_u_ok; side | eapply idivmod_u_ok; side
  | eapply idiv_s_ok; side | eapply imod_s_ok; side | eapply idivmod_s_ok; side
  | eapply idiv_s_un; side | eapply imod_s_un; side | eapply idivmod_s_un; side
  | eapply is_to_u_ok; side | eapply is_to_u_small; side | eapply abs_nat_ok; side
  | (symmetry; apply wrap_u_id; assumption)
  | (symmetry; apply wrap_u_to_s; assumption) ].

(* comparison goals.  Constants stay folded (no case analysis on to_s: such proofs are slow
   to re-check at Qed); small nats are turned into their signed reading by to_s_small *)
Ltac lia_w := unfold word, srange in *; pose proof M64_H64; lia.
Ltac small_nats :=
  repeat match goal with
  | H : word ?w |- context [to_s ?w] => rewrite (to_s_small w) by lia_w
  end.
Ltac cmp_goal :=
  first
  [ (unfold ieq, ine, ilt_u, ile_u, igt_u, ige_u, ilt_s, ile_s, igt_s, ige_s; synrefl)
  | (apply ieq_s_ok; assumption) | (apply ine_s_ok; assumption)
  | (apply ieq_mixed_l; first [assumption | lia_w]) | (apply ieq_mixed_r; first [assumption | lia_w])
  | (apply ine_mixed_l; first [assumption | lia_w]) | (apply ine_mixed_r; first [assumption | lia_w])
  | (f_equal; apply ine_zero_s; assumption) | (f_equal; apply ine_zero_u)
  | (apply ine_zero_s; assumption) | (apply ine_zero_u)
  | (unfold ilt_u, ile_u, igt_u, ige_u, ilt_s, ile_s, igt_s, ige_s; small_nats; synrefl) ].

Ltac model_cbn :=
  cbn [claim py_bin py_un py_truth py_conv py_abs py_divmod py_cmp_Z py_cmp_F py_arith_Z py_arith_F option_map
       encode encode1 decode has_ty py_dom conv_dom known_bad known_bad_Z fst snd] in *.

Ltac compute_resolve :=
  match goal with
  | |- context [claim _ ?R _ _] =>
      let r := eval vm_compute in R in
      let E := fresh "Eres" in
      assert (E : R = r) by (vm_compute; reflexivity);
      rewrite E; clear E
  end.

Ltac run_cbn :=
  unfold run;
  match goal with |- context [compile ?e] =>
    let c := eval vm_compute in (compile e) in
    let E := fresh "Ecomp" in
    assert (E : compile e = c) by (vm_compute; reflexivity);
    rewrite E; clear E end;
  cbv beta iota;
  cbn [csem nth_error sem_i2 sem_icmp sem_i1 sem_idm sem_f2 sem_f1 sem_fcmp sem_l2 option_map fst snd];
  replace (wrap_u 0) with 0 in * by (vm_compute; reflexivity); replace (wrap_u 1) with 1 in * by (vm_compute; reflexivity).

Ltac destruct_vals :=
  repeat match goal with
  | H : has_ty _ _ ?v |- _ => destruct v; cbn [has_ty] in H; try contradiction
  end;
  repeat match goal with
  | H : decode _ _ _ = Some _ |- _ => cbn [decode] in H; injection H as <-
  end.

(* int.__pow__ guards with `if exponent < 0: panic`: discharge the guard *)
Ltac pow_guard :=
  repeat match goal with
  | H : word ?w |- context [ilt_s ?w 0] =>
      rewrite (ilt_s_zero_false w H) by (first [ (right; lia_w) | (left; lia_w) ]); cbv beta iota
  end.

Ltac finish :=
  first
  [ synrefl
  | (apply fin_w; arith_goal)
  | (apply fin_wo; arith_goal)
  | (apply fin_p; arith_goal)
  | (apply fin_b; first [synrefl | cmp_goal]) ].

Ltac entry :=
  intros;
  compute_resolve;
  first [ exact I
        | (destruct_vals; model_cbn; ranges;
           first [ exact I
                 | (eexists; split; [synrefl || reflexivity|]; run_cbn; norm_to_s; pow_guard;
                    cbn [csem nth_error sem_i2 option_map]; finish) ]) ].

(* float -> int / nat: unwrap(trunc_s/u) *)
Ltac trunc_entry :=
  intros; compute_resolve; destruct_vals;
  let Et := fresh "Et" in
  match goal with H : conv_dom _ _ (PF ?f) |- _ =>
    cbn [conv_dom] in H; destruct (f_trunc _ f) as [z|] eqn:Et; [|contradiction] end;
  cbn [claim py_conv option_map]; rewrite Et; cbn [option_map encode encode1];
  eexists; split; [reflexivity|]; run_cbn; unfold trunc_in; rewrite Et;
  match goal with |- context [if ?c then _ else _] => replace c with true by (unfold M64, H64 in *; lia) end;
  reflexivity.

(* int(b) / nat(b): if b then 1 else 0 *)
Ltac bool_entry :=
  intros; compute_resolve; destruct_vals;
  match goal with b : bool |- _ => destruct b end;
  model_cbn; eexists; (split; [reflexivity|]); vm_compute; reflexivity.

Ltac entry' := first [ entry | trunc_entry | bool_entry ].

Ltac all_entries unf :=
  cbn [list_prod map app];
  repeat (apply Forall_cons; [ cbn [fst snd]; unf; timeout 1200 entry' | ]); apply Forall_nil.


Definition ty_pairs : list (gty * gty) := list_prod all_gty all_gty.
Definition bin_entries : list (pybin * (gty * gty)) := list_prod all_pybin ty_pairs.
Definition un_entries : list (pyun * gty) := list_prod all_pyun all_gty.

(* one operator against the 16 operand type pairs *)
Definition bin_row (fm : FloatModel) (op : pybin) : Prop :=
  Forall (fun p => bin_ok fm op (fst p) (snd p)) ty_pairs.

Ltac row := intro fm; unfold bin_row, ty_pairs, all_gty; all_entries ltac:(unfold bin_ok).

Lemma Forall_prod {A B} (P : A -> B -> Prop) (l1 : list A) (l2 : list B) :
  Forall (fun a => Forall (fun b => P a b) l2) l1 ->
  Forall (fun c => P (fst c) (snd c)) (list_prod l1 l2).
Proof.
  intros H. apply Forall_forall. intros [a b] Hin. apply in_prod_iff in Hin. destruct Hin as [Ha Hb].
  rewrite Forall_forall in H. specialize (H a Ha). rewrite Forall_forall in H. exact (H b Hb).
Qed.
