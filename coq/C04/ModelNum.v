(** ModelNum — executable model of how a numeric operator application is type-checked and
    lowered (checker dispatch over the GENERATED tables), the HUGR-level semantics of
    the result, and Python's semantics of the same operator.  Definitions only.

    resolve : (tables) -> operator -> operand types -> tree of HUGR ops over the operands
       models ExprSynthesizer._synthesize_binary / visit_UnaryOp / to_bool, try_coerce_to,
       ReversingChecker, DunderChecker, the custom compilers named in std/num.py and the
       inlining of the methods written in Guppy.
    compile : tree with op names as strings -> tree with op constructors (fails on a name
       that has no semantics in Int64.v / the float model)
    csem    : HUGR semantics of the tree (Int64.v; floats through an abstract IEEE model)
    py_*    : Python's result, written on unbounded Z / the same float model *)
From Coq Require Import ZArith String List Bool DecimalString.
From V.C04 Require Import Int64 NumBase.
Import ListNotations.
Open Scope string_scope.

(* ------------------------------------------------------------------------------------ *)
(** * 1. Resolution (checker + custom compilers) *)

Inductive rexpr :=
| RArg (n : nat)
| RInt (z : Z)                                   (* int literal (signed IntVal) *)
| RFloat0
| ROp (ext name : string) (args : list rexpr)
| RTuple (a b : rexpr)
| RIf (c a b : rexpr)
| RPanicIf (c e : rexpr)
| RUnwrap (e : rexpr).

Record tables := mkTables {
  t_methods : list meth;
  t_unary : list (pyun * string);
  t_binary : list (pybin * string * string);
  t_builtin : list (string * impl);
  t_dispatch : list (side * whichop * list side);
  t_kinds : list gty;
  t_rprefix : string;
  t_rorder : list nat;
  t_booldunder : string }.

Definition lookup (T : tables) (t : gty) (n : string) : option meth :=
  find (fun m => gty_eqb (m_ty m) t && String.eqb (m_name m) n) (t_methods T).

Fixpoint index_of (t : gty) (l : list gty) : option nat :=
  match l with
  | [] => None
  | x :: r => if gty_eqb x t then Some 0%nat else option_map S (index_of t r)
  end.

(* act.kind < exp.kind *)
Definition kind_lt (T : tables) (a b : gty) : bool :=
  match index_of a (t_kinds T), index_of b (t_kinds T) with
  | Some i, Some j => Nat.ltb i j
  | _, _ => false end.

(* f"__{exp.kind.name.lower()}__" *)
Definition kind_dunder (t : gty) : string :=
  match t with TNat => "__nat__" | TInt => "__int__" | TFloat => "__float__" | TBool => "__bool__" end.

(* ReversingChecker.parse_name: "__" ++ prefix ++ rest  |->  "__" ++ rest *)
Definition strip_reversed (T : tables) (n : string) : option string :=
  let p := "__" ++ t_rprefix T in
  if String.prefix p n then Some ("__" ++ substring (String.length p) (String.length n - String.length p) n)
  else None.

Fixpoint map_opt {A B} (f : A -> option B) (l : list A) : option (list B) :=
  match l with
  | [] => Some []
  | x :: r => match f x, map_opt f r with Some y, Some ys => Some (y :: ys) | _, _ => None end
  end.

Fixpoint first_some {A B} (f : A -> option B) (l : list A) : option B :=
  match l with
  | [] => None
  | x :: r => match f x with Some y => Some y | None => first_some f r end
  end.

Definition typed := (rexpr * rty)%type.

Inductive request :=
| QCall (recv : gty) (name : string) (args : list typed)
| QExpr (env : list typed) (g : gexpr)
| QBin (op : pybin) (l r : typed)
| QCoerce (e : typed) (exp : gty)
| QToBool (e : typed).

Definition scalar_of (t : rty) : option gty := match t with RScalar g => Some g | _ => None end.

Fixpoint zip_opt {A B} (l : list A) (m : list B) : option (list (A * B)) :=
  match l, m with
  | [], [] => Some []
  | x :: l', y :: m' => option_map (cons (x, y)) (zip_opt l' m')
  | _, _ => None end.

Fixpoint res (T : tables) (fuel : nat) (q : request) : option typed :=
  match fuel with
  | O => None
  | S f =>
    let rec := res T f in
    match q with
    | QCoerce (e, t) exp =>
        match scalar_of t with
        | None => None
        | Some a =>
          if gty_eqb a exp then Some (e, t)
          else if kind_lt T a exp then
            match rec (QCall a (kind_dunder exp) [(e, t)]) with
            | Some (e', t') => if rty_eqb t' (RScalar exp) then Some (e', t') else None
            | None => None end
          else None
        end
    | QToBool (e, t) =>
        match scalar_of t with
        | None => None
        | Some TBool => Some (e, t)
        | Some a =>
            match rec (QCall a (t_booldunder T) [(e, t)]) with
            | Some (e', RScalar TBool) => Some (e', RScalar TBool)
            | _ => None end
        end
    | QBin op l r =>
        match find (fun row => pybin_eqb (fst (fst row)) op) (t_binary T) with
        | None => None
        | Some (_, lop, rop) =>
            let pick s := match s with SLeft => l | SRight => r end in
            first_some (fun d : side * whichop * list side =>
              let '(sd, w, order) := d in
              match scalar_of (snd (pick sd)) with
              | None => None
              | Some recv => rec (QCall recv (match w with UseLop => lop | UseRop => rop end) (map pick order))
              end) (t_dispatch T)
        end
    | QCall recv name args =>
        match lookup T recv name with
        | None => None
        | Some m =>
          match m_impl m with
          | IReversed =>
              match args, strip_reversed T name with
              | [s; o], Some name' =>
                  match scalar_of (snd s), map_opt (fun i => nth_error [s; o] i) (t_rorder T) with
                  | Some st, Some args' => rec (QCall st name' args')
                  | _, _ => None end
              | _, _ => None end
          | IDunder dn n =>
              if Nat.eqb (List.length args) n then
                match args with
                | a :: _ => match scalar_of (snd a) with Some t => rec (QCall t dn args) | None => None end
                | [] => None end
              else None
          | other =>
              match zip_opt args (m_params m) with
              | None => None
              | Some ap =>
                match map_opt (fun x : typed * gty => rec (QCoerce (fst x) (snd x))) ap with
                | None => None
                | Some args' =>
                  let es := map fst args' in
                  match other with
                  | IHugr ext nm _ | IBoolHugr ext nm _ => Some (ROp ext nm es, m_ret m)
                  | ILogic nm => Some (ROp "tket.bool" nm es, m_ret m)
                  | INoop => match es with [e] => Some (e, m_ret m) | _ => None end
                  | IUnwrap ext nm _ => Some (RUnwrap (ROp ext nm es), m_ret m)
                  | IUnsupported nm => Some (ROp "unsupported" nm es, m_ret m)
                  | IBody g =>
                      match rec (QExpr args' g) with
                      | None => None
                      | Some (e, t) =>
                          match m_ret m with
                          | RScalar rt => rec (QCoerce (e, t) rt)
                          | r => if rty_eqb t r then Some (e, t) else None
                          end
                      end
                  | _ => None
                  end
                end
              end
          end
        end
    | QExpr env g =>
        match g with
        | GArg n => nth_error env n
        | GInt z => Some (RInt z, RScalar TInt)
        | GFloat0 => Some (RFloat0, RScalar TFloat)
        | GBin op a b =>
            match rec (QExpr env a), rec (QExpr env b) with
            | Some l, Some r => rec (QBin op l r)
            | _, _ => None end
        | GUn op a =>
            match rec (QExpr env a), find (fun row => pyun_eqb (fst row) op) (t_unary T) with
            | Some (e, t), Some (_, dn) =>
                match scalar_of t with Some st => rec (QCall st dn [(e, t)]) | None => None end
            | _, _ => None end
        | GNot a =>
            match rec (QExpr env a) with
            | Some x => match rec (QToBool x) with
                        | Some (e, _) => Some (ROp "tket.bool" "not" [e], RScalar TBool)
                        | None => None end
            | None => None end
        | GMeth r name args =>
            match rec (QExpr env r), map_opt (fun a => rec (QExpr env a)) args with
            | Some (e, t), Some args' =>
                match scalar_of t with Some st => rec (QCall st name ((e, t) :: args')) | None => None end
            | _, _ => None end
        | GCallTy ty a =>
            match rec (QExpr env a) with
            | Some x => rec (QCall ty "__new__" [x])
            | None => None end
        | GIf c a b =>
            match rec (QExpr env c), rec (QExpr env a), rec (QExpr env b) with
            | Some c', Some (ea, ta), Some (eb, tb) =>
                match rec (QToBool c') with
                | Some (ec, _) => if rty_eqb ta tb then Some (RIf ec ea eb, ta) else None
                | None => None end
            | _, _, _ => None end
        | GPanicIf c rest =>
            match rec (QExpr env c), rec (QExpr env rest) with
            | Some c', Some (er, tr) =>
                match rec (QToBool c') with
                | Some (ec, _) => Some (RPanicIf ec er, tr)
                | None => None end
            | _, _ => None end
        | GTuple a b =>
            match rec (QExpr env a), rec (QExpr env b) with
            | Some (ea, RScalar ta), Some (eb, RScalar tb) => Some (RTuple ea eb, RPair ta tb)
            | _, _ => None end
        end
    end
  end.

Definition FUEL : nat := 40.

(** the operator applications of the property, as requests *)
Definition arg (n : nat) (t : gty) : typed := (RArg n, RScalar t).
Definition resolve_bin (T : tables) (op : pybin) (t1 t2 : gty) : option typed :=
  res T FUEL (QBin op (arg 0 t1) (arg 1 t2)).
Definition resolve_un (T : tables) (op : pyun) (t : gty) : option typed :=
  res T FUEL (QExpr [arg 0 t] (GUn op (GArg 0))).
Definition resolve_not (T : tables) (t : gty) : option typed :=
  res T FUEL (QExpr [arg 0 t] (GNot (GArg 0))).
(* int(x) float(x) nat(x) bool(x) *)
Definition resolve_conv (T : tables) (target t : gty) : option typed :=
  res T FUEL (QExpr [arg 0 t] (GCallTy target (GArg 0))).
(* abs(x), pow(x, y), divmod(x, y), round(x): module-level functions with a DunderChecker *)
Definition resolve_builtin (T : tables) (fname : string) (ts : list gty) : option typed :=
  match find (fun r => String.eqb (fst r) fname) (t_builtin T) with
  | Some (_, IDunder dn n) =>
      if Nat.eqb (List.length ts) n then
        match ts with
        | t :: _ => res T FUEL (QCall t dn (map (fun p => arg (fst p) (snd p)) (combine (seq 0 (List.length ts)) ts)))
        | [] => None end
      else None
  | _ => None end.

(** printing, for the comparison with the HUGR the real compiler emits *)
Fixpoint show (e : rexpr) : string :=
  match e with
  | RArg n => "a" ++ NilZero.string_of_uint (Nat.to_uint n)
  | RInt z => "const:" ++ NilZero.string_of_int (Z.to_int z)
  | RFloat0 => "const:0.0"
  | ROp ext nm args => ext ++ "." ++ nm ++ "(" ++ String.concat "," (map show args) ++ ")"
  | RTuple a b => "tuple(" ++ show a ++ "," ++ show b ++ ")"
  | RIf c a b => "if(" ++ show c ++ "," ++ show a ++ "," ++ show b ++ ")"
  | RPanicIf c e => "panic_if(" ++ show c ++ "," ++ show e ++ ")"
  | RUnwrap e => "unwrap(" ++ show e ++ ")"
  end.
Definition show_ty (t : gty) : string :=
  match t with TNat => "nat" | TInt => "int" | TFloat => "float" | TBool => "bool" end.
Definition show_rty (t : rty) : string :=
  match t with RScalar g => show_ty g | RPair a b => "tuple[" ++ show_ty a ++ "," ++ show_ty b ++ "]" | RUnknown => "?" end.
Definition show_typed (r : option typed) : string :=
  match r with None => "REJECTED" | Some (e, t) => show e ++ " : " ++ show_rty t end.

(* ------------------------------------------------------------------------------------ *)
(** * 2. HUGR semantics *)

Inductive iop2 := Iadd | Isub | Imul | Idiv_u | Imod_u | Idiv_s | Imod_s | Ishl | Ishr | Iand | Ior | Ixor | Ipow.
Inductive icmp := Ieq | Ine | Ilt_u | Ile_u | Igt_u | Ige_u | Ilt_s | Ile_s | Igt_s | Ige_s.
Inductive iop1 := Inot | Ineg | Iabs | Is_to_u.
Inductive idm := Idivmod_u | Idivmod_s.
Inductive fop2 := Fadd | Fsub | Fmul | Fdiv | Fpow.
Inductive fop1 := Fabs | Fneg | Ffloor | Fceil | Fround.
Inductive fcmp := Feq | Fne | Flt | Fle | Fgt | Fge.
Inductive lop2 := Land | Lor | Lxor | Leq.

Inductive cexpr :=
| CArg (n : nat)
| CInt (z : Z)
| CF0
| CI2 (op : iop2) (a b : cexpr)
| CICmp (op : icmp) (a b : cexpr)
| CI1 (op : iop1) (a : cexpr)
| CIdm (op : idm) (a b : cexpr)
| CF2 (op : fop2) (a b : cexpr)
| CF1 (op : fop1) (a : cexpr)
| CFCmp (op : fcmp) (a b : cexpr)
| CConvU (a : cexpr) | CConvS (a : cexpr)          (* convert_u / convert_s *)
| CTruncU (a : cexpr) | CTruncS (a : cexpr)        (* unwrap(trunc_u) / unwrap(trunc_s) *)
| CL2 (op : lop2) (a b : cexpr)
| CNot (a : cexpr)
| CTup (a b : cexpr)
| CIf (c a b : cexpr)
| CPanicIf (c e : cexpr).

Definition assoc {B} (n : string) (l : list (string * B)) : option B :=
  option_map snd (find (fun r => String.eqb (fst r) n) l).

Definition iop2_names := [("iadd", Iadd); ("isub", Isub); ("imul", Imul); ("idiv_u", Idiv_u); ("imod_u", Imod_u);
  ("idiv_s", Idiv_s); ("imod_s", Imod_s); ("ishl", Ishl); ("ishr", Ishr); ("iand", Iand); ("ior", Ior);
  ("ixor", Ixor); ("ipow", Ipow)].
Definition icmp_names := [("ieq", Ieq); ("ine", Ine); ("ilt_u", Ilt_u); ("ile_u", Ile_u); ("igt_u", Igt_u);
  ("ige_u", Ige_u); ("ilt_s", Ilt_s); ("ile_s", Ile_s); ("igt_s", Igt_s); ("ige_s", Ige_s)].
Definition iop1_names := [("inot", Inot); ("ineg", Ineg); ("iabs", Iabs); ("is_to_u", Is_to_u)].
Definition idm_names := [("idivmod_u", Idivmod_u); ("idivmod_s", Idivmod_s)].
Definition fop2_names := [("fadd", Fadd); ("fsub", Fsub); ("fmul", Fmul); ("fdiv", Fdiv); ("fpow", Fpow)].
Definition fop1_names := [("fabs", Fabs); ("fneg", Fneg); ("ffloor", Ffloor); ("fceil", Fceil); ("fround", Fround)].
Definition fcmp_names := [("feq", Feq); ("fne", Fne); ("flt", Flt); ("fle", Fle); ("fgt", Fgt); ("fge", Fge)].
Definition lop2_names := [("and", Land); ("or", Lor); ("xor", Lxor); ("eq", Leq)].

Definition omap2 {A B C} (f : A -> B -> C) (a : option A) (b : option B) : option C :=
  match a, b with Some x, Some y => Some (f x y) | _, _ => None end.

Fixpoint compile (e : rexpr) : option cexpr :=
  match e with
  | RArg n => Some (CArg n)
  | RInt z => Some (CInt z)
  | RFloat0 => Some CF0
  | RTuple a b => omap2 CTup (compile a) (compile b)
  | RIf c a b => match compile c, compile a, compile b with Some x, Some y, Some z => Some (CIf x y z) | _, _, _ => None end
  | RPanicIf c a => omap2 CPanicIf (compile c) (compile a)
  | RUnwrap (ROp "arithmetic.conversions" "trunc_s" [a]) => option_map CTruncS (compile a)
  | RUnwrap (ROp "arithmetic.conversions" "trunc_u" [a]) => option_map CTruncU (compile a)
  | RUnwrap _ => None
  | ROp ext nm args =>
      if String.eqb ext "arithmetic.int" then
        match args with
        | [a; b] =>
            match assoc nm iop2_names, assoc nm icmp_names, assoc nm idm_names with
            | Some o, _, _ => omap2 (CI2 o) (compile a) (compile b)
            | _, Some o, _ => omap2 (CICmp o) (compile a) (compile b)
            | _, _, Some o => omap2 (CIdm o) (compile a) (compile b)
            | _, _, _ => None end
        | [a] => match assoc nm iop1_names with Some o => option_map (CI1 o) (compile a) | None => None end
        | _ => None end
      else if String.eqb ext "arithmetic.float" then
        match args with
        | [a; b] =>
            match assoc nm fop2_names, assoc nm fcmp_names with
            | Some o, _ => omap2 (CF2 o) (compile a) (compile b)
            | _, Some o => omap2 (CFCmp o) (compile a) (compile b)
            | _, _ => None end
        | [a] => match assoc nm fop1_names with Some o => option_map (CF1 o) (compile a) | None => None end
        | _ => None end
      else if String.eqb ext "arithmetic.conversions" then
        match args with
        | [a] => if String.eqb nm "convert_u" then option_map CConvU (compile a)
                 else if String.eqb nm "convert_s" then option_map CConvS (compile a) else None
        | _ => None end
      else if String.eqb ext "tket.bool" then
        match args with
        | [a; b] => match assoc nm lop2_names with Some o => omap2 (CL2 o) (compile a) (compile b) | None => None end
        | [a] => if String.eqb nm "not" then option_map CNot (compile a) else None
        | _ => None end
      else None
  end.

(** An abstract IEEE-754 binary64 model: both the HUGR float ops and Python's float
    operators are read as THE SAME function of this record ("same IEEE operation on both
    sides"); nothing else is assumed about floats. *)
Record FloatModel := mkFloatModel {
  F : Type;
  f_zero : F;
  f_add : F -> F -> F; f_sub : F -> F -> F; f_mul : F -> F -> F; f_div : F -> F -> F; f_pow : F -> F -> F;
  f_abs : F -> F; f_neg : F -> F; f_floor : F -> F; f_ceil : F -> F; f_round : F -> F;
  f_eq : F -> F -> bool; f_lt : F -> F -> bool; f_le : F -> F -> bool;
  f_of_Z : Z -> F;                 (* correctly rounded value of an integer *)
  f_trunc : F -> option Z          (* integer part, towards zero; None for nan / inf *)
}.

Section Sem.
Variable fm : FloatModel.
Local Notation Fl := (F fm).

Inductive value := VW (w : Z) | VF (f : Fl) | VB (b : bool) | VP (a b : value).

Definition sem_i2 (op : iop2) (x y : Z) : option Z :=
  match op with
  | Iadd => Some (iadd x y) | Isub => Some (isub x y) | Imul => Some (imul x y)
  | Idiv_u => idiv_u x y | Imod_u => imod_u x y | Idiv_s => idiv_s x y | Imod_s => imod_s x y
  | Ishl => Some (ishl x y) | Ishr => Some (ishr x y)
  | Iand => Some (iand x y) | Ior => Some (ior x y) | Ixor => Some (ixor x y) | Ipow => Some (ipow x y)
  end.
Definition sem_icmp (op : icmp) (x y : Z) : bool :=
  match op with
  | Ieq => ieq x y | Ine => ine x y | Ilt_u => ilt_u x y | Ile_u => ile_u x y | Igt_u => igt_u x y
  | Ige_u => ige_u x y | Ilt_s => ilt_s x y | Ile_s => ile_s x y | Igt_s => igt_s x y | Ige_s => ige_s x y
  end.
Definition sem_i1 (op : iop1) (x : Z) : option Z :=
  match op with Inot => Some (inot x) | Ineg => Some (ineg x) | Iabs => Some (iabs x) | Is_to_u => is_to_u x end.
Definition sem_idm (op : idm) (x y : Z) : option (Z * Z) :=
  match op with Idivmod_u => idivmod_u x y | Idivmod_s => idivmod_s x y end.
Definition sem_f2 (op : fop2) : Fl -> Fl -> Fl :=
  match op with Fadd => f_add fm | Fsub => f_sub fm | Fmul => f_mul fm | Fdiv => f_div fm | Fpow => f_pow fm end.
Definition sem_f1 (op : fop1) : Fl -> Fl :=
  match op with Fabs => f_abs fm | Fneg => f_neg fm | Ffloor => f_floor fm | Fceil => f_ceil fm | Fround => f_round fm end.
Definition sem_fcmp (op : fcmp) (x y : Fl) : bool :=
  match op with
  | Feq => f_eq fm x y | Fne => negb (f_eq fm x y) | Flt => f_lt fm x y | Fle => f_le fm x y
  | Fgt => f_lt fm y x | Fge => f_le fm y x end.
Definition sem_l2 (op : lop2) (x y : bool) : bool :=
  match op with Land => andb x y | Lor => orb x y | Lxor => xorb x y | Leq => Bool.eqb x y end.
Definition trunc_in (lo hi : Z) (f : Fl) : option Z :=
  match f_trunc fm f with
  | Some z => if (lo <=? z)%Z && (z <? hi)%Z then Some (wrap_u z) else None
  | None => None end.

Fixpoint csem (c : cexpr) (env : list value) : option value :=
  match c with
  | CArg n => nth_error env n
  | CInt z => Some (VW (wrap_u z))
  | CF0 => Some (VF (f_zero fm))
  | CI2 op a b => match csem a env, csem b env with
                  | Some (VW x), Some (VW y) => option_map VW (sem_i2 op x y) | _, _ => None end
  | CICmp op a b => match csem a env, csem b env with
                    | Some (VW x), Some (VW y) => Some (VB (sem_icmp op x y)) | _, _ => None end
  | CI1 op a => match csem a env with Some (VW x) => option_map VW (sem_i1 op x) | _ => None end
  | CIdm op a b => match csem a env, csem b env with
                   | Some (VW x), Some (VW y) => option_map (fun p => VP (VW (fst p)) (VW (snd p))) (sem_idm op x y)
                   | _, _ => None end
  | CF2 op a b => match csem a env, csem b env with
                  | Some (VF x), Some (VF y) => Some (VF (sem_f2 op x y)) | _, _ => None end
  | CF1 op a => match csem a env with Some (VF x) => Some (VF (sem_f1 op x)) | _ => None end
  | CFCmp op a b => match csem a env, csem b env with
                    | Some (VF x), Some (VF y) => Some (VB (sem_fcmp op x y)) | _, _ => None end
  | CConvU a => match csem a env with Some (VW x) => Some (VF (f_of_Z fm x)) | _ => None end
  | CConvS a => match csem a env with Some (VW x) => Some (VF (f_of_Z fm (to_s x))) | _ => None end
  | CTruncU a => match csem a env with Some (VF x) => option_map VW (trunc_in 0 M64 x) | _ => None end
  | CTruncS a => match csem a env with Some (VF x) => option_map VW (trunc_in (- H64) H64 x) | _ => None end
  | CL2 op a b => match csem a env, csem b env with
                  | Some (VB x), Some (VB y) => Some (VB (sem_l2 op x y)) | _, _ => None end
  | CNot a => match csem a env with Some (VB x) => Some (VB (negb x)) | _ => None end
  | CTup a b => match csem a env, csem b env with Some x, Some y => Some (VP x y) | _, _ => None end
  | CIf c a b => match csem c env with
                 | Some (VB true) => csem a env | Some (VB false) => csem b env | _ => None end
  | CPanicIf c e => match csem c env with Some (VB false) => csem e env | _ => None end
  end.

(** Guppy's result for an operator application: resolve, compile, run *)
Definition run (r : option typed) (env : list value) : option (value * rty) :=
  match r with
  | Some (e, t) => match compile e with
                   | Some c => option_map (fun v => (v, t)) (csem c env)
                   | None => None end
  | None => None end.

(* ---------------------------------------------------------------------------------- *)
(** * 3. Python's semantics *)

(* the Python-level value a Guppy value of a given type stands for *)
Inductive pyv := PZ (z : Z) | PF (f : Fl) | PB (b : bool) | PP (a b : pyv).

Definition rd (t : gty) (w : Z) : Z := match t with TInt => to_s w | _ => w end.

Definition decode (t : gty) (v : value) : option pyv :=
  match t, v with
  | TNat, VW w => Some (PZ w)
  | TInt, VW w => Some (PZ (to_s w))
  | TFloat, VF f => Some (PF f)
  | TBool, VB b => Some (PB b)
  | _, _ => None end.

Definition has_ty (t : gty) (v : value) : Prop :=
  match t, v with
  | (TNat | TInt), VW w => word w
  | TFloat, VF _ => True
  | TBool, VB _ => True
  | _, _ => False end.

(* the Guppy value of a Python result in a result type: nat -> into [0,2^64); int -> the
   word whose signed reading is the result reduced into [-2^63, 2^63) *)
Definition encode1 (t : gty) (p : pyv) : option value :=
  match t, p with
  | (TNat | TInt), PZ z => Some (VW (wrap_u z))
  | TFloat, PF f => Some (VF f)
  | TBool, PB b => Some (VB b)
  | _, _ => None end.
Definition encode (t : rty) (p : pyv) : option value :=
  match t, p with
  | RScalar g, _ => encode1 g p
  | RPair a b, PP x y => match encode1 a x, encode1 b y with Some u, Some v => Some (VP u v) | _, _ => None end
  | _, _ => None end.

(* Python's binary operators.  [None] = this model makes no claim (the float model cannot
   express Python's exactly-rounded result: int/int true division, int<->float comparison,
   float // % divmod) or Python does not define the operation on these operands. *)
Definition py_cmp_Z (op : pybin) (x y : Z) : option bool :=
  match op with
  | Eq => Some (x =? y)%Z | NotEq => Some (negb (x =? y)%Z) | Lt => Some (x <? y)%Z | LtE => Some (x <=? y)%Z
  | Gt => Some (y <? x)%Z | GtE => Some (y <=? x)%Z | _ => None end.
Definition py_cmp_F (op : pybin) (x y : Fl) : option bool :=
  match op with
  | Eq => Some (f_eq fm x y) | NotEq => Some (negb (f_eq fm x y)) | Lt => Some (f_lt fm x y)
  | LtE => Some (f_le fm x y) | Gt => Some (f_lt fm y x) | GtE => Some (f_le fm y x) | _ => None end.
Definition py_arith_F (op : pybin) (x y : Fl) : option Fl :=
  match op with
  | Add => Some (f_add fm x y) | Sub => Some (f_sub fm x y) | Mult => Some (f_mul fm x y)
  | Div => Some (f_div fm x y) | Pow => Some (f_pow fm x y) | _ => None end.
Definition py_arith_Z (op : pybin) (x y : Z) : option Z :=
  match op with
  | Add => Some (x + y)%Z | Sub => Some (x - y)%Z | Mult => Some (x * y)%Z
  | FloorDiv => Some (py_floordiv x y) | Mod => Some (py_mod x y) | Pow => Some (py_pow x y)
  | LShift => Some (py_lshift x y) | RShift => Some (py_rshift x y)
  | BitOr => Some (Z.lor x y) | BitXor => Some (Z.lxor x y) | BitAnd => Some (Z.land x y)
  | _ => None end.

Definition py_bin (op : pybin) (a b : pyv) : option pyv :=
  match a, b with
  | PZ x, PZ y =>
      match py_cmp_Z op x y with
      | Some r => Some (PB r)
      | None => option_map PZ (py_arith_Z op x y) end
  | PF x, PF y =>
      match py_cmp_F op x y with
      | Some r => Some (PB r)
      | None => option_map PF (py_arith_F op x y) end
  | PZ x, PF y => option_map PF (py_arith_F op (f_of_Z fm x) y)     (* int converted, then the float op *)
  | PF x, PZ y => option_map PF (py_arith_F op x (f_of_Z fm y))
  | PB x, PB y =>
      match op with
      | BitAnd => Some (PB (andb x y)) | BitOr => Some (PB (orb x y)) | BitXor => Some (PB (xorb x y))
      | Eq => Some (PB (Bool.eqb x y)) | NotEq => Some (PB (negb (Bool.eqb x y)))
      | _ => None end
  | _, _ => None end.

(* the property's domain: "no division by zero, shift counts in [0, 64), non-negative
   integer exponents" *)
Definition py_dom (op : pybin) (a b : pyv) : Prop :=
  match op, a, b with
  | (FloorDiv | Mod | Div), _, PZ y => y <> 0%Z
  | Div, _, PF y => f_eq fm y (f_zero fm) = false
  | (LShift | RShift), _, PZ y => (0 <= y < 64)%Z
  | Pow, PZ _, PZ y => (0 <= y)%Z
  | _, _, _ => True end.

(* Operand regions where the unchanged /repo is KNOWN NOT to give Python's result; each
   region is shown necessary by a [_refuted] theorem in Props.v and listed in
   known_findings.json.  H64 <= nat operand: the operator implicitly coerces that nat to
   int (nat.__int__ is a no-op, i.e. a reinterpretation). *)
Definition known_bad_Z (op : pybin) (t1 t2 : gty) (x y : Z) : Prop :=
  match op, t1, t2 with
  | RShift, TInt, _ => (x < 0)%Z                                   (* ishr is a logical shift *)
  | (FloorDiv | Mod), TInt, TInt => (y < 0)%Z                      (* idiv_s/imod_s read the divisor unsigned *)
  | (FloorDiv | Mod), TNat, TInt => (y < 0 \/ H64 <= x)%Z
  | Pow, TInt, TNat => (H64 <= y)%Z
  | (Eq | NotEq | Lt | LtE | Gt | GtE), TNat, TInt => (H64 <= x)%Z
  | (Eq | NotEq | Lt | LtE | Gt | GtE), TInt, TNat => (H64 <= y)%Z
  | _, _, _ => False end.
Definition known_bad (op : pybin) (t1 t2 : gty) (a b : pyv) : Prop :=
  match a, b with PZ x, PZ y => known_bad_Z op t1 t2 x y | _, _ => False end.

Definition py_un (op : pyun) (a : pyv) : option pyv :=
  match op, a with
  | UAdd, PZ x => Some (PZ x) | USub, PZ x => Some (PZ (- x)) | Invert, PZ x => Some (PZ (py_invert x))
  | UAdd, PF x => Some (PF x) | USub, PF x => Some (PF (f_neg fm x))
  | _, _ => None end.

(* truth value *)
Definition py_truth (a : pyv) : option bool :=
  match a with
  | PZ x => Some (negb (x =? 0)%Z) | PF x => Some (negb (f_eq fm x (f_zero fm))) | PB b => Some b
  | PP _ _ => None end.

(* int(x) / nat(x) / float(x) / bool(x).  nat(x) is Python's int(x) on the domain x >= 0
   (there is no Python value for a negative nat). *)
Definition py_conv (target : gty) (a : pyv) : option pyv :=
  match target, a with
  | TBool, _ => option_map PB (py_truth a)
  | (TInt | TNat), PZ x => Some (PZ x)
  | (TInt | TNat), PB b => Some (PZ (if b then 1 else 0))
  | (TInt | TNat), PF x => option_map PZ (f_trunc fm x)
  | TFloat, PZ x => Some (PF (f_of_Z fm x))
  | TFloat, PF x => Some (PF x)
  | _, _ => None end.
Definition conv_dom (target : gty) (a : pyv) : Prop :=
  match target, a with
  | TNat, PZ x => (0 <= x)%Z
  | TInt, PF x => match f_trunc fm x with Some z => (- H64 <= z < H64)%Z | None => False end
  | TNat, PF x => match f_trunc fm x with Some z => (0 <= z < M64)%Z | None => False end
  | _, _ => True end.

Definition py_abs (a : pyv) : option pyv :=
  match a with PZ x => Some (PZ (Z.abs x)) | PF x => Some (PF (f_abs fm x)) | _ => None end.
Definition py_divmod (a b : pyv) : option pyv :=
  match a, b with PZ x, PZ y => Some (PP (PZ (py_floordiv x y)) (PZ (py_mod x y))) | _, _ => None end.

End Sem.

Arguments VW {fm}. Arguments VF {fm}. Arguments VB {fm}. Arguments VP {fm}.
Arguments PZ {fm}. Arguments PF {fm}. Arguments PB {fm}. Arguments PP {fm}.
