From Coq Require Import ZArith String List Bool Lia ZifyBool.
From V.C04 Require Import Int64 Int64Facts NumBase GenNumTable ModelNum Proofs.
Import ListNotations.
Open Scope Z_scope.
Lemma row_Add : forall fm, bin_row fm Add.
Proof. row. Qed.
Lemma row_Sub : forall fm, bin_row fm Sub.
Proof. row. Qed.
Lemma row_Mult : forall fm, bin_row fm Mult.
Proof. row. Qed.
Lemma row_Div : forall fm, bin_row fm Div.
Proof. row. Qed.
Lemma row_MatMult : forall fm, bin_row fm MatMult.
Proof. row. Qed.
