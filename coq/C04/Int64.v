(** Int64 — Z-based semantics of the HUGR [arithmetic.int] operations at width 2^6 = 64
    and of Python's integer operators, for reuse (C04, C16, C17, C18).

    A 64-bit word is a [Z] in [0, 2^64) ([word w]).  A Guppy [nat] is the word itself, a
    Guppy [int] is its two's-complement reading [to_s w].  Every op below takes and returns
    words.  The definitions are written from the op descriptions of the HUGR standard
    extensions (text quoted beside each definition; the same strings are shipped in
    hugr-py's std/_json_defs/arithmetic/int.json and the check compares them on each run).
    No proofs in this file (see Int64Facts.v). *)
From Coq Require Import ZArith Bool.
Open Scope Z_scope.

Definition M64 : Z := 18446744073709551616.   (* 2^64 *)
Definition H64 : Z := 9223372036854775808.    (* 2^63 *)

Definition word (w : Z) : Prop := 0 <= w < M64.
Definition wordb (w : Z) : bool := (0 <=? w) && (w <? M64).
Definition srange (z : Z) : Prop := - H64 <= z < H64.

(** reduction of an unbounded integer into the unsigned / signed 64-bit range *)
Definition wrap_u (z : Z) : Z := z mod M64.
Definition wrap_s (z : Z) : Z := (z + H64) mod M64 - H64.
(** signed reading of a word, and the word of a signed value *)
Definition to_s (w : Z) : Z := if w <? H64 then w else w - M64.
Definition of_s (z : Z) : Z := wrap_u z.

(** ---- HUGR arithmetic.int ops (N = 64) ------------------------------------------- *)
(* iadd: "addition modulo 2^N (signed and unsigned versions are the same op)" *)
Definition iadd (a b : Z) : Z := wrap_u (a + b).
(* isub: "subtraction modulo 2^N (signed and unsigned versions are the same op)" *)
Definition isub (a b : Z) : Z := wrap_u (a - b).
(* imul: "multiplication modulo 2^N (signed and unsigned versions are the same op)" *)
Definition imul (a b : Z) : Z := wrap_u (a * b).
(* ineg: "negation modulo 2^N (signed and unsigned versions are the same op)" *)
Definition ineg (a : Z) : Z := wrap_u (- a).
(* iabs: "convert signed to unsigned by taking absolute value" *)
Definition iabs (a : Z) : Z := Z.abs (to_s a).
(* idivmod_u: "given unsigned integers 0 <= n < 2^N, 0 <= m < 2^N, generates unsigned q, r
   where q*m+r=n, 0<=r<m (m=0 will call panic)"; idiv_u / imod_u discard one output *)
Definition idivmod_u (n m : Z) : option (Z * Z) :=
  if m =? 0 then None else Some (n / m, n mod m).
Definition idiv_u (n m : Z) : option Z := option_map fst (idivmod_u n m).
Definition imod_u (n m : Z) : option Z := option_map snd (idivmod_u n m).
(* idivmod_s: "given signed integer -2^{N-1} <= n < 2^{N-1} and unsigned 0 <= m < 2^N,
   generates signed q and unsigned r where q*m+r=n, 0<=r<m (m=0 will call panic)".
   The DIVISOR IS READ UNSIGNED.  q is returned as the word of the signed quotient. *)
Definition idivmod_s (n m : Z) : option (Z * Z) :=
  if m =? 0 then None else Some (of_s (to_s n / m), to_s n mod m).
Definition idiv_s (n m : Z) : option Z := option_map fst (idivmod_s n m).
Definition imod_s (n m : Z) : option Z := option_map snd (idivmod_s n m).
(* ishl: "shift first input left by k bits where k is unsigned interpretation of second
   input (leftmost bits dropped, rightmost bits set to zero" *)
Definition ishl (a k : Z) : Z := wrap_u (Z.shiftl a k).
(* ishr: "shift first input right by k bits where k is unsigned interpretation of second
   input (rightmost bits dropped, leftmost bits set to zero)" — a LOGICAL shift *)
Definition ishr (a k : Z) : Z := Z.shiftr a k.
(* iand / ior / ixor / inot: "bitwise AND / OR / XOR / NOT" *)
Definition iand (a b : Z) : Z := Z.land a b.
Definition ior (a b : Z) : Z := Z.lor a b.
Definition ixor (a b : Z) : Z := Z.lxor a b.
Definition inot (a : Z) : Z := M64 - 1 - a.
(* ipow: "raise first input to the power of second input, the exponent is treated as an
   unsigned integer" (result modulo 2^N like imul) *)
Definition ipow (a e : Z) : Z := wrap_u (a ^ e).
(* comparisons: "... as signed integers" / "... as unsigned integers"; ieq/ine equality *)
Definition ieq (a b : Z) : bool := a =? b.
Definition ine (a b : Z) : bool := negb (a =? b).
Definition ilt_u (a b : Z) : bool := a <? b.
Definition ile_u (a b : Z) : bool := a <=? b.
Definition igt_u (a b : Z) : bool := b <? a.
Definition ige_u (a b : Z) : bool := b <=? a.
Definition ilt_s (a b : Z) : bool := to_s a <? to_s b.
Definition ile_s (a b : Z) : bool := to_s a <=? to_s b.
Definition igt_s (a b : Z) : bool := to_s b <? to_s a.
Definition ige_s (a b : Z) : bool := to_s b <=? to_s a.
(* is_to_u: signed -> unsigned conversion; defined (same bits) on non-negative values,
   an error on negative ones (the lowering panics; the extension text is the copy-pasted
   "convert signed to unsigned by taking absolute value") *)
Definition is_to_u (a : Z) : option Z := if to_s a <? 0 then None else Some a.

(** ---- Python's operators on unbounded integers ------------------------------------- *)
(* Python's // and % are floor division / modulo with the sign of the divisor: exactly
   Coq's Z.div / Z.modulo.  >> is an arithmetic shift (floor (a / 2^k)) = Z.shiftr;
   << is a * 2^k = Z.shiftl; & | ^ ~ act on the infinite two's-complement expansion =
   Z.land / Z.lor / Z.lxor / Z.lnot; ** with a non-negative exponent is Z.pow. *)
Definition py_floordiv (a b : Z) : Z := a / b.
Definition py_mod (a b : Z) : Z := a mod b.
Definition py_lshift (a k : Z) : Z := Z.shiftl a k.
Definition py_rshift (a k : Z) : Z := Z.shiftr a k.
Definition py_invert (a : Z) : Z := Z.lnot a.
Definition py_pow (a e : Z) : Z := a ^ e.
