(** NumBase — syntax shared by the generated table (GenNumTable.v) and the model:
    Guppy scalar types, Python operator names, the implementation kinds a decorator in
    std/num.py / std/bool.py can denote, and the expression language of the few methods
    written in Guppy.  Definitions only. *)
From Coq Require Import ZArith String List Bool.
Import ListNotations.

Inductive gty := TNat | TInt | TFloat | TBool.
Inductive rty := RScalar (t : gty) | RPair (a b : gty) | RUnknown.

Inductive pybin := Add | Sub | Mult | Div | FloorDiv | Mod | Pow | LShift | RShift
                 | BitOr | BitXor | BitAnd | MatMult | Eq | NotEq | Lt | LtE | Gt | GtE.
Inductive pyun := UAdd | USub | Invert.

(* _synthesize_binary: which operand's type provides the method, which dunder of the
   binary_table row is used, and in which order the operands are passed *)
Inductive side := SLeft | SRight.
Inductive whichop := UseLop | UseRop.

(* bodies of methods written in Guppy *)
Inductive gexpr :=
| GArg (n : nat)
| GInt (z : Z)
| GFloat0
| GBin (op : pybin) (a b : gexpr)
| GUn (op : pyun) (a : gexpr)
| GNot (a : gexpr)
| GMeth (recv : gexpr) (name : string) (args : list gexpr)
| GCallTy (ty : gty) (a : gexpr)
| GIf (c a b : gexpr)
| GPanicIf (c rest : gexpr)
| GTuple (a b : gexpr).

Inductive impl :=
| IHugr (ext name : string) (nvars : nat)       (* @hugr_op(int_op/float_op(name, ...)) *)
| IBoolHugr (ext name : string) (nvars : nat)   (* BoolOpCompiler(op): the op, then make_opaque *)
| ILogic (name : string)                        (* bool_logic_op(name): tket.bool op *)
| INoop                                         (* NoopCompiler: value passed through *)
| IReversed                                     (* checker=ReversingChecker() *)
| IUnwrap (ext name : string) (nvars : nat)     (* UnwrapOpCompiler(op): op, then unwrap-or-panic *)
| IUnsupported (name : string)
| IDunder (name : string) (nargs : nat)         (* checker=DunderChecker(name, nargs) *)
| IBody (body : gexpr).                         (* @guppy method *)

Record meth := mkMeth { m_ty : gty; m_name : string; m_params : list gty; m_ret : rty; m_impl : impl }.

Definition gty_eqb (a b : gty) : bool :=
  match a, b with TNat, TNat | TInt, TInt | TFloat, TFloat | TBool, TBool => true | _, _ => false end.
Definition rty_eqb (a b : rty) : bool :=
  match a, b with
  | RScalar x, RScalar y => gty_eqb x y
  | RPair x1 x2, RPair y1 y2 => gty_eqb x1 y1 && gty_eqb x2 y2
  | _, _ => false end.
Definition pybin_eqb (a b : pybin) : bool :=
  match a, b with
  | Add, Add | Sub, Sub | Mult, Mult | Div, Div | FloorDiv, FloorDiv | Mod, Mod | Pow, Pow
  | LShift, LShift | RShift, RShift | BitOr, BitOr | BitXor, BitXor | BitAnd, BitAnd
  | MatMult, MatMult | Eq, Eq | NotEq, NotEq | Lt, Lt | LtE, LtE | Gt, Gt | GtE, GtE => true
  | _, _ => false end.
Definition pyun_eqb (a b : pyun) : bool :=
  match a, b with UAdd, UAdd | USub, USub | Invert, Invert => true | _, _ => false end.

Definition all_gty : list gty := [TNat; TInt; TFloat; TBool].
Definition all_pybin : list pybin :=
  [Add; Sub; Mult; Div; FloorDiv; Mod; Pow; LShift; RShift; BitOr; BitXor; BitAnd; MatMult;
   Eq; NotEq; Lt; LtE; Gt; GtE].
Definition all_pyun : list pyun := [UAdd; USub; Invert].
