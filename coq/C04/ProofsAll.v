From Coq Require Import ZArith String List Bool Lia ZifyBool.
From V.C04 Require Import Int64 Int64Facts NumBase GenNumTable ModelNum Proofs.
Import ListNotations.
Open Scope Z_scope.
From V.C04 Require Import ProofsBin1 ProofsBin2 ProofsBin3 ProofsBin4 ProofsBin5.

Lemma all_bin_ok : forall fm, Forall (fun c => bin_ok fm (fst c) (fst (snd c)) (snd (snd c))) bin_entries.
Proof.
  intro fm. unfold bin_entries.
  apply (Forall_prod (fun op p => bin_ok fm op (fst p) (snd p))).
  unfold all_pybin. repeat (apply Forall_cons; [
    first [ exact (row_Add fm) | exact (row_Sub fm) | exact (row_Mult fm) | exact (row_Div fm)
          | exact (row_FloorDiv fm) | exact (row_Mod fm) | exact (row_Pow fm) | exact (row_LShift fm)
          | exact (row_RShift fm) | exact (row_BitOr fm) | exact (row_BitXor fm) | exact (row_BitAnd fm)
          | exact (row_MatMult fm) | exact (row_Eq fm) | exact (row_NotEq fm) | exact (row_Lt fm)
          | exact (row_LtE fm) | exact (row_Gt fm) | exact (row_GtE fm) ] | ]).
  apply Forall_nil.
Qed.
