From Coq Require Import ZArith String List Bool.
From V.C04 Require Import Int64 NumBase GenNumTable ModelNum Proofs.
From V.C04 Require Import ProofsBin1 ProofsBin2 ProofsBin3 ProofsBin4 ProofsBin5.
Import ListNotations.

Lemma all_rows : forall fm, Forall (bin_row fm) all_pybin.
Proof.
  intro fm. unfold all_pybin.
  apply Forall_cons; [exact (row_Add fm)|].
  apply Forall_cons; [exact (row_Sub fm)|].
  apply Forall_cons; [exact (row_Mult fm)|].
  apply Forall_cons; [exact (row_Div fm)|].
  apply Forall_cons; [exact (row_FloorDiv fm)|].
  apply Forall_cons; [exact (row_Mod fm)|].
  apply Forall_cons; [exact (row_Pow fm)|].
  apply Forall_cons; [exact (row_LShift fm)|].
  apply Forall_cons; [exact (row_RShift fm)|].
  apply Forall_cons; [exact (row_BitOr fm)|].
  apply Forall_cons; [exact (row_BitXor fm)|].
  apply Forall_cons; [exact (row_BitAnd fm)|].
  apply Forall_cons; [exact (row_MatMult fm)|].
  apply Forall_cons; [exact (row_Eq fm)|].
  apply Forall_cons; [exact (row_NotEq fm)|].
  apply Forall_cons; [exact (row_Lt fm)|].
  apply Forall_cons; [exact (row_LtE fm)|].
  apply Forall_cons; [exact (row_Gt fm)|].
  apply Forall_cons; [exact (row_GtE fm)|].
  apply Forall_nil.
Qed.

Lemma all_bin_ok : forall fm, Forall (fun c => bin_ok fm (fst c) (fst (snd c)) (snd (snd c))) bin_entries.
Proof.
  intro fm. unfold bin_entries.
  exact (Forall_prod (fun op p => bin_ok fm op (fst p) (snd p)) all_pybin ty_pairs (all_rows fm)).
Qed.
