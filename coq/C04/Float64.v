(** Float64 — a concrete IEEE-754 binary64 reading of the float side of C04, on Coq's
    primitive floats (PrimFloat; spec_float / FloatOps only for exact decoding; the
    axiomatised FloatAxioms / Floats are NOT imported).  Definitions only.

    1. the concrete [FloatModel] instance [pfm]: every HUGR float op the tables use gets its
       IEEE definition (add sub mul div abs opp eqb ltb leb are the kernel primitives;
       floor, ceil, int->float conversion, float->int truncation are defined exactly through
       the decoded mantissa/exponent).  pow and round have no primitive: they stay
       parameters (only "same operation on both sides" is claimed for them).
    2. Python's float semantics where it is NOT the plain IEEE op: `//` `%` divmod (CPython's
       float_divmod: exact fmod, then the sign/rounding corrections), int/int true division
       (correctly rounded quotient), int<->float comparisons (exact, no conversion).
       These are validated against the real CPython on every run (check.py). *)
From Coq Require Import ZArith Bool List Uint63 SpecFloat PrimFloat FloatOps.
From V.C04 Require Import Int64 NumBase ModelNum.
Import ListNotations.
Open Scope Z_scope.

(** ---- bit patterns <-> floats (for witnesses and for the comparison with CPython) ---- *)
Definition sf_of_bits (b : Z) : spec_float :=
  let s := Z.odd (b / 2 ^ 63) in
  let E := (b / 2 ^ 52) mod 2 ^ 11 in
  let M := b mod 2 ^ 52 in
  if E =? 2047 then (if M =? 0 then S754_infinity s else S754_nan)
  else if E =? 0 then
    match M with Zpos p => S754_finite s p (-1074) | _ => S754_zero s end
  else match M + 2 ^ 52 with Zpos p => S754_finite s p (E - 1075) | _ => S754_nan end.
Definition float_of_bits (b : Z) : float := SF2Prim (sf_of_bits b).
Definition bits_of_float (f : float) : Z :=
  match Prim2SF f with
  | S754_nan => 9221120237041090560                       (* 0x7ff8000000000000 *)
  | S754_zero s => if s then 2 ^ 63 else 0
  | S754_infinity s => (if s then 2 ^ 63 else 0) + 2047 * 2 ^ 52
  | S754_finite s m e =>
      (if s then 2 ^ 63 else 0) +
      (if Zpos m <? 2 ^ 52 then Zpos m else (e + 1075) * 2 ^ 52 + (Zpos m - 2 ^ 52))
  end.

(** ---- exact decoding ---- *)
(* signed mantissa and exponent of a finite float: value = m * 2^e *)
Definition sf_exact (x : spec_float) : option (Z * Z) :=
  match x with
  | S754_zero _ => Some (0, 0)
  | S754_finite s m e => Some (cond_Zopp s (Zpos m), e)
  | _ => None end.
Definition exact (f : float) : option (Z * Z) := sf_exact (Prim2SF f).
Definition signed_zero (s : bool) : float := if s then neg_zero else zero.

(** ---- IEEE ops without a primitive ---- *)
(* correctly rounded (nearest-even) value of an integer: convert_s / convert_u, Python float(int) *)
Definition pf_of_Z (z : Z) : float := SF2Prim (binary_normalize prec emax z 0 false).
(* integer part towards zero: trunc_s / trunc_u, Python int(float) *)
Definition pf_trunc (f : float) : option Z :=
  match exact f with
  | Some (m, e) => Some (if 0 <=? e then m * 2 ^ e else Z.quot m (2 ^ (- e)))
  | None => None end.
Definition pf_floor (f : float) : float :=
  match exact f with
  | Some (m, e) =>
      if (0 <=? e) || (m =? 0) then f
      else let z := m / 2 ^ (- e) in if z =? 0 then zero else pf_of_Z z
  | None => f end.
Definition pf_ceil (f : float) : float :=
  match exact f with
  | Some (m, e) =>
      if (0 <=? e) || (m =? 0) then f
      else let z := - ((- m) / 2 ^ (- e)) in if z =? 0 then signed_zero (m <? 0) else pf_of_Z z
  | None => f end.

(** the concrete model; [pw] = pow, [rnd] = round stay uninterpreted *)
Definition pfm (pw : float -> float -> float) (rnd : float -> float) : FloatModel :=
  mkFloatModel float zero add sub mul div pw abs opp pf_floor pf_ceil rnd
               PrimFloat.eqb ltb leb pf_of_Z pf_trunc.

(** ---- Python's float semantics where it is not the plain IEEE op ---- *)
(* C fmod on finite x, finite non-zero y: exact remainder with the sign of x *)
Definition py_fmod (x y : float) : option float :=
  match exact x, exact y with
  | Some (mx, ex), Some (my, ey) =>
      if my =? 0 then None else
      let e := Z.min ex ey in
      let r := Z.rem (mx * 2 ^ (ex - e)) (my * 2 ^ (ey - e)) in
      Some (if r =? 0 then signed_zero (get_sign x) else SF2Prim (binary_normalize prec emax r e false))
  | _, _ => None end.

Definition half : float := div one two.
(* CPython floatobject.c, _float_div_mod *)
Definition py_float_divmod (vx wx : float) : option (float * float) :=
  match py_fmod vx wx with
  | None => None
  | Some md =>
      let dv := div (sub vx md) wx in
      let '(md, dv) :=
        if negb (PrimFloat.eqb md zero) then
          if negb (Bool.eqb (ltb wx zero) (ltb md zero)) then (add md wx, sub dv one) else (md, dv)
        else (signed_zero (get_sign wx), dv) in
      let fd :=
        if negb (PrimFloat.eqb dv zero) then
          let fl := pf_floor dv in if ltb half (sub dv fl) then add fl one else fl
        else signed_zero (get_sign (div vx wx)) in
      Some (fd, md)
  end.

(* int / int: the correctly rounded quotient (longobject.c long_true_divide) *)
Definition sf_of_int (z : Z) : spec_float :=
  match z with Z0 => S754_zero false | Zpos p => S754_finite false p 0 | Zneg p => S754_finite true p 0 end.
Definition py_truediv_Z (a b : Z) : float := SF2Prim (SFdiv prec emax (sf_of_int a) (sf_of_int b)).

(* int <op> float comparison: exact (floatobject.c float_richcompare), never via conversion *)
Definition cmp_Z_F (x : Z) (f : float) : option comparison :=     (* None = unordered (nan) *)
  match Prim2SF f with
  | S754_nan => None
  | S754_infinity s => Some (if s then Datatypes.Gt else Datatypes.Lt)
  | S754_zero _ => Some (x ?= 0)
  | S754_finite s m e =>
      let v := cond_Zopp s (Zpos m) in
      Some (if 0 <=? e then x ?= v * 2 ^ e else x * 2 ^ (- e) ?= v)
  end.
Definition cmp_op (op : pybin) (c : option comparison) : option bool :=
  let is c' := match c, c' with
               | Some Datatypes.Eq, Datatypes.Eq | Some Datatypes.Lt, Datatypes.Lt | Some Datatypes.Gt, Datatypes.Gt => true
               | _, _ => false end in
  match op with
  | Eq => Some (is Datatypes.Eq) | NotEq => Some (negb (is Datatypes.Eq))
  | Lt => Some (is Datatypes.Lt) | LtE => Some (is Datatypes.Lt || is Datatypes.Eq)
  | Gt => Some (is Datatypes.Gt) | GtE => Some (is Datatypes.Gt || is Datatypes.Eq)
  | _ => None end.
Definition py_cmp_Z_F (op : pybin) (x : Z) (f : float) : option bool := cmp_op op (cmp_Z_F x f).
Definition py_cmp_F_Z (op : pybin) (f : float) (x : Z) : option bool :=
  cmp_op op (option_map CompOpp (cmp_Z_F x f)).

Section Py.
Variable pw : float -> float -> float.
Variable rnd : float -> float.
Local Notation fm := (pfm pw rnd).

(** Python's binary operators with floats made concrete: the entries the abstract model
    leaves open ([py_bin] = None) are defined here; everything else is [py_bin]. *)
Definition pyf_divmod_op (op : pybin) (x y : float) : option (pyv fm) :=
  match py_float_divmod x y with
  | Some (q, r) => match op with FloorDiv => Some (PF (q : F fm)) | Mod => Some (PF (r : F fm)) | _ => None end
  | None => None end.

Definition pyf_bin (op : pybin) (a b : pyv fm) : option (pyv fm) :=
  match op, a, b with
  | Div, PZ x, PZ y => Some (PF (py_truediv_Z x y : F fm))
  | (FloorDiv | Mod), PF x, PF y => pyf_divmod_op op x y
  | (FloorDiv | Mod), PZ x, PF y => pyf_divmod_op op (pf_of_Z x) y
  | (FloorDiv | Mod), PF x, PZ y => pyf_divmod_op op x (pf_of_Z y)
  | (Eq | NotEq | Lt | LtE | Gt | GtE), PZ x, PF y => option_map PB (py_cmp_Z_F op x y)
  | (Eq | NotEq | Lt | LtE | Gt | GtE), PF x, PZ y => option_map PB (py_cmp_F_Z op x y)
  | _, _, _ => py_bin fm op a b end.
End Py.
