(** C04 — Numeric operators compute Python's results.

    Every statement is about the tables GENERATED on this run from std/num.py,
    std/bool.py, checker/expr_checker.py, std/_internal/checker.py, std/_internal/util.py
    and tys/ty.py ([Proofs.T]).  [fm] is an arbitrary IEEE float model: float ops are the
    same function on the HUGR side and on the Python side, nothing more is assumed.

    Reading of a statement [bin_ok fm op t1 t2]: either Guppy rejects `t1 op t2`, or for
    all operand values of those types (64-bit words; an int is read two's-complement)
    inside the property's domain (no division by zero, shift counts in [0,64),
    non-negative integer exponents) and outside the explicitly listed known-bad regions
    ([known_bad_Z], each shown necessary below), whenever the model states Python's
    result, running the HUGR ops the compiler emits gives exactly that result reduced
    modulo 2^64 into the result type's range.  No claim is made where the abstract float
    model cannot express Python's exactly rounded result: int/int true division,
    int<->float comparisons, float // % divmod (see the _partial / _refuted theorems). *)
From Coq Require Import ZArith String List Bool Lia.
From V.C04 Require Import Int64 Int64Facts NumBase GenNumTable ModelNum Proofs ProofsAll ProofsMisc ProofsMisc2.
From V.C04 Require PropsFloat.   (* float part: concrete PrimFloat model, its own file *)
Import ListNotations.
Open Scope Z_scope.

(** all 19 binary operators x 16 operand type pairs *)
Theorem binary_operators_partial : forall fm,
  Forall (fun c => bin_ok fm (fst c) (fst (snd c)) (snd (snd c))) bin_entries.
Proof. exact all_bin_ok. Qed.
Print Assumptions binary_operators_partial.

(** unary + - ~ on every type *)
Theorem unary_operators : forall fm, Forall (fun c => un_ok fm (fst c) (snd c)) un_entries.
Proof. exact all_un_ok. Qed.
Print Assumptions unary_operators.

(** `not x` on every type (truth value through __bool__) *)
Theorem not_operator : forall fm, Forall (not_ok fm) all_gty.
Proof. exact all_not_ok. Qed.
Print Assumptions not_operator.

(** int(x) nat(x) float(x) bool(x) for every source type; float -> int in range *)
Theorem conversions : forall fm, Forall (fun c => conv_ok fm (fst c) (snd c)) ty_pairs.
Proof. exact all_conv_ok. Qed.
Print Assumptions conversions.

(** abs(x), pow(x, y), divmod(x, y) *)
Theorem builtins_partial : forall fm,
  Forall (abs_ok fm) all_gty /\ Forall (fun c => pow_ok fm (fst c) (snd c)) ty_pairs /\
  Forall (fun c => divmod_ok fm (fst c) (snd c)) ty_pairs.
Proof. intro fm. split; [exact (all_abs_ok fm) | split; [exact (all_pow_ok fm) | exact (all_divmod_ok fm)]]. Qed.
Print Assumptions builtins_partial.

(** the signed reading of the result word is Python's result reduced into [-2^63, 2^63) *)
Theorem int_result_is_signed_reduction : forall z, to_s (wrap_u z) = wrap_s z /\ srange (wrap_s z) /\ word (wrap_u z).
Proof. intro z. split; [apply to_s_wrap_u | split; [apply wrap_s_range | apply wrap_u_word]]. Qed.
Print Assumptions int_result_is_signed_reduction.

(** non-vacuity: the statements above are about accepted combinations *)
Example accepted_counts :
  List.length (filter (fun c => match resolve_bin T (fst c) (fst (snd c)) (snd (snd c)) with Some _ => true | None => false end) bin_entries) = 142%nat
  /\ (exists r, resolve_bin T Add TInt TInt = Some r) /\ (exists r, resolve_bin T FloorDiv TInt TNat = Some r).
Proof. split; [vm_compute; reflexivity | split; eexists; vm_compute; reflexivity]. Qed.

(** hypotheses satisfiable on a non-trivial instance: 7 // 2 and -7 // 2 (floor) *)
Example floordiv_instance : idiv_s (of_s (-7)) (of_s 2) = Some (of_s (-4)) /\ imod_s (of_s (-7)) (of_s 2) = Some 1.
Proof. vm_compute. split; reflexivity. Qed.

(* ------------------------------------------------------------------------------------ *)
(** * Refuted entries: the known-bad regions are necessary.  Each witness is evaluated on
    the tree resolved from the generated tables. *)

Section Witness.
(* a float model is irrelevant for integer witnesses; use a trivial one *)
Definition fm0 : FloatModel :=
  mkFloatModel unit tt (fun _ _ => tt) (fun _ _ => tt) (fun _ _ => tt) (fun _ _ => tt) (fun _ _ => tt)
               (fun _ => tt) (fun _ => tt) (fun _ => tt) (fun _ => tt) (fun _ => tt)
               (fun _ _ => true) (fun _ _ => false) (fun _ _ => true) (fun _ => tt) (fun _ => None).

Definition guppy_int (op : pybin) (t1 t2 : gty) (x y : Z) : option Z :=
  match run fm0 (resolve_bin T op t1 t2) [VW (of_s x); VW (of_s y)] with
  | Some (VW w, RScalar TInt) => Some (to_s w)
  | Some (VW w, RScalar TNat) => Some w
  | Some (VB b, _) => Some (if b then 1 else 0)
  | _ => None end.

(* -8 >> 1 : Python -4, Guppy 9223372036854775804 (ishr is logical) *)
Theorem rshift_negative_int_refuted :
  exists x y, 0 <= y < 64 /\ guppy_int RShift TInt TInt x y <> Some (wrap_s (py_rshift x y)).
Proof. exists (-8), 1. split; [lia | vm_compute; discriminate]. Qed.
Example rshift_witness_values : guppy_int RShift TInt TInt (-8) 1 = Some 9223372036854775804 /\ wrap_s (py_rshift (-8) 1) = -4.
Proof. vm_compute. split; reflexivity. Qed.

(* 7 // -2 : Python -4, Guppy 0;  7 % -2 : Python -1, Guppy 7  (divisor read unsigned) *)
Theorem floordiv_negative_divisor_refuted :
  exists x y, y <> 0 /\ guppy_int FloorDiv TInt TInt x y <> Some (wrap_s (py_floordiv x y)).
Proof. exists 7, (-2). split; [lia | vm_compute; discriminate]. Qed.
Theorem mod_negative_divisor_refuted :
  exists x y, y <> 0 /\ guppy_int Mod TInt TInt x y <> Some (wrap_s (py_mod x y)).
Proof. exists 7, (-2). split; [lia | vm_compute; discriminate]. Qed.
Example div_witness_values :
  guppy_int FloorDiv TInt TInt 7 (-2) = Some 0 /\ py_floordiv 7 (-2) = -4 /\
  guppy_int Mod TInt TInt 7 (-2) = Some 7 /\ py_mod 7 (-2) = -1.
Proof. vm_compute. repeat split; reflexivity. Qed.
Theorem divmod_negative_divisor_refuted :
  run fm0 (resolve_builtin T "divmod" [TInt; TInt]) [VW (of_s 7); VW (of_s (-2))]
  <> Some (VP (VW (of_s (py_floordiv 7 (-2)))) (VW (of_s (py_mod 7 (-2)))), RPair TInt TInt).
Proof. vm_compute. discriminate. Qed.

(* coerced forms: a nat >= 2^63 is reinterpreted as a negative int.
   nat(2^63) < int(0): Python False, Guppy True;  nat(2^64-1) == int(-1): Python False, Guppy True;
   nat(2^63) // int(1): Python 2^63 (-> -2^63 as int), fine by accident, but
   nat(2^63+2) // int(2): Python 2^62+1, Guppy -(2^62-1) *)
Theorem mixed_nat_int_compare_refuted :
  exists x y, 0 <= x < M64 /\ srange y /\
    match run fm0 (resolve_bin T Lt TNat TInt) [VW x; VW (of_s y)] with
    | Some (VB b, _) => b <> (x <? y) | _ => False end.
Proof. exists H64, 0. split; [unfold M64, H64; lia | split; [unfold srange, H64; lia | vm_compute; discriminate]]. Qed.
Theorem mixed_nat_int_eq_refuted :
  match run fm0 (resolve_bin T Eq TNat TInt) [VW (M64 - 1); VW (of_s (-1))] with
  | Some (VB b, _) => b = true /\ (M64 - 1 =? -1) = false | _ => False end.
Proof. vm_compute. split; reflexivity. Qed.
Theorem mixed_nat_int_floordiv_refuted :
  match run fm0 (resolve_bin T FloorDiv TNat TInt) [VW (H64 + 2); VW (of_s 2)] with
  | Some (VW w, _) => w <> wrap_u (py_floordiv (H64 + 2) 2) | _ => False end.
Proof. vm_compute. discriminate. Qed.
(* int ** nat with a nat exponent >= 2^63: Python 1 ** 2^63 = 1, Guppy panics (None) *)
Theorem pow_big_nat_exponent_refuted :
  run fm0 (resolve_bin T Pow TInt TNat) [VW 1; VW H64] = None /\ py_pow 1 H64 = 1.
Proof. split; [vm_compute; reflexivity | unfold py_pow; apply Z.pow_1_l; unfold H64; lia]. Qed.
End Witness.
