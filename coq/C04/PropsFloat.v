(** C04, float part — concrete IEEE-754 binary64 model on Coq's primitive floats.
    [pfm pw rnd] (Float64.v) gives every HUGR float op of the tables its IEEE definition
    (pow / round stay parameters).  [pyf_bin] is Python's semantics with the entries that
    are not a plain IEEE op made concrete (float // % via CPython's float_divmod, int/int
    true division correctly rounded, int<->float comparison exact); it is validated against
    the real CPython on every run. *)
From Coq Require Import ZArith String List Bool PrimFloat FloatOps.
From V.C04 Require Import Int64 NumBase GenNumTable ModelNum Proofs ProofsAll ProofsMisc ProofsMisc2 Float64.
Import ListNotations.
Open Scope Z_scope.

(** Same IEEE operation on both sides, for ALL floats (nan, +-0, inf included): the
    table-wide theorems of Props.v hold for the concrete model, i.e. for the float entries
    float add sub mul truediv are IEEE add/sub/mul/div, == != < <= > >= are IEEE eq/lt/le (false on
    nan; != true on nan), unary - / abs are sign operations, float(int) is the correctly
    rounded conversion, int(float) the truncation (in range), bool(float) is `x != 0.0`,
    and mixed int/nat with float arithmetic forms convert the integer operand first, exactly
    as CPython does.  For pow and round: the same uninterpreted function. *)
Theorem float_entries_same_ieee_operation : forall pw rnd,
  let fm := pfm pw rnd in
  Forall (fun c => bin_ok fm (fst c) (fst (snd c)) (snd (snd c))) bin_entries /\
  Forall (fun c => un_ok fm (fst c) (snd c)) un_entries /\
  Forall (not_ok fm) all_gty /\
  Forall (fun c => conv_ok fm (fst c) (snd c)) ty_pairs /\
  Forall (abs_ok fm) all_gty /\ Forall (fun c => pow_ok fm (fst c) (snd c)) ty_pairs.
Proof.
  intros pw rnd fm.
  repeat split; [apply all_bin_ok | apply all_un_ok | apply all_not_ok | apply all_conv_ok | apply all_abs_ok | apply all_pow_ok].
Qed.
Print Assumptions float_entries_same_ieee_operation.

(** observation of a result as bit patterns / booleans *)
Definition obs {fm : FloatModel} (tob : F fm -> Z) (r : option (value fm * rty)) : option (list Z) :=
  match r with
  | Some (VF f, _) => Some [tob f]
  | Some (VB b, _) => Some [if b then 1 else 0]
  | Some (VP (VF a) (VF b), _) => Some [tob a; tob b]
  | _ => None end.

Section W.
Variable pw : float -> float -> float.
Variable rnd : float -> float.
Local Notation fm := (pfm pw rnd).
Definition gbin (op : pybin) (t1 t2 : gty) (a b : value fm) : option (list Z) :=
  obs (fm := fm) bits_of_float (run fm (resolve_bin T op t1 t2) [a; b]).
Definition pbin (op : pybin) (a b : pyv fm) : option (list Z) :=
  match pyf_bin pw rnd op a b with
  | Some (PF f) => Some [bits_of_float f]
  | Some (PB b) => Some [if b then 1 else 0]
  | _ => None end.
Definition fl (bits : Z) : float := float_of_bits bits.

(* bit patterns: 1.0 = 0x3FF0000000000000, 0.1 = 0x3FB999999999999A, 10.0 = 0x4024..., 9.0 = 0x4022... *)
Definition b_1_0 := 4607182418800017408.
Definition b_0_1 := 4591870180066957722.

(** 1.0 // 0.1 : Guppy floor(fdiv) = 10.0, Python 9.0 *)
Theorem float_floordiv_refuted :
  gbin FloorDiv TFloat TFloat (VF (fl b_1_0 : F fm)) (VF (fl b_0_1 : F fm)) = Some [4621819117588971520]
  /\ pbin FloorDiv (PF (fl b_1_0 : F fm)) (PF (fl b_0_1 : F fm)) = Some [4621256167635550208].
Proof. split; vm_compute; reflexivity. Qed.

(** 1.0 % 0.1 : Guppy 1.0 - 10.0*0.1 = 0.0, Python 0.09999999999999995 (0x3FB9999999999996) *)
Theorem float_mod_refuted :
  gbin Mod TFloat TFloat (VF (fl b_1_0 : F fm)) (VF (fl b_0_1 : F fm)) = Some [0]
  /\ pbin Mod (PF (fl b_1_0 : F fm)) (PF (fl b_0_1 : F fm)) = Some [4591870180066957718].
Proof. split; vm_compute; reflexivity. Qed.

(** divmod(1.0, 0.1) : Guppy (10.0, 0.0), Python (9.0, 0.09999999999999995) *)
Theorem float_divmod_refuted :
  obs (fm := fm) bits_of_float (run fm (resolve_builtin T "divmod" [TFloat; TFloat]) [VF (fl b_1_0 : F fm); VF (fl b_0_1 : F fm)])
    = Some [4621819117588971520; 0]
  /\ option_map (fun p => [bits_of_float (fst p); bits_of_float (snd p)]) (py_float_divmod (fl b_1_0) (fl b_0_1))
    = Some [4621256167635550208; 4591870180066957718].
Proof. split; vm_compute; reflexivity. Qed.

(** 1 // 0.1 (int // float): same formula after convert_s *)
Theorem int_float_floordiv_refuted :
  gbin FloorDiv TInt TFloat (VW 1) (VF (fl b_0_1 : F fm)) = Some [4621819117588971520]
  /\ pbin FloorDiv (PZ 1) (PF (fl b_0_1 : F fm)) = Some [4621256167635550208].
Proof. split; vm_compute; reflexivity. Qed.

(** (3*2^53+3) / 3 : Guppy rounds both operands, then divides = 2^53+2; Python's correctly
    rounded quotient of 2^53+1 is 2^53 *)
Definition big3 := 27021597764222979.
Theorem int_truediv_refuted :
  gbin Div TInt TInt (VW big3) (VW 3) = Some [4845873199050653697]
  /\ pbin Div (PZ big3) (PZ 3) = Some [4845873199050653696].
Proof. split; vm_compute; reflexivity. Qed.
Theorem nat_truediv_refuted :
  gbin Div TNat TNat (VW big3) (VW 3) = Some [4845873199050653697]
  /\ pbin Div (PZ big3) (PZ 3) = Some [4845873199050653696].
Proof. split; vm_compute; reflexivity. Qed.

(** (2^53+1) == 9007199254740992.0 : Guppy converts the int first (True); Python compares
    exactly (False).  9007199254740992.0 < 2^53+1 : Guppy False, Python True *)
Definition p53 := 9007199254740992.
Theorem int_float_eq_refuted :
  gbin Eq TInt TFloat (VW (p53 + 1)) (VF (pf_of_Z p53 : F fm)) = Some [1]
  /\ pbin Eq (PZ (p53 + 1)) (PF (pf_of_Z p53 : F fm)) = Some [0].
Proof. split; vm_compute; reflexivity. Qed.
Theorem float_int_lt_refuted :
  gbin Lt TFloat TInt (VF (pf_of_Z p53 : F fm)) (VW (p53 + 1)) = Some [0]
  /\ pbin Lt (PF (pf_of_Z p53 : F fm)) (PZ (p53 + 1)) = Some [1].
Proof. split; vm_compute; reflexivity. Qed.

(** entries that agree on a non-trivial instance (not theorems over all floats: the
    check compares them with CPython on a grid every run): 7.5 // 2.0 = 3.0, -7.5 % 2.0 = 0.5 *)
Example float_floordiv_instance :
  gbin FloorDiv TFloat TFloat (VF (div (pf_of_Z 15) two : F fm)) (VF (two : F fm))
  = pbin FloorDiv (PF (div (pf_of_Z 15) two : F fm)) (PF (two : F fm))
  /\ gbin Mod TFloat TFloat (VF (div (pf_of_Z (-15)) two : F fm)) (VF (two : F fm)) = Some [bits_of_float half].
Proof. split; vm_compute; reflexivity. Qed.
End W.
Print Assumptions float_floordiv_refuted.
Print Assumptions int_truediv_refuted.
Print Assumptions int_float_eq_refuted.
