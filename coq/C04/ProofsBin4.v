From Coq Require Import ZArith String List Bool Lia ZifyBool.
From V.C04 Require Import Int64 Int64Facts NumBase GenNumTable ModelNum Proofs.
Import ListNotations.
Open Scope Z_scope.
Lemma row_Eq : forall fm, bin_row fm Eq.
Proof. row. Qed.
Lemma row_NotEq : forall fm, bin_row fm NotEq.
Proof. row. Qed.
Lemma row_Lt : forall fm, bin_row fm Lt.
Proof. row. Qed.
