(** ProofsRound — the rounding function [rne53] used as the trusted semantics of
    convert_u / convert_s meets the declarative description of IEEE roundTiesToEven on the
    integers: the result is a multiple m * ulp of the unit in the last place of the
    argument's binade with m <= 2^53, at distance at most ulp/2, and exactly at ulp/2 only
    if m is even; and these conditions determine it. *)
From Coq Require Import ZArith List Bool Lia ZifyBool.
From V.C04 Require Import Int64.
From V.C16 Require Import ModelCoerce.
Open Scope Z_scope.

Lemma round_mult_spec P a : 0 < P -> 0 <= a ->
  exists k, round_mult P a = k * P /\ a / P <= k <= a / P + 1 /\
            2 * Z.abs (k * P - a) <= P /\ (2 * Z.abs (k * P - a) = P -> Z.even k = true).
Proof.
  intros HP Ha. unfold round_mult.
  pose proof (Z.div_mod a P ltac:(lia)) as E.
  pose proof (Z.mod_pos_bound a P HP) as B.
  set (q := a / P) in *. set (r := a mod P) in *.
  destruct (2 * r <? P) eqn:C1.
  - exists q. repeat split; try lia.
  - destruct (P <? 2 * r) eqn:C2.
    + exists (q + 1). repeat split; try lia.
    + destruct (Z.even q) eqn:C3.
      * exists q. repeat split; try lia.
      * exists (q + 1). repeat split; try lia.
        all: intros _; rewrite Z.even_add, C3; reflexivity.
Qed.

Lemma round_unique P a k1 k2 : 0 < P ->
  2 * Z.abs (k1 * P - a) <= P -> (2 * Z.abs (k1 * P - a) = P -> Z.even k1 = true) ->
  2 * Z.abs (k2 * P - a) <= P -> (2 * Z.abs (k2 * P - a) = P -> Z.even k2 = true) ->
  k1 = k2.
Proof.
  intros HP A1 T1 A2 T2.
  assert (D : -1 <= k1 - k2 <= 1) by nia.
  assert (C : k1 = k2 \/ k1 = k2 + 1 \/ k2 = k1 + 1) by lia.
  destruct C as [C | [C | C]]; [exact C | exfalso ..].
  - subst k1. assert (E1 : 2 * Z.abs ((k2 + 1) * P - a) = P) by lia.
    assert (E2 : 2 * Z.abs (k2 * P - a) = P) by lia.
    specialize (T1 E1). specialize (T2 E2). rewrite Z.even_add, T2 in T1. discriminate.
  - subst k2. assert (E1 : 2 * Z.abs ((k1 + 1) * P - a) = P) by lia.
    assert (E2 : 2 * Z.abs (k1 * P - a) = P) by lia.
    specialize (T1 E2). specialize (T2 E1). rewrite Z.even_add, T1 in T2. discriminate.
Qed.


Lemma P53_eq : P53 = 2 ^ 53. Proof. reflexivity. Qed.

Lemma log2_ge_53 a : P53 <= a -> 53 <= Z.log2 a.
Proof. intros H. rewrite P53_eq in H. apply Z.log2_le_pow2; lia. Qed.

(* the ulp is the one of the argument's binade: 2^52 ulp <= a < 2^53 ulp *)
Lemma ulp53_binade a : P53 <= a -> 2 ^ 52 * ulp53 a <= a < P53 * ulp53 a.
Proof.
  intros H. pose proof (log2_ge_53 a H) as L.
  unfold ulp53. destruct (a <? P53) eqn:C; [lia |].
  assert (Hp : 0 < a) by (unfold P53 in H; lia).
  pose proof (Z.log2_spec a Hp) as [S1 S2].
  assert (E1 : 2 ^ Z.log2 a = 2 ^ 52 * 2 ^ (Z.log2 a - 52)).
  { rewrite <- Z.pow_add_r by lia. f_equal. lia. }
  assert (E2 : 2 ^ Z.succ (Z.log2 a) = P53 * 2 ^ (Z.log2 a - 52)).
  { rewrite P53_eq, <- Z.pow_add_r by lia. f_equal. lia. }
  lia.
Qed.

Lemma ulp53_pos a : 0 < ulp53 a.
Proof.
  unfold ulp53. destruct (a <? P53) eqn:C; [lia |].
  apply Z.pow_pos_nonneg; [lia |]. pose proof (log2_ge_53 a ltac:(lia)). lia.
Qed.

Lemma ulp53_small a : a < P53 -> ulp53 a = 1.
Proof. intros H. unfold ulp53. destruct (a <? P53) eqn:C; lia. Qed.

(* mantissa bound: a / ulp < 2^53 *)
Lemma div_ulp_lt a : 0 <= a -> a / ulp53 a < P53.
Proof.
  intros Ha. destruct (Z_lt_le_dec a P53) as [S | L].
  - rewrite ulp53_small by exact S. rewrite Z.div_1_r. exact S.
  - pose proof (ulp53_binade a L) as [_ B]. pose proof (ulp53_pos a) as U.
    apply Z.div_lt_upper_bound; lia.
Qed.

(** rne53 z is  sgn z * m * ulp  with  m <= 2^53, nearest, ties to even *)
Lemma rne53_nearest_even z :
  let u := ulp53 (Z.abs z) in
  exists m, rne53 z = Z.sgn z * (m * u) /\ 0 <= m <= P53 /\
            2 * Z.abs (m * u - Z.abs z) <= u /\
            (2 * Z.abs (m * u - Z.abs z) = u -> Z.even m = true).
Proof.
  intros u. unfold rne53. fold u.
  pose proof (ulp53_pos (Z.abs z)) as U. fold u in U.
  destruct (round_mult_spec u (Z.abs z) U (Z.abs_nonneg z)) as [k [E [[K1 K2] [D T]]]].
  exists k. rewrite E. split; [reflexivity |]. split; [| split; assumption].
  pose proof (div_ulp_lt (Z.abs z) (Z.abs_nonneg z)) as B. fold u in B.
  pose proof (Z.div_pos (Z.abs z) u (Z.abs_nonneg z) U). lia.
Qed.

(** ... and these conditions determine it *)
Lemma rne53_unique z m :
  let u := ulp53 (Z.abs z) in
  2 * Z.abs (m * u - Z.abs z) <= u ->
  (2 * Z.abs (m * u - Z.abs z) = u -> Z.even m = true) ->
  rne53 z = Z.sgn z * (m * u).
Proof.
  intros u A T. destruct (rne53_nearest_even z) as [k [E [_ [D Tk]]]]. fold u in E, D, Tk.
  rewrite E. f_equal. f_equal.
  apply (round_unique u (Z.abs z)); auto. apply ulp53_pos.
Qed.

Lemma round_mult_1 a : round_mult 1 a = a.
Proof. unfold round_mult. rewrite Z.mod_1_r, Z.div_1_r. simpl. lia. Qed.

(** exact on |z| <= 2^53 *)
Lemma rne53_exact z : Z.abs z <= P53 -> rne53 z = z.
Proof.
  intros H. destruct (Z.eq_dec (Z.abs z) P53) as [E | N].
  - unfold rne53. rewrite E.
    assert (R : round_mult (ulp53 P53) P53 = P53) by (vm_compute; reflexivity).
    rewrite R. lia.
  - unfold rne53. rewrite ulp53_small by lia. rewrite round_mult_1. lia.
Qed.

Lemma rne53_opp z : rne53 (- z) = - rne53 z.
Proof. unfold rne53. rewrite Z.abs_opp, Z.sgn_opp. lia. Qed.

(* the result never leaves binary64's finite range on 64-bit operands *)
Lemma rne53_bound z : Z.abs z < M64 -> Z.abs (rne53 z) <= M64.
Proof.
  intros H. destruct (rne53_nearest_even z) as [m [E [[M0 M1] [D _]]]].
  pose proof (ulp53_pos (Z.abs z)) as U.
  destruct (Z_lt_le_dec (Z.abs z) P53) as [S | L].
  - rewrite rne53_exact by lia. lia.
  - (* |z| in [2^k, 2^(k+1)) : rounding goes at most to 2^(k+1) <= 2^64 *)
    pose proof (ulp53_binade (Z.abs z) L) as [B1 B2].
    assert (Hz : 0 < Z.abs z) by (unfold P53 in L; lia).
    pose proof (Z.log2_spec _ Hz) as [S1 S2].
    assert (LL : Z.log2 (Z.abs z) < 64).
    { apply Z.log2_lt_pow2; [lia | exact H]. }
    assert (P : P53 * ulp53 (Z.abs z) <= M64).
    { unfold ulp53. destruct (Z.abs z <? P53) eqn:C; [lia |].
      rewrite P53_eq, <- Z.pow_add_r by (pose proof (log2_ge_53 _ L); lia).
      change M64 with (2 ^ 64). apply Z.pow_le_mono_r; lia. }
    rewrite E. rewrite Z.abs_mul.
    assert (Z.abs (Z.sgn z) <= 1) by lia.
    assert (0 <= m * ulp53 (Z.abs z) <= P53 * ulp53 (Z.abs z)) by nia.
    rewrite (Z.abs_eq (m * _)) by lia. nia.
Qed.
