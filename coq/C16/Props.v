(** C16 — Implicit numeric coercions only widen.
    Every statement is about the definitions GENERATED on this run from
    checker/expr_checker.py (try_coerce_to, check_type_against), tys/ty.py (NumericType.Kind,
    unify) and std/num.py (method rows), through the model ModelCoerce.v.
    [widens] (nat->int, int->float, nat->float), [representable], [expected_value] are the
    specification side, written without reference to the code.  [TBool] stands for any
    non-numeric type.  Float targets: the semantics of convert_u / convert_s is the TRUSTED
    spec "round the unsigned / signed reading to the nearest binary64, ties to even" ([rne53]);
    rne53_is_round_ties_even shows that function is what its name says. *)
From Coq Require Import ZArith String List Bool.
From V.C04 Require Import Int64 NumBase.
From V.C16 Require Import ModelBase GenCoerce ModelCoerce ProofsRound Proofs ProofsGeneric.
Import ListNotations.
Open Scope string_scope.

(* try_coerce_to inserts a conversion iff act widens to exp (i.e. act.kind < exp.kind in the
   generated Kind order), and then it calls __<exp>__ of the ACTUAL type, of type act -> exp *)
Theorem coerce_iff_lt : forall act exp,
  (widens act exp ->
     exists m, try_coerce_to act exp = CoerceVia m /\ m_ty m = act /\
               m_name m = "__" ++ py_name exp ++ "__" /\ m_params m = [act]%list /\ m_ret m = RScalar exp) /\
  (~ widens act exp -> try_coerce_to act exp = NoCoerce).
Proof. exact coerce_iff_lt_all. Qed.
Print Assumptions coerce_iff_lt.
Example coerce_iff_lt_instances :
  try_coerce_to TNat TFloat = CoerceVia (mkMeth TNat "__float__" [TNat] (RScalar TFloat) (IHugr "arithmetic.conversions" "convert_u" 1)) /\
  try_coerce_to TNat TInt = CoerceVia (mkMeth TNat "__int__" [TNat] (RScalar TInt) INoop) /\
  try_coerce_to TFloat TInt = NoCoerce /\ try_coerce_to TInt TNat = NoCoerce /\ try_coerce_to TBool TInt = NoCoerce.
Proof. vm_compute. repeat split. Qed.

(* no narrowing: in every position an accepted (actual, expected) pair is an equality or a
   widening; everything else is a type error (never an internal error); in the positions that
   only unify (call results, comptime) even widenings are rejected.  Finite: 9 positions x 4 x 4. *)
Theorem no_narrowing : forall p act exp,
  (forall c, position_outcome p act exp = Accept c -> act = exp \/ widens act exp) /\
  (act <> exp -> ~ widens act exp -> position_outcome p act exp = Reject) /\
  (coercing p = false -> act <> exp -> position_outcome p act exp = Reject) /\
  position_outcome p act exp <> Crash.
Proof.
  intros p act exp. split; [intros c; apply accept_only_widening |].
  split; [apply narrowing_rejected |]. split; [apply non_coercing_positions | apply never_crashes].
Qed.
Print Assumptions no_narrowing.
Example no_narrowing_instances :
  position_outcome PArgument TFloat TInt = Reject /\ position_outcome PReturn TInt TNat = Reject /\
  position_outcome PAnnAssign TFloat TNat = Reject /\ position_outcome PMethodOperand TBool TInt = Reject /\
  position_outcome PCallResult TInt TFloat = Reject /\ position_outcome PLiteral TInt TFloat = Accept [HOp "arithmetic.conversions" "convert_s"].
Proof. vm_compute. repeat split. Qed.

(* ... and the widenings are accepted where coercion applies; equal types pass untouched *)
Theorem widening_is_accepted : forall p act exp,
  (coercing p = true -> widens act exp -> exists c, position_outcome p act exp = Accept c) /\
  position_outcome p act act = Accept [].
Proof. intros p act exp. split; [apply widening_accepted | apply same_type_untouched]. Qed.
Print Assumptions widening_is_accepted.

(* the converted value: for an expression of type nat or int accepted at type exp, the ops the
   compiler inserts map every 64-bit word w whose mathematical value (mval act w) is
   representable in exp to that same value — rounded to the nearest binary64, ties to even,
   when exp is float *)
Theorem coerce_value : forall p act exp c,
  act = TNat \/ act = TInt ->
  position_outcome p act exp = Accept c ->
  forall w, word w -> representable exp (mval act w) ->
  exists v, run c (VWord w) = Some v /\ denote exp v = Some (expected_value exp (mval act w)).
Proof. exact coerce_value_all. Qed.
Print Assumptions coerce_value.
(* the hypotheses are satisfiable on the non-trivial instances *)
Example coerce_value_instance_nat_float :
  position_outcome PArgument TNat TFloat = Accept [HOp "arithmetic.conversions" "convert_u"] /\
  word 18446744073709551615 /\ representable TFloat (mval TNat 18446744073709551615) /\
  run [HOp "arithmetic.conversions" "convert_u"] (VWord 18446744073709551615) = Some (VFloatInt 18446744073709551616).
Proof. vm_compute. repeat split; congruence. Qed.
Example coerce_value_instance_int_float :
  position_outcome PReturn TInt TFloat = Accept [HOp "arithmetic.conversions" "convert_s"] /\
  run [HOp "arithmetic.conversions" "convert_s"] (VWord 18446744073709551615) = Some (VFloatInt (-1)) /\
  run [HOp "arithmetic.conversions" "convert_s"] (VWord 9007199254740993) = Some (VFloatInt 9007199254740992).
Proof. vm_compute. repeat split. Qed.

(* nat -> int inserts no op: the value is preserved exactly when it is representable
   (w < 2^63); a nat >= 2^63 is NOT representable in int, the property demands nothing there,
   and what happens is a reinterpretation: the value drops by 2^64 *)
Theorem nat_to_int_exact_iff_representable : forall w, word w ->
  check_type_against TNat TInt = Accept [] /\
  (mval TInt w = mval TNat w <-> representable TInt (mval TNat w)) /\
  ((H64 <= w)%Z -> mval TInt w = (w - M64)%Z).
Proof.
  intros w W. split; [apply chains |]. split; [apply nat_to_int_exact_iff; exact W | apply nat_to_int_reinterprets; exact W].
Qed.
Print Assumptions nat_to_int_exact_iff_representable.

(* float targets are exact up to 2^53 in magnitude *)
Theorem float_coercion_exact_to_2p53 : forall act w,
  act = TNat \/ act = TInt -> (Z.abs (mval act w) <= 2 ^ 53)%Z ->
  expected_value TFloat (mval act w) = mval act w.
Proof. exact float_exact_small. Qed.
Print Assumptions float_coercion_exact_to_2p53.

(* the rounding function used as the semantics of convert_u / convert_s is IEEE
   roundTiesToEven restricted to integers: with u the unit in the last place of |z|'s binade
   (1 below 2^53, else 2^52 u <= |z| < 2^53 u), the result is sgn z * m * u with m <= 2^53
   (so it is a binary64), at distance <= u/2, at distance exactly u/2 only when m is even, and
   it is the only such number; it is odd-symmetric and stays within binary64's finite range *)
Theorem rne53_is_round_ties_even : forall z,
  let u := ulp53 (Z.abs z) in
  (0 < u)%Z /\ ((2 ^ 53 <= Z.abs z)%Z -> (2 ^ 52 * u <= Z.abs z < 2 ^ 53 * u)%Z) /\
  (exists m, rne53 z = (Z.sgn z * (m * u))%Z /\ (0 <= m <= 2 ^ 53)%Z /\
             (2 * Z.abs (m * u - Z.abs z) <= u)%Z /\
             ((2 * Z.abs (m * u - Z.abs z))%Z = u -> Z.even m = true)) /\
  (forall m, (2 * Z.abs (m * u - Z.abs z) <= u)%Z ->
             ((2 * Z.abs (m * u - Z.abs z))%Z = u -> Z.even m = true) ->
             rne53 z = (Z.sgn z * (m * u))%Z) /\
  rne53 (- z) = (- rne53 z)%Z /\
  ((Z.abs z < M64)%Z -> (Z.abs (rne53 z) <= M64)%Z).
Proof.
  intros z u. split; [apply ulp53_pos |]. split; [apply ulp53_binade |].
  split; [apply rne53_nearest_even |]. split; [apply rne53_unique |].
  split; [apply rne53_opp | apply rne53_bound].
Qed.
Print Assumptions rne53_is_round_ties_even.

(* one type variable T meeting several expressions — a tuple literal against tuple[T,...,T]
   (visit_Tuple), the arguments of f(a: T, b: T, ...) / a generic struct constructor
   (type_check_args): with the loops as GENERATED (do they apply the substitution found so far?),
   for element lists of ANY length, acceptance means T is the expected type and EVERY expression
   was individually accepted by check_type_against at T (so equal or a widening, each with its own
   conversion ops — coerce_value applies to each) *)
Theorem generic_positions_no_narrowing : forall elts ret t cs,
  generic_outcome gen_tuple_elems_substituted elts ret = GAccept t cs \/
  generic_outcome gen_args_substituted elts ret = GAccept t cs ->
  t = ret /\ Forall2 (fun a c => check_type_against a ret = Accept c /\ (a = ret \/ widens a ret)) elts cs.
Proof. intros elts ret t cs [H | H]; exact (generic_sound elts ret t cs H). Qed.
Print Assumptions generic_positions_no_narrowing.
Example generic_instances :
  generic_outcome gen_tuple_elems_substituted [TInt; TNat] TInt = GAccept TInt [[]; []] /\
  generic_outcome gen_tuple_elems_substituted [TFloat; TNat; TInt] TFloat
    = GAccept TFloat [[]; [HOp "arithmetic.conversions" "convert_u"]; [HOp "arithmetic.conversions" "convert_s"]] /\
  generic_outcome gen_args_substituted [TInt; TNat] TNat = GReject /\
  generic_outcome gen_args_substituted [TNat; TInt] TInt = GReject /\
  (* a loop that forgets the substitution would accept the narrowing: *)
  generic_outcome false [TInt; TNat] TNat = GAccept TNat [[]; []].
Proof. vm_compute. repeat split. Qed.

(* several coercions in one block (x1: E1 = x0; x2: E2 = x1; ...), any length: every step is its
   own check_type_against (equal or a widening) and the ops applied to the value are the
   concatenation of the steps' own ops, executed in order *)
Theorem multi_use_per_step : forall src path c,
  path_outcome src path = Accept c ->
  (exists cs, Forall2 (fun st c' => check_type_against (fst st) (snd st) = Accept c' /\
                                    (fst st = snd st \/ widens (fst st) (snd st))) (steps src path) cs /\
              c = concat cs) /\
  (forall c1 c2 v, run (c1 ++ c2) v = match run c1 v with Some v' => run c2 v' | None => None end).
Proof. intros src path c H. split; [exact (path_per_step path src c H) | intros; apply run_app]. Qed.
Print Assumptions multi_use_per_step.
Example multi_use_instance :
  path_outcome TNat [TInt; TFloat] = Accept [HOp "arithmetic.conversions" "convert_s"] /\
  path_outcome TNat [TFloat; TFloat] = Accept [HOp "arithmetic.conversions" "convert_u"] /\
  path_outcome TNat [TInt; TNat] = Reject.
Proof. vm_compute. repeat split. Qed.
