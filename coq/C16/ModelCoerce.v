(** ModelCoerce — executable model of implicit numeric coercion in the checker, over the
    definitions GENERATED from /repo (GenCoerce.v), and the HUGR-level semantics of the
    conversion ops a coercion inserts.  Definitions only (proofs: Proofs*.v).

    Types are C04's [gty]; [TBool] stands for "any type that is not a NumericType".

    try_coerce_to    models checker/expr_checker.py:try_coerce_to
    cta              models the non-parametrised tail of check_type_against, including the
                     call `f.check_call([node], exp, node, ctx)` of the coercion method
                     (argument check = cta again, result type unified with the target)
    position_outcome which syntactic positions reach check_type_against (hand-written, tied by
                     the differential harness X)
    rne53, hop_sem   TRUSTED SPEC of arithmetic.conversions.convert_u / convert_s: the
                     unsigned / signed reading of the 64-bit word rounded to the nearest
                     binary64, ties to even (IEEE-754 roundTiesToEven = LLVM uitofp / sitofp
                     in the default rounding mode).  A float that is the image of an integer
                     of magnitude < 2^64 is itself an integer, so it is represented by that
                     integer ([VFloatInt]). *)
From Coq Require Import ZArith String List Bool.
From V.C04 Require Import Int64 NumBase.
From V.C16 Require Import ModelBase GenCoerce.
Import ListNotations.
Open Scope string_scope.

(* ---------------------------------------------------------------------------------- *)
(** * 1. The checker side *)

(* position of a type's kind in the Enum (auto() values are increasing in declaration order);
   None = not a NumericType *)
Fixpoint kind_idx_in (l : list (gty * string)) (t : gty) : option nat :=
  match l with
  | [] => None
  | (x, _) :: r => if gty_eqb x t then Some 0%nat else option_map S (kind_idx_in r t)
  end.
Definition kind_idx := kind_idx_in gen_kinds.
Fixpoint kind_name_in (l : list (gty * string)) (t : gty) : option string :=
  match l with
  | [] => None
  | (x, n) :: r => if gty_eqb x t then Some n else kind_name_in r t
  end.
Definition kind_name := kind_name_in gen_kinds.

(* Globals.get_instance_func(ty, name) on the numeric classes of std/num.py *)
Definition find_meth (t : gty) (n : string) : option meth :=
  find (fun m => gty_eqb (m_ty m) t && String.eqb (m_name m) n) gen_methods.

Inductive coerce_res :=
| NoCoerce                       (* returns None *)
| CoerceVia (m : meth)           (* calls m on the expression *)
| CoerceAssert.                  (* `assert f is not None` fails *)

Definition try_coerce_to (act exp : gty) : coerce_res :=
  match kind_idx act, kind_idx exp with
  | Some ia, Some ie =>
      if cmp_eval gen_coerce_cmp ia ie then
        match kind_name (pick gen_coerce_name_of act exp) with
        | Some nm =>
            match find_meth (pick gen_coerce_recv act exp) ("__" ++ nm ++ "__") with
            | Some m => CoerceVia m
            | None => CoerceAssert
            end
        | None => CoerceAssert
        end
      else NoCoerce
  | _, _ => NoCoerce       (* not isinstance(act, NumericType) or not isinstance(exp, NumericType) *)
  end.

(* unify(exp, act, {}) on closed scalar types *)
Definition unify_ok (act exp : gty) : bool :=
  match kind_idx act, kind_idx exp with
  | Some ia, Some ie => cmp_eval gen_unify_numeric ia ie
  | None, None => gty_eqb act exp
  | _, _ => false
  end.

(* an op the compiler emits for a coercion *)
Inductive hop :=
| HOp (ext name : string)        (* @hugr_op(int_op/float_op(name, ext)) *)
| HOpaque.                       (* anything else (Guppy body, unwrap, ...) : no semantics here *)

Definition impl_ops (i : impl) : list hop :=
  match i with
  | INoop => []
  | IHugr ext name _ => [HOp ext name]
  | _ => [HOpaque]
  end.

Inductive outcome :=
| Accept (chain : list hop)      (* accepted; ops applied to the value, innermost first *)
| Reject                         (* GuppyTypeError(TypeMismatchError) *)
| Crash.                         (* AssertionError / internal error / model fuel exhausted *)

(* check_type_against(act, exp, node) for closed scalar types.  The coercion method is called
   through check_call([node], target): its single parameter is checked against the (already
   typed) expression — check_type_against again — and its return type is unified with target. *)
Fixpoint cta (fuel : nat) (act exp : gty) : outcome :=
  if unify_ok act exp then Accept []
  else match gen_cta_fallback with
  | FFail => Reject
  | FCoerceThenFail =>
    match try_coerce_to act exp with
    | NoCoerce => Reject
    | CoerceAssert => Crash
    | CoerceVia m =>
      match fuel with
      | O => Crash
      | S f =>
        match m_params m, m_ret m with
        | [p], RScalar r =>
            match cta f act p with
            | Accept c1 =>
                if unify_ok r (pick gen_coerce_target act exp)
                then Accept (c1 ++ impl_ops (m_impl m))
                else Reject
            | o => o
            end
        | _, _ => Reject       (* wrong number of arguments / non-scalar result: a type error *)
        end
      end
    end
  end.

Definition check_type_against := cta 4.

(* Syntactic positions in which a typed expression meets an expected type *)
Inductive position :=
| PAnnAssign       (* x: E = a                       StmtChecker.visit_AnnAssign -> ExprChecker.check *)
| PArgument        (* g(a) with g(x: E)              type_check_args -> ExprChecker.check *)
| PReturn          (* return a  in  -> E             StmtChecker.visit_Return -> ExprChecker.check *)
| PMethodOperand   (* e.__add__(a) with e: E         operator operand: the dunder's parameter *)
| PTupleElem       (* t: tuple[E, bool] = (a, True)  ExprChecker.visit_Tuple -> check *)
| POpResult        (* x: E = +a / a + a              generic_visit -> check_type_against *)
| PLiteral         (* x: E = 5                       ExprChecker.visit_Constant -> check_type_against *)
| PCallResult      (* x: E = h() with h() -> A       check_call: unify only *)
| PComptime.       (* x: E = comptime(v)             visit_ComptimeExpr: unify only *)

Definition all_positions := [PAnnAssign; PArgument; PReturn; PMethodOperand; PTupleElem; POpResult; PLiteral; PCallResult; PComptime].

Definition coercing (p : position) : bool :=
  match p with PCallResult | PComptime => false | _ => true end.

Definition position_outcome (p : position) (act exp : gty) : outcome :=
  if coercing p then check_type_against act exp
  else if unify_ok act exp then Accept [] else Reject.

(* One type variable T meeting several expressions: a tuple literal checked against
   tuple[T, ..., T] (ExprChecker.visit_Tuple), the arguments of f(a: T, b: T, ...)
   (type_check_args), a struct constructor generic in T, array(x, y, ...).  Checking against the
   still unsolved T synthesises the expression and solves T with its type; once T is solved —
   and if the loop applies the substitution found so far ([substituted]) — the next expression
   is checked against the solution by check_type_against.  When the substitution is NOT applied
   every expression meets the bare variable and `subst |= s` lets the last one win. *)
Inductive gen_outcome :=
| GAccept (solution : gty) (chains : list (list hop))   (* T := solution; per-expression ops *)
| GReject
| GCrash.

Fixpoint check_elems (substituted : bool) (sol : option gty) (l : list gty) : option (option gty * list (list hop)) + unit :=
  match l with
  | [] => inl (Some (sol, []))
  | a :: r =>
      let step (sol' : option gty) (c : list hop) :=
        match check_elems substituted sol' r with
        | inl (Some (s, cs)) => inl (Some (s, c :: cs))
        | o => o
        end in
      match (if substituted then sol else None) with
      | None => step (Some a) []                       (* against the variable: synthesise, T := a *)
      | Some t =>
          match check_type_against a t with
          | Accept c => step sol c
          | Reject => inl None
          | Crash => inr tt
          end
      end
  end.

(* the whole expression, whose type mentions T, is then unified with [ret] instantiated at T
   (call results are not coerced) *)
Definition generic_outcome (substituted : bool) (elts : list gty) (ret : gty) : gen_outcome :=
  match check_elems substituted None elts with
  | inl (Some (Some t, cs)) => if unify_ok t ret then GAccept t cs else GReject
  | inl (Some (None, _)) => GReject          (* no expression: T cannot be inferred *)
  | inl None => GReject
  | inr _ => GCrash
  end.

(* a chain of annotated assignments  x1: E1 = x0; x2: E2 = x1; ...  : every step is its own
   check_type_against, the ops accumulate *)
Fixpoint path_outcome (src : gty) (path : list gty) : outcome :=
  match path with
  | [] => Accept []
  | e :: r =>
      match check_type_against src e with
      | Accept c => match path_outcome e r with Accept c' => Accept (c ++ c') | o => o end
      | o => o
      end
  end.

(* ---------------------------------------------------------------------------------- *)
(** * 2. Values and the semantics of the inserted ops *)

Definition P53 : Z := 9007199254740992.     (* 2^53 *)

(* a >= 0 rounded to the nearest multiple of P, ties to the even multiple *)
Definition round_mult (P a : Z) : Z :=
  let q := (a / P)%Z in let r := (a mod P)%Z in
  if (2 * r <? P)%Z then (q * P)%Z
  else if (P <? 2 * r)%Z then ((q + 1) * P)%Z
  else if Z.even q then (q * P)%Z else ((q + 1) * P)%Z.

(* unit in the last place of the binade of a >= 0 with 53 significant bits (1 below 2^53) *)
Definition ulp53 (a : Z) : Z :=
  if (a <? P53)%Z then 1%Z else (2 ^ (Z.log2 a - 52))%Z.

(* the integer value of the binary64 nearest to z, ties to even *)
Definition rne53 (z : Z) : Z := (Z.sgn z * round_mult (ulp53 (Z.abs z)) (Z.abs z))%Z.

Inductive value :=
| VWord (w : Z)          (* a 64-bit word: a nat (the word) or an int (its signed reading) *)
| VFloatInt (z : Z).     (* a binary64 whose value is the integer z *)

Definition hop_sem (h : hop) (v : value) : option value :=
  match h, v with
  | HOp ext name, VWord w =>
      if String.eqb ext "arithmetic.conversions" then
        if String.eqb name "convert_u" then Some (VFloatInt (rne53 w))
        else if String.eqb name "convert_s" then Some (VFloatInt (rne53 (to_s w)))
        else None
      else None
  | _, _ => None
  end.

Fixpoint run (c : list hop) (v : value) : option value :=
  match c with
  | [] => Some v
  | h :: r => match hop_sem h v with Some v' => run r v' | None => None end
  end.

(* the mathematical value of a word at a Guppy integer type *)
Definition mval (t : gty) (w : Z) : Z :=
  match t with TInt => to_s w | _ => w end.

(* the mathematical value denoted by a result of type t *)
Definition denote (t : gty) (v : value) : option Z :=
  match t, v with
  | TNat, VWord w => Some w
  | TInt, VWord w => Some (to_s w)
  | TFloat, VFloatInt z => Some z
  | _, _ => None
  end.

(* ---------------------------------------------------------------------------------- *)
(** * 3. Specification side (independent of the generated code) *)

(* the widening order of the property: nat -> int -> float *)
Inductive widens : gty -> gty -> Prop :=
| w_nat_int : widens TNat TInt
| w_int_float : widens TInt TFloat
| w_nat_float : widens TNat TFloat.

Definition numeric (t : gty) : Prop := t = TNat \/ t = TInt \/ t = TFloat.

(* the Python name of a type (`nat`, `int`, `float`): conversion to T is spelt __T__ *)
Definition py_name (t : gty) : string :=
  match t with TNat => "nat" | TInt => "int" | TFloat => "float" | TBool => "bool" end.

(* v is representable in the target type *)
Definition representable (exp : gty) (v : Z) : Prop :=
  match exp with
  | TNat => (0 <= v < M64)%Z
  | TInt => (- H64 <= v < H64)%Z
  | TFloat => True            (* every |v| < 2^64 is in binary64's range: rounded, never infinite *)
  | TBool => False
  end.

(* what the converted value must be *)
Definition expected_value (exp : gty) (v : Z) : Z :=
  match exp with TFloat => rne53 v | _ => v end.
