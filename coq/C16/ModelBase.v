(** ModelBase — syntax of the pieces of [try_coerce_to] / [check_type_against] that the
    translator (props/C16/tr_coerce.py) reads from checker/expr_checker.py and emits as
    data in GenCoerce.v.  Definitions only. *)
From Coq Require Import ZArith String List Bool.
From V.C04 Require Import NumBase.
Import ListNotations.

(* the comparison between the two [.kind]s in `if act.kind < exp.kind:`; the translator
   accepts any Python comparison operator and either operand order and records what it
   found — the theorems pin down which one is right *)
Inductive cmpop := CLt | CLe | CGt | CGe | CEq | CNe.
(* which of the two types of try_coerce_to an expression refers to *)
Inductive who := WAct | WExp.

(* how check_type_against falls back when unification of the two types fails *)
Inductive cta_fallback :=
| FCoerceThenFail     (* if coerced := try_coerce_to(act, exp, ...): return coerced ; raise TypeMismatchError *)
| FFail.              (* raise TypeMismatchError (no coercion attempted) *)

Definition cmp_eval (c : cmpop) (a b : nat) : bool :=
  match c with
  | CLt => Nat.ltb a b | CLe => Nat.leb a b | CGt => Nat.ltb b a | CGe => Nat.leb b a
  | CEq => Nat.eqb a b | CNe => negb (Nat.eqb a b)
  end.
Definition pick {A} (w : who) (act exp : A) : A := match w with WAct => act | WExp => exp end.
