(** Proofs — the checker side of C16 over the GENERATED definitions (GenCoerce.v). *)
From Coq Require Import ZArith String List Bool Lia ZifyBool.
From V.C04 Require Import Int64 NumBase Int64Facts.
From V.C16 Require Import ModelBase GenCoerce ModelCoerce ProofsRound.
Import ListNotations.
Open Scope string_scope. Open Scope Z_scope.

Lemma widens_dec act exp : {widens act exp} + {~ widens act exp}.
Proof. destruct act, exp; try (left; constructor); right; intros H; inversion H. Qed.

(* try_coerce_to inserts a call iff act widens to exp, and the call is to the method of the
   ACTUAL type named after the EXPECTED type, taking act and returning exp *)
Lemma coerce_iff_lt_all act exp :
  (widens act exp ->
     exists m, try_coerce_to act exp = CoerceVia m /\ m_ty m = act /\
               m_name m = "__" ++ py_name exp ++ "__" /\ m_params m = [act]%list /\ m_ret m = RScalar exp) /\
  (~ widens act exp -> try_coerce_to act exp = NoCoerce).
Proof.
  destruct act, exp; split; intros H;
    try (exfalso; apply H; constructor);
    try (inversion H; fail);
    try (vm_compute; reflexivity);
    (eexists; split; [vm_compute; reflexivity | repeat split]).
Qed.

Lemma coerce_never_asserts act exp : try_coerce_to act exp <> CoerceAssert.
Proof. destruct act, exp; vm_compute; discriminate. Qed.

(* unification of two scalar types is equality *)
Lemma unify_is_equality act exp : unify_ok act exp = true <-> act = exp.
Proof. destruct act, exp; vm_compute; split; intros H; try reflexivity; discriminate. Qed.

(* accepted pairs in every position: equal types or a widening; never a crash *)
Lemma accept_only_widening p act exp c :
  position_outcome p act exp = Accept c -> act = exp \/ widens act exp.
Proof.
  destruct p, act, exp; vm_compute; intros H; try discriminate;
    try (left; reflexivity); right; constructor.
Qed.

Lemma widening_accepted p act exp :
  coercing p = true -> widens act exp -> exists c, position_outcome p act exp = Accept c.
Proof.
  intros C W. destruct p; try discriminate C; destruct W; eexists; vm_compute; reflexivity.
Qed.

Lemma narrowing_rejected p act exp :
  act <> exp -> ~ widens act exp -> position_outcome p act exp = Reject.
Proof.
  intros N W. destruct p, act, exp; try (exfalso; apply N; reflexivity; fail);
    try (exfalso; apply W; constructor; fail); vm_compute; reflexivity.
Qed.

Lemma same_type_untouched p t : position_outcome p t t = Accept [].
Proof. destruct p, t; vm_compute; reflexivity. Qed.

Lemma non_coercing_positions p act exp :
  coercing p = false -> act <> exp -> position_outcome p act exp = Reject.
Proof.
  intros C N. destruct p; try discriminate C; destruct act, exp;
    try (exfalso; apply N; reflexivity; fail); vm_compute; reflexivity.
Qed.

Lemma never_crashes p act exp : position_outcome p act exp <> Crash.
Proof. destruct p, act, exp; vm_compute; discriminate. Qed.

(* the chains, spelled out (what the differential harness compares with the HUGR) *)
Lemma chains :
  check_type_against TNat TInt = Accept [] /\
  check_type_against TNat TFloat = Accept [HOp "arithmetic.conversions" "convert_u"] /\
  check_type_against TInt TFloat = Accept [HOp "arithmetic.conversions" "convert_s"].
Proof. vm_compute. repeat split. Qed.

(* value preservation *)
Lemma coerce_value_all p act exp c :
  act = TNat \/ act = TInt ->
  position_outcome p act exp = Accept c ->
  forall w, word w -> representable exp (mval act w) ->
  exists v, run c (VWord w) = Some v /\ denote exp v = Some (expected_value exp (mval act w)).
Proof.
  intros A H w Ww R.
  destruct A; subst act; destruct exp;
    try (destruct p; vm_compute in H; discriminate).
  - (* nat -> nat *)
    assert (c = []) by (destruct p; vm_compute in H; congruence). subst c.
    exists (VWord w). split; reflexivity.
  - (* nat -> int : no op; the signed reading of the same word *)
    assert (c = []) by (destruct p; vm_compute in H; congruence). subst c.
    exists (VWord w). split; [reflexivity |].
    cbn [denote expected_value mval] in *. unfold representable in R.
    rewrite to_s_small; [reflexivity |]. unfold word in Ww. lia.
  - (* nat -> float : convert_u *)
    assert (c = [HOp "arithmetic.conversions" "convert_u"]) by (destruct p; vm_compute in H; congruence).
    subst c. exists (VFloatInt (rne53 w)). split; reflexivity.
  - (* int -> int *)
    assert (c = []) by (destruct p; vm_compute in H; congruence). subst c.
    exists (VWord w). split; reflexivity.
  - (* int -> float : convert_s *)
    assert (c = [HOp "arithmetic.conversions" "convert_s"]) by (destruct p; vm_compute in H; congruence).
    subst c. exists (VFloatInt (rne53 (to_s w))). split; reflexivity.
Qed.

(* what happens to a nat that is NOT representable in int: the same word is re-read as
   signed, i.e. the value changes by 2^64 (the property makes no demand there) *)
Lemma nat_to_int_exact_iff w : word w -> (mval TInt w = mval TNat w <-> representable TInt (mval TNat w)).
Proof.
  intros [W0 W1]. cbn [mval representable]. unfold to_s.
  destruct (w <? H64) eqn:C; unfold M64, H64 in *; lia.
Qed.

Lemma nat_to_int_reinterprets w : word w -> (H64 <= w)%Z -> (mval TInt w = w - M64)%Z.
Proof. intros [W0 W1] H. cbn [mval]. unfold to_s. destruct (w <? H64) eqn:C; lia. Qed.

(* float targets: exact up to 2^53 *)
Lemma float_exact_small act w :
  act = TNat \/ act = TInt -> (Z.abs (mval act w) <= P53)%Z ->
  expected_value TFloat (mval act w) = mval act w.
Proof. intros _ H. cbn [expected_value]. apply rne53_exact. exact H. Qed.
