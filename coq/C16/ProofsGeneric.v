(** ProofsGeneric — one type variable meeting several expressions (tuple literals against
    tuple[T,..,T], arguments of f(a: T, b: T), generic struct constructors, array literals) and
    several coercions in one block: each expression / each use gets its own check_type_against. *)
From Coq Require Import ZArith String List Bool Lia.
From V.C04 Require Import Int64 NumBase.
From V.C16 Require Import ModelBase GenCoerce ModelCoerce Proofs.
Import ListNotations.

Lemma cta_refl t : check_type_against t t = Accept [].
Proof. destruct t; vm_compute; reflexivity. Qed.

Lemma check_elems_solved l : forall t s cs,
  check_elems true (Some t) l = inl (Some (s, cs)) ->
  s = Some t /\ Forall2 (fun a c => check_type_against a t = Accept c) l cs.
Proof.
  induction l as [| a r IH]; intros t s cs H.
  - simpl in H. inversion H; subst. split; [reflexivity | constructor].
  - simpl in H. destruct (check_type_against a t) eqn:E; try discriminate.
    destruct (check_elems true (Some t) r) as [[[s' cs'] |] | u] eqn:R; try discriminate.
    inversion H; subst. destruct (IH t s cs' R) as [S F]. split; [exact S |].
    constructor; assumption.
Qed.

Lemma generic_sound elts ret t cs :
  generic_outcome true elts ret = GAccept t cs ->
  t = ret /\ Forall2 (fun a c => check_type_against a ret = Accept c /\ (a = ret \/ widens a ret)) elts cs.
Proof.
  unfold generic_outcome. destruct elts as [| a r].
  - simpl. discriminate.
  - simpl. destruct (check_elems true (Some a) r) as [[[s' cs'] |] | u] eqn:R; try discriminate.
    destruct (check_elems_solved r a s' cs' R) as [S F]. subst s'.
    destruct (unify_ok a ret) eqn:U; try discriminate. intros H. inversion H; subst.
    apply unify_is_equality in U. subst ret. split; [reflexivity |].
    constructor.
    + split; [apply cta_refl | left; reflexivity].
    + clear R H. induction F; constructor; auto.
      split; [assumption |]. apply (accept_only_widening PAnnAssign x t y). exact H.
Qed.

(* what an element loop that does not apply the substitution would do *)
Lemma unsubstituted_loop_narrows :
  generic_outcome false [TInt; TNat] TNat = GAccept TNat [[]; []] /\
  generic_outcome false [TFloat; TNat] TNat = GAccept TNat [[]; []].
Proof. vm_compute. split; reflexivity. Qed.

Fixpoint steps (src : gty) (path : list gty) : list (gty * gty) :=
  match path with [] => [] | e :: r => (src, e) :: steps e r end.

Lemma path_per_step path : forall src c,
  path_outcome src path = Accept c ->
  exists cs, Forall2 (fun st c' => check_type_against (fst st) (snd st) = Accept c' /\
                                   (fst st = snd st \/ widens (fst st) (snd st))) (steps src path) cs /\
             c = concat cs.
Proof.
  induction path as [| e r IH]; intros src c H.
  - simpl in H. inversion H; subst. exists []. split; [constructor | reflexivity].
  - simpl in H. destruct (check_type_against src e) eqn:E; try discriminate.
    destruct (path_outcome e r) eqn:P; try discriminate. inversion H; subst.
    destruct (IH e chain0 P) as [cs [F C]]. exists (chain :: cs). split.
    + constructor; [| exact F]. split; [exact E |]. apply (accept_only_widening PAnnAssign src e chain). exact E.
    + simpl. rewrite C. reflexivity.
Qed.

Lemma run_app c1 : forall c2 v,
  run (c1 ++ c2) v = match run c1 v with Some v' => run c2 v' | None => None end.
Proof.
  induction c1 as [| h r IH]; intros c2 v; simpl; [reflexivity |].
  destruct (hop_sem h v); [apply IH | reflexivity].
Qed.
