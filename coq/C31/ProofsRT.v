(** C31 — round trip: printed first-order types read back as the same type. *)
From Coq Require Import String Ascii List NArith Bool Arith Lia.
From V.C31 Require Import Tokens GenPrinter Model Spec.
Import ListNotations.
Open Scope string_scope.
Open Scope list_scope.

(* ------------------------------------------------------------ induction principle *)
Section TyInd.
  Variable P : ty -> Prop.
  Hypothesis HNum : forall k, P (TNum k).
  Hypothesis HNone : P TNone.
  Hypothesis HTuple : forall ts, Forall P ts -> P (TTuple ts).
  Hypothesis HApp : forall d args, Forall P args -> P (TApp d args).
  Hypothesis HCNat : forall n, P (CNat n).
  Hypothesis HBound : forall s i, P (TBound s i).
  Hypothesis HExist : forall s i, P (TExist s i).
  Hypothesis HFun : forall ps ins fl out, Forall P ins -> P out -> P (TFun ps ins fl out).
  Fixpoint ty_ind' (t : ty) : P t :=
    let go := fix go (l : list ty) : Forall P l :=
      match l with [] => Forall_nil _ | x :: r => Forall_cons _ (ty_ind' x) (go r) end in
    match t with
    | TNum k => HNum k
    | TNone => HNone
    | TTuple ts => HTuple ts (go ts)
    | TApp d args => HApp d args (go args)
    | CNat n => HCNat n
    | TBound s i => HBound s i
    | TExist s i => HExist s i
    | TFun ps ins fl out => HFun ps ins fl out (go ins) (ty_ind' out)
    end.
End TyInd.

(* ------------------------------------------------------------ pure printer on first-order types *)

Fixpoint prf (t : ty) : list token :=
  match t with
  | TNum k => [TName (num_name k)]
  | TNone => [TName none_name]
  | CNat n => [TNumber n]
  | TTuple ts => tuple_open ++ join tuple_sep (map prf ts)
                   ++ (if Nat.eqb (length ts) 1 then tuple_single_suffix else []) ++ tuple_close
  | TApp d args =>
      match args with
      | [] => [TName d]
      | _ => TName d :: app_open ++ join app_sep (map prf args)
               ++ (if is_sole_tuple args then app_sole_tuple_suffix else []) ++ app_close
      end
  | _ => []
  end.

Fixpoint fo (t : ty) : bool :=
  match t with
  | TNum _ | TNone | CNat _ => true
  | TTuple ts => forallb fo ts
  | TApp d args => negb (is_kw d) && forallb fo args
  | _ => false
  end.

Definition wfa (E : env) (a : ty) : bool := match a with CNat _ => true | _ => wf E a end.

Lemma wfa_fo : forall E t, wfa E t = true -> fo t = true.
Proof.
  intros E t. induction t using ty_ind'; simpl; intros Hw; try reflexivity; try discriminate.
  - rewrite forallb_forall in *. rewrite Forall_forall in H. intros x Hx.
    apply H; auto. specialize (Hw x Hx). destruct x; simpl in *; auto.
  - apply andb_prop in Hw as [Hk Hw]. rewrite Hk. simpl.
    destruct (slookup d E) as [[| |ps c1 c2]|]; try discriminate.
    apply andb_prop in Hw as [_ Hw].
    rewrite forallb_forall in *. rewrite Forall_forall in H. intros x Hx. apply H; auto.
    specialize (Hw x Hx). unfold wfa. exact Hw.
Qed.

Lemma thread_fo : forall l st,
  Forall (fun x => fo x = true -> forall row st, pr x row st = (prf x, st)) l ->
  forallb fo l = true ->
  thread (fun x => pr x true) l st = (map prf l, st).
Proof.
  induction l; intros st HF Hfo; simpl in *; auto.
  apply andb_prop in Hfo as [Ha Hl]. inversion HF; subst.
  rewrite (H1 Ha). rewrite IHl; auto.
Qed.

Lemma pr_fo : forall t, fo t = true -> forall row st, pr t row st = (prf t, st).
Proof.
  induction t using ty_ind'; intros Hfo row st; simpl in Hfo; try discriminate; try reflexivity.
  - simpl. rewrite thread_fo; auto.
  - apply andb_prop in Hfo as [_ Hfo]. simpl. destruct args as [|a args]; [reflexivity|].
    rewrite thread_fo; auto.
Qed.

(* ------------------------------------------------------------ what Python reads *)

Definition is_tuple (t : ty) : bool := match t with TTuple _ => true | _ => false end.

(* the Python AST of the printed text of [t] — for EVERY first-order type, also where Python's
   grammar makes it differ from the intended one: the printed 1-tuple `(a)` is just `a`, and a sole
   argument is the subscript itself, so that `X[(a, b)]` has the slice `(a, b)` = two arguments *)
Fixpoint ast_of (t : ty) : pyexpr :=
  match t with
  | TNum k => PName (num_name k)
  | TNone => PNone
  | CNat n => PNum n
  | TTuple ts => match ts with [x] => ast_of x | _ => PTuple (map ast_of ts) end
  | TApp d args =>
      match args with
      | [] => PName d
      | [a] => PSub (PName d) (ast_of a)
      | _ => PSub (PName d) (PTuple (map ast_of args))
      end
  | _ => PNone
  end.

Lemma name_atom_plain : forall d, is_kw d = false -> name_atom d = PName d.
Proof.
  intros d H. unfold is_kw in H. apply orb_false_elim in H as [H H3]. apply orb_false_elim in H as [H1 H2].
  unfold name_atom. rewrite H1, H2, H3. reflexivity.
Qed.

Lemma num_name_plain : forall k, is_kw (num_name k) = false.
Proof. destruct k; vm_compute; reflexivity. Qed.

Fixpoint seq_end (x : ty) (l : list ty) (items : list pyexpr) (c : bool) : pyexpr * list pyexpr * bool :=
  match l with
  | [] => (ast_of x, items, c)
  | y :: l' => seq_end y l' (ast_of x :: items) true
  end.

Definition sim (t : ty) : Prop :=
  forall rest stk, run (prf t ++ rest) None stk = run rest (Some (ast_of t)) stk.

Lemma run_seq : forall l x rest k items c stk,
  sim x -> Forall sim l ->
  run (join [TComma] (map prf (x :: l)) ++ rest) None ((k, items, c) :: stk)
  = let '(e, items', c') := seq_end x l items c in run rest (Some e) ((k, items', c') :: stk).
Proof.
  induction l as [|y l IH]; intros x rest k items c stk Hx Hl.
  - simpl. apply Hx.
  - inversion Hl; subst.
    change (join [TComma] (map prf (x :: y :: l))) with (prf x ++ [TComma] ++ join [TComma] (map prf (y :: l))).
    rewrite <- !app_assoc. rewrite Hx.
    change ([TComma] ++ join [TComma] (map prf (y :: l)) ++ rest)
      with (TComma :: (join [TComma] (map prf (y :: l)) ++ rest)).
    change (run (TComma :: ?r) (Some ?e) ((k, items, c) :: stk)) with (run r None ((k, e :: items, true) :: stk)).
    rewrite IH; auto.
Qed.

Lemma seq_end_spec : forall l x items c,
  let '(e, items', c') := seq_end x l items c in
  rev (e :: items') = rev items ++ map ast_of (x :: l) /\ c' = (c || negb (Nat.eqb (length l) 0)).
Proof.
  induction l as [|y l IH]; intros x items c; cbn [seq_end].
  - split; [reflexivity | simpl; rewrite orb_false_r; reflexivity].
  - specialize (IH y (ast_of x :: items) true). destruct (seq_end y l (ast_of x :: items) true) as [[e i'] c'].
    destruct IH as [IH1 IH2]. split.
    + rewrite IH1. simpl. rewrite <- app_assoc. reflexivity.
    + rewrite IH2. rewrite orb_true_r. reflexivity.
Qed.

Lemma fo_sim : forall t, fo t = true -> sim t.
Proof.
  induction t using ty_ind'; intros Hfo; simpl in Hfo; try discriminate; unfold sim; intros rest stk.
  - (* TNum *) simpl. rewrite name_atom_plain by apply num_name_plain. reflexivity.
  - (* TNone *) change none_name with "None". reflexivity.
  - (* TTuple *)
    assert (HS : Forall sim ts).
    { rewrite Forall_forall in *. rewrite forallb_forall in Hfo. intros x Hx. apply H; auto. }
    cbn [prf]. change tuple_open with [TLP]. change tuple_close with [TRP]. change tuple_sep with [TComma].
    change tuple_single_suffix with (@nil token).
    destruct ts as [|x [|y l]].
    + reflexivity.
    + (* the printed 1-tuple is a parenthesised expression *)
      inversion HS; subst. cbn [length Nat.eqb map join app ast_of]. rewrite <- app_assoc.
      cbn [run step]. rewrite H2. reflexivity.
    + inversion HS; subst.
      cbn [length Nat.eqb app]. rewrite <- !app_assoc.
      cbn [run step]. rewrite run_seq; auto.
      pose proof (seq_end_spec (y :: l) x [] false) as Hs.
      destruct (seq_end x (y :: l) [] false) as [[e i'] c']. destruct Hs as [Hs1 Hs2].
      simpl in Hs2. subst c'. cbn [app run step]. unfold group. rewrite Hs1. reflexivity.
  - (* TApp *)
    apply andb_prop in Hfo as [Hk Hfo]. apply negb_true_iff in Hk.
    assert (HS : Forall sim args).
    { rewrite Forall_forall in *. rewrite forallb_forall in Hfo. intros x Hx. apply H; auto. }
    cbn [prf ast_of]. change app_open with [TLB]. change app_close with [TRB]. change app_sep with [TComma].
    change app_sole_tuple_suffix with (@nil token).
    destruct args as [|x [|y l]].
    + simpl. rewrite name_atom_plain; auto.
    + (* a sole argument is the subscript itself, whatever it is *)
      inversion HS; subst. cbn [app run step]. rewrite name_atom_plain by auto.
      cbn [map join]. replace (if is_sole_tuple [x] then [] else []) with (@nil token) by (destruct (is_sole_tuple [x]); reflexivity).
      cbn [app]. rewrite <- !app_assoc. rewrite H2. reflexivity.
    + inversion HS; subst. cbn [app run step]. rewrite name_atom_plain by auto.
      rewrite <- !app_assoc. rewrite run_seq; auto.
      pose proof (seq_end_spec (y :: l) x [] false) as Hs.
      destruct (seq_end x (y :: l) [] false) as [[e i'] c']. destruct Hs as [Hs1 Hs2].
      simpl in Hs2. subst c'.
      replace (is_sole_tuple (x :: y :: l)) with false by (destruct x; reflexivity).
      cbn [app run step]. unfold group. rewrite Hs1. reflexivity.
  - (* CNat *) reflexivity.
Qed.

(* ------------------------------------------------------------ type_from_ast inverts ast_of *)

Lemma fits_params_ok : forall E ps args,
  Nat.eqb (length ps) (length args) = true ->
  forallb (fun pa => arg_fits E (fst pa) (snd pa)) (combine ps args) = true ->
  params_ok E ps args = true.
Proof.
  induction ps as [|p ps IH]; intros [|a args] Hl Hf; simpl in *; try discriminate; auto.
  apply andb_prop in Hf as [Hf1 Hf2]. rewrite IH; auto. rewrite andb_true_r.
  unfold arg_fits in Hf1. unfold param_ok.
  destruct p as [mc md|]; destruct a; try discriminate; auto;
    destruct mc, md; simpl in *; try rewrite andb_true_r in *; auto.
Qed.

Lemma ast_of_arg : forall E l,
  Forall (fun t => wfa E t = true -> safe t = true -> arg_of E (ast_of t) = Some t) l ->
  forallb (wfa E) l = true -> forallb safe l = true ->
  map_opt (arg_of E) (map ast_of l) = Some l.
Proof.
  induction l; intros HF Hw Hs; simpl in *; auto.
  apply andb_prop in Hw as [Ha Hl]. apply andb_prop in Hs as [Hsa Hsl].
  inversion HF; subst. rewrite H1, IHl; auto.
Qed.

Lemma wf_is_type : forall E t, wf E t = true -> is_type t = true.
Proof. destruct t; simpl; auto; discriminate. Qed.

Lemma ast_of_type : forall E l,
  Forall (fun t => wfa E t = true -> safe t = true -> arg_of E (ast_of t) = Some t) l ->
  forallb (wf E) l = true -> forallb safe l = true ->
  map_opt (fun x => as_type (arg_of E x)) (map ast_of l) = Some l.
Proof.
  induction l; intros HF Hw Hs; simpl in *; auto.
  apply andb_prop in Hw as [Ha Hl]. apply andb_prop in Hs as [Hsa Hsl]. inversion HF; subst.
  rewrite H1 by (destruct a; auto). simpl. rewrite (wf_is_type E a Ha). rewrite IHl; auto.
Qed.

Lemma arg_of_ast_of : forall E, env_ok E -> forall t, wfa E t = true -> safe t = true -> arg_of E (ast_of t) = Some t.
Proof.
  intros E HE. induction t using ty_ind'; intros Hw Hs; simpl in Hw; try discriminate.
  - simpl. rewrite HE. reflexivity.
  - reflexivity.
  - (* tuple: not a 1-tuple *)
    simpl in Hs. apply andb_prop in Hs as [Hlen Hs].
    assert (Hm : map_opt (fun x => as_type (arg_of E x)) (map ast_of ts) = Some ts) by (apply ast_of_type; auto).
    destruct ts as [|x [|y l]]; [reflexivity | simpl in Hlen; discriminate |].
    cbn [ast_of arg_of]. rewrite Hm. reflexivity.
  - apply andb_prop in Hw as [Hk Hw]. apply negb_true_iff in Hk.
    simpl in Hs. apply andb_prop in Hs as [Hsole Hs]. apply negb_true_iff in Hsole.
    destruct (slookup d E) as [[| |ps c1 c2]|] eqn:Hd; try discriminate.
    apply andb_prop in Hw as [Hw Hargs]. apply andb_prop in Hw as [Hlen Hfit].
    pose proof (fits_params_ok E ps args Hlen Hfit) as Hpo.
    assert (Hall : map_opt (arg_of E) (map ast_of args) = Some args) by (apply ast_of_arg; auto).
    destruct args as [|x [|y l]].
    + simpl. rewrite Hd. simpl. rewrite Hpo. reflexivity.
    + (* sole argument, not a tuple: its ast is never a PTuple *)
      simpl in Hall. destruct (arg_of E (ast_of x)) eqn:Hx; try discriminate. inversion Hall; subst.
      cbn [ast_of arg_of]. rewrite Hd.
      destruct x; simpl in Hsole; try discriminate; cbn [ast_of] in *;
        try (rewrite Hx; simpl; rewrite Hpo; reflexivity).
      destruct args as [|a1 [|a2 l2]]; rewrite Hx; simpl; rewrite Hpo; reflexivity.
    + cbn [ast_of arg_of]. rewrite Hd. rewrite Hall. simpl. rewrite Hpo. reflexivity.
  - reflexivity.
Qed.

(* ------------------------------------------------------------ the round trip *)

Lemma print_is_prf : forall t, fo t = true -> print t = prf t.
Proof. intros t H. unfold print. rewrite pr_fo; auto. Qed.

Lemma roundtrip : forall E t, env_ok E -> wf E t = true -> safe t = true -> parse E (print t) = Some t.
Proof.
  intros E t HE Hw Hsafe.
  assert (Hwa : wfa E t = true) by (destruct t; auto).
  pose proof (wfa_fo E t Hwa) as Hfo.
  unfold parse, py_parse. rewrite print_is_prf by auto.
  rewrite <- (app_nil_r (prf t)). rewrite (fo_sim t Hfo). simpl.
  unfold type_of. rewrite arg_of_ast_of; auto. simpl. rewrite (wf_is_type E t Hw). reflexivity.
Qed.

(* Python reads the printed text of a first-order type as [ast_of t] *)
Lemma python_reads : forall t, fo t = true -> py_parse (print t) = Some (ast_of t).
Proof.
  intros t Hfo. unfold py_parse. rewrite print_is_prf by auto.
  rewrite <- (app_nil_r (prf t)). rewrite (fo_sim t Hfo). reflexivity.
Qed.
