(** C31 — specification-side definitions (no proofs): well-formed first-order types over a scope
    of definitions, written independently of the parser model. *)
From Coq Require Import String Ascii List NArith Bool Arith.
From V.C31 Require Import Tokens GenPrinter Model.
Import ListNotations.
Open Scope string_scope.
Open Scope list_scope.

(* ------------------------------------------------------------ specification side *)

(* names Python's parser does not read as identifiers *)
Definition is_kw (s : string) : bool := String.eqb s "None" || String.eqb s "True" || String.eqb s "False".

(* the argument [a] is admissible for parameter [p] (kinds and Copy/Drop bounds) *)
Definition arg_fits (E : env) (p : dparam) (a : ty) : bool :=
  match p, a with
  | DPNat, CNat _ => true
  | DPNat, _ => false
  | DPType _ _, CNat _ => false
  | DPType mc md, _ => (if mc then copyable E a else true) && (if md then droppable E a else true)
  end.

(* [t] is a well-formed first-order type over the definitions in [E]: numerics, None, tuples,
   and applications [d[args]] of a definition [d] of [E] (bool, str, array, frozenarray, Option,
   structs ...) to as many arguments as it has parameters, each fitting its parameter *)
Fixpoint wf (E : env) (t : ty) : bool :=
  match t with
  | TNum _ | TNone => true
  | TTuple ts => forallb (wf E) ts
  | TApp d args =>
      negb (is_kw d) &&
      match slookup d E with
      | Some (DApp ps _ _) =>
          Nat.eqb (length ps) (length args) &&
          forallb (fun pa => arg_fits E (fst pa) (snd pa)) (combine ps args) &&
          forallb (fun a => match a with CNat _ => true | _ => wf E a end) args
      | _ => false
      end
  | _ => false
  end.

(* the precondition of the partial round-trip theorem (decidable): no 1-tuple anywhere, and no
   applied definition whose sole argument is a tuple.  These are exactly the two places where the
   printed text means something else to Python: `(a)` is `a`, and `X[(a, b)]` is `X[a, b]`. *)
Fixpoint safe (t : ty) : bool :=
  match t with
  | TTuple ts => negb (Nat.eqb (length ts) 1) && forallb safe ts
  | TApp _ args => negb (is_sole_tuple args) && forallb safe args
  | _ => true
  end.

(* the builtin numeric names denote the numeric definitions (they are not shadowed) *)
Definition env_ok (E : env) : Prop := forall k, slookup (num_name k) E = Some (DNum k).


(* ------------------------------------------------------------ naming part *)

(* a display name is identifier-like: no quote (the index separator) and no question mark *)
Fixpoint noq (s : string) : bool :=
  match s with
  | EmptyString => true
  | String c r => negb (Ascii.eqb c "'") && negb (Ascii.eqb c "?") && noq r
  end.

(* no generic (parametrized) function type inside *)
Fixpoint mono (t : ty) : bool :=
  match t with
  | TTuple ts => forallb mono ts
  | TApp _ args => forallb mono args
  | TFun ps ins _ out => match ps with [] => forallb mono ins && mono out | _ => false end
  | _ => true
  end.

(* rank-1: at most one quantifier, at the top (higher-rank types are rejected by ty.py) *)
Definition rank1 (t : ty) : bool :=
  match t with
  | TFun ps ins _ out => forallb mono ins && mono out
  | _ => mono t
  end.

(* all display names occurring in [t] are identifier-like *)
Fixpoint tnames_ok (t : ty) : bool :=
  match t with
  | TTuple ts => forallb tnames_ok ts
  | TApp _ args => forallb tnames_ok args
  | TBound s _ | TExist s _ => noq s
  | TFun ps ins _ out => forallb (fun p => noq (fst p)) ps && forallb tnames_ok ins && tnames_ok out
  | _ => true
  end.
