(** C31 — executable model (no proofs here).
    1. the type language (ty.py / arg.py / const.py, first-order part + variables + function types);
    2. [pr]: TypePrinter (printing.py) as a state-passing function producing tokens; bracket and
       separator tokens, the numeric names, the fresh-name separator, the existential prefix and
       the "fresh names for free bound variables" switch come from GenPrinter.v, which is
       regenerated from printing.py / ty.py on every run;
    3. [py_parse]: Python's expression grammar restricted to the token alphabet
       NAME NUMBER ( ) [ ] ,  as a deterministic push-down machine producing a Python AST;
    4. [arg_of] / [type_of]: parsing.py arg_from_ast / type_from_ast on that AST in an
       environment of type definitions (builtins + user structs), incl. check_instantiate. *)
From Coq Require Import String Ascii List NArith Bool Arith DecimalString.
From V.C31 Require Import Tokens GenPrinter.
Import ListNotations.
Open Scope string_scope.
Open Scope list_scope.

(* ---------------------------------------------------------------- 1. types *)

Inductive ckind := CKNat | CKInt | CKFloat | CKBool.
(* a parameter of a generic function: TypeParam / ConstParam(ty, from_comptime_arg) *)
Inductive pkind := PKType | PKConst (k : ckind) (from_comptime : bool).

(* Type | Argument: [CNat] is ConstArg(ConstValue(nat, n)) and only legal in argument position;
   TypeArg(ty) is identified with ty (the printer looks through both wrappers). *)
Inductive ty :=
| TNum (k : numkind)                       (* NumericType *)
| TNone                                    (* NoneType *)
| TTuple (ts : list ty)                    (* TupleType *)
| TApp (d : string) (args : list ty)       (* OpaqueType / StructType: defn.name, args *)
| CNat (n : N)
| TBound (name : string) (idx : nat)       (* BoundTypeVar / BoundConstVar: display_name, idx *)
| TExist (name : string) (id : nat)        (* ExistentialTypeVar / ExistentialConstVar *)
| TFun (ps : list (string * pkind)) (ins : list ty) (fl : list (bool * bool)) (out : ty).
       (* FunctionType: params (idx = position), inputs, their (Owned, Comptime) flags, output *)

(* ---------------------------------------------------------------- 2. printer *)

Record pst := mkPst {
  counter : list (string * N);          (* self.counter; first binding wins *)
  bound_names : list string;            (* self.bound_names *)
  exist_names : list (nat * string);    (* self.existential_names *)
  free_names : list (nat * string) }.   (* self.free_names (fix-2) *)

Definition init_pst : pst := mkPst [] [] [] [].

Fixpoint slookup {V} (k : string) (l : list (string * V)) : option V :=
  match l with [] => None | (k', v) :: r => if String.eqb k k' then Some v else slookup k r end.
Fixpoint nlookup {V} (k : nat) (l : list (nat * V)) : option V :=
  match l with [] => None | (k', v) :: r => if Nat.eqb k k' then Some v else nlookup k r end.

(* Python str(int) for a non-negative int *)
Definition dec (n : N) : string := NilEmpty.string_of_uint (N.to_uint n).

(* TypePrinter._fresh_name *)
Definition fresh (d : string) (st : pst) : string * pst :=
  match slookup d (counter st) with
  | None => (d, mkPst ((d, 1%N) :: counter st) (bound_names st) (exist_names st) (free_names st))
  | Some k => ((d ++ fresh_sep ++ dec k)%string,
               mkPst ((d, (k + 1)%N) :: counter st) (bound_names st) (exist_names st) (free_names st))
  end.

(* sep.join(parts) *)
Fixpoint join {A} (sep : list A) (parts : list (list A)) : list A :=
  match parts with
  | [] => []
  | p :: r => match r with [] => p | _ => p ++ sep ++ join sep r end
  end.

Section Thread.
  Context {A : Type} (f : A -> pst -> list token * pst).
  (* [f(x) for x in l] with the printer state threaded left to right *)
  Fixpoint thread (l : list A) (st : pst) : list (list token) * pst :=
    match l with
    | [] => ([], st)
    | x :: r => let '(a, st1) := f x st in let '(b, st2) := thread r st1 in (a :: b, st2)
    end.
End Thread.

Definition flag_toks (f : bool * bool) : list token :=
  (if fst f then [TKw "@owned"] else []) ++ (if snd f then [TKw "@comptime"] else []).

Section Thread2.
  Context (f : ty -> pst -> list token * pst).
  Fixpoint thread_in (l : list ty) (fl : list (bool * bool)) (st : pst) : list (list token) * pst :=
    match l with
    | [] => ([], st)
    | x :: r => let '(a, st1) := f x st in
                let '(b, st2) := thread_in r (tl fl) st1 in
                ((a ++ flag_toks (hd (false, false) fl)) :: b, st2)
    end.
End Thread2.

Definition ckind_name (k : ckind) : string :=
  match k with CKNat => num_name KNat | CKInt => num_name KInt | CKFloat => num_name KFloat | CKBool => "bool" end.

Fixpoint alloc_params (ps : list (string * pkind)) (st : pst) : pst :=
  match ps with
  | [] => st
  | (nm, _) :: r =>
      let '(n', st1) := fresh nm st in
      alloc_params r (mkPst (counter st1) (bound_names st1 ++ [n']) (exist_names st1) (free_names st1))
  end.

Fixpoint quant_parts (ps : list (string * pkind)) (i : nat) (bn : list string) : list (list token) :=
  match ps with
  | [] => []
  | (_, PKType) :: r => [TVar (VBound i) (nth i bn "")] :: quant_parts r (S i) bn
  | (_, PKConst k fc) :: r =>
      if fc then quant_parts r (S i) bn
      else [TVar (VBound i) (nth i bn ""); TKw ":"; TName (ckind_name k)] :: quant_parts r (S i) bn
  end.

Definition lastn {A} (n : nat) (l : list A) : list A := skipn (length l - n) l.
Definition wrap (row : bool) (t : list token) : list token := if row then TLP :: t ++ [TRP] else t.
Definition is_sole_tuple (args : list ty) : bool :=
  match args with [TTuple _] => true | _ => false end.

(* TypePrinter._visit *)
Fixpoint pr (t : ty) (row : bool) (st : pst) {struct t} : list token * pst :=
  match t with
  | TNum k => ([TName (num_name k)], st)
  | TNone => ([TName none_name], st)
  | CNat n => ([TNumber n], st)
  | TTuple ts =>
      let '(parts, st') := thread (fun x => pr x true) ts st in
      (tuple_open ++ join tuple_sep parts
         ++ (if Nat.eqb (length ts) 1 then tuple_single_suffix else []) ++ tuple_close, st')
  | TApp d args =>
      match args with
      | [] => ([TName d], st)
      | _ => let '(parts, st') := thread (fun x => pr x true) args st in
             (TName d :: app_open ++ join app_sep parts
                ++ (if is_sole_tuple args then app_sole_tuple_suffix else []) ++ app_close, st')
      end
  | TBound name idx =>
      if Nat.ltb idx (length (bound_names st)) then ([TVar (VBound idx) (nth idx (bound_names st) "")], st)
      else if free_bound_fresh then
        match nlookup idx (free_names st) with
        | Some nm => ([TVar (VBound idx) nm], st)
        | None => let '(nm, st1) := fresh name st in
                  ([TVar (VBound idx) nm],
                   mkPst (counter st1) (bound_names st1) (exist_names st1) ((idx, nm) :: free_names st1))
        end
      else ([TVar (VBound idx) name], st)
  | TExist name id =>
      match nlookup id (exist_names st) with
      | Some nm => ([TVar (VExist id) (exist_prefix ++ nm)%string], st)
      | None => let '(nm, st1) := fresh name st in
                ([TVar (VExist id) (exist_prefix ++ nm)%string],
                 mkPst (counter st1) (bound_names st1) ((id, nm) :: exist_names st1) (free_names st1))
      end
  | TFun ps ins fl out =>
      let n := length ps in
      let st1 := alloc_params ps st in
      let '(iparts, st2) := thread_in (fun x => pr x true) ins fl st1 in
      let itoks0 := join fun_sep iparts in
      let itoks := if Nat.eqb (length ins) 1 then itoks0 else TLP :: itoks0 ++ [TRP] in
      let '(otoks, st3) := pr out true st2 in
      match n with
      | O => (wrap row (itoks ++ [TKw "->"] ++ otoks), st3)
      | _ =>
        let q := join fun_sep (quant_parts ps 0 (bound_names st3)) in
        (wrap row ([TKw "forall"] ++ q ++ [TKw "."] ++ itoks ++ [TKw "->"] ++ otoks),
         mkPst (counter st3) (lastn n (bound_names st3)) (exist_names st3) (free_names st3))
      end
  end.

(* str(ty) = TypePrinter().visit(ty) *)
Definition print (t : ty) : list token := fst (pr t false init_pst).

Definition tok_text (t : token) : string :=
  match t with
  | TName s => s | TNumber n => dec n | TLP => "(" | TRP => ")" | TLB => "[" | TRB => "]"
  | TComma => "," | TKw s => s | TVar _ s => s
  end.

Fixpoint tags (l : list token) : list (var * string) :=
  match l with [] => [] | TVar v s :: r => (v, s) :: tags r | _ :: r => tags r end.

(* ---------------------------------------------------------------- 3. Python expressions *)

Inductive pyexpr :=
| PName (s : string) | PNum (n : N) | PNone | PBool (b : bool)
| PTuple (es : list pyexpr)
| PSub (v : pyexpr) (sl : pyexpr).

Definition name_atom (s : string) : pyexpr :=
  if String.eqb s "None" then PNone
  else if String.eqb s "True" then PBool true
  else if String.eqb s "False" then PBool false
  else PName s.

Inductive fkind := FTop | FParen | FSub (head : pyexpr).
(* an open bracket: kind, completed items (reversed), whether a comma was seen *)
Definition frame := (fkind * list pyexpr * bool)%type.

(* what `e1, e2, ...` denotes: commas make a tuple, a single expression without comma is itself *)
Definition group (items : list pyexpr) (commas : bool) : pyexpr :=
  if commas then PTuple items else match items with [e] => e | _ => PTuple items end.

(* state: the primary just completed (if any) and the stack of open brackets.
   None as a result = SyntaxError, or syntax outside the modelled fragment (calls, list displays). *)
Definition step (tk : token) (cur : option pyexpr) (stk : list frame) : option (option pyexpr * list frame) :=
  match tk, cur, stk with
  | TName s, None, _ => Some (Some (name_atom s), stk)
  | TNumber n, None, _ => Some (Some (PNum n), stk)
  | TLP, None, _ => Some (None, (FParen, [], false) :: stk)
  | TLB, Some e, _ => Some (None, (FSub e, [], false) :: stk)
  | TComma, Some e, (k, items, _) :: r => Some (None, (k, e :: items, true) :: r)
  | TRP, Some e, (FParen, items, c) :: r => Some (Some (group (rev (e :: items)) c), r)
  | TRP, None, (FParen, items, c) :: r =>
      match items, c with
      | [], false => Some (Some (PTuple []), r)
      | _, true => Some (Some (PTuple (rev items)), r)
      | _, _ => None
      end
  | TRB, Some e, (FSub h, items, c) :: r => Some (Some (PSub h (group (rev (e :: items)) c)), r)
  | TRB, None, (FSub h, items, true) :: r => Some (Some (PSub h (PTuple (rev items))), r)
  | _, _, _ => None
  end.

Fixpoint run (ts : list token) (cur : option pyexpr) (stk : list frame) : option pyexpr :=
  match ts with
  | tk :: r => match step tk cur stk with Some (c', s') => run r c' s' | None => None end
  | [] => match cur, stk with
          | Some e, [(FTop, items, c)] => Some (group (rev (e :: items)) c)
          | None, [(FTop, items, true)] => Some (PTuple (rev items))
          | _, _ => None
          end
  end.

(* ast.parse(s).body[0].value *)
Definition py_parse (ts : list token) : option pyexpr := run ts None [(FTop, [], false)].

(* ---------------------------------------------------------------- 4. parsing.py *)

(* a parameter of a type definition: TypeParam(must_be_copyable, must_be_droppable) | ConstParam(nat) *)
Inductive dparam := DPType (must_copy must_drop : bool) | DPNat.
(* what a global name denotes: numeric defs, `tuple`, or an opaque/struct definition with its
   parameters and whether instances are copyable / droppable when all type arguments are *)
Inductive defn :=
| DNum (k : numkind)
| DTuple
| DApp (params : list dparam) (intr_copy intr_drop : bool).
Definition env := list (string * defn).

Definition is_type (t : ty) : bool := match t with CNat _ => false | _ => true end.

Section WithEnv.
  Context (E : env).

  (* ty.copyable / ty.droppable on first-order types *)
  Fixpoint copyable (t : ty) : bool :=
    match t with
    | TNum _ | TNone => true
    | TTuple ts => forallb copyable ts
    | TApp d args => match slookup d E with
                     | Some (DApp _ c _) => c && forallb (fun a => negb (is_type a) || copyable a) args
                     | _ => false end
    | _ => false
    end.
  Fixpoint droppable (t : ty) : bool :=
    match t with
    | TNum _ | TNone => true
    | TTuple ts => forallb droppable ts
    | TApp d args => match slookup d E with
                     | Some (DApp _ _ c) => c && forallb (fun a => negb (is_type a) || droppable a) args
                     | _ => false end
    | _ => false
    end.

  (* Parameter.check_arg *)
  Definition param_ok (p : dparam) (a : ty) : bool :=
    match p with
    | DPType mc md => is_type a && (negb mc || copyable a) && (negb md || droppable a)
    | DPNat => match a with CNat _ => true | _ => false end
    end.
  (* check_all_args *)
  Fixpoint params_ok (ps : list dparam) (args : list ty) : bool :=
    match ps, args with
    | [], [] => true
    | p :: ps', a :: args' => param_ok p a && params_ok ps' args'
    | _, _ => false
    end.

  (* defn.check_instantiate(args) *)
  Definition instantiate (name : string) (d : defn) (args : list ty) : option ty :=
    match d with
    | DNum k => match args with [] => Some (TNum k) | _ => None end
    | DTuple => if forallb is_type args then Some (TTuple args) else None
    | DApp ps _ _ => if params_ok ps args then Some (TApp name args) else None
    end.

  Section MapOpt.
    Context {A B : Type} (f : A -> option B).
    Fixpoint map_opt (l : list A) : option (list B) :=
      match l with
      | [] => Some []
      | x :: r => match f x, map_opt r with Some y, Some ys => Some (y :: ys) | _, _ => None end
      end.
  End MapOpt.

  Definition as_type (a : option ty) : option ty :=
    match a with Some t => if is_type t then Some t else None | None => None end.

  (* arg_from_ast with an empty param_var_mapping; None = GuppyError *)
  Fixpoint arg_of (e : pyexpr) : option ty :=
    match e with
    | PName x => match slookup x E with Some d => instantiate x d [] | None => None end
    | PSub (PName x) sl =>
        match slookup x E with
        | Some d =>
            match sl with
            | PTuple es => match map_opt arg_of es with Some args => instantiate x d args | None => None end
            | _ => match arg_of sl with Some a => instantiate x d [a] | None => None end
            end
        | None => None
        end
    | PSub _ _ => None
    | PTuple es => match map_opt (fun x => as_type (arg_of x)) es with Some ts => Some (TTuple ts) | None => None end
    | PNone => Some TNone
    | PNum n => Some (CNat n)
    | PBool _ => None   (* ConstArg of type bool: no definition in [env] has a bool parameter *)
    end.

  (* type_from_ast *)
  Definition type_of (e : pyexpr) : option ty := as_type (arg_of e).
End WithEnv.

(* read a printed type back: Python's parser, then type_from_ast *)
Definition parse (E : env) (ts : list token) : option ty :=
  match py_parse ts with Some e => type_of E e | None => None end.
