(** C31 — distinct variables get distinct names in one printer run. *)
From Coq Require Import String Ascii List NArith Bool Arith Lia DecimalString DecimalN Permutation.
From V.C31 Require Import Tokens GenPrinter Model Spec ProofsRT.
Import ListNotations.
Open Scope string_scope.
Open Scope list_scope.

(* ------------------------------------------------------------ strings *)

Lemma dec_inj : forall n m, dec n = dec m -> n = m.
Proof.
  unfold dec. intros n m H.
  assert (Some (N.to_uint n) = Some (N.to_uint m)) as H1.
  { rewrite <- !NilEmpty.usu. rewrite H. reflexivity. }
  inversion H1 as [H2]. rewrite <- (DecimalN.Unsigned.of_to n), <- (DecimalN.Unsigned.of_to m). rewrite H2. reflexivity.
Qed.

Lemma noq_app_quote : forall a x, noq (a ++ String "'" x)%string = false.
Proof.
  induction a; intros x; simpl.
  - reflexivity.
  - rewrite IHa. apply andb_false_r.
Qed.

Lemma split_inj : forall a b x y, noq a = true -> noq b = true ->
  (a ++ String "'" x)%string = (b ++ String "'" y)%string -> a = b /\ x = y.
Proof.
  induction a as [|c a IH]; intros [|c' b] x y Ha Hb H; simpl in *.
  - inversion H; auto.
  - inversion H; subst. simpl in Hb. discriminate.
  - inversion H; subst. simpl in Ha. discriminate.
  - inversion H; subst.
    apply andb_prop in Ha as [_ Ha]. apply andb_prop in Hb as [_ Hb].
    destruct (IH b x y Ha Hb H2). subst. auto.
Qed.

(* ------------------------------------------------------------ invariant *)

Definition alloc (st : pst) : list string :=
  map snd (free_names st) ++ map snd (exist_names st) ++ bound_names st.

Definition issued (cn : list (string * N)) (nm : string) : Prop :=
  exists d c, slookup d cn = Some c /\ noq d = true /\
    (nm = d \/ exists k, (1 <= k < c)%N /\ nm = (d ++ String "'" (dec k))%string).

Definition Inv (st : pst) : Prop :=
  (forall d c, slookup d (counter st) = Some c -> (1 <= c)%N) /\
  NoDup (alloc st) /\
  (forall nm, In nm (alloc st) -> issued (counter st) nm).

Lemma issued_mono : forall cn d c' x,
  (forall c0, slookup d cn = Some c0 -> (c0 <= c')%N) ->
  issued cn x -> issued ((d, c') :: cn) x.
Proof.
  intros cn d c' x Hc (d0 & c0 & Hl & Hn & Hx).
  destruct (String.eqb d0 d) eqn:He.
  - apply String.eqb_eq in He. subst d0. exists d, c'. simpl. rewrite String.eqb_refl.
    split; [reflexivity | split; [assumption|]].
    destruct Hx as [Hx | (k & Hk & Hx)]; [left; assumption | right; exists k; split; [|assumption]].
    specialize (Hc c0 Hl). lia.
  - exists d0, c0. simpl. rewrite He. auto.
Qed.

Lemma fresh_spec : forall d st nm st',
  Inv st -> noq d = true -> fresh d st = (nm, st') ->
  ~ In nm (alloc st) /\ issued (counter st') nm /\
  (forall x, issued (counter st) x -> issued (counter st') x) /\
  (forall d0 c, slookup d0 (counter st') = Some c -> (1 <= c)%N) /\
  bound_names st' = bound_names st /\ exist_names st' = exist_names st /\ free_names st' = free_names st.
Proof.
  intros d st nm st' (Hpos & Hnd & Hiss) Hd Hf. unfold fresh in Hf. change fresh_sep with "'" in Hf.
  destruct (slookup d (counter st)) as [c|] eqn:Hl; inversion Hf; subst; clear Hf; simpl.
  - (* d'c *)
    pose proof (Hpos d c Hl) as Hc1.
    repeat split; auto.
    + intros Hin. apply Hiss in Hin. destruct Hin as (d0 & c0 & Hl0 & Hn0 & [Hx | (k & Hk & Hx)]).
      * subst d0. change ("'" ++ dec c)%string with (String "'" (dec c)) in Hn0.
        rewrite noq_app_quote in Hn0. discriminate.
      * change ("'" ++ dec c)%string with (String "'" (dec c)) in Hx.
        apply split_inj in Hx as [Hx1 Hx2]; auto. subst d0. apply dec_inj in Hx2. subst k.
        rewrite Hl in Hl0. inversion Hl0; subst. lia.
    + exists d, (c + 1)%N. simpl. rewrite String.eqb_refl. repeat split; auto.
      right. exists c. split; [lia | reflexivity].
    + intros x Hx. apply issued_mono; auto. intros c0 Hc0. rewrite Hl in Hc0. inversion Hc0; subst. lia.
    + intros d0 c0. simpl. destruct (String.eqb d0 d); intros H; [inversion H; lia | eauto].
  - (* d *)
    repeat split; auto.
    + intros Hin. apply Hiss in Hin. destruct Hin as (d0 & c0 & Hl0 & Hn0 & [Hx | (k & Hk & Hx)]).
      * subst d0. rewrite Hl in Hl0. discriminate.
      * subst nm. rewrite noq_app_quote in Hd. discriminate.
    + exists nm, 1%N. simpl. rewrite String.eqb_refl. auto.
    + intros x Hx. apply issued_mono; auto. intros c0 Hc0. rewrite Hl in Hc0. discriminate.
    + intros d0 c0. simpl. destruct (String.eqb d0 nm); intros H; [inversion H; lia | eauto].
Qed.

(* ------------------------------------------------------------ the assignment of names to variables *)

Definition asg (st : pst) (v : var) : option string :=
  match v with
  | VBound i => if Nat.ltb i (length (bound_names st)) then Some (nth i (bound_names st) "")
                else nlookup i (free_names st)
  | VExist id => option_map (fun nm => (exist_prefix ++ nm)%string) (nlookup id (exist_names st))
  end.

Lemma nlookup_in : forall (l : list (nat * string)) k s, nlookup k l = Some s -> In s (map snd l).
Proof.
  induction l as [|[k' v] l IH]; simpl; intros k s H; [discriminate|].
  destruct (Nat.eqb k k'); [inversion H; auto | right; eauto].
Qed.

Lemma nlookup_inj : forall (l : list (nat * string)) i j s,
  NoDup (map snd l) -> nlookup i l = Some s -> nlookup j l = Some s -> i = j.
Proof.
  induction l as [|[k' v] l IH]; simpl; intros i j s Hnd Hi Hj; [discriminate|].
  inversion Hnd; subst.
  destruct (Nat.eqb i k') eqn:Ei, (Nat.eqb j k') eqn:Ej.
  - apply Nat.eqb_eq in Ei, Ej. congruence.
  - inversion Hi; subst. apply nlookup_in in Hj. contradiction.
  - inversion Hj; subst. apply nlookup_in in Hi. contradiction.
  - eauto.
Qed.

Lemma NoDup_app_disj : forall (a b : list string) x, NoDup (a ++ b) -> In x a -> In x b -> False.
Proof.
  induction a; simpl; intros b x H Ha Hb; [contradiction|].
  inversion H; subst. destruct Ha as [->|Ha]; [apply H2; apply in_or_app; auto | eauto].
Qed.

Lemma NoDup_app_l : forall (a b : list string), NoDup (a ++ b) -> NoDup a.
Proof.
  induction a; simpl; intros b H; [constructor|]. inversion H; subst. constructor; eauto.
  intros Hin. apply H2. apply in_or_app; auto.
Qed.
Lemma NoDup_app_r : forall (a b : list string), NoDup (a ++ b) -> NoDup b.
Proof. induction a; simpl; intros b H; auto. inversion H; eauto. Qed.

Lemma issued_not_qmark : forall cn r, issued cn (String "?" r) -> False.
Proof.
  intros cn r (d & c & _ & Hn & [Hx | (k & _ & Hx)]).
  - subst d. simpl in Hn. discriminate.
  - destruct d; simpl in *; [discriminate|]. inversion Hx; subst. simpl in Hn. discriminate.
Qed.

Lemma asg_in_alloc_bound : forall st i s, asg st (VBound i) = Some s ->
  In s (map snd (free_names st)) \/ In s (bound_names st).
Proof.
  intros st i s H. simpl in H. destruct (Nat.ltb i (length (bound_names st))) eqn:E.
  - inversion H; subst. right. apply nth_In. apply Nat.ltb_lt. assumption.
  - left. eapply nlookup_in; eauto.
Qed.

Lemma asg_inj : forall st v1 v2 s, Inv st -> asg st v1 = Some s -> asg st v2 = Some s -> v1 = v2.
Proof.
  intros st v1 v2 s (_ & Hnd & Hiss) H1 H2. unfold alloc in *.
  pose proof (NoDup_app_l _ _ Hnd) as Hndf.
  pose proof (NoDup_app_r _ _ Hnd) as Hnd2. pose proof (NoDup_app_l _ _ Hnd2) as Hnde.
  pose proof (NoDup_app_r _ _ Hnd2) as Hndb.
  destruct v1 as [i|i], v2 as [j|j].
  - simpl in H1, H2.
    destruct (Nat.ltb i (length (bound_names st))) eqn:Ei, (Nat.ltb j (length (bound_names st))) eqn:Ej.
    + apply Nat.ltb_lt in Ei, Ej. inversion H1; inversion H2; subst.
      f_equal. eapply (proj1 (NoDup_nth (bound_names st) "")); eauto.
    + exfalso. inversion H1; subst. apply Nat.ltb_lt in Ei. apply nlookup_in in H2.
      eapply (NoDup_app_disj _ _ _ Hnd); eauto. apply in_or_app. right. apply nth_In. assumption.
    + exfalso. inversion H2; subst. apply Nat.ltb_lt in Ej. apply nlookup_in in H1.
      eapply (NoDup_app_disj _ _ _ Hnd); eauto. apply in_or_app. right. apply nth_In. assumption.
    + f_equal. exact (nlookup_inj (free_names st) i j s Hndf H1 H2).
  - exfalso. simpl in H2. destruct (nlookup j (exist_names st)); [|discriminate].
    simpl in H2. change exist_prefix with "?" in H2. inversion H2; subst.
    apply asg_in_alloc_bound in H1.
    eapply (issued_not_qmark (counter st)). apply Hiss.
    destruct H1; apply in_or_app; [left; eassumption | right; apply in_or_app; right; eassumption].
  - exfalso. simpl in H1. destruct (nlookup i (exist_names st)); [|discriminate].
    simpl in H1. change exist_prefix with "?" in H1. inversion H1; subst.
    apply asg_in_alloc_bound in H2.
    eapply (issued_not_qmark (counter st)). apply Hiss.
    destruct H2; apply in_or_app; [left; eassumption | right; apply in_or_app; right; eassumption].
  - simpl in H1, H2.
    destruct (nlookup i (exist_names st)) eqn:Ei; [|discriminate].
    destruct (nlookup j (exist_names st)) eqn:Ej; [|discriminate].
    simpl in *. change exist_prefix with "?" in *. inversion H1; inversion H2; subst. inversion H3; subst.
    f_equal. exact (nlookup_inj (exist_names st) i j s0 Hnde Ei Ej).
Qed.

(* ------------------------------------------------------------ tags *)

Lemma tags_app : forall a b, tags (a ++ b) = tags a ++ tags b.
Proof. induction a as [|[] a IH]; intros b; simpl; auto. rewrite IH. reflexivity. Qed.

Definition tagless (l : list token) : Prop := tags l = [].

Lemma tags_join : forall sep parts v s, tagless sep ->
  In (v, s) (tags (join sep parts)) -> exists p, In p parts /\ In (v, s) (tags p).
Proof.
  intros sep parts v s Hs. induction parts as [|p r IH]; simpl; intros H; [contradiction|].
  destruct r as [|q r'].
  - exists p; auto.
  - rewrite !tags_app in H. rewrite Hs in H. simpl in H. apply in_app_or in H as [H|H].
    + exists p; auto.
    + destruct (IH H) as (p' & Hp & Ht). exists p'; auto.
Qed.

Lemma tags_wrap : forall row t, tags (wrap row t) = tags t.
Proof. intros [] t; simpl; auto. rewrite tags_app. simpl. apply app_nil_r. Qed.

Lemma tags_flag : forall f, tags (flag_toks f) = [].
Proof. intros [[] []]; reflexivity. Qed.

(* ------------------------------------------------------------ traversal *)

(* what one visit guarantees (binder-free part): the invariant is kept, bound_names is untouched,
   names already assigned stay, and every name printed is the assigned one *)
Definition Good (st : pst) (toks : list token) (st' : pst) : Prop :=
  Inv st' /\ bound_names st' = bound_names st /\
  (forall v s, asg st v = Some s -> asg st' v = Some s) /\
  (forall v s, In (v, s) (tags toks) -> asg st' v = Some s).

Definition P (t : ty) : Prop :=
  forall row st toks st', mono t = true -> tnames_ok t = true -> Inv st ->
  pr t row st = (toks, st') -> Good st toks st'.

Lemma Good_refl_tagless : forall st toks, Inv st -> tagless toks -> Good st toks st.
Proof. intros st toks H Ht. split; [exact H|]. split; [reflexivity|]. split; [auto|]. intros v s Hin. rewrite Ht in Hin. contradiction. Qed.

Definition GoodL (st : pst) (parts : list (list token)) (st' : pst) : Prop :=
  Inv st' /\ bound_names st' = bound_names st /\
  (forall v s, asg st v = Some s -> asg st' v = Some s) /\
  (forall p v s, In p parts -> In (v, s) (tags p) -> asg st' v = Some s).

Lemma thread_good : forall l st parts st',
  Forall P l -> forallb mono l = true -> forallb tnames_ok l = true -> Inv st ->
  thread (fun x => pr x true) l st = (parts, st') -> GoodL st parts st'.
Proof.
  induction l as [|x l IH]; intros st parts st' HF Hm Hn HI H; simpl in H.
  - inversion H; subst. split; [exact HI|]. split; [reflexivity|]. split; [auto|]. intros p v s [].
  - inversion HF as [|? ? HPx HFl]; subst. simpl in Hm, Hn. apply andb_prop in Hm as [Hm1 Hm2]. apply andb_prop in Hn as [Hn1 Hn2].
    destruct (pr x true st) as [a st1] eqn:Ea. destruct (thread (fun x => pr x true) l st1) as [b st2] eqn:Eb.
    inversion H; subst.
    destruct (HPx true st a st1 Hm1 Hn1 HI Ea) as (I1 & B1 & M1 & T1).
    destruct (IH st1 b st' HFl Hm2 Hn2 I1 Eb) as (I2 & B2 & M2 & T2).
    split; [exact I2|]. split; [congruence|]. split; [intros v s Hv; auto|].
    intros p v s [<-|Hp] Hin; [apply M2; apply T1; assumption | eapply T2; eauto].
Qed.

Lemma thread_in_good : forall l fl st parts st',
  Forall P l -> forallb mono l = true -> forallb tnames_ok l = true -> Inv st ->
  thread_in (fun x => pr x true) l fl st = (parts, st') -> GoodL st parts st'.
Proof.
  induction l as [|x l IH]; intros fl st parts st' HF Hm Hn HI H; simpl in H.
  - inversion H; subst. split; [exact HI|]. split; [reflexivity|]. split; [auto|]. intros p v s [].
  - inversion HF as [|? ? HPx HFl]; subst. simpl in Hm, Hn. apply andb_prop in Hm as [Hm1 Hm2]. apply andb_prop in Hn as [Hn1 Hn2].
    destruct (pr x true st) as [a st1] eqn:Ea.
    destruct (thread_in (fun x => pr x true) l (tl fl) st1) as [b st2] eqn:Eb.
    inversion H; subst.
    destruct (HPx true st a st1 Hm1 Hn1 HI Ea) as (I1 & B1 & M1 & T1).
    destruct (IH (tl fl) st1 b st' HFl Hm2 Hn2 I1 Eb) as (I2 & B2 & M2 & T2).
    split; [exact I2|]. split; [congruence|]. split; [intros v s Hv; auto|].
    intros p v s [<-|Hp] Hin; [| eapply T2; eauto].
    rewrite tags_app, tags_flag, app_nil_r in Hin. apply M2; apply T1; assumption.
Qed.

Lemma GoodL_join : forall st parts st' sep pre post,
  GoodL st parts st' -> tagless sep -> tagless pre -> tagless post ->
  Good st (pre ++ join sep parts ++ post) st'.
Proof.
  intros st parts st' sep pre post (I & B & M & T) Hs Hpre Hpost. split; [exact I|]. split; [exact B|]. split; [exact M|].
  intros v s Hin. rewrite !tags_app in Hin. rewrite Hpre, Hpost in Hin. simpl in Hin. rewrite app_nil_r in Hin.
  apply tags_join in Hin as (p & Hp & Ht); auto. eapply T; eauto.
Qed.

Lemma Inv_add_free : forall st st1 nm idx,
  Inv st -> ~ In nm (alloc st) -> issued (counter st1) nm ->
  (forall x, issued (counter st) x -> issued (counter st1) x) ->
  (forall d0 c, slookup d0 (counter st1) = Some c -> (1 <= c)%N) ->
  Inv (mkPst (counter st1) (bound_names st) (exist_names st) ((idx, nm) :: free_names st)).
Proof.
  intros st st1 nm idx (Hp & Hnd & Hi) Hnin Hnm Hmono Hpos. unfold Inv, alloc in *. simpl.
  split; [assumption|]. split; [constructor; assumption|].
  intros x [<-|Hx]; auto.
Qed.

Lemma Inv_add_exist : forall st st1 nm id,
  Inv st -> ~ In nm (alloc st) -> issued (counter st1) nm ->
  (forall x, issued (counter st) x -> issued (counter st1) x) ->
  (forall d0 c, slookup d0 (counter st1) = Some c -> (1 <= c)%N) ->
  Inv (mkPst (counter st1) (bound_names st) ((id, nm) :: exist_names st) (free_names st)).
Proof.
  intros st st1 nm id (Hp & Hnd & Hi) Hnin Hnm Hmono Hpos. unfold Inv, alloc in *. simpl.
  split; [assumption|]. split.
  - eapply Permutation_NoDup; [apply Permutation_middle|]. constructor; assumption.
  - intros x Hx. apply in_app_or in Hx as [Hx|[<-|Hx]]; auto.
    + apply Hmono, Hi. apply in_or_app; auto.
    + apply Hmono, Hi. apply in_or_app; auto.
Qed.

Lemma Inv_add_bound : forall st st1 nm,
  Inv st -> ~ In nm (alloc st) -> issued (counter st1) nm ->
  (forall x, issued (counter st) x -> issued (counter st1) x) ->
  (forall d0 c, slookup d0 (counter st1) = Some c -> (1 <= c)%N) ->
  Inv (mkPst (counter st1) (bound_names st ++ [nm]) (exist_names st) (free_names st)).
Proof.
  intros st st1 nm (Hp & Hnd & Hi) Hnin Hnm Hmono Hpos. unfold Inv, alloc in *. simpl.
  split; [assumption|]. split.
  - rewrite !app_assoc. eapply Permutation_NoDup; [apply Permutation_cons_append|].
    constructor; rewrite <- ?app_assoc; assumption.
  - intros x Hx. rewrite !app_assoc in Hx. apply in_app_or in Hx as [Hx|[<-|[]]]; auto.
    apply Hmono, Hi. rewrite <- !app_assoc in Hx. assumption.
Qed.

Lemma pr_good : forall t, P t.
Proof.
  induction t using ty_ind'; unfold P; intros row st toks st' Hm Hn HI Hpr.
  - inversion Hpr; subst. apply Good_refl_tagless; auto. reflexivity.
  - inversion Hpr; subst. apply Good_refl_tagless; auto. reflexivity.
  - (* tuple *)
    simpl in Hpr, Hm, Hn. destruct (thread (fun x => pr x true) ts st) as [parts st1] eqn:Et.
    inversion Hpr; subst. pose proof (thread_good ts st parts st' H Hm Hn HI Et) as HG.
    change (TLP :: ?x) with ([TLP] ++ x).
    apply GoodL_join; auto; try reflexivity.
    unfold tagless. rewrite tags_app. destruct (length ts =? 1)%nat; reflexivity.
  - (* app *)
    simpl in Hpr, Hm, Hn. destruct args as [|a args].
    + inversion Hpr; subst. apply Good_refl_tagless; auto. reflexivity.
    + destruct (thread (fun x => pr x true) (a :: args) st) as [parts st1] eqn:Et.
      inversion Hpr; subst. pose proof (thread_good (a :: args) st parts st' H Hm Hn HI Et) as HG.
      change (TName d :: TLB :: ?x) with ([TName d; TLB] ++ x).
      apply GoodL_join; auto; try reflexivity.
      unfold tagless. rewrite tags_app. destruct a; try reflexivity; destruct args; reflexivity.
  - inversion Hpr; subst. apply Good_refl_tagless; auto. reflexivity.
  - (* bound variable *)
    simpl in Hpr, Hn. change free_bound_fresh with true in Hpr. cbv iota in Hpr.
    destruct (Nat.ltb i (length (bound_names st))) eqn:Ei.
    + inversion Hpr; subst. repeat split; auto; try apply HI.
      intros v s' [Heq|[]]. inversion Heq; subst. simpl. rewrite Ei. reflexivity.
    + destruct (nlookup i (free_names st)) as [nm|] eqn:El.
      * inversion Hpr; subst. repeat split; auto; try apply HI.
        intros v s' [Heq|[]]. inversion Heq; subst. simpl. rewrite Ei. assumption.
      * destruct (fresh s st) as [nm st1] eqn:Ef. inversion Hpr; subst.
        destruct (fresh_spec s st nm st1 HI Hn Ef) as (Hnin & Hiss & Hmono & Hpos & Eb & Ee & Efr).
        rewrite Eb, Ee, Efr.
        repeat split; try reflexivity.
        -- apply Inv_add_free; auto.
        -- apply Inv_add_free; auto.
        -- apply Inv_add_free; auto.
        -- intros [j|j] s' Hs; simpl in *; auto.
           destruct (Nat.ltb j (length (bound_names st))); auto.
           destruct (Nat.eqb j i) eqn:Eji; auto. apply Nat.eqb_eq in Eji. subst j. congruence.
        -- intros v s' [Heq|[]]. inversion Heq; subst. simpl. rewrite Ei, Nat.eqb_refl. reflexivity.
  - (* existential variable *)
    simpl in Hpr, Hn.
    destruct (nlookup i (exist_names st)) as [nm|] eqn:El.
    + inversion Hpr; subst. repeat split; auto; try apply HI.
      intros v s' [Heq|[]]. inversion Heq; subst. simpl. rewrite El. reflexivity.
    + destruct (fresh s st) as [nm st1] eqn:Ef. inversion Hpr; subst.
      destruct (fresh_spec s st nm st1 HI Hn Ef) as (Hnin & Hiss & Hmono & Hpos & Eb & Ee & Efr).
      rewrite Eb, Ee, Efr.
      repeat split; try reflexivity.
      * apply Inv_add_exist; auto.
      * apply Inv_add_exist; auto.
      * apply Inv_add_exist; auto.
      * intros [j|j] s' Hs; simpl in *; auto.
        destruct (Nat.eqb j i) eqn:Eji; auto. apply Nat.eqb_eq in Eji. subst j. rewrite El in Hs. discriminate.
      * intros v s' [Heq|[]]. inversion Heq; subst. simpl. rewrite Nat.eqb_refl. reflexivity.
  - (* function type without parameters *)
    simpl in Hm, Hn. destruct ps as [|p ps]; [|discriminate].
    apply andb_prop in Hm as [Hm1 Hm2]. apply andb_prop in Hn as [Hn1 Hn2]. simpl in Hn1.
    cbn [pr alloc_params length] in Hpr.
    destruct (thread_in (fun x => pr x true) ins fl st) as [iparts st2] eqn:Ei.
    destruct (pr t true st2) as [otoks st3] eqn:Eo. inversion Hpr; subst.
    destruct (thread_in_good ins fl st iparts st2 H Hm1 Hn1 HI Ei) as (I2 & B2 & M2 & T2).
    destruct (IHt true st2 otoks st' Hm2 Hn2 I2 Eo) as (I3 & B3 & M3 & T3).
    split; [exact I3|]. split; [congruence|]. split; [intros v s' Hv; auto|].
    intros v s' Hin. rewrite tags_wrap in Hin. rewrite !tags_app in Hin. simpl in Hin.
    apply in_app_or in Hin as [Hin|Hin]; [|auto].
    apply M3.
    assert (Hj : In (v, s') (tags (join fun_sep iparts))).
    { destruct (length ins =? 1)%nat; auto. simpl in Hin. rewrite tags_app in Hin. simpl in Hin.
      rewrite app_nil_r in Hin. assumption. }
    apply tags_join in Hj as (p & Hp & Ht); [|reflexivity]. eapply T2; eauto.
Qed.

(* ------------------------------------------------------------ the quantifier *)

Lemma alloc_params_inv : forall ps st,
  Inv st -> forallb (fun p => noq (fst p)) ps = true ->
  Inv (alloc_params ps st) /\
  length (bound_names (alloc_params ps st)) = length (bound_names st) + length ps /\
  exist_names (alloc_params ps st) = exist_names st /\ free_names (alloc_params ps st) = free_names st.
Proof.
  induction ps as [|[nm k] ps IH]; intros st HI Hn; simpl in *.
  - split; [exact HI|]. split; [lia|]. split; reflexivity.
  - apply andb_prop in Hn as [Hn1 Hn2].
    destruct (fresh nm st) as [n' st1] eqn:Ef.
    destruct (fresh_spec nm st n' st1 HI Hn1 Ef) as (Hnin & Hiss & Hmono & Hpos & Eb & Ee & Efr).
    rewrite Eb, Ee, Efr.
    assert (I1 : Inv (mkPst (counter st1) (bound_names st ++ [n']) (exist_names st) (free_names st)))
      by (apply Inv_add_bound; auto).
    destruct (IH _ I1 Hn2) as (I2 & L2 & E2 & F2). simpl in *.
    split; [exact I2|]. split; [rewrite L2, app_length; simpl; lia|]. split; assumption.
Qed.

Lemma tags_quant : forall ps i bn v s,
  In (v, s) (tags (join fun_sep (quant_parts ps i bn))) ->
  exists j, i <= j < i + length ps /\ v = VBound j /\ s = nth j bn "".
Proof.
  intros ps i bn v s H. apply tags_join in H as (p & Hp & Ht); [|reflexivity].
  revert i Hp. induction ps as [|[nm k] ps IH]; intros i Hp; simpl in Hp; [contradiction|].
  destruct k as [|k fc].
  - destruct Hp as [<-|Hp].
    + simpl in Ht. destruct Ht as [Ht|[]]. inversion Ht; subst. exists i. simpl. split; [lia|auto].
    + destruct (IH (S i) Hp) as (j & Hj & Hv). exists j. simpl. split; [lia|auto].
  - destruct fc.
    + destruct (IH (S i) Hp) as (j & Hj & Hv). exists j. simpl. split; [lia|auto].
    + destruct Hp as [<-|Hp].
      * simpl in Ht. destruct Ht as [Ht|[]]. inversion Ht; subst. exists i. simpl. split; [lia|auto].
      * destruct (IH (S i) Hp) as (j & Hj & Hv). exists j. simpl. split; [lia|auto].
Qed.

Lemma Inv_init : Inv init_pst.
Proof. repeat split; simpl; try constructor; intros; try discriminate; contradiction. Qed.

(* all names printed in one run are the ones assigned in some state satisfying the invariant *)
Lemma print_consistent : forall t, rank1 t = true -> tnames_ok t = true ->
  exists st, Inv st /\ forall v s, In (v, s) (tags (print t)) -> asg st v = Some s.
Proof.
  intros t Hr Hn. unfold print.
  assert (Hmono_case : mono t = true -> exists st, Inv st /\ forall v s, In (v, s) (tags (fst (pr t false init_pst))) -> asg st v = Some s).
  { intros Hm. destruct (pr t false init_pst) as [toks st'] eqn:E.
    destruct (pr_good t false init_pst toks st' Hm Hn Inv_init E) as (I & _ & _ & T). exists st'. auto. }
  destruct t; try (apply Hmono_case; exact Hr).
  destruct ps as [|p0 ps0]; [apply Hmono_case; simpl in *; exact Hr|].
  simpl in Hr, Hn. apply andb_prop in Hr as [Hm1 Hm2]. apply andb_prop in Hn as [Hn0 Hn2].
  apply andb_prop in Hn0 as [Hnp Hn1].
  set (ps := p0 :: ps0) in *.
  destruct (alloc_params_inv ps init_pst Inv_init Hnp) as (I1 & L1 & _ & _).
  cbn [pr]. fold ps.
  destruct (thread_in (fun x => pr x true) ins fl (alloc_params ps init_pst)) as [iparts st2] eqn:Ei.
  destruct (pr t true st2) as [otoks st3] eqn:Eo.
  assert (HF : Forall P ins) by (apply Forall_forall; intros; apply pr_good).
  destruct (thread_in_good ins fl _ iparts st2 HF Hm1 Hn1 I1 Ei) as (I2 & B2 & M2 & T2).
  destruct (pr_good t true st2 otoks st3 Hm2 Hn2 I2 Eo) as (I3 & B3 & M3 & T3).
  exists st3. split; [assumption|].
  replace (length ps) with (S (length ps0)) by reflexivity. cbv iota. cbn [fst].
  intros v s Hin. rewrite tags_wrap in Hin. rewrite !tags_app in Hin. cbn [tags app] in Hin.
  apply in_app_or in Hin as [Hin|Hin].
  - apply tags_quant in Hin as (j & Hj & -> & ->). simpl.
    assert (Hlt : j < length (bound_names st3)) by (rewrite B3, B2, L1; simpl in Hj; simpl; lia).
    apply Nat.ltb_lt in Hlt. rewrite Hlt. reflexivity.
  - apply in_app_or in Hin as [Hin|Hin]; [|auto].
    apply M3.
    assert (Hj : In (v, s) (tags (join fun_sep iparts))).
    { destruct (length ins =? 1)%nat; auto. simpl in Hin. rewrite tags_app in Hin. simpl in Hin.
      rewrite app_nil_r in Hin. assumption. }
    apply tags_join in Hj as (p & Hp & Ht); [|reflexivity]. eapply T2; eauto.
Qed.

Lemma distinct_names : forall t, rank1 t = true -> tnames_ok t = true ->
  forall v1 s1 v2 s2, In (v1, s1) (tags (print t)) -> In (v2, s2) (tags (print t)) ->
  (v1 = v2 <-> s1 = s2).
Proof.
  intros t Hr Hn v1 s1 v2 s2 H1 H2.
  destruct (print_consistent t Hr Hn) as (st & I & T).
  apply T in H1. apply T in H2. split.
  - intros <-. congruence.
  - intros <-. eapply asg_inj; eauto.
Qed.
