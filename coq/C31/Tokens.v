(** C31 — base vocabulary shared by the generated printer table and the model.
    Reading of a token list: the printed string is the concatenation of the tokens' texts with
    optional blanks between them; Python's tokenizer (and the check's lexer, validated against
    it on every run) maps the real [str(ty)] to exactly this token list. *)
From Coq Require Import String List NArith.
Import ListNotations.

(* a variable of the type language: de Bruijn-indexed bound variable / existential with unique id *)
Inductive var := VBound (idx : nat) | VExist (id : nat).

Inductive token :=
| TName (s : string)          (* identifier (incl. None / True / False) *)
| TNumber (n : N)             (* decimal literal *)
| TLP | TRP | TLB | TRB | TComma
| TKw (s : string)            (* forall . -> : @owned @comptime — only in function types *)
| TVar (v : var) (s : string) (* the name [s] printed for variable [v]; the tag [v] is ghost *).

Inductive numkind := KNat | KInt | KFloat.
