(** C31 — flat serialisation of model values for the differential harness (no proofs). *)
From Coq Require Import String List NArith Bool.
From V.C31 Require Import Tokens GenPrinter Model.
Import ListNotations.
Open Scope string_scope.
Open Scope list_scope.

Definition ndec (n : nat) : string := dec (N.of_nat n).

Fixpoint ser_ty (t : ty) : list string :=
  match t with
  | TNum k => ["num"; num_name k]
  | TNone => ["none"]
  | TTuple ts => "tuple" :: ndec (length ts) :: flat_map ser_ty ts
  | TApp d args => "app" :: d :: ndec (length args) :: flat_map ser_ty args
  | CNat n => ["nat"; dec n]
  | _ => ["other"]
  end.

Fixpoint ser_py (e : pyexpr) : list string :=
  match e with
  | PName s => ["name"; s]
  | PNum n => ["num"; dec n]
  | PNone => ["none"]
  | PBool b => ["bool"; if b then "1" else "0"]
  | PTuple es => "tuple" :: ndec (length es) :: flat_map ser_py es
  | PSub v sl => "sub" :: ser_py v ++ ser_py sl
  end.

Definition ser_opt {A} (f : A -> list string) (o : option A) : list string :=
  match o with Some x => f x | None => ["NONE"] end.

Definition ser_tags (l : list (var * string)) : list (nat * nat * string) :=
  map (fun vs => match fst vs with VBound i => (0, i, snd vs) | VExist i => (1, i, snd vs) end) l.
