(** C31 — Printed types read back as the same type; distinct variables get distinct names.
    Every statement is about the printer model instantiated with the table GENERATED from
    printing.py on this run (GenPrinter.v).  Reading: a printed string is its token list
    (Tokens.v); [parse E] = Python's expression parser followed by parsing.py's type_from_ast in
    the scope [E] of type definitions. *)
From Coq Require Import String List NArith Bool.
From V.C31 Require Import Tokens GenPrinter Model Spec ProofsRT ProofsNames.
Import ListNotations.
Open Scope string_scope.

(* every well-formed first-order type over the definitions in scope — numerics, None, tuples of any
   length, and applications of bool/str/array/frozenarray/Option/struct definitions to type and
   nat-const arguments, to any nesting depth — prints to a text that reads back as the same type *)
Theorem print_parse_roundtrip : forall E t, env_ok E -> wf E t = true -> parse E (print t) = Some t.
Proof. exact roundtrip. Qed.
Print Assumptions print_parse_roundtrip.

(* the hypotheses are satisfiable on a non-trivial instance (1-tuple, 0-tuple, nested array in a
   sole-argument tuple, bounded frozenarray parameter) *)
Definition E0 : env :=
  [("int", DNum KInt); ("nat", DNum KNat); ("float", DNum KFloat); ("tuple", DTuple); ("bool", DApp [] true true);
   ("array", DApp [DPType false false; DPNat] false true); ("Option", DApp [DPType false false] true true);
   ("frozenarray", DApp [DPType true true; DPNat] true true); ("Box", DApp [DPType false false] true true)].
Definition t0 : ty :=
  TApp "Option" [TTuple [TNum KInt; TTuple []; TTuple [TApp "array" [TApp "Box" [TTuple [TNone]]; CNat 3]];
                         TApp "frozenarray" [TTuple [TApp "bool" []; TNum KFloat]; CNat 0]]].
Example roundtrip_hyps_satisfiable : env_ok E0 /\ wf E0 t0 = true /\ parse E0 (print t0) = Some t0.
Proof. split; [intros []; reflexivity | split; vm_compute; reflexivity]. Qed.

(* what Python's parser makes of the printed text (the intermediate step of the round trip) *)
Theorem python_reads_printed_type : forall t, fo t = true -> py_parse (print t) = Some (ast_of t).
Proof. exact python_reads. Qed.
Print Assumptions python_reads_printed_type.

(* one printer run over a rank-1 type (at most one quantifier, at the top; bound variables may also
   occur free, i.e. outside any binder) whose display names are identifier-like: every occurrence of
   a variable is printed with the same name, and two different variables (bound by index,
   existential by id) never share a printed name — also when their display names are equal *)
Theorem distinct_vars_distinct_names : forall t, rank1 t = true -> tnames_ok t = true ->
  forall v1 s1 v2 s2, In (v1, s1) (tags (print t)) -> In (v2, s2) (tags (print t)) ->
  (v1 = v2 <-> s1 = s2).
Proof. exact distinct_names. Qed.
Print Assumptions distinct_vars_distinct_names.

(* non-trivial instance: two parameters and a free bound variable and two existentials all called T *)
Definition tf : ty :=
  TFun [("T", PKType); ("T", PKType); ("n", PKConst CKNat false)]
       [TBound "x" 0; TApp "array" [TBound "T" 1; TBound "n" 2]; TExist "T" 5; TBound "T" 7] [(true, false)]
       (TTuple [TExist "T" 5; TExist "T" 6; TFun [] [TBound "T" 7] [] (TBound "T" 0)]).
Definition tf_printed : list string :=
  ["forall"; "T"; ","; "T'1"; ","; "n"; ":"; "nat"; "."; "("; "T"; "@owned"; ","; "array"; "["; "T'1"; ",";
   "n"; "]"; ","; "?T'2"; ","; "T'3"; ")"; "->"; "("; "?T'2"; ","; "?T'4"; ","; "("; "T'3"; "->"; "T"; ")"; ")"].
Example names_hyps_satisfiable :
  rank1 tf = true /\ tnames_ok tf = true /\ map tok_text (print tf) = tf_printed.
Proof. repeat split; vm_compute; reflexivity. Qed.

(* the identifier hypothesis is needed: a display name that already contains the index separator
   can collide with a generated name (guppy.type_var("T'1") is accepted by the API) *)
Example names_need_identifier_display_names :
  let t := TTuple [TExist "T" 0; TExist "T" 1; TExist "T'1" 2] in
  rank1 t = true /\ In (VExist 1, "?T'1") (tags (print t)) /\ In (VExist 2, "?T'1") (tags (print t)).
Proof. vm_compute. intuition. Qed.
