(** C31 — Printed types read back as the same type; distinct variables get distinct names.
    Every statement is about the printer model instantiated with the table GENERATED from
    printing.py on this run (GenPrinter.v).  Reading: a printed string is its token list
    (Tokens.v); [parse E] = Python's expression parser followed by parsing.py's type_from_ast in
    the scope [E] of type definitions. *)
From Coq Require Import String List NArith Bool.
From V.C31 Require Import Tokens GenPrinter Model Spec ProofsRT.
Import ListNotations.
Open Scope string_scope.

(* every well-formed first-order type over the definitions in scope — numerics, None, tuples of any
   length, and applications of bool/str/array/frozenarray/Option/struct definitions to type and
   nat-const arguments, to any nesting depth — prints to a text that reads back as the same type *)
Theorem print_parse_roundtrip : forall E t, env_ok E -> wf E t = true -> parse E (print t) = Some t.
Proof. exact roundtrip. Qed.
Print Assumptions print_parse_roundtrip.

(* the hypotheses are satisfiable on a non-trivial instance (1-tuple, 0-tuple, nested array in a
   sole-argument tuple, bounded frozenarray parameter) *)
Definition E0 : env :=
  [("int", DNum KInt); ("nat", DNum KNat); ("float", DNum KFloat); ("tuple", DTuple); ("bool", DApp [] true true);
   ("array", DApp [DPType false false; DPNat] false true); ("Option", DApp [DPType false false] true true);
   ("frozenarray", DApp [DPType true true; DPNat] true true); ("Box", DApp [DPType false false] true true)].
Definition t0 : ty :=
  TApp "Option" [TTuple [TNum KInt; TTuple []; TTuple [TApp "array" [TApp "Box" [TTuple [TNone]]; CNat 3]];
                         TApp "frozenarray" [TTuple [TApp "bool" []; TNum KFloat]; CNat 0]]].
Example roundtrip_hyps_satisfiable : env_ok E0 /\ wf E0 t0 = true /\ parse E0 (print t0) = Some t0.
Proof. split; [intros []; reflexivity | split; vm_compute; reflexivity]. Qed.

(* what Python's parser makes of the printed text (the intermediate step of the round trip) *)
Theorem python_reads_printed_type : forall t, fo t = true -> py_parse (print t) = Some (ast_of t).
Proof. exact python_reads. Qed.
Print Assumptions python_reads_printed_type.
