(** C31 — Printed types read back as the same type; distinct variables get distinct names.
    Every statement is about the printer model instantiated with the table GENERATED from
    printing.py on this run (GenPrinter.v).  Reading: a printed string is its token list
    (Tokens.v); [parse E] = Python's expression parser followed by parsing.py's type_from_ast in
    the scope [E] of type definitions. *)
From Coq Require Import String List NArith Bool.
From V.C31 Require Import Tokens GenPrinter Model Spec ProofsRT ProofsNames.
Import ListNotations.
Open Scope string_scope.

(* FULL-STRENGTH STATEMENT (the property as given): every well-formed first-order type over the
   definitions in scope — numerics, None, tuples of any length, applications of
   bool/str/array/frozenarray/Option/struct definitions to type and nat-const arguments, any nesting —
   prints to a text that reads back as the same type. *)
Definition print_parse_roundtrip_statement : Prop :=
  forall E t, env_ok E -> wf E t = true -> parse E (print t) = Some t.

Definition E0 : env :=
  [("int", DNum KInt); ("nat", DNum KNat); ("float", DNum KFloat); ("tuple", DTuple); ("bool", DApp [] true true);
   ("array", DApp [DPType false false; DPNat] false true); ("Option", DApp [DPType false false] true true);
   ("frozenarray", DApp [DPType true true; DPNat] true true); ("Box", DApp [DPType false false] true true)].
Lemma E0_ok : env_ok E0.
Proof. intros []; reflexivity. Qed.

(* It is REFUTED by the printer as it is in /repo (the maintainers keep this output: golden tests
   encode it).  Witnesses, each replayed on the real code by the check (known findings):
     (int,)  prints `(int)`              which reads back as  int;
     Option[(int, nat)] prints `Option[(int, nat)]`  which Python reads as Option[int, nat]: rejected;
     Option[()] prints `Option[()]`      which Python reads as Option with no argument: rejected. *)
Theorem print_parse_roundtrip_refuted :
  (wf E0 (TTuple [TNum KInt]) = true /\
     parse E0 (print (TTuple [TNum KInt])) = Some (TNum KInt)) /\
  (wf E0 (TApp "Option" [TTuple [TNum KInt; TNum KNat]]) = true /\
     parse E0 (print (TApp "Option" [TTuple [TNum KInt; TNum KNat]])) = None) /\
  (wf E0 (TApp "Option" [TTuple []]) = true /\
     parse E0 (print (TApp "Option" [TTuple []])) = None) /\
  ~ print_parse_roundtrip_statement.
Proof.
  repeat split; try (vm_compute; reflexivity).
  intros H. specialize (H E0 (TTuple [TNum KInt]) E0_ok eq_refl). vm_compute in H. discriminate.
Qed.
Print Assumptions print_parse_roundtrip_refuted.

(* PARTIAL: it holds for every well-formed first-order type with no 1-tuple anywhere and no applied
   definition whose sole argument is a tuple ([safe], decidable; these are exactly the two places
   where Python reads the printed text differently, see [python_reads_printed_type]).  What is
   missing for the full statement: 1-tuples and sole tuple arguments. *)
Theorem print_parse_roundtrip_partial :
  forall E t, env_ok E -> wf E t = true -> safe t = true -> parse E (print t) = Some t.
Proof. exact roundtrip. Qed.
Print Assumptions print_parse_roundtrip_partial.

(* the hypotheses are satisfiable on a non-trivial instance (0-tuple, 2- and 3-tuples, tuple as one
   of two arguments, nested generic applications, bounded frozenarray parameter) *)
Definition t0 : ty :=
  TApp "Option" [TApp "array" [TTuple [TNum KInt; TTuple []; TApp "array" [TTuple [TNone; TApp "Box" [TApp "bool" []]]; CNat 3];
                         TApp "frozenarray" [TTuple [TApp "bool" []; TNum KFloat; TNum KNat]; CNat 0]]; CNat 2]].
Example roundtrip_hyps_satisfiable : env_ok E0 /\ wf E0 t0 = true /\ safe t0 = true /\ parse E0 (print t0) = Some t0.
Proof. split; [exact E0_ok | repeat split; vm_compute; reflexivity]. Qed.

(* what Python's parser makes of the printed text of ANY first-order type (full strength): [ast_of]
   reads a printed 1-tuple as its element and a sole argument as the whole subscript *)
Theorem python_reads_printed_type : forall t, fo t = true -> py_parse (print t) = Some (ast_of t).
Proof. exact python_reads. Qed.
Print Assumptions python_reads_printed_type.

(* one printer run over a rank-1 type (at most one quantifier, at the top; bound variables may also
   occur free, i.e. outside any binder) whose display names are identifier-like: every occurrence of
   a variable is printed with the same name, and two different variables (bound by index,
   existential by id) never share a printed name — also when their display names are equal *)
Theorem distinct_vars_distinct_names : forall t, rank1 t = true -> tnames_ok t = true ->
  forall v1 s1 v2 s2, In (v1, s1) (tags (print t)) -> In (v2, s2) (tags (print t)) ->
  (v1 = v2 <-> s1 = s2).
Proof. exact distinct_names. Qed.
Print Assumptions distinct_vars_distinct_names.

(* non-trivial instance: two parameters and a free bound variable and two existentials all called T *)
Definition tf : ty :=
  TFun [("T", PKType); ("T", PKType); ("n", PKConst CKNat false)]
       [TBound "x" 0; TApp "array" [TBound "T" 1; TBound "n" 2]; TExist "T" 5; TBound "T" 7] [(true, false)]
       (TTuple [TExist "T" 5; TExist "T" 6; TFun [] [TBound "T" 7] [] (TBound "T" 0)]).
Definition tf_printed : list string :=
  ["forall"; "T"; ","; "T'1"; ","; "n"; ":"; "nat"; "."; "("; "T"; "@owned"; ","; "array"; "["; "T'1"; ",";
   "n"; "]"; ","; "?T'2"; ","; "T'3"; ")"; "->"; "("; "?T'2"; ","; "?T'4"; ","; "("; "T'3"; "->"; "T"; ")"; ")"].
Example names_hyps_satisfiable :
  rank1 tf = true /\ tnames_ok tf = true /\ map tok_text (print tf) = tf_printed.
Proof. repeat split; vm_compute; reflexivity. Qed.

(* the identifier hypothesis is needed: a display name that already contains the index separator
   can collide with a generated name (guppy.type_var("T'1") is accepted by the API) *)
Example names_need_identifier_display_names :
  let t := TTuple [TExist "T" 0; TExist "T" 1; TExist "T'1" 2] in
  rank1 t = true /\ In (VExist 1, "?T'1") (tags (print t)) /\ In (VExist 2, "?T'1") (tags (print t)).
Proof. vm_compute. intuition. Qed.

(* tie for struct names: the printer shows `ty.defn.name`, and `_Guppy.struct` (decorator.py) registers a
   struct under `cls.__name__`, the identifier the class is bound to in its declaring scope — which is
   what [wf] assumes when it looks the printed name up in the scope [E]. Re-checked against the source
   on every run; the differential harness also declares structs in function and class bodies and reads
   them back in their declaring frame. *)
Example struct_names_are_class_names : struct_name_source = "cls.__name__".
Proof. reflexivity. Qed.
