(** C15 — lemmas about the overload loop and the checker fragment of Overload.v. *)
From Coq Require Import ZArith List Bool Lia PeanoNat.
From V.C15 Require Import Overload.
Import ListNotations.

Definition is_err (o : out) : bool := match o with Err => true | _ => false end.

Lemma is_err_true : forall o, is_err o = true <-> o = Err.
Proof. destruct o; simpl; split; intro H; try reflexivity; try discriminate. Qed.

Lemma is_err_false : forall o, is_err o = false <-> o <> Err.
Proof. destruct o; simpl; split; intro H; try reflexivity; try discriminate; try congruence. Qed.

(* ------------------------------------------------------------------ the loop, for ANY attempt function *)
Section LoopFacts.
  Variable attempt : sig -> list expr -> lres.
  Variable on_none : list expr -> lres.

  (* with copies: every attempt sees the original nodes, and so does the caller afterwards *)
  Lemma loop_copy_least : forall vs es i s,
    nth_error vs i = Some s ->
    fst (attempt s es) <> Err ->
    (forall j s', (j < i)%nat -> nth_error vs j = Some s' -> fst (attempt s' es) = Err) ->
    over_loop true attempt on_none vs es = (fst (attempt s es), es).
  Proof.
    induction vs as [|v vs IH]; intros es i s Hn Hok Hprev.
    - destruct i; discriminate.
    - destruct i as [|i]; simpl in Hn.
      + inversion Hn; subst v. simpl.
        destruct (attempt s es) as [o es'] eqn:A. simpl in *.
        destruct o; try reflexivity. congruence.
      + simpl.
        assert (H0 : fst (attempt v es) = Err) by (apply (Hprev 0%nat v); [lia | reflexivity]).
        destruct (attempt v es) as [o es'] eqn:A. simpl in H0. subst o.
        apply (IH es i s Hn Hok).
        intros j s' Hj Hn'. apply (Hprev (S j) s'); [lia | exact Hn'].
  Qed.

  Lemma loop_copy_none : forall vs es,
    (forall s, In s vs -> fst (attempt s es) = Err) ->
    over_loop true attempt on_none vs es = on_none es.
  Proof.
    induction vs as [|v vs IH]; intros es H; simpl.
    - reflexivity.
    - assert (H0 : fst (attempt v es) = Err) by (apply H; left; reflexivity).
      destruct (attempt v es) as [o es'] eqn:A. simpl in H0. subst o.
      apply IH. intros s Hs. apply H. right. exact Hs.
  Qed.

  Lemma loop_copy_err_inv : forall vs es,
    fst (over_loop true attempt on_none vs es) = Err ->
    forall s, In s vs -> fst (attempt s es) = Err.
  Proof.
    induction vs as [|v vs IH]; intros es H s Hs.
    - destruct Hs.
    - simpl in H. destruct (attempt v es) as [o es'] eqn:A.
      destruct o; simpl in H; try discriminate.
      destruct Hs as [->|Hs].
      + rewrite A. reflexivity.
      + apply (IH es H s Hs).
  Qed.

  (* there is a least accepted variant as soon as there is an accepted one *)
  Lemma least_accepting : forall vs es,
    (exists s, In s vs /\ fst (attempt s es) <> Err) ->
    exists i s, nth_error vs i = Some s /\ fst (attempt s es) <> Err /\
                forall j s', (j < i)%nat -> nth_error vs j = Some s' -> fst (attempt s' es) = Err.
  Proof.
    induction vs as [|v vs IH]; intros es [s [Hin Hok]].
    - destruct Hin.
    - destruct (is_err (fst (attempt v es))) eqn:Ev.
      + apply is_err_true in Ev.
        destruct Hin as [->|Hin]; [congruence|].
        destruct (IH es (ex_intro _ s (conj Hin Hok))) as [i [s0 [Hn [Hok0 Hprev]]]].
        exists (S i), s0. repeat split; auto.
        intros j s' Hj Hn'. destruct j as [|j]; simpl in Hn'.
        * inversion Hn'; subst; exact Ev.
        * apply (Hprev j s'); [lia | exact Hn'].
      + apply is_err_false in Ev. exists 0%nat, v. repeat split; auto.
        intros j s' Hj. lia.
  Qed.

  (* without copies the state really is threaded: the second attempt sees what the first left *)
  Lemma loop_nocopy_step : forall v vs es es',
    attempt v es = (Err, es') ->
    over_loop false attempt on_none (v :: vs) es = over_loop false attempt on_none vs es'.
  Proof. intros. simpl. rewrite H. reflexivity. Qed.
End LoopFacts.

(* ------------------------------------------------------------------ how a call node is checked *)
Lemma let_pair_call : forall (x : lres) (f : nat),
  (let '(o, os) := x in (o, ECall f os)) = (fst x, ECall f (snd x)).
Proof. intros [o os] f. reflexivity. Qed.

Lemma tc_call_over : forall cp n E m f vs es,
  nth_error (funs E) f = Some (FOver vs) ->
  tc cp (S n) E m (ECall f es) =
    (fst (overloaded cp n E m vs es), ECall f (snd (overloaded cp n E m vs es))).
Proof.
  intros cp n E m f vs es H.
  destruct m; simpl; rewrite H; rewrite let_pair_call; reflexivity.
Qed.

Lemma tc_call_decl : forall cp n E m g s es,
  nth_error (funs E) g = Some (FDecl s) ->
  tc cp (S n) E m (ECall g es) =
    (fst (standalone cp n E m s es), ECall g (snd (standalone cp n E m s es))).
Proof.
  intros cp n E m g s es H.
  destruct m; simpl; rewrite H; rewrite let_pair_call; reflexivity.
Qed.

(* ------------------------------------------------------------------ first match, at the level of call expressions *)
Section FirstMatch.
  Variable cp : bool.
  Hypothesis Hcp : cp = true.
  Variables (n : nat) (E : env) (m : mode).

  Lemma overloaded_least : forall vs es i s,
    nth_error vs i = Some s ->
    fst (standalone cp n E m s es) <> Err ->
    (forall j s', (j < i)%nat -> nth_error vs j = Some s' -> fst (standalone cp n E m s' es) = Err) ->
    overloaded cp n E m vs es = (fst (standalone cp n E m s es), es).
  Proof.
    intros. unfold overloaded. rewrite Hcp at 1. apply (loop_copy_least _ _ vs es i s); assumption.
  Qed.

  (* _call_error always raises; in the model it may also run out of fuel while synthesizing
     the arguments for the message, hence `never Ok` *)
  Lemma overloaded_none : forall vs es,
    (forall s, In s vs -> fst (standalone cp n E m s es) = Err) ->
    forall r t, fst (overloaded cp n E m vs es) <> Ok r t.
  Proof.
    intros vs es H r t. unfold overloaded. rewrite Hcp at 1. rewrite loop_copy_none by exact H.
    unfold call_error_at. destruct (seq_synth (syn_at cp n E) es) as [[r0 oof] os]. simpl.
    destruct oof; simpl; discriminate.
  Qed.

  Lemma overloaded_err_inv : forall vs es,
    fst (overloaded cp n E m vs es) = Err ->
    forall s, In s vs -> fst (standalone cp n E m s es) = Err.
  Proof.
    intros vs es H. unfold overloaded in H. rewrite Hcp in H at 1.
    exact (loop_copy_err_inv _ _ vs es H).
  Qed.
End FirstMatch.

(* ------------------------------------------------------------------ the statements used by Props.v *)
Section Statements.
  Variable cp : bool.
  Hypothesis Hcp : cp = true.

  Definition least_accepting_variant (n : nat) (E : env) (m : mode) (vs : list sig) (es : list expr)
             (i : nat) (s : sig) : Prop :=
    nth_error vs i = Some s /\
    fst (standalone cp n E m s es) <> Err /\
    forall j s', (j < i)%nat -> nth_error vs j = Some s' -> fst (standalone cp n E m s' es) = Err.

  Lemma first_match_call : forall n E m f vs es i s,
    nth_error (funs E) f = Some (FOver vs) ->
    least_accepting_variant n E m vs es i s ->
    tc cp (S n) E m (ECall f es) = (fst (standalone cp n E m s es), ECall f es).
  Proof.
    intros n E m f vs es i s Hf [Hn [Hok Hprev]].
    rewrite (tc_call_over cp n E m f vs es Hf).
    rewrite (overloaded_least cp Hcp n E m vs es i s Hn Hok Hprev). reflexivity.
  Qed.

  Lemma first_match_direct_call : forall n E m f g vs es i s,
    nth_error (funs E) f = Some (FOver vs) ->
    nth_error (funs E) g = Some (FDecl s) ->
    least_accepting_variant n E m vs es i s ->
    fst (tc cp (S n) E m (ECall f es)) = fst (tc cp (S n) E m (ECall g es)).
  Proof.
    intros n E m f g vs es i s Hf Hg HL.
    rewrite (first_match_call n E m f vs es i s Hf HL).
    rewrite (tc_call_decl cp n E m g s es Hg). reflexivity.
  Qed.

  Lemma accepted_iff_some_variant : forall n E m f vs es,
    nth_error (funs E) f = Some (FOver vs) ->
    ((exists s, In s vs /\ fst (standalone cp n E m s es) <> Err) ->
       exists i s, least_accepting_variant n E m vs es i s /\
                   tc cp (S n) E m (ECall f es) = (fst (standalone cp n E m s es), ECall f es)) /\
    ((forall s, In s vs -> fst (standalone cp n E m s es) = Err) ->
       forall r t, fst (tc cp (S n) E m (ECall f es)) <> Ok r t) /\
    (fst (tc cp (S n) E m (ECall f es)) = Err ->
       forall s, In s vs -> fst (standalone cp n E m s es) = Err).
  Proof.
    intros n E m f vs es Hf. repeat split.
    - intro Hex.
      destruct (least_accepting (standalone cp n E m) vs es Hex) as [i [s [Hn [Hok Hprev]]]].
      exists i, s. split; [repeat split; assumption|].
      apply (first_match_call n E m f vs es i s Hf). repeat split; assumption.
    - intros Hall r t. rewrite (tc_call_over cp n E m f vs es Hf). simpl.
      apply (overloaded_none cp Hcp n E m vs es Hall).
    - intros Herr. rewrite (tc_call_over cp n E m f vs es Hf) in Herr. simpl in Herr.
      apply (overloaded_err_inv cp Hcp n E m vs es Herr).
  Qed.
End Statements.

(* ------------------------------------------------------------------ witnesses *)
Open Scope Z_scope.
Definition tnat := TNum KNat. Definition tint := TNum KInt. Definition tflt := TNum KFloat.

(* ov((1, True)) with variants a(tuple[float,float]) -> int, b(tuple[int,bool]) -> float *)
Definition w1_a := mkSig 0 [TTuple [tflt; tflt]] tint.
Definition w1_b := mkSig 1 [TTuple [tint; TBool]] tflt.
Definition w1_env := mkEnv [] [FDecl w1_a; FDecl w1_b; FOver [w1_a; w1_b]].
Definition w1_args := [ETup None [EInt None 1; EBool None true]].

(* ov(2**63, 1) with variants c(nat, bool) -> int, d(int, int) -> float *)
Definition w2_c := mkSig 0 [tnat; TBool] tint.
Definition w2_d := mkSig 1 [tint; tint] tflt.
Definition w2_env := mkEnv [] [FDecl w2_c; FDecl w2_d; FOver [w2_c; w2_d]].
Definition w2_args := [EInt None 9223372036854775808; EInt None 1].

Lemma w1_nocopy_rejects_although_b_accepts :
  fst (tc false 10 w1_env Synth (ECall 1%nat w1_args)) =
    Ok (EGCall (Some tflt) 1 [ETup (Some (TTuple [tint; TBool])) [EInt (Some tint) 1; EBool (Some TBool) true]]) tflt
  /\ fst (tc false 10 w1_env Synth (ECall 2%nat w1_args)) = Err.
Proof. split; vm_compute; reflexivity. Qed.

Lemma w1_copy_selects_b : forall cp, cp = true ->
  least_accepting_variant cp 9 w1_env Synth [w1_a; w1_b] w1_args 1 w1_b /\
  fst (tc cp 10 w1_env Synth (ECall 2%nat w1_args)) = fst (tc cp 10 w1_env Synth (ECall 1%nat w1_args)) /\
  exists r, fst (tc cp 10 w1_env Synth (ECall 2%nat w1_args)) = Ok r tflt.
Proof.
  intros cp ->. split; [|split].
  - split; [reflexivity|]. split; [vm_compute; discriminate|].
    intros j s' Hj Hn. destruct j as [|[|j]]; [|lia|lia]. inversion Hn; subst s'. vm_compute. reflexivity.
  - vm_compute. reflexivity.
  - eexists. vm_compute. reflexivity.
Qed.

Lemma w2_nocopy_accepts_although_no_variant_does :
  (forall s, In s [w2_c; w2_d] -> fst (standalone false 9 w2_env Synth s w2_args) = Err) /\
  exists r t, fst (tc false 10 w2_env Synth (ECall 2%nat w2_args)) = Ok r t.
Proof.
  split.
  - intros s [<-|[<-|[]]]; vm_compute; reflexivity.
  - eexists. eexists. vm_compute. reflexivity.
Qed.
