(** C15 — executable model of overload resolution (definition/overloaded.py) together with
    the fragment of the expression checker (checker/expr_checker.py) that checks call
    arguments.  NO proofs here.

    The implementation checks an argument by *mutating the AST node in place*
    (`with_type`, `node.elts[i] = ...`, inserted coercion calls), also when the check fails
    half-way.  Therefore every function below returns, beside its outcome, the state of the
    node(s) it was given *after* the call — that is the explicit piece of state that is
    threaded through failed overload attempts.

    Fragment: int / float / bool literals (nat -> int -> float coercion, 64-bit literal
    range checks), tuples, names of local variables of known type, nested calls to declared
    functions and to overloaded functions.  Types: nat, int, float, bool, tuples
    (monomorphic signatures).

    `cp` = does the overload loop hand every variant its own deep copy of the argument
    nodes?  (false = the code as found in guppylang 0.21.6; true = after fix-1.patch.)
    The flag that the theorems use is read from the source by the translator (GenLoop.v).

    Recursion is by fuel (one unit per expression nesting level) because without copying
    the loop re-checks *rewritten* trees, which are not subterms of the original call.
    Running out of fuel is the distinguished outcome [OOF]; every theorem is stated for all
    fuels with the same fuel on both sides. *)
From Coq Require Import ZArith List Bool.
Import ListNotations.
Open Scope Z_scope.

(* ---------------------------------------------------------------- types *)
Inductive kind := KNat | KInt | KFloat.          (* NumericType.Kind, in coercion order *)

Inductive ty :=
| TNum (k : kind)
| TBool
| TTuple (ts : list ty).

Definition kind_idx (k : kind) : nat := match k with KNat => 0 | KInt => 1 | KFloat => 2 end.
Definition kind_eqb (a b : kind) : bool := Nat.eqb (kind_idx a) (kind_idx b).
Definition kind_ltb (a b : kind) : bool := Nat.ltb (kind_idx a) (kind_idx b).   (* act.kind < exp.kind *)

Fixpoint ty_eqb (a b : ty) {struct a} : bool :=
  match a, b with
  | TNum k, TNum k' => kind_eqb k k'
  | TBool, TBool => true
  | TTuple xs, TTuple ys =>
      (fix go (xs ys : list ty) {struct xs} : bool :=
         match xs, ys with
         | [], [] => true
         | x :: xs', y :: ys' => ty_eqb x y && go xs' ys'
         | _, _ => false
         end) xs ys
  | _, _ => false
  end.

(* ---------------------------------------------------------------- AST *)
(* `a : option ty` is the `.type` annotation that `with_type` puts on a node. *)
Inductive expr :=
| EInt (a : option ty) (v : Z)                    (* ast.Constant, int value *)
| EFlt (a : option ty)                            (* ast.Constant, float value *)
| EBool (a : option ty) (b : bool)                (* ast.Constant, bool value *)
| ETup (a : option ty) (es : list expr)           (* ast.Tuple *)
| EName (x : nat)                                 (* ast.Name of a local variable *)
| ECall (f : nat) (es : list expr)                (* ast.Call whose func is the global name f *)
| EPlace (a : option ty) (x : nat)                (* PlaceNode, produced by the checker *)
| EGCall (a : option ty) (d : nat) (es : list expr)  (* GlobalCall(def_id = d), produced by the checker *)
| ECoerce (a : option ty) (k : kind) (e : expr).  (* GlobalCall to the instance method __int__/__float__ *)

Definition ann (e : expr) : option ty :=
  match e with
  | EInt a _ | EFlt a | EBool a _ | ETup a _ | EPlace a _ | EGCall a _ _ | ECoerce a _ _ => a
  | EName _ | ECall _ _ => None
  end.

Definition set_ann (t : ty) (e : expr) : expr :=     (* with_type(t, e) *)
  match e with
  | EInt _ v => EInt (Some t) v
  | EFlt _ => EFlt (Some t)
  | EBool _ b => EBool (Some t) b
  | ETup _ es => ETup (Some t) es
  | EPlace _ x => EPlace (Some t) x
  | EGCall _ d es => EGCall (Some t) d es
  | ECoerce _ k e' => ECoerce (Some t) k e'
  | EName _ | ECall _ _ => e
  end.

(* ---------------------------------------------------------------- environment *)
Record sig := mkSig { s_id : nat; s_ins : list ty; s_out : ty }.   (* a declared function *)

Inductive fdef :=
| FDecl (s : sig)                 (* @guppy.declare *)
| FOver (vs : list sig).          (* @guppy.overload(v1, v2, ...) of declared functions *)

Record env := mkEnv { locals : list ty; funs : list fdef }.

(* ---------------------------------------------------------------- outcomes *)
Inductive out :=
| Ok (r : expr) (t : ty)          (* the new node and its type *)
| Err                             (* a GuppyError was raised *)
| OOF.                            (* model artefact: out of fuel *)

Definition res := (out * expr)%type.             (* outcome, state of the given node afterwards *)
Definition lres := (out * list expr)%type.

Inductive mode := Synth | Check (t : ty).

(* ---------------------------------------------------------------- literals *)
Definition in_signed (v : Z) : bool := (-9223372036854775808 <=? v) && (v <=? 9223372036854775807).
Definition in_unsigned (v : Z) : bool := (0 <=? v) && (v <=? 18446744073709551615).

(* python_value_to_guppy_type(v, node, globals, hint) for an int; None = IntOverflowError *)
Definition int_lit_ty (hint : option ty) (v : Z) : option ty :=
  match hint with
  | Some (TNum KNat) =>
      if 0 <=? v then (if in_unsigned v then Some (TNum KNat) else None)
      else (if in_signed v then Some (TNum KInt) else None)
  | _ => if in_signed v then Some (TNum KInt) else None
  end.

(* check_type_against(act, exp, node) followed by the `with_type(exp, ·)` of ExprChecker.check,
   for ground types: equal -> the node itself; numeric and act.kind < exp.kind -> the coercion
   call `act.__exp__(node)` whose own argument check annotates `node` with `act`.
   Returns (returned node, state of `node` afterwards). *)
Definition against (act exp : ty) (node : expr) : option (expr * expr) :=
  if ty_eqb exp act then Some (set_ann exp node, set_ann exp node)
  else match act, exp with
       | TNum ka, TNum ke =>
           if kind_ltb ka ke then Some (ECoerce (Some exp) ke (set_ann act node), set_ann act node)
           else None
       | _, _ => None
       end.

(* ---------------------------------------------------------------- sequencing over lists *)
Section Seq.
  Variable chk : ty -> expr -> res.
  Variable syn : expr -> res.

  (* `for inp, ty in zip(inputs, tys): a, s = check(inp, ty); new.append(a)`
     -> (outcome with the new nodes packed in a tuple node,
         the given nodes afterwards,
         the list a parent holds afterwards if it stores each result back (node.elts[i] = ...)) *)
  Fixpoint seq_check (es : list expr) (ts : list ty) : option (list expr) * bool * list expr * list expr :=
    (* (new nodes if all succeeded, out-of-fuel?, originals afterwards, stored-back list afterwards) *)
    match es, ts with
    | e :: es', t :: ts' =>
        match chk t e with
        | (Ok r _, e') =>
            let '(rs, oof, os, ss) := seq_check es' ts' in
            (match rs with Some l => Some (r :: l) | None => None end, oof, e' :: os, r :: ss)
        | (Err, e') => (None, false, e' :: es', e' :: es')
        | (OOF, e') => (None, true, e' :: es', e' :: es')
        end
    | _, _ => (Some [], false, es, es)
    end.

  (* `elems = [synthesize(e) for e in elts]` *)
  Fixpoint seq_synth (es : list expr) : option (list expr * list ty) * bool * list expr :=
    match es with
    | e :: es' =>
        match syn e with
        | (Ok r t, e') =>
            let '(rs, oof, os) := seq_synth es' in
            (match rs with Some (l, ts) => Some (r :: l, t :: ts) | None => None end, oof, e' :: os)
        | (Err, e') => (None, false, e' :: es')
        | (OOF, e') => (None, true, e' :: es')
        end
    | [] => (Some ([], []), false, [])
    end.
End Seq.

Definition fail_of (oof : bool) : out := if oof then OOF else Err.

(* the stand-alone call of one declared function: DeclarationDef.synthesize_call / check_call
   -> expr_checker.synthesize_call / check_call -> check_num_args, type_check_args *)
Definition call_decl (chk : ty -> expr -> res) (m : mode) (s : sig) (es : list expr) : lres :=
  if negb (Nat.eqb (length es) (length (s_ins s))) then (Err, es)       (* check_num_args *)
  else
    let '(rs, oof, os, _) := seq_check chk es (s_ins s) in
    match rs with
    | None => (fail_of oof, os)
    | Some l =>
        match m with
        | Synth => (Ok (EGCall (Some (s_out s)) (s_id s) l) (s_out s), os)
        | Check t =>                                   (* unify(ty, synth): no coercion of results *)
            if ty_eqb t (s_out s) then (Ok (EGCall (Some t) (s_id s) l) t, os) else (Err, os)
        end
    end.

(* OverloadedFunctionDef.synthesize_call / check_call: the loop over the variants, the
   argument nodes `es` being the state that survives a failed attempt when `cp = false`.
   `on_none` is `_call_error`, which synthesizes every argument (for the message) and raises. *)
Section Loop.
  Variable cp : bool.
  Variable attempt : sig -> list expr -> lres.
  Variable on_none : list expr -> lres.

  Fixpoint over_loop (vs : list sig) (es : list expr) : lres :=
    match vs with
    | [] => on_none es
    | s :: vs' =>
        match attempt s es with
        | (Ok r t, es') => (Ok r t, if cp then es else es')
        | (OOF, es') => (OOF, if cp then es else es')
        | (Err, es') => over_loop vs' (if cp then es else es')
        end
    end.
End Loop.

(* ---------------------------------------------------------------- the checker *)
Fixpoint tc (cp : bool) (fuel : nat) (E : env) (m : mode) (e : expr) {struct fuel} : res :=
  match fuel with
  | O => (OOF, e)
  | S n =>
      let chk := fun t x => tc cp n E (Check t) x in
      let syn := fun x => tc cp n E Synth x in
      let call_error := fun es : list expr =>
            let '(_, oof, os) := seq_synth syn es in (fail_of oof, os) in
      let call := fun (m' : mode) (f : nat) (es : list expr) =>
            match nth_error (funs E) f with
            | Some (FDecl s) => call_decl chk m' s es
            | Some (FOver vs) => over_loop cp (call_decl chk m') call_error vs es
            | None => (Err, es)
            end in
      (* ExprSynthesizer.synthesize of a node without annotation *)
      let synth_node := fun e0 : expr =>
            match e0 with
            | EInt _ v =>
                match int_lit_ty None v with
                | Some t => (Ok (EInt (Some t) v) t, EInt (Some t) v)
                | None => (Err, e0)
                end
            | EFlt _ => (Ok (EFlt (Some (TNum KFloat))) (TNum KFloat), EFlt (Some (TNum KFloat)))
            | EBool _ b => (Ok (EBool (Some TBool) b) TBool, EBool (Some TBool) b)
            | EName x =>
                match nth_error (locals E) x with
                | Some t => (Ok (EPlace (Some t) x) t, e0)
                | None => (Err, e0)
                end
            | ETup _ es =>
                let '(rs, oof, os) := seq_synth syn es in
                match rs with
                | Some (l, ts) => (Ok (ETup (Some (TTuple ts)) l) (TTuple ts), ETup (Some (TTuple ts)) l)
                | None => (fail_of oof, ETup None os)
                end
            | ECall f es =>
                let '(o, os) := call Synth f es in (o, ECall f os)
            | _ => (Err, e0)
            end in
      match m with
      | Synth =>
          match ann e with
          | Some t => (Ok e t, e)                         (* get_type_opt *)
          | None => synth_node e
          end
      | Check t =>
          match ann e with
          | Some act =>                                   (* already typed: only match it against t *)
              match against act t e with
              | Some (r, e') => (Ok r t, e')
              | None => (Err, e)
              end
          | None =>
              match e with
              | EInt _ v =>                               (* visit_Constant *)
                  match int_lit_ty (Some t) v with
                  | Some act => match against act t e with
                                | Some (r, e') => (Ok r t, e')
                                | None => (Err, e)
                                end
                  | None => (Err, e)
                  end
              | EFlt _ => match against (TNum KFloat) t e with
                          | Some (r, e') => (Ok r t, e') | None => (Err, e) end
              | EBool _ _ => match against TBool t e with
                             | Some (r, e') => (Ok r t, e') | None => (Err, e) end
              | ETup _ es =>                              (* visit_Tuple *)
                  match t with
                  | TTuple ts =>
                      if Nat.eqb (length ts) (length es) then
                        let '(rs, oof, _, ss) := seq_check chk es ts in
                        match rs with
                        | Some l => (Ok (ETup (Some t) l) t, ETup (Some t) l)
                        | None => (fail_of oof, ETup None ss)
                        end
                      else (match synth_node e with (OOF, e') => (OOF, e') | (_, e') => (Err, e') end)
                  | _ => (match synth_node e with (OOF, e') => (OOF, e') | (_, e') => (Err, e') end)  (* _fail synthesizes the node for the message *)
                  end
              | EName _ =>                                (* generic_visit: synthesize, then match *)
                  match synth_node e with
                  | (Ok r act, e') => match against act t r with
                                      | Some (r', _) => (Ok r' t, e')
                                      | None => (Err, e')
                                      end
                  | (o, e') => (o, e')
                  end
              | ECall f es =>                             (* visit_Call -> defn.check_call *)
                  let '(o, os) := call (Check t) f es in (o, ECall f os)
              | _ => (Err, e)
              end
          end
      end
  end.

(* the pieces of [tc] at one fuel level, named for the theorems *)
Definition chk_at (cp : bool) (n : nat) (E : env) : ty -> expr -> res := fun t x => tc cp n E (Check t) x.
Definition syn_at (cp : bool) (n : nat) (E : env) : expr -> res := fun x => tc cp n E Synth x.
Definition call_error_at (cp : bool) (n : nat) (E : env) (es : list expr) : lres :=
  let '(_, oof, os) := seq_synth (syn_at cp n E) es in (fail_of oof, os).

(* stand-alone call of declared function `s` on argument nodes `es` (arguments checked with fuel n) *)
Definition standalone (cp : bool) (n : nat) (E : env) (m : mode) (s : sig) (es : list expr) : lres :=
  call_decl (chk_at cp n E) m s es.

(* the overloaded call *)
Definition overloaded (cp : bool) (n : nat) (E : env) (m : mode) (vs : list sig) (es : list expr) : lres :=
  over_loop cp (standalone cp n E m) (call_error_at cp n E) vs es.

(* ---------------------------------------------------------------- encoding for the correspondence harness *)
Fixpoint enc_ty (t : ty) : list Z :=
  match t with
  | TNum KNat => [1] | TNum KInt => [2] | TNum KFloat => [3] | TBool => [4]
  | TTuple ts => 5 :: Z.of_nat (length ts) :: flat_map enc_ty ts
  end.
Definition enc_ann (a : option ty) : list Z := match a with None => [0] | Some t => 1 :: enc_ty t end.
Fixpoint enc_expr (e : expr) : list Z :=
  match e with
  | EInt a v => 10 :: enc_ann a ++ [v]
  | EFlt a => 11 :: enc_ann a
  | EBool a b => 12 :: enc_ann a ++ [if b then 1 else 0]
  | ETup a es => 13 :: enc_ann a ++ Z.of_nat (length es) :: flat_map enc_expr es
  | EName x => [14; Z.of_nat x]
  | ECall f es => 15 :: Z.of_nat f :: Z.of_nat (length es) :: flat_map enc_expr es
  | EPlace a x => 16 :: enc_ann a ++ [Z.of_nat x]
  | EGCall a d es => 17 :: enc_ann a ++ Z.of_nat d :: Z.of_nat (length es) :: flat_map enc_expr es
  | ECoerce a k e' => 18 :: enc_ann a ++ Z.of_nat (kind_idx k) :: enc_expr e'
  end.
Definition enc_out (o : out) : list Z :=
  match o with Ok r t => 1 :: enc_ty t ++ enc_expr r | Err => [0] | OOF => [2] end.
