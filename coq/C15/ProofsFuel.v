(** C15 — fuel adequacy: with copies, fuel > depth of the expression never runs out. *)
From Coq Require Import ZArith List Bool Lia PeanoNat.
From V.C15 Require Import Overload.
Import ListNotations.
Open Scope nat_scope.

Fixpoint depth (e : expr) : nat :=
  let dl := fix dl (es : list expr) : nat :=
              match es with [] => 0 | x :: r => Nat.max (depth x) (dl r) end in
  match e with
  | ETup _ es => S (dl es)
  | ECall _ es => S (dl es)
  | EGCall _ _ es => S (dl es)
  | ECoerce _ _ e' => S (depth e')
  | _ => 1
  end.

Fixpoint depth_list (es : list expr) : nat :=
  match es with [] => 0 | x :: r => Nat.max (depth x) (depth_list r) end.

Lemma depth_list_in : forall es x, In x es -> depth x <= depth_list es.
Proof. induction es; simpl; intros x H; [destruct H|]. destruct H as [->|H]; [lia|]. specialize (IHes x H). lia. Qed.

Definition no_oof (o : out) : Prop := o <> OOF.

Section SeqFacts.
  Variable chk : ty -> expr -> res.
  Variable syn : expr -> res.

  Lemma seq_check_no_oof : forall es ts,
    (forall x t, In x es -> fst (chk t x) <> OOF) ->
    snd (fst (fst (seq_check chk es ts))) = false.
  Proof.
    induction es as [|e es IH]; intros ts H; simpl.
    - reflexivity.
    - destruct ts as [|t ts]; [reflexivity|].
      pose proof (H e t (or_introl eq_refl)) as He.
      destruct (chk t e) as [o e'] eqn:C. simpl in He.
      destruct o; try congruence.
      + specialize (IH ts (fun x t' Hx => H x t' (or_intror Hx))).
        destruct (seq_check chk es ts) as [[[rs oof] os] ss]. simpl in *. exact IH.
      + reflexivity.
  Qed.

  Lemma seq_synth_no_oof : forall es,
    (forall x, In x es -> fst (syn x) <> OOF) ->
    snd (fst (seq_synth syn es)) = false.
  Proof.
    induction es as [|e es IH]; intros H; simpl.
    - reflexivity.
    - pose proof (H e (or_introl eq_refl)) as He.
      destruct (syn e) as [o e'] eqn:C. simpl in He.
      destruct o; try congruence.
      + specialize (IH (fun x Hx => H x (or_intror Hx))).
        destruct (seq_synth syn es) as [[rs oof] os]. simpl in *. exact IH.
      + reflexivity.
  Qed.

  Lemma call_decl_no_oof : forall m s es,
    (forall x t, In x es -> fst (chk t x) <> OOF) ->
    fst (call_decl chk m s es) <> OOF.
  Proof.
    intros m s es H. unfold call_decl.
    destruct (negb (length es =? length (s_ins s))); [simpl; discriminate|].
    pose proof (seq_check_no_oof es (s_ins s) H) as Hs.
    destruct (seq_check chk es (s_ins s)) as [[[rs oof] os] ss]. simpl in Hs. subst oof.
    destruct rs; simpl.
    - destruct m; simpl; [discriminate|]. destruct (ty_eqb t (s_out s)); simpl; discriminate.
    - discriminate.
  Qed.
End SeqFacts.

Lemma over_loop_copy_no_oof : forall attempt on_none vs es,
  (forall s, fst (attempt s es) <> OOF) -> fst (on_none es) <> OOF ->
  fst (over_loop true attempt on_none vs es) <> OOF.
Proof.
  induction vs as [|v vs IH]; intros es Ha Hn; simpl.
  - exact Hn.
  - pose proof (Ha v) as Hv. destruct (attempt v es) as [o es'] eqn:A. simpl in Hv.
    destruct o; simpl; try congruence; try discriminate.
    apply IH; assumption.
Qed.

Lemma fst_let_pair : forall (x : lres) (f : nat), fst (let '(o, os) := x in (o, ECall f os)) = fst x.
Proof. intros [o os] f. reflexivity. Qed.

Lemma fail_keep : forall (x : res),
  fst x <> OOF -> fst (let (o, e') := x in match o with OOF => (OOF, e') | _ => (Err, e') end) <> OOF.
Proof. intros [o e'] H. destruct o; simpl in *; congruence. Qed.

Lemma depth_list_eq : forall es,
  (fix dl (es : list expr) : nat := match es with [] => 0 | x :: r => Nat.max (depth x) (dl r) end) es = depth_list es.
Proof. induction es; simpl; auto. Qed.

Theorem enough_fuel : forall n E m e, depth e <= n -> fst (tc true n E m e) <> OOF.
Proof.
  induction n as [|n IH]; intros E m e Hd.
  - destruct e; simpl in Hd; lia.
  - assert (Hchk : forall es, depth_list es <= n -> forall x t, In x es -> fst (tc true n E (Check t) x) <> OOF).
    { intros es Hes x t Hx. apply IH. pose proof (depth_list_in es x Hx). lia. }
    assert (Hsyn : forall es, depth_list es <= n -> forall x, In x es -> fst (tc true n E Synth x) <> OOF).
    { intros es Hes x Hx. apply IH. pose proof (depth_list_in es x Hx). lia. }
    assert (Hcallerr : forall es, depth_list es <= n ->
              fst (let '(_, oof, os) := seq_synth (fun x => tc true n E Synth x) es in (fail_of oof, os)) <> OOF).
    { intros es Hes. pose proof (seq_synth_no_oof (fun x => tc true n E Synth x) es (Hsyn es Hes)) as Hs.
      destruct (seq_synth (fun x => tc true n E Synth x) es) as [[rs oof] os]. simpl in Hs. subst oof. simpl. discriminate. }
    assert (Hcall : forall m' f es, depth_list es <= n ->
              fst (match nth_error (funs E) f with
                   | Some (FDecl s) => call_decl (fun t x => tc true n E (Check t) x) m' s es
                   | Some (FOver vs) => over_loop true (call_decl (fun t x => tc true n E (Check t) x) m')
                         (fun es0 => let '(_, oof, os) := seq_synth (fun x => tc true n E Synth x) es0 in (fail_of oof, os)) vs es
                   | None => (Err, es)
                   end) <> OOF).
    { intros m' f es Hes. destruct (nth_error (funs E) f) as [[s|vs]|]; [| |simpl; discriminate].
      - apply call_decl_no_oof. exact (Hchk es Hes).
      - apply over_loop_copy_no_oof.
        + intro s. apply call_decl_no_oof. exact (Hchk es Hes).
        + exact (Hcallerr es Hes). }
    assert (Hsn : forall a es, depth_list es <= n ->
              fst (let '(rs, oof, os) := seq_synth (fun x => tc true n E Synth x) es in
                   match rs with
                   | Some (l, ts) => (Ok (ETup (Some (TTuple ts)) l) (TTuple ts), ETup (Some (TTuple ts)) l)
                   | None => (fail_of oof, ETup a os)
                   end) <> OOF).
    { intros a es Hes. pose proof (seq_synth_no_oof (fun x => tc true n E Synth x) es (Hsyn es Hes)) as Hs.
      destruct (seq_synth (fun x => tc true n E Synth x) es) as [[rs oof] os]. simpl in Hs. subst oof.
      destruct rs as [[l ts]|]; simpl; discriminate. }
    destruct e as [a v|a|a b|a es|x|f es|a x|a d es|a k e']; simpl in Hd.
    + (* EInt *) destruct m as [|t]; destruct a as [act|]; cbn -[int_lit_ty against].
      * discriminate.
      * destruct (int_lit_ty None v); simpl; discriminate.
      * destruct (against act t (EInt (Some act) v)) as [[r e']|]; simpl; discriminate.
      * destruct (int_lit_ty (Some t) v) as [act|]; [|simpl; discriminate].
        destruct (against act t (EInt None v)) as [[r e']|]; simpl; discriminate.
    + (* EFlt *) destruct m as [|t]; destruct a as [act|]; cbn -[against]; try discriminate.
      * destruct (against act t (EFlt (Some act))) as [[r e']|]; simpl; discriminate.
      * destruct (against (TNum KFloat) t (EFlt None)) as [[r e']|]; simpl; discriminate.
    + (* EBool *) destruct m as [|t]; destruct a as [act|]; cbn -[against]; try discriminate.
      * destruct (against act t (EBool (Some act) b)) as [[r e']|]; simpl; discriminate.
      * destruct (against TBool t (EBool None b)) as [[r e']|]; simpl; discriminate.
    + (* ETup *)
      assert (Hes : depth_list es <= n) by (change (S (depth_list es) <= S n) in Hd; lia).
      destruct m as [|t]; destruct a as [act|]; cbn -[against].
      * discriminate.
      * apply (Hsn None es Hes).
      * destruct (against act t (ETup (Some act) es)) as [[r e']|]; simpl; discriminate.
      * destruct t as [k| |ts]; try (apply fail_keep; apply (Hsn None es Hes)).
        destruct (length ts =? length es); [|apply fail_keep; apply (Hsn None es Hes)].
        pose proof (seq_check_no_oof (fun t0 x => tc true n E (Check t0) x) es ts (Hchk es Hes)) as Hs.
        destruct (seq_check (fun t0 x => tc true n E (Check t0) x) es ts) as [[[rs oof] os] ss].
        simpl in Hs. subst oof. destruct rs; simpl; discriminate.
    + (* EName *) destruct m as [|t]; cbn -[against].
      * destruct (nth_error (locals E) x); simpl; discriminate.
      * destruct (nth_error (locals E) x) as [act|]; [|simpl; discriminate].
        destruct (against act t (EPlace (Some act) x)) as [[r e']|]; simpl; discriminate.
    + (* ECall *)
      assert (Hes : depth_list es <= n) by (change (S (depth_list es) <= S n) in Hd; lia).
      destruct m as [|t]; cbn -[against].
      * pose proof (Hcall Synth f es Hes) as H.
        rewrite fst_let_pair. exact H.
      * pose proof (Hcall (Check t) f es Hes) as H.
        rewrite fst_let_pair. exact H.
    + (* EPlace *) destruct m as [|t]; destruct a as [act|]; cbn -[against]; try discriminate.
      destruct (against act t (EPlace (Some act) x)) as [[r e']|]; simpl; discriminate.
    + (* EGCall *) destruct m as [|t]; destruct a as [act|]; cbn -[against]; try discriminate.
      destruct (against act t (EGCall (Some act) d es)) as [[r e']|]; simpl; discriminate.
    + (* ECoerce *) destruct m as [|t]; destruct a as [act|]; cbn -[against]; try discriminate.
      destruct (against act t (ECoerce (Some act) k e')) as [[r e'']|]; simpl; discriminate.
Qed.
