(** C15 — Overloaded calls pick the first applicable variant.

    Model: V.C15.Overload ([tc] = the argument-checking fragment of expr_checker.py with the
    in-place mutation of AST nodes made explicit; [overloaded] = the loop of
    OverloadedFunctionDef.synthesize_call / check_call).  [copies_args] is read from
    overloaded.py on every run (GenLoop.v): does the loop give each variant its own copy of
    the argument nodes?  All theorems hold for every fuel [n] (same fuel on both sides), every
    environment of declared functions / overload sets / typed locals, every argument list
    (also already annotated or rewritten nodes) and both positions:
      m = Synth     :  x = ov(args)
      m = Check t   :  x: t = ov(args)
    "variant s accepts" = the stand-alone call [standalone … s es] on the ORIGINAL argument
    nodes does not raise; by [direct_call_is_standalone] that is literally what checking
    the direct call `s(args)` does.  For source (annotation-free) arguments it is moreover
    characterised independently of the checker's code by the reference [sig_accepts] of
    ProofsSpec.v — a bidirectional type checker without rewriting, mutation or fuel
    ([variant_accepts_iff_signature_accepts], [first_match_reference]). *)
From Coq Require Import ZArith List Bool.
From V.C15 Require Import Overload GenLoop Proofs ProofsFuel ProofsSpec.
Import ListNotations.

(* the tie to the source: the loop as found in overloaded.py copies the argument nodes *)
Theorem loop_copies_args : copies_args = true.
Proof. reflexivity. Qed.
Print Assumptions loop_copies_args.

(* a direct call g(args) to a declared function is the stand-alone attempt, in both positions *)
Theorem direct_call_is_standalone : forall n E m g s es,
  nth_error (funs E) g = Some (FDecl s) ->
  tc copies_args (S n) E m (ECall g es) =
    (fst (standalone copies_args n E m s es), ECall g (snd (standalone copies_args n E m s es))).
Proof. intros. apply tc_call_decl; assumption. Qed.
Print Assumptions direct_call_is_standalone.

(* first_match: the overloaded call returns exactly the outcome (new node, inserted coercions,
   annotations, type) of the least variant whose stand-alone check of the original arguments
   succeeds, and leaves the caller's argument nodes as they were *)
Theorem first_match : forall n E m f vs es i s,
  nth_error (funs E) f = Some (FOver vs) ->
  least_accepting_variant copies_args n E m vs es i s ->
  tc copies_args (S n) E m (ECall f es) = (fst (standalone copies_args n E m s es), ECall f es).
Proof. exact (first_match_call copies_args loop_copies_args). Qed.
Print Assumptions first_match.

(* ... hence it behaves exactly as the direct call to that variant *)
Theorem first_match_as_direct_call : forall n E m f g vs es i s,
  nth_error (funs E) f = Some (FOver vs) ->
  nth_error (funs E) g = Some (FDecl s) ->
  least_accepting_variant copies_args n E m vs es i s ->
  fst (tc copies_args (S n) E m (ECall f es)) = fst (tc copies_args (S n) E m (ECall g es)).
Proof. exact (first_match_direct_call copies_args loop_copies_args). Qed.
Print Assumptions first_match_as_direct_call.

(* the two positions spelled out *)
Theorem first_match_synthesis : forall n E f g vs es i s,
  nth_error (funs E) f = Some (FOver vs) -> nth_error (funs E) g = Some (FDecl s) ->
  least_accepting_variant copies_args n E Synth vs es i s ->
  fst (tc copies_args (S n) E Synth (ECall f es)) = fst (tc copies_args (S n) E Synth (ECall g es)).
Proof. intros n E. exact (first_match_as_direct_call n E Synth). Qed.
Print Assumptions first_match_synthesis.

Theorem first_match_checking : forall n E t f g vs es i s,
  nth_error (funs E) f = Some (FOver vs) -> nth_error (funs E) g = Some (FDecl s) ->
  least_accepting_variant copies_args n E (Check t) vs es i s ->
  fst (tc copies_args (S n) E (Check t) (ECall f es)) = fst (tc copies_args (S n) E (Check t) (ECall g es)).
Proof. intros n E t. exact (first_match_as_direct_call n E (Check t)). Qed.
Print Assumptions first_match_checking.

(* accepted iff some variant accepts (then the least one is taken); rejected only when none does *)
Theorem rejected_iff_no_variant_accepts : forall n E m f vs es,
  nth_error (funs E) f = Some (FOver vs) ->
  ((exists s, In s vs /\ fst (standalone copies_args n E m s es) <> Err) ->
     exists i s, least_accepting_variant copies_args n E m vs es i s /\
                 tc copies_args (S n) E m (ECall f es) = (fst (standalone copies_args n E m s es), ECall f es)) /\
  ((forall s, In s vs -> fst (standalone copies_args n E m s es) = Err) ->
     forall r t, fst (tc copies_args (S n) E m (ECall f es)) <> Ok r t) /\
  (fst (tc copies_args (S n) E m (ECall f es)) = Err ->
     forall s, In s vs -> fst (standalone copies_args n E m s es) = Err).
Proof. exact (accepted_iff_some_variant copies_args loop_copies_args). Qed.
Print Assumptions rejected_iff_no_variant_accepts.

(* the hypotheses are satisfiable on a non-trivial instance: ov((1, True)) with
   a(tuple[float, float]) -> int and b(tuple[int, bool]) -> float selects b (index 1) *)
Example first_match_instance :
  least_accepting_variant copies_args 9 w1_env Synth [w1_a; w1_b] w1_args 1 w1_b /\
  fst (tc copies_args 10 w1_env Synth (ECall 2%nat w1_args)) = fst (tc copies_args 10 w1_env Synth (ECall 1%nat w1_args)) /\
  exists r, fst (tc copies_args 10 w1_env Synth (ECall 2%nat w1_args)) = Ok r tflt.
Proof. exact (w1_copy_selects_b copies_args loop_copies_args). Qed.

(* fuel is a model artefact: with copies, fuel >= depth of the expression never runs out, so all
   statements above speak about Ok / Err as soon as n >= depth *)
Theorem enough_fuel_no_oof : forall n E m e, depth e <= n -> fst (tc copies_args n E m e) <> OOF.
Proof. exact enough_fuel. Qed.
Print Assumptions enough_fuel_no_oof.

(* the checker fragment accepts exactly what the declarative reference accepts, in both
   positions, for every source expression (literals, tuples, names, nested calls/overloads) *)
Theorem checker_agrees_with_reference : forall n E e, depth (embed e) <= n ->
  (forall t, is_ok (fst (tc copies_args n E (Check t) (embed e))) = checks E e t) /\
  ok_ty (fst (tc copies_args n E Synth (embed e))) = synthesizes E e.
Proof. exact ref_correct. Qed.
Print Assumptions checker_agrees_with_reference.

(* "variant s accepts the arguments (and the expected result type)" in the sense of the code =
   in the sense of the reference *)
Theorem variant_accepts_iff_signature_accepts : forall n E m s es, depth_list (map embed es) <= n ->
  is_ok (fst (standalone copies_args n E m s (map embed es))) = accepts_sig E m s es.
Proof. exact standalone_is_ok. Qed.
Print Assumptions variant_accepts_iff_signature_accepts.

(* the property, end to end and against the reference: if variant i is the first one whose
   signature accepts the source arguments (and returns the expected type, when one is known),
   the overloaded call is accepted and its outcome is that of the direct call to variant i *)
Theorem first_match_reference : forall n E m f g vs es i s,
  nth_error (funs E) f = Some (FOver vs) -> nth_error (funs E) g = Some (FDecl s) ->
  (depth_list (map embed es) <= n)%nat ->
  nth_error vs i = Some s ->
  accepts_sig E m s es = true ->
  (forall j s', (j < i)%nat -> nth_error vs j = Some s' -> accepts_sig E m s' es = false) ->
  fst (tc copies_args (S n) E m (ECall f (map embed es))) = fst (tc copies_args (S n) E m (ECall g (map embed es))) /\
  is_ok (fst (tc copies_args (S n) E m (ECall f (map embed es)))) = true.
Proof. exact first_match_ref. Qed.
Print Assumptions first_match_reference.

(* ... and which type comes out / whether it is accepted at all, in closed form *)
Theorem overload_resolution_reference : forall n E f vs es,
  nth_error (funs E) f = Some (FOver vs) -> depth (embed (SCall f es)) <= n ->
  ok_ty (fst (tc copies_args n E Synth (embed (SCall f es)))) =
    first_some (fun s => if sig_accepts E s es then Some (s_out s) else None) vs /\
  forall t, is_ok (fst (tc copies_args n E (Check t) (embed (SCall f es)))) =
    existsb (fun s => sig_accepts E s es && ty_eqb t (s_out s)) vs.
Proof. exact overload_ref. Qed.
Print Assumptions overload_resolution_reference.

(* The same loop WITHOUT copying (guppylang 0.21.6 as found) refutes the property, both ways:
   (1) ov((1, True)) is rejected although variant b accepts it stand-alone;
   (2) ov(2**63, 1) with c(nat, bool), d(int, int) is accepted although no variant accepts it. *)
Theorem first_match_refuted_without_copy :
  exists E f g vs s es r t,
    nth_error (funs E) f = Some (FOver vs) /\ nth_error (funs E) g = Some (FDecl s) /\ In s vs /\
    fst (tc false 10 E Synth (ECall g es)) = Ok r t /\
    fst (tc false 10 E Synth (ECall f es)) = Err.
Proof.
  exists w1_env, 2%nat, 1%nat, [w1_a; w1_b], w1_b, w1_args. do 2 eexists.
  repeat split; try reflexivity; [right; left; reflexivity | apply w1_nocopy_rejects_although_b_accepts ..].
Qed.
Print Assumptions first_match_refuted_without_copy.

Theorem accepted_though_no_variant_accepts_without_copy :
  exists E f vs es,
    nth_error (funs E) f = Some (FOver vs) /\
    (forall s, In s vs -> fst (standalone false 9 E Synth s es) = Err) /\
    exists r t, fst (tc false 10 E Synth (ECall f es)) = Ok r t.
Proof.
  exists w2_env, 2%nat, [w2_c; w2_d], w2_args.
  split; [reflexivity | exact w2_nocopy_accepts_although_no_variant_does].
Qed.
Print Assumptions accepted_though_no_variant_accepts_without_copy.
