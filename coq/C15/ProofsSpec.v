(** C15 — a declarative reference for "the signature accepts the arguments": a bidirectional
    type checker on annotation-free source expressions, with no AST rewriting, no mutation,
    no fuel.  [tc] on the embedded expression accepts exactly what the reference accepts. *)
From Coq Require Import ZArith List Bool Lia PeanoNat.
From V.C15 Require Import Overload Proofs ProofsFuel.
Import ListNotations.
Open Scope nat_scope.

Inductive sexpr :=
| SInt (v : Z) | SFlt | SBool (b : bool)
| STup (es : list sexpr)
| SName (x : nat)
| SCall (f : nat) (es : list sexpr).

Fixpoint embed (e : sexpr) : expr :=
  match e with
  | SInt v => EInt None v
  | SFlt => EFlt None
  | SBool b => EBool None b
  | STup es => ETup None (map embed es)
  | SName x => EName x
  | SCall f es => ECall f (map embed es)
  end.

(* a value of type [act] may be used where [exp] is expected: same type, or numeric widening *)
Definition usable (act exp : ty) : bool :=
  ty_eqb exp act ||
  match act, exp with TNum ka, TNum ke => kind_ltb ka ke | _, _ => false end.

Section Ref.
  Variable E : env.

  (* forallb2 with length check *)
  Definition all2 {A B} (p : A -> B -> bool) : list A -> list B -> bool :=
    fix go (xs : list A) (ys : list B) : bool :=
      match xs, ys with
      | [], [] => true
      | x :: xs', y :: ys' => p x y && go xs' ys'
      | _, _ => false
      end.

  Definition synth_all {A} (q : A -> option ty) : list A -> option (list ty) :=
    fix go (es : list A) : option (list ty) :=
      match es with
      | [] => Some []
      | x :: r => match q x, go r with Some t, Some ts => Some (t :: ts) | _, _ => None end
      end.

  Definition first_some {A B} (p : A -> option B) : list A -> option B :=
    fix go (xs : list A) : option B :=
      match xs with [] => None | x :: r => match p x with Some b => Some b | None => go r end end.

  (* reference checker: [ref e] = (synthesized type of e, fun t => does e check against t),
     computed together so that the definition is structurally recursive *)
  Fixpoint ref (e : sexpr) : option ty * (ty -> bool) :=
    let args_ok := fun (es : list sexpr) (ins : list ty) => all2 (fun x t => snd (ref x) t) es ins in
    match e with
    | SInt v =>
        ((if in_signed v then Some (TNum KInt) else None),
         fun t => match t with
                  | TNum KNat => (0 <=? v)%Z && in_unsigned v
                  | TNum _ => in_signed v
                  | _ => false
                  end)
    | SFlt => (Some (TNum KFloat), fun t => usable (TNum KFloat) t)
    | SBool _ => (Some TBool, fun t => usable TBool t)
    | SName x =>
        (nth_error (locals E) x,
         fun t => match nth_error (locals E) x with Some a => usable a t | None => false end)
    | STup es =>
        (option_map TTuple (synth_all (fun x => fst (ref x)) es),
         fun t => match t with TTuple ts => all2 (fun x t => snd (ref x) t) es ts | _ => false end)
    | SCall f es =>
        match nth_error (funs E) f with
        | Some (FDecl s) =>
            ((if args_ok es (s_ins s) then Some (s_out s) else None),
             fun t => args_ok es (s_ins s) && ty_eqb t (s_out s))
        | Some (FOver vs) =>
            (first_some (fun s => if args_ok es (s_ins s) then Some (s_out s) else None) vs,
             fun t => existsb (fun s => args_ok es (s_ins s) && ty_eqb t (s_out s)) vs)
        | None => (None, fun _ => false)
        end
    end.

  Definition checks (e : sexpr) (t : ty) : bool := snd (ref e) t.
  Definition synthesizes (e : sexpr) : option ty := fst (ref e).
  (* "the signature accepts the arguments" *)
  Definition sig_accepts (s : sig) (es : list sexpr) : bool := all2 checks es (s_ins s).
End Ref.

(* ------------------------------------------------------------------ correctness of [tc] w.r.t. the reference *)
Definition is_ok (o : out) : bool := match o with Ok _ _ => true | _ => false end.
Definition ok_ty (o : out) : option ty := match o with Ok _ t => Some t | _ => None end.

Lemma against_usable : forall act t e,
  (match against act t e with Some _ => true | None => false end) = usable act t.
Proof.
  intros act t e. unfold against, usable. destruct (ty_eqb t act); [reflexivity|]. simpl.
  destruct act as [ka| |]; try reflexivity. destruct t as [ke| |]; try reflexivity.
  destruct (kind_ltb ka ke); reflexivity.
Qed.

Lemma is_ok_against : forall act t e (d : expr),
  is_ok (fst (match against act t e with Some (r, e') => (Ok r t, e') | None => (Err, d) end)) = usable act t.
Proof.
  intros. rewrite <- (against_usable act t e). destruct (against act t e) as [[r e']|]; reflexivity.
Qed.

Lemma all2_length : forall {A B} (p : A -> B -> bool) xs ys, all2 p xs ys = true -> length xs = length ys.
Proof.
  induction xs as [|x xs IH]; destruct ys as [|y ys]; simpl; intros H; try discriminate; auto.
  apply andb_true_iff in H. destruct H as [_ H]. f_equal. apply IH. exact H.
Qed.

Lemma all2_length_false : forall {A B} (p : A -> B -> bool) xs ys, length xs <> length ys -> all2 p xs ys = false.
Proof.
  intros A B p xs ys H. destruct (all2 p xs ys) eqn:Ha; [|reflexivity]. apply all2_length in Ha. contradiction.
Qed.

Section SeqRef.
  Variable chk : ty -> expr -> res.
  Variable syn : expr -> res.
  Variable p : sexpr -> ty -> bool.
  Variable q : sexpr -> option ty.

  Lemma seq_check_ref : forall es ts,
    (forall x t, In x es -> fst (chk t (embed x)) <> OOF) ->
    (forall x t, In x es -> is_ok (fst (chk t (embed x))) = p x t) ->
    length es = length ts ->
    snd (fst (fst (seq_check chk (map embed es) ts))) = false /\
    (match fst (fst (fst (seq_check chk (map embed es) ts))) with Some _ => true | None => false end) = all2 p es ts.
  Proof.
    induction es as [|e es IH]; intros ts Hno Hp Hl; destruct ts as [|t ts]; simpl in Hl; try discriminate.
    - simpl. split; reflexivity.
    - simpl.
      pose proof (Hno e t (or_introl eq_refl)) as H1. pose proof (Hp e t (or_introl eq_refl)) as H2.
      destruct (chk t (embed e)) as [o e'] eqn:C. simpl in H1, H2.
      destruct o; try congruence.
      + destruct (IH ts (fun x t' Hx => Hno x t' (or_intror Hx)) (fun x t' Hx => Hp x t' (or_intror Hx)) (eq_add_S _ _ Hl)) as [I1 I2].
        destruct (seq_check chk (map embed es) ts) as [[[rs oof] os] ss]. simpl in *.
        rewrite <- H2. simpl. split; [exact I1|]. rewrite <- I2. destruct rs; reflexivity.
      + simpl. rewrite <- H2. simpl. split; reflexivity.
  Qed.

  Lemma seq_synth_ref : forall es,
    (forall x, In x es -> fst (syn (embed x)) <> OOF) ->
    (forall x, In x es -> ok_ty (fst (syn (embed x))) = q x) ->
    snd (fst (seq_synth syn (map embed es))) = false /\
    option_map snd (fst (fst (seq_synth syn (map embed es)))) = synth_all q es.
  Proof.
    induction es as [|e es IH]; intros Hno Hq; simpl.
    - split; reflexivity.
    - pose proof (Hno e (or_introl eq_refl)) as H1. pose proof (Hq e (or_introl eq_refl)) as H2.
      destruct (syn (embed e)) as [o e'] eqn:C. simpl in H1, H2.
      destruct o; try congruence.
      + destruct (IH (fun x Hx => Hno x (or_intror Hx)) (fun x Hx => Hq x (or_intror Hx))) as [I1 I2].
        destruct (seq_synth syn (map embed es)) as [[rs oof] os]. simpl in *.
        rewrite <- H2, <- I2. split; [exact I1|]. destruct rs as [[l ts]|]; reflexivity.
      + simpl. rewrite <- H2. split; reflexivity.
  Qed.

  Lemma call_decl_ref : forall s es,
    (forall x t, In x es -> fst (chk t (embed x)) <> OOF) ->
    (forall x t, In x es -> is_ok (fst (chk t (embed x))) = p x t) ->
    ok_ty (fst (call_decl chk Synth s (map embed es))) = (if all2 p es (s_ins s) then Some (s_out s) else None) /\
    forall t, is_ok (fst (call_decl chk (Check t) s (map embed es))) = all2 p es (s_ins s) && ty_eqb t (s_out s).
  Proof.
    intros s es Hno Hp. unfold call_decl. rewrite map_length.
    destruct (length es =? length (s_ins s)) eqn:L; simpl.
    - apply Nat.eqb_eq in L.
      destruct (seq_check_ref es (s_ins s) Hno Hp L) as [I1 I2].
      destruct (seq_check chk (map embed es) (s_ins s)) as [[[rs oof] os] ss]. simpl in *. subst oof.
      rewrite <- I2. destruct rs; simpl.
      + split; [reflexivity|]. intro t. destruct (ty_eqb t (s_out s)); reflexivity.
      + split; [reflexivity|]. intro t. reflexivity.
    - apply Nat.eqb_neq in L. rewrite (all2_length_false p es (s_ins s) L). split; [reflexivity|]. intro t. reflexivity.
  Qed.
End SeqRef.

Lemma loop_copy_is_ok : forall attempt on_none (q : sig -> bool) vs es,
  (forall s, fst (attempt s es) <> OOF) -> is_ok (fst (on_none es)) = false ->
  (forall s, is_ok (fst (attempt s es)) = q s) ->
  is_ok (fst (over_loop true attempt on_none vs es)) = existsb q vs.
Proof.
  induction vs as [|v vs IH]; intros es Hno Hn Hq; simpl.
  - exact Hn.
  - pose proof (Hno v) as H1. pose proof (Hq v) as H2.
    destruct (attempt v es) as [o es'] eqn:A. simpl in H1, H2.
    destruct o; try congruence; simpl; rewrite <- H2; simpl; [reflexivity|].
    apply IH; assumption.
Qed.

Lemma loop_copy_ok_ty : forall attempt on_none (q : sig -> option ty) vs es,
  (forall s, fst (attempt s es) <> OOF) -> ok_ty (fst (on_none es)) = None ->
  (forall s, ok_ty (fst (attempt s es)) = q s) ->
  ok_ty (fst (over_loop true attempt on_none vs es)) = first_some q vs.
Proof.
  induction vs as [|v vs IH]; intros es Hno Hn Hq; simpl.
  - exact Hn.
  - pose proof (Hno v) as H1. pose proof (Hq v) as H2.
    destruct (attempt v es) as [o es'] eqn:A. simpl in H1, H2.
    destruct o; try congruence; simpl; rewrite <- H2; simpl; [reflexivity|].
    apply IH; assumption.
Qed.

Lemma depth_embed_in : forall es x, In x es -> depth (embed x) <= depth_list (map embed es).
Proof. intros es x H. apply depth_list_in. apply in_map. exact H. Qed.

Lemma not_ok_fail_keep : forall (x : res),
  is_ok (fst (let (o, e') := x in match o with OOF => (OOF, e') | _ => (Err, e') end)) = false.
Proof. intros [o e']. destruct o; reflexivity. Qed.

Theorem ref_correct : forall n E e, depth (embed e) <= n ->
  (forall t, is_ok (fst (tc true n E (Check t) (embed e))) = checks E e t) /\
  ok_ty (fst (tc true n E Synth (embed e))) = synthesizes E e.
Proof.
  induction n as [|n IH]; intros E e Hd.
  - destruct e; simpl in Hd; lia.
  - assert (Hno_c : forall es, depth_list (map embed es) <= n ->
              forall x t, In x es -> fst (tc true n E (Check t) (embed x)) <> OOF).
    { intros es Hes x t Hx. apply enough_fuel. pose proof (depth_embed_in es x Hx). lia. }
    assert (Hno_s : forall es, depth_list (map embed es) <= n ->
              forall x, In x es -> fst (tc true n E Synth (embed x)) <> OOF).
    { intros es Hes x Hx. apply enough_fuel. pose proof (depth_embed_in es x Hx). lia. }
    assert (Hp : forall es, depth_list (map embed es) <= n ->
              forall x t, In x es -> is_ok (fst (tc true n E (Check t) (embed x))) = checks E x t).
    { intros es Hes x t Hx. apply IH. pose proof (depth_embed_in es x Hx). lia. }
    assert (Hq : forall es, depth_list (map embed es) <= n ->
              forall x, In x es -> ok_ty (fst (tc true n E Synth (embed x))) = synthesizes E x).
    { intros es Hes x Hx. apply IH. pose proof (depth_embed_in es x Hx). lia. }
    destruct e as [v| |b|es|x|f es]; simpl in Hd.
    + (* SInt *) split.
      * intro t. cbn -[against]. unfold checks. simpl.
        destruct t as [[| |]| |ts]; cbn -[against].
        -- destruct (0 <=? v)%Z; simpl.
           ++ destruct (in_unsigned v); [|reflexivity]. apply is_ok_against.
           ++ destruct (in_signed v); [|reflexivity]. apply is_ok_against.
        -- destruct (in_signed v); [|reflexivity]. apply is_ok_against.
        -- destruct (in_signed v); [|reflexivity]. apply is_ok_against.
        -- destruct (in_signed v); [|reflexivity]. apply is_ok_against.
        -- destruct (in_signed v); [|reflexivity]. apply is_ok_against.
      * cbn. unfold synthesizes. simpl. destruct (in_signed v); reflexivity.
    + (* SFlt *) split.
      * intro t. cbn -[against]. unfold checks. simpl. apply is_ok_against.
      * reflexivity.
    + (* SBool *) split.
      * intro t. cbn -[against]. unfold checks. simpl. apply is_ok_against.
      * reflexivity.
    + (* STup *)
      assert (Hes : depth_list (map embed es) <= n).
      { change (S (depth_list (map embed es)) <= S n) in Hd. lia. }
      split.
      * intro t. cbn -[against]. unfold checks. simpl.
        destruct t as [k| |ts]; try apply not_ok_fail_keep.
        rewrite map_length.
        destruct (length ts =? length es) eqn:L.
        -- apply Nat.eqb_eq in L. symmetry in L.
           destruct (seq_check_ref (fun t0 x => tc true n E (Check t0) x) (checks E) es ts
                       (Hno_c es Hes) (Hp es Hes) L) as [I1 I2].
           destruct (seq_check (fun t0 x => tc true n E (Check t0) x) (map embed es) ts) as [[[rs oof] os] ss].
           simpl in *. subst oof. destruct rs; exact I2.
        -- apply Nat.eqb_neq in L. rewrite not_ok_fail_keep. symmetry. apply all2_length_false. congruence.
      * cbn. unfold synthesizes. simpl.
        destruct (seq_synth_ref (fun x => tc true n E Synth x) (synthesizes E) es (Hno_s es Hes) (Hq es Hes)) as [I1 I2].
        destruct (seq_synth (fun x => tc true n E Synth x) (map embed es)) as [[rs oof] os].
        simpl in *. subst oof.
        change (synth_all (fun x => fst (ref E x)) es) with (synth_all (synthesizes E) es).
        rewrite <- I2. destruct rs as [[l ts]|]; reflexivity.
    + (* SName *) split.
      * intro t. cbn -[against]. unfold checks. simpl.
        destruct (nth_error (locals E) x) as [act|]; [|reflexivity].
        rewrite <- (against_usable act t (EPlace (Some act) x)).
        destruct (against act t (EPlace (Some act) x)) as [[r e']|]; reflexivity.
      * cbn. unfold synthesizes. simpl. destruct (nth_error (locals E) x); reflexivity.
    + (* SCall *)
      assert (Hes : depth_list (map embed es) <= n).
      { change (S (depth_list (map embed es)) <= S n) in Hd. lia. }
      pose proof (fun s => call_decl_ref (fun t0 x => tc true n E (Check t0) x) (checks E) s es (Hno_c es Hes) (Hp es Hes)) as HD.
      assert (HnoA : forall m s, fst (call_decl (fun t0 x => tc true n E (Check t0) x) m s (map embed es)) <> OOF).
      { intros m s. apply call_decl_no_oof. intros x t Hx. apply in_map_iff in Hx. destruct Hx as [x0 [<- Hx0]].
        apply (Hno_c es Hes x0 t Hx0). }
      assert (HnoneS : forall es0 : list expr,
                fst (let '(_, oof, os) := seq_synth (fun x => tc true n E Synth x) es0 in (fail_of oof, os)) = Err \/
                fst (let '(_, oof, os) := seq_synth (fun x => tc true n E Synth x) es0 in (fail_of oof, os)) = OOF).
      { intro es0. destruct (seq_synth (fun x => tc true n E Synth x) es0) as [[rs oof] os]. destruct oof; simpl; auto. }
      split.
      * intro t. cbn -[against]. unfold checks. simpl. rewrite fst_let_pair.
        destruct (nth_error (funs E) f) as [[s|vs]|]; [| |reflexivity].
        -- apply (proj2 (HD s)).
        -- apply loop_copy_is_ok.
           ++ intro s. apply HnoA.
           ++ destruct (HnoneS (map embed es)) as [H|H]; rewrite H; reflexivity.
           ++ intro s. apply (proj2 (HD s)).
      * cbn. unfold synthesizes. simpl. rewrite fst_let_pair.
        destruct (nth_error (funs E) f) as [[s|vs]|]; [| |reflexivity].
        -- apply (proj1 (HD s)).
        -- apply loop_copy_ok_ty.
           ++ intro s. apply HnoA.
           ++ destruct (HnoneS (map embed es)) as [H|H]; rewrite H; reflexivity.
           ++ intro s. apply (proj1 (HD s)).
Qed.

(* the stand-alone attempt of one declared variant accepts exactly when the reference says the
   signature accepts the arguments (and, in checking position, returns the expected type) *)
Lemma standalone_ref : forall n E s es, depth_list (map embed es) <= n ->
  ok_ty (fst (standalone true n E Synth s (map embed es))) = (if sig_accepts E s es then Some (s_out s) else None) /\
  forall t, is_ok (fst (standalone true n E (Check t) s (map embed es))) = sig_accepts E s es && ty_eqb t (s_out s).
Proof.
  intros n E s es Hes. unfold standalone, chk_at, sig_accepts.
  apply (call_decl_ref (fun t0 x => tc true n E (Check t0) x) (checks E) s es).
  - intros x t Hx. apply enough_fuel. pose proof (depth_embed_in es x Hx). lia.
  - intros x t Hx. apply (ref_correct n E x). pose proof (depth_embed_in es x Hx). lia.
Qed.

Lemma overload_ref : forall n E f vs es,
  nth_error (funs E) f = Some (FOver vs) -> depth (embed (SCall f es)) <= n ->
  ok_ty (fst (tc true n E Synth (embed (SCall f es)))) =
    first_some (fun s => if sig_accepts E s es then Some (s_out s) else None) vs /\
  forall t, is_ok (fst (tc true n E (Check t) (embed (SCall f es)))) =
    existsb (fun s => sig_accepts E s es && ty_eqb t (s_out s)) vs.
Proof.
  intros n E f vs es Hf Hd. destruct (ref_correct n E (SCall f es) Hd) as [Hc Hs]. split.
  - rewrite Hs. unfold synthesizes. simpl. rewrite Hf. reflexivity.
  - intro t. rewrite Hc. unfold checks. simpl. rewrite Hf. reflexivity.
Qed.

(* sanity: the reference on the two witnesses *)
Example ref_w1 :
  synthesizes w1_env (SCall 2 [STup [SInt 1; SBool true]]) = Some tflt /\
  sig_accepts w1_env w1_a [STup [SInt 1; SBool true]] = false /\
  sig_accepts w1_env w1_b [STup [SInt 1; SBool true]] = true.
Proof. repeat split. Qed.

Example ref_w2 :
  synthesizes w2_env (SCall 2 [SInt 9223372036854775808; SInt 1]) = None.
Proof. reflexivity. Qed.

(* ------------------------------------------------------------------ first match, stated against the reference *)
Definition accepts_sig (E : env) (m : mode) (s : sig) (es : list sexpr) : bool :=
  match m with
  | Synth => sig_accepts E s es
  | Check t => sig_accepts E s es && ty_eqb t (s_out s)
  end.

Lemma standalone_is_ok : forall n E m s es, depth_list (map embed es) <= n ->
  is_ok (fst (standalone true n E m s (map embed es))) = accepts_sig E m s es.
Proof.
  intros n E m s es Hes. destruct (standalone_ref n E s es Hes) as [Hs Hc].
  destruct m as [|t]; simpl.
  - destruct (fst (standalone true n E Synth s (map embed es))); simpl in *;
      destruct (sig_accepts E s es); congruence.
  - apply Hc.
Qed.

Lemma standalone_no_oof : forall n E m s es', depth_list es' <= n ->
  fst (standalone true n E m s es') <> OOF.
Proof.
  intros n E m s es' Hes. unfold standalone, chk_at. apply call_decl_no_oof.
  intros x t Hx. apply enough_fuel. pose proof (depth_list_in es' x Hx). lia.
Qed.

Lemma first_match_ref : forall n E m f g vs es i s,
  nth_error (funs E) f = Some (FOver vs) -> nth_error (funs E) g = Some (FDecl s) ->
  depth_list (map embed es) <= n ->
  nth_error vs i = Some s ->
  accepts_sig E m s es = true ->
  (forall j s', j < i -> nth_error vs j = Some s' -> accepts_sig E m s' es = false) ->
  fst (tc true (S n) E m (ECall f (map embed es))) = fst (tc true (S n) E m (ECall g (map embed es))) /\
  is_ok (fst (tc true (S n) E m (ECall f (map embed es)))) = true.
Proof.
  intros n E m f g vs es i s Hf Hg Hes Hn Hacc Hprev.
  assert (HL : least_accepting_variant true n E m vs (map embed es) i s).
  { split; [exact Hn|]. split.
    - intro H. pose proof (standalone_is_ok n E m s es Hes) as H1. rewrite H, Hacc in H1. discriminate.
    - intros j s' Hj Hn'. pose proof (standalone_is_ok n E m s' es Hes) as H1.
      rewrite (Hprev j s' Hj Hn') in H1. pose proof (standalone_no_oof n E m s' (map embed es) Hes) as H2.
      destruct (fst (standalone true n E m s' (map embed es))); simpl in H1; congruence. }
  split.
  - apply (first_match_direct_call true eq_refl n E m f g vs (map embed es) i s Hf Hg HL).
  - rewrite (first_match_call true eq_refl n E m f vs (map embed es) i s Hf HL). simpl.
    rewrite (standalone_is_ok n E m s es Hes). exact Hacc.
Qed.
