(** C02 — executable model of guppylang_internals/cfg/builder.py over the extended syntax of
    [V.C02.Ast] (model file, no proofs).

    Same construction as [V.C03.Builder] (state monad over the list of blocks and the
    [%tmp] counter, block numbers and temporaries allocated in the order of the Python code),
    extended by: assignment targets (built by [ExprBuilder], props/C02/fix-2.patch),
    multi-target / augmented / annotated assignments, [for] loops (the template of
    [visit_For]), nested function definitions (recursive [CFGBuilder().build], the CFG is
    stored in a side table), comprehensions ([desugar_comprehension] incl. the
    illegal-expression check; conditions and targets are built too, props/C02/fix-3.patch),
    [comptime(...)], unsupported statements.

    Errors are the *classes* the real builder raises:
      user errors   ErrLoopElse ErrUnsupportedStmt ErrIllegalInComp ErrEmptyComptime
                    ErrExpectedReturn                       (GuppyError with a span)
      crashes       ErrNoLoop  (InternalGuppyError "Break/Continue BB not defined")
                    ErrInternal (reachability ran out of fuel; cannot happen)
      ErrUnmodelled the model declines: a chained comparison whose middle operand contains a
                    lifted construct or a comprehension (the real builder visits that shared,
                    in-place mutated node twice; same boundary as V.C03.Builder). *)
From Coq Require Import ZArith List Bool.
From V.C03 Require Import PyAst.
From V.C02 Require Import Ast.
Import ListNotations.

Inductive berr :=
| ErrLoopElse | ErrUnsupportedStmt | ErrIllegalInComp | ErrEmptyComptime | ErrExpectedReturn
| ErrNoLoop | ErrInternal | ErrUnmodelled.

Definition user_error (e : berr) : bool :=
  match e with
  | ErrLoopElse | ErrUnsupportedStmt | ErrIllegalInComp | ErrEmptyComptime | ErrExpectedReturn => true
  | ErrNoLoop | ErrInternal | ErrUnmodelled => false
  end.

Record bstate := mkB { bs_blocks : list block; bs_tmp : nat; bs_nested : list cfg }.

Inductive bres (A : Type) := BOk (a : A) (s : bstate) | BErr (e : berr).
Arguments BOk {A} a s.
Arguments BErr {A} e.

Definition M (A : Type) := bstate -> bres A.
Definition ret {A} (a : A) : M A := fun s => BOk a s.
Definition bind {A B} (m : M A) (f : A -> M B) : M B :=
  fun s => match m s with BOk a s' => f a s' | BErr e => BErr e end.
Definition fail {A} (e : berr) : M A := fun _ => BErr e.
Notation "'LET' x <- m 'IN' f" := (bind m (fun x => f)) (at level 200, x name, m at level 100, f at level 200).
Notation "'DO' m 'THEN' f" := (bind m (fun _ => f)) (at level 200, m at level 100, f at level 200).

Fixpoint upd_nth {A} (i : nat) (f : A -> A) (l : list A) : list A :=
  match l, i with
  | [], _ => []
  | x :: r, O => f x :: r
  | x :: r, S j => x :: upd_nth j f r
  end.

Definition add_succ (n : nat) (b : block) : block :=
  mkBlock (b_stmts b) (b_pred b) (b_succs b ++ [n]) (b_dummy b) (b_reach b).
Definition add_dummy (n : nat) (b : block) : block :=
  mkBlock (b_stmts b) (b_pred b) (b_succs b) (b_dummy b ++ [n]) (b_reach b).
Definition push_stmt (s : bstmt) (b : block) : block :=
  mkBlock (b_stmts b ++ [s]) (b_pred b) (b_succs b) (b_dummy b) (b_reach b).
Definition put_pred (p : expr) (b : block) : block :=
  mkBlock (b_stmts b) (Some p) (b_succs b) (b_dummy b) (b_reach b).
Definition put_reach (r : bool) (b : block) : block :=
  mkBlock (b_stmts b) (b_pred b) (b_succs b) (b_dummy b) r.

Definition modify (i : nat) (f : block -> block) : M unit :=
  fun s => BOk tt (mkB (upd_nth i f (bs_blocks s)) (bs_tmp s) (bs_nested s)).

Definition new_bb : M nat :=
  fun s => BOk (length (bs_blocks s)) (mkB (bs_blocks s ++ [empty_block]) (bs_tmp s) (bs_nested s)).
Definition link (src tgt : nat) : M unit := modify src (add_succ tgt).
Definition dummy_link (src tgt : nat) : M unit := modify src (add_dummy tgt).
Definition add_stmt (bb : nat) (s : bstmt) : M unit := modify bb (push_stmt s).
Definition fresh_tmp : M nat :=
  fun s => BOk (bs_tmp s) (mkB (bs_blocks s) (S (bs_tmp s)) (bs_nested s)).

Definition close_branch (bb : nat) (p : expr) (f t : nat) : M unit :=
  DO modify bb (put_pred p) THEN DO link bb f THEN link bb t.

Definition neg_const (c : const) : option const :=
  match c with
  | CInt z => Some (CInt (- z))
  | CBool b => Some (CInt (- Z.b2z b))
  | CNone => None
  end.

(** Constructs that make [ExprBuilder] create blocks, statements or temporaries. *)
Fixpoint lift_free (e : expr) : bool :=
  match e with
  | EConst _ | EName _ => true
  | EUnary _ a => lift_free a
  | EBin _ a b => lift_free a && lift_free b
  | ECmp l (CLast _ r) => lift_free l && lift_free r
  | ECmp _ (CMore _ _ _) => false
  | EBool _ _ _ | EIf _ _ _ | EWalrus _ _ => false
  | ECall f args => lift_free f && lift_free_list args
  | ETuple es | EList es => lift_free_list es
  | ESub v i => lift_free v && lift_free i
  | EAttr v _ => lift_free v
  | EStarred a => lift_free a
  | EComp _ _ _ | EDesugared _ _ _ => false
  | EComptime args => match args with ENil => false | _ => true end
  | EOther _ es => lift_free_list es
  | EMakeIter a | EIterNext a => lift_free a
  end
with lift_free_list (es : exprs) : bool :=
  match es with ENil => true | ECons e r => lift_free e && lift_free_list r end.

(** One visit of [ExprBuilder] over a lift-free node: every [-c] whose operand is a constant *at
    the time of the visit* is replaced by the constant (children are rewritten in place first,
    but the [match] on the operand is done before them, so [-(-2)] becomes [-(C -2)], not [2]).
    The middle operand of a chained comparison is shared by two Compare nodes and visited twice:
    the first comparison gets [fold_neg m], the second [fold_neg (fold_neg m)] (e.g. [a < -(-2) < b]
    is built as [a < -(-2)] and [2 < b]; found by the tie under VERIF_SEED=9). *)
Fixpoint fold_neg (e : expr) : expr :=
  match e with
  | EConst _ | EName _ => e
  | EUnary op a =>
      match op, a with
      | UNeg, EConst c => match neg_const c with Some c' => EConst c' | None => EUnary op (fold_neg a) end
      | _, _ => EUnary op (fold_neg a)
      end
  | EBin op a b => EBin op (fold_neg a) (fold_neg b)
  | ECmp l rest => ECmp (fold_neg l) (fold_neg_ctail rest)
  | EBool op a b => EBool op (fold_neg a) (fold_neg b)
  | EIf c a b => EIf (fold_neg c) (fold_neg a) (fold_neg b)
  | EWalrus x a => EWalrus x (fold_neg a)
  | ECall f args => ECall (fold_neg f) (fold_neg_list args)
  | ETuple es => ETuple (fold_neg_list es)
  | EList es => EList (fold_neg_list es)
  | ESub v i => ESub (fold_neg v) (fold_neg i)
  | EAttr v a => EAttr (fold_neg v) a
  | EStarred a => EStarred (fold_neg a)
  | EComp _ _ _ | EDesugared _ _ _ | EComptime _ => e
  | EOther k es => EOther k (fold_neg_list es)
  | EMakeIter a => EMakeIter (fold_neg a)
  | EIterNext a => EIterNext (fold_neg a)
  end
with fold_neg_list (es : exprs) : exprs :=
  match es with ENil => ENil | ECons e r => ECons (fold_neg e) (fold_neg_list r) end
with fold_neg_ctail (t : ctail) : ctail :=
  match t with
  | CLast op e => CLast op (fold_neg e)
  | CMore op e r => CMore op (fold_neg e) (fold_neg_ctail r)
  end.

(** The middle operand is ONE Python object held by both Compare nodes.  A visit returns either a
    fresh constant (outermost [-c]: the object is left alone) or the object itself, rewritten in
    place.  If the first visit returned the object and the second visit rewrites it again, the first
    comparison sees that too: [a < -(-(-2)) < b] ends up as [a < -(2)] and [-(2) < b], while
    [a < -(-2) < b] ends up as [a < -(-2)] and [2 < b] (second visit returned a fresh constant). *)
Definition is_neg_const (e : expr) : bool :=
  match e with
  | EUnary UNeg (EConst c) => match neg_const c with Some _ => true | None => false end
  | _ => false
  end.
Definition alias_fix (a : expr) : expr := if is_neg_const a then a else fold_neg a.

(** [is_illegal_in_list_comp], searched over the whole comprehension node by [find_nodes]. *)
Fixpoint has_illegal (e : expr) : bool :=
  match e with
  | EConst _ | EName _ => false
  | EUnary _ a => has_illegal a
  | EBin _ a b => has_illegal a || has_illegal b
  | ECmp l (CLast _ r) => has_illegal l || has_illegal r
  | ECmp _ (CMore _ _ _) => true
  | EBool _ _ _ | EIf _ _ _ | EWalrus _ _ => true
  | ECall f args => has_illegal f || has_illegal_list args
  | ETuple es | EList es => has_illegal_list es
  | ESub v i => has_illegal v || has_illegal i
  | EAttr v _ => has_illegal v
  | EStarred a => has_illegal a
  | EComp _ elt gs | EDesugared _ elt gs => has_illegal elt || has_illegal_gens gs
  | EComptime args => has_illegal_list args
  | EOther _ es => has_illegal_list es
  | EMakeIter a | EIterNext a => has_illegal a
  end
with has_illegal_list (es : exprs) : bool :=
  match es with ENil => false | ECons e r => has_illegal e || has_illegal_list r end
with has_illegal_gens (gs : gens) : bool :=
  match gs with
  | GNil => false
  | GCons t it ifs r => has_illegal t || has_illegal it || has_illegal_list ifs || has_illegal_gens r
  end.

Definition tmp_assign (tmp : nat) (e : expr) : bstmt := BAssign (ECons (EName (VT tmp)) ENil) e.

Definition gen_branch (v : nat -> M (expr * nat)) (bb t f : nat) : M unit :=
  LET r <- v bb IN close_branch (snd r) (fst r) f t.

Definition bx_unary (op : unop) (a : expr) (ra : nat -> M (expr * nat)) (bb : nat) : M (expr * nat) :=
  match op, a with
  | UNeg, EConst c =>
      match neg_const c with
      | Some c' => ret (EConst c', bb)
      | None => LET r <- ra bb IN ret (EUnary op (fst r), snd r)
      end
  | _, _ => LET r <- ra bb IN ret (EUnary op (fst r), snd r)
  end.
Definition bx_1 (k : expr -> expr) (ra : nat -> M (expr * nat)) (bb : nat) : M (expr * nat) :=
  LET r <- ra bb IN ret (k (fst r), snd r).
Definition bx_2 (k : expr -> expr -> expr) (ra rb : nat -> M (expr * nat)) (bb : nat) : M (expr * nat) :=
  LET r1 <- ra bb IN LET r2 <- rb (snd r1) IN ret (k (fst r1) (fst r2), snd r2).
Definition bx_walrus (x : nat) (ra : nat -> M (expr * nat)) (bb : nat) : M (expr * nat) :=
  LET r <- ra bb IN
  DO add_stmt (snd r) (BAssign (ECons (EName (VU x)) ENil) (fst r)) THEN ret (EName (VU x), snd r).
Definition bx_list (k : exprs -> expr) (ras : nat -> M (exprs * nat)) (bb : nat) : M (expr * nat) :=
  LET r <- ras bb IN ret (k (fst r), snd r).
Definition bx_call (rf : nat -> M (expr * nat)) (ras : nat -> M (exprs * nat)) (bb : nat) : M (expr * nat) :=
  LET r1 <- rf bb IN LET r2 <- ras (snd r1) IN ret (ECall (fst r1) (fst r2), snd r2).

Definition lift_bool (br : nat -> nat -> nat -> M unit) (bb : nat) : M (expr * nat) :=
  LET t <- new_bb IN LET f <- new_bb IN
  DO br bb t f THEN
  LET tmp <- fresh_tmp IN
  DO add_stmt t (tmp_assign tmp (EConst (CBool true))) THEN
  DO add_stmt f (tmp_assign tmp (EConst (CBool false))) THEN
  LET m <- new_bb IN DO link t m THEN DO link f m THEN
  ret (EName (VT tmp), m).
Definition br_bool (op : boolop) (ba bb_ : nat -> nat -> nat -> M unit) (bb t f : nat) : M unit :=
  LET extra <- new_bb IN
  DO match op with
     | BoAnd => ba bb extra f
     | BoOr => ba bb t extra
     end THEN
  bb_ extra t f.

Fixpoint build_expr (e : expr) (bb : nat) {struct e} : M (expr * nat) :=
  match e with
  | EConst _ | EName _ => ret (e, bb)
  | EUnary op a => bx_unary op a (build_expr a) bb
  | EBin op a b => bx_2 (EBin op) (build_expr a) (build_expr b) bb
  | ECmp l rest =>
      match rest with
      | CLast op r => bx_2 (fun x y => ECmp x (CLast op y)) (build_expr l) (build_expr r) bb
      | CMore _ _ _ =>
          lift_bool (fun bb t f =>
            LET extra <- new_bb IN
            LET r <- build_expr l bb IN
            build_ctail (fst r) rest (snd r) (Some extra) t f) bb
      end
  | EBool op a b => lift_bool (br_bool op (build_branch a) (build_branch b)) bb
  | EIf c a b =>
      LET ib <- new_bb IN LET eb <- new_bb IN
      DO build_branch c bb ib eb THEN
      LET ra <- build_expr a ib IN
      LET rb <- build_expr b eb IN
      LET tmp <- fresh_tmp IN
      DO add_stmt (snd ra) (tmp_assign tmp (fst ra)) THEN
      DO add_stmt (snd rb) (tmp_assign tmp (fst rb)) THEN
      LET m <- new_bb IN DO link (snd ra) m THEN DO link (snd rb) m THEN
      ret (EName (VT tmp), m)
  | EWalrus x a => bx_walrus x (build_expr a) bb
  | ECall f args => bx_call (build_expr f) (build_exprs args) bb
  | ETuple es => bx_list ETuple (build_exprs es) bb
  | EList es => bx_list EList (build_exprs es) bb
  | ESub v i => bx_2 ESub (build_expr v) (build_expr i) bb
  | EAttr v a => bx_1 (fun x => EAttr x a) (build_expr v) bb
  | EStarred a => bx_1 EStarred (build_expr a) bb
  | EComp k elt gs =>
      (* desugar_comprehension *)
      if has_illegal elt || has_illegal_gens gs then fail ErrIllegalInComp
      else
        LET rg <- build_gens gs bb IN
        LET re <- build_expr elt (snd rg) IN
        ret (EDesugared k (fst re) (fst rg), snd re)
  | EDesugared _ _ _ => ret (e, bb)
  | EComptime args =>
      match args with ENil => fail ErrEmptyComptime | _ => ret (e, bb) end
  | EOther k es => bx_list (EOther k) (build_exprs es) bb
  | EMakeIter a => bx_1 EMakeIter (build_expr a) bb
  | EIterNext a => bx_1 EIterNext (build_expr a) bb
  end
with build_exprs (es : exprs) (bb : nat) {struct es} : M (exprs * nat) :=
  match es with
  | ENil => ret (ENil, bb)
  | ECons e r =>
      LET r1 <- build_expr e bb IN
      LET r2 <- build_exprs r (snd r1) IN
      ret (ECons (fst r1) (fst r2), snd r2)
  end
(* one DesugaredGenerator per generator: iterator, target, conditions built, then the
   iterator variable is drawn from tmp_vars; it is recorded as [ETuple [%tmp; MakeIter iter]]
   in the iterator position *)
with build_gens (gs : gens) (bb : nat) {struct gs} : M (gens * nat) :=
  match gs with
  | GNil => ret (GNil, bb)
  | GCons t it ifs r =>
      LET ri <- build_expr it bb IN
      LET rt <- build_expr t (snd ri) IN
      LET rc <- build_exprs ifs (snd rt) IN
      LET itv <- fresh_tmp IN
      LET rr <- build_gens r (snd rc) IN
      ret (GCons (fst rt) (ETuple (ECons (EName (VT itv)) (ECons (EMakeIter (fst ri)) ENil))) (fst rc) (fst rr),
           snd rr)
  end
with build_ctail (l' : expr) (rest : ctail) (bb : nat) (extra : option nat) (t f : nat) {struct rest} : M unit :=
  match rest with
  | CLast op r =>
      LET r2 <- build_expr r bb IN
      close_branch (snd r2) (ECmp l' (CLast op (fst r2))) f t
  | CMore op m rest' =>
      if lift_free m then
        LET ex <- match extra with Some x => ret x | None => new_bb end IN
        LET r2 <- build_expr m bb IN
        DO close_branch (snd r2) (ECmp l' (CLast op (alias_fix (fst r2)))) f ex THEN
        build_ctail (fold_neg (fold_neg m)) rest' ex None t f
      else fail ErrUnmodelled
  end
with build_branch (e : expr) (bb t f : nat) {struct e} : M unit :=
  match e with
  | EConst (CBool b) =>
      DO link bb (if b then t else f) THEN dummy_link bb (if b then f else t)
  | EUnary UNot a => build_branch a bb f t
  | EBool op a b => br_bool op (build_branch a) (build_branch b) bb t f
  | EIf c a b =>
      LET tb <- new_bb IN LET eb <- new_bb IN
      DO build_branch c bb tb eb THEN
      DO build_branch a tb t f THEN
      build_branch b eb t f
  (* generic_visit: build as a regular expression and branch on the result *)
  | EConst _ | EName _ => gen_branch (fun bb => ret (e, bb)) bb t f
  | EUnary op a => gen_branch (bx_unary op a (build_expr a)) bb t f
  | EBin op a b => gen_branch (bx_2 (EBin op) (build_expr a) (build_expr b)) bb t f
  | ECmp l rest =>
      match rest with
      | CLast op r =>
          gen_branch (bx_2 (fun x y => ECmp x (CLast op y)) (build_expr l) (build_expr r)) bb t f
      | CMore _ _ _ =>
          LET extra <- new_bb IN
          LET r <- build_expr l bb IN
          build_ctail (fst r) rest (snd r) (Some extra) t f
      end
  | EWalrus x a => gen_branch (bx_walrus x (build_expr a)) bb t f
  | ECall fn args => gen_branch (bx_call (build_expr fn) (build_exprs args)) bb t f
  | ETuple es => gen_branch (bx_list ETuple (build_exprs es)) bb t f
  | EList es => gen_branch (bx_list EList (build_exprs es)) bb t f
  | ESub v i => gen_branch (bx_2 ESub (build_expr v) (build_expr i)) bb t f
  | EAttr v a => gen_branch (bx_1 (fun x => EAttr x a) (build_expr v)) bb t f
  | EStarred a => gen_branch (bx_1 EStarred (build_expr a)) bb t f
  | EComp k elt gs =>
      gen_branch (fun bb =>
        if has_illegal elt || has_illegal_gens gs then fail ErrIllegalInComp
        else
          LET rg <- build_gens gs bb IN
          LET re <- build_expr elt (snd rg) IN
          ret (EDesugared k (fst re) (fst rg), snd re)) bb t f
  | EDesugared _ _ _ => gen_branch (fun bb => ret (e, bb)) bb t f
  | EComptime args =>
      gen_branch (fun bb => match args with ENil => fail ErrEmptyComptime | _ => ret (e, bb) end) bb t f
  | EOther k es => gen_branch (bx_list (EOther k) (build_exprs es)) bb t f
  | EMakeIter a => gen_branch (bx_1 EMakeIter (build_expr a)) bb t f
  | EIterNext a => gen_branch (bx_1 EIterNext (build_expr a)) bb t f
  end.

Record jumps := mkJ { j_ret : nat; j_cont : option nat; j_brk : option nat }.

Definition is_tmp_name (e : expr) : bool :=
  match e with EName (VT _) => true | _ => false end.

(** [BaseCFG.update_reachable] (see V.C03.Builder). *)
Definition nth_reach (m : list bool) (i : nat) : bool := nth i m false.

Fixpoint reach_wl (fuel : nat) (g : list block) (work : list nat) (seen : list bool) : option (list bool) :=
  match work with
  | [] => Some seen
  | i :: rest =>
    match fuel with
    | O => None
    | S f =>
      if nth_reach seen i then reach_wl f g rest seen
      else match nth_error g i with
           | Some b => reach_wl f g (b_succs b ++ rest) (upd_nth i (fun _ => true) seen)
           | None => reach_wl f g rest seen
           end
    end
  end.

Definition edge_count (g : list block) : nat :=
  fold_right (fun b n => length (b_succs b) + n) 0 g.

Definition mark_reachable (g : list block) : option (list block) :=
  match reach_wl (2 + edge_count g + length g) g [entry_idx] (map (fun _ => false) g) with
  | Some seen => Some (map (fun '(b, r) => put_reach r b) (combine g seen))
  | None => None
  end.

Definition blk_reach (g : list block) (i : nat) : bool :=
  match nth_error g i with Some b => b_reach b | None => false end.

Definition prune (g : list block) : list block :=
  map (fun b =>
    mkBlock (b_stmts b) (b_pred b)
            (if b_reach b then b_succs b else filter (fun s => negb (blk_reach g s)) (b_succs b))
            (filter (fun s => negb (blk_reach g s)) (b_dummy b))
            (b_reach b)) g.

(** the part of [CFGBuilder.build] after [visit_stmts] *)
Definition finalize (blocks : list block) (final : option nat) (returns_none : bool) : cfg + berr :=
  match mark_reachable blocks with
  | None => inr ErrInternal
  | Some g1 =>
    match final with
    | None => inl (prune g1)
    | Some fb =>
      let g2 := upd_nth fb (add_succ exit_idx) g1 in
      if blk_reach g2 fb then
        if returns_none then inl (prune (upd_nth exit_idx (put_reach true) g2))
        else inr ErrExpectedReturn
      else inl (prune g2)
    end
  end.

(* attribute names used by the [for] template *)
Definition attr_is_some : nat := 900.
Definition attr_unwrap_nothing : nat := 901.
Definition attr_unwrap : nat := 902.
Definition mcall (x : nat) (a : nat) : expr := ECall (EAttr (EName (VT x)) a) ENil.
Definition one (e : expr) : exprs := ECons e ENil.

(* _build_node_value: the value first, then the targets (fix-2) *)
Fixpoint visit_stmt (s : stmt) (bb : nat) (j : jumps) {struct s} : M (option nat) :=
  match s with
  | SAssign ts e =>
      LET r <- build_expr e bb IN
      LET rt <- build_exprs ts (snd r) IN
      DO add_stmt (snd rt) (BAssign (fst rt) (fst r)) THEN ret (Some (snd rt))
  | SAug t op e =>
      LET r <- build_expr e bb IN
      LET rt <- build_expr t (snd r) IN
      DO add_stmt (snd rt) (BAug (fst rt) op (fst r)) THEN ret (Some (snd rt))
  | SAnn t (Some e) =>
      LET r <- build_expr e bb IN
      LET rt <- build_expr t (snd r) IN
      DO add_stmt (snd rt) (BAnn (fst rt) (Some (fst r))) THEN ret (Some (snd rt))
  | SAnn t None =>
      LET rt <- build_expr t bb IN
      DO add_stmt (snd rt) (BAnn (fst rt) None) THEN ret (Some (snd rt))
  | SExpr e =>
      LET r <- build_expr e bb IN
      DO (if is_tmp_name (fst r) then ret tt else add_stmt (snd r) (BExpr (fst r))) THEN
      ret (Some (snd r))
  | SIf c body orelse =>
      LET tb <- new_bb IN LET eb <- new_bb IN
      DO build_branch c bb tb eb THEN
      LET te <- visit_stmts body tb (Some tb) j IN
      LET ee <- visit_stmts orelse eb (Some eb) j IN
      match te, ee with
      | None, _ => ret ee
      | _, None => ret te
      | Some a, Some b => LET m <- new_bb IN DO link a m THEN DO link b m THEN ret (Some m)
      end
  | SWhile c body orelse =>
      match orelse with
      | SCons _ _ => fail ErrLoopElse
      | SNil =>
        LET head <- new_bb IN DO link bb head THEN
        LET body_bb <- new_bb IN LET tail <- new_bb IN
        DO build_branch c head body_bb tail THEN
        LET r <- visit_stmts body body_bb (Some body_bb) (mkJ (j_ret j) (Some head) (Some tail)) IN
        DO match r with Some e => link e head | None => ret tt end THEN
        ret (Some tail)
      end
  | SFor t it body orelse =>
      match orelse with
      | SCons _ _ => fail ErrLoopElse
      | SNil =>
        LET itv <- fresh_tmp IN LET resv <- fresh_tmp IN
        (* it = make_iter *)
        LET r <- build_expr it bb IN
        DO add_stmt (snd r) (BAssign (one (EName (VT itv))) (EMakeIter (fst r))) THEN
        (* while True: *)
        LET head <- new_bb IN DO link (snd r) head THEN
        LET body_bb <- new_bb IN LET tail <- new_bb IN
        DO link head body_bb THEN DO dummy_link head tail THEN
        (*   res = iter_next *)
        DO add_stmt body_bb (BAssign (one (EName (VT resv))) (EIterNext (EName (VT itv)))) THEN
        (*   if not res.is_some(): res.unwrap_nothing(); break *)
        LET then_bb <- new_bb IN LET else_bb <- new_bb IN
        DO close_branch body_bb (mcall resv attr_is_some) then_bb else_bb THEN
        DO add_stmt then_bb (BExpr (mcall resv attr_unwrap_nothing)) THEN
        DO link then_bb tail THEN
        (*   x, it = res.unwrap() *)
        LET rt <- build_expr t else_bb IN
        DO add_stmt (snd rt) (BAssign (one (ETuple (ECons (fst rt) (one (EName (VT itv)))))) (mcall resv attr_unwrap)) THEN
        (*   body *)
        LET r2 <- visit_stmts body (snd rt) (Some (snd rt)) (mkJ (j_ret j) (Some head) (Some tail)) IN
        DO match r2 with Some e => link e head | None => ret tt end THEN
        ret (Some tail)
      end
  | SBreak => match j_brk j with Some b => DO link bb b THEN ret None | None => fail ErrNoLoop end
  | SContinue => match j_cont j with Some b => DO link bb b THEN ret None | None => fail ErrNoLoop end
  | SPass => ret (Some bb)
  | SReturn None => DO add_stmt bb (BReturn None) THEN DO link bb (j_ret j) THEN ret None
  | SReturn (Some e) =>
      LET r <- build_expr e bb IN
      DO add_stmt (snd r) (BReturn (Some (fst r))) THEN DO link (snd r) (j_ret j) THEN ret None
  | SDef body rn =>
      fun s =>
        match visit_stmts body entry_idx (Some entry_idx) (mkJ exit_idx None None)
                (mkB [empty_block; empty_block] (bs_tmp s) (bs_nested s)) with
        | BErr e => BErr e
        | BOk final s' =>
          match finalize (bs_blocks s') final rn with
          | inr e => BErr e
          | inl g =>
            (DO add_stmt bb (BDef (length (bs_nested s'))) THEN ret (Some bb))
              (mkB (bs_blocks s) (bs_tmp s') (bs_nested s' ++ [g]))
          end
        end
  | SOther _ => fail ErrUnsupportedStmt
  end
with visit_stmts (ss : stmts) (prev : nat) (cur : option nat) (j : jumps) {struct ss} : M (option nat) :=
  match ss with
  | SNil => ret cur
  | SCons s r =>
      LET bb <- match cur with
                | Some b => ret b
                | None => LET b <- new_bb IN DO dummy_link prev b THEN ret b
                end IN
      LET r1 <- visit_stmt s bb j IN
      visit_stmts r bb r1 j
  end.

Definition init_state : bstate := mkB [empty_block; empty_block] 0 [].

(** Result: the CFG of the function and the table of nested-function CFGs. *)
Inductive outcome := Built (g : cfg) (nested : list cfg) | Rejected (e : berr).

Definition build (p : stmts) (returns_none : bool) : outcome :=
  match visit_stmts p entry_idx (Some entry_idx) (mkJ exit_idx None None) init_state with
  | BErr e => Rejected e
  | BOk final s =>
    match finalize (bs_blocks s) final returns_none with
    | inr e => Rejected e
    | inl g => Built g (bs_nested s)
    end
  end.

(** The shape on which the model declines ([ErrUnmodelled]): some chained comparison has a
    middle operand that is not [lift_free].  (Over-approximation inside comprehensions, where
    chained comparisons are rejected anyway.) *)
Fixpoint chain_mid (e : expr) : bool :=
  match e with
  | EConst _ | EName _ => false
  | EUnary _ a => chain_mid a
  | EBin _ a b => chain_mid a || chain_mid b
  | ECmp l rest => chain_mid l || chain_mid_ctail rest
  | EBool _ a b => chain_mid a || chain_mid b
  | EIf c a b => chain_mid c || chain_mid a || chain_mid b
  | EWalrus _ a => chain_mid a
  | ECall f args => chain_mid f || chain_mid_list args
  | ETuple es | EList es => chain_mid_list es
  | ESub v i => chain_mid v || chain_mid i
  | EAttr v _ => chain_mid v
  | EStarred a => chain_mid a
  | EComp _ elt gs => chain_mid elt || chain_mid_gens gs
  | EDesugared _ _ _ | EComptime _ => false
  | EOther _ es => chain_mid_list es
  | EMakeIter a | EIterNext a => chain_mid a
  end
with chain_mid_list (es : exprs) : bool :=
  match es with ENil => false | ECons e r => chain_mid e || chain_mid_list r end
with chain_mid_ctail (ct : ctail) : bool :=
  match ct with
  | CLast _ e => chain_mid e
  | CMore _ m r => negb (lift_free m) || chain_mid m || chain_mid_ctail r
  end
with chain_mid_gens (gs : gens) : bool :=
  match gs with
  | GNil => false
  | GCons t it ifs r => chain_mid t || chain_mid it || chain_mid_list ifs || chain_mid_gens r
  end.

Definition chain_mid_opt (o : option expr) : bool :=
  match o with Some e => chain_mid e | None => false end.

Fixpoint chain_mid_stmt (s : stmt) : bool :=
  match s with
  | SAssign ts e => chain_mid_list ts || chain_mid e
  | SAug t _ e => chain_mid t || chain_mid e
  | SAnn t e => chain_mid t || chain_mid_opt e
  | SExpr e => chain_mid e
  | SIf c b o => chain_mid c || chain_mid_stmts b || chain_mid_stmts o
  | SWhile c b o => chain_mid c || chain_mid_stmts b || chain_mid_stmts o
  | SFor t it b o => chain_mid t || chain_mid it || chain_mid_stmts b || chain_mid_stmts o
  | SBreak | SContinue | SPass | SOther _ => false
  | SReturn e => chain_mid_opt e
  | SDef b _ => chain_mid_stmts b
  end
with chain_mid_stmts (ss : stmts) : bool :=
  match ss with SNil => false | SCons s r => chain_mid_stmt s || chain_mid_stmts r end.
