(** C02 — the builder invariant: every statement, branch predicate and assignment target the
    builder model puts into a block is [simple] (no node the expression checker crashes on). *)
From Coq Require Import ZArith List Bool Lia.
From V.C03 Require Import PyAst.
From V.C02 Require Import Ast Builder.
Import ListNotations.

(* ------------------------------------------------------------------ list facts *)
Lemma forallb_upd_nth : forall A (P : A -> bool) (f : A -> A) i l,
  forallb P l = true -> (forall x, P x = true -> P (f x) = true) -> forallb P (upd_nth i f l) = true.
Proof.
  induction i; destruct l; simpl; intros; auto.
  - apply andb_true_iff in H as [H1 H2]. rewrite H0, H2; auto.
  - apply andb_true_iff in H as [H1 H2]. rewrite H1, IHi; auto.
Qed.

Lemma forallb_snoc : forall A (P : A -> bool) l x,
  forallb P l = true -> P x = true -> forallb P (l ++ [x]) = true.
Proof. intros. rewrite forallb_app, H. simpl. rewrite H0. auto. Qed.

(* ------------------------------------------------------------------ state invariant *)
Definition st_ok (s : bstate) : Prop :=
  simple_cfg (bs_blocks s) = true /\ forallb simple_cfg (bs_nested s) = true.

Definition pres {A} (m : M A) (Q : A -> Prop) : Prop :=
  forall s a s', st_ok s -> m s = BOk a s' -> st_ok s' /\ Q a.

Lemma pres_ret : forall A (a : A) (Q : A -> Prop), Q a -> pres (ret a) Q.
Proof. unfold pres, ret. intros. inversion H1; subst; auto. Qed.

Lemma pres_fail : forall A e (Q : A -> Prop), pres (fail e) Q.
Proof. unfold pres, fail. intros. discriminate. Qed.

Lemma pres_bind : forall A B (m : M A) (f : A -> M B) (Q : A -> Prop) (R : B -> Prop),
  pres m Q -> (forall a, Q a -> pres (f a) R) -> pres (bind m f) R.
Proof.
  unfold pres, bind. intros A B m f Q R Hm Hf s b s' Hs H.
  destruct (m s) as [a s1|] eqn:E; [|discriminate].
  destruct (Hm _ _ _ Hs E) as [H1 H2]. eapply Hf; eauto.
Qed.

Lemma pres_weaken : forall A (m : M A) (Q R : A -> Prop),
  pres m Q -> (forall a, Q a -> R a) -> pres m R.
Proof. unfold pres. intros. destruct (H _ _ _ H1 H2). auto. Qed.

Lemma pres_modify : forall i f,
  (forall b, simple_block b = true -> simple_block (f b) = true) ->
  pres (modify i f) (fun _ => True).
Proof.
  unfold pres, modify. intros i f Hf s a s' [H1 H2] H. inversion H; subst. split; auto.
  split; simpl; auto. apply forallb_upd_nth; auto.
Qed.

Lemma pres_new_bb : pres new_bb (fun _ => True).
Proof.
  unfold pres, new_bb. intros s a s' [H1 H2] H. inversion H; subst. split; auto.
  split; simpl; auto. apply forallb_snoc; auto.
Qed.

Lemma pres_fresh_tmp : pres fresh_tmp (fun _ => True).
Proof. unfold pres, fresh_tmp. intros s a s' [H1 H2] H. inversion H; subst. split; auto. split; auto. Qed.

Lemma pres_link : forall a b, pres (link a b) (fun _ => True).
Proof. intros. apply pres_modify. intros [] H; auto. Qed.

Lemma pres_dummy_link : forall a b, pres (dummy_link a b) (fun _ => True).
Proof. intros. apply pres_modify. intros [] H; auto. Qed.

Lemma pres_add_stmt : forall bb st, simple_bstmt st = true -> pres (add_stmt bb st) (fun _ => True).
Proof.
  intros. apply pres_modify. intros [ss p su du r] Hb. unfold simple_block in *. simpl in *.
  apply andb_true_iff in Hb as [Hb1 Hb2]. rewrite forallb_app, Hb1, Hb2. simpl. rewrite H. auto.
Qed.

Lemma pres_put_pred : forall bb p, simple p = true -> pres (modify bb (put_pred p)) (fun _ => True).
Proof.
  intros. apply pres_modify. intros [ss q su du r] Hb. unfold simple_block in *. simpl in *.
  apply andb_true_iff in Hb as [Hb1 Hb2]. rewrite Hb1, H. auto.
Qed.

Lemma pres_close_branch : forall bb p f t, simple p = true -> pres (close_branch bb p f t) (fun _ => True).
Proof.
  intros. unfold close_branch.
  eapply pres_bind; [apply pres_put_pred; auto|]. intros _ _.
  eapply pres_bind; [apply pres_link|]. intros _ _. apply pres_link.
Qed.

Tactic Notation "pb" "by" tactic(t) := eapply pres_bind; [solve [t] | intros ? ?; cbv beta in *].

(* ------------------------------------------------------------------ expression combinators *)
Definition EX (v : nat -> M (expr * nat)) : Prop := forall bb, pres (v bb) (fun r => simple (fst r) = true).
Definition EXS (v : nat -> M (exprs * nat)) : Prop := forall bb, pres (v bb) (fun r => simple_list (fst r) = true).
Definition BR (v : nat -> nat -> nat -> M unit) : Prop := forall bb t f, pres (v bb t f) (fun _ => True).

Lemma EX_ret_self : forall e, simple e = true -> EX (fun bb => ret (e, bb)).
Proof. intros e H bb. apply pres_ret. auto. Qed.

Lemma pres_gen_branch : forall v, EX v -> BR (gen_branch v).
Proof.
  intros v Hv bb t f. unfold gen_branch. pb by (apply Hv). apply pres_close_branch. auto.
Qed.

Lemma EX_unary : forall op a, EX (build_expr a) -> EX (bx_unary op a (build_expr a)).
Proof.
  intros op a Ha bb. unfold bx_unary.
  assert (G : pres (LET r <- build_expr a bb IN ret (EUnary op (fst r), snd r)) (fun r => simple (fst r) = true)).
  { pb by (apply Ha). apply pres_ret. simpl. auto. }
  destruct op; auto. destruct a; auto. destruct (neg_const c); auto. apply pres_ret. auto.
Qed.

Lemma EX_1 : forall k ra, (forall x, simple x = true -> simple (k x) = true) -> EX ra -> EX (bx_1 k ra).
Proof. intros k ra Hk Ha bb. unfold bx_1. pb by (apply Ha). apply pres_ret. simpl. auto. Qed.

Lemma EX_2 : forall k ra rb,
  (forall x y, simple x = true -> simple y = true -> simple (k x y) = true) ->
  EX ra -> EX rb -> EX (bx_2 k ra rb).
Proof.
  intros k ra rb Hk Ha Hb bb. unfold bx_2. pb by (apply Ha). pb by (apply Hb). apply pres_ret. simpl. auto.
Qed.

Lemma EX_list : forall k ras, (forall xs, simple_list xs = true -> simple (k xs) = true) -> EXS ras -> EX (bx_list k ras).
Proof. intros k ras Hk Ha bb. unfold bx_list. pb by (apply Ha). apply pres_ret. simpl. auto. Qed.

Lemma EX_call : forall rf ras, EX rf -> EXS ras -> EX (bx_call rf ras).
Proof.
  intros rf ras Hf Ha bb. unfold bx_call. pb by (apply Hf). pb by (apply Ha). apply pres_ret. simpl.
  rewrite H, H0. auto.
Qed.

Lemma EX_walrus : forall x ra, EX ra -> EX (bx_walrus x ra).
Proof.
  intros x ra Ha bb. unfold bx_walrus. pb by (apply Ha). pb by (apply pres_add_stmt; simpl; rewrite H; auto).
  apply pres_ret. auto.
Qed.

Lemma EX_lift_bool : forall br, BR br -> EX (lift_bool br).
Proof.
  intros br Hb bb. unfold lift_bool.
  pb by (apply pres_new_bb). pb by (apply pres_new_bb). pb by (apply Hb). pb by (apply pres_fresh_tmp).
  pb by (apply pres_add_stmt; auto). pb by (apply pres_add_stmt; auto). pb by (apply pres_new_bb).
  pb by (apply pres_link). pb by (apply pres_link). apply pres_ret. auto.
Qed.

Lemma BR_bool : forall op ba bb_, BR ba -> BR bb_ -> BR (br_bool op ba bb_).
Proof.
  intros op ba bb_ Ha Hb bb t f. unfold br_bool. pb by (apply pres_new_bb).
  pb by (destruct op; apply Ha). apply Hb.
Qed.

Lemma simple_and2 : forall a b, simple a = true -> simple b = true -> simple a && simple b = true.
Proof. intros. rewrite H, H0. auto. Qed.

Ltac fin :=
  repeat match goal with H : ?A -> _, H' : ?A |- _ => specialize (H H') end;
  repeat match goal with H : _ = true |- _ => rewrite H end; auto.

(* ------------------------------------------------------------------ fold_neg of a lift-free node *)
Lemma lift_free_fold_simple_all :
  (forall e, lift_free e = true -> simple (fold_neg e) = true) /\
  (forall es, lift_free_list es = true -> simple_list (fold_neg_list es) = true) /\
  (forall ct l, match ct with CLast _ r => lift_free r | CMore _ _ _ => false end = true ->
                simple l = true -> simple (ECmp l (fold_neg_ctail ct)) = true) /\
  (forall (g : gens), True).
Proof.
  apply expr_mutind; simpl; intros; auto; try discriminate;
    repeat match goal with H : _ && _ = true |- _ => apply andb_true_iff in H as [? ?] end;
    try solve [fin].
  - destruct op; simpl; auto. destruct e; simpl; auto. destruct (neg_const c); simpl; auto.
  - destruct rest; [|discriminate]. apply andb_true_iff in H1 as [? ?]. apply H0; auto.
Qed.

Lemma lift_free_fold_simple : forall e, lift_free e = true -> simple (fold_neg e) = true.
Proof. apply lift_free_fold_simple_all. Qed.

Lemma simple_fold_all :
  (forall e, simple e = true -> simple (fold_neg e) = true) /\
  (forall es, simple_list es = true -> simple_list (fold_neg_list es) = true) /\
  (forall ct l, match ct with CLast _ r => simple r | CMore _ _ _ => false end = true ->
                simple l = true -> simple (ECmp l (fold_neg_ctail ct)) = true) /\
  (forall (g : gens), True).
Proof.
  apply expr_mutind; simpl; intros; auto; try discriminate;
    repeat match goal with H : _ && _ = true |- _ => apply andb_true_iff in H as [? ?] end;
    try solve [fin].
  - destruct op; simpl; auto. destruct e; simpl; auto. destruct (neg_const c); simpl; auto.
  - destruct rest; [|discriminate]. apply andb_true_iff in H1 as [? ?]. apply H0; auto.
Qed.

Lemma simple_fold : forall e, simple e = true -> simple (fold_neg e) = true.
Proof. apply simple_fold_all. Qed.

Lemma simple_alias_fix : forall e, simple e = true -> simple (alias_fix e) = true.
Proof. intros e H. unfold alias_fix. destruct (is_neg_const e); auto using simple_fold. Qed.

(* ------------------------------------------------------------------ the expression lemma *)
Definition P_expr (e : expr) : Prop :=
  src_expr e = true -> EX (build_expr e) /\ BR (build_branch e).
Definition P_exprs (es : exprs) : Prop := src_list es = true -> EXS (build_exprs es).
Definition P_ctail (ct : ctail) : Prop :=
  src_ctail ct = true ->
  (forall l' bb extra t f, simple l' = true -> pres (build_ctail l' ct bb extra t f) (fun _ => True)) /\
  match ct with CLast _ r => EX (build_expr r) | CMore _ _ _ => True end.
Definition P_gens (gs : gens) : Prop :=
  src_gens gs = true -> forall bb, pres (build_gens gs bb) (fun r => simple_gens (fst r) = true).

Ltac split_src :=
  repeat match goal with H : _ && _ = true |- _ => apply andb_true_iff in H as [? ?] end.

Lemma EX_comp : forall k elt gs,
  EX (build_expr elt) -> (forall bb, pres (build_gens gs bb) (fun r => simple_gens (fst r) = true)) ->
  EX (fun bb =>
        if has_illegal elt || has_illegal_gens gs then fail ErrIllegalInComp
        else
          LET rg <- build_gens gs bb IN
          LET re <- build_expr elt (snd rg) IN
          ret (EDesugared k (fst re) (fst rg), snd re)).
Proof.
  intros k elt gs He Hg bb. destruct (has_illegal elt || has_illegal_gens gs); [apply pres_fail|].
  pb by (apply Hg). pb by (apply He). apply pres_ret. simpl. rewrite H, H0. auto.
Qed.

Lemma EX_comptime : forall args,
  EX (fun bb => match args with ENil => fail ErrEmptyComptime | _ => ret (EComptime args, bb) end).
Proof. intros args bb. destruct args; [apply pres_fail | apply pres_ret; auto]. Qed.

Lemma chain_branch : forall l rest,
  EX (build_expr l) ->
  (forall l' bb extra t f, simple l' = true -> pres (build_ctail l' rest bb extra t f) (fun _ => True)) ->
  BR (fun bb t f =>
        LET extra <- new_bb IN
        LET r <- build_expr l bb IN
        build_ctail (fst r) rest (snd r) (Some extra) t f).
Proof.
  intros l rest Hl Hc bb t f. pb by (apply pres_new_bb). pb by (apply Hl). apply Hc. auto.
Qed.

Lemma build_expr_chain : forall l op m r,
  build_expr (ECmp l (CMore op m r)) =
  lift_bool (fun bb t f =>
        LET extra <- new_bb IN
        LET r0 <- build_expr l bb IN
        build_ctail (fst r0) (CMore op m r) (snd r0) (Some extra) t f).
Proof. reflexivity. Qed.
Lemma build_branch_chain : forall l op m r,
  build_branch (ECmp l (CMore op m r)) =
  (fun bb t f =>
        LET extra <- new_bb IN
        LET r0 <- build_expr l bb IN
        build_ctail (fst r0) (CMore op m r) (snd r0) (Some extra) t f).
Proof. reflexivity. Qed.

Lemma build_all : (forall e, P_expr e) /\ (forall es, P_exprs es) /\ (forall ct, P_ctail ct) /\ (forall gs, P_gens gs).
Proof.
  apply expr_mutind; unfold P_expr, P_exprs, P_ctail, P_gens.
  - (* EConst *) intros c _. split; [apply EX_ret_self; auto|].
    simpl. destruct c; try (apply pres_gen_branch; apply EX_ret_self; auto).
    intros bb t f. pb by (apply pres_link). apply pres_dummy_link.
  - (* EName *) intros x _. split; [apply EX_ret_self; auto | apply pres_gen_branch; apply EX_ret_self; auto].
  - (* EUnary *) intros op e IH S. simpl in S. destruct (IH S) as [E B].
    split; [simpl; apply EX_unary; auto|].
    simpl. destruct op; try (apply pres_gen_branch; apply EX_unary; auto).
    intros bb t f. apply B.
  - (* EBin *) intros op a IHa b IHb S. simpl in S. split_src.
    destruct (IHa H) as [Ea _]. destruct (IHb H0) as [Eb _].
    assert (G : EX (bx_2 (EBin op) (build_expr a) (build_expr b))) by (apply EX_2; auto; intros; simpl; fin).
    split; [exact G | simpl; apply pres_gen_branch; exact G].
  - (* ECmp *) intros l IHl rest IHr S. simpl in S. split_src.
    destruct (IHl H) as [El _]. destruct (IHr H0) as [Hc Hlast].
    destruct rest as [op r | op m rest'].
    + assert (G : EX (bx_2 (fun x y => ECmp x (CLast op y)) (build_expr l) (build_expr r)))
        by (apply EX_2; auto; intros; simpl; fin).
      split; [exact G | simpl; apply pres_gen_branch; exact G].
    + rewrite build_expr_chain, build_branch_chain.
      split; [apply EX_lift_bool|]; apply chain_branch; auto.
  - (* EBool *) intros op a IHa b IHb S. simpl in S. split_src.
    destruct (IHa H) as [_ Ba]. destruct (IHb H0) as [_ Bb].
    split; [simpl; apply EX_lift_bool|]; apply BR_bool; auto.
  - (* EIf *) intros c IHc a IHa b IHb S. simpl in S. split_src.
    destruct (IHc H) as [_ Bc]. destruct (IHa H1) as [Ea Ba]. destruct (IHb H0) as [Eb Bb].
    split.
    + intros bb. simpl. pb by (apply pres_new_bb). pb by (apply pres_new_bb). pb by (apply Bc).
      pb by (apply Ea). pb by (apply Eb). pb by (apply pres_fresh_tmp).
      pb by (apply pres_add_stmt; simpl; fin). pb by (apply pres_add_stmt; simpl; fin).
      pb by (apply pres_new_bb). pb by (apply pres_link). pb by (apply pres_link). apply pres_ret. auto.
    + intros bb t f. simpl. pb by (apply pres_new_bb). pb by (apply pres_new_bb). pb by (apply Bc).
      pb by (apply Ba). apply Bb.
  - (* EWalrus *) intros x e IH S. simpl in S. destruct (IH S) as [E _].
    assert (G : EX (bx_walrus x (build_expr e))) by (apply EX_walrus; auto).
    split; [exact G | simpl; apply pres_gen_branch; exact G].
  - (* ECall *) intros f IHf args IHa S. simpl in S. split_src.
    destruct (IHf H) as [Ef _]. pose proof (IHa H0) as Ea.
    assert (G : EX (bx_call (build_expr f) (build_exprs args))) by (apply EX_call; auto).
    split; [exact G | simpl; apply pres_gen_branch; exact G].
  - (* ETuple *) intros es IH S. simpl in S. pose proof (IH S) as E.
    assert (G : EX (bx_list ETuple (build_exprs es))) by (apply EX_list; auto).
    split; [exact G | simpl; apply pres_gen_branch; exact G].
  - (* EList *) intros es IH S. simpl in S. pose proof (IH S) as E.
    assert (G : EX (bx_list EList (build_exprs es))) by (apply EX_list; auto).
    split; [exact G | simpl; apply pres_gen_branch; exact G].
  - (* ESub *) intros v IHv i IHi S. simpl in S. split_src.
    destruct (IHv H) as [Ev _]. destruct (IHi H0) as [Ei _].
    assert (G : EX (bx_2 ESub (build_expr v) (build_expr i))) by (apply EX_2; auto; intros; simpl; fin).
    split; [exact G | simpl; apply pres_gen_branch; exact G].
  - (* EAttr *) intros v IHv a S. simpl in S. destruct (IHv S) as [Ev _].
    assert (G : EX (bx_1 (fun x => EAttr x a) (build_expr v))) by (apply EX_1; auto).
    split; [exact G | simpl; apply pres_gen_branch; exact G].
  - (* EStarred *) intros e IH S. simpl in S. destruct (IH S) as [E _].
    assert (G : EX (bx_1 EStarred (build_expr e))) by (apply EX_1; auto).
    split; [exact G | simpl; apply pres_gen_branch; exact G].
  - (* EComp *) intros k elt IHe gs IHg S. simpl in S. split_src.
    destruct (IHe H) as [Ee _]. pose proof (IHg H0) as Eg.
    pose proof (EX_comp k elt gs Ee Eg) as G.
    split; [exact G | simpl; apply pres_gen_branch; exact G].
  - (* EDesugared *) intros k elt _ gs _ S. simpl in S. discriminate.
  - (* EComptime *) intros args _ S. pose proof (EX_comptime args) as G.
    split; [exact G | simpl; apply pres_gen_branch; exact G].
  - (* EOther *) intros k es IH S. simpl in S. pose proof (IH S) as E.
    assert (G : EX (bx_list (EOther k) (build_exprs es))) by (apply EX_list; auto).
    split; [exact G | simpl; apply pres_gen_branch; exact G].
  - (* EMakeIter *) intros e _ S. simpl in S. discriminate.
  - (* EIterNext *) intros e _ S. simpl in S. discriminate.
  - (* ENil *) intros _ bb. simpl. apply pres_ret. auto.
  - (* ECons *) intros e IHe es IHs S. simpl in S. split_src.
    destruct (IHe H) as [Ee _]. pose proof (IHs H0) as Es.
    intros bb. simpl. pb by (apply Ee). pb by (apply Es). apply pres_ret. simpl. fin.
  - (* CLast *) intros op e IH S. simpl in S. destruct (IH S) as [E _]. split; auto.
    intros l' bb extra t f Hl. simpl. pb by (apply E). apply pres_close_branch. simpl. fin.
  - (* CMore *) intros op m IHm rest IHr S. simpl in S. split_src.
    destruct (IHm H) as [Em _]. destruct (IHr H0) as [Hc _]. split; auto.
    intros l' bb extra t f Hl. simpl. destruct (lift_free m) eqn:LF; [|apply pres_fail].
    eapply pres_bind with (Q := fun _ => True); [destruct extra; [apply pres_ret; exact I | apply pres_new_bb]|intros ? _].
    pb by (apply Em). pb by (apply pres_close_branch; simpl; rewrite simple_alias_fix by auto; fin).
    apply Hc. apply simple_fold. apply lift_free_fold_simple. auto.
  - (* GNil *) intros _ bb. simpl. apply pres_ret. auto.
  - (* GCons *) intros t IHt it IHi ifs IHc r IHr S. simpl in S. split_src.
    destruct (IHt H) as [Et _]. destruct (IHi H2) as [Ei _]. pose proof (IHc H1) as Ec. pose proof (IHr H0) as Er.
    intros bb. simpl. pb by (apply Ei). pb by (apply Et). pb by (apply Ec). pb by (apply pres_fresh_tmp).
    pb by (apply Er). apply pres_ret. simpl. fin.
Qed.

(* ------------------------------------------------------------------ finalize *)
Lemma simple_block_put_reach : forall r b, simple_block (put_reach r b) = simple_block b.
Proof. intros r []; auto. Qed.
Lemma simple_block_add_succ : forall n b, simple_block (add_succ n b) = simple_block b.
Proof. intros n []; auto. Qed.

Lemma simple_mark : forall g seen,
  simple_cfg g = true ->
  simple_cfg (map (fun '(b, r) => put_reach r b) (combine g seen)) = true.
Proof.
  unfold simple_cfg. induction g; intros seen H; simpl in *; auto.
  destruct seen; simpl; auto. apply andb_true_iff in H as [H1 H2].
  rewrite simple_block_put_reach, H1. simpl. auto.
Qed.

Lemma simple_prune : forall g, simple_cfg g = true -> simple_cfg (prune g) = true.
Proof.
  unfold simple_cfg, prune. intros g. generalize g at 2 3. induction g; intros g0 H; simpl in *; auto.
  apply andb_true_iff in H as [H1 H2]. rewrite IHg; auto. destruct a. unfold simple_block in *. simpl in *.
  rewrite H1. auto.
Qed.

Lemma finalize_simple : forall blocks final rn g,
  simple_cfg blocks = true -> finalize blocks final rn = inl g -> simple_cfg g = true.
Proof.
  unfold finalize, mark_reachable. intros blocks final rn g H F.
  destruct (reach_wl _ _ _ _) as [seen|]; [|discriminate].
  pose proof (simple_mark blocks seen H) as H1.
  set (g1 := map _ _) in *. clearbody g1.
  destruct final as [fb|].
  - assert (H2 : simple_cfg (upd_nth fb (add_succ exit_idx) g1) = true).
    { apply forallb_upd_nth; auto; intros; rewrite simple_block_add_succ; auto. }
    destruct (blk_reach _ fb).
    + destruct rn; [|discriminate].
      assert (H3 : simple_cfg (upd_nth exit_idx (put_reach true) (upd_nth fb (add_succ exit_idx) g1)) = true).
      { apply forallb_upd_nth; auto; intros; rewrite simple_block_put_reach; auto. }
      inversion F; subst. apply simple_prune. exact H3.
    + inversion F; subst. apply simple_prune. auto.
  - inversion F; subst. apply simple_prune. auto.
Qed.

(* ------------------------------------------------------------------ statements *)
Definition P_stmt (s : stmt) : Prop :=
  src_stmt s = true -> forall bb j, pres (visit_stmt s bb j) (fun _ => True).
Definition P_stmts (ss : stmts) : Prop :=
  src_stmts ss = true -> forall prev cur j, pres (visit_stmts ss prev cur j) (fun _ => True).

Lemma EXof : forall e, src_expr e = true -> EX (build_expr e).
Proof. intros e S. apply (proj1 build_all e S). Qed.
Lemma BRof : forall e, src_expr e = true -> BR (build_branch e).
Proof. intros e S. apply (proj1 build_all e S). Qed.
Lemma EXSof : forall es, src_list es = true -> EXS (build_exprs es).
Proof. intros es S. apply (proj1 (proj2 build_all) es S). Qed.

Lemma st_ok_init : forall tmp nested, forallb simple_cfg nested = true ->
  st_ok (mkB [empty_block; empty_block] tmp nested).
Proof. intros. split; auto. Qed.

Lemma visit_all : (forall s, P_stmt s) /\ (forall ss, P_stmts ss).
Proof.
  apply stmt_mutind; unfold P_stmt, P_stmts.
  - (* SAssign *) intros ts e S bb j. simpl in S. split_src. simpl.
    pb by (apply EXof; auto). pb by (apply EXSof; auto).
    pb by (apply pres_add_stmt; simpl; fin). apply pres_ret. auto.
  - (* SAug *) intros t op e S bb j. simpl in S. split_src. simpl.
    pb by (apply EXof; auto). pb by (apply EXof; auto).
    pb by (apply pres_add_stmt; simpl; fin). apply pres_ret. auto.
  - (* SAnn *) intros t e S bb j. simpl in S. split_src. destruct e as [e|]; simpl in *.
    + pb by (apply EXof; auto). pb by (apply EXof; auto).
      pb by (apply pres_add_stmt; simpl; fin). apply pres_ret. auto.
    + pb by (apply EXof; auto). pb by (apply pres_add_stmt; simpl; fin). apply pres_ret. auto.
  - (* SExpr *) intros e S bb j. simpl in S. simpl. pb by (apply EXof; auto).
    eapply pres_bind with (Q := fun _ => True); [|intros ? _; apply pres_ret; auto].
    destruct (is_tmp_name (fst a)); [apply pres_ret; exact I|]. apply pres_add_stmt. auto.
  - (* SIf *) intros c body IHb orelse IHo S bb j. simpl in S. split_src. simpl.
    pb by (apply pres_new_bb). pb by (apply pres_new_bb). pb by (apply BRof; auto).
    pb by (apply IHb; auto). pb by (apply IHo; auto).
    match goal with |- pres (match ?x with _ => _ end) _ => destruct x end;
    match goal with |- pres (match ?x with _ => _ end) _ => destruct x | _ => idtac end; try (apply pres_ret; exact I).
    pb by (apply pres_new_bb). pb by (apply pres_link). pb by (apply pres_link). apply pres_ret. auto.
  - (* SWhile *) intros c body IHb orelse IHo S bb j. simpl in S. split_src. simpl.
    destruct orelse; [|apply pres_fail].
    pb by (apply pres_new_bb). pb by (apply pres_link). pb by (apply pres_new_bb). pb by (apply pres_new_bb).
    pb by (apply BRof; auto). pb by (apply IHb; auto).
    eapply pres_bind with (Q := fun _ => True); [|intros ? _].
    { match goal with |- pres (match ?x with _ => _ end) _ => destruct x end; [apply pres_link | apply pres_ret; exact I]. }
    apply pres_ret. auto.
  - (* SFor *) intros t it body IHb orelse IHo S bb j. simpl in S. split_src. simpl.
    destruct orelse; [|apply pres_fail].
    pb by (apply pres_fresh_tmp). pb by (apply pres_fresh_tmp). pb by (apply EXof; auto).
    pb by (apply pres_add_stmt; simpl; fin). pb by (apply pres_new_bb). pb by (apply pres_link).
    pb by (apply pres_new_bb). pb by (apply pres_new_bb). pb by (apply pres_link). pb by (apply pres_dummy_link).
    pb by (apply pres_add_stmt; auto). pb by (apply pres_new_bb). pb by (apply pres_new_bb).
    pb by (apply pres_close_branch; auto). pb by (apply pres_add_stmt; auto). pb by (apply pres_link).
    pb by (apply EXof; auto). pb by (apply pres_add_stmt; simpl; fin).
    pb by (apply IHb; auto).
    eapply pres_bind with (Q := fun _ => True); [|intros ? _; apply pres_ret; auto].
    match goal with |- pres (match ?x with _ => _ end) _ => destruct x end; [apply pres_link | apply pres_ret; exact I].
  - (* SBreak *) intros _ bb j. simpl. destruct (j_brk j); [|apply pres_fail].
    pb by (apply pres_link). apply pres_ret. auto.
  - (* SContinue *) intros _ bb j. simpl. destruct (j_cont j); [|apply pres_fail].
    pb by (apply pres_link). apply pres_ret. auto.
  - (* SPass *) intros _ bb j. simpl. apply pres_ret. auto.
  - (* SReturn *) intros e S bb j. destruct e as [e|]; simpl in *.
    + pb by (apply EXof; auto). pb by (apply pres_add_stmt; simpl; fin). pb by (apply pres_link). apply pres_ret. auto.
    + pb by (apply pres_add_stmt; auto). pb by (apply pres_link). apply pres_ret. auto.
  - (* SDef *) intros body IHb rn S bb j. simpl in S. simpl.
    intros s a s' Hs H.
    destruct (visit_stmts body entry_idx (Some entry_idx) (mkJ exit_idx None None)
                (mkB [empty_block; empty_block] (bs_tmp s) (bs_nested s))) as [final s1|] eqn:V; [|discriminate].
    destruct (IHb S _ _ _ _ _ _ (st_ok_init (bs_tmp s) (bs_nested s) (proj2 Hs)) V) as [[B1 N1] _].
    destruct (finalize (bs_blocks s1) final rn) as [g|] eqn:F; [|discriminate].
    pose proof (finalize_simple _ _ _ _ B1 F) as G.
    assert (Hs2 : st_ok (mkB (bs_blocks s) (bs_tmp s1) (bs_nested s1 ++ [g]))).
    { split; simpl; [apply Hs | apply forallb_snoc; auto]. }
    revert H. apply (pres_bind _ _ (add_stmt bb (BDef (length (bs_nested s1)))) (fun _ => ret (Some bb)) (fun _ => True) (fun _ => True)); auto.
    + apply pres_add_stmt. auto.
    + intros. apply pres_ret. auto.
  - (* SOther *) intros k _ bb j. simpl. apply pres_fail.
  - (* SNil *) intros _ prev cur j. simpl. apply pres_ret. auto.
  - (* SCons *) intros s IHs ss IHss S prev cur j. simpl in S. split_src. simpl.
    eapply pres_bind with (Q := fun _ => True).
    + destruct cur; [apply pres_ret; exact I|]. pb by (apply pres_new_bb). pb by (apply pres_dummy_link). apply pres_ret. auto.
    + intros bb _. pb by (apply IHs; auto). apply IHss. auto.
Qed.

(* ------------------------------------------------------------------ the theorem *)
Lemma build_simple : forall p rn g nested,
  src_stmts p = true -> build p rn = Built g nested ->
  simple_cfg g = true /\ forallb simple_cfg nested = true.
Proof.
  unfold build. intros p rn g nested S H.
  destruct (visit_stmts p entry_idx (Some entry_idx) (mkJ exit_idx None None) init_state) as [final s|] eqn:V; [|discriminate].
  destruct (proj2 visit_all p S _ _ _ _ _ _ (st_ok_init 0 [] eq_refl) V) as [[B N] _].
  destruct (finalize (bs_blocks s) final rn) as [g0|] eqn:F; [|discriminate].
  inversion H; subst. split; auto. eapply finalize_simple; eauto.
Qed.
