(** C02 — integer-token serialisation of builder outcomes (model file; mirrored by
    props/C02/xast.py, used only by the correspondence harness). *)
From Coq Require Import ZArith List Bool.
From V.C03 Require Import PyAst.
From V.C02 Require Import Ast Builder.
Import ListNotations.
Open Scope Z_scope.

Definition zn (n : nat) : Z := Z.of_nat n.
Definition t_unop (o : unop) : Z := match o with UNot => 0 | UNeg => 1 | UPos => 2 | UInvert => 3 end.
Definition t_binop (o : binop) : Z :=
  match o with BAdd => 0 | BSub => 1 | BMul => 2 | BFloorDiv => 3 | BMod => 4 | BBitAnd => 5 | BBitOr => 6 | BBitXor => 7 end.
Definition t_cmpop (o : cmpop) : Z := match o with CEq => 0 | CNe => 1 | CLt => 2 | CLe => 3 | CGt => 4 | CGe => 5 end.
Definition t_boolop (o : boolop) : Z := match o with BoAnd => 0 | BoOr => 1 end.
Definition t_kind (k : compkind) : Z := match k with KList => 0 | KGen => 1 end.

Fixpoint len_exprs (es : exprs) : nat := match es with ENil => O | ECons _ r => S (len_exprs r) end.
Fixpoint len_ctail (c : ctail) : nat := match c with CLast _ _ => 1%nat | CMore _ _ r => S (len_ctail r) end.
Fixpoint len_gens (g : gens) : nat := match g with GNil => O | GCons _ _ _ r => S (len_gens r) end.

Fixpoint tok_expr (e : expr) : list Z :=
  match e with
  | EConst (CInt z) => [0; z]
  | EConst (CBool b) => [1; Z.b2z b]
  | EConst CNone => [2]
  | EName (VU n) => [3; zn n]
  | EName (VT n) => [4; zn n]
  | EUnary op a => 5 :: t_unop op :: tok_expr a
  | EBin op a b => 6 :: t_binop op :: tok_expr a ++ tok_expr b
  | ECmp l rest => 7 :: tok_expr l ++ zn (len_ctail rest) :: tok_ctail rest
  | EBool op a b => 8 :: t_boolop op :: tok_expr a ++ tok_expr b
  | EIf c a b => 9 :: tok_expr c ++ tok_expr a ++ tok_expr b
  | EWalrus x a => 10 :: zn x :: tok_expr a
  | ECall f args => 11 :: tok_expr f ++ zn (len_exprs args) :: tok_exprs args
  | ETuple es => 12 :: zn (len_exprs es) :: tok_exprs es
  | EList es => 13 :: zn (len_exprs es) :: tok_exprs es
  | ESub v i => 14 :: tok_expr v ++ tok_expr i
  | EAttr v a => 15 :: tok_expr v ++ [zn a]
  | EStarred a => 16 :: tok_expr a
  | EComp k elt gs => 17 :: t_kind k :: tok_expr elt ++ zn (len_gens gs) :: tok_gens gs
  | EDesugared k elt gs => 18 :: t_kind k :: tok_expr elt ++ zn (len_gens gs) :: tok_gens gs
  | EComptime args => 19 :: zn (len_exprs args) :: tok_exprs args
  | EOther k es => 20 :: zn k :: zn (len_exprs es) :: tok_exprs es
  | EMakeIter a => 21 :: tok_expr a
  | EIterNext a => 22 :: tok_expr a
  end
with tok_exprs (es : exprs) : list Z :=
  match es with ENil => [] | ECons e r => tok_expr e ++ tok_exprs r end
with tok_ctail (c : ctail) : list Z :=
  match c with
  | CLast op e => t_cmpop op :: tok_expr e
  | CMore op e r => t_cmpop op :: tok_expr e ++ tok_ctail r
  end
with tok_gens (g : gens) : list Z :=
  match g with
  | GNil => []
  | GCons t it ifs r => tok_expr t ++ tok_expr it ++ zn (len_exprs ifs) :: tok_exprs ifs ++ tok_gens r
  end.

Definition tok_opt (o : option expr) : list Z :=
  match o with Some e => 1 :: tok_expr e | None => [0] end.

Definition tok_bstmt (s : bstmt) : list Z :=
  match s with
  | BAssign ts e => 30 :: zn (len_exprs ts) :: tok_exprs ts ++ tok_expr e
  | BAug t op e => 31 :: tok_expr t ++ t_binop op :: tok_expr e
  | BAnn t e => 32 :: tok_expr t ++ tok_opt e
  | BExpr e => 33 :: tok_expr e
  | BReturn e => 34 :: tok_opt e
  | BDef i => [35; zn i]
  end.

Definition tok_nats (l : list nat) : list Z := zn (length l) :: map zn l.

Definition tok_block (b : block) : list Z :=
  zn (length (b_stmts b)) :: flat_map tok_bstmt (b_stmts b) ++ tok_opt (b_pred b) ++
  tok_nats (b_succs b) ++ tok_nats (b_dummy b) ++ [Z.b2z (b_reach b)].

Definition tok_cfg (g : cfg) : list Z := zn (length g) :: flat_map tok_block g.

Definition t_err (e : berr) : Z :=
  match e with
  | ErrLoopElse => 0 | ErrUnsupportedStmt => 1 | ErrIllegalInComp => 2 | ErrEmptyComptime => 3
  | ErrExpectedReturn => 4 | ErrNoLoop => 5 | ErrInternal => 6 | ErrUnmodelled => 7
  end.

Definition tok_outcome (o : outcome) : list Z :=
  match o with
  | Built g nested => 1 :: tok_cfg g ++ zn (length nested) :: flat_map tok_cfg nested
  | Rejected e => [0; t_err e]
  end.

(** what the harness evaluates per program: source-ness, loop well-formedness, the outcome,
    and (for accepted programs) whether the output satisfies the invariant *)
Definition run_case (p : stmts) (rn : bool) : list Z * list Z :=
  let o := build p rn in
  ([Z.b2z (src_stmts p); Z.b2z (loops_ok_list false p);
    match o with Built g n => Z.b2z (simple_cfg g && forallb simple_cfg n) | Rejected _ => 2 end],
   tok_outcome o).
