(** C02 — abstract syntax for the builder invariant (model file, no proofs).

    An extension of the C03 fragment ([V.C03.PyAst], whose operator/constant/variable
    enumerations are reused) by everything that matters for "which expression slots does
    the CFG builder rewrite":
      - assignment targets are *expressions* (as in Python's [ast]): names, subscripts,
        attributes, starred, tuple and list patterns, with arbitrary sub-expressions;
      - multi-target, augmented and annotated assignments, [for] loops, nested function
        definitions, "any other statement" ([SOther], e.g. del/assert/try/import/match…);
      - subscripts, attributes, list displays, starred, list comprehensions / generator
        expressions, [comptime(...)], and "any other expression node" [EOther] (lambda,
        dict, set, f-string, slice, …) with its child expressions.
    [EMakeIter]/[EIterNext] are the internal nodes the builder inserts for [for] loops; they
    are not source syntax (see [src_expr]).

    Variables: [VU n] = [v<n>], [VT n] = [%tmp<n>]; attribute [a<n>]. *)
From Coq Require Import ZArith List Bool.
From V.C03 Require Import PyAst.
Import ListNotations.

Inductive compkind := KList | KGen.

Inductive expr :=
| EConst (c : const)
| EName (x : var)
| EUnary (op : unop) (e : expr)
| EBin (op : binop) (a b : expr)
| ECmp (l : expr) (rest : ctail)
| EBool (op : boolop) (a b : expr)
| EIf (c a b : expr)                     (* a if c else b *)
| EWalrus (x : nat) (e : expr)           (* (v<x> := e) *)
| ECall (f : expr) (args : exprs)
| ETuple (es : exprs)
| EList (es : exprs)
| ESub (v i : expr)                      (* v[i] *)
| EAttr (v : expr) (a : nat)             (* v.a<n> *)
| EStarred (e : expr)                    (* *e *)
| EComp (k : compkind) (elt : expr) (gs : gens)    (* source comprehension *)
| EDesugared (k : compkind) (elt : expr) (gs : gens)  (* DesugaredListComp / DesugaredGeneratorExpr *)
| EComptime (args : exprs)               (* comptime(...) / py(...): evaluated by Python *)
| EOther (k : nat) (es : exprs)          (* any other expression node, with its child expressions *)
| EMakeIter (e : expr)
| EIterNext (e : expr)
with exprs := ENil | ECons (e : expr) (es : exprs)
with ctail := CLast (op : cmpop) (e : expr) | CMore (op : cmpop) (e : expr) (rest : ctail)
with gens := GNil | GCons (target iter : expr) (ifs : exprs) (rest : gens).

Scheme expr_mut := Induction for expr Sort Prop
  with exprs_mut := Induction for exprs Sort Prop
  with ctail_mut := Induction for ctail Sort Prop
  with gens_mut := Induction for gens Sort Prop.
Combined Scheme expr_mutind from expr_mut, exprs_mut, ctail_mut, gens_mut.

Inductive stmt :=
| SAssign (ts : exprs) (e : expr)                 (* t1 = t2 = ... = e *)
| SAug (t : expr) (op : binop) (e : expr)
| SAnn (t : expr) (e : option expr)               (* t: <type> [= e] *)
| SExpr (e : expr)
| SIf (c : expr) (body orelse : stmts)
| SWhile (c : expr) (body orelse : stmts)
| SFor (t it : expr) (body orelse : stmts)
| SBreak | SContinue | SPass
| SReturn (e : option expr)
| SDef (body : stmts) (returns_none : bool)       (* nested def; signature checking not modelled *)
| SOther (k : nat)                                (* any statement kind without a visit_ method *)
with stmts := SNil | SCons (s : stmt) (ss : stmts).

Scheme stmt_mut := Induction for stmt Sort Prop
  with stmts_mut := Induction for stmts Sort Prop.
Combined Scheme stmt_mutind from stmt_mut, stmts_mut.

(** Statements as they sit in a basic block after construction.  A nested function is the
    index of its CFG in the side table of the builder state. *)
Inductive bstmt :=
| BAssign (ts : exprs) (e : expr)
| BAug (t : expr) (op : binop) (e : expr)
| BAnn (t : expr) (e : option expr)
| BExpr (e : expr)
| BReturn (e : option expr)
| BDef (cfg_index : nat).

Record block := mkBlock {
  b_stmts : list bstmt;
  b_pred : option expr;
  b_succs : list nat;
  b_dummy : list nat;
  b_reach : bool }.

Definition cfg := list block.
Definition entry_idx : nat := 0.
Definition exit_idx : nat := 1.
Definition empty_block : block := mkBlock [] None [] [] false.

Fixpoint exprs_of_list (l : list expr) : exprs :=
  match l with [] => ENil | s :: r => ECons s (exprs_of_list r) end.
Fixpoint list_of_exprs (l : exprs) : list expr :=
  match l with ENil => [] | ECons e r => e :: list_of_exprs r end.
Fixpoint stmts_of_list (l : list stmt) : stmts :=
  match l with [] => SNil | s :: r => SCons s (stmts_of_list r) end.

(** ------------------------------------------------------------------------------------
    The checker's crash set.  [simple e] = the expression synthesiser, walking [e] the way
    [ExprSynthesizer]/[ExprChecker] do, never meets a node on which it raises
    [InternalGuppyError]: BoolOp, chained comparison, conditional expression, assignment
    expression, or a source list comprehension.  Written over the *syntax* only
    (independent of the builder):
      - [EOther] nodes are rejected by the checker with a user error before their children
        are looked at, [EComptime] arguments are evaluated by CPython: their children are
        not constrained;
      - a source generator expression reaches [generic_visit] (user error) — not a crash —
        but a source *list* comprehension has an explicit crashing visitor;
      - inside a desugared comprehension the element, the iterators, the conditions and the
        targets are all synthesised. *)
Fixpoint simple (e : expr) : bool :=
  match e with
  | EConst _ | EName _ => true
  | EUnary _ a => simple a
  | EBin _ a b => simple a && simple b
  | ECmp l (CLast _ r) => simple l && simple r
  | ECmp _ (CMore _ _ _) => false
  | EBool _ _ _ | EIf _ _ _ | EWalrus _ _ => false
  | ECall f args => simple f && simple_list args
  | ETuple es | EList es => simple_list es
  | ESub v i => simple v && simple i
  | EAttr v _ => simple v
  | EStarred a => simple a
  | EComp KList _ _ => false
  | EComp KGen _ _ => true
  | EDesugared _ elt gs => simple elt && simple_gens gs
  | EComptime _ => true
  | EOther _ _ => true
  | EMakeIter a | EIterNext a => simple a
  end
with simple_list (es : exprs) : bool :=
  match es with ENil => true | ECons e r => simple e && simple_list r end
with simple_gens (gs : gens) : bool :=
  match gs with
  | GNil => true
  | GCons t it ifs r => simple t && simple it && simple_list ifs && simple_gens r
  end.

Definition simple_opt (o : option expr) : bool :=
  match o with Some e => simple e | None => true end.

(** every expression the statement checker hands to the synthesiser, targets included *)
Definition simple_bstmt (s : bstmt) : bool :=
  match s with
  | BAssign ts e => simple_list ts && simple e
  | BAug t _ e => simple t && simple e
  | BAnn t e => simple t && simple_opt e
  | BExpr e => simple e
  | BReturn e => simple_opt e
  | BDef _ => true
  end.

Definition simple_block (b : block) : bool :=
  forallb simple_bstmt (b_stmts b) && simple_opt (b_pred b).

Definition simple_cfg (g : cfg) : bool := forallb simple_block g.

(** Source programs: no builder-internal node. *)
Fixpoint src_expr (e : expr) : bool :=
  match e with
  | EConst _ | EName (VU _) => true
  | EName (VT _) => false
  | EUnary _ a => src_expr a
  | EBin _ a b => src_expr a && src_expr b
  | ECmp l rest => src_expr l && src_ctail rest
  | EBool _ a b => src_expr a && src_expr b
  | EIf c a b => src_expr c && src_expr a && src_expr b
  | EWalrus _ a => src_expr a
  | ECall f args => src_expr f && src_list args
  | ETuple es | EList es => src_list es
  | ESub v i => src_expr v && src_expr i
  | EAttr v _ => src_expr v
  | EStarred a => src_expr a
  | EComp _ elt gs => src_expr elt && src_gens gs
  | EDesugared _ _ _ => false
  | EComptime args => src_list args
  | EOther _ es => src_list es
  | EMakeIter _ | EIterNext _ => false
  end
with src_list (es : exprs) : bool :=
  match es with ENil => true | ECons e r => src_expr e && src_list r end
with src_ctail (t : ctail) : bool :=
  match t with CLast _ e => src_expr e | CMore _ e r => src_expr e && src_ctail r end
with src_gens (gs : gens) : bool :=
  match gs with
  | GNil => true
  | GCons t it ifs r => src_expr t && src_expr it && src_list ifs && src_gens r
  end.

(** CPython's compile-time rule: [break]/[continue] only inside a loop of the same function. *)
Fixpoint loops_ok (inloop : bool) (s : stmt) : bool :=
  match s with
  | SIf _ b o => loops_ok_list inloop b && loops_ok_list inloop o
  | SWhile _ b o => loops_ok_list true b && loops_ok_list inloop o
  | SFor _ _ b o => loops_ok_list true b && loops_ok_list inloop o
  | SBreak | SContinue => inloop
  | SDef b _ => loops_ok_list false b
  | _ => true
  end
with loops_ok_list (inloop : bool) (ss : stmts) : bool :=
  match ss with SNil => true | SCons s r => loops_ok inloop s && loops_ok_list inloop r end.

Definition src_opt (o : option expr) : bool :=
  match o with Some e => src_expr e | None => true end.

Fixpoint src_stmt (s : stmt) : bool :=
  match s with
  | SAssign ts e => src_list ts && src_expr e
  | SAug t _ e => src_expr t && src_expr e
  | SAnn t e => src_expr t && src_opt e
  | SExpr e => src_expr e
  | SIf c b o => src_expr c && src_stmts b && src_stmts o
  | SWhile c b o => src_expr c && src_stmts b && src_stmts o
  | SFor t it b o => src_expr t && src_expr it && src_stmts b && src_stmts o
  | SBreak | SContinue | SPass => true
  | SReturn e => src_opt e
  | SDef b _ => src_stmts b
  | SOther _ => true
  end
with src_stmts (ss : stmts) : bool :=
  match ss with SNil => true | SCons s r => src_stmt s && src_stmts r end.
