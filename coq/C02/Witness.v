(** C02 — concrete programs used as non-vacuity examples and as corpus anchors (model file). *)
From Coq Require Import ZArith List Bool.
From V.C03 Require Import PyAst.
From V.C02 Require Import Ast Builder.
Import ListNotations.

Definition v (n : nat) : expr := EName (VU n).
Definition k (z : Z) : expr := EConst (CInt z).

(* v0[v2 if v1 else 0] = 1 ; return v0          (design-time witness, InternalGuppyError before fix-2) *)
Definition w_target_ifexp : stmts :=
  SCons (SAssign (ECons (ESub (v 0) (EIf (v 1) (v 2) (k 0))) ENil) (k 1))
  (SCons (SReturn (Some (v 0))) SNil).

(* for v0[(v3 := 0)] in v4: v5 += (v1 and v2) ; def g(): return 0 < v1 < 3 *)
Definition w_for_def : stmts :=
  SCons (SFor (ESub (v 0) (EWalrus 3 (k 0))) (v 4)
           (SCons (SAug (v 5) BAdd (EBool BoAnd (v 1) (v 2))) SNil) SNil)
  (SCons (SDef (SCons (SReturn (Some (ECmp (k 0) (CMore CLt (v 1) (CLast CLt (k 3)))))) SNil) false)
   SNil).

(* v6 = [v0 for v0[[v1 for v1 in v2]] in v3 if [v4 for v4 in v5]]    (InternalGuppyError before fix-3) *)
Definition w_nested_comp : stmts :=
  SCons (SAssign (ECons (v 6) ENil)
           (EComp KList (v 0)
              (GCons (ESub (v 0) (EComp KList (v 1) (GCons (v 1) (v 2) ENil GNil))) (v 3)
                     (ECons (EComp KList (v 4) (GCons (v 4) (v 5) ENil GNil)) ENil) GNil)))
  SNil.

(* break outside a loop: not a CPython-compilable function *)
Definition w_break_outside : stmts := SCons SBreak SNil.

(* 0 < (v0 if v1 else v2) < 3 : the shape the model declines *)
Definition w_chain_mid : stmts :=
  SCons (SExpr (ECmp (k 0) (CMore CLt (EIf (v 1) (v 0) (v 2)) (CLast CLt (k 3))))) SNil.
