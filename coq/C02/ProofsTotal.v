(** C02 — totality of the builder model: which errors it can return. *)
From Coq Require Import ZArith List Bool Lia.
From V.C03 Require Import PyAst.
From V.C02 Require Import Ast Builder.
Import ListNotations.

(* ------------------------------------------------------------------ reachability never runs out of fuel *)
Fixpoint cost (g : list block) (seen : list bool) : nat :=
  match g, seen with
  | b :: g', r :: seen' => (if r then 0 else length (b_succs b)) + cost g' seen'
  | _, _ => 0
  end.

Lemma upd_nth_length : forall A i (f : A -> A) l, length (upd_nth i f l) = length l.
Proof. induction i; destruct l; simpl; auto. Qed.

Lemma cost_mark : forall g seen i b,
  length seen = length g -> nth_error g i = Some b -> nth_reach seen i = false ->
  cost g (upd_nth i (fun _ => true) seen) + length (b_succs b) = cost g seen.
Proof.
  unfold nth_reach. induction g; intros seen i b L N S.
  - destruct i; discriminate.
  - destruct seen as [|r seen']; [discriminate|]. simpl in L. destruct i; simpl in *.
    + inversion N; subst. lia.
    + specialize (IHg seen' i b). rewrite <- IHg; auto; lia.
Qed.

Lemma reach_wl_total : forall fuel g work seen,
  length seen = length g -> length work + cost g seen <= fuel ->
  exists r, reach_wl fuel g work seen = Some r.
Proof.
  induction fuel; intros g work seen L F.
  - destruct work; simpl in *; [eauto | lia].
  - destruct work as [|i rest]; simpl; [eauto|]. simpl in F.
    destruct (nth_reach seen i) eqn:S.
    + apply IHfuel; auto. lia.
    + destruct (nth_error g i) as [b|] eqn:N.
      * apply IHfuel; [rewrite upd_nth_length; auto|].
        pose proof (cost_mark g seen i b L N S). rewrite app_length. lia.
      * apply IHfuel; auto. lia.
Qed.

Lemma cost_init : forall g, cost g (map (fun _ => false) g) = edge_count g.
Proof. induction g; simpl; auto. Qed.

Lemma mark_reachable_total : forall g, exists g1, mark_reachable g = Some g1.
Proof.
  intros g. unfold mark_reachable.
  destruct (reach_wl_total (2 + edge_count g + length g) g [entry_idx] (map (fun _ => false) g)) as [r R].
  - apply map_length.
  - rewrite cost_init. simpl. lia.
  - rewrite R. eauto.
Qed.

Lemma finalize_errors : forall blocks final rn e,
  finalize blocks final rn = inr e -> e = ErrExpectedReturn.
Proof.
  unfold finalize. intros blocks final rn e H.
  destruct (mark_reachable_total blocks) as [g1 M]. rewrite M in H.
  destruct final; [|discriminate]. destruct (blk_reach _ _); [|discriminate]. destruct rn; [discriminate|].
  inversion H; auto.
Qed.

(* ------------------------------------------------------------------ error tracking *)
Definition errs {A} (m : M A) (E : berr -> Prop) : Prop := forall s err, m s = BErr err -> E err.

Lemma errs_ret : forall A (a : A) E, errs (ret a) E.
Proof. unfold errs, ret. intros. discriminate. Qed.
Lemma errs_fail : forall A e (E : berr -> Prop), E e -> errs (@fail A e) E.
Proof. unfold errs, fail. intros. inversion H0; subst; auto. Qed.
Lemma errs_bind : forall A B (m : M A) (f : A -> M B) E,
  errs m E -> (forall a, errs (f a) E) -> errs (bind m f) E.
Proof.
  unfold errs, bind. intros A B m f E Hm Hf s err H. destruct (m s) eqn:X; [eapply Hf; eauto | inversion H; subst; eauto].
Qed.
Lemma errs_weaken : forall A (m : M A) (E F : berr -> Prop), errs m E -> (forall e, E e -> F e) -> errs m F.
Proof. unfold errs. eauto. Qed.
Lemma errs_modify : forall i f E, errs (modify i f) E.
Proof. unfold errs, modify. intros. discriminate. Qed.
Lemma errs_new_bb : forall E, errs new_bb E.
Proof. unfold errs, new_bb. intros. discriminate. Qed.
Lemma errs_fresh : forall E, errs fresh_tmp E.
Proof. unfold errs, fresh_tmp. intros. discriminate. Qed.
Lemma errs_link : forall a b E, errs (link a b) E.
Proof. intros. apply errs_modify. Qed.
Lemma errs_dummy : forall a b E, errs (dummy_link a b) E.
Proof. intros. apply errs_modify. Qed.
Lemma errs_add : forall a b E, errs (add_stmt a b) E.
Proof. intros. apply errs_modify. Qed.
Lemma errs_close : forall bb p f t E, errs (close_branch bb p f t) E.
Proof. intros. unfold close_branch. apply errs_bind; [apply errs_modify|intros]. apply errs_bind; [apply errs_link|intros]. apply errs_link. Qed.

#[export] Hint Resolve errs_ret errs_new_bb errs_fresh errs_link errs_dummy errs_add errs_close errs_modify : errs.

Ltac eb := apply errs_bind; [|intros].

(** errors of the expression builders on [e]: the two user errors, or the model declining on a
    chained comparison with a lifted middle operand inside [e] *)
Definition XE (c : bool) (err : berr) : Prop :=
  err = ErrIllegalInComp \/ err = ErrEmptyComptime \/ (err = ErrUnmodelled /\ c = true).

Lemma XE_mono : forall c d err, (c = true -> d = true) -> XE c err -> XE d err.
Proof. unfold XE. intros c d err H [?|[?|[? ?]]]; auto. Qed.

Definition EE (c : bool) (v : nat -> M (expr * nat)) : Prop := forall bb, errs (v bb) (XE c).
Definition EES (c : bool) (v : nat -> M (exprs * nat)) : Prop := forall bb, errs (v bb) (XE c).
Definition BE (c : bool) (v : nat -> nat -> nat -> M unit) : Prop := forall bb t f, errs (v bb t f) (XE c).

Lemma EE_mono : forall c d v, (c = true -> d = true) -> EE c v -> EE d v.
Proof. intros c d v H E bb. eapply errs_weaken; [apply E|]. intros. eapply XE_mono; eauto. Qed.
Lemma EES_mono : forall c d v, (c = true -> d = true) -> EES c v -> EES d v.
Proof. intros c d v H E bb. eapply errs_weaken; [apply E|]. intros. eapply XE_mono; eauto. Qed.
Lemma BE_mono : forall c d v, (c = true -> d = true) -> BE c v -> BE d v.
Proof. intros c d v H E bb t f. eapply errs_weaken; [apply E|]. intros. eapply XE_mono; eauto. Qed.

Lemma BE_gen : forall c v, EE c v -> BE c (gen_branch v).
Proof. intros c v H bb t f. unfold gen_branch. eb; [apply H | auto with errs]. Qed.

Lemma EE_unary : forall c op a, EE c (build_expr a) -> EE c (bx_unary op a (build_expr a)).
Proof.
  intros c op a H bb. unfold bx_unary.
  assert (G : errs (LET r <- build_expr a bb IN ret (EUnary op (fst r), snd r)) (XE c)) by (eb; [apply H | auto with errs]).
  destruct op; auto. destruct a; auto. destruct (neg_const c0); auto with errs.
Qed.
Lemma EE_1 : forall c k ra, EE c ra -> EE c (bx_1 k ra).
Proof. intros c k ra H bb. unfold bx_1. eb; [apply H | auto with errs]. Qed.
Lemma EE_2 : forall c k ra rb, EE c ra -> EE c rb -> EE c (bx_2 k ra rb).
Proof. intros c k ra rb Ha Hb bb. unfold bx_2. eb; [apply Ha|]. eb; [apply Hb | auto with errs]. Qed.
Lemma EE_list : forall c k ras, EES c ras -> EE c (bx_list k ras).
Proof. intros c k ras H bb. unfold bx_list. eb; [apply H | auto with errs]. Qed.
Lemma EE_call : forall c rf ras, EE c rf -> EES c ras -> EE c (bx_call rf ras).
Proof. intros c rf ras Hf Ha bb. unfold bx_call. eb; [apply Hf|]. eb; [apply Ha | auto with errs]. Qed.
Lemma EE_walrus : forall c x ra, EE c ra -> EE c (bx_walrus x ra).
Proof. intros c x ra H bb. unfold bx_walrus. eb; [apply H|]. eb; auto with errs. Qed.
Lemma EE_lift : forall c br, BE c br -> EE c (lift_bool br).
Proof.
  intros c br H bb. unfold lift_bool. eb; auto with errs. eb; auto with errs. eb; [apply H|].
  repeat (eb; auto with errs).
Qed.
Lemma BE_bool : forall c op ba bb_, BE c ba -> BE c bb_ -> BE c (br_bool op ba bb_).
Proof.
  intros c op ba bb_ Ha Hb bb t f. unfold br_bool. eb; auto with errs. eb; [destruct op; apply Ha | apply Hb].
Qed.

Lemma orb_l : forall a b, a = true -> a || b = true.
Proof. intros; subst; auto. Qed.
Lemma orb_r : forall a b, b = true -> a || b = true.
Proof. intros; subst; apply orb_true_r. Qed.

Definition T_expr (e : expr) : Prop := EE (chain_mid e) (build_expr e) /\ BE (chain_mid e) (build_branch e).
Definition T_exprs (es : exprs) : Prop := EES (chain_mid_list es) (build_exprs es).
Definition T_ctail (ct : ctail) : Prop :=
  (forall l' bb extra t f, errs (build_ctail l' ct bb extra t f) (XE (chain_mid_ctail ct))) /\
  match ct with CLast _ r => EE (chain_mid r) (build_expr r) | CMore _ _ _ => True end.
Definition T_gens (gs : gens) : Prop := forall bb, errs (build_gens gs bb) (XE (chain_mid_gens gs)).

Lemma chain_errs : forall c l rest,
  EE c (build_expr l) -> (forall l' bb extra t f, errs (build_ctail l' rest bb extra t f) (XE c)) ->
  BE c (fun bb t f =>
        LET extra <- new_bb IN
        LET r <- build_expr l bb IN
        build_ctail (fst r) rest (snd r) (Some extra) t f).
Proof. intros c l rest Hl Hc bb t f. eb; auto with errs. eb; [apply Hl | apply Hc]. Qed.

Lemma build_expr_chain : forall l op m r,
  build_expr (ECmp l (CMore op m r)) =
  lift_bool (fun bb t f =>
        LET extra <- new_bb IN
        LET r0 <- build_expr l bb IN
        build_ctail (fst r0) (CMore op m r) (snd r0) (Some extra) t f).
Proof. reflexivity. Qed.
Lemma build_branch_chain : forall l op m r,
  build_branch (ECmp l (CMore op m r)) =
  (fun bb t f =>
        LET extra <- new_bb IN
        LET r0 <- build_expr l bb IN
        build_ctail (fst r0) (CMore op m r) (snd r0) (Some extra) t f).
Proof. reflexivity. Qed.

Ltac mono H := first [eapply EE_mono | eapply EES_mono | eapply BE_mono]; [|apply H]; intro; auto using orb_l, orb_r.

Lemma total_all : (forall e, T_expr e) /\ (forall es, T_exprs es) /\ (forall ct, T_ctail ct) /\ (forall gs, T_gens gs).
Proof.
  apply expr_mutind; unfold T_expr, T_exprs, T_ctail, T_gens.
  - (* EConst *) intros c. split; [intros bb; auto with errs|].
    simpl. destruct c; try (apply BE_gen; intros bb; auto with errs).
    intros bb t f. eb; auto with errs.
  - (* EName *) intros x. split; [intros bb; auto with errs | apply BE_gen; intros bb; auto with errs].
  - (* EUnary *) intros op e [E B]. split; [simpl; apply EE_unary; auto|].
    simpl. destruct op; try (apply BE_gen; apply EE_unary; auto). intros bb t f. apply B.
  - (* EBin *) intros op a [Ea _] b [Eb _].
    assert (G : EE (chain_mid (EBin op a b)) (bx_2 (EBin op) (build_expr a) (build_expr b))).
    { apply EE_2; [mono Ea | mono Eb]. }
    split; [exact G | simpl build_branch; apply BE_gen; exact G].
  - (* ECmp *) intros l [El _] rest [Hc Hlast]. destruct rest as [op r | op m rest'].
    + assert (G : EE (chain_mid (ECmp l (CLast op r))) (bx_2 (fun x y => ECmp x (CLast op y)) (build_expr l) (build_expr r))).
      { apply EE_2; [mono El | mono Hlast]. }
      split; [exact G | simpl build_branch; apply BE_gen; exact G].
    + rewrite build_expr_chain, build_branch_chain.
      assert (G : BE (chain_mid (ECmp l (CMore op m rest')))
                (fun bb t f => LET extra <- new_bb IN LET r0 <- build_expr l bb IN
                               build_ctail (fst r0) (CMore op m rest') (snd r0) (Some extra) t f)).
      { apply chain_errs; [mono El|]. intros. eapply errs_weaken; [apply Hc|].
        intros. eapply XE_mono; [|eauto]. intro. change (chain_mid l || chain_mid_ctail (CMore op m rest') = true).
        auto using orb_r. }
      split; [apply EE_lift; exact G | exact G].
  - (* EBool *) intros op a [_ Ba] b [_ Bb].
    assert (G : BE (chain_mid (EBool op a b)) (br_bool op (build_branch a) (build_branch b))).
    { apply BE_bool; [mono Ba | mono Bb]. }
    split; [simpl build_expr; apply EE_lift; exact G | exact G].
  - (* EIf *) intros c [_ Bc] a [Ea Ba] b [Eb Bb].
    assert (Bc' : BE (chain_mid (EIf c a b)) (build_branch c)) by (simpl; mono Bc; rewrite <- orb_assoc; auto using orb_l).
    assert (Ea' : EE (chain_mid (EIf c a b)) (build_expr a)) by (simpl; mono Ea; apply orb_l; auto using orb_r).
    assert (Ba' : BE (chain_mid (EIf c a b)) (build_branch a)) by (simpl; mono Ba; apply orb_l; auto using orb_r).
    assert (Eb' : EE (chain_mid (EIf c a b)) (build_expr b)) by (simpl; mono Eb).
    assert (Bb' : BE (chain_mid (EIf c a b)) (build_branch b)) by (simpl; mono Bb).
    split.
    + intros bb. simpl build_expr. eb; auto with errs. eb; auto with errs. eb; [apply Bc'|]. eb; [apply Ea'|]. eb; [apply Eb'|].
      repeat (eb; auto with errs).
    + intros bb t f. simpl build_branch. eb; auto with errs. eb; auto with errs. eb; [apply Bc'|]. eb; [apply Ba' | apply Bb'].
  - (* EWalrus *) intros x e [E _].
    assert (G : EE (chain_mid (EWalrus x e)) (bx_walrus x (build_expr e))) by (apply EE_walrus; auto).
    split; [exact G | simpl build_branch; apply BE_gen; exact G].
  - (* ECall *) intros f [Ef _] args Ea.
    assert (G : EE (chain_mid (ECall f args)) (bx_call (build_expr f) (build_exprs args))).
    { apply EE_call; [mono Ef | mono Ea]. }
    split; [exact G | simpl build_branch; apply BE_gen; exact G].
  - (* ETuple *) intros es E.
    assert (G : EE (chain_mid (ETuple es)) (bx_list ETuple (build_exprs es))) by (apply EE_list; auto).
    split; [exact G | simpl build_branch; apply BE_gen; exact G].
  - (* EList *) intros es E.
    assert (G : EE (chain_mid (EList es)) (bx_list EList (build_exprs es))) by (apply EE_list; auto).
    split; [exact G | simpl build_branch; apply BE_gen; exact G].
  - (* ESub *) intros v [Ev _] i [Ei _].
    assert (G : EE (chain_mid (ESub v i)) (bx_2 ESub (build_expr v) (build_expr i))).
    { apply EE_2; [mono Ev | mono Ei]. }
    split; [exact G | simpl build_branch; apply BE_gen; exact G].
  - (* EAttr *) intros v [Ev _] a.
    assert (G : EE (chain_mid (EAttr v a)) (bx_1 (fun x => EAttr x a) (build_expr v))) by (apply EE_1; auto).
    split; [exact G | simpl build_branch; apply BE_gen; exact G].
  - (* EStarred *) intros e [E _].
    assert (G : EE (chain_mid (EStarred e)) (bx_1 EStarred (build_expr e))) by (apply EE_1; auto).
    split; [exact G | simpl build_branch; apply BE_gen; exact G].
  - (* EComp *) intros k elt [Ee _] gs Eg.
    assert (G : EE (chain_mid (EComp k elt gs))
               (fun bb => if has_illegal elt || has_illegal_gens gs then fail ErrIllegalInComp
                          else LET rg <- build_gens gs bb IN LET re <- build_expr elt (snd rg) IN
                               ret (EDesugared k (fst re) (fst rg), snd re))).
    { intros bb. destruct (has_illegal elt || has_illegal_gens gs); [apply errs_fail; left; auto|].
      eb; [eapply errs_weaken; [apply Eg|]; intros; eapply XE_mono; [|eauto]; intro; simpl; auto using orb_r|].
      eb; [|auto with errs]. eapply errs_weaken; [apply Ee|]. intros. eapply XE_mono; [|eauto]. intro. simpl. auto using orb_l. }
    split; [exact G | simpl build_branch; apply BE_gen; exact G].
  - (* EDesugared *) intros k elt _ gs _. split; [intros bb; simpl; auto with errs | simpl; apply BE_gen; intros bb; auto with errs].
  - (* EComptime *) intros args _.
    assert (G : EE (chain_mid (EComptime args))
               (fun bb => match args with ENil => fail ErrEmptyComptime | _ => ret (EComptime args, bb) end)).
    { intros bb. destruct args; [apply errs_fail; right; left; auto | auto with errs]. }
    split; [exact G | simpl build_branch; apply BE_gen; exact G].
  - (* EOther *) intros k es E.
    assert (G : EE (chain_mid (EOther k es)) (bx_list (EOther k) (build_exprs es))) by (apply EE_list; auto).
    split; [exact G | simpl build_branch; apply BE_gen; exact G].
  - (* EMakeIter *) intros e [E _].
    assert (G : EE (chain_mid (EMakeIter e)) (bx_1 EMakeIter (build_expr e))) by (apply EE_1; auto).
    split; [exact G | simpl build_branch; apply BE_gen; exact G].
  - (* EIterNext *) intros e [E _].
    assert (G : EE (chain_mid (EIterNext e)) (bx_1 EIterNext (build_expr e))) by (apply EE_1; auto).
    split; [exact G | simpl build_branch; apply BE_gen; exact G].
  - (* ENil *) intros bb. simpl. auto with errs.
  - (* ECons *) intros e [Ee _] es Es bb. simpl build_exprs.
    eb; [eapply errs_weaken; [apply Ee|]; intros; eapply XE_mono; [|eauto]; intro; simpl; auto using orb_l|].
    eb; [|auto with errs]. eapply errs_weaken; [apply Es|]. intros. eapply XE_mono; [|eauto]. intro. simpl. auto using orb_r.
  - (* CLast *) intros op e [E _]. split; auto. intros l' bb extra t f. simpl. eb; [apply E | auto with errs].
  - (* CMore *) intros op m [Em _] rest [Hc _]. split; auto.
    intros l' bb extra t f. simpl build_ctail. destruct (lift_free m) eqn:LF.
    + eb; [destruct extra; auto with errs|]. eb.
      * eapply errs_weaken; [apply Em|]. intros. eapply XE_mono; [|eauto]. intro. simpl. rewrite LF. simpl. auto using orb_l.
      * eb; auto with errs. eapply errs_weaken; [apply Hc|]. intros. eapply XE_mono; [|eauto]. intro. simpl. auto using orb_r.
    + apply errs_fail. right. right. split; auto. simpl. rewrite LF. auto.
  - (* GNil *) intros bb. simpl. auto with errs.
  - (* GCons *) intros t [Et _] it [Ei _] ifs Ec r Er bb. simpl build_gens.
    eb; [eapply errs_weaken; [apply Ei|]; intros; eapply XE_mono; [|eauto]; intro; simpl; rewrite H0; repeat rewrite orb_true_r; auto|].
    eb; [eapply errs_weaken; [apply Et|]; intros; eapply XE_mono; [|eauto]; intro; simpl; rewrite H0; auto|].
    eb; [eapply errs_weaken; [apply Ec|]; intros; eapply XE_mono; [|eauto]; intro; simpl; rewrite H0; repeat rewrite orb_true_r; auto|].
    eb; auto with errs.
    eb; [|auto with errs]. eapply errs_weaken; [apply Er|]. intros. eapply XE_mono; [|eauto]. intro. simpl. auto using orb_r.
Qed.
