(** C02 — totality of the builder model: which errors it can return. *)
From Coq Require Import ZArith List Bool Lia.
From V.C03 Require Import PyAst.
From V.C02 Require Import Ast Builder.
Import ListNotations.

(* ------------------------------------------------------------------ reachability never runs out of fuel *)
Fixpoint cost (g : list block) (seen : list bool) : nat :=
  match g, seen with
  | b :: g', r :: seen' => (if r then 0 else length (b_succs b)) + cost g' seen'
  | _, _ => 0
  end.

Lemma upd_nth_length : forall A i (f : A -> A) l, length (upd_nth i f l) = length l.
Proof. induction i; destruct l; simpl; auto. Qed.

Lemma cost_mark : forall g seen i b,
  length seen = length g -> nth_error g i = Some b -> nth_reach seen i = false ->
  cost g (upd_nth i (fun _ => true) seen) + length (b_succs b) = cost g seen.
Proof.
  unfold nth_reach. induction g; intros seen i b L N S.
  - destruct i; discriminate.
  - destruct seen as [|r seen']; [discriminate|]. simpl in L. destruct i; simpl in *.
    + inversion N; subst. lia.
    + specialize (IHg seen' i b). rewrite <- IHg; auto; lia.
Qed.

Lemma reach_wl_total : forall fuel g work seen,
  length seen = length g -> length work + cost g seen <= fuel ->
  exists r, reach_wl fuel g work seen = Some r.
Proof.
  induction fuel; intros g work seen L F.
  - destruct work; simpl in *; [eauto | lia].
  - destruct work as [|i rest]; simpl; [eauto|]. simpl in F.
    destruct (nth_reach seen i) eqn:S.
    + apply IHfuel; auto. lia.
    + destruct (nth_error g i) as [b|] eqn:N.
      * apply IHfuel; [rewrite upd_nth_length; auto|].
        pose proof (cost_mark g seen i b L N S). rewrite app_length. lia.
      * apply IHfuel; auto. lia.
Qed.

Lemma cost_init : forall g, cost g (map (fun _ => false) g) = edge_count g.
Proof. induction g; simpl; auto. Qed.

Lemma mark_reachable_total : forall g, exists g1, mark_reachable g = Some g1.
Proof.
  intros g. unfold mark_reachable.
  destruct (reach_wl_total (2 + edge_count g + length g) g [entry_idx] (map (fun _ => false) g)) as [r R].
  - apply map_length.
  - rewrite cost_init. simpl. lia.
  - rewrite R. eauto.
Qed.

Lemma finalize_errors : forall blocks final rn e,
  finalize blocks final rn = inr e -> e = ErrExpectedReturn.
Proof.
  unfold finalize. intros blocks final rn e H.
  destruct (mark_reachable_total blocks) as [g1 M]. rewrite M in H.
  destruct final; [|discriminate]. destruct (blk_reach _ _); [|discriminate]. destruct rn; [discriminate|].
  inversion H; auto.
Qed.

(* ------------------------------------------------------------------ error tracking *)
Definition errs {A} (m : M A) (E : berr -> Prop) : Prop := forall s err, m s = BErr err -> E err.

Lemma errs_ret : forall A (a : A) E, errs (ret a) E.
Proof. unfold errs, ret. intros. discriminate. Qed.
Lemma errs_fail : forall A e (E : berr -> Prop), E e -> errs (@fail A e) E.
Proof. unfold errs, fail. intros. inversion H0; subst; auto. Qed.
Lemma errs_bind : forall A B (m : M A) (f : A -> M B) E,
  errs m E -> (forall a, errs (f a) E) -> errs (bind m f) E.
Proof.
  unfold errs, bind. intros A B m f E Hm Hf s err H. destruct (m s) eqn:X; [eapply Hf; eauto | inversion H; subst; eauto].
Qed.
Lemma errs_weaken : forall A (m : M A) (E F : berr -> Prop), errs m E -> (forall e, E e -> F e) -> errs m F.
Proof. unfold errs. eauto. Qed.
Lemma errs_modify : forall i f E, errs (modify i f) E.
Proof. unfold errs, modify. intros. discriminate. Qed.
Lemma errs_new_bb : forall E, errs new_bb E.
Proof. unfold errs, new_bb. intros. discriminate. Qed.
Lemma errs_fresh : forall E, errs fresh_tmp E.
Proof. unfold errs, fresh_tmp. intros. discriminate. Qed.
Lemma errs_link : forall a b E, errs (link a b) E.
Proof. intros. apply errs_modify. Qed.
Lemma errs_dummy : forall a b E, errs (dummy_link a b) E.
Proof. intros. apply errs_modify. Qed.
Lemma errs_add : forall a b E, errs (add_stmt a b) E.
Proof. intros. apply errs_modify. Qed.
Lemma errs_close : forall bb p f t E, errs (close_branch bb p f t) E.
Proof. intros. unfold close_branch. apply errs_bind; [apply errs_modify|intros]. apply errs_bind; [apply errs_link|intros]. apply errs_link. Qed.

#[export] Hint Resolve errs_ret errs_new_bb errs_fresh errs_link errs_dummy errs_add errs_close errs_modify : errs.

Ltac ea := cbv beta; first [apply errs_ret | apply errs_new_bb | apply errs_fresh | apply errs_link | apply errs_dummy
                          | apply errs_add | apply errs_close | apply errs_modify | idtac].
Ltac eb := apply errs_bind; [|intros].

(** errors of the expression builders on [e]: the two user errors, or the model declining on a
    chained comparison with a lifted middle operand inside [e] *)
Definition XE (c : bool) (err : berr) : Prop :=
  err = ErrIllegalInComp \/ err = ErrEmptyComptime \/ (err = ErrUnmodelled /\ c = true).

Lemma XE_mono : forall c d err, (c = true -> d = true) -> XE c err -> XE d err.
Proof. unfold XE. intros c d err H [?|[?|[? ?]]]; auto. Qed.

Definition EE (c : bool) (v : nat -> M (expr * nat)) : Prop := forall bb, errs (v bb) (XE c).
Definition EES (c : bool) (v : nat -> M (exprs * nat)) : Prop := forall bb, errs (v bb) (XE c).
Definition BE (c : bool) (v : nat -> nat -> nat -> M unit) : Prop := forall bb t f, errs (v bb t f) (XE c).

Lemma EE_mono : forall c d v, (c = true -> d = true) -> EE c v -> EE d v.
Proof. intros c d v H E bb. eapply errs_weaken; [apply E|]. intros. eapply XE_mono; eauto. Qed.
Lemma EES_mono : forall c d v, (c = true -> d = true) -> EES c v -> EES d v.
Proof. intros c d v H E bb. eapply errs_weaken; [apply E|]. intros. eapply XE_mono; eauto. Qed.
Lemma BE_mono : forall c d v, (c = true -> d = true) -> BE c v -> BE d v.
Proof. intros c d v H E bb t f. eapply errs_weaken; [apply E|]. intros. eapply XE_mono; eauto. Qed.

Lemma BE_gen : forall c v, EE c v -> BE c (gen_branch v).
Proof. intros c v H bb t f. unfold gen_branch. eb; [apply H | ea]. Qed.

Lemma EE_unary : forall c op a, EE c (build_expr a) -> EE c (bx_unary op a (build_expr a)).
Proof.
  intros c op a H bb. unfold bx_unary.
  assert (G : errs (LET r <- build_expr a bb IN ret (EUnary op (fst r), snd r)) (XE c)) by (eb; [apply H | ea]).
  destruct op; auto. destruct a; auto. destruct (neg_const c0); ea.
Qed.
Lemma EE_1 : forall c k ra, EE c ra -> EE c (bx_1 k ra).
Proof. intros c k ra H bb. unfold bx_1. eb; [apply H | ea]. Qed.
Lemma EE_2 : forall c k ra rb, EE c ra -> EE c rb -> EE c (bx_2 k ra rb).
Proof. intros c k ra rb Ha Hb bb. unfold bx_2. eb; [apply Ha|]. eb; [apply Hb | ea]. Qed.
Lemma EE_list : forall c k ras, EES c ras -> EE c (bx_list k ras).
Proof. intros c k ras H bb. unfold bx_list. eb; [apply H | ea]. Qed.
Lemma EE_call : forall c rf ras, EE c rf -> EES c ras -> EE c (bx_call rf ras).
Proof. intros c rf ras Hf Ha bb. unfold bx_call. eb; [apply Hf|]. eb; [apply Ha | ea]. Qed.
Lemma EE_walrus : forall c x ra, EE c ra -> EE c (bx_walrus x ra).
Proof. intros c x ra H bb. unfold bx_walrus. eb; [apply H|]. eb; ea. Qed.
Lemma EE_lift : forall c br, BE c br -> EE c (lift_bool br).
Proof.
  intros c br H bb. unfold lift_bool. eb; ea. eb; ea. eb; [apply H|].
  repeat (eb; ea).
Qed.
Lemma BE_bool : forall c op ba bb_, BE c ba -> BE c bb_ -> BE c (br_bool op ba bb_).
Proof.
  intros c op ba bb_ Ha Hb bb t f. unfold br_bool. eb; ea. eb; [destruct op; apply Ha | apply Hb].
Qed.

Lemma orb_l : forall a b, a = true -> a || b = true.
Proof. intros; subst; auto. Qed.
Lemma orb_r : forall a b, b = true -> a || b = true.
Proof. intros; subst; apply orb_true_r. Qed.

Definition T_expr (e : expr) : Prop := EE (chain_mid e) (build_expr e) /\ BE (chain_mid e) (build_branch e).
Definition T_exprs (es : exprs) : Prop := EES (chain_mid_list es) (build_exprs es).
Definition T_ctail (ct : ctail) : Prop :=
  (forall l' bb extra t f, errs (build_ctail l' ct bb extra t f) (XE (chain_mid_ctail ct))) /\
  match ct with CLast _ r => EE (chain_mid r) (build_expr r) | CMore _ _ _ => True end.
Definition T_gens (gs : gens) : Prop := forall bb, errs (build_gens gs bb) (XE (chain_mid_gens gs)).

Lemma chain_errs : forall c l rest,
  EE c (build_expr l) -> (forall l' bb extra t f, errs (build_ctail l' rest bb extra t f) (XE c)) ->
  BE c (fun bb t f =>
        LET extra <- new_bb IN
        LET r <- build_expr l bb IN
        build_ctail (fst r) rest (snd r) (Some extra) t f).
Proof. intros c l rest Hl Hc bb t f. eb; ea. eb; [apply Hl | apply Hc]. Qed.

Lemma build_expr_chain : forall l op m r,
  build_expr (ECmp l (CMore op m r)) =
  lift_bool (fun bb t f =>
        LET extra <- new_bb IN
        LET r0 <- build_expr l bb IN
        build_ctail (fst r0) (CMore op m r) (snd r0) (Some extra) t f).
Proof. reflexivity. Qed.
Lemma build_branch_chain : forall l op m r,
  build_branch (ECmp l (CMore op m r)) =
  (fun bb t f =>
        LET extra <- new_bb IN
        LET r0 <- build_expr l bb IN
        build_ctail (fst r0) (CMore op m r) (snd r0) (Some extra) t f).
Proof. reflexivity. Qed.

Ltac mono H := first [eapply EE_mono | eapply EES_mono | eapply BE_mono]; [|apply H]; intro; simpl; auto using orb_l, orb_r.

Lemma total_all : (forall e, T_expr e) /\ (forall es, T_exprs es) /\ (forall ct, T_ctail ct) /\ (forall gs, T_gens gs).
Proof.
  apply expr_mutind; unfold T_expr, T_exprs, T_ctail, T_gens.
  - (* EConst *) intros c. split; [intros bb; cbv beta; ea|].
    simpl. destruct c; try (apply BE_gen; intros bb; cbv beta; ea).
    intros bb t f. eb; ea.
  - (* EName *) intros x. split; [intros bb; cbv beta; ea | apply BE_gen; intros bb; cbv beta; ea].
  - (* EUnary *) intros op e [E B]. split; [simpl; apply EE_unary; auto|].
    simpl. destruct op; try (apply BE_gen; apply EE_unary; auto). intros bb t f. apply B.
  - (* EBin *) intros op a [Ea _] b [Eb _].
    assert (G : EE (chain_mid (EBin op a b)) (bx_2 (EBin op) (build_expr a) (build_expr b))).
    { apply EE_2; [mono Ea | mono Eb]. }
    split; [exact G | simpl build_branch; apply BE_gen; exact G].
  - (* ECmp *) intros l [El _] rest [Hc Hlast]. destruct rest as [op r | op m rest'].
    + assert (G : EE (chain_mid (ECmp l (CLast op r))) (bx_2 (fun x y => ECmp x (CLast op y)) (build_expr l) (build_expr r))).
      { apply EE_2; [mono El | mono Hlast]. }
      split; [exact G | simpl build_branch; apply BE_gen; exact G].
    + rewrite build_expr_chain, build_branch_chain.
      assert (G : BE (chain_mid (ECmp l (CMore op m rest')))
                (fun bb t f => LET extra <- new_bb IN LET r0 <- build_expr l bb IN
                               build_ctail (fst r0) (CMore op m rest') (snd r0) (Some extra) t f)).
      { apply chain_errs; [mono El|]. intros. eapply errs_weaken; [apply Hc|].
        intros. eapply XE_mono; [|eauto]. intro. change (chain_mid l || chain_mid_ctail (CMore op m rest') = true).
        auto using orb_r. }
      split; [apply EE_lift; exact G | exact G].
  - (* EBool *) intros op a [_ Ba] b [_ Bb].
    assert (G : BE (chain_mid (EBool op a b)) (br_bool op (build_branch a) (build_branch b))).
    { apply BE_bool; [mono Ba | mono Bb]. }
    split; [simpl build_expr; apply EE_lift; exact G | exact G].
  - (* EIf *) intros c [_ Bc] a [Ea Ba] b [Eb Bb].
    assert (Bc' : BE (chain_mid (EIf c a b)) (build_branch c)) by (simpl; mono Bc; rewrite <- orb_assoc; auto using orb_l).
    assert (Ea' : EE (chain_mid (EIf c a b)) (build_expr a)) by (simpl; mono Ea; apply orb_l; auto using orb_r).
    assert (Ba' : BE (chain_mid (EIf c a b)) (build_branch a)) by (simpl; mono Ba; apply orb_l; auto using orb_r).
    assert (Eb' : EE (chain_mid (EIf c a b)) (build_expr b)) by (simpl; mono Eb).
    assert (Bb' : BE (chain_mid (EIf c a b)) (build_branch b)) by (simpl; mono Bb).
    split.
    + intros bb. simpl build_expr. eb; ea. eb; ea. eb; [apply Bc'|]. eb; [apply Ea'|]. eb; [apply Eb'|].
      repeat (eb; ea).
    + intros bb t f. simpl build_branch. eb; ea. eb; ea. eb; [apply Bc'|]. eb; [apply Ba' | apply Bb'].
  - (* EWalrus *) intros x e [E _].
    assert (G : EE (chain_mid (EWalrus x e)) (bx_walrus x (build_expr e))) by (apply EE_walrus; auto).
    split; [exact G | simpl build_branch; apply BE_gen; exact G].
  - (* ECall *) intros f [Ef _] args Ea.
    assert (G : EE (chain_mid (ECall f args)) (bx_call (build_expr f) (build_exprs args))).
    { apply EE_call; [mono Ef | mono Ea]. }
    split; [exact G | simpl build_branch; apply BE_gen; exact G].
  - (* ETuple *) intros es E.
    assert (G : EE (chain_mid (ETuple es)) (bx_list ETuple (build_exprs es))) by (apply EE_list; auto).
    split; [exact G | simpl build_branch; apply BE_gen; exact G].
  - (* EList *) intros es E.
    assert (G : EE (chain_mid (EList es)) (bx_list EList (build_exprs es))) by (apply EE_list; auto).
    split; [exact G | simpl build_branch; apply BE_gen; exact G].
  - (* ESub *) intros v [Ev _] i [Ei _].
    assert (G : EE (chain_mid (ESub v i)) (bx_2 ESub (build_expr v) (build_expr i))).
    { apply EE_2; [mono Ev | mono Ei]. }
    split; [exact G | simpl build_branch; apply BE_gen; exact G].
  - (* EAttr *) intros v [Ev _] a.
    assert (G : EE (chain_mid (EAttr v a)) (bx_1 (fun x => EAttr x a) (build_expr v))) by (apply EE_1; auto).
    split; [exact G | simpl build_branch; apply BE_gen; exact G].
  - (* EStarred *) intros e [E _].
    assert (G : EE (chain_mid (EStarred e)) (bx_1 EStarred (build_expr e))) by (apply EE_1; auto).
    split; [exact G | simpl build_branch; apply BE_gen; exact G].
  - (* EComp *) intros k elt [Ee _] gs Eg.
    assert (G : EE (chain_mid (EComp k elt gs))
               (fun bb => if has_illegal elt || has_illegal_gens gs then fail ErrIllegalInComp
                          else LET rg <- build_gens gs bb IN LET re <- build_expr elt (snd rg) IN
                               ret (EDesugared k (fst re) (fst rg), snd re))).
    { intros bb. destruct (has_illegal elt || has_illegal_gens gs); [apply errs_fail; left; auto|].
      eb; [eapply errs_weaken; [apply Eg|]; intros; eapply XE_mono; [|eauto]; intro; simpl; auto using orb_r|].
      eb; [|ea]. eapply errs_weaken; [apply Ee|]. intros. eapply XE_mono; [|eauto]. intro. simpl. auto using orb_l. }
    split; [exact G | simpl build_branch; apply BE_gen; exact G].
  - (* EDesugared *) intros k elt _ gs _. split; [intros bb; cbv beta; simpl; ea | simpl; apply BE_gen; intros bb; cbv beta; ea].
  - (* EComptime *) intros args _.
    assert (G : EE (chain_mid (EComptime args))
               (fun bb => match args with ENil => fail ErrEmptyComptime | _ => ret (EComptime args, bb) end)).
    { intros bb. destruct args; [apply errs_fail; right; left; auto | ea]. }
    split; [exact G | simpl build_branch; apply BE_gen; exact G].
  - (* EOther *) intros k es E.
    assert (G : EE (chain_mid (EOther k es)) (bx_list (EOther k) (build_exprs es))) by (apply EE_list; auto).
    split; [exact G | simpl build_branch; apply BE_gen; exact G].
  - (* EMakeIter *) intros e [E _].
    assert (G : EE (chain_mid (EMakeIter e)) (bx_1 EMakeIter (build_expr e))) by (apply EE_1; auto).
    split; [exact G | simpl build_branch; apply BE_gen; exact G].
  - (* EIterNext *) intros e [E _].
    assert (G : EE (chain_mid (EIterNext e)) (bx_1 EIterNext (build_expr e))) by (apply EE_1; auto).
    split; [exact G | simpl build_branch; apply BE_gen; exact G].
  - (* ENil *) intros bb. simpl. ea.
  - (* ECons *) intros e [Ee _] es Es bb. simpl build_exprs.
    eb; [eapply errs_weaken; [apply Ee|]; intros; eapply XE_mono; [|eauto]; intro; simpl; auto using orb_l|].
    eb; [|ea]. eapply errs_weaken; [apply Es|]. intros. eapply XE_mono; [|eauto]. intro. simpl. auto using orb_r.
  - (* CLast *) intros op e [E _]. split; auto. intros l' bb extra t f. simpl. eb; [apply E | ea].
  - (* CMore *) intros op m [Em _] rest [Hc _]. split; auto.
    intros l' bb extra t f. simpl build_ctail. destruct (lift_free m) eqn:LF.
    + eb; [destruct extra; ea|]. eb.
      * eapply errs_weaken; [apply Em|]. intros. eapply XE_mono; [|eauto]. intro. simpl. rewrite LF. simpl. auto using orb_l.
      * eb; ea. eapply errs_weaken; [apply Hc|]. intros. eapply XE_mono; [|eauto]. intro. simpl. auto using orb_r.
    + apply errs_fail. right. right. split; auto. simpl. rewrite LF. auto.
  - (* GNil *) intros bb. simpl. ea.
  - (* GCons *) intros t [Et _] it [Ei _] ifs Ec r Er bb. simpl build_gens.
    eb; [eapply errs_weaken; [apply Ei|]; intros; eapply XE_mono; [|eauto]; intro; simpl; rewrite H0; repeat rewrite orb_true_r; auto|].
    eb; [eapply errs_weaken; [apply Et|]; intros; eapply XE_mono; [|eauto]; intro; simpl; rewrite H0; auto|].
    eb; [eapply errs_weaken; [apply Ec|]; intros; eapply XE_mono; [|eauto]; intro; simpl; rewrite H0; repeat rewrite orb_true_r; auto|].
    eb; ea.
    eb; [|ea]. eapply errs_weaken; [apply Er|]. intros. eapply XE_mono; [|eauto]. intro. simpl. auto using orb_r.
Qed.

(* ------------------------------------------------------------------ statements *)
Definition SE (c : bool) (err : berr) : Prop :=
  XE c err \/ err = ErrLoopElse \/ err = ErrUnsupportedStmt \/ err = ErrExpectedReturn.

Lemma SE_mono : forall c d err, (c = true -> d = true) -> SE c err -> SE d err.
Proof. unfold SE. intros c d err H [X|?]; auto. left. eapply XE_mono; eauto. Qed.

Definition jumps_ok (inloop : bool) (j : jumps) : Prop :=
  inloop = true -> j_brk j <> None /\ j_cont j <> None.

Definition T_stmt (s : stmt) : Prop :=
  forall inloop bb j, loops_ok inloop s = true -> jumps_ok inloop j ->
  errs (visit_stmt s bb j) (SE (chain_mid_stmt s)).
Definition T_stmts (ss : stmts) : Prop :=
  forall inloop prev cur j, loops_ok_list inloop ss = true -> jumps_ok inloop j ->
  errs (visit_stmts ss prev cur j) (SE (chain_mid_stmts ss)).

Lemma xe_expr : forall e c bb, (chain_mid e = true -> c = true) -> errs (build_expr e bb) (SE c).
Proof.
  intros e c bb H. eapply errs_weaken; [apply (proj1 (proj1 total_all e))|].
  intros. left. eapply XE_mono; eauto.
Qed.
Lemma xe_exprs : forall es c bb, (chain_mid_list es = true -> c = true) -> errs (build_exprs es bb) (SE c).
Proof.
  intros es c bb H. eapply errs_weaken; [apply (proj1 (proj2 total_all) es)|].
  intros. left. eapply XE_mono; eauto.
Qed.
Lemma xe_branch : forall e c bb t f, (chain_mid e = true -> c = true) -> errs (build_branch e bb t f) (SE c).
Proof.
  intros e c bb t f H. eapply errs_weaken; [apply (proj2 (proj1 total_all e))|].
  intros. left. eapply XE_mono; eauto.
Qed.

Ltac orb_solve := intro; simpl; repeat rewrite orb_true_iff; auto 6.

Lemma jumps_ok_loop : forall r h t, jumps_ok true (mkJ r (Some h) (Some t)).
Proof. unfold jumps_ok. simpl. intros. split; discriminate. Qed.

Lemma visit_total : (forall s, T_stmt s) /\ (forall ss, T_stmts ss).
Proof.
  apply stmt_mutind; unfold T_stmt, T_stmts.
  - (* SAssign *) intros ts e inloop bb j _ _. simpl visit_stmt.
    eb; [apply xe_expr; orb_solve|]. eb; [apply xe_exprs; orb_solve|]. eb; ea.
  - (* SAug *) intros t op e inloop bb j _ _. simpl visit_stmt.
    eb; [apply xe_expr; orb_solve|]. eb; [apply xe_expr; orb_solve|]. eb; ea.
  - (* SAnn *) intros t e inloop bb j _ _. destruct e as [e|]; simpl visit_stmt.
    + eb; [apply xe_expr; orb_solve|]. eb; [apply xe_expr; orb_solve|]. eb; ea.
    + eb; [apply xe_expr; orb_solve|]. eb; ea.
  - (* SExpr *) intros e inloop bb j _ _. simpl visit_stmt. eb; [apply xe_expr; orb_solve|].
    eb; [|ea]. destruct (is_tmp_name (fst a)); ea.
  - (* SIf *) intros c body IHb orelse IHo inloop bb j L J. simpl in L.
    apply andb_true_iff in L as [L1 L2]. simpl visit_stmt.
    eb; [ea|]. eb; [ea|]. eb; [apply xe_branch; orb_solve|].
    eb; [eapply errs_weaken; [eapply IHb; eauto|]; intros; eapply SE_mono; [|eauto]; orb_solve|].
    eb; [eapply errs_weaken; [eapply IHo; eauto|]; intros; eapply SE_mono; [|eauto]; orb_solve|].
    match goal with |- errs (match ?x with _ => _ end) _ => destruct x end;
    match goal with |- errs (match ?x with _ => _ end) _ => destruct x | _ => idtac end; try ea.
    eb; [ea|]. eb; [ea|]. eb; ea.
  - (* SWhile *) intros c body IHb orelse IHo inloop bb j L J. simpl in L.
    apply andb_true_iff in L as [L1 L2]. simpl visit_stmt.
    destruct orelse; [|apply errs_fail; right; left; auto].
    eb; [ea|]. eb; [ea|]. eb; [ea|]. eb; [ea|]. eb; [apply xe_branch; orb_solve|].
    eb; [eapply errs_weaken; [eapply IHb; [eauto | apply jumps_ok_loop]|]; intros; eapply SE_mono; [|eauto]; orb_solve|].
    eb; [|ea]. match goal with |- errs (match ?x with _ => _ end) _ => destruct x end; ea.
  - (* SFor *) intros t it body IHb orelse IHo inloop bb j L J. simpl in L.
    apply andb_true_iff in L as [L1 L2]. simpl visit_stmt.
    destruct orelse; [|apply errs_fail; right; left; auto].
    eb; [ea|]. eb; [ea|]. eb; [apply xe_expr; orb_solve|].
    do 13 (eb; [ea|]).
    eb; [apply xe_expr; orb_solve|]. eb; [ea|].
    eb; [eapply errs_weaken; [eapply IHb; [eauto | apply jumps_ok_loop]|]; intros; eapply SE_mono; [|eauto]; orb_solve|].
    eb; [|ea]. match goal with |- errs (match ?x with _ => _ end) _ => destruct x end; ea.
  - (* SBreak *) intros inloop bb j L J. simpl in L. subst. destruct (J eq_refl) as [B _].
    simpl visit_stmt. destruct (j_brk j); [|congruence]. eb; ea.
  - (* SContinue *) intros inloop bb j L J. simpl in L. subst. destruct (J eq_refl) as [_ C].
    simpl visit_stmt. destruct (j_cont j); [|congruence]. eb; ea.
  - (* SPass *) intros. simpl. ea.
  - (* SReturn *) intros e inloop bb j _ _. destruct e as [e|]; simpl visit_stmt.
    + eb; [apply xe_expr; orb_solve|]. eb; [ea|]. eb; ea.
    + eb; [ea|]. eb; ea.
  - (* SDef *) intros body IHb rn inloop bb j L J. simpl in L. simpl visit_stmt.
    intros s err H.
    destruct (visit_stmts body entry_idx (Some entry_idx) (mkJ exit_idx None None)
                (mkB [empty_block; empty_block] (bs_tmp s) (bs_nested s))) as [final s1|e1] eqn:V.
    + destruct (finalize (bs_blocks s1) final rn) as [g|e2] eqn:F.
      * exfalso. revert H. unfold bind, add_stmt, modify, ret. simpl. discriminate.
      * inversion H; subst. apply finalize_errors in F. subst. right. right. right. auto.
    + inversion H; subst. eapply (IHb false); eauto. unfold jumps_ok. discriminate.
  - (* SOther *) intros k inloop bb j _ _. simpl. apply errs_fail. right. right. left. auto.
  - (* SNil *) intros. simpl. ea.
  - (* SCons *) intros s IHs ss IHss inloop prev cur j L J. simpl in L. apply andb_true_iff in L as [L1 L2].
    simpl visit_stmts. eb.
    + destruct cur; [ea|]. eb; [ea|]. eb; ea.
    + eb; [eapply errs_weaken; [eapply IHs; eauto|]; intros; eapply SE_mono; [|eauto]; orb_solve|].
      eapply errs_weaken; [eapply IHss; eauto|]. intros; eapply SE_mono; [|eauto]; orb_solve.
Qed.

Lemma build_total : forall p rn,
  loops_ok_list false p = true ->
  match build p rn with
  | Built _ _ => True
  | Rejected e => user_error e = true \/ (e = ErrUnmodelled /\ chain_mid_stmts p = true)
  end.
Proof.
  intros p rn L. unfold build.
  destruct (visit_stmts p entry_idx (Some entry_idx) (mkJ exit_idx None None) init_state) as [final s|e] eqn:V.
  - destruct (finalize (bs_blocks s) final rn) as [g|e] eqn:F; auto.
    apply finalize_errors in F. subst. left. auto.
  - assert (J : jumps_ok false (mkJ exit_idx None None)) by (unfold jumps_ok; discriminate).
    destruct (proj2 visit_total p false _ _ _ L J _ _ V) as [[X|[X|[X Y]]]|[X|[X|X]]]; subst; auto.
Qed.
