(** C02 — property theorems for part (a), the builder invariant.

    The property itself ("check()/compile() either succeed or raise a located GuppyError") is
    NOT proved: no model of the type/linearity checkers exists.  What is proved here is the
    invariant those checkers rely on so as not to raise InternalGuppyError on expression
    shapes: the CFG builder never lets a BoolOp, chained comparison, conditional expression,
    assignment expression or source list comprehension survive in any block statement,
    branch predicate or assignment target (incl. nested function bodies and the inside of
    desugared comprehensions).  The rest of the property is carried by the mutation search
    of props/C02/check.py (testing, said so in meta.json). *)
From Coq Require Import ZArith List Bool.
From V.C03 Require Import PyAst.
From V.C02 Require Import Ast Builder Witness ProofsSimple ProofsTotal.
Import ListNotations.

(** For every source program (any statement/expression of [Ast], any nesting), if the builder
    model returns a CFG then every block of it and of every nested function's CFG is
    [simple_cfg]: the spec-side predicate [Ast.simple] is written over the syntax alone. *)
Theorem builder_output_simple : forall p returns_none g nested,
  src_stmts p = true ->
  build p returns_none = Built g nested ->
  simple_cfg g = true /\ forallb simple_cfg nested = true.
Proof. exact build_simple. Qed.
Print Assumptions builder_output_simple.

(** The hypotheses are satisfiable on non-trivial instances: programs with lifted constructs in
    assignment targets / for targets / nested functions / nested comprehensions are accepted by
    the model (so the conclusion says something about them), and their source is not simple. *)
Example builder_output_simple_nonvacuous :
  src_stmts w_target_ifexp = true /\ src_stmts w_for_def = true /\ src_stmts w_nested_comp = true /\
  (exists g n, build w_target_ifexp false = Built g n /\ 3 < length g) /\
  (exists g n, build w_for_def true = Built g n /\ length n = 1) /\
  (exists g n, build w_nested_comp true = Built g n).
Proof. vm_compute. repeat split; eauto; repeat eexists; repeat constructor. Qed.

(** Totality.  The model is a structurally recursive function (no fuel except in the reachability
    worklist, shown adequate), so it always returns; this theorem says WHAT it returns: for every
    program obeying CPython's compile-time rule for break/continue ([loops_ok_list false]: inside a
    loop of the same function), the builder returns a CFG, or one of the user-error classes
    (UnsupportedError for loop-else / unsupported statement / illegal expression in a comprehension,
    EmptyComptimeExprError, ExpectedError "return statement") -- never the InternalGuppyError
    "Break/Continue BB not defined", never out of fuel -- or the model declines ([ErrUnmodelled]) and
    then the program contains a chained comparison with a lifted middle operand ([chain_mid_stmts],
    a syntactic predicate): for exactly those programs only the differential check speaks. *)
Theorem builder_total : forall p returns_none,
  loops_ok_list false p = true ->
  match build p returns_none with
  | Built _ _ => True
  | Rejected e => user_error e = true \/ (e = ErrUnmodelled /\ chain_mid_stmts p = true)
  end.
Proof. exact build_total. Qed.
Print Assumptions builder_total.

(** The hypothesis is needed and the declined case is inhabited: *)
Example builder_total_hypothesis_needed :
  loops_ok_list false w_break_outside = false /\ build w_break_outside true = Rejected ErrNoLoop.
Proof. split; reflexivity. Qed.
Example builder_total_declines_on :
  loops_ok_list false w_chain_mid = true /\ build w_chain_mid true = Rejected ErrUnmodelled /\
  chain_mid_stmts w_chain_mid = true.
Proof. repeat split; reflexivity. Qed.
Example builder_total_user_errors_inhabited :
  build (SCons (SWhile (v 0) (SCons SPass SNil) (SCons SPass SNil)) SNil) true = Rejected ErrLoopElse /\
  build (SCons (SOther 0) SNil) true = Rejected ErrUnsupportedStmt /\
  build (SCons (SExpr (EComptime ENil)) SNil) true = Rejected ErrEmptyComptime /\
  build (SCons (SDef SNil false) SNil) true = Rejected ErrExpectedReturn /\
  build (SCons (SExpr (EComp KGen (EIf (v 0) (v 1) (v 2)) (GCons (v 1) (v 3) ENil GNil))) SNil) true = Rejected ErrIllegalInComp.
Proof. repeat split; reflexivity. Qed.

(** Tie of the spec-side predicate to the source: [GenCrash.crash_visitors] is regenerated from
    checker/expr_checker.py on every run (the ExprSynthesizer visitors that unconditionally raise
    InternalGuppyError; the translator separately insists on the chained-comparison guard of
    visit_Compare and on generic_visit staying a user error).  [Ast.simple] was written for
    exactly this set: a new crashing visitor breaks this proof. *)
From V.C02 Require GenCrash.
From Coq Require Import String.
Example crash_set_is_the_one_simple_describes :
  GenCrash.crash_visitors = ["BoolOp"; "IfExp"; "ListComp"; "NamedExpr"]%string /\
  simple (EBool BoAnd (v 0) (v 1)) = false /\ simple (EIf (v 0) (v 1) (v 2)) = false /\
  simple (EComp KList (v 0) (GCons (v 0) (v 1) ENil GNil)) = false /\ simple (EWalrus 0 (v 1)) = false /\
  simple (ECmp (v 0) (CMore CLt (v 1) (CLast CLt (v 2)))) = false.
Proof. repeat split; reflexivity. Qed.
