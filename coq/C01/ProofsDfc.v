(* C01 — DFContainer: the "one holder per linear place" invariant is preserved *)
From Coq Require Import ZArith List Bool Lia.
From V.C01 Require Import ModelDfc.
Import ListNotations.

(* ---------- basics --------------------------------------------------------------------- *)

Lemma pid_eqb_eq : forall a b, pid_eqb a b = true <-> a = b.
Proof.
  induction a as [|x a IH]; destruct b as [|y b]; simpl; split; intro H; try congruence; auto.
  - apply andb_true_iff in H as [H1 H2]. apply Nat.eqb_eq in H1. apply IH in H2. congruence.
  - inversion H; subst. rewrite Nat.eqb_refl. apply IH. reflexivity.
Qed.

Lemma pid_eqb_refl : forall a, pid_eqb a a = true.
Proof. intro. apply pid_eqb_eq. reflexivity. Qed.

Lemma lookup_Some_In : forall p l w, lookup p l = Some w -> In p (map fst l).
Proof.
  induction l as [|[q v] l IH]; simpl; intros w H; [discriminate|].
  destruct (pid_eqb p q) eqn:E; [left; symmetry; apply pid_eqb_eq; auto | right; eauto].
Qed.

Lemma lookup_None_notIn : forall p l, lookup p l = None -> ~ In p (map fst l).
Proof.
  induction l as [|[q v] l IH]; simpl; intros H; [tauto|].
  destruct (pid_eqb p q) eqn:E; [discriminate|].
  intros [H1 | H1]; [subst; rewrite pid_eqb_refl in E; discriminate | apply IH; auto].
Qed.

Lemma In_remove : forall p l q, In q (map fst (remove p l)) <-> In q (map fst l) /\ q <> p.
Proof.
  intros p l q. unfold remove. rewrite !in_map_iff. split.
  - intros [[a w] [H1 H2]]. apply filter_In in H2 as [H2 H3]. simpl in *. subst. split; [exists (q, w); auto|].
    intro. subst. rewrite pid_eqb_refl in H3. discriminate.
  - intros [[[a w] [H1 H2]] H3]. simpl in *. subst. exists (q, w). split; auto. apply filter_In. split; auto.
    simpl. destruct (pid_eqb p q) eqn:E; auto. apply pid_eqb_eq in E. congruence.
Qed.

Lemma In_remove_all : forall as_ l q,
  In q (map fst (fold_left (fun l a => remove a l) as_ l)) <-> In q (map fst l) /\ ~ In q as_.
Proof.
  induction as_ as [|a as_ IH]; simpl; intros l q; [tauto|].
  rewrite IH, In_remove. split; intros H; [destruct H as [[H1 H2] H3]; split; auto; intros [H4 | H4]; auto
                                          | destruct H as [H1 H2]; repeat split; auto].
Qed.

Lemma pop_linear_keys : forall env ps l l', pop_linear env ps l = Some l' ->
  forall q, In q (map fst l') <-> In q (map fst l) /\ ~ (In q ps /\ lin_at env q = true).
Proof.
  induction ps as [|c ps IH]; simpl; intros l l' H q.
  - inversion H; subst. tauto.
  - destruct (lin_at env c) eqn:E.
    + destruct (lookup c l); [|discriminate]. rewrite (IH _ _ H q), In_remove.
      split; intros Hq.
      * destruct Hq as [[H1 H2] H3]. split; auto. intros [[H4 | H4] H5]; [congruence | tauto].
      * destruct Hq as [H1 H2]. repeat split; auto; [intro; subst; apply H2; auto | intros [H3 H4]; apply H2; auto].
    + rewrite (IH _ _ H q). split; intros [H1 H2]; split; auto.
      * intros [[H3 | H3] H4]; [subst; congruence | tauto].
      * intros [H3 H4]. apply H2. auto.
Qed.

(* ---------- types along a path ---------------------------------------------------------- *)

Lemma ty_at_snoc : forall env p i, p <> [] -> ty_at env (p ++ [i]) = step (ty_at env p) i.
Proof.
  intros env [|r sel] i H; [congruence|]. simpl. rewrite fold_left_app. reflexivity.
Qed.

Lemma forallb_nth : forall (f : ty -> bool) cs i c, forallb f cs = true -> nth_error cs i = Some c -> f c = true.
Proof.
  intros f cs i c H Hn. rewrite forallb_forall in H. apply H. eapply nth_error_In; eauto.
Qed.

Lemma forallb_false_nth : forall (f : ty -> bool) cs, forallb f cs = false ->
  exists i c, nth_error cs i = Some c /\ f c = false.
Proof.
  induction cs as [|c cs IH]; simpl; intro H; [discriminate|].
  destruct (f c) eqn:E.
  - destruct (IH H) as [i [c' [H1 H2]]]. exists (S i), c'. auto.
  - exists 0, c. auto.
Qed.

Lemma linear_child_parent : forall cs i c, nth_error cs i = Some c -> linear c = true -> linear (TNode cs) = true.
Proof.
  intros cs i c Hn Hl. unfold linear in *. apply andb_true_iff in Hl as [H1 H2].
  apply negb_true_iff in H1, H2. simpl.
  destruct (forallb copyable cs) eqn:E1; [rewrite (forallb_nth _ _ _ _ E1 Hn) in H1; discriminate|].
  destruct (forallb droppable cs) eqn:E2; [rewrite (forallb_nth _ _ _ _ E2 Hn) in H2; discriminate|].
  reflexivity.
Qed.

Lemma lin_snoc : forall env p i, p <> [] -> lin_at env (p ++ [i]) = true -> lin_at env p = true.
Proof.
  intros env p i Hp H. unfold lin_at in *. rewrite ty_at_snoc in H by auto.
  destruct (ty_at env p) as [[c d|cs]|]; simpl in H; try discriminate.
  destruct (nth_error cs i) eqn:E; [|discriminate]. eapply linear_child_parent; eauto.
Qed.

Lemma lin_anc : forall env p r, p <> [] -> lin_at env (p ++ r) = true -> lin_at env p = true.
Proof.
  intros env p r Hp. induction r as [|i r IH] using rev_ind; intro H.
  - rewrite app_nil_r in H. auto.
  - rewrite app_assoc in H. apply lin_snoc in H; auto. destruct p; simpl; congruence.
Qed.

Fixpoint ty_ind' (P : ty -> Prop) (Hl : forall c d, P (TLeaf c d))
  (Hn : forall cs, Forall P cs -> P (TNode cs)) (t : ty) : P t :=
  match t with
  | TLeaf c d => Hl c d
  | TNode cs => Hn cs ((fix go (l : list ty) : Forall P l :=
                          match l with
                          | [] => Forall_nil P
                          | x :: l' => Forall_cons x (ty_ind' P Hl Hn x) (go l')
                          end) cs)
  end.

Lemma nodrop_nocopy : forall t, no_relevant t = true -> droppable t = false -> copyable t = false.
Proof.
  induction t as [c d|cs IH] using ty_ind'; simpl; intros H1 H2.
  - subst. rewrite orb_false_l in H1. apply negb_true_iff in H1. auto.
  - destruct (forallb_false_nth _ _ H2) as [i [c [Hn Hd]]].
    rewrite Forall_forall in IH.
    assert (Hc : copyable c = false).
    { apply IH; auto. eapply nth_error_In; eauto. eapply forallb_nth; eauto. }
    destruct (forallb copyable cs) eqn:E; auto. rewrite (forallb_nth _ _ _ _ E Hn) in Hc. discriminate.
Qed.

Lemma linear_node_has_linear_child : forall cs, no_relevant (TNode cs) = true -> linear (TNode cs) = true ->
  exists i c, nth_error cs i = Some c /\ linear c = true.
Proof.
  intros cs Hr Hl. unfold linear in Hl. apply andb_true_iff in Hl as [_ H2]. apply negb_true_iff in H2.
  simpl in H2. destruct (forallb_false_nth _ _ H2) as [i [c [Hn Hd]]]. exists i, c. split; auto.
  simpl in Hr. pose proof (forallb_nth _ _ _ _ Hr Hn) as Hc.
  unfold linear. rewrite (nodrop_nocopy _ Hc Hd), Hd. reflexivity.
Qed.

Lemma fold_step_norel : forall sel ot t, (forall t0, ot = Some t0 -> no_relevant t0 = true) ->
  fold_left step sel ot = Some t -> no_relevant t = true.
Proof.
  induction sel as [|i sel IH]; simpl; intros ot t H Hf; auto.
  eapply IH; [|exact Hf]. intros t0 Ht0. destruct ot as [[c d|cs]|]; simpl in Ht0; try discriminate.
  specialize (H _ eq_refl). simpl in H. eapply forallb_nth; eauto.
Qed.

Lemma ty_at_norel : forall env p t, env_ok env = true -> ty_at env p = Some t -> no_relevant t = true.
Proof.
  intros env [|r sel] t He H; simpl in H; [discriminate|].
  eapply fold_step_norel; [|exact H]. intros t0 Ht0. unfold env_ok in He. rewrite forallb_forall in He.
  apply He. eapply nth_error_In; eauto.
Qed.

(* ---------- prefixes -------------------------------------------------------------------- *)

Definition pre (p q : pid) : Prop := exists r : list nat, q = p ++ r.

Lemma child_in : forall p cs i, i < length cs -> In (p ++ [i]) (children_pids p cs).
Proof. intros. unfold children_pids. apply in_map_iff. exists i. split; auto. apply in_seq. lia. Qed.

Lemma child_inv : forall p cs c, In c (children_pids p cs) -> exists i, c = p ++ [i] /\ i < length cs.
Proof. intros p cs c H. unfold children_pids in H. apply in_map_iff in H as [i [H1 H2]]. apply in_seq in H2. exists i. split; auto. lia. Qed.

Lemma snoc_pre_neq : forall (p : pid) i j r, p ++ [i] = (p ++ [j]) ++ r -> i = j.
Proof.
  intros p i j r H. rewrite <- app_assoc in H. apply app_inv_head in H. simpl in H. inversion H. auto.
Qed.

Lemma sprefix_split : forall p q, sprefix p q -> exists i r, q = (p ++ [i]) ++ r.
Proof. intros p q [[|i r] [H1 H2]]; [congruence|]. exists i, r. rewrite <- app_assoc. auto. Qed.

Lemma app_len_absurd : forall (p : pid) i r r', p = ((p ++ [i]) ++ r) ++ r' -> False.
Proof. intros p i r r' H. apply (f_equal (@length nat)) in H. rewrite !app_length in H. simpl in H. lia. Qed.

Lemma sprefix_irrefl : forall p, ~ sprefix p p.
Proof.
  intros p [r [H1 H2]]. apply (f_equal (@length nat)) in H2. rewrite app_length in H2.
  destruct r; [congruence | simpl in H2; lia].
Qed.

Lemma anc_not_under_child : forall (x p : pid) i, sprefix x p -> ~ pre (p ++ [i]) x.
Proof.
  intros x p i [r [_ Hr]] [r' Hr']. subst x. eapply app_len_absurd. exact Hr.
Qed.

Lemma sprefix_child : forall (x p : pid) i, sprefix x p -> sprefix x (p ++ [i]).
Proof.
  intros x p i [r [_ Hr]]. exists (r ++ [i]). split; [destruct r; simpl; congruence|].
  subst. rewrite app_assoc. reflexivity.
Qed.

Lemma children_ne : forall p cs c, In c (children_pids p cs) -> c <> [].
Proof. intros p cs c H. apply child_inv in H as [i [-> _]]. destruct p; simpl; congruence. Qed.

Lemma children_fop_gen : forall (p : pid) is_, NoDup is_ ->
  ForallOrdPairs (fun c c' => ~ pre c' c) (map (fun i => p ++ [i]) is_).
Proof.
  induction is_ as [|i is_ IH]; simpl; intro Hnd; [constructor|]. inversion Hnd; subst.
  constructor; auto. rewrite Forall_forall. intros c' Hc' [r Hr].
  apply in_map_iff in Hc' as [j [<- Hj]]. apply snoc_pre_neq in Hr. subst. contradiction.
Qed.

Lemma children_fop : forall p cs, ForallOrdPairs (fun c c' => ~ pre c' c) (children_pids p cs).
Proof. intros. apply children_fop_gen, seq_NoDup. Qed.

Lemma lin_child_is_child : forall env p cs i, p <> [] -> ty_at env p = Some (TNode cs) ->
  lin_at env (p ++ [i]) = true -> In (p ++ [i]) (children_pids p cs).
Proof.
  intros env p cs i Hp Ht Hl. apply child_in. unfold lin_at in Hl. rewrite ty_at_snoc, Ht in Hl by auto.
  simpl in Hl. destruct (nth_error cs i) eqn:E; [|discriminate]. apply nth_error_Some. congruence.
Qed.

Lemma linear_child_of : forall env p cs, env_ok env = true -> p <> [] -> ty_at env p = Some (TNode cs) ->
  lin_at env p = true -> exists i, In (p ++ [i]) (children_pids p cs) /\ lin_at env (p ++ [i]) = true.
Proof.
  intros env p cs He Hp Ht Hl. unfold lin_at in Hl. rewrite Ht in Hl.
  destruct (linear_node_has_linear_child cs (ty_at_norel _ _ _ He Ht) Hl) as [i [c [Hn Hc]]].
  exists i. assert (Hlc : lin_at env (p ++ [i]) = true).
  { unfold lin_at. rewrite ty_at_snoc, Ht by auto. simpl. rewrite Hn. exact Hc. }
  split; auto. eapply lin_child_is_child; eauto.
Qed.

(* ---------- __getitem__ ------------------------------------------------------------------ *)

Definition get_ok (env : list ty) (getf : pid -> state -> option (wire * state)) : Prop :=
  forall p st, p <> [] -> dfc_inv env st ->
    (forall w st', getf p st = Some (w, st') ->
       dfc_inv env st' /\ In p (keys st') /\
       (forall q, In q (keys st') -> In q (keys st) \/ pre p q) /\
       (forall q, In q (keys st) -> ~ pre p q -> In q (keys st')))
    /\ (forall a, a <> [] -> In a (keys st) -> sprefix a p -> lin_at env p = true -> getf p st = None).

Lemma get_list_spec : forall env getf, get_ok env getf ->
  forall ps st, (forall c, In c ps -> c <> []) -> ForallOrdPairs (fun c c' => ~ pre c' c) ps -> dfc_inv env st ->
    (forall ws st', get_list getf ps st = Some (ws, st') ->
       dfc_inv env st' /\
       (forall q, In q (keys st') -> In q (keys st) \/ exists c, In c ps /\ pre c q) /\
       (forall q, In q (keys st) -> (forall c, In c ps -> ~ pre c q) -> In q (keys st')) /\
       (forall c, In c ps -> In c (keys st')))
    /\ (forall a c, a <> [] -> In a (keys st) -> (forall c', In c' ps -> ~ pre c' a) -> In c ps ->
          sprefix a c -> lin_at env c = true -> get_list getf ps st = None).
Proof.
  intros env getf Hok. induction ps as [|c0 ps IH]; intros st Hne Hfop Hinv.
  - split.
    + intros ws st' H. simpl in H. inversion H; subst. repeat split; auto. intros c [].
    + intros a c _ _ _ [].
  - inversion Hfop as [|? ? Hall Hfop']; subst.
    destruct (Hok c0 st (Hne c0 (or_introl eq_refl)) Hinv) as [H1 H2].
    split.
    + intros ws st' H. simpl in H.
      destruct (getf c0 st) as [[w st1]|] eqn:E0; [|discriminate].
      destruct (get_list getf ps st1) as [[ws' st2]|] eqn:E1; [|discriminate]. inversion H; subst; clear H.
      destruct (H1 _ _ eq_refl) as [I1 [B1 [C1 D1]]].
      destruct (IH st1 (fun c Hc => Hne c (or_intror Hc)) Hfop' I1) as [G1 _].
      destruct (G1 _ _ E1) as [I2 [C2 [D2 B2]]].
      split; [exact I2|]. split; [|split].
      * intros q Hq. destruct (C2 q Hq) as [Hq1 | [c [Hc Hp]]].
        -- destruct (C1 q Hq1) as [|Hp]; auto. right. exists c0. split; simpl; auto.
        -- right. exists c. split; simpl; auto.
      * intros q Hq Hn. apply D2; [apply D1; auto; apply Hn; simpl; auto|]. intros c Hc. apply Hn. simpl; auto.
      * intros c [<- | Hc]; [|apply B2; auto]. apply D2; auto.
        rewrite Forall_forall in Hall. intros c' Hc'. apply Hall. auto.
    + intros a c Ha Hin Hout [<- | Hc] Hsp Hlin; simpl.
      * rewrite (H2 a Ha Hin Hsp Hlin). reflexivity.
      * destruct (getf c0 st) as [[w st1]|] eqn:E0; [|reflexivity].
        destruct (H1 _ _ eq_refl) as [I1 [B1 [C1 D1]]].
        destruct (IH st1 (fun c Hc => Hne c (or_intror Hc)) Hfop' I1) as [_ G2].
        rewrite (G2 a c Ha); auto.
        -- apply D1; auto. apply Hout. simpl; auto.
        -- intros c' Hc'. apply Hout. simpl; auto.
Qed.

Lemma get_S : forall env f p st, get env (S f) p st =
  match lookup p (locals st) with
  | Some w => Some (w, st)
  | None =>
      match ty_at env p with
      | Some (TNode cs) =>
          match get_list (get env f) (children_pids p cs) st with
          | None => None
          | Some (ws, st') =>
              match pop_linear env (children_pids p cs) (locals st') with
              | None => None
              | Some l' => let w := next st' in Some (w, mkState ((p, w) :: l') (S w) (log st' ++ [OMake ws w]))
              end
          end
      | _ => None
      end
  end.
Proof. reflexivity. Qed.

Lemma get_spec : forall env, env_ok env = true -> forall f, get_ok env (get env f).
Proof.
  intros env He. induction f as [|f IHf]; intros p st Hp Hinv.
  - split; [intros; discriminate | reflexivity].
  - rewrite get_S. destruct (lookup p (locals st)) as [w0|] eqn:El.
    + pose proof (lookup_Some_In _ _ _ El) as Hinp. split.
      * intros w st' H. inversion H; subst. repeat split; auto.
      * intros a Ha Hin Hsp Hlin. exfalso. specialize (Hinv a p Ha Hin Hinp Hsp). congruence.
    + destruct (ty_at env p) as [[c d|cs]|] eqn:Et; try (split; [intros; discriminate | reflexivity]).
      destruct (get_list_spec env (get env f) IHf (children_pids p cs) st (children_ne p cs) (children_fop p cs) Hinv) as [G1 G2].
      split.
      * intros w st'' H.
        destruct (get_list (get env f) (children_pids p cs) st) as [[ws st']|] eqn:Eg; [|discriminate].
        destruct (pop_linear env (children_pids p cs) (locals st')) as [l'|] eqn:Ep; [|discriminate].
        inversion H; subst; clear H.
        destruct (G1 _ _ eq_refl) as [I2 [C2 [D2 B2]]].
        pose proof (pop_linear_keys _ _ _ _ Ep) as Hk.
        unfold dfc_inv, keys. simpl. split; [|split; [left; reflexivity | split]].
        -- intros x y Hx Hinx Hiny Hsp. destruct Hinx as [Ex | Hinx]; destruct Hiny as [Ey | Hiny].
           ++ subst x y. exfalso. eapply sprefix_irrefl; eauto.
           ++ subst x. apply Hk in Hiny as [Hy1 Hy2]. destruct (lin_at env y) eqn:Ely; auto. exfalso.
              destruct (sprefix_split _ _ Hsp) as [i [r Hy]].
              assert (Hcne : p ++ [i] <> []) by (destruct p; simpl; congruence).
              assert (Hlc : lin_at env (p ++ [i]) = true) by (apply (lin_anc env _ r); auto; rewrite <- Hy; auto).
              pose proof (lin_child_is_child _ _ _ _ Hp Et Hlc) as Hchild.
              destruct r as [|j r'].
              ** rewrite app_nil_r in Hy. subst y. apply Hy2. auto.
              ** assert (Hs : sprefix (p ++ [i]) y) by (exists (j :: r'); split; [congruence | auto]).
                 pose proof (I2 _ _ Hcne (B2 _ Hchild) Hy1 Hs). congruence.
           ++ subst y. apply Hk in Hinx as [Hx1 _]. destruct (lin_at env p) eqn:Elp; auto. exfalso.
              assert (Hxst : In x (keys st)).
              { destruct (C2 x Hx1) as [|[c [Hc Hpre]]]; auto. exfalso.
                apply child_inv in Hc as [i [-> _]]. eapply anc_not_under_child; eauto. }
              destruct (linear_child_of _ _ _ He Hp Et Elp) as [i [Hchild Hlc]].
              assert (Hnone : Some (ws, st') = (None : option (list wire * state))).
              { apply (G2 x (p ++ [i])); auto.
                - intros c' Hc'. apply child_inv in Hc' as [j [-> _]]. apply anc_not_under_child; auto.
                - apply sprefix_child; auto. }
              discriminate Hnone.
           ++ apply Hk in Hinx as [Hx1 _]. apply Hk in Hiny as [Hy1 _]. eapply I2; eauto.
        -- intros q [<- | Hq]; [right; exists []; rewrite app_nil_r; reflexivity|].
           apply Hk in Hq as [Hq _]. destruct (C2 q Hq) as [|[c [Hc [r Hr]]]]; auto. right.
           apply child_inv in Hc as [i [-> _]]. exists (i :: r). rewrite Hr, <- app_assoc. reflexivity.
        -- intros q Hq Hnp. right. apply Hk. split.
           ++ apply D2; auto. intros c Hc [r Hr]. apply Hnp. apply child_inv in Hc as [i [-> _]].
              exists (i :: r). rewrite Hr, <- app_assoc. reflexivity.
           ++ intros [Hc _]. apply Hnp. apply child_inv in Hc as [i [-> _]]. exists [i]. reflexivity.
      * intros a Ha Hin Hsp Hlin.
        destruct (linear_child_of _ _ _ He Hp Et Hlin) as [i [Hchild Hlc]].
        rewrite (G2 a (p ++ [i])); auto.
        -- intros c' Hc'. apply child_inv in Hc' as [j [-> _]]. apply anc_not_under_child; auto.
        -- apply sprefix_child; auto.
Qed.

(* ---------- __setitem__ ------------------------------------------------------------------ *)

Lemma fold_step_none : forall r, fold_left step r None = None.
Proof. induction r; simpl; auto. Qed.

Lemma leaf_no_children : forall env p c d r, ty_at env p = Some (TLeaf c d) -> r <> [] -> ty_at env (p ++ r) = None.
Proof.
  intros env [|x sel] c d r H Hr; simpl in *; [discriminate|].
  rewrite fold_left_app, H. destruct r as [|i r]; [congruence|]. simpl. apply fold_step_none.
Qed.

Lemma ancestors_complete : forall p a, a <> [] -> sprefix a p -> In a (ancestors p).
Proof.
  induction p as [|x p IH]; intros a Ha [r [Hr Hp]].
  - destruct a; [congruence | discriminate].
  - destruct a as [|y a]; [congruence|]. simpl in Hp. injection Hp as Hxy Hp'. subst y.
    destruct a as [|z a].
    + simpl in Hp'. subst p. destruct r as [|i r]; [congruence|]. simpl. left. reflexivity.
    + subst p. change (In (x :: z :: a) ([x] :: map (cons x) (ancestors ((z :: a) ++ r)))). right.
      apply in_map. apply IH; [congruence|]. exists r. auto.
Qed.

Lemma set_S : forall fixed env f p w st, set fixed env (S f) p w st =
  match ty_at env p with
  | Some (TNode cs) =>
      let outs := seq (next st) (length cs) in
      let st1 := mkState (locals st) (next st + length cs) (log st ++ [OUnpack w outs]) in
      match set_list (set fixed env f) (combine (children_pids p cs) outs) st1 with
      | None => None
      | Some st2 => Some (mkState (remove p (locals st2)) (next st2) (log st2))
      end
  | Some (TLeaf _ _) =>
      let l1 := (p, w) :: remove p (locals st) in
      let l2 := if fixed then fold_left (fun l a => remove a l) (ancestors p) l1 else l1 in
      Some (mkState l2 (next st) (log st))
  | None => None
  end.
Proof. reflexivity. Qed.

Lemma set_list_inv : forall env (setf : pid -> wire -> state -> option state),
  (forall p w st st', dfc_inv env st -> setf p w st = Some st' -> dfc_inv env st') ->
  forall pws st st', dfc_inv env st -> set_list setf pws st = Some st' -> dfc_inv env st'.
Proof.
  intros env setf H. induction pws as [|[q w] pws IH]; simpl; intros st st' Hi Hs.
  - inversion Hs; subst; auto.
  - destruct (setf q w st) as [st1|] eqn:E; [|discriminate]. eauto.
Qed.

Lemma set_spec : forall env f p w st st', dfc_inv env st -> set true env f p w st = Some st' -> dfc_inv env st'.
Proof.
  intros env. induction f as [|f IH]; intros p w st st' Hinv H; [discriminate|].
  rewrite set_S in H. destruct (ty_at env p) as [[c d|cs]|] eqn:Et; [| |discriminate].
  - inversion H; subst; clear H. unfold dfc_inv, keys. simpl.
    intros x y Hx Hinx Hiny Hsp.
    apply In_remove_all in Hinx as [Hinx Hax]. apply In_remove_all in Hiny as [Hiny Hay].
    simpl in Hinx, Hiny.
    destruct Hiny as [Ey | Hiny].
    + subst y. exfalso. apply Hax. apply ancestors_complete; auto.
    + destruct Hinx as [Ex | Hinx].
      * subst x. destruct Hsp as [r [Hr Hy]]. unfold lin_at. subst y.
        rewrite (leaf_no_children _ _ _ _ _ Et Hr). reflexivity.
      * apply In_remove in Hinx as [Hinx _]. apply In_remove in Hiny as [Hiny _]. eapply Hinv; eauto.
  - simpl in H.
    destruct (set_list (set true env f) _ _) as [st2|] eqn:Es; [|discriminate]. inversion H; subst; clear H.
    assert (I2 : dfc_inv env st2).
    { eapply set_list_inv; [| |exact Es]; [intros; eapply IH; eauto | exact Hinv]. }
    unfold dfc_inv, keys. simpl. intros x y Hx Hinx Hiny Hsp.
    apply In_remove in Hinx as [Hinx _]. apply In_remove in Hiny as [Hiny _]. eapply I2; eauto.
Qed.

(* ---------- scripts ----------------------------------------------------------------------- *)

Lemma run_set : forall fx env p rest st, run_gen fx env (SSet p :: rest) st =
  match set fx env FUEL p (next st) (mkState (locals st) (S (next st)) (log st)) with
  | None => None | Some st' => run_gen fx env rest st' end.
Proof. reflexivity. Qed.

Lemma run_get : forall fx env p rest st, run_gen fx env (SGet p :: rest) st =
  match get env FUEL p st with
  | None => None | Some (_, st') => run_gen fx env rest st' end.
Proof. reflexivity. Qed.

Lemma run_inv : forall env, env_ok env = true -> forall script st st',
  dfc_inv env st -> run_script env script st = Some st' -> dfc_inv env st'.
Proof.
  intros env He. unfold run_script. induction script as [|[p|p] rest IH]; intros st st' Hinv H.
  - simpl in H. inversion H; subst; auto.
  - rewrite run_set in H.
    destruct (set true env FUEL p (next st) (mkState (locals st) (S (next st)) (log st))) as [st1|] eqn:E; [|discriminate].
    eapply IH; [|exact H]. eapply set_spec; [|exact E]. exact Hinv.
  - rewrite run_get in H.
    destruct (get env FUEL p st) as [[w st1]|] eqn:E; [|discriminate].
    eapply IH; [|exact H].
    destruct p as [|x p].
    + change FUEL with (S 39) in E. rewrite get_S in E. destruct (lookup [] (locals st)).
      * inversion E; subst; auto.
      * simpl in E. discriminate.
    + destruct (get_spec env He FUEL (x :: p) st) as [H1 _]; [congruence | exact Hinv|].
      destruct (H1 _ _ E) as [I _]. exact I.
Qed.

Lemma dfc_linear_main : forall env script st, env_ok env = true ->
  run_script env script empty_dfc = Some st -> dfc_inv env st.
Proof.
  intros env script st He H. eapply run_inv; eauto. intros p q _ [].
Qed.

(* the version before the repair: s = S(qubit, int); use s whole; s.q = fresh *)
Definition bad_env : list ty := [TNode [TLeaf false false; TLeaf true true]].
Definition bad_script : list sop := [SSet [0]; SGet [0]; SSet [0; 0]].

Lemma dfc_unfixed_refuted_main : exists env script st, env_ok env = true /\
  run_script_unfixed env script empty_dfc = Some st /\ ~ dfc_inv env st.
Proof.
  exists bad_env, bad_script.
  destruct (run_script_unfixed bad_env bad_script empty_dfc) as [st|] eqn:E; [|vm_compute in E; discriminate].
  exists st. split; [reflexivity|]. split; [reflexivity|].
  intro H. vm_compute in E. inversion E; subst; clear E.
  specialize (H [0] [0; 0]). unfold keys in H. simpl in H.
  assert (lin_at bad_env [0; 0] = false).
  { apply H; auto; [congruence | exists [0]; split; [congruence | reflexivity]]. }
  vm_compute in H0. discriminate.
Qed.

Example dfc_fixed_ok : exists st, run_script bad_env (bad_script ++ [SGet [0]]) empty_dfc = Some st
  /\ dfc_inv_b bad_env st = true /\ keys st = [[0]; [0; 1]].
Proof. eexists. split; [vm_compute; reflexivity|]. split; reflexivity. Qed.
