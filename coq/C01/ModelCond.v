(* C01 — model of the Conditional built by choose_vars_for_tuple_sum (cfg_compiler.py).
   No proofs here.

     all_vars = {v.id: dfg[v] for var_row in output_vars for v in var_row}
     conditional = add_conditional(unit_sum, *all_vars.values())
     case i:  outputs = [case.inputs()[all_vars_idxs[v.id]] for v in output_vars[i]]
              set_outputs(Tag(i, Sum(rows)) applied to outputs)

   The predicate `unit_sum` is a Sum of empty rows, so the inputs of case i are the (empty)
   unpacked variant i followed by the other inputs, i.e. exactly the wires of all_vars. *)
From Coq Require Import ZArith List Bool.
From V.C01 Require Import ModelLower.
Import ListNotations.
Open Scope Z_scope.

(* dict keyed by place id: a later duplicate keeps the position of the first insertion *)
Fixpoint dedup (seen : list (list Z)) (l : row) : row :=
  match l with
  | [] => []
  | v :: l' =>
      if existsb (str_eqb (v_name v)) seen then dedup seen l'
      else v :: dedup (v_name v :: seen) l'
  end.

Definition all_vars (rows : list row) : row := dedup [] (concat rows).

(* all_vars_idxs[v.id] *)
Fixpoint index_of (n : list Z) (l : row) : option nat :=
  match l with
  | [] => None
  | v :: l' => if str_eqb n (v_name v) then Some O
               else match index_of n l' with Some k => Some (S k) | None => None end
  end.

(* a value on a wire: the place whose wire `dfg[place]` it is, and the hugr type of the port *)
Definition value := (list Z * Z)%type.
Definition val_of (v : var) : value := (v_name v, v_ty v).

(* the other inputs of the Conditional = the inputs of every case *)
Definition cond_inputs (rows : list row) : list value := map val_of (all_vars rows).

Fixpoint map_opt {A B} (f : A -> option B) (l : list A) : option (list B) :=
  match l with
  | [] => Some []
  | a :: l' => match f a, map_opt f l' with Some b, Some bs => Some (b :: bs) | _, _ => None end
  end.

(* the input offsets that case i wires into its Tag *)
Definition case_indices (rows : list row) (i : nat) : option (list nat) :=
  match nth_error rows i with
  | None => None
  | Some r => map_opt (fun v => index_of (v_name v) (all_vars rows)) r
  end.

(* the values case i puts into Tag(i, Sum(rows)) *)
Definition case_outputs (rows : list row) (i : nat) : option (list value) :=
  match case_indices rows i with
  | None => None
  | Some ks => map_opt (fun k => nth_error (cond_inputs rows) k) ks
  end.

(* run-time behaviour: the predicate's tag k selects case k, whose result is the Sum value
   (tag k, payload); the CFG then passes the payload of variant k to successor k *)
Definition eval_conditional (rows : list row) (k : nat) : option (nat * list value) :=
  match case_outputs rows k with
  | Some p => Some (k, p)
  | None => None
  end.

(* rows looked up in one scope: equal id => equal place, within and across rows *)
Definition rows_consistent (rows : list row) : bool :=
  forallb (fun r1 => forallb (consistent r1) rows) rows.

(* the rows compile_bb passes to choose_vars_for_tuple_sum *)
Definition tuple_sum_rows (b : bb) : list row :=
  map (fun r => filter v_drop (sort_vars r)) (b_outs b).
