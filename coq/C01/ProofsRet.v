(* C01 — insert_return_vars: idempotence under the guard, exit row = function outputs *)
From Coq Require Import ZArith List Bool Lia.
From V.C01 Require Import ModelLower ProofsLower.
Import ListNotations.
Open Scope Z_scope.

Lemma starts_with_app : forall p x, starts_with p (p ++ x) = true.
Proof. induction p as [|a p IH]; simpl; auto. intro x. rewrite Z.eqb_refl. simpl. auto. Qed.

Lemma return_var_name_is_return : forall n, is_return_var (return_var_name n) = true.
Proof. intro n. unfold is_return_var, return_var_name. apply starts_with_app. Qed.

Lemma return_vars_from_tys : forall tys i, map v_ty (return_vars_from i tys) = map fst tys.
Proof. induction tys as [|t ts IH]; simpl; intro i; auto. f_equal. apply IH. Qed.

Lemma patch_bb_in : forall c i b b', patch_bb c i b = Some b' ->
  b_in b' = if Nat.eqb i (c_exit c) then return_vars c ++ b_in b else b_in b.
Proof.
  intros c i b b' H. unfold patch_bb in H.
  destruct (is_exit_pred c b).
  - destruct (Nat.eqb i (c_exit c)); simpl in H;
      destruct (b_outs b) as [|o [|o' os]]; try discriminate; inversion H; reflexivity.
  - destruct (Nat.eqb i (c_exit c)); inversion H; reflexivity.
Qed.

Lemma patch_bbs_nth : forall c bs n bs', patch_bbs c n bs = Some bs' ->
  forall j b, nth_error bs j = Some b ->
  exists b', nth_error bs' j = Some b' /\ patch_bb c (n + j) b = Some b'.
Proof.
  induction bs as [|b0 bs IH]; intros n bs' H j b Hj; [destruct j; discriminate|].
  simpl in H. destruct (patch_bb c n b0) as [b0'|] eqn:E0; [|discriminate].
  destruct (patch_bbs c (S n) bs) as [bs''|] eqn:E1; [|discriminate]. inversion H; subst.
  destruct j; simpl in Hj.
  - inversion Hj; subst. exists b0'. rewrite Nat.add_0_r. auto.
  - destruct (IH _ _ E1 _ _ Hj) as [b' [H1 H2]]. exists b'. split; auto.
    replace (n + S j)%nat with (S n + j)%nat by lia. auto.
Qed.

Lemma patch_bb_noret : forall c i b, return_vars c = [] ->
  forall b', patch_bb c i b = Some b' -> b' = b.
Proof.
  intros c i b Hr b' H. unfold patch_bb in H. rewrite Hr in H. simpl in H.
  destruct b as [bi bo bs]. simpl in H.
  destruct (is_exit_pred c (mkBB bi bo bs)).
  - destruct (Nat.eqb i (c_exit c)); simpl in H;
      destruct bo as [|o [|o' os]]; try discriminate; inversion H; reflexivity.
  - destruct (Nat.eqb i (c_exit c)); inversion H; reflexivity.
Qed.

Lemma patch_bbs_noret : forall c, return_vars c = [] ->
  forall bs n bs', patch_bbs c n bs = Some bs' -> bs' = bs.
Proof.
  intros c Hr. induction bs as [|b0 bs IH]; simpl; intros n bs' H; [inversion H; auto|].
  destruct (patch_bb c n b0) as [b0'|] eqn:E0; [|discriminate].
  destruct (patch_bbs c (S n) bs) as [bs''|] eqn:E1; [|discriminate]. inversion H; subst.
  f_equal; eauto using patch_bb_noret.
Qed.

Lemma insert_exit_row : forall c c', (c_exit c < length (c_bbs c))%nat ->
  insert_return_vars c = Some c' ->
  c_exit c' = c_exit c /\ c_ret c' = c_ret c /\
  b_in (get_bb c' (c_exit c')) = return_vars c ++ b_in (get_bb c (c_exit c)).
Proof.
  intros c c' Hlt H. unfold insert_return_vars in H.
  destruct (patch_bbs c 0 (c_bbs c)) as [bs|] eqn:E; [|discriminate]. inversion H; subst. simpl.
  repeat split; auto.
  destruct (nth_error (c_bbs c) (c_exit c)) as [b|] eqn:Eb; [|apply nth_error_None in Eb; lia].
  destruct (patch_bbs_nth _ _ _ _ E _ _ Eb) as [b' [H1 H2]]. simpl in H2.
  unfold get_bb. simpl.
  rewrite (nth_error_nth _ _ dummy_bb H1), (nth_error_nth _ _ dummy_bb Eb).
  rewrite (patch_bb_in _ _ _ _ H2), Nat.eqb_refl. reflexivity.
Qed.

(* computed from the generated guard: fails to compile when compile_cfg calls insert_return_vars
   unconditionally *)
Lemma guarded_insert_eq : forall c, guarded_insert c = guarded_insert_exit_row c.
Proof. reflexivity. Qed.

Lemma guarded_insert_idem_main : forall c c', (c_exit c < length (c_bbs c))%nat ->
  guarded_insert c = Some c' -> guarded_insert c' = Some c'.
Proof.
  intros c c' Hlt H. rewrite guarded_insert_eq in *. unfold guarded_insert_exit_row in H.
  destruct (no_return_vars c) eqn:G.
  - destruct (return_vars c) as [|v vs] eqn:Er.
    + (* nothing to insert: the patch is the identity *)
      assert (c' = c).
      { unfold insert_return_vars in H. destruct (patch_bbs c 0 (c_bbs c)) as [bs|] eqn:E; [|discriminate].
        apply patch_bbs_noret in E; auto. subst. inversion H. destruct c; reflexivity. }
      subst. unfold guarded_insert_exit_row. rewrite G. exact H.
    + destruct (insert_exit_row _ _ Hlt H) as [_ [_ Hin]].
      unfold guarded_insert_exit_row.
      assert (no_return_vars c' = false) as ->; auto.
      unfold no_return_vars. rewrite Hin, Er.
      unfold return_vars in Er. destruct (c_ret c) as [|t ts]; simpl in Er; [discriminate|].
      inversion Er; subst. cbn [app forallb v_name]. rewrite return_var_name_is_return. reflexivity.
  - inversion H; subst. unfold guarded_insert_exit_row. rewrite G. reflexivity.
Qed.

Lemma exit_row_functype_main : forall c c' inputs, (c_exit c < length (c_bbs c))%nat ->
  insert_return_vars c = Some c' ->
  map v_ty (b_in (get_bb c (c_exit c))) = map fst (filter snd inputs) ->
  map v_ty (declared c' (c_exit c')) = functype_outputs (map fst (c_ret c)) inputs.
Proof.
  intros c c' inputs Hlt H Hin.
  destruct (insert_exit_row _ _ Hlt H) as [_ [_ Hrow]].
  rewrite declared_exit by reflexivity. rewrite Hrow, map_app, Hin.
  unfold functype_outputs, return_vars. rewrite return_vars_from_tys. reflexivity.
Qed.
