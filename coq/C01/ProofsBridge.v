(* C01 — the linearity part of cfg_ok derived from C06's theorem about the linearity checker *)
From Coq Require Import ZArith List Bool Lia.
From V.C09 Require Import Analysis.
From V.C06 Require Linearity Token Hyps ProofsSound.
From V.C01 Require Import ModelLower ModelBridge ProofsLower.
Import ListNotations.
Local Open Scope nat_scope.

Lemma bb_ok_split : forall c i b,
  bb_ok c i b = bb_struct_ok c i b && (Nat.eqb i (ModelLower.c_exit c) || lin_ok b).
Proof.
  intros c i b. unfold bb_ok, bb_struct_ok, lin_ok.
  destruct (Nat.eqb i (ModelLower.c_exit c)); simpl; [reflexivity|].
  destruct (b_outs b) as [|first [|r1 rest]].
  - rewrite andb_false_r. reflexivity.
  - rewrite !andb_true_r. reflexivity.
  - destruct (edges_ok c (b_succs b) (first :: r1 :: rest)); simpl; [|reflexivity].
    rewrite <- !andb_assoc. reflexivity.
Qed.

Lemma bbs_ok_split : forall c bs n, bbs_ok c n bs = bbs_struct_ok c n bs && bbs_lin_ok c n bs.
Proof.
  induction bs as [|b bs IH]; intro n; simpl; auto.
  rewrite bb_ok_split, IH.
  destruct (bb_struct_ok c n b), (Nat.eqb n (ModelLower.c_exit c) || lin_ok b),
    (bbs_struct_ok c (S n) bs), (bbs_lin_ok c (S n) bs); reflexivity.
Qed.

Lemma cfg_ok_split : forall c, cfg_ok c = cfg_struct_ok c && cfg_lin_ok c.
Proof. intro c. apply bbs_ok_split. Qed.

Lemma bbs_struct_ok_nth : forall c bs n j b,
  bbs_struct_ok c n bs = true -> nth_error bs j = Some b -> bb_struct_ok c (n + j) b = true.
Proof.
  induction bs as [|b0 bs IH]; intros n j b H Hn; [destruct j; discriminate|].
  simpl in H. apply andb_true_iff in H as [H1 H2]. destruct j; simpl in Hn.
  - inversion Hn; subst. rewrite Nat.add_0_r. auto.
  - replace (n + S j)%nat with (S n + j)%nat by lia. eauto.
Qed.

Lemma bbs_lin_ok_intro : forall c bs n,
  (forall j b, nth_error bs j = Some b -> (n + j)%nat <> ModelLower.c_exit c -> lin_ok b = true) ->
  bbs_lin_ok c n bs = true.
Proof.
  induction bs as [|b bs IH]; intros n H; simpl; auto.
  apply andb_true_iff. split.
  - destruct (Nat.eqb n (ModelLower.c_exit c)) eqn:E; auto. simpl.
    apply (H 0%nat b eq_refl). rewrite Nat.add_0_r. apply Nat.eqb_neq. exact E.
  - apply IH. intros j b' Hj Hne. apply (H (S j) b' Hj). lia.
Qed.

(* what C06 proves about an accepted CFG, phrased on c06_live *)
Lemma c06_agree : forall fx lc sched K, Token.uniform K lc -> Token.wf_shape lc ->
  Linearity.check_cfg fx lc sched = Linearity.Accept ->
  exists L, c06_live lc sched = Some L /\
    forall b n m x, b < length (Linearity.c_blocks lc) ->
      In n (Linearity.lb_succ (Token.nth_block lc b)) -> In m (Linearity.lb_succ (Token.nth_block lc b)) ->
      K x = Linearity.KLinear -> In x (getv L n) -> In x (getv L m).
Proof.
  intros fx lc sched K HK HW HA.
  destruct (ProofsSound.accept_inv fx lc sched HA) as [ss0 [ss [H1 [H2 [H3 [H4 [H5 H6]]]]]]].
  exists (Linearity.live_of lc ss sched). split.
  - unfold c06_live. rewrite H1, H2. reflexivity.
  - intros b n m x. eapply ProofsSound.succ_rows_agree with (ss0 := ss0) (fx := fx); eauto.
Qed.

Lemma edges_ok_succ : forall c succs outs k r, edges_ok c succs outs = true ->
  nth_error outs k = Some r -> exists s, nth_error succs k = Some s.
Proof.
  intros c succs outs k r H Hn. pose proof (edges_ok_length _ _ _ H) as Hl.
  destruct (nth_error succs k) eqn:E; eauto.
  apply nth_error_None in E. assert (k < length outs)%nat by (apply nth_error_Some; congruence). lia.
Qed.

Lemma lin_from_agreement : forall lc L K pl m,
  (forall b n m0 x, b < length (Linearity.c_blocks lc) ->
      In n (Linearity.lb_succ (Token.nth_block lc b)) -> In m0 (Linearity.lb_succ (Token.nth_block lc b)) ->
      K x = Linearity.KLinear -> In x (getv L n) -> In x (getv L m0)) ->
  reads lc L K pl m -> cfg_struct_ok m = true -> cfg_lin_ok m = true.
Proof.
  intros lc L K pl m Hag Hr Hs. unfold cfg_lin_ok. apply bbs_lin_ok_intro. intros i b Hb Hne. simpl in Hne.
  pose proof (bbs_struct_ok_nth m (c_bbs m) 0 i b Hs Hb) as Hbs. simpl in Hbs.
  unfold bb_struct_ok in Hbs. apply Nat.eqb_neq in Hne. rewrite Hne in Hbs. apply Nat.eqb_neq in Hne.
  apply andb_true_iff in Hbs as [He _].
  destruct (Hr i b Hb Hne) as [Hlt [Hsucc Hrows]].
  unfold lin_ok. destruct (b_outs b) as [|first [|r1 rest]] eqn:Eo; auto.
  apply forallb_forall. intros r Hin.
  apply In_nth_error in Hin as [k' Hk'].
  assert (Hk : nth_error (first :: r1 :: rest) (S k') = Some r) by exact Hk'.
  assert (H0 : nth_error (first :: r1 :: rest) 0 = Some first) by reflexivity.
  destruct (edges_ok_succ _ _ _ _ _ He Hk) as [s Hsk].
  destruct (edges_ok_succ _ _ _ _ _ He H0) as [s0 Hs0].
  assert (In0 : In s0 (Linearity.lb_succ (Token.nth_block lc i))) by (rewrite <- Hsucc; eapply nth_error_In; eauto).
  assert (Ink : In s (Linearity.lb_succ (Token.nth_block lc i))) by (rewrite <- Hsucc; eapply nth_error_In; eauto).
  assert (Hlen : 2 <= length (first :: r1 :: rest)) by (simpl; lia).
  pose proof (Hrows 0%nat s0 first Hlen Hs0 H0) as R0. pose proof (Hrows (S k') s r Hlen Hsk Hk) as Rk.
  unfold row_equiv. apply andb_true_iff. split; apply incl_row_incl; intros v Hv;
    unfold nondrop in *; apply filter_In in Hv as [Hv1 Hv2]; apply negb_true_iff in Hv2; apply filter_In.
  - destruct (proj1 (R0 v) (conj Hv1 Hv2)) as [x [Hx [Kx Ex]]].
    destruct (proj2 (Rk v)) as [A B]; [exists x; repeat split; auto; eapply Hag; eauto|].
    split; auto. rewrite B. reflexivity.
  - destruct (proj1 (Rk v) (conj Hv1 Hv2)) as [x [Hx [Kx Ex]]].
    destruct (proj2 (R0 v)) as [A B]; [exists x; repeat split; auto; eapply Hag with (n := s); eauto|].
    split; auto. rewrite B. reflexivity.
Qed.

(* the linearity hypothesis of rows_agree discharged by C06's theorem *)
Lemma cfg_ok_from_c06 : forall fx lc sched K pl m L,
  Token.uniform K lc -> Token.wf_shape lc ->
  Linearity.check_cfg fx lc sched = Linearity.Accept ->
  c06_live lc sched = Some L -> reads lc L K pl m ->
  cfg_struct_ok m = true -> cfg_ok m = true.
Proof.
  intros fx lc sched K pl m L HK HW HA HL Hr Hs.
  destruct (c06_agree fx lc sched K HK HW HA) as [L' [HL' Hag]].
  rewrite HL in HL'. inversion HL'; subst L'.
  rewrite cfg_ok_split, Hs. simpl. eapply lin_from_agreement; eauto.
Qed.

(* ---- reads_b is sound ---------------------------------------------------------------------- *)

Lemma nat_list_eqb_eq : forall a b, nat_list_eqb a b = true -> a = b.
Proof.
  induction a as [|x a IH]; destruct b as [|y b]; simpl; intro H; try discriminate; auto.
  apply andb_true_iff in H as [H1 H2]. apply Nat.eqb_eq in H1. f_equal; auto.
Qed.

Lemma is_linear_iff : forall k, Linearity.is_linear k = true <-> k = Linearity.KLinear.
Proof. intros []; simpl; split; congruence. Qed.

Lemma reads_edge_sound : forall L K tbl s r, reads_edge L K tbl s r = true ->
  forall v, (In v r /\ v_drop v = false) <->
            (exists x, In x (getv L s) /\ K x = Linearity.KLinear /\ v = pl_of tbl x).
Proof.
  intros L K tbl s r H v. unfold reads_edge in H. apply andb_true_iff in H as [H1 H2].
  rewrite forallb_forall in H1, H2. split.
  - intros [Hv Hd]. specialize (H1 v Hv). rewrite Hd in H1. simpl in H1.
    apply existsb_exists in H1 as [x [Hx Hb]]. apply andb_true_iff in Hb as [Hl He].
    exists x. repeat split; auto; [apply is_linear_iff; auto | apply var_eqb_eq; auto].
  - intros [x [Hx [Kx Ev]]]. specialize (H2 x Hx). apply is_linear_iff in Kx. rewrite Kx in H2. simpl in H2.
    apply andb_true_iff in H2 as [Hm Hd]. subst v. split; [apply mem_var_In; auto | apply negb_true_iff; auto].
Qed.

Lemma reads_edges_sound : forall L K tbl succs outs, reads_edges L K tbl succs outs = true ->
  forall k s r, nth_error succs k = Some s -> nth_error outs k = Some r -> reads_edge L K tbl s r = true.
Proof.
  induction succs as [|s0 succs IH]; intros outs H k s r Hs Hr; [destruct k; discriminate|].
  destruct outs as [|r0 outs]; [destruct k; discriminate|]. simpl in H. apply andb_true_iff in H as [H1 H2].
  destruct k; simpl in Hs, Hr; [inversion Hs; inversion Hr; subst; auto | eauto].
Qed.

Lemma reads_blocks_sound : forall lc L K tbl ex bs n, reads_blocks lc L K tbl ex n bs = true ->
  forall j b, nth_error bs j = Some b -> n + j <> ex ->
    n + j < length (Linearity.c_blocks lc) /\
    b_succs b = Linearity.lb_succ (Token.nth_block lc (n + j)) /\
    (2 <= length (b_outs b) -> reads_edges L K tbl (b_succs b) (b_outs b) = true).
Proof.
  induction bs as [|b0 bs IH]; intros n H j b Hj Hne; [destruct j; discriminate|].
  simpl in H. apply andb_true_iff in H as [H1 H2]. destruct j; simpl in Hj.
  - inversion Hj; subst b0. rewrite Nat.add_0_r in *. apply orb_true_iff in H1 as [H1 | H1].
    + apply Nat.eqb_eq in H1. contradiction.
    + apply andb_true_iff in H1 as [H1 H3]. apply andb_true_iff in H1 as [H0 H1].
      apply Nat.ltb_lt in H0. apply nat_list_eqb_eq in H1. repeat split; auto.
      intro Hl. apply orb_true_iff in H3 as [H3 | H3]; auto. apply Nat.ltb_lt in H3. lia.
  - replace (n + S j) with (S n + j) in * by lia. eauto.
Qed.

Lemma reads_b_sound : forall lc L K tbl m, reads_b lc L K tbl m = true -> reads lc L K (pl_of tbl) m.
Proof.
  intros lc L K tbl m H i b Hb Hne. unfold reads_b in H.
  destruct (reads_blocks_sound _ _ _ _ _ _ _ H i b Hb Hne) as [H1 [H2 H3]]. simpl in *.
  split; [exact H1|]. split; [exact H2|]. intros k s r Hl Hs Hr.
  apply reads_edge_sound. eapply reads_edges_sound; eauto.
Qed.
