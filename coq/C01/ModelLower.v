(* C01 — executable model of the block-wiring core of compiler/cfg_compiler.py.
   Hand-written (tie: X, see props/C01/check.py).  No proofs in this file.

   A row item (`Place` as far as cfg_compiler looks at it) is (CmpBase.var)
     v_name : str(place) as the list of its code points (Python compares str by code point;
              within one row str(place) determines place.id — the harness checks that),
     v_drop : place.ty.droppable,
     v_ty   : an identifier of place.ty.to_hugr(ctx) (types are only compared for equality). *)
From Coq Require Import ZArith List Bool Lia.
From V.C01 Require Export CmpBase GenCmp GenRet.
Import ListNotations.
Open Scope Z_scope.

(* str == str *)
Fixpoint str_eqb (a b : list Z) : bool :=
  match a, b with
  | [], [] => true
  | x :: a', y :: b' => (x =? y) && str_eqb a' b'
  | _, _ => false
  end.

(* compare_var p1 p2 = -1 if k1 < k2 else 1 (never 0); the key tuple is GenCmp.key_spec,
   regenerated from the source on every run *)
Definition compare_var (p1 p2 : var) : Z :=
  match lex_cmp key_spec p1 p2 with Lt => -1 | _ => 1 end.

(* functools.cmp_to_key: K(a) < K(b)  iff  cmp(a, b) < 0 *)
Definition var_ltb (a b : var) : bool := compare_var a b <? 0.

(* sorted(row, key=cmp_to_key(compare_var)): a stable sort that only asks `<`.
   Stable insertion sort: an element is placed before the first later element that is
   not smaller than it. *)
Fixpoint insert_var (x : var) (l : list var) : list var :=
  match l with
  | [] => [x]
  | y :: l' => if var_ltb y x then y :: insert_var x l' else x :: y :: l'
  end.

Definition sort_vars (row : list var) : list var := fold_right insert_var [] row.

(* ---- checked CFG as the compiler consumes it ------------------------------------------ *)

Definition row := list var.

Record bb := mkBB {
  b_in    : row;            (* sig.input_row *)
  b_outs  : list row;       (* sig.output_rows, one per successor *)
  b_succs : list nat        (* successors, as indices into c_bbs *)
}.

Record cfg := mkCfg {
  c_bbs   : list bb;
  c_entry : nat;
  c_exit  : nat;
  c_ret   : list (Z * bool) (* type_to_row(cfg.output_ty): (hugr type, droppable) *)
}.

Definition dummy_bb : bb := mkBB [] [] [].
Definition get_bb (c : cfg) (i : nat) : bb := nth i (c_bbs c) dummy_bb.

(* ---- return_var / is_return_var / insert_return_vars ---------------------------------- *)

(* decimal digits of a natural number, as code points *)
Fixpoint digits_fuel (fuel : nat) (n : Z) (acc : list Z) : list Z :=
  match fuel with
  | O => acc
  | S f => let acc' := (48 + n mod 10) :: acc in
           if n / 10 =? 0 then acc' else digits_fuel f (n / 10) acc'
  end.
Definition digits (n : Z) : list Z := digits_fuel 25 n [].

Definition ret_prefix : list Z := [37; 114; 101; 116].      (* "%ret" *)
Definition return_var_name (n : Z) : list Z := ret_prefix ++ digits n.

Fixpoint starts_with (p s : list Z) : bool :=
  match p, s with
  | [], _ => true
  | x :: p', y :: s' => (x =? y) && starts_with p' s'
  | _ :: _, [] => false
  end.
Definition is_return_var (name : list Z) : bool := starts_with ret_prefix name.

(* Variable(return_var(i), ty, None) for i, ty in enumerate(type_to_row(cfg.output_ty)) *)
Fixpoint return_vars_from (i : Z) (tys : list (Z * bool)) : row :=
  match tys with
  | [] => []
  | t :: ts => mkVar (return_var_name i) (snd t) (fst t) :: return_vars_from (i + 1) ts
  end.
Definition return_vars (c : cfg) : row := return_vars_from 0 (c_ret c).

Definition is_exit_pred (c : cfg) (b : bb) : bool := existsb (Nat.eqb (c_exit c)) (b_succs b).

(* the patch of one block; None = the `assert len(pred.sig.output_rows) == 1` fails *)
Definition patch_bb (c : cfg) (i : nat) (b : bb) : option bb :=
  let b1 := if Nat.eqb i (c_exit c) then mkBB (return_vars c ++ b_in b) (b_outs b) (b_succs b) else b in
  if is_exit_pred c b then
    match b_outs b1 with
    | [out_row] => Some (mkBB (b_in b1) [return_vars c ++ out_row] (b_succs b1))
    | _ => None
    end
  else Some b1.

Fixpoint patch_bbs (c : cfg) (i : nat) (bs : list bb) : option (list bb) :=
  match bs with
  | [] => Some []
  | b :: bs' =>
      match patch_bb c i b, patch_bbs c (S i) bs' with
      | Some b', Some bs'' => Some (b' :: bs'')
      | _, _ => None
      end
  end.

Definition insert_return_vars (c : cfg) : option cfg :=
  match patch_bbs c 0 (c_bbs c) with
  | Some bs => Some (mkCfg bs (c_entry c) (c_exit c) (c_ret c))
  | None => None
  end.

(* the guard in compile_cfg *)
Definition no_return_vars (c : cfg) : bool :=
  forallb (fun v => negb (is_return_var (v_name v))) (b_in (get_bb c (c_exit c))).

Definition guarded_insert_exit_row (c : cfg) : option cfg :=
  if no_return_vars c then insert_return_vars c else Some c.

(* what compile_cfg does, with the guard the source actually has (GenRet.ret_guard) *)
Definition guarded_insert (c : cfg) : option cfg :=
  match ret_guard with
  | GuardExitRow => guarded_insert_exit_row c
  | GuardNone => insert_return_vars c
  end.

(* ---- compile_bb: block inputs and outputs ---------------------------------------------- *)

Definition block_inputs (c : cfg) (i : nat) : row :=
  let b := get_bb c i in
  if Nat.eqb i (c_entry c) then b_in b else sort_vars (b_in b).

(* {p.id for p in r1} == {p.id for p in r2} *)
Definition name_in (n : list Z) (r : row) : bool := existsb (fun v => str_eqb n (v_name v)) r.
Definition same_ids (r1 r2 : row) : bool :=
  forallb (fun v => name_in (v_name v) r2) r1 && forallb (fun v => name_in (v_name v) r1) r2.

Definition jumps_to_exit (c : cfg) (b : bb) : bool := is_exit_pred c b.

(* (Sum variant rows, other outputs) of the DataflowBlock built for block b.
   None models the assertion failures / unpack errors of compile_bb. *)
Definition block_outputs (c : cfg) (b : bb) : option (list row * row) :=
  match b_succs b, b_outs b with
  | [_], [outputs] =>
      (* Tag(0, UnitSum(1)) ; outputs = the single row, sorted unless this jumps to the exit *)
      Some ([[]], if jumps_to_exit c b then outputs else sort_vars outputs)
  | _ :: _ :: _, first :: rest =>
      if jumps_to_exit c b then None                      (* assert not any(succ.is_exit) *)
      else if forallb (same_ids first) rest
      then Some (map (fun _ => []) (b_outs b), sort_vars first)
      else Some (map (fun r => filter v_drop (sort_vars r)) (b_outs b),
                 sort_vars (filter (fun v => negb (v_drop v)) first))
  | _, _ => None
  end.

(* what the HUGR delivers to the i-th successor: the values of Sum variant i, then the
   other outputs *)
Definition delivered (c : cfg) (b : bb) (i : nat) : option row :=
  match block_outputs c b with
  | Some (variants, others) =>
      match nth_error variants i with
      | Some vr => Some (vr ++ others)
      | None => None
      end
  | None => None
  end.

(* what successor s declares: an ordinary block its (sorted) inputs, the exit block the
   CFG node's output row `[place.ty for place in cfg.exit_bb.sig.input_row]` *)
Definition declared (c : cfg) (s : nat) : row :=
  if Nat.eqb s (c_exit c) then b_in (get_bb c s) else block_inputs c s.

(* ---- FunctionType._to_hugr_function_type: output row ----------------------------------- *)

(* inputs of the function: (hugr type, has Inout flag) *)
Definition functype_outputs (ret_tys : list Z) (inputs : list (Z * bool)) : list Z :=
  ret_tys ++ map fst (filter snd inputs).

(* ---- the checker's output invariant, as a decidable predicate -------------------------- *)

Definition var_eqb (a b : var) : bool :=
  str_eqb (v_name a) (v_name b) && Bool.eqb (v_drop a) (v_drop b) && (v_ty a =? v_ty b).

Definition mem_var (v : var) (r : row) : bool := existsb (var_eqb v) r.
Definition incl_row (r1 r2 : row) : bool := forallb (fun v => mem_var v r2) r1.
Definition row_equiv (r1 r2 : row) : bool := incl_row r1 r2 && incl_row r2 r1.

Fixpoint nodup_names (r : row) : bool :=
  match r with
  | [] => true
  | v :: r' => negb (name_in (v_name v) r') && nodup_names r'
  end.

Fixpoint row_eqb (r1 r2 : row) : bool :=
  match r1, r2 with
  | [], [] => true
  | a :: r1', b :: r2' => var_eqb a b && row_eqb r1' r2'
  | _, _ => false
  end.

(* places in the rows of one block are looked up in one scope: equal id => equal place *)
Definition consistent (r1 r2 : row) : bool :=
  forallb (fun v => forallb (fun w => implb (str_eqb (v_name v) (v_name w)) (var_eqb v w)) r2) r1.

Definition nondrop (r : row) : row := filter (fun v => negb (v_drop v)) r.

(* edge b --k--> s with output row r *)
Definition edge_ok (c : cfg) (s : nat) (r : row) : bool :=
  negb (Nat.eqb s (c_entry c)) &&                     (* the entry block has no predecessors *)
  (s <? length (c_bbs c))%nat &&
  nodup_names r &&
  if Nat.eqb s (c_exit c)
  then row_eqb r (b_in (get_bb c s))                  (* exit rows are never reordered *)
  else nodup_names (b_in (get_bb c s)) && row_equiv r (b_in (get_bb c s)).

Fixpoint edges_ok (c : cfg) (succs : list nat) (outs : list row) : bool :=
  match succs, outs with
  | [], [] => true
  | s :: succs', r :: outs' => edge_ok c s r && edges_ok c succs' outs'
  | _, _ => false
  end.

Definition bb_ok (c : cfg) (i : nat) (b : bb) : bool :=
  if Nat.eqb i (c_exit c) then true                   (* the exit block is empty *)
  else
    edges_ok c (b_succs b) (b_outs b) &&
    match b_outs b with
    | [] => false
    | [_] => true
    | first :: rest =>
        negb (jumps_to_exit c b) &&
        forallb (consistent first) rest &&
        (* linearity checker: non-droppable places live after a branch are live in every successor *)
        forallb (fun r => row_equiv (nondrop first) (nondrop r)) rest
    end.

Fixpoint bbs_ok (c : cfg) (i : nat) (bs : list bb) : bool :=
  match bs with
  | [] => true
  | b :: bs' => bb_ok c i b && bbs_ok c (S i) bs'
  end.

Definition cfg_ok (c : cfg) : bool := bbs_ok c 0 (c_bbs c).

(* ---- cfg_ok = structural part + the linearity checker's part ------------------------------ *)

(* non-droppable places live after a branch are live in every successor *)
Definition lin_ok (b : bb) : bool :=
  match b_outs b with
  | first :: r1 :: rest => forallb (fun r => row_equiv (nondrop first) (nondrop r)) (r1 :: rest)
  | _ => true
  end.

Definition bb_struct_ok (c : cfg) (i : nat) (b : bb) : bool :=
  if Nat.eqb i (c_exit c) then true
  else
    edges_ok c (b_succs b) (b_outs b) &&
    match b_outs b with
    | [] => false
    | [_] => true
    | first :: rest => negb (jumps_to_exit c b) && forallb (consistent first) rest
    end.

Fixpoint bbs_struct_ok (c : cfg) (i : nat) (bs : list bb) : bool :=
  match bs with
  | [] => true
  | b :: bs' => bb_struct_ok c i b && bbs_struct_ok c (S i) bs'
  end.

Fixpoint bbs_lin_ok (c : cfg) (i : nat) (bs : list bb) : bool :=
  match bs with
  | [] => true
  | b :: bs' => (Nat.eqb i (c_exit c) || lin_ok b) && bbs_lin_ok c (S i) bs'
  end.

Definition cfg_struct_ok (c : cfg) : bool := bbs_struct_ok c 0 (c_bbs c).
Definition cfg_lin_ok (c : cfg) : bool := bbs_lin_ok c 0 (c_bbs c).
