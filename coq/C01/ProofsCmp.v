(* C01 — the lexicographic key comparison is a strict total order, for any key made of the
   components of CmpBase that contains the raw name *)
From Coq Require Import ZArith List Bool Lia.
From V.C01 Require Import CmpBase.
Import ListNotations.
Open Scope Z_scope.

Section Good.
  Context {X : Type}.
  Record good (cmp : X -> X -> comparison) : Prop := mkGood {
    g_eq : forall x y, cmp x y = Eq <-> x = y;
    g_sym : forall x y, cmp y x = CompOpp (cmp x y);
    g_trans : forall x y z, cmp x y = Lt -> cmp y z = Lt -> cmp x z = Lt }.
End Good.

Lemma good_Z : good Z.compare.
Proof.
  constructor.
  - intros. apply Z.compare_eq_iff.
  - intros. apply Z.compare_antisym.
  - intros x y z. rewrite !Z.compare_lt_iff. lia.
Qed.

Lemma good_bool : good bool_cmp.
Proof.
  constructor.
  - intros [|] [|]; simpl; split; congruence.
  - intros [|] [|]; reflexivity.
  - intros [|] [|] [|]; simpl; congruence.
Qed.

Lemma good_refl : forall {X} (cmp : X -> X -> comparison), good cmp -> forall x, cmp x x = Eq.
Proof. intros X cmp G x. apply (g_eq _ G). reflexivity. Qed.

Lemma good_list : forall {X} (e : X -> X -> comparison), good e -> good (list_cmp e).
Proof.
  intros X e G. constructor.
  - induction x as [|a x IH]; destruct y as [|b y]; simpl; split; intro H; try congruence; auto.
    + destruct (e a b) eqn:E; try discriminate. apply (g_eq _ G) in E. apply IH in H. congruence.
    + inversion H; subst. rewrite (good_refl e G). apply IH. reflexivity.
  - induction x as [|a x IH]; destruct y as [|b y]; simpl; auto.
    rewrite (g_sym _ G a b). destruct (e a b); simpl; auto.
  - induction x as [|a x IH]; destruct y as [|b y]; destruct z as [|c z]; simpl; intros H1 H2;
      try congruence; auto.
    destruct (e a b) eqn:E1; try discriminate; destruct (e b c) eqn:E2; try discriminate.
    + apply (g_eq _ G) in E1. apply (g_eq _ G) in E2. subst. rewrite (good_refl e G). eauto.
    + apply (g_eq _ G) in E1. subst. rewrite E2. reflexivity.
    + apply (g_eq _ G) in E2. subst. rewrite E1. reflexivity.
    + rewrite (g_trans _ G _ _ _ E1 E2). reflexivity.
Qed.

Lemma good_pair : forall {X Y} (e1 : X -> X -> comparison) (e2 : Y -> Y -> comparison),
  good e1 -> good e2 -> good (pair_cmp e1 e2).
Proof.
  intros X Y e1 e2 G1 G2. constructor.
  - intros [a b] [c d]. unfold pair_cmp. simpl. split; intro H.
    + destruct (e1 a c) eqn:E; try discriminate. apply (g_eq _ G1) in E. apply (g_eq _ G2) in H. congruence.
    + inversion H; subst. rewrite (good_refl e1 G1). apply (g_eq _ G2). reflexivity.
  - intros [a b] [c d]. unfold pair_cmp. simpl. rewrite (g_sym _ G1 a c).
    destruct (e1 a c); simpl; auto. apply (g_sym _ G2).
  - intros [a b] [c d] [f g]. unfold pair_cmp. simpl. intros H1 H2.
    destruct (e1 a c) eqn:E1; try discriminate; destruct (e1 c f) eqn:E2; try discriminate.
    + apply (g_eq _ G1) in E1. apply (g_eq _ G1) in E2. subst. rewrite (good_refl e1 G1).
      eapply (g_trans _ G2); eauto.
    + apply (g_eq _ G1) in E1. subst. rewrite E2. reflexivity.
    + apply (g_eq _ G1) in E2. subst. rewrite E1. reflexivity.
    + rewrite (g_trans _ G1 _ _ _ E1 E2). reflexivity.
Qed.

Lemma good_str : good str_cmp.
Proof. apply good_list, good_Z. Qed.

Lemma good_natkey : good natkey_cmp.
Proof. apply good_list, good_pair; [apply good_Z | apply good_str]. Qed.

(* each component compares a projection of the variable with a good comparison *)
Lemma ccmp_refl : forall c a, ccmp c a a = Eq.
Proof.
  intros [] a; simpl; [apply (good_refl _ good_bool) | apply (good_refl _ good_natkey) | apply (good_refl _ good_str)].
Qed.

Lemma ccmp_sym : forall c a b, ccmp c b a = CompOpp (ccmp c a b).
Proof.
  intros [] a b; simpl; [apply (g_sym _ good_bool) | apply (g_sym _ good_natkey) | apply (g_sym _ good_str)].
Qed.

Lemma ccmp_trans : forall c a b z, ccmp c a b = Lt -> ccmp c b z = Lt -> ccmp c a z = Lt.
Proof.
  intros [] a b z; simpl; [apply (g_trans _ good_bool) | apply (g_trans _ good_natkey) | apply (g_trans _ good_str)].
Qed.

Lemma ccmp_eq_l : forall c a b z, ccmp c a b = Eq -> ccmp c a z = ccmp c b z.
Proof.
  intros [] a b z H; simpl in *;
    [apply (g_eq _ good_bool) in H | apply (g_eq _ good_natkey) in H | apply (g_eq _ good_str) in H];
    rewrite H; reflexivity.
Qed.

Lemma ccmp_eq_r : forall c a b z, ccmp c a b = Eq -> ccmp c z a = ccmp c z b.
Proof.
  intros [] a b z H; simpl in *;
    [apply (g_eq _ good_bool) in H | apply (g_eq _ good_natkey) in H | apply (g_eq _ good_str) in H];
    rewrite H; reflexivity.
Qed.

Lemma lex_refl : forall spec a, lex_cmp spec a a = Eq.
Proof. induction spec as [|c spec IH]; simpl; auto. intro a. rewrite ccmp_refl. auto. Qed.

Lemma lex_sym : forall spec a b, lex_cmp spec b a = CompOpp (lex_cmp spec a b).
Proof.
  induction spec as [|c spec IH]; simpl; auto. intros a b. rewrite (ccmp_sym c a b).
  destruct (ccmp c a b); simpl; auto.
Qed.

Lemma lex_trans : forall spec a b z,
  lex_cmp spec a b = Lt -> lex_cmp spec b z = Lt -> lex_cmp spec a z = Lt.
Proof.
  induction spec as [|c spec IH]; simpl; intros a b z H1 H2; [discriminate|].
  destruct (ccmp c a b) eqn:E1; try discriminate; destruct (ccmp c b z) eqn:E2; try discriminate.
  - rewrite (ccmp_eq_l _ _ _ z E1), E2. eauto.
  - rewrite (ccmp_eq_l _ _ _ z E1), E2. reflexivity.
  - rewrite <- (ccmp_eq_r _ _ _ a E2), E1. reflexivity.
  - rewrite (ccmp_trans _ _ _ _ E1 E2). reflexivity.
Qed.

(* the raw name in the key makes the order total on names *)
Lemma lex_eq_name : forall spec a b, has_comp CName spec = true ->
  lex_cmp spec a b = Eq -> v_name a = v_name b.
Proof.
  induction spec as [|c spec IH]; simpl; intros a b Hh H; [discriminate|].
  destruct (ccmp c a b) eqn:E; try discriminate.
  destruct c; simpl in Hh; auto.
  simpl in E. apply (g_eq _ good_str) in E. exact E.
Qed.

(* with `not droppable` as first component, a non-droppable variable is below non-droppable ones only *)
Lemma lex_notdrop_first : forall spec a b,
  lex_cmp (CNotDrop :: spec) a b = Lt -> v_drop a = false -> v_drop b = false.
Proof.
  intros spec a b H Ha. simpl in H. rewrite Ha in H. destruct (v_drop b); simpl in H; auto. discriminate.
Qed.
