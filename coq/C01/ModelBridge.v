(* C01 — connection to the C06 model of the linearity checker: which place-level liveness the
   accepted checked CFG has, and what it means that the rows of a lowered CFG are read off it.
   No proofs here. *)
From Coq Require Import ZArith List Bool.
From V.C09 Require Import Analysis.
From V.C06 Require Linearity Token Hyps.
From V.C01 Require Import ModelLower.
Import ListNotations.

(* the liveness `check_cfg_linearity` computes (C06 model): block scopes, implicit uses of the
   borrowed leaves in the exit, then LivenessAnalysis *)
Definition c06_live (c : Linearity.lcfg) (sched : list nat) : option vals :=
  match Linearity.check_blocks (Linearity.c_inputs c) (Linearity.c_entry c) 0 (Linearity.c_blocks c) with
  | inl ss0 =>
      match Linearity.exit_used c ss0 with
      | Some ss => Some (Linearity.live_of c ss sched)
      | None => None
      end
  | inr _ => None
  end.

(* `live_places_row`: the row passed to successor s lists `scope[x] for x in live_before[s]`.
   pl x is the row item of leaf x.  Only the non-droppable part matters for cfg_lin_ok:
   the non-droppable items of the k-th output row of a *branching* block i are exactly the places
   of the linear leaves live before its k-th successor (rows of non-branching blocks -- among them
   the Variable-level rows of exit jumps -- are not constrained). *)
Definition reads (lc : Linearity.lcfg) (L : vals) (K : nat -> Linearity.kind) (pl : nat -> var) (m : cfg) : Prop :=
  forall i b, nth_error (c_bbs m) i = Some b -> i <> ModelLower.c_exit m ->
    (i < length (Linearity.c_blocks lc))%nat /\
    b_succs b = Linearity.lb_succ (Token.nth_block lc i) /\
    forall k s r, (2 <= length (b_outs b))%nat ->
      nth_error (b_succs b) k = Some s -> nth_error (b_outs b) k = Some r ->
      forall v, (In v r /\ v_drop v = false) <->
                (exists x, In x (getv L s) /\ K x = Linearity.KLinear /\ v = pl x).

(* for the harness: the linear leaves live before each block *)
Definition linear_live (lc : Linearity.lcfg) (sched : list nat) : list (list nat) :=
  match c06_live lc sched with
  | Some L => map (filter (fun x => Linearity.is_linear (Hyps.K_of (Token.all_leaves lc) x))) L
  | None => []
  end.

(* ---- decidable version of `reads`, evaluated by the harness on every dumped CFG ------------ *)
Definition dummy_var : var := mkVar [] true 0%Z.
Definition pl_of (tbl : list var) (x : nat) : var := nth x tbl dummy_var.

Fixpoint nat_list_eqb (a b : list nat) : bool :=
  match a, b with
  | [], [] => true
  | x :: a', y :: b' => Nat.eqb x y && nat_list_eqb a' b'
  | _, _ => false
  end.

Definition reads_edge (L : vals) (K : nat -> Linearity.kind) (tbl : list var) (s : nat) (r : row) : bool :=
  forallb (fun v => v_drop v ||
                    existsb (fun x => Linearity.is_linear (K x) && var_eqb v (pl_of tbl x)) (getv L s)) r &&
  forallb (fun x => negb (Linearity.is_linear (K x)) ||
                    (mem_var (pl_of tbl x) r && negb (v_drop (pl_of tbl x)))) (getv L s).

Fixpoint reads_edges (L : vals) (K : nat -> Linearity.kind) (tbl : list var) (succs : list nat) (outs : list row) : bool :=
  match succs, outs with
  | s :: succs', r :: outs' => reads_edge L K tbl s r && reads_edges L K tbl succs' outs'
  | _, _ => true
  end.

Fixpoint reads_blocks (lc : Linearity.lcfg) (L : vals) (K : nat -> Linearity.kind) (tbl : list var)
  (exit_ : nat) (i : nat) (bs : list bb) : bool :=
  match bs with
  | [] => true
  | b :: bs' =>
      (Nat.eqb i exit_ ||
       (Nat.ltb i (length (Linearity.c_blocks lc)) &&
        nat_list_eqb (b_succs b) (Linearity.lb_succ (Token.nth_block lc i)) &&
        (Nat.ltb (length (b_outs b)) 2 || reads_edges L K tbl (b_succs b) (b_outs b)))) &&
      reads_blocks lc L K tbl exit_ (S i) bs'
  end.

Definition reads_b (lc : Linearity.lcfg) (L : vals) (K : nat -> Linearity.kind) (tbl : list var) (m : cfg) : bool :=
  reads_blocks lc L K tbl (ModelLower.c_exit m) 0 (c_bbs m).

(* everything the harness asks about one function: C06 verdict, hypotheses of the theorem,
   the reads relation against the CFG compile_cfg consumed, cfg_struct_ok and cfg_ok *)
Definition bridge_obs (lc : Linearity.lcfg) (tbl : list var) (m : cfg) : list nat * list bool :=
  let K := Hyps.K_of (Token.all_leaves lc) in
  (Linearity.enc_verdict (Linearity.check_cfg true lc []),
   [Hyps.uniformb lc; Hyps.wf_shapeb lc;
    match c06_live lc [] with Some L => reads_b lc L K tbl m | None => false end;
    cfg_struct_ok m; cfg_ok m]).
