(* C01 — executable model of compiler/core.py DFContainer.__getitem__/__setitem__ over
   struct/tuple places.  Hand-written (tie: X, props/C01/check_dfc.py).  No proofs here.

   place id   = root variable index :: selectors (field position / tuple index)
   type       = leaf (copyable, droppable, hugr id) | node (struct or tuple: list of children)
   A `%ret` variable is stored whole by __setitem__ whatever its type, so it is a leaf here. *)
From Coq Require Import ZArith List Bool Lia.
Import ListNotations.

Inductive ty :=
  | TLeaf (copyable droppable : bool)
  | TNode (children : list ty).

Definition pid := list nat.
Definition wire := nat.

Fixpoint copyable (t : ty) : bool :=
  match t with TLeaf c _ => c | TNode cs => forallb copyable cs end.
Fixpoint droppable (t : ty) : bool :=
  match t with TLeaf _ d => d | TNode cs => forallb droppable cs end.
(* Type.linear: not copyable and not droppable *)
Definition linear (t : ty) : bool := negb (copyable t) && negb (droppable t).

Definition step (ot : option ty) (i : nat) : option ty :=
  match ot with Some (TNode cs) => nth_error cs i | _ => None end.

(* the type of a place: env lists the types of the root variables *)
Definition ty_at (env : list ty) (p : pid) : option ty :=
  match p with
  | [] => None
  | r :: sel => fold_left step sel (nth_error env r)
  end.

Definition lin_at (env : list ty) (p : pid) : bool :=
  match ty_at env p with Some t => linear t | None => false end.

Inductive op :=
  | OMake (ins : list wire) (out : wire)        (* MakeTuple *)
  | OUnpack (inp : wire) (outs : list wire).    (* UnpackTuple *)

Record state := mkState { locals : list (pid * wire); next : wire; log : list op }.

Definition empty_dfc : state := mkState [] 0 [].

Fixpoint pid_eqb (a b : pid) : bool :=
  match a, b with
  | [], [] => true
  | x :: a', y :: b' => Nat.eqb x y && pid_eqb a' b'
  | _, _ => false
  end.

Fixpoint lookup (p : pid) (l : list (pid * wire)) : option wire :=
  match l with
  | [] => None
  | (q, w) :: l' => if pid_eqb p q then Some w else lookup p l'
  end.

Definition remove (p : pid) (l : list (pid * wire)) : list (pid * wire) :=
  filter (fun e => negb (pid_eqb p (fst e))) l.

Definition keys (st : state) : list pid := map fst (locals st).

Definition children_pids (p : pid) (cs : list ty) : list pid :=
  map (fun i => p ++ [i]) (seq 0 (length cs)).

(* strict ancestors of a place: its non-empty proper prefixes (FieldAccess/TupleAccess parents
   up to the root variable) *)
Fixpoint ancestors (p : pid) : list pid :=
  match p with
  | [] => []
  | x :: p' => match p' with [] => [] | _ => [x] :: map (cons x) (ancestors p') end
  end.

Section Lists.
  Context (getf : pid -> state -> option (wire * state)).
  Fixpoint get_list (ps : list pid) (st : state) : option (list wire * state) :=
    match ps with
    | [] => Some ([], st)
    | q :: ps' =>
        match getf q st with
        | None => None
        | Some (w, st1) =>
            match get_list ps' st1 with
            | None => None
            | Some (ws, st2) => Some (w :: ws, st2)
            end
        end
    end.
End Lists.

Section SetLists.
  Context (setf : pid -> wire -> state -> option state).
  Fixpoint set_list (pws : list (pid * wire)) (st : state) : option state :=
    match pws with
    | [] => Some st
    | (q, w) :: pws' =>
        match setf q w st with
        | None => None
        | Some st1 => set_list pws' st1
        end
    end.
End SetLists.

(* `self.locals.pop(child.id)` for the linear children: KeyError (None) if one is missing *)
Fixpoint pop_linear (env : list ty) (ps : list pid) (l : list (pid * wire)) : option (list (pid * wire)) :=
  match ps with
  | [] => Some l
  | q :: ps' =>
      if lin_at env q then
        match lookup q l with
        | None => None
        | Some _ => pop_linear env ps' (remove q l)
        end
      else pop_linear env ps' l
  end.

(* __getitem__ ; fuel bounds the depth of the place tree; None = InternalGuppyError / KeyError *)
Fixpoint get (env : list ty) (fuel : nat) (p : pid) (st : state) : option (wire * state) :=
  match fuel with
  | O => None
  | S f =>
      match lookup p (locals st) with
      | Some w => Some (w, st)
      | None =>
          match ty_at env p with
          | Some (TNode cs) =>
              match get_list (get env f) (children_pids p cs) st with
              | None => None
              | Some (ws, st') =>
                  match pop_linear env (children_pids p cs) (locals st') with
                  | None => None
                  | Some l' =>
                      let w := next st' in
                      Some (w, mkState ((p, w) :: l') (S w) (log st' ++ [OMake ws w]))
                  end
              end
          | _ => None
          end
      end
  end.

(* __setitem__ ; `fixed` = the code after "assigning a struct field or tuple element left a stale
   packed wire for the parent" (the leaf case also forgets the packed wires of all ancestors) *)
Fixpoint set (fixed : bool) (env : list ty) (fuel : nat) (p : pid) (w : wire) (st : state) : option state :=
  match fuel with
  | O => None
  | S f =>
      match ty_at env p with
      | Some (TNode cs) =>
          let outs := seq (next st) (length cs) in
          let st1 := mkState (locals st) (next st + length cs) (log st ++ [OUnpack w outs]) in
          match set_list (set fixed env f) (combine (children_pids p cs) outs) st1 with
          | None => None
          | Some st2 => Some (mkState (remove p (locals st2)) (next st2) (log st2))
          end
      | Some (TLeaf _ _) =>
          let l1 := (p, w) :: remove p (locals st) in
          let l2 := if fixed then fold_left (fun l a => remove a l) (ancestors p) l1 else l1 in
          Some (mkState l2 (next st) (log st))
      | None => None
      end
  end.

Inductive sop := SSet (p : pid) | SGet (p : pid).

Definition FUEL : nat := 40.

(* a script: every SSet binds a fresh wire (the output of some node the caller built) *)
Fixpoint run_gen (fixed : bool) (env : list ty) (script : list sop) (st : state) : option state :=
  match script with
  | [] => Some st
  | SSet p :: rest =>
      let w := next st in
      match set fixed env FUEL p w (mkState (locals st) (S w) (log st)) with
      | None => None
      | Some st' => run_gen fixed env rest st'
      end
  | SGet p :: rest =>
      match get env FUEL p st with
      | None => None
      | Some (_, st') => run_gen fixed env rest st'
      end
  end.

Definition run_script := run_gen true.
Definition run_script_unfixed := run_gen false.

(* ---- the invariant --------------------------------------------------------------------- *)

(* q lies strictly below p *)
Definition sprefix (p q : pid) : Prop := exists r, r <> [] /\ q = p ++ r.

(* no linear place has an entry of its own while a struct/tuple around it has one too
   ([] is not a place) *)
Definition dfc_inv_keys (env : list ty) (ks : list pid) : Prop :=
  forall p q, p <> [] -> In p ks -> In q ks -> sprefix p q -> lin_at env q = false.
Definition dfc_inv (env : list ty) (st : state) : Prop := dfc_inv_keys env (keys st).

(* every leaf is copyable+droppable, affine or linear: no "copyable but not droppable" leaf *)
Fixpoint no_relevant (t : ty) : bool :=
  match t with
  | TLeaf c d => d || negb c
  | TNode cs => forallb no_relevant cs
  end.
Definition env_ok (env : list ty) : bool := forallb no_relevant env.

(* decidable version of the invariant, for the harness *)
Fixpoint prefixb (p q : pid) : bool :=
  match p, q with
  | [], _ => true
  | x :: p', y :: q' => Nat.eqb x y && prefixb p' q'
  | _ :: _, [] => false
  end.
Definition dfc_inv_b (env : list ty) (st : state) : bool :=
  forallb (fun p => forallb (fun q => negb (prefixb p q && negb (pid_eqb p q) && lin_at env q)) (keys st)) (keys st).
