(* C01 — canonical encoding of what the model predicts for one checked CFG, evaluated with
   vm_compute by the correspondence harness and compared with what /repo built.
   Nesting: cfg observation = list of block observations; block observation = list of sections;
   section = list of rows; row = list of items; item = list Z. *)
From Coq Require Import ZArith List Bool.
From V.C01 Require Import ModelLower ModelCond.
Import ListNotations.
Open Scope Z_scope.

Definition item := list Z.
Definition orow := list item.
Definition section := list orow.

Definition b2z (b : bool) : Z := if b then 1 else 0.
Definition enc_var (v : var) : item := b2z (v_drop v) :: v_ty v :: v_name v.
Definition enc_row (r : row) : orow := map enc_var r.
Definition tys (r : row) : orow := map (fun v => [v_ty v]) r.
Definition err_row : orow := [[-1]].

Fixpoint index_from {A} (i : nat) (l : list A) : list (nat * A) :=
  match l with [] => [] | x :: l' => (i, x) :: index_from (S i) l' end.

Definition block_obs (c : cfg) (ib : nat * bb) : list section :=
  let (i, b) := ib in
  let secA := enc_row (b_in b) :: map enc_row (b_outs b) in
  if Nat.eqb i (c_exit c) then [secA; []; []; []; []]
  else
    let secB := match block_outputs c b with
                | None => [err_row]
                | Some (vs, o) => tys (block_inputs c i) :: map tys vs ++ [tys o]
                end in
    let secC := map (fun k => match delivered c b k with Some r => tys r | None => err_row end)
                    (seq 0 (length (b_succs b))) in
    let secD := map (fun s => tys (declared c s)) (b_succs b) in
    (* the Conditional of choose_vars_for_tuple_sum: [[consistent]] ; types of its other inputs ;
       per case the input offsets wired into the Tag *)
    let secE := match b_succs b, b_outs b with
                | _ :: _ :: _, first :: rest =>
                    if forallb (same_ids first) rest then []
                    else let rows := tuple_sum_rows b in
                         [[b2z (rows_consistent rows)]] :: tys (all_vars rows) ::
                         map (fun i => match case_indices rows i with
                                       | Some ks => map (fun k => [Z.of_nat k]) ks
                                       | None => err_row
                                       end) (seq 0 (length rows))
                | _, _ => []
                end in
    [secA; secB; secC; secD; secE].

Definition observe (pre : cfg) (inputs : list (Z * bool)) : list (list section) :=
  match guarded_insert pre with
  | None => [[[err_row]]]
  | Some c =>
      [ [[[b2z (cfg_ok c)]]];
        [tys (declared c (c_exit c)); map (fun t => [t]) (functype_outputs (map fst (c_ret c)) inputs)] ]
      :: map (block_obs c) (index_from 0 (c_bbs c))
  end.

(* sort_vars alone, for the direct differential test of the comparator *)
Definition observe_sort (r : row) : orow := enc_row (sort_vars r).

(* ---- DFContainer scripts ---------------------------------------------------------------- *)
From V.C01 Require Import ModelDfc.

Definition enc_pid (p : pid) : list Z := map Z.of_nat p.
Definition enc_op (o : op) : list Z :=
  match o with
  | OMake ins out => 0 :: Z.of_nat out :: map Z.of_nat ins
  | OUnpack inp outs => 1 :: Z.of_nat inp :: map Z.of_nat outs
  end.

(* run as far as the script succeeds: (number of successful steps, state reached) *)
Fixpoint run_steps (env : list ty) (script : list sop) (st : state) (k : nat) : nat * state :=
  match script with
  | [] => (k, st)
  | s :: rest =>
      match run_script env [s] st with
      | Some st' => run_steps env rest st' (S k)
      | None => (k, st)
      end
  end.

(* [[steps; inv]] ; locals as [wire; pid...] ; log *)
Definition observe_dfc (env : list ty) (script : list sop) : list (list (list Z)) :=
  let (k, st) := run_steps env script empty_dfc 0 in
  [ [[Z.of_nat k; b2z (dfc_inv_b env st); b2z (env_ok env)]];
    map (fun e => Z.of_nat (snd e) :: enc_pid (fst e)) (locals st);
    map enc_op (log st) ].
