(* C01 — lemmas about ModelLower.v *)
From Coq Require Import ZArith List Bool Lia Permutation Sorted.
From V.C01 Require Import ModelLower ProofsCmp.
Import ListNotations.
Open Scope Z_scope.

(* ---------- str order ---------------------------------------------------------------- *)

Lemma str_eqb_eq : forall a b, str_eqb a b = true <-> a = b.
Proof.
  induction a as [|x a IH]; destruct b as [|y b]; simpl; split; intro H; try congruence; auto.
  - apply andb_true_iff in H as [H1 H2]. apply Z.eqb_eq in H1. apply IH in H2. congruence.
  - inversion H; subst. rewrite Z.eqb_refl. simpl. apply IH. reflexivity.
Qed.

Lemma str_eqb_refl : forall a, str_eqb a a = true.
Proof. intro a. apply str_eqb_eq. reflexivity. Qed.

(* ---------- the comparator: instance of ProofsCmp for the generated key_spec ------------ *)

Definition vlt (a b : var) : Prop := var_ltb a b = true.
Definition var_key (v : var) : list Z := v_name v.

Lemma var_ltb_lex : forall a b, var_ltb a b = true <-> lex_cmp key_spec a b = Lt.
Proof.
  intros. unfold var_ltb, compare_var.
  destruct (lex_cmp key_spec a b); split; intro H; try reflexivity; try discriminate H;
    vm_compute in H; discriminate H.
Qed.

(* side conditions on the generated key: checked by computation, they fail to compile if the
   source stops using the raw name as a component / `not droppable` as first component *)
Lemma key_spec_has_name : has_comp CName key_spec = true.
Proof. reflexivity. Qed.

Lemma key_spec_notdrop_first : exists spec, key_spec = CNotDrop :: spec.
Proof. eexists. reflexivity. Qed.

Lemma vlt_irrefl : forall a, ~ vlt a a.
Proof. intros a H. apply var_ltb_lex in H. rewrite lex_refl in H. discriminate. Qed.

Lemma vlt_trans : forall a b c, vlt a b -> vlt b c -> vlt a c.
Proof. unfold vlt. intros a b c. rewrite !var_ltb_lex. apply lex_trans. Qed.

Lemma vlt_total : forall a b, vlt a b \/ var_key a = var_key b \/ vlt b a.
Proof.
  intros a b. unfold vlt. rewrite !var_ltb_lex. rewrite (lex_sym key_spec a b).
  destruct (lex_cmp key_spec a b) eqn:E; simpl; auto.
  right; left. apply (lex_eq_name key_spec); auto.
Qed.

(* compare_var is antisymmetric on distinct names: exactly one of <, > *)
Lemma compare_var_antisym : forall a b, var_key a <> var_key b ->
  compare_var a b = - compare_var b a.
Proof.
  intros a b Hne. unfold compare_var. rewrite (lex_sym key_spec a b).
  destruct (lex_cmp key_spec a b) eqn:E; simpl; auto.
  exfalso. apply Hne. apply (lex_eq_name key_spec); auto.
Qed.

(* ---------- sort_vars ---------------------------------------------------------------- *)

Lemma insert_var_perm : forall x l, Permutation (insert_var x l) (x :: l).
Proof.
  induction l as [|y l IH]; simpl; auto.
  destruct (var_ltb y x); auto.
  eapply perm_trans; [apply perm_skip, IH | apply perm_swap].
Qed.

Lemma sort_vars_perm : forall l, Permutation (sort_vars l) l.
Proof.
  induction l as [|x l IH]; simpl; auto.
  eapply perm_trans; [apply insert_var_perm | apply perm_skip, IH].
Qed.

Definition keys (l : list var) : list (list Z) := map var_key l.

Lemma insert_var_sorted : forall x l,
  StronglySorted vlt l -> ~ In (var_key x) (keys l) -> StronglySorted vlt (insert_var x l).
Proof.
  induction l as [|y l IH]; simpl; intros Hs Hn.
  - constructor; constructor.
  - inversion Hs as [|? ? Hs' Hall]; subst.
    destruct (var_ltb y x) eqn:E.
    + constructor.
      * apply IH; auto.
      * rewrite Forall_forall. intros z Hz.
        apply (Permutation_in _ (insert_var_perm x l)) in Hz. destruct Hz as [<- | Hz]; auto.
        rewrite Forall_forall in Hall. auto.
    + constructor; auto.
      assert (Hxy : vlt x y).
      { destruct (vlt_total x y) as [H | [H | H]]; auto.
        - exfalso. apply Hn. left. congruence.
        - unfold vlt in H. congruence. }
      constructor; auto.
      rewrite Forall_forall in *. intros z Hz. eapply vlt_trans; eauto.
Qed.

Lemma sort_vars_sorted : forall l, NoDup (keys l) -> StronglySorted vlt (sort_vars l).
Proof.
  induction l as [|x l IH]; simpl; intro Hnd.
  - constructor.
  - inversion Hnd; subst. apply insert_var_sorted; auto.
    intro Hin. apply H1. unfold keys in *.
    eapply Permutation_in; [ apply Permutation_map, sort_vars_perm | exact Hin ].
Qed.

Lemma sorted_perm_unique : forall l1 l2,
  StronglySorted vlt l1 -> StronglySorted vlt l2 -> Permutation l1 l2 -> l1 = l2.
Proof.
  induction l1 as [|a l1 IH]; intros l2 H1 H2 Hp.
  - apply Permutation_nil in Hp. auto.
  - destruct l2 as [|b l2]; [apply Permutation_sym, Permutation_nil in Hp; discriminate|].
    inversion H1 as [|? ? H1' Ha]; inversion H2 as [|? ? H2' Hb]; subst.
    assert (a = b).
    { assert (Hin1 : In a (b :: l2)) by (eapply Permutation_in; [exact Hp | left; auto]).
      assert (Hin2 : In b (a :: l1)) by (eapply Permutation_in; [apply Permutation_sym; exact Hp | left; auto]).
      destruct Hin1 as [-> | Hin1]; auto. destruct Hin2 as [-> | Hin2]; auto.
      rewrite Forall_forall in Ha, Hb. exfalso.
      apply (vlt_irrefl a). eapply vlt_trans; [apply Ha, Hin2 | apply Hb, Hin1]. }
    subst. f_equal. apply IH; auto. eapply Permutation_cons_inv; eauto.
Qed.

Lemma perm_keys_nodup : forall l l', Permutation l l' -> NoDup (keys l) -> NoDup (keys l').
Proof. intros. eapply Permutation_NoDup; [apply Permutation_map; eauto | auto]. Qed.

Lemma sort_vars_perm_invariant : forall l l',
  NoDup (keys l) -> Permutation l l' -> sort_vars l = sort_vars l'.
Proof.
  intros l l' Hnd Hp. apply sorted_perm_unique.
  - apply sort_vars_sorted; auto.
  - apply sort_vars_sorted. eapply perm_keys_nodup; eauto.
  - eapply perm_trans; [apply sort_vars_perm|]. eapply perm_trans; [exact Hp|].
    apply Permutation_sym, sort_vars_perm.
Qed.

Lemma sort_vars_idem : forall l, NoDup (keys l) -> sort_vars (sort_vars l) = sort_vars l.
Proof.
  intros. symmetry. apply sort_vars_perm_invariant; auto. apply Permutation_sym, sort_vars_perm.
Qed.

(* droppable places first, then the non-droppable ones *)
Lemma vlt_nondrop : forall a b, vlt a b -> v_drop a = false -> v_drop b = false.
Proof.
  unfold vlt. intros a b H Ha. apply var_ltb_lex in H.
  destruct key_spec_notdrop_first as [spec Hs]. rewrite Hs in H.
  eapply lex_notdrop_first; eauto.
Qed.

Lemma filter_all_false : forall (f : var -> bool) l, Forall (fun v => f v = false) l -> filter f l = [].
Proof. induction 1; simpl; auto. rewrite H. auto. Qed.

Lemma filter_all_true : forall (f : var -> bool) l, Forall (fun v => f v = true) l -> filter f l = l.
Proof. induction 1; simpl; auto. rewrite H. f_equal; auto. Qed.

Lemma sorted_split : forall l, StronglySorted vlt l -> l = filter v_drop l ++ nondrop l.
Proof.
  induction 1 as [|a l Hs IH Hall]; simpl; auto.
  unfold nondrop in *. simpl. destruct (v_drop a) eqn:Ea; simpl.
  - f_equal. exact IH.
  - assert (Hnd : Forall (fun v => v_drop v = false) l).
    { rewrite Forall_forall in *. intros z Hz. eapply vlt_nondrop; eauto. }
    rewrite filter_all_false by exact Hnd. simpl. f_equal. symmetry. apply filter_all_true.
    rewrite Forall_forall in *. intros z Hz. rewrite Hnd; auto.
Qed.

Lemma filter_sorted : forall (f : var -> bool) l, StronglySorted vlt l -> StronglySorted vlt (filter f l).
Proof.
  induction 1 as [|a l Hs IH Hall]; simpl; [constructor|].
  destruct (f a); auto. constructor; auto.
  rewrite Forall_forall in *. intros z Hz. apply filter_In in Hz. apply Hall, Hz.
Qed.

Lemma filter_perm : forall (f : var -> bool) l l', Permutation l l' -> Permutation (filter f l) (filter f l').
Proof.
  induction 1; simpl; auto.
  - destruct (f x); auto.
  - destruct (f x), (f y); auto. apply perm_swap.
  - eapply perm_trans; eauto.
Qed.

Lemma keys_filter_nodup : forall (f : var -> bool) l, NoDup (keys l) -> NoDup (keys (filter f l)).
Proof.
  induction l as [|a l IH]; simpl; intro H; auto. inversion H; subst.
  destruct (f a); simpl; auto. constructor; auto.
  intro Hin. apply H2. unfold keys in *. apply in_map_iff in Hin as [z [Hz Hin]].
  apply filter_In in Hin as [Hin _]. apply in_map_iff. eauto.
Qed.

(* ---------- decidable predicates ------------------------------------------------------- *)

Lemma var_eqb_eq : forall a b, var_eqb a b = true <-> a = b.
Proof.
  intros [n1 d1 t1] [n2 d2 t2]. unfold var_eqb. simpl. split; intro H.
  - apply andb_true_iff in H as [H H3]. apply andb_true_iff in H as [H1 H2].
    apply str_eqb_eq in H1. apply eqb_prop in H2. apply Z.eqb_eq in H3. congruence.
  - inversion H; subst. rewrite str_eqb_refl, eqb_reflx, Z.eqb_refl. reflexivity.
Qed.

Lemma mem_var_In : forall v r, mem_var v r = true <-> In v r.
Proof.
  intros. unfold mem_var. rewrite existsb_exists. split.
  - intros [x [Hx He]]. apply var_eqb_eq in He. subst. auto.
  - intro H. exists v. split; auto. apply var_eqb_eq. reflexivity.
Qed.

Lemma incl_row_incl : forall r1 r2, incl_row r1 r2 = true <-> incl r1 r2.
Proof.
  intros. unfold incl_row, incl. rewrite forallb_forall. split; intros H x Hx.
  - apply mem_var_In. auto.
  - apply mem_var_In. auto.
Qed.

Lemma name_in_In : forall n r, name_in n r = true <-> In n (map v_name r).
Proof.
  intros. unfold name_in. rewrite existsb_exists, in_map_iff. split.
  - intros [x [Hx He]]. apply str_eqb_eq in He. eauto.
  - intros [x [He Hx]]. exists x. split; auto. apply str_eqb_eq. auto.
Qed.

Lemma nodup_names_NoDup : forall r, nodup_names r = true -> NoDup (map v_name r).
Proof.
  induction r as [|v r IH]; simpl; intro H; [constructor|].
  apply andb_true_iff in H as [H1 H2]. constructor; auto.
  intro Hin. apply name_in_In in Hin. rewrite Hin in H1. discriminate.
Qed.

Lemma names_nodup_keys : forall r, NoDup (map v_name r) -> NoDup (keys r).
Proof. intros r H. exact H. Qed.

Lemma names_nodup_vars : forall r, NoDup (map v_name r) -> NoDup r.
Proof. intros r H. eapply NoDup_map_inv; eauto. Qed.

Lemma row_equiv_perm : forall r1 r2,
  NoDup (map v_name r1) -> NoDup (map v_name r2) -> row_equiv r1 r2 = true -> Permutation r1 r2.
Proof.
  intros r1 r2 H1 H2 H. unfold row_equiv in H. apply andb_true_iff in H as [Ha Hb].
  apply incl_row_incl in Ha. apply incl_row_incl in Hb.
  apply NoDup_Permutation; auto using names_nodup_vars. intro x. split; auto.
Qed.

Lemma row_eqb_eq : forall r1 r2, row_eqb r1 r2 = true -> r1 = r2.
Proof.
  induction r1 as [|a r1 IH]; destruct r2 as [|b r2]; simpl; intro H; try congruence.
  apply andb_true_iff in H as [H1 H2]. apply var_eqb_eq in H1. apply IH in H2. congruence.
Qed.

Lemma names_filter_nodup : forall (f : var -> bool) r, NoDup (map v_name r) -> NoDup (map v_name (filter f r)).
Proof.
  induction r as [|a r IH]; simpl; intro H; auto. inversion H; subst.
  destruct (f a); simpl; auto. constructor; auto.
  intro Hin. apply H2. apply in_map_iff in Hin as [z [Hz Hin]].
  apply filter_In in Hin as [Hin _]. apply in_map_iff. eauto.
Qed.

Lemma same_ids_consistent_perm : forall r1 r2,
  NoDup (map v_name r1) -> NoDup (map v_name r2) ->
  same_ids r1 r2 = true -> consistent r1 r2 = true -> Permutation r1 r2.
Proof.
  intros r1 r2 N1 N2 Hs Hc. unfold same_ids in Hs. apply andb_true_iff in Hs as [Ha Hb].
  rewrite forallb_forall in Ha, Hb. unfold consistent in Hc. rewrite forallb_forall in Hc.
  apply NoDup_Permutation; auto using names_nodup_vars. intro x. split; intro Hx.
  - specialize (Ha x Hx). apply name_in_In in Ha. apply in_map_iff in Ha as [w [Hw Hin]].
    specialize (Hc x Hx). rewrite forallb_forall in Hc. specialize (Hc w Hin).
    assert (E : str_eqb (v_name x) (v_name w) = true) by (apply str_eqb_eq; auto).
    rewrite E in Hc. simpl in Hc. apply var_eqb_eq in Hc. subst. auto.
  - specialize (Hb x Hx). apply name_in_In in Hb. apply in_map_iff in Hb as [w [Hw Hin]].
    specialize (Hc w Hin). rewrite forallb_forall in Hc. specialize (Hc x Hx).
    assert (E : str_eqb (v_name w) (v_name x) = true) by (apply str_eqb_eq; auto).
    rewrite E in Hc. simpl in Hc. apply var_eqb_eq in Hc. subst. auto.
Qed.

(* ---------- walking the CFG ------------------------------------------------------------ *)

Lemma bbs_ok_nth : forall c bs n j b,
  bbs_ok c n bs = true -> nth_error bs j = Some b -> bb_ok c (n + j) b = true.
Proof.
  induction bs as [|b0 bs IH]; intros n j b H Hn; [destruct j; discriminate|].
  simpl in H. apply andb_true_iff in H as [H1 H2]. destruct j; simpl in Hn.
  - inversion Hn; subst. rewrite Nat.add_0_r. auto.
  - replace (n + S j)%nat with (S n + j)%nat by lia. eauto.
Qed.

Lemma edges_ok_nth : forall c succs outs k s,
  edges_ok c succs outs = true -> nth_error succs k = Some s ->
  exists r, nth_error outs k = Some r /\ edge_ok c s r = true.
Proof.
  induction succs as [|s0 succs IH]; intros outs k s H Hn; [destruct k; discriminate|].
  destruct outs as [|r0 outs]; simpl in H; [discriminate|].
  apply andb_true_iff in H as [H1 H2]. destruct k; simpl in *.
  - inversion Hn; subst. eauto.
  - eauto.
Qed.

Lemma edges_ok_length : forall c succs outs, edges_ok c succs outs = true -> length succs = length outs.
Proof.
  induction succs as [|s0 succs IH]; destruct outs; simpl; intro H; try discriminate; auto.
  apply andb_true_iff in H as [_ H]. f_equal. auto.
Qed.

(* what edge_ok gives *)
Lemma edge_ok_exit : forall c s r, edge_ok c s r = true -> s = c_exit c -> r = b_in (get_bb c s).
Proof.
  intros c s r H E. unfold edge_ok in H. apply Nat.eqb_eq in E. rewrite E in H.
  apply andb_true_iff in H as [_ H]. apply row_eqb_eq. auto.
Qed.

Lemma edge_ok_inner : forall c s r, edge_ok c s r = true -> s <> c_exit c ->
  s <> c_entry c /\ NoDup (map v_name r) /\ NoDup (map v_name (b_in (get_bb c s))) /\
  Permutation r (b_in (get_bb c s)).
Proof.
  intros c s r H E. unfold edge_ok in H. apply Nat.eqb_neq in E. rewrite E in H.
  apply andb_true_iff in H as [H H4]. apply andb_true_iff in H as [H H3].
  apply andb_true_iff in H as [H1 H2]. apply andb_true_iff in H4 as [H4 H5].
  apply negb_true_iff, Nat.eqb_neq in H1.
  apply nodup_names_NoDup in H3. apply nodup_names_NoDup in H4.
  repeat split; auto. apply row_equiv_perm; auto.
Qed.

Lemma edge_ok_nodup : forall c s r, edge_ok c s r = true -> NoDup (map v_name r).
Proof.
  intros c s r H. unfold edge_ok in H. apply andb_true_iff in H as [H _].
  apply andb_true_iff in H as [_ H]. apply nodup_names_NoDup. auto.
Qed.

Lemma declared_inner : forall c s, s <> c_exit c -> s <> c_entry c ->
  declared c s = sort_vars (b_in (get_bb c s)).
Proof.
  intros c s H1 H2. unfold declared, block_inputs.
  apply Nat.eqb_neq in H1. apply Nat.eqb_neq in H2. rewrite H1, H2. reflexivity.
Qed.

Lemma declared_exit : forall c s, s = c_exit c -> declared c s = b_in (get_bb c s).
Proof. intros c s H. unfold declared. apply Nat.eqb_eq in H. rewrite H. reflexivity. Qed.

Lemma is_exit_pred_false : forall c b, is_exit_pred c b = false ->
  forall k s, nth_error (b_succs b) k = Some s -> s <> c_exit c.
Proof.
  intros c b H k s Hn E. subst. unfold is_exit_pred in H.
  assert (existsb (Nat.eqb (c_exit c)) (b_succs b) = true).
  { apply existsb_exists. exists (c_exit c). split; [eapply nth_error_In; eauto | apply Nat.eqb_refl]. }
  congruence.
Qed.

(* the droppable/non-droppable split of a sorted row equals what compile_bb assembles *)
Lemma tuple_sum_row : forall first r,
  NoDup (map v_name first) -> NoDup (map v_name r) ->
  row_equiv (nondrop first) (nondrop r) = true ->
  filter v_drop (sort_vars r) ++ sort_vars (nondrop first) = sort_vars r.
Proof.
  intros first r N1 N2 He.
  assert (Sr : StronglySorted vlt (sort_vars r)) by (apply sort_vars_sorted, names_nodup_keys; auto).
  etransitivity; [| symmetry; apply (sorted_split _ Sr)]. f_equal.
  apply sorted_perm_unique.
  - apply sort_vars_sorted, names_nodup_keys. unfold nondrop. apply names_filter_nodup; auto.
  - unfold nondrop. apply filter_sorted; auto.
  - eapply perm_trans; [apply sort_vars_perm|].
    eapply perm_trans; [apply (row_equiv_perm (nondrop first) (nondrop r)); auto; unfold nondrop; apply names_filter_nodup; auto|].
    unfold nondrop. apply filter_perm. apply Permutation_sym, sort_vars_perm.
Qed.

Lemma rows_agree_main : forall c, cfg_ok c = true ->
  forall i b k s, nth_error (c_bbs c) i = Some b -> i <> c_exit c ->
  nth_error (b_succs b) k = Some s ->
  delivered c b k = Some (declared c s).
Proof.
  intros c Hok i b k s Hb Hi Hs.
  pose proof (bbs_ok_nth c (c_bbs c) 0 i b Hok Hb) as Hbb. simpl in Hbb.
  unfold bb_ok in Hbb. apply Nat.eqb_neq in Hi. rewrite Hi in Hbb.
  apply andb_true_iff in Hbb as [He Hshape].
  pose proof (edges_ok_length _ _ _ He) as Hlen.
  destruct (edges_ok_nth _ _ _ _ _ He Hs) as [r [Hr Hedge]].
  unfold delivered, block_outputs.
  destruct (b_succs b) as [|s0 [|s1 succs]] eqn:Es; [destruct k; discriminate| |].
  - (* one successor *)
    destruct (b_outs b) as [|r0 [|r1 outs]] eqn:Eo; simpl in Hlen; try discriminate.
    destruct k as [|k]; [|destruct k; discriminate]. simpl in Hs, Hr. inversion Hs; inversion Hr; subst s0 r0.
    simpl. unfold jumps_to_exit, is_exit_pred. rewrite Es. simpl. rewrite orb_false_r.
    destruct (Nat.eqb (c_exit c) s) eqn:Ex.
    + apply Nat.eqb_eq in Ex. symmetry in Ex. rewrite (declared_exit _ _ Ex).
      rewrite (edge_ok_exit _ _ _ Hedge Ex). reflexivity.
    + apply Nat.eqb_neq in Ex. assert (Ex' : s <> c_exit c) by congruence.
      destruct (edge_ok_inner _ _ _ Hedge Ex') as [Hent [N1 [N2 Hp]]].
      rewrite (declared_inner _ _ Ex' Hent). f_equal.
      apply sort_vars_perm_invariant; auto using names_nodup_keys.
  - (* branching *)
    destruct (b_outs b) as [|first [|r1 rest]] eqn:Eo; simpl in Hlen; try discriminate.
    apply andb_true_iff in Hshape as [Hshape Hlin]. apply andb_true_iff in Hshape as [Hnx Hcons].
    apply negb_true_iff in Hnx. unfold jumps_to_exit in *. rewrite Hnx.
    assert (Ex' : s <> c_exit c).
    { eapply is_exit_pred_false with (b := b); eauto. rewrite Es. eauto. }
    destruct (edge_ok_inner _ _ _ Hedge Ex') as [Hent [N1 [N2 Hp]]].
    rewrite (declared_inner _ _ Ex' Hent).
    assert (Nf : NoDup (map v_name first)).
    { destruct (edges_ok_nth c (s0 :: s1 :: succs) (first :: r1 :: rest) 0%nat s0 He eq_refl) as [r' [Hr' He']].
      simpl in Hr'. inversion Hr'; subst. eapply edge_ok_nodup; eauto. }
    (* r is either `first` or a member of the rest *)
    assert (Hr_cases : r = first \/ In r (r1 :: rest)).
    { destruct k; simpl in Hr; [inversion Hr; auto|]. right. eapply nth_error_In; eauto. }
    rewrite forallb_forall in Hcons, Hlin.
    destruct (forallb (same_ids first) (r1 :: rest)) eqn:Esame.
    + erewrite map_nth_error by exact Hr. simpl. f_equal.
      apply sort_vars_perm_invariant; auto using names_nodup_keys.
      eapply perm_trans; [|exact Hp].
      destruct Hr_cases as [-> | Hin]; auto.
      rewrite forallb_forall in Esame.
      apply same_ids_consistent_perm; auto.
    + erewrite map_nth_error by exact Hr. f_equal.
      rewrite <- (sort_vars_perm_invariant r (b_in (get_bb c s))) by auto using names_nodup_keys.
      apply tuple_sum_row; auto.
      destruct Hr_cases as [-> | Hin]; auto.
      unfold row_equiv. assert (incl_row (nondrop first) (nondrop first) = true) as ->; auto.
      apply incl_row_incl. apply incl_refl.
Qed.
