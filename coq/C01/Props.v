(* C01 — accepted programs lower to valid HUGR: theorems for the block-wiring core.
   PARTIAL by design (DESIGN.md section 5 C01): these theorems cover sort_vars, compile_bb's
   input/output rows, insert_return_vars and DFContainer; expression/statement compilers,
   generics, nested functions and comptime are only differentially validated by the check. *)
From Coq Require Import ZArith List Bool Lia Permutation Sorted.
From V.C01 Require Import ModelLower ModelObs ProofsCmp ProofsLower ProofsRet ModelDfc ProofsDfc.
Import ListNotations.
Open Scope Z_scope.

(* ---- sort_vars is a deterministic total order ------------------------------------------ *)

(* compare_var (key tuple = GenCmp.key_spec, regenerated from the source on every run) is a
   strict total order on variables with distinct names *)
Theorem compare_var_total_order :
  (forall a, ~ vlt a a) /\
  (forall a b c, vlt a b -> vlt b c -> vlt a c) /\
  (forall a b, vlt a b \/ var_key a = var_key b \/ vlt b a) /\
  (forall a b, var_key a <> var_key b -> compare_var a b = - compare_var b a).
Proof.
  exact (conj vlt_irrefl (conj vlt_trans (conj vlt_total compare_var_antisym))).
Qed.
Print Assumptions compare_var_total_order.

(* the result is a permutation of the row, strictly increasing for compare_var *)
Theorem sort_vars_sorts : forall r, NoDup (map var_key r) ->
  Permutation (sort_vars r) r /\ StronglySorted vlt (sort_vars r).
Proof. intros r H. split; [apply sort_vars_perm | apply sort_vars_sorted; exact H]. Qed.
Print Assumptions sort_vars_sorts.

(* permutation invariance: two blocks that list the same places in different orders
   produce the same HUGR row *)
Theorem sort_vars_deterministic : forall r r', NoDup (map var_key r) -> Permutation r r' ->
  sort_vars r = sort_vars r'.
Proof. exact sort_vars_perm_invariant. Qed.
Print Assumptions sort_vars_deterministic.

(* droppable places first: this is what makes "tuple-sum variant ++ shared outputs" line up *)
Theorem sort_vars_droppable_first : forall r, NoDup (map var_key r) ->
  sort_vars r = filter v_drop (sort_vars r) ++ nondrop (sort_vars r).
Proof. intros r H. apply sorted_split, sort_vars_sorted, H. Qed.
Print Assumptions sort_vars_droppable_first.

(* ---- rows_agree ------------------------------------------------------------------------- *)

(* For every checked CFG satisfying the decidable invariant cfg_ok (rows duplicate-free; along
   each edge the predecessor's output row lists the same places, with the same types, as the
   successor's input row; exit rows identical in order; branching blocks do not jump to the
   exit; rows of one block agree on the place behind an id; non-droppable places are live in
   all successors of a branching block or in none), every block compiles without assertion
   failure and the row it delivers to its k-th successor (the values in variant k of the
   tuple sum followed by the shared outputs) IS the row that successor declares, in order,
   name and type. *)
Theorem rows_agree : forall c, cfg_ok c = true ->
  forall i b k s, nth_error (c_bbs c) i = Some b -> i <> c_exit c ->
  nth_error (b_succs b) k = Some s ->
  delivered c b k = Some (declared c s).
Proof. exact rows_agree_main. Qed.
Print Assumptions rows_agree.

(* ---- exit rows and insert_return_vars --------------------------------------------------- *)

(* after insert_return_vars the CFG node's output row is FunctionType.to_hugr's output row:
   the return types followed by the borrowed (inout) inputs *)
Theorem exit_row_matches_functype : forall c c' inputs, (c_exit c < length (c_bbs c))%nat ->
  insert_return_vars c = Some c' ->
  map v_ty (b_in (get_bb c (c_exit c))) = map fst (filter snd inputs) ->
  map v_ty (declared c' (c_exit c')) = functype_outputs (map fst (c_ret c)) inputs.
Proof. exact exit_row_functype_main. Qed.
Print Assumptions exit_row_matches_functype.

(* compiling the same checked CFG twice does not insert the return variables twice *)
Theorem insert_return_vars_idempotent : forall c c', (c_exit c < length (c_bbs c))%nat ->
  guarded_insert c = Some c' -> guarded_insert c' = Some c'.
Proof. exact guarded_insert_idem_main. Qed.
Print Assumptions insert_return_vars_idempotent.

(* ---- a non-trivial instance: the hypotheses are satisfiable ---------------------------- *)

(* def f(q: qubit @owned, b: bool, x: int) -> int:
       if b: y = x + 1
       else: y = 2
       measure(q); return y
   hugr type ids: 0 = int, 1 = qubit, 2 = bool.  Names are code points. *)
Definition vq := mkVar [113] false 1.
Definition vb := mkVar [98] true 2.
Definition vx := mkVar [120] true 0.
Definition vy := mkVar [121] true 0.
Definition ex_cfg : cfg := mkCfg
  [ mkBB [vq; vb; vx] [[vq]; [vx; vq]] [2%nat; 1%nat];     (* entry, branches on b *)
    mkBB [vx; vq] [[vy; vq]] [3%nat];
    mkBB [vq] [[vy; vq]] [3%nat];
    mkBB [vq; vy] [[]] [4%nat];                             (* different order than its preds *)
    mkBB [] [] [] ]                                         (* exit *)
  0 4 [(0, true)].

Definition ex_cfg' : cfg :=
  match guarded_insert ex_cfg with Some c => c | None => ex_cfg end.

Example ex_inserted : b_in (get_bb ex_cfg' 4) = [mkVar [37; 114; 101; 116; 48] true 0]
  /\ b_outs (get_bb ex_cfg' 3) = [[mkVar [37; 114; 101; 116; 48] true 0]].
Proof. vm_compute. split; reflexivity. Qed.

Example ex_cfg_ok : cfg_ok ex_cfg' = true.
Proof. vm_compute. reflexivity. Qed.

(* the entry block needs a tuple sum: x only goes to the `if` branch, the qubit to both *)
Example ex_tuple_sum : block_outputs ex_cfg' (get_bb ex_cfg' 0) = Some ([[]; [vx]], [vq])
  /\ delivered ex_cfg' (get_bb ex_cfg' 0) 1 = Some [vx; vq]
  /\ declared ex_cfg' 1 = [vx; vq]
  /\ delivered ex_cfg' (get_bb ex_cfg' 1) 0 = Some [vy; vq]
  /\ declared ex_cfg' 3 = [vy; vq].
Proof. vm_compute. repeat split; reflexivity. Qed.

Example ex_idempotent : guarded_insert ex_cfg' = Some ex_cfg'.
Proof. vm_compute. reflexivity. Qed.

(* the linearity hypothesis of cfg_ok is needed: with a qubit live in only one successor the
   rows no longer agree (compile_bb would hand the qubit to a block that does not take it) *)
Definition bad_cfg : cfg := mkCfg
  [ mkBB [vq; vb] [[]; [vq]] [1%nat; 2%nat]; mkBB [] [[]] [3%nat]; mkBB [vq] [[]] [3%nat]; mkBB [] [] [] ]
  0 3 [].
Example ex_hypothesis_needed : cfg_ok bad_cfg = false
  /\ delivered bad_cfg (get_bb bad_cfg 0) 1 <> Some (declared bad_cfg 2).
Proof. vm_compute. split; [reflexivity | discriminate]. Qed.


(* ---- DFContainer ------------------------------------------------------------------------- *)

(* Any sequence of DFContainer.__setitem__/__getitem__ calls over struct/tuple places, started
   from an empty container, keeps the invariant: no linear place has an entry of its own while a
   struct/tuple packed around it also has one -- every linear leaf is held by at most one of
   {its own entry, the entry of a packed ancestor}, so __getitem__ can never hand out a linear
   wire that a cached MakeTuple has already consumed.  Failing lookups (InternalGuppyError /
   KeyError) end the script.  env_ok: every leaf type is copyable+droppable, affine or linear
   (no "copyable but not droppable" leaf).  This is DFContainer as of /repo commit "assigning a
   struct field or tuple element left a stale packed wire for the parent". *)
Theorem dfc_linear : forall env script st, env_ok env = true ->
  run_script env script empty_dfc = Some st -> dfc_inv env st.
Proof. exact dfc_linear_main. Qed.
Print Assumptions dfc_linear.

(* __setitem__ as it was before that commit (leaf assignment does not forget packed ancestors)
   breaks the invariant: s = S(qubit, int); use s as a whole; s.q = fresh qubit *)
Theorem dfc_linear_unfixed_refuted : exists env script st, env_ok env = true /\
  run_script_unfixed env script empty_dfc = Some st /\ ~ dfc_inv env st.
Proof. exact dfc_unfixed_refuted_main. Qed.
Print Assumptions dfc_linear_unfixed_refuted.

(* the hypotheses are satisfiable on the same script with the repaired __setitem__: it runs,
   re-packing s from the new qubit, and ends with s packed and only the copyable field beside it *)
Example dfc_linear_example : exists st, run_script bad_env (bad_script ++ [SGet [0%nat]]) empty_dfc = Some st
  /\ env_ok bad_env = true /\ keys st = [[0%nat]; [0%nat; 1%nat]].
Proof. destruct dfc_fixed_ok as [st [H1 [_ H3]]]. exists st. repeat split; auto. Qed.
