(* C01 — accepted programs lower to valid HUGR: theorems for the block-wiring core.
   PARTIAL by design (DESIGN.md section 5 C01): these theorems cover sort_vars, compile_bb's
   input/output rows, insert_return_vars and DFContainer; expression/statement compilers,
   generics, nested functions and comptime are only differentially validated by the check. *)
From Coq Require Import ZArith List Bool Lia Permutation Sorted.
From V.C09 Require Import Analysis.
From V.C06 Require Linearity Token.
From V.C01 Require Import ModelLower ModelObs ProofsCmp ProofsLower ProofsRet ModelDfc ProofsDfc ModelCond ProofsCond ModelBridge ProofsBridge ExBridge.
Import ListNotations.
Open Scope Z_scope.

(* ---- sort_vars is a deterministic total order ------------------------------------------ *)

(* compare_var (key tuple = GenCmp.key_spec, regenerated from the source on every run) is a
   strict total order on variables with distinct names *)
Theorem compare_var_total_order :
  (forall a, ~ vlt a a) /\
  (forall a b c, vlt a b -> vlt b c -> vlt a c) /\
  (forall a b, vlt a b \/ var_key a = var_key b \/ vlt b a) /\
  (forall a b, var_key a <> var_key b -> compare_var a b = - compare_var b a).
Proof.
  exact (conj vlt_irrefl (conj vlt_trans (conj vlt_total compare_var_antisym))).
Qed.
Print Assumptions compare_var_total_order.

(* the result is a permutation of the row, strictly increasing for compare_var *)
Theorem sort_vars_sorts : forall r, NoDup (map var_key r) ->
  Permutation (sort_vars r) r /\ StronglySorted vlt (sort_vars r).
Proof. intros r H. split; [apply sort_vars_perm | apply sort_vars_sorted; exact H]. Qed.
Print Assumptions sort_vars_sorts.

(* permutation invariance: two blocks that list the same places in different orders
   produce the same HUGR row *)
Theorem sort_vars_deterministic : forall r r', NoDup (map var_key r) -> Permutation r r' ->
  sort_vars r = sort_vars r'.
Proof. exact sort_vars_perm_invariant. Qed.
Print Assumptions sort_vars_deterministic.

(* droppable places first: this is what makes "tuple-sum variant ++ shared outputs" line up *)
Theorem sort_vars_droppable_first : forall r, NoDup (map var_key r) ->
  sort_vars r = filter v_drop (sort_vars r) ++ nondrop (sort_vars r).
Proof. intros r H. apply sorted_split, sort_vars_sorted, H. Qed.
Print Assumptions sort_vars_droppable_first.

(* ---- rows_agree ------------------------------------------------------------------------- *)

(* For every checked CFG satisfying the decidable invariant cfg_ok (rows duplicate-free; along
   each edge the predecessor's output row lists the same places, with the same types, as the
   successor's input row; exit rows identical in order; branching blocks do not jump to the
   exit; rows of one block agree on the place behind an id; non-droppable places are live in
   all successors of a branching block or in none), every block compiles without assertion
   failure and the row it delivers to its k-th successor (the values in variant k of the
   tuple sum followed by the shared outputs) IS the row that successor declares, in order,
   name and type. *)
Theorem rows_agree : forall c, cfg_ok c = true ->
  forall i b k s, nth_error (c_bbs c) i = Some b -> i <> c_exit c ->
  nth_error (b_succs b) k = Some s ->
  delivered c b k = Some (declared c s).
Proof. exact rows_agree_main. Qed.
Print Assumptions rows_agree.

(* cfg_ok = structural part (rows duplicate-free, edge rows list the successor's places, shape)
   + the linearity checker's part (non-droppable places live in all successors or in none) *)
Theorem cfg_ok_parts : forall c, cfg_ok c = cfg_struct_ok c && cfg_lin_ok c.
Proof. exact cfg_ok_split. Qed.
Print Assumptions cfg_ok_parts.

(* The linearity part is no longer assumed where the C06 model applies: if C06's model of
   check_cfg_linearity accepts the checked CFG lc (uniform kinds, builder-shaped), and the rows of the
   lowered CFG m are read off the place-level liveness that check computes (`reads`: the
   non-droppable items of the k-th output row of block i are the places pl x of the linear leaves x
   live before its k-th successor -- this is live_places_row), then the structural part alone
   gives rows_agree.  The linearity conjunct comes from C06.live_rows_agree's proof
   (ProofsSound.succ_rows_agree). *)
Theorem rows_agree_from_c06 : forall fx lc sched K pl m L,
  Token.uniform K lc -> Token.wf_shape lc ->
  Linearity.check_cfg fx lc sched = Linearity.Accept ->
  c06_live lc sched = Some L -> reads lc L K pl m ->
  cfg_struct_ok m = true ->
  forall i b k s, nth_error (c_bbs m) i = Some b -> i <> ModelLower.c_exit m ->
  nth_error (b_succs b) k = Some s ->
  delivered m b k = Some (declared m s).
Proof.
  intros fx lc sched K pl m L HK HW HA HL Hr Hs. apply rows_agree_main.
  eapply cfg_ok_from_c06; eauto.
Qed.
Print Assumptions rows_agree_from_c06.

(* the hypotheses of rows_agree_from_c06 hold on a real function (terms dumped from /repo): C06's
   model accepts it, kinds are uniform, the shape is the builder's, the rows are read off C06's
   liveness, the structural part holds -- and the conclusion is what the HUGR shows *)
Example ex_bridge_hyps :
  Linearity.check_cfg true ex_lc [] = Linearity.Accept /\
  Hyps.uniformb ex_lc = true /\ Hyps.wf_shapeb ex_lc = true /\
  (exists L, c06_live ex_lc [] = Some L /\
             reads_b ex_lc L (Hyps.K_of (Token.all_leaves ex_lc)) ex_tbl ex_m = true) /\
  cfg_struct_ok ex_m = true /\
  delivered ex_m (get_bb ex_m 0) 1 = Some [ex_; eq_].
Proof.
  split; [vm_compute; reflexivity|]. split; [vm_compute; reflexivity|]. split; [vm_compute; reflexivity|].
  split; [|split; vm_compute; reflexivity].
  destruct (c06_live ex_lc []) as [L|] eqn:E; [|vm_compute in E; discriminate].
  exists L. split; auto. vm_compute in E. inversion E; subst. vm_compute. reflexivity.
Qed.

(* reads_b (what the harness evaluates on every dumped CFG) implies the hypothesis `reads` *)
Theorem reads_decidable : forall lc L K tbl m, reads_b lc L K tbl m = true -> reads lc L K (pl_of tbl) m.
Proof. exact reads_b_sound. Qed.
Print Assumptions reads_decidable.

(* ---- the Conditional built by choose_vars_for_tuple_sum ---------------------------------- *)

(* With rows taken from one scope (equal id => equal place), on branch k the Conditional's case k
   tags with k and its payload is exactly variant k's row: the wire of each place of the row, with
   the row's type, in the row's order -- although every case receives all wires of all rows and
   picks by position in the id-keyed dict all_vars. *)
Theorem conditional_delivers : forall rows k r, rows_consistent rows = true ->
  nth_error rows k = Some r -> eval_conditional rows k = Some (k, map val_of r).
Proof. exact conditional_delivers_main. Qed.
Print Assumptions conditional_delivers.

(* ---- exit rows and insert_return_vars --------------------------------------------------- *)

(* after insert_return_vars the CFG node's output row is FunctionType.to_hugr's output row:
   the return types followed by the borrowed (inout) inputs *)
Theorem exit_row_matches_functype : forall c c' inputs, (c_exit c < length (c_bbs c))%nat ->
  insert_return_vars c = Some c' ->
  map v_ty (b_in (get_bb c (c_exit c))) = map fst (filter snd inputs) ->
  map v_ty (declared c' (c_exit c')) = functype_outputs (map fst (c_ret c)) inputs.
Proof. exact exit_row_functype_main. Qed.
Print Assumptions exit_row_matches_functype.

(* compiling the same checked CFG twice does not insert the return variables twice *)
Theorem insert_return_vars_idempotent : forall c c', (c_exit c < length (c_bbs c))%nat ->
  guarded_insert c = Some c' -> guarded_insert c' = Some c'.
Proof. exact guarded_insert_idem_main. Qed.
Print Assumptions insert_return_vars_idempotent.

(* ---- a non-trivial instance: the hypotheses are satisfiable ---------------------------- *)

(* def f(q: qubit @owned, b: bool, x: int) -> int:
       if b: y = x + 1
       else: y = 2
       measure(q); return y
   hugr type ids: 0 = int, 1 = qubit, 2 = bool.  Names are code points. *)
Definition vq := mkVar [113] false 1.
Definition vb := mkVar [98] true 2.
Definition vx := mkVar [120] true 0.
Definition vy := mkVar [121] true 0.
Definition ex_cfg : cfg := mkCfg
  [ mkBB [vq; vb; vx] [[vq]; [vx; vq]] [2%nat; 1%nat];     (* entry, branches on b *)
    mkBB [vx; vq] [[vy; vq]] [3%nat];
    mkBB [vq] [[vy; vq]] [3%nat];
    mkBB [vq; vy] [[]] [4%nat];                             (* different order than its preds *)
    mkBB [] [] [] ]                                         (* exit *)
  0 4 [(0, true)].

Definition ex_cfg' : cfg :=
  match guarded_insert ex_cfg with Some c => c | None => ex_cfg end.

Example ex_inserted : b_in (get_bb ex_cfg' 4) = [mkVar [37; 114; 101; 116; 48] true 0]
  /\ b_outs (get_bb ex_cfg' 3) = [[mkVar [37; 114; 101; 116; 48] true 0]].
Proof. vm_compute. split; reflexivity. Qed.

Example ex_cfg_ok : cfg_ok ex_cfg' = true.
Proof. vm_compute. reflexivity. Qed.

(* the entry block needs a tuple sum: x only goes to the `if` branch, the qubit to both *)
Example ex_tuple_sum : block_outputs ex_cfg' (get_bb ex_cfg' 0) = Some ([[]; [vx]], [vq])
  /\ delivered ex_cfg' (get_bb ex_cfg' 0) 1 = Some [vx; vq]
  /\ declared ex_cfg' 1 = [vx; vq]
  /\ delivered ex_cfg' (get_bb ex_cfg' 1) 0 = Some [vy; vq]
  /\ declared ex_cfg' 3 = [vy; vq].
Proof. vm_compute. repeat split; reflexivity. Qed.

Example ex_conditional :
  tuple_sum_rows (get_bb ex_cfg' 0) = [[]; [vx]] /\ rows_consistent (tuple_sum_rows (get_bb ex_cfg' 0)) = true
  /\ cond_inputs (tuple_sum_rows (get_bb ex_cfg' 0)) = [val_of vx]
  /\ eval_conditional (tuple_sum_rows (get_bb ex_cfg' 0)) 1 = Some (1%nat, [val_of vx])
  /\ eval_conditional [[vx; vy]; [vy]; [vb; vx]] 2 = Some (2%nat, [val_of vb; val_of vx])
  /\ case_indices [[vx; vy]; [vy]; [vb; vx]] 2 = Some [2%nat; 0%nat].
Proof. vm_compute. repeat split; reflexivity. Qed.

Example ex_idempotent : guarded_insert ex_cfg' = Some ex_cfg'.
Proof. vm_compute. reflexivity. Qed.

(* the linearity hypothesis of cfg_ok is needed: with a qubit live in only one successor the
   rows no longer agree (compile_bb would hand the qubit to a block that does not take it) *)
Definition bad_cfg : cfg := mkCfg
  [ mkBB [vq; vb] [[]; [vq]] [1%nat; 2%nat]; mkBB [] [[]] [3%nat]; mkBB [vq] [[]] [3%nat]; mkBB [] [] [] ]
  0 3 [].
Example ex_hypothesis_needed : cfg_ok bad_cfg = false
  /\ delivered bad_cfg (get_bb bad_cfg 0) 1 <> Some (declared bad_cfg 2).
Proof. vm_compute. split; [reflexivity | discriminate]. Qed.


(* ---- DFContainer ------------------------------------------------------------------------- *)

(* Any sequence of DFContainer.__setitem__/__getitem__ calls over struct/tuple places, started
   from an empty container, keeps the invariant: no linear place has an entry of its own while a
   struct/tuple packed around it also has one -- every linear leaf is held by at most one of
   {its own entry, the entry of a packed ancestor}, so __getitem__ can never hand out a linear
   wire that a cached MakeTuple has already consumed.  Failing lookups (InternalGuppyError /
   KeyError) end the script.  env_ok: every leaf type is copyable+droppable, affine or linear
   (no "copyable but not droppable" leaf).  This is DFContainer as of /repo commit "assigning a
   struct field or tuple element left a stale packed wire for the parent". *)
Theorem dfc_linear : forall env script st, env_ok env = true ->
  run_script env script empty_dfc = Some st -> dfc_inv env st.
Proof. exact dfc_linear_main. Qed.
Print Assumptions dfc_linear.

(* __setitem__ as it was before that commit (leaf assignment does not forget packed ancestors)
   breaks the invariant: s = S(qubit, int); use s as a whole; s.q = fresh qubit *)
Theorem dfc_linear_unfixed_refuted : exists env script st, env_ok env = true /\
  run_script_unfixed env script empty_dfc = Some st /\ ~ dfc_inv env st.
Proof. exact dfc_unfixed_refuted_main. Qed.
Print Assumptions dfc_linear_unfixed_refuted.

(* the hypotheses are satisfiable on the same script with the repaired __setitem__: it runs,
   re-packing s from the new qubit, and ends with s packed and only the copyable field beside it *)
Example dfc_linear_example : exists st, run_script bad_env (bad_script ++ [SGet [0%nat]]) empty_dfc = Some st
  /\ env_ok bad_env = true /\ keys st = [[0%nat]; [0%nat; 1%nat]].
Proof. destruct dfc_fixed_ok as [st [H1 [_ H3]]]. exists st. repeat split; auto. Qed.
