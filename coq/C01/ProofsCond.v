(* C01 — the Conditional of choose_vars_for_tuple_sum delivers variant k's row on branch k *)
From Coq Require Import ZArith List Bool Lia.
From V.C01 Require Import ModelLower ModelCond ProofsLower.
Import ListNotations.
Open Scope Z_scope.

Lemma dedup_incl : forall l seen v, In v (dedup seen l) -> In v l.
Proof.
  induction l as [|a l IH]; simpl; intros seen v H; auto.
  destruct (existsb (str_eqb (v_name a)) seen); [right; eauto|].
  destruct H as [H | H]; [left; auto | right; eauto].
Qed.

(* every name of the list is either already seen or has an entry *)
Lemma dedup_covers : forall l seen v, In v l ->
  existsb (str_eqb (v_name v)) seen = true \/ exists v', In v' (dedup seen l) /\ v_name v' = v_name v.
Proof.
  induction l as [|a l IH]; simpl; intros seen v H; [tauto|].
  destruct H as [-> | H].
  - destruct (existsb (str_eqb (v_name v)) seen) eqn:E; auto. right. exists v. simpl; auto.
  - destruct (existsb (str_eqb (v_name a)) seen) eqn:E.
    + apply IH; auto.
    + destruct (IH (v_name a :: seen) v H) as [H1 | [v' [H1 H2]]].
      * simpl in H1. apply orb_true_iff in H1 as [H1 | H1]; auto.
        apply str_eqb_eq in H1. right. exists a. simpl; auto.
      * right. exists v'. simpl; auto.
Qed.

Lemma index_of_spec : forall n l v, In v l -> v_name v = n ->
  exists k v', index_of n l = Some k /\ nth_error l k = Some v' /\ v_name v' = n.
Proof.
  induction l as [|a l IH]; simpl; intros v H Hn; [tauto|].
  destruct (str_eqb n (v_name a)) eqn:E.
  - apply str_eqb_eq in E. exists 0%nat, a. auto.
  - destruct H as [-> | H]; [rewrite <- Hn, str_eqb_refl in E; discriminate|].
    destruct (IH v H Hn) as [k [v' [H1 [H2 H3]]]]. exists (S k), v'. rewrite H1. auto.
Qed.

Lemma in_concat_row : forall (rows : list row) r v, In r rows -> In v r -> In v (concat rows).
Proof. intros. apply in_concat. eauto. Qed.

Lemma consistent_eq : forall r1 r2 v w, consistent r1 r2 = true -> In v r1 -> In w r2 ->
  v_name v = v_name w -> v = w.
Proof.
  intros r1 r2 v w H Hv Hw Hn. unfold consistent in H. rewrite forallb_forall in H.
  specialize (H v Hv). rewrite forallb_forall in H. specialize (H w Hw).
  rewrite Hn, str_eqb_refl in H. simpl in H. apply var_eqb_eq. exact H.
Qed.

Lemma case_value : forall rows r v, rows_consistent rows = true -> In r rows -> In v r ->
  exists k, index_of (v_name v) (all_vars rows) = Some k /\ nth_error (cond_inputs rows) k = Some (val_of v).
Proof.
  intros rows r v Hc Hr Hv.
  destruct (dedup_covers (concat rows) [] v (in_concat_row _ _ _ Hr Hv)) as [H | [v' [H1 H2]]]; [discriminate|].
  destruct (index_of_spec (v_name v) (all_vars rows) v' H1 H2) as [k [v'' [K1 [K2 K3]]]].
  exists k. split; auto. unfold cond_inputs. rewrite nth_error_map, K2. simpl. f_equal. f_equal.
  (* v'' is some row's variable with the name of v: consistency makes it v *)
  apply nth_error_In in K2. apply dedup_incl in K2. apply in_concat in K2 as [r' [Hr' Hv'']].
  unfold rows_consistent in Hc. rewrite forallb_forall in Hc. specialize (Hc r' Hr').
  rewrite forallb_forall in Hc. specialize (Hc r Hr). eapply consistent_eq; eauto.
Qed.

Lemma case_outputs_row : forall rows r, rows_consistent rows = true -> In r rows ->
  forall r', incl r' r ->
  exists ks, map_opt (fun v => index_of (v_name v) (all_vars rows)) r' = Some ks /\
             map_opt (fun k => nth_error (cond_inputs rows) k) ks = Some (map val_of r').
Proof.
  intros rows r Hc Hr. induction r' as [|v r' IH]; intro Hi.
  - exists []. auto.
  - destruct (case_value rows r v Hc Hr (Hi v (or_introl eq_refl))) as [k [K1 K2]].
    destruct IH as [ks [I1 I2]]; [intros x Hx; apply Hi; right; auto|].
    exists (k :: ks). simpl. rewrite K1, I1, K2, I2. auto.
Qed.

Lemma conditional_delivers_main : forall rows k r, rows_consistent rows = true ->
  nth_error rows k = Some r -> eval_conditional rows k = Some (k, map val_of r).
Proof.
  intros rows k r Hc Hk. unfold eval_conditional, case_outputs, case_indices. rewrite Hk.
  destruct (case_outputs_row rows r Hc (nth_error_In _ _ Hk) r (incl_refl r)) as [ks [H1 H2]].
  rewrite H1, H2. reflexivity.
Qed.
