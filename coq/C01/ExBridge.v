(* C01 — a real instance for rows_agree_from_c06 (terms dumped by props/C01 from /repo for
     def main(q: qubit @owned, b: bool, x: int) -> int:
         if b: y = x + 1; h(q)
         else: y = 2
         discard(q); return y
   leaf ids 0 = b, 1 = q, 2 = x, 3 = y; hugr type ids 0 = qubit, 1 = bool, 2 = int).  No proofs. *)
From Coq Require Import ZArith List Bool.
From V.C06 Require Import Linearity.
From V.C01 Require Import ModelLower.
Import ListNotations.
Local Open Scope nat_scope.

Definition ex_lc : lcfg :=
  mkLC (map flatten_block
    [mkAB [PLeaf (mkLeaf 1 KLinear false); PLeaf (mkLeaf 0 KCopy false); PLeaf (mkLeaf 2 KCopy false)]
          [SPred (XPlace (mkPlace 0 (PLeaf (mkLeaf 0 KCopy false)) false))] [3; 2];
     mkAB [] [] [];
     mkAB [PLeaf (mkLeaf 2 KCopy false); PLeaf (mkLeaf 1 KLinear false)]
          [SAssign [(mkPlace 3 (PLeaf (mkLeaf 3 KCopy false)) false)]
             (XCall [(false, true); (false, true)] [XPlace (mkPlace 2 (PLeaf (mkLeaf 2 KCopy false)) false); XNode []]);
           SExpr (XCall [(true, false)] [XPlace (mkPlace 1 (PLeaf (mkLeaf 1 KLinear false)) false)]) true] [4];
     mkAB [PLeaf (mkLeaf 1 KLinear false)]
          [SAssign [(mkPlace 3 (PLeaf (mkLeaf 3 KCopy false)) false)] (XNode [])] [4];
     mkAB [PLeaf (mkLeaf 1 KLinear false); PLeaf (mkLeaf 3 KCopy false)]
          [SExpr (XCall [(false, false)] [XPlace (mkPlace 1 (PLeaf (mkLeaf 1 KLinear false)) false)]) true;
           SReturn [XPlace (mkPlace 3 (PLeaf (mkLeaf 3 KCopy false)) false)]] [1]])
    0 1 true
    [(1, false, PLeaf (mkLeaf 1 KLinear false)); (0, false, PLeaf (mkLeaf 0 KCopy false)); (2, false, PLeaf (mkLeaf 2 KCopy false))].

Definition eq_ := mkVar [113%Z] false 0%Z.
Definition eb_ := mkVar [98%Z] true 1%Z.
Definition ex_ := mkVar [120%Z] true 2%Z.
Definition ey_ := mkVar [121%Z] true 2%Z.
Definition eret := mkVar [37; 114; 101; 116; 48]%Z true 2%Z.

(* the CFG compile_cfg consumed, after insert_return_vars *)
Definition ex_m : cfg :=
  mkCfg [mkBB [eq_; eb_; ex_] [[eq_]; [ex_; eq_]] [3; 2];
         mkBB [eret] [] [];
         mkBB [ex_; eq_] [[eq_; ey_]] [4];
         mkBB [eq_] [[eq_; ey_]] [4];
         mkBB [eq_; ey_] [[eret]] [1]] 0 1 [(2%Z, true)].

Definition ex_tbl : list var := [eb_; eq_; ex_; ey_].
