(* C01 — vocabulary for the comparator compare_var of compiler/cfg_compiler.py.
   GenCmp.v (regenerated from /repo on every run by props/C01/tr_cmp.py) says which components,
   in which order, the comparison key is made of; this file gives each component its meaning.
   No proofs here. *)
From Coq Require Import ZArith List Bool.
Import ListNotations.
Open Scope Z_scope.

Record var := mkVar { v_name : list Z; v_drop : bool; v_ty : Z }.

(* components of the key tuple *)
Inductive comp :=
  | CNotDrop      (* not p.ty.droppable *)
  | CNatKey       (* _name_sort_key(str(p)) *)
  | CName.        (* str(p) *)

(* ---- Python orderings as three-way comparisons --------------------------------------- *)

Definition bool_cmp (a b : bool) : comparison :=       (* False < True *)
  match a, b with
  | false, true => Lt
  | true, false => Gt
  | _, _ => Eq
  end.

(* list / tuple / str comparison: lexicographic, a proper prefix is smaller *)
Fixpoint list_cmp {X} (e : X -> X -> comparison) (a b : list X) : comparison :=
  match a, b with
  | [], [] => Eq
  | [], _ :: _ => Lt
  | _ :: _, [] => Gt
  | x :: a', y :: b' => match e x y with Eq => list_cmp e a' b' | r => r end
  end.

Definition pair_cmp {X Y} (e1 : X -> X -> comparison) (e2 : Y -> Y -> comparison)
  (a b : X * Y) : comparison :=
  match e1 (fst a) (fst b) with Eq => e2 (snd a) (snd b) | r => r end.

Definition str_cmp : list Z -> list Z -> comparison := list_cmp Z.compare.

(* ---- _name_sort_key -------------------------------------------------------------------
   [(int(run), "") if run.isdigit() else (-1, run) for run in re.split(r"([0-9]+)", name) if run]
   Runs of ASCII digits alternate with runs of other characters.  (A run that consists only
   of non-ASCII decimal digits next to ASCII digits would also satisfy str.isdigit(); such
   names are outside this model -- see NOTES.md.) *)
Definition is_digit (c : Z) : bool := (48 <=? c) && (c <=? 57).

Fixpoint runs (s : list Z) : list (bool * list Z) :=
  match s with
  | [] => []
  | c :: s' =>
      match runs s' with
      | (d, r) :: rest =>
          if Bool.eqb d (is_digit c) then (d, c :: r) :: rest
          else (is_digit c, [c]) :: (d, r) :: rest
      | [] => [(is_digit c, [c])]
      end
  end.

Definition digits_val (r : list Z) : Z := fold_left (fun acc c => acc * 10 + (c - 48)) r 0.

Definition name_sort_key (s : list Z) : list (Z * list Z) :=
  map (fun dr : bool * list Z => if fst dr then (digits_val (snd dr), []) else (-1, snd dr)) (runs s).

Definition natkey_cmp : list (Z * list Z) -> list (Z * list Z) -> comparison :=
  list_cmp (pair_cmp Z.compare str_cmp).

Definition ccmp (c : comp) (a b : var) : comparison :=
  match c with
  | CNotDrop => bool_cmp (negb (v_drop a)) (negb (v_drop b))
  | CNatKey => natkey_cmp (name_sort_key (v_name a)) (name_sort_key (v_name b))
  | CName => str_cmp (v_name a) (v_name b)
  end.

(* k1 < k2 on tuples: the first component that differs decides *)
Fixpoint lex_cmp (spec : list comp) (a b : var) : comparison :=
  match spec with
  | [] => Eq
  | c :: spec' => match ccmp c a b with Eq => lex_cmp spec' a b | r => r end
  end.

Fixpoint has_comp (c : comp) (spec : list comp) : bool :=
  match spec with
  | [] => false
  | c' :: spec' =>
      match c, c' with
      | CNotDrop, CNotDrop | CNatKey, CNatKey | CName, CName => true
      | _, _ => has_comp c spec'
      end
  end.

(* ---- the guard around insert_return_vars in compile_cfg (GenRet.v says which one the source has) *)
Inductive guard :=
  | GuardExitRow   (* only if no Variable in cfg.exit_bb.sig.input_row is a return variable *)
  | GuardNone.     (* unconditional call *)
