(** C30 — Source span containment and intersection follow interval semantics.
    Every statement is about the definitions GENERATED from span.py on this run.
    Interval reading (the one `x in span` for locations uses): both ends count, so two
    spans that merely touch intersect in the empty span at the touching point. *)
From Coq Require Import ZArith String Bool.
From V.C30 Require Import SpanBase GenSpan Proofs.

(* `a in b` for spans: true iff same file, b.start <= a.start and a.end <= b.end; never raises *)
Theorem contains_span_iff : forall outer inner, wf outer -> wf inner ->
  (span_contains_span outer inner = Ok true <-> spec_contains_span outer inner) /\
  (span_contains_span outer inner = Ok false <-> ~ spec_contains_span outer inner).
Proof. intros o i Wo Wi. split; [exact (contains_span_correct o i Wo Wi) | exact (contains_span_false o i Wo Wi)]. Qed.
Print Assumptions contains_span_iff.

(* `loc in span`: true iff same file and start <= loc <= end *)
Theorem contains_loc_iff : forall s x, wf s ->
  (span_contains_loc s x = Ok true <-> spec_contains_loc s x) /\ exists r, span_contains_loc s x = Ok r.
Proof. intros s x W. split; [exact (contains_loc_correct s x W) | exact (contains_loc_never_raises s x)]. Qed.
Print Assumptions contains_loc_iff.

(* `a & b`: the overlapping interval [max starts, min ends] (well-formed, inside both), or None *)
Theorem and_is_overlap : forall a b, wf a -> wf b ->
  (overlap a b -> span_and a b = Ok (Some (inter a b)) /\ wf (inter a b) /\
                  spec_contains_span a (inter a b) /\ spec_contains_span b (inter a b)) /\
  (~ overlap a b -> span_and a b = Ok None).
Proof. intros a b Wa Wb. split; [exact (and_overlap a b Wa Wb) | exact (and_disjoint a b Wa Wb)]. Qed.
Print Assumptions and_is_overlap.

(* spans of different files are never contained in, nor intersecting, each other *)
Theorem cross_file : forall a b x, ~ same_file a b ->
  span_contains_span a b = Ok false /\ span_and a b = Ok None /\
  (loc_file (span_start a) <> loc_file x -> span_contains_loc a x = Ok false).
Proof. exact cross_file_all. Qed.
Print Assumptions cross_file.

(* the well-formedness hypothesis is exactly what the constructor admits *)
Theorem wf_is_constructor_guard : forall s, span_post_init s = Ok tt <-> wf s.
Proof. exact wf_iff_post_init. Qed.
Print Assumptions wf_is_constructor_guard.
