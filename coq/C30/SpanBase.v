(** Hand-written base for C30: the data types of span.py.
    [Loc] is `@dataclass(frozen=True, order=True)` with fields (file, line, column):
    Python orders such dataclasses lexicographically on the field tuple.  The translator
    checks the decorator and the field order on every run (tools: props/C30/tr_span.py). *)
From Coq Require Import ZArith String Bool Ascii.
From V.Lib Require Export Outcome.
Open Scope Z_scope.

Record Loc := mkLoc { loc_file : string; loc_line : Z; loc_column : Z }.
Record Span := mkSpan { span_start : Loc; span_end : Loc }.

Definition loc_cmp (a b : Loc) : comparison :=
  match String.compare (loc_file a) (loc_file b) with
  | Eq => match Z.compare (loc_line a) (loc_line b) with
          | Eq => Z.compare (loc_column a) (loc_column b)
          | c => c
          end
  | c => c
  end.

Definition loc_leb (a b : Loc) : bool := match loc_cmp a b with Gt => false | _ => true end.
Definition loc_ltb (a b : Loc) : bool := match loc_cmp a b with Lt => true | _ => false end.
Definition loc_eqb (a b : Loc) : bool :=
  String.eqb (loc_file a) (loc_file b) && Z.eqb (loc_line a) (loc_line b) && Z.eqb (loc_column a) (loc_column b).
(* Python: max(a, b) returns b only if b > a; min(a, b) returns b only if b < a *)
Definition loc_max (a b : Loc) : Loc := if loc_ltb a b then b else a.
Definition loc_min (a b : Loc) : Loc := if loc_ltb b a then b else a.
