(** Proofs about the *generated* definitions in GenSpan.v (regenerated from span.py). *)
From Coq Require Import ZArith String Bool Lia.
From V.C30 Require Import SpanBase GenSpan.
Open Scope Z_scope.

(** * Specification side: interval semantics, written without reference to the code. *)

(* position inside one file, ordered lexicographically *)
Definition pos_le (a b : Loc) : Prop :=
  loc_line a < loc_line b \/ (loc_line a = loc_line b /\ loc_column a <= loc_column b).
Definition pos_lt (a b : Loc) : Prop :=
  loc_line a < loc_line b \/ (loc_line a = loc_line b /\ loc_column a < loc_column b).

(* a well-formed span: what Span.__post_init__ admits *)
Definition wf (s : Span) : Prop :=
  loc_file (span_start s) = loc_file (span_end s) /\ pos_le (span_start s) (span_end s).

Definition same_file (a b : Span) : Prop := loc_file (span_start a) = loc_file (span_start b).

Definition spec_contains_span (outer inner : Span) : Prop :=
  same_file outer inner /\ pos_le (span_start outer) (span_start inner) /\ pos_le (span_end inner) (span_end outer).
Definition spec_contains_loc (s : Span) (x : Loc) : Prop :=
  loc_file (span_start s) = loc_file x /\ pos_le (span_start s) x /\ pos_le x (span_end s).

(** * Bridging lemmas for the Loc order when files agree *)

Lemma str_cmp_refl s : String.compare s s = Eq.
Proof.
  pose proof (String.compare_antisym s s) as H.
  destruct (String.compare s s); [reflexivity | discriminate | discriminate].
Qed.

Lemma loc_cmp_same_file a b : loc_file a = loc_file b ->
  loc_cmp a b = match Z.compare (loc_line a) (loc_line b) with
                | Eq => Z.compare (loc_column a) (loc_column b) | c => c end.
Proof. intros H; unfold loc_cmp; rewrite H, str_cmp_refl; reflexivity. Qed.

Lemma loc_leb_same a b : loc_file a = loc_file b -> (loc_leb a b = true <-> pos_le a b).
Proof.
  intros H; unfold loc_leb, pos_le; rewrite (loc_cmp_same_file _ _ H).
  destruct (Z.compare_spec (loc_line a) (loc_line b)) as [E|L|G];
  [destruct (Z.compare_spec (loc_column a) (loc_column b))|..]; split; intros; try lia; try reflexivity; try discriminate.
Qed.

Lemma loc_ltb_same a b : loc_file a = loc_file b -> (loc_ltb a b = true <-> pos_lt a b).
Proof.
  intros H; unfold loc_ltb, pos_lt; rewrite (loc_cmp_same_file _ _ H).
  destruct (Z.compare_spec (loc_line a) (loc_line b)) as [E|L|G];
  [destruct (Z.compare_spec (loc_column a) (loc_column b))|..]; split; intros; try lia; try reflexivity; try discriminate.
Qed.

Lemma pos_lt_not_le a b : pos_lt a b <-> ~ pos_le b a.
Proof. unfold pos_lt, pos_le; lia. Qed.

Lemma loc_ltb_false_same a b : loc_file a = loc_file b -> (loc_ltb a b = false <-> pos_le b a).
Proof.
  intros H. pose proof (loc_ltb_same a b H) as L. pose proof (pos_lt_not_le a b) as N.
  destruct (loc_ltb a b); split; intros; try discriminate; try reflexivity.
  - exfalso. apply N; [apply L; reflexivity | assumption].
  - unfold pos_lt, pos_le in *. destruct (Z.compare_spec (loc_line a) (loc_line b)); 
    destruct (Z.compare_spec (loc_column a) (loc_column b)); try lia;
    exfalso; assert (true = true -> False) by (intros _; assert (false = true) by (apply L; lia); discriminate); auto.
Qed.

Lemma wf_iff_post_init s : span_post_init s = Ok tt <-> wf s.
Proof.
  unfold span_post_init, wf.
  destruct (String.eqb_spec (loc_file (span_start s)) (loc_file (span_end s))) as [E|NE]; cbn [negb].
  - pose proof (loc_ltb_false_same (span_end s) (span_start s) (eq_sym E)) as F.
    destruct (loc_ltb (span_end s) (span_start s)) eqn:L.
    + split; [discriminate|]. intros [_ P]. apply F in P. discriminate.
    + split; [|reflexivity]. intros _. split; [exact E|]. apply F; reflexivity.
  - split; [discriminate|]. intros [E _]; contradiction.
Qed.

Lemma post_init_total s : span_post_init s = Ok tt \/ exists e, span_post_init s = Raise e.
Proof. unfold span_post_init. repeat match goal with |- context [if ?c then _ else _] => destruct c end; eauto. Qed.

(** * containment *)

Lemma contains_span_never_raises a b : exists r, span_contains_span a b = Ok r.
Proof. unfold span_contains_span. destruct (negb _); eauto. Qed.

Lemma contains_span_correct outer inner : wf outer -> wf inner ->
  (span_contains_span outer inner = Ok true <-> spec_contains_span outer inner).
Proof.
  intros [Fo Po] [Fi Pi_]. unfold span_contains_span, spec_contains_span, same_file, span_file.
  destruct (String.eqb_spec (loc_file (span_start outer)) (loc_file (span_start inner))) as [E|NE]; cbn [negb].
  - assert (E2 : loc_file (span_end inner) = loc_file (span_end outer)) by congruence.
    pose proof (loc_leb_same _ _ E) as L1. pose proof (loc_leb_same _ _ E2) as L2.
    split.
    + intros H. injection H as H. apply andb_true_iff in H as [H1 H2].
      split; [exact E|]. split; [apply L1; exact H1 | apply L2; exact H2].
    + intros (_ & H1 & H2). f_equal. apply andb_true_iff. split; [apply L1; exact H1 | apply L2; exact H2].
  - split; [discriminate|]. intros (E & _); contradiction.
Qed.

Lemma contains_span_false outer inner : wf outer -> wf inner ->
  (span_contains_span outer inner = Ok false <-> ~ spec_contains_span outer inner).
Proof.
  intros Wo Wi. pose proof (contains_span_correct outer inner Wo Wi) as C.
  destruct (contains_span_never_raises outer inner) as [[|] R]; rewrite R in *.
  - split; [discriminate|]. intros N; exfalso; apply N, C; reflexivity.
  - split; [|reflexivity]. intros _ S. apply C in S. discriminate.
Qed.

Lemma contains_loc_correct s x : wf s ->
  (span_contains_loc s x = Ok true <-> spec_contains_loc s x).
Proof.
  intros [Fs Ps]. unfold span_contains_loc, spec_contains_loc, span_file.
  destruct (String.eqb_spec (loc_file (span_start s)) (loc_file x)) as [E|NE]; cbn [negb].
  - assert (E2 : loc_file x = loc_file (span_end s)) by congruence.
    pose proof (loc_leb_same _ _ E) as L1. pose proof (loc_leb_same _ _ E2) as L2.
    split.
    + intros H. injection H as H. apply andb_true_iff in H as [H1 H2].
      split; [exact E|]. split; [apply L1; exact H1 | apply L2; exact H2].
    + intros (_ & H1 & H2). f_equal. apply andb_true_iff. split; [apply L1; exact H1 | apply L2; exact H2].
  - split; [discriminate|]. intros (E & _); contradiction.
Qed.

Lemma contains_loc_never_raises s x : exists r, span_contains_loc s x = Ok r.
Proof. unfold span_contains_loc. destruct (negb _); eauto. Qed.

(** * intersection *)

(* the interval [max starts, min ends] *)
Definition pmax (a b : Loc) : Loc := if loc_ltb a b then b else a.
Definition pmin (a b : Loc) : Loc := if loc_ltb b a then b else a.

Lemma pmax_spec a b : loc_file a = loc_file b ->
  loc_file (loc_max a b) = loc_file a /\ pos_le a (loc_max a b) /\ pos_le b (loc_max a b) /\ (loc_max a b = a \/ loc_max a b = b).
Proof.
  intros E. unfold loc_max. pose proof (loc_ltb_same a b E) as L. pose proof (loc_ltb_false_same a b E) as F.
  destruct (loc_ltb a b).
  - assert (P : pos_lt a b) by (apply L; reflexivity). unfold pos_lt, pos_le in *. repeat split; try lia; auto.
  - assert (P : pos_le b a) by (apply F; reflexivity). unfold pos_le in *. repeat split; try lia; auto.
Qed.

Lemma pmin_spec a b : loc_file a = loc_file b ->
  loc_file (loc_min a b) = loc_file a /\ pos_le (loc_min a b) a /\ pos_le (loc_min a b) b /\ (loc_min a b = a \/ loc_min a b = b).
Proof.
  intros E. unfold loc_min. pose proof (loc_ltb_same b a (eq_sym E)) as L. pose proof (loc_ltb_false_same b a (eq_sym E)) as F.
  destruct (loc_ltb b a).
  - assert (P : pos_lt b a) by (apply L; reflexivity). unfold pos_lt, pos_le in *. repeat split; try lia; auto.
  - assert (P : pos_le a b) by (apply F; reflexivity). unfold pos_le in *. repeat split; try lia; auto.
Qed.

Definition overlap (a b : Span) : Prop :=
  same_file a b /\ pos_le (span_start b) (span_end a) /\ pos_le (span_start a) (span_end b).

Definition inter (a b : Span) : Span :=
  mkSpan (loc_max (span_start a) (span_start b)) (loc_min (span_end a) (span_end b)).

Lemma and_overlap a b : wf a -> wf b -> overlap a b ->
  span_and a b = Ok (Some (inter a b)) /\ wf (inter a b) /\
  spec_contains_span a (inter a b) /\ spec_contains_span b (inter a b).
Proof.
  intros [Fa Pa] [Fb Pb] (E & O1 & O2). unfold same_file in E.
  assert (Es : loc_file (span_start a) = loc_file (span_start b)) by exact E.
  assert (Ee : loc_file (span_end a) = loc_file (span_end b)) by congruence.
  destruct (pmax_spec _ _ Es) as (Mf & M1 & M2 & Mc).
  destruct (pmin_spec _ _ Ee) as (Nf & N1 & N2 & Nc).
  assert (W : wf (inter a b)).
  { unfold wf, inter; cbn. split; [congruence|].
    destruct Mc as [-> | ->], Nc as [-> | ->]; assumption. }
  split; [|split; [exact W|]].
  - unfold span_and, span_file.
    destruct (String.eqb_spec (loc_file (span_start a)) (loc_file (span_start b))) as [_|NE]; [|contradiction]. cbn [negb].
    assert (L1 : loc_ltb (span_end b) (span_start a) = false) by (apply loc_ltb_false_same; [congruence | exact O2]).
    assert (L2 : loc_ltb (span_end a) (span_start b) = false) by (apply loc_ltb_false_same; [congruence | exact O1]).
    rewrite L1, L2. cbn [orb].
    apply wf_iff_post_init in W. unfold inter in W. rewrite W. reflexivity.
  - unfold spec_contains_span, same_file, inter; cbn. repeat split; try congruence; assumption.
Qed.

Lemma and_disjoint a b : wf a -> wf b -> ~ overlap a b -> span_and a b = Ok None.
Proof.
  intros [Fa Pa] [Fb Pb] N. unfold span_and, span_file.
  destruct (String.eqb_spec (loc_file (span_start a)) (loc_file (span_start b))) as [E|NE]; cbn [negb]; [|reflexivity].
  assert (E1 : loc_file (span_end b) = loc_file (span_start a)) by congruence.
  assert (E2 : loc_file (span_end a) = loc_file (span_start b)) by congruence.
  pose proof (loc_ltb_false_same _ _ E1) as F1. pose proof (loc_ltb_false_same _ _ E2) as F2.
  destruct (loc_ltb (span_end b) (span_start a)); [reflexivity|].
  destruct (loc_ltb (span_end a) (span_start b)); [reflexivity|].
  exfalso. apply N. split; [exact E|]. split; [apply F2 | apply F1]; reflexivity.
Qed.

Lemma cross_file_all a b x : ~ same_file a b ->
  span_contains_span a b = Ok false /\ span_and a b = Ok None /\
  (loc_file (span_start a) <> loc_file x -> span_contains_loc a x = Ok false).
Proof.
  intros N. unfold same_file in N. unfold span_contains_span, span_and, span_contains_loc, span_file.
  destruct (String.eqb_spec (loc_file (span_start a)) (loc_file (span_start b))); [contradiction|]. cbn [negb].
  repeat split. intros Nx. destruct (String.eqb_spec (loc_file (span_start a)) (loc_file x)); [contradiction|]. reflexivity.
Qed.

(** non-vacuity: a concrete nested pair satisfies all hypotheses *)
Definition ex_outer := mkSpan (mkLoc "f" 1 0) (mkLoc "f" 1 10).
Definition ex_inner := mkSpan (mkLoc "f" 1 2) (mkLoc "f" 1 5).
Example ex_wf : wf ex_outer /\ wf ex_inner /\ spec_contains_span ex_outer ex_inner /\ overlap ex_outer ex_inner.
Proof. unfold wf, spec_contains_span, overlap, same_file, pos_le; cbn; repeat split; lia. Qed.
Example ex_eval : span_contains_span ex_outer ex_inner = Ok true /\ span_contains_span ex_inner ex_outer = Ok false
  /\ span_and ex_outer ex_inner = Ok (Some ex_inner).
Proof. vm_compute. repeat split. Qed.
