(** C14 — executable model of Guppy types, their copy/drop classification, their HUGR
    translation, HUGR's own type bound, `requires_drop` and the drop-insertion pass.
    Every classification rule is taken from GenTyTable.v (regenerated from /repo on every
    run); this file only supplies the type inductive and the recursion scheme, i.e. which
    generated body applies to which constructor and what it is given as "self".
    No proofs here. *)
From Coq Require Import List Bool String NArith Arith.
From V.C14 Require Import Base GenTyTable.
Import ListNotations.
Open Scope string_scope.
Open Scope list_scope.

Inductive numkind := KNat | KInt | KFloat.

Inductive arg (T : Type) : Type :=
| ATy (t : T)              (* TypeArg *)
| AConst (n : N)           (* ConstArg(ConstValue(nat, n)) *)
| AConstVar (idx : N).     (* ConstArg(BoundConstVar) *)
Arguments ATy {T} t.
Arguments AConst {T} n.
Arguments AConstVar {T} idx.

(** Guppy types (tys/ty.py `Type` union without ExistentialTypeVar, whose hugr_bound and
    to_hugr raise).  A struct type carries its *instantiated* field types, i.e. the value
    of `StructType.fields`; the correspondence harness reads them from the real object. *)
Inductive ty : Type :=
| TNone
| TNum (k : numkind)
| TVar (idx : N) (copyable droppable : bool)          (* BoundTypeVar *)
| TFun (ins : list ty) (out : ty)                     (* non-parametrized FunctionType *)
| TTuple (els : list ty)
| TOpaque (name : string) (args : list (arg ty))      (* OpaqueType; defn looked up by name *)
| TStruct (sid : N) (args : list (arg ty)) (fields : list ty).

(* an OpaqueType whose definition is not in the generated table: fail-closed flags *)
Definition unknown_def : odef := mkOdef "?" [] true true None (fun _ => None).
Definition the_def (name : string) : odef :=
  match lookup_def gen_opaque_defs name with Some d => d | None => unknown_def end.

Definition arg_view (f : ty -> tinfo) (a : arg ty) : argview :=
  match a with ATy t => AVType (f t) | _ => AVConst end.

(** copyable / droppable / hugr_bound of a type, computed together.
    TupleType.__init__ sets args = [TypeArg(ty) for ty in element_types]. *)
Fixpoint info (t : ty) : tinfo :=
  match t with
  | TNone => mkInfo gen_NoneType_copyable gen_NoneType_droppable gen_NoneType_hugr_bound
  | TNum _ => mkInfo gen_NumericType_copyable gen_NumericType_droppable gen_NumericType_hugr_bound
  | TVar _ c d => mkInfo (gen_BoundTypeVar_copyable c d) (gen_BoundTypeVar_droppable c d) (gen_BoundTypeVar_hugr_bound c d)
  | TFun _ _ => mkInfo gen_FunctionType_copyable gen_FunctionType_droppable gen_FunctionType_hugr_bound
  | TTuple els =>
      let av := map (fun e => AVType (info e)) els in
      mkInfo (gen_TupleType_copyable av) (gen_TupleType_droppable av) (gen_TupleType_hugr_bound av)
  | TOpaque name args =>
      let av := map (fun a => match a with ATy t => AVType (info t) | _ => AVConst end) args in
      let d := the_def name in
      mkInfo (gen_OpaqueType_copyable d av) (gen_OpaqueType_droppable d av) (gen_OpaqueType_hugr_bound d av)
  | TStruct _ args fields =>
      let av := map (fun a => match a with ATy t => AVType (info t) | _ => AVConst end) args in
      let fv := map info fields in
      mkInfo (gen_StructType_copyable fv av) (gen_StructType_droppable fv av) (gen_StructType_hugr_bound fv av)
  end.

Definition copyable (t : ty) : bool := ti_copyable (info t).
Definition droppable (t : ty) : bool := ti_droppable (info t).
Definition hugr_bound (t : ty) : bound := ti_hugr_bound (info t).
(* TypeBase.linear / TypeBase.affine *)
Definition linear (t : ty) : bool := negb (copyable t) && negb (droppable t).
Definition affine (t : ty) : bool := negb (copyable t) && droppable t.

(** to_hugr (outside a monomorphization context: a bound variable becomes
    ht.Variable(idx, var.hugr_bound)).  None = the Python code raises. *)
Fixpoint all_some {A} (l : list (option A)) : option (list A) :=
  match l with
  | [] => Some []
  | None :: _ => None
  | Some x :: r => match all_some r with Some r' => Some (x :: r') | None => None end
  end.

Definition num_to_hugr (k : numkind) : hty :=
  match k with KNat => gen_NumericType_to_hugr_Nat | KInt => gen_NumericType_to_hugr_Int | KFloat => gen_NumericType_to_hugr_Float end.

Fixpoint to_hugr (t : ty) : option hty :=
  match t with
  | TNone => Some gen_NoneType_to_hugr
  | TNum k => Some (num_to_hugr k)
  | TVar idx c d => Some (HVar idx (gen_BoundTypeVar_hugr_bound c d))
  | TFun _ _ => Some HFun
  | TTuple els => option_map h_tuple (all_some (map to_hugr els))
  | TStruct _ _ fields => option_map h_tuple (all_some (map to_hugr fields))
  | TOpaque name args =>
      match all_some (map (fun a => match a with
                                    | ATy t => option_map (fun h => CTy h (negb (ti_copyable (info t)) && negb (ti_droppable (info t)))) (to_hugr t)
                                    | AConst n => Some (CConst (HNat n))
                                    | AConstVar i => Some (CConst (HNatVar i))
                                    end) args) with
      | Some cs => match lookup_def gen_opaque_defs name with Some d => od_to_hugr d cs | None => None end
      | None => None
      end
  end.

(** HUGR's own bound of a type (hugr-py `Type.type_bound()`): trusted specification of the
    dependency, written from hugr/tys.py; the table of type definitions is compared with
    the live hugr objects by the harness on every run. *)
Inductive tdbound := Explicit (b : bound) | FromParams (idxs : list nat).
Definition hugr_typedefs : list (string * tdbound) := [
  ("tket.bool.bool", Explicit Copyable);
  ("prelude.string", Explicit Copyable);
  ("arithmetic.int.types.int", Explicit Copyable);
  ("arithmetic.float.types.float64", Explicit Copyable);
  ("collections.list.List", FromParams [0%nat]);
  ("collections.borrow_arr.borrow_array", Explicit Linear);
  ("collections.array.array", Explicit Linear);
  ("collections.static_array.static_array", Explicit Copyable) ].

Fixpoint lookup_td (l : list (string * tdbound)) (q : string) : option tdbound :=
  match l with [] => None | (n, b) :: r => if String.eqb n q then Some b else lookup_td r q end.

Fixpoint type_bound (h : hty) : bound :=
  match h with
  | HExt q args =>
      let bs := map (fun a => match a with HTy t => Some (type_bound t) | _ => None end) args in
      match lookup_td hugr_typedefs q with
      | Some (Explicit b) => b
      | Some (FromParams idxs) =>
          bound_join (flat_map (fun i => match nth_error bs i with Some (Some b) => [b] | _ => [] end) idxs)
      | None => Linear       (* unknown extension type: conservative *)
      end
  | HOpaque _ _ b => b
  | HSum rows => bound_join (List.concat (map (map type_bound) rows))
  | HVar _ b => b
  | HFun => Copyable
  | HQubit => Linear
  | HAlias => Linear
  end.

(** compiler/core.py requires_drop: one generated body per `case` arm. *)
Fixpoint requires_drop (h : hty) : bool :=
  match h with
  | HExt q args => gen_requires_drop_ExtType q (map (fun a => match a with HTy t => HAVType (requires_drop t) | _ => HAVOther end) args)
  | HOpaque q args _ => gen_requires_drop_Opaque q (map (fun a => match a with HTy t => HAVType (requires_drop t) | _ => HAVOther end) args)
  | HSum rows => gen_requires_drop_Sum (map (map requires_drop) rows)
  | HVar _ b => gen_requires_drop_Variable b
  | HFun => gen_requires_drop_FunctionType
  | HQubit => gen_requires_drop_default
  | HAlias => gen_requires_drop_default      (* the code raises InternalGuppyError; never emitted *)
  end.

(** The drop-insertion pass on an abstract HUGR: a node has a FuncDefn flag and out-ports,
    each with a kind (value of some type, or anything else) and its number of links. *)
Inductive pkind := KValue (t : hty) | KOther.
Record port := mkPort { p_kind : pkind; p_links : nat }.
Record node := mkNode { n_funcdefn : bool; n_out : list port }.
(* a drop node: which (node, out-port) it consumes and at which type it was instantiated *)
Record drop := mkDrop { d_node : nat; d_port : nat; d_ty : hty }.

Definition port_gets_drop (p : port) : bool :=
  match p_kind p with
  | KValue t => gen_insert_drops_cond (Nat.eqb (p_links p) 0) true (requires_drop t)
  | KOther => gen_insert_drops_cond (Nat.eqb (p_links p) 0) false false
  end.

Definition drop_port (ni pi : nat) (p : port) : port * list drop :=
  if port_gets_drop p
  then (mkPort (p_kind p) (S (p_links p)),
        match p_kind p with KValue t => [mkDrop ni pi t] | KOther => [] end)
  else (p, []).

Fixpoint drop_ports (ni pi : nat) (ps : list port) : list port * list drop :=
  match ps with
  | [] => ([], [])
  | p :: r => let '(p', d) := drop_port ni pi p in
              let '(r', ds) := drop_ports ni (S pi) r in (p' :: r', d ++ ds)
  end.

Fixpoint drop_nodes (ni : nat) (ns : list node) : list node * list drop :=
  match ns with
  | [] => ([], [])
  | n :: r =>
      let '(n', d) := if gen_insert_drops_skip_node (n_funcdefn n) then (n, [])
                      else let '(ps, d) := drop_ports ni 0 (n_out n) in (mkNode (n_funcdefn n) ps, d) in
      let '(r', ds) := drop_nodes (S ni) r in (n' :: r', d ++ ds)
  end.

(* result: the original nodes with updated link counts, and the drop nodes added (a drop op
   has one input and no output, so the added nodes contribute no further ports) *)
Definition insert_drops (g : list node) : list node * list drop := drop_nodes 0 g.

(* ------------------------------------------------------------------------------------ *)
(** Specification vocabulary, written without reference to the generated rules. *)

Definition type_args (args : list (arg ty)) : list ty :=
  flat_map (fun a => match a with ATy t => [t] | _ => [] end) args.

(* fields, elements and type arguments of a type; a function type has none that matter *)
Definition components (t : ty) : list ty :=
  match t with
  | TTuple els => els
  | TOpaque _ args => type_args args
  | TStruct _ args fields => fields ++ type_args args
  | _ => []
  end.

Inductive occurs : ty -> ty -> Prop :=
| occ_here : forall t, occurs t t
| occ_in : forall s c t, In c (components t) -> occurs s c -> occurs s t.

(* intrinsic rules of the property text *)
Definition head_copy (t : ty) : bool :=
  match t with
  | TVar _ c _ => c
  | TOpaque name _ => negb (String.eqb name "qubit") && negb (String.eqb name "array")
  | _ => true
  end.
Definition head_drop (t : ty) : bool :=
  match t with
  | TVar _ _ d => d
  | TOpaque name _ => negb (String.eqb name "qubit")
  | _ => true
  end.

(* decidable equality on types (for the phantom-argument side condition) *)
Definition numkind_eqb (a b : numkind) : bool :=
  match a, b with KNat, KNat | KInt, KInt | KFloat, KFloat => true | _, _ => false end.

Fixpoint list_eqb {A} (f : A -> A -> bool) (l1 l2 : list A) : bool :=
  match l1, l2 with
  | [], [] => true
  | a :: r1, b :: r2 => f a b && list_eqb f r1 r2
  | _, _ => false
  end.

Fixpoint ty_eqb (a b : ty) {struct a} : bool :=
  match a, b with
  | TNone, TNone => true
  | TNum k, TNum k' => numkind_eqb k k'
  | TVar i c d, TVar i' c' d' => N.eqb i i' && Bool.eqb c c' && Bool.eqb d d'
  | TFun ins out, TFun ins' out' =>
      (fix go (l1 l2 : list ty) : bool := match l1, l2 with
         | [], [] => true | x :: r1, y :: r2 => ty_eqb x y && go r1 r2 | _, _ => false end) ins ins'
      && ty_eqb out out'
  | TTuple els, TTuple els' =>
      (fix go (l1 l2 : list ty) : bool := match l1, l2 with
         | [], [] => true | x :: r1, y :: r2 => ty_eqb x y && go r1 r2 | _, _ => false end) els els'
  | TOpaque n args, TOpaque n' args' =>
      String.eqb n n' &&
      (fix go (l1 l2 : list (arg ty)) : bool := match l1, l2 with
         | [], [] => true
         | x :: r1, y :: r2 =>
             match x, y with
             | ATy s, ATy s' => ty_eqb s s'
             | AConst m, AConst m' => N.eqb m m'
             | AConstVar m, AConstVar m' => N.eqb m m'
             | _, _ => false end && go r1 r2
         | _, _ => false end) args args'
  | TStruct s args fs, TStruct s' args' fs' =>
      N.eqb s s' &&
      (fix go (l1 l2 : list (arg ty)) : bool := match l1, l2 with
         | [], [] => true
         | x :: r1, y :: r2 =>
             match x, y with
             | ATy s, ATy s' => ty_eqb s s'
             | AConst m, AConst m' => N.eqb m m'
             | AConstVar m, AConstVar m' => N.eqb m m'
             | _, _ => false end && go r1 r2
         | _, _ => false end) args args'
      && (fix go (l1 l2 : list ty) : bool := match l1, l2 with
         | [], [] => true | x :: r1, y :: r2 => ty_eqb x y && go r1 r2 | _, _ => false end) fs fs'
  | _, _ => false
  end.

(* s occurs in t (boolean; through fields, elements, type arguments) *)
Fixpoint occursb (s t : ty) {struct t} : bool :=
  ty_eqb s t ||
  match t with
  | TTuple els => existsb (occursb s) els
  | TOpaque _ args => existsb (fun a => match a with ATy c => occursb s c | _ => false end) args
  | TStruct _ args fields =>
      existsb (occursb s) fields || existsb (fun a => match a with ATy c => occursb s c | _ => false end) args
  | _ => false
  end.

(** Types as `check_instantiate` builds them: opaque definitions are known, the arguments
    fit the definition's parameters (kind and must_be_copyable / must_be_droppable). *)
Fixpoint args_fit (ps : list param) (avs : list (option (bool * bool))) : bool :=
  match ps, avs with
  | [], [] => true
  | PType mc md :: ps', Some (c, d) :: avs' => (implb mc c) && (implb md d) && args_fit ps' avs'
  | PConst :: ps', None :: avs' => args_fit ps' avs'
  | _, _ => false
  end.

Fixpoint wfb (t : ty) : bool :=
  match t with
  | TNone | TNum _ | TVar _ _ _ => true
  | TFun ins out => true
  | TTuple els => forallb wfb els
  | TOpaque name args =>
      forallb (fun a => match a with ATy c => wfb c | _ => true end) args &&
      match lookup_def gen_opaque_defs name with
      | Some d => args_fit (od_params d)
                    (map (fun a => match a with
                                   | ATy c => Some (ti_copyable (info c), ti_droppable (info c))
                                   | _ => None end) args)
      | None => false
      end
  | TStruct _ args fields =>
      forallb (fun a => match a with ATy c => wfb c | _ => true end) args && forallb wfb fields
  end.

(** Type arguments of structs are witnessed by the fields: whenever all (instantiated) fields
    of a struct type are copyable, so are all its type arguments.  This is what fails for a
    phantom parameter (`struct S[T]: x: int` at S[qubit]) or a parameter used only inside a
    function type; `nophantomb` below is the syntactic reading. *)
Fixpoint witnessedb (t : ty) : bool :=
  match t with
  | TNone | TNum _ | TVar _ _ _ | TFun _ _ => true
  | TTuple els => forallb witnessedb els
  | TOpaque _ args => forallb (fun a => match a with ATy c => witnessedb c | _ => true end) args
  | TStruct _ args fields =>
      forallb (fun a => match a with ATy c => witnessedb c | _ => true end) args
      && forallb witnessedb fields
      && implb (forallb (fun f => ti_copyable (info f)) fields)
               (forallb (fun a => match a with ATy c => ti_copyable (info c) | _ => true end) args)
  end.

(** No phantom type argument: every type argument of every struct type occurs in one of
    its (instantiated) fields.  `struct S[T]: x: int` instantiated at S[qubit] violates it. *)
Fixpoint nophantomb (t : ty) : bool :=
  match t with
  | TNone | TNum _ | TVar _ _ _ | TFun _ _ => true
  | TTuple els => forallb nophantomb els
  | TOpaque _ args => forallb (fun a => match a with ATy c => nophantomb c | _ => true end) args
  | TStruct _ args fields =>
      forallb (fun a => match a with ATy c => nophantomb c && existsb (occursb c) fields | _ => true end) args
      && forallb nophantomb fields
  end.

(* ------------------------------------------------------------------------------------ *)
(** Serialisation used only by the correspondence harness (props/C14/check.py): the model's
    verdicts on a type as a flat list of integers, in the same encoding impl_types.py uses
    for the real objects. *)
From Coq Require Import ZArith.
Definition qnames : list string := [
  "tket.bool.bool"; "prelude.string"; "arithmetic.int.types.int"; "arithmetic.float.types.float64";
  "collections.list.List"; "collections.borrow_arr.borrow_array"; "collections.array.array";
  "collections.static_array.static_array"].
Fixpoint index_of (q : string) (l : list string) (i : Z) : Z :=
  match l with [] => (-1)%Z | x :: r => if String.eqb x q then i else index_of q r (i + 1)%Z end.
Definition bcode (b : bound) : Z := match b with Copyable => 0%Z | Linear => 1%Z end.
Definition zb (b : bool) : Z := if b then 1%Z else 0%Z.

Fixpoint ser (h : hty) : list Z :=
  match h with
  | HExt q args =>
      1%Z :: index_of q qnames 0%Z :: Z.of_nat (List.length args) ::
      flat_map (fun a => match a with
                         | HTy t => 10%Z :: ser t
                         | HNat n => [11%Z; Z.of_N n]
                         | HNatVar i => [12%Z; Z.of_N i] end) args
  | HSum rows => 2%Z :: Z.of_nat (List.length rows) ::
      flat_map (fun r => Z.of_nat (List.length r) :: flat_map ser r) rows
  | HVar i b => [3%Z; Z.of_N i; bcode b]
  | HFun => [4%Z]
  | HQubit => [5%Z]
  | HAlias => [6%Z]
  | HOpaque _ _ _ => [7%Z]
  end.

(* canonical form of a drop for comparison with compiled programs: the compiler may unpack
   tuples / structs (single-row sums) before dropping, so a drop is flattened to the leaves
   that require a drop *)
Fixpoint drop_leaves (h : hty) : list hty :=
  if requires_drop h then
    match h with
    | HSum rows => match rows with [row] => flat_map drop_leaves row | _ => [h] end
    | _ => [h]
    end
  else [].

Definition leaves (t : ty) : list (list Z) :=
  match to_hugr t with Some h => map ser (drop_leaves h) | None => [[(-2)%Z]] end.

Definition verdict (t : ty) : list Z :=
  [zb (copyable t); zb (droppable t); bcode (hugr_bound t); zb (wfb t); zb (witnessedb t); zb (nophantomb t)] ++
  match to_hugr t with
  | Some h => [1%Z; bcode (type_bound h); zb (requires_drop h)] ++ ser h
  | None => [0%Z]
  end.
