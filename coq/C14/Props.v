(** C14 — Copy/drop classification is structural and matches HUGR bounds.

    Every statement is about `copyable`, `droppable`, `hugr_bound`, `to_hugr`,
    `requires_drop` and `insert_drops` of Model.v, whose rules are the definitions of
    GenTyTable.v REGENERATED from tys/ty.py, tys/builtin.py, std/quantum/__init__.py and
    compiler/core.py on this run.  Quantification is over all types of the inductive `ty`
    (any nesting depth of tuples, structs, arrays, options, lists, frozen arrays, function
    types, the base types and bound type variables of each of the four copy/drop bounds)
    that `check_instantiate` can build (`wfb`: known definitions, arguments fit parameters).

    Spec side, independent of the rules: `components` (fields, elements, type arguments),
    `occurs` (its reflexive-transitive closure), `head_copy` / `head_drop` (the intrinsic
    rules of the property text), hugr-py's `type_bound` on the translated type. *)
From Coq Require Import List Bool String NArith Arith.
From V.C14 Require Import Base GenTyTable Model Proofs Proofs2.
Import ListNotations.
Open Scope string_scope.
Open Scope list_scope.

Definition qubit := TOpaque "qubit" [].
Definition boolT := TOpaque "bool" [].
Definition strT := TOpaque "str" [].
Definition arrayT (t : ty) (n : N) := TOpaque "array" [ATy t; AConst n].
Definition optionT (t : ty) := TOpaque "Option" [ATy t].

(* A type is copyable exactly when its head allows it (intrinsic rule) and all of its fields,
   elements and type arguments are; equivalently when no qubit, array or non-copyable type
   variable occurs in it (through fields, elements, type arguments; not through function types). *)
Theorem copyable_structural : forall t, wfb t = true ->
  (copyable t = true <-> head_copy t = true /\ Forall (fun c => copyable c = true) (components t)) /\
  (copyable t = true <-> forall s, occurs s t -> head_copy s = true).
Proof.
  intros t W. split; [|exact (copyable_leaves t W)].
  rewrite (copyable_step t W), andb_true_iff, forallb_forall, Forall_forall. tauto.
Qed.
Print Assumptions copyable_structural.

Theorem droppable_structural : forall t, wfb t = true ->
  (droppable t = true <-> head_drop t = true /\ Forall (fun c => droppable c = true) (components t)) /\
  (droppable t = true <-> forall s, occurs s t -> head_drop s = true).
Proof.
  intros t W. split; [|exact (droppable_leaves t W)].
  rewrite (droppable_step t W), andb_true_iff, forallb_forall, Forall_forall. tauto.
Qed.
Print Assumptions droppable_structural.

(* the intrinsic rules, as corollaries on the generated table *)
Theorem intrinsic_rules :
  (copyable qubit = false /\ droppable qubit = false) /\
  (forall t n, copyable (arrayT t n) = false) /\
  (forall t n, wfb (arrayT t n) = true -> droppable (arrayT t n) = droppable t) /\
  (forall k, copyable (TNum k) = true /\ droppable (TNum k) = true) /\
  (copyable boolT = true /\ droppable boolT = true) /\
  (copyable strT = true /\ droppable strT = true) /\
  (copyable TNone = true /\ droppable TNone = true) /\
  (forall ins out, copyable (TFun ins out) = true /\ droppable (TFun ins out) = true).
Proof.
  repeat split; try reflexivity.
  intros t n W. rewrite (droppable_step _ W). simpl. apply andb_true_r.
Qed.
Print Assumptions intrinsic_rules.

(* non-trivial instance: a function over qubits inside an option inside a tuple is copyable,
   the same tuple with an array is affine, with a qubit linear *)
Example structural_instances :
  let f := TFun [qubit] qubit in
  wfb (TTuple [optionT f; TNum KInt]) = true /\ copyable (TTuple [optionT f; TNum KInt]) = true /\
  wfb (TTuple [optionT (arrayT boolT 3); TNum KInt]) = true /\
  affine (TTuple [optionT (arrayT boolT 3); TNum KInt]) = true /\
  linear (TStruct 0 [] [TTuple [TNum KInt; arrayT qubit 2]]) = true.
Proof. vm_compute. repeat split. Qed.

(* Guppy's own `hugr_bound` property (with OpaqueTypeDef.bound overriding when set: no
   definition of the generated table sets it, which is part of the checked table facts) *)
Theorem hugr_bound_matches : forall t, wfb t = true -> (hugr_bound t = Copyable <-> copyable t = true).
Proof. exact hugr_bound_matches_copyable. Qed.
Print Assumptions hugr_bound_matches.

(* The HUGR type the compiler emits is a copyable HUGR type (hugr-py's type_bound) exactly
   when the Guppy type is copyable — for types whose struct type arguments are witnessed by
   fields (`witnessedb`); to_hugr succeeds on every such type. *)
Theorem bound_matches : forall t, wfb t = true -> witnessedb t = true ->
  exists h, to_hugr t = Some h /\ (type_bound h = Copyable <-> copyable t = true).
Proof. intros t W N. destruct (Inv_all t W N) as [h [E [q _]]]. eauto. Qed.
Print Assumptions bound_matches.

(* Without the side condition the statement is FALSE in the faithful model: a struct with a
   phantom type parameter instantiated at qubit (struct Ph[T]: x: int ; Ph[qubit]) is not
   copyable in Guppy but its HUGR type Tuple(int) is Copyable.  Replayed on /repo: see
   props/C14/known_findings.json. *)
Theorem bound_matches_refuted : exists t h, wfb t = true /\ to_hugr t = Some h /\
  copyable t = false /\ type_bound h = Copyable.
Proof. exists (TStruct 0 [ATy qubit] [TNum KInt]). eexists. vm_compute. repeat split. Qed.
Print Assumptions bound_matches_refuted.

(* requires_drop holds for the HUGR type of every affine (droppable, non-copyable) Guppy
   type, and only for HUGR types of non-copyable Guppy types *)
Theorem affine_requires_drop : forall t h, wfb t = true -> witnessedb t = true -> to_hugr t = Some h ->
  (affine t = true -> requires_drop h = true) /\ (requires_drop h = true -> copyable t = false).
Proof.
  intros t h W N E. destruct (Inv_all t W N) as [h' [E' [_ [q2 q3]]]]. rewrite E in E'. inversion E'; subst h'.
  split; auto. unfold affine. intros A. apply andb_prop in A. destruct A as [A B].
  apply q3; auto. destruct (copyable t); auto; discriminate.
Qed.
Print Assumptions affine_requires_drop.

Example affine_requires_drop_instance :
  let t := TStruct 1 [ATy (TVar 0 false true)] [optionT (arrayT boolT 2); TTuple [TVar 0 false true]] in
  wfb t = true /\ witnessedb t = true /\ affine t = true /\ option_map requires_drop (to_hugr t) = Some true
  /\ let t2 := TTuple [optionT (arrayT boolT 2); TNum KFloat] in
     wfb t2 = true /\ witnessedb t2 = true /\ affine t2 = true /\ option_map requires_drop (to_hugr t2) = Some true.
Proof. vm_compute. repeat split. Qed.

(* the same phantom shape defeats the drop: Ph[array[int,2]] is affine, its HUGR type Tuple(int)
   does not require a drop *)
Theorem affine_requires_drop_refuted : exists t h, wfb t = true /\ to_hugr t = Some h /\
  affine t = true /\ requires_drop h = false.
Proof. exists (TStruct 0 [ATy (arrayT (TNum KInt) 2)] [TNum KInt]). eexists. vm_compute. repeat split. Qed.
Print Assumptions affine_requires_drop_refuted.

(* The side condition in syntactic form: every type argument of every struct type occurs in
   one of the struct's instantiated fields (outside function types).  `nophantomb` implies
   `witnessedb`, so both theorems hold for all phantom-free types. *)
Theorem bound_and_drop_nophantom : forall t, wfb t = true -> nophantomb t = true ->
  exists h, to_hugr t = Some h /\ (type_bound h = Copyable <-> copyable t = true) /\
    (affine t = true -> requires_drop h = true) /\ (requires_drop h = true -> copyable t = false).
Proof.
  intros t W N. pose proof (nophantom_witnessed t W N) as Wi.
  destruct (bound_matches t W Wi) as [h [E B]]. exists h. split; [exact E|]. split; [exact B|].
  exact (affine_requires_drop t h W Wi E).
Qed.
Print Assumptions bound_and_drop_nophantom.

Example nophantom_instance :
  let g := TStruct 2 [ATy (arrayT boolT 1); AConst 3] [TTuple [arrayT boolT 1; TNum KInt]; optionT qubit] in
  wfb g = true /\ nophantomb g = true /\ linear g = true /\
  nophantomb (TStruct 0 [ATy qubit] [TNum KInt]) = false.
Proof. vm_compute. repeat split. Qed.

(* The drop-insertion pass: for every out-port j of every node i of the input graph, the
   port keeps its kind; it receives exactly one drop node (at the port's type) when it is a
   value port of a non-FuncDefn node, has no link and its type requires a drop, and none
   otherwise; its link count grows by exactly the drops attached to it. *)
Theorem drops_complete : forall g i n j p,
  nth_error g i = Some n -> nth_error (n_out n) j = Some p ->
  exists n' p', nth_error (fst (insert_drops g)) i = Some n' /\ n_funcdefn n' = n_funcdefn n /\
    nth_error (n_out n') j = Some p' /\ p_kind p' = p_kind p /\
    let exp := if n_funcdefn n then [] else expected_drop i j p in
    drops_at i j (snd (insert_drops g)) = exp /\ p_links p' = p_links p + List.length exp.
Proof. intros g i n j p Hn Hp. exact (drop_nodes_nth g 0 i n j p Hn Hp). Qed.
Print Assumptions drops_complete.

(* consequence: after the pass no value port of a non-FuncDefn node whose type requires a drop is left unconnected *)
Theorem no_dangling_after_drops : forall g i n j p t,
  nth_error g i = Some n -> nth_error (n_out n) j = Some p -> n_funcdefn n = false ->
  p_kind p = KValue t -> requires_drop t = true ->
  exists n' p', nth_error (fst (insert_drops g)) i = Some n' /\ nth_error (n_out n') j = Some p' /\
    p_kind p' = KValue t /\ 1 <= p_links p' /\
    (p_links p = 0 -> p_links p' = 1 /\ drops_at i j (snd (insert_drops g)) = [mkDrop i j t]) /\
    (p_links p <> 0 -> p_links p' = p_links p /\ drops_at i j (snd (insert_drops g)) = []).
Proof.
  intros g i n j p t Hn Hp FD K R.
  destruct (drops_complete g i n j p Hn Hp) as [n' [p' [A [B [C [D [E F]]]]]]].
  rewrite FD in E, F. unfold expected_drop, port_needs in E, F. rewrite K, R in E, F.
  exists n', p'. split; [exact A|]. split; [exact C|]. split; [congruence|].
  destruct (p_links p) as [|k] eqn:L; simpl in E, F.
  - split; [Lia.lia|]. split; [intros _; split; [Lia.lia|exact E]|intros Z; congruence].
  - split; [Lia.lia|]. split; [intros Z; discriminate|intros _; split; [Lia.lia|exact E]].
Qed.
Print Assumptions no_dangling_after_drops.

Example drops_instance :
  let arr := HExt "collections.borrow_arr.borrow_array" [HNat 2; HTy (HExt "arithmetic.int.types.int" [HNat 6])] in
  let g := [mkNode true [mkPort KOther 0];
            mkNode false [mkPort (KValue arr) 0; mkPort (KValue (h_option arr)) 1; mkPort (KValue HQubit) 0; mkPort KOther 0]] in
  snd (insert_drops g) = [mkDrop 1 0 arr] /\ map (fun n => map p_links (n_out n)) (fst (insert_drops g)) = [[0]; [1; 1; 0; 0]].
Proof. vm_compute. split; reflexivity. Qed.
