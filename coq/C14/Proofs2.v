(** C14 — the syntactic no-phantom condition implies the semantic one used by the theorems. *)
From Coq Require Import List Bool String NArith Arith Lia.
From V.C14 Require Import Base GenTyTable Model Proofs.
Import ListNotations.
Open Scope string_scope.
Open Scope list_scope.

Definition go_tys := (fix go (l1 l2 : list ty) : bool := match l1, l2 with
         | [], [] => true | x :: r1, y :: r2 => ty_eqb x y && go r1 r2 | _, _ => false end).
Definition go_args := (fix go (l1 l2 : list (arg ty)) : bool := match l1, l2 with
         | [], [] => true
         | x :: r1, y :: r2 =>
             match x, y with
             | ATy s, ATy s' => ty_eqb s s'
             | AConst m, AConst m' => N.eqb m m'
             | AConstVar m, AConstVar m' => N.eqb m m'
             | _, _ => false end && go r1 r2
         | _, _ => false end).

Lemma go_tys_eq : forall l1, Forall (fun x => forall y, ty_eqb x y = true -> x = y) l1 ->
  forall l2, go_tys l1 l2 = true -> l1 = l2.
Proof.
  induction 1 as [|x r Hx _ IH]; intros [|y r2] E; simpl in E; try discriminate; auto.
  apply andb_prop in E. destruct E as [E1 E2]. f_equal; auto.
Qed.

Lemma go_args_eq : forall l1, Forall (fun x => forall y, ty_eqb x y = true -> x = y) (type_args l1) ->
  forall l2, go_args l1 l2 = true -> l1 = l2.
Proof.
  induction l1 as [|x r IH]; intros F [|y r2] E; simpl in E; try discriminate; auto.
  apply andb_prop in E. destruct E as [E1 E2].
  destruct x as [s|m|m], y as [s'|m'|m']; try discriminate; simpl in F.
  - inversion F; subst. f_equal; auto. f_equal; auto.
  - apply N.eqb_eq in E1. subst. f_equal; auto.
  - apply N.eqb_eq in E1. subst. f_equal; auto.
Qed.

Lemma ty_eqb_eq : forall a b, ty_eqb a b = true -> a = b.
Proof.
  induction a using ty_ind'; intros b E; destruct b; simpl in E; try discriminate; auto.
  - destruct k, k0; try discriminate; auto.
  - apply andb_prop in E. destruct E as [E E3]. apply andb_prop in E. destruct E as [E1 E2].
    apply N.eqb_eq in E1. apply Bool.eqb_prop in E2. apply Bool.eqb_prop in E3. subst. auto.
  - apply andb_prop in E. destruct E as [E1 E2]. fold go_tys in E1.
    rewrite (go_tys_eq _ H _ E1), (IHa _ E2). auto.
  - fold go_tys in E. rewrite (go_tys_eq _ H _ E). auto.
  - apply andb_prop in E. destruct E as [E1 E2]. fold go_args in E2. apply String.eqb_eq in E1.
    rewrite (go_args_eq _ H _ E2), E1. auto.
  - apply andb_prop in E. destruct E as [E E3]. apply andb_prop in E. destruct E as [E1 E2].
    fold go_args in E2. fold go_tys in E3. apply N.eqb_eq in E1.
    rewrite (go_args_eq _ H _ E2), (go_tys_eq _ H0 _ E3), E1. auto.
Qed.

Lemma existsb_args_occ : forall s args,
  existsb (fun a => match a with ATy c => occursb s c | _ => false end) args = true ->
  exists c, In c (type_args args) /\ occursb s c = true.
Proof.
  induction args as [|a r IH]; simpl; intros E; [discriminate|].
  apply orb_prop in E. destruct E as [E|E].
  - destruct a; try discriminate. exists t. simpl. auto.
  - destruct (IH E) as [c [I O]]. exists c. split; auto. destruct a; simpl; auto.
Qed.

Lemma occursb_sound : forall s t, occursb s t = true -> occurs s t.
Proof.
  intros s t. induction t using ty_ind'; intros E; simpl in E.
  all: try (rewrite orb_false_r in E; apply ty_eqb_eq in E; subst; apply occ_here).
  - apply orb_prop in E. destruct E as [E|E]; [apply ty_eqb_eq in E; subst; apply occ_here|].
    apply existsb_exists in E. destruct E as [c [I O]]. rewrite Forall_forall in H.
    eapply occ_in; [|apply (H c I O)]. simpl. auto.
  - apply orb_prop in E. destruct E as [E|E]; [apply ty_eqb_eq in E; subst; apply occ_here|].
    destruct (existsb_args_occ _ _ E) as [c [I O]]. rewrite Forall_forall in H.
    eapply occ_in; [|apply (H c I O)]. simpl. auto.
  - apply orb_prop in E. destruct E as [E|E]; [apply ty_eqb_eq in E; subst; apply occ_here|].
    apply orb_prop in E. destruct E as [E|E].
    + apply existsb_exists in E. destruct E as [c [I O]]. rewrite Forall_forall in H0.
      eapply occ_in; [|apply (H0 c I O)]. simpl. apply in_or_app. auto.
    + destruct (existsb_args_occ _ _ E) as [c [I O]]. rewrite Forall_forall in H.
      eapply occ_in; [|apply (H c I O)]. simpl. apply in_or_app. auto.
Qed.

Lemma nophantom_witnessed : forall t, wfb t = true -> nophantomb t = true -> witnessedb t = true.
Proof.
  induction t using ty_ind'; intros W N; simpl in *; auto.
  - apply forallb_forall. intros c I. rewrite Forall_forall in H. rewrite forallb_forall in W, N. auto.
  - apply andb_prop in W. destruct W as [W _]. clear n.
    induction args as [|a r IH]; simpl in *; auto.
    destruct a; simpl in *; auto.
    apply andb_prop in W. destruct W. apply andb_prop in N. destruct N. inversion H; subst.
    apply andb_true_intro. split; auto.
  - apply andb_prop in W. destruct W as [Wa Wf]. apply andb_prop in N. destruct N as [Na Nf].
    assert (WF : forall f, In f fields -> wfb f = true) by (rewrite forallb_forall in Wf; auto).
    apply andb_true_intro. split; [apply andb_true_intro; split|].
    + clear - H Wa Na. induction args as [|a r IH]; simpl in *; auto.
      destruct a; simpl in *; auto.
      apply andb_prop in Wa. destruct Wa. apply andb_prop in Na. destruct Na as [Na1 Na2].
      apply andb_prop in Na1. destruct Na1. inversion H; subst.
      apply andb_true_intro. split; auto.
    + apply forallb_forall. intros c I. rewrite Forall_forall in H0. rewrite forallb_forall in Nf. auto.
    + destruct (forallb (fun f => ti_copyable (info f)) fields) eqn:CF; simpl; auto.
      change (forallb (fun f => ti_copyable (info f)) fields) with (forallb copyable fields) in CF.
      rewrite forallb_forall in CF.
      clear - Na CF WF. induction args as [|a r IH]; simpl in *; auto.
      destruct a; simpl in *; auto.
      apply andb_prop in Na. destruct Na as [Na1 Na2]. apply andb_prop in Na1. destruct Na1 as [_ Ex].
      apply andb_true_intro. split; auto.
      apply existsb_exists in Ex. destruct Ex as [f [I O]].
      apply (copyable_occurs t f (occursb_sound _ _ O) (WF f I) (CF f I)).
Qed.
