(** C14 — lemmas.  All statements are about the definitions of Model.v, which are assembled
    from the generated rules of GenTyTable.v; a change of a rule in /repo changes the
    generated text and the lemma that depended on it stops checking. *)
From Coq Require Import List Bool String NArith Arith Lia.
From V.C14 Require Import Base GenTyTable Model.
Import ListNotations.
Open Scope string_scope.
Open Scope list_scope.

Lemma lookup_def_spec : forall defs name d, lookup_def defs name = Some d -> In d defs /\ od_name d = name.
Proof.
  induction defs as [|x r IH]; simpl; intros name d H; [discriminate|].
  destruct (String.eqb (od_name x) name) eqn:E.
  - inversion H; subst. split; auto. apply String.eqb_eq; auto.
  - destruct (IH _ _ H); auto.
Qed.

Arguments lookup_def : simpl never.
Arguments the_def : simpl never.
Arguments String.eqb : simpl never.

(* ---------------------------------------------------------------- induction on types *)
Section ty_ind_nested.
  Variable P : ty -> Prop.
  Hypothesis HNone : P TNone.
  Hypothesis HNum : forall k, P (TNum k).
  Hypothesis HVarr : forall i c d, P (TVar i c d).
  Hypothesis HFunn : forall ins out, Forall P ins -> P out -> P (TFun ins out).
  Hypothesis HTuple : forall els, Forall P els -> P (TTuple els).
  Hypothesis HOpaquee : forall n args, Forall P (type_args args) -> P (TOpaque n args).
  Hypothesis HStruct : forall s args fields, Forall P (type_args args) -> Forall P fields -> P (TStruct s args fields).

  Fixpoint ty_ind' (t : ty) : P t :=
    let list_rec := (fix go (l : list ty) : Forall P l :=
                       match l with [] => Forall_nil P | x :: r => Forall_cons x (ty_ind' x) (go r) end) in
    let args_rec := (fix go (l : list (arg ty)) : Forall P (type_args l) :=
                       match l return Forall P (type_args l) with
                       | [] => Forall_nil P
                       | ATy x :: r => Forall_cons x (ty_ind' x) (go r)
                       | AConst _ :: r => go r
                       | AConstVar _ :: r => go r
                       end) in
    match t with
    | TNone => HNone
    | TNum k => HNum k
    | TVar i c d => HVarr i c d
    | TFun ins out => HFunn ins out (list_rec ins) (ty_ind' out)
    | TTuple els => HTuple els (list_rec els)
    | TOpaque n args => HOpaquee n args (args_rec args)
    | TStruct s args fields => HStruct s args fields (args_rec args) (list_rec fields)
    end.
End ty_ind_nested.

(* ---------------------------------------------------------------- small list facts *)
Lemma forallb_args_copy : forall (f : ty -> tinfo) (g : tinfo -> bool) args,
  forallb (fun a => negb (av_is_type a) || match a with AVType i => g i | AVConst => false end)
          (map (fun a => match a with ATy t => AVType (f t) | _ => AVConst end) args)
  = forallb (fun t => g (f t)) (type_args args).
Proof.
  induction args as [|a r IH]; simpl; auto. destruct a; simpl; rewrite IH; auto.
Qed.

Lemma forallb_els : forall (f : ty -> tinfo) (g : tinfo -> bool) els,
  forallb (fun a => negb (av_is_type a) || match a with AVType i => g i | AVConst => false end)
          (map (fun e => AVType (f e)) els)
  = forallb (fun t => g (f t)) els.
Proof. induction els as [|a r IH]; simpl; auto. rewrite IH; auto. Qed.

Lemma forallb_map : forall {A B} (f : A -> B) (g : B -> bool) l, forallb g (map f l) = forallb (fun x => g (f x)) l.
Proof. induction l; simpl; auto. rewrite IHl; auto. Qed.

Lemma forallb_app' : forall {A} (f : A -> bool) l1 l2, forallb f (l1 ++ l2) = forallb f l1 && forallb f l2.
Proof. induction l1; simpl; auto. intros. rewrite IHl1, andb_assoc. auto. Qed.

(* ---------------------------------------------------------------- the table of definitions *)
(* intrinsic rules of the property: qubit neither copyable nor droppable, array never
   copyable, no other builtin restricts; and no definition overrides the HUGR bound *)
Definition def_matches_rules (d : odef) : bool :=
  Bool.eqb (od_never_copyable d) (String.eqb (od_name d) "qubit" || String.eqb (od_name d) "array")
  && Bool.eqb (od_never_droppable d) (String.eqb (od_name d) "qubit")
  && match od_bound d with None => true | Some _ => false end.

Lemma table_matches_rules : forallb def_matches_rules gen_opaque_defs = true.
Proof. vm_compute. reflexivity. Qed.


Lemma known_def_rules : forall name d, lookup_def gen_opaque_defs name = Some d ->
  od_never_copyable d = (String.eqb name "qubit" || String.eqb name "array") /\
  od_never_droppable d = String.eqb name "qubit" /\ od_bound d = None.
Proof.
  intros name d H. destruct (lookup_def_spec _ _ _ H) as [Hin Hn].
  pose proof table_matches_rules as T. rewrite forallb_forall in T. specialize (T _ Hin).
  unfold def_matches_rules in T. rewrite Hn in T.
  apply andb_prop in T; destruct T as [T T3]. apply andb_prop in T; destruct T as [T1 T2].
  apply Bool.eqb_prop in T1. apply Bool.eqb_prop in T2. destruct (od_bound d); [discriminate T3|]. auto.
Qed.

Lemma wfb_known : forall name args, wfb (TOpaque name args) = true ->
  exists d, lookup_def gen_opaque_defs name = Some d /\ the_def name = d.
Proof.
  intros name args H. simpl in H. apply andb_prop in H; destruct H as [_ H].
  unfold the_def. destruct (lookup_def gen_opaque_defs name) as [d|]; [|discriminate]. eauto.
Qed.

Lemma wfb_components : forall t, wfb t = true -> Forall (fun c => wfb c = true) (components t).
Proof.
  destruct t; simpl; intros H; auto.
  - apply Forall_forall. rewrite forallb_forall in H. auto.
  - apply andb_prop in H; destruct H as [H _]. clear name.
    induction args as [|a r IH]; simpl in *; auto. destruct a; simpl in *; auto.
    apply andb_prop in H; destruct H. constructor; auto.
  - apply andb_prop in H; destruct H as [Ha Hf]. apply Forall_app. split.
    + apply Forall_forall. rewrite forallb_forall in Hf. auto.
    + clear Hf. induction args as [|a r IH]; simpl in *; auto. destruct a; simpl in *; auto.
      apply andb_prop in Ha; destruct Ha. constructor; auto.
Qed.

(* ---------------------------------------------------------------- one-step structure *)
Lemma copyable_step : forall t, wfb t = true ->
  copyable t = head_copy t && forallb copyable (components t).
Proof.
  intros t W. destruct t as [| k | i c d | ins out | els | name args | s args fields]; try reflexivity.
  - unfold copyable; simpl. destruct c; reflexivity.
  - unfold copyable; simpl. unfold gen_TupleType_copyable, gen_TupleType_intrinsically_copyable.
    simpl. rewrite (forallb_els info ti_copyable). reflexivity.
  - destruct (wfb_known _ _ W) as [d [L D]]. destruct (known_def_rules _ _ L) as [Hc _].
    unfold copyable; simpl. rewrite D.
    unfold gen_OpaqueType_copyable, gen_OpaqueType_intrinsically_copyable.
    rewrite Hc, (forallb_args_copy info ti_copyable). rewrite negb_orb. reflexivity.
  - unfold copyable; simpl.
    unfold gen_StructType_copyable, gen_StructType_intrinsically_copyable.
    rewrite (forallb_args_copy info ti_copyable), forallb_map, forallb_app'. reflexivity.
Qed.

Lemma droppable_step : forall t, wfb t = true ->
  droppable t = head_drop t && forallb droppable (components t).
Proof.
  intros t W. destruct t as [| k | i c d | ins out | els | name args | s args fields]; try reflexivity.
  - unfold droppable; simpl. destruct d; reflexivity.
  - unfold droppable; simpl. unfold gen_TupleType_droppable, gen_TupleType_intrinsically_droppable.
    simpl. rewrite (forallb_els info ti_droppable). reflexivity.
  - destruct (wfb_known _ _ W) as [d [L D]]. destruct (known_def_rules _ _ L) as [_ [Hd _]].
    unfold droppable; simpl. rewrite D.
    unfold gen_OpaqueType_droppable, gen_OpaqueType_intrinsically_droppable.
    rewrite Hd, (forallb_args_copy info ti_droppable). reflexivity.
  - unfold droppable; simpl.
    unfold gen_StructType_droppable, gen_StructType_intrinsically_droppable.
    rewrite (forallb_args_copy info ti_droppable), forallb_map, forallb_app'. reflexivity.
Qed.

(* ---------------------------------------------------------------- occurrence form *)
Lemma occurs_wfb : forall s t, occurs s t -> wfb t = true -> wfb s = true.
Proof.
  induction 1; auto. intros W. apply IHoccurs.
  pose proof (wfb_components _ W) as F. rewrite Forall_forall in F. auto.
Qed.

Lemma copyable_occurs : forall s t, occurs s t -> wfb t = true -> copyable t = true -> copyable s = true.
Proof.
  induction 1; auto. intros W C. 
  pose proof (wfb_components _ W) as F. rewrite Forall_forall in F.
  rewrite (copyable_step _ W) in C. apply andb_prop in C; destruct C as [_ C].
  rewrite forallb_forall in C. auto.
Qed.

Lemma droppable_occurs : forall s t, occurs s t -> wfb t = true -> droppable t = true -> droppable s = true.
Proof.
  induction 1; auto. intros W C. 
  pose proof (wfb_components _ W) as F. rewrite Forall_forall in F.
  rewrite (droppable_step _ W) in C. apply andb_prop in C; destruct C as [_ C].
  rewrite forallb_forall in C. auto.
Qed.

Lemma components_Forall : forall (P : ty -> Prop) t,
  match t with
  | TTuple els => Forall P els
  | TOpaque _ args => Forall P (type_args args)
  | TStruct _ args fields => Forall P (type_args args) /\ Forall P fields
  | _ => True end -> Forall P (components t).
Proof. destruct t; simpl; auto. intros [A B]. apply Forall_app; auto. Qed.

Lemma copyable_leaves : forall t, wfb t = true ->
  (copyable t = true <-> forall s, occurs s t -> head_copy s = true).
Proof.
  intros t W. split.
  - intros C s O. pose proof (copyable_occurs _ _ O W C) as Cs.
    rewrite (copyable_step _ (occurs_wfb _ _ O W)) in Cs. apply andb_prop in Cs. tauto.
  - revert W. induction t using ty_ind'; intros W Hs; rewrite (copyable_step _ W);
      (rewrite (Hs _ (occ_here _)); simpl; auto).
    all: pose proof (wfb_components _ W) as F; rewrite Forall_forall in F.
    all: apply forallb_forall; intros c Hc.
    all: assert (HP : Forall (fun x => wfb x = true -> (forall s, occurs s x -> head_copy s = true) -> copyable x = true) (components _))
           by (apply components_Forall; simpl; auto).
    all: rewrite Forall_forall in HP; apply (HP c Hc (F c Hc)); intros s0 O; apply Hs; eapply occ_in; eauto.
Qed.

Lemma droppable_leaves : forall t, wfb t = true ->
  (droppable t = true <-> forall s, occurs s t -> head_drop s = true).
Proof.
  intros t W. split.
  - intros C s O. pose proof (droppable_occurs _ _ O W C) as Cs.
    rewrite (droppable_step _ (occurs_wfb _ _ O W)) in Cs. apply andb_prop in Cs. tauto.
  - revert W. induction t using ty_ind'; intros W Hs; rewrite (droppable_step _ W);
      (rewrite (Hs _ (occ_here _)); simpl; auto).
    all: pose proof (wfb_components _ W) as F; rewrite Forall_forall in F.
    all: apply forallb_forall; intros c Hc.
    all: assert (HP : Forall (fun x => wfb x = true -> (forall s, occurs s x -> head_drop s = true) -> droppable x = true) (components _))
           by (apply components_Forall; simpl; auto).
    all: rewrite Forall_forall in HP; apply (HP c Hc (F c Hc)); intros s0 O; apply Hs; eapply occ_in; eauto.
Qed.
