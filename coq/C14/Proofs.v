(** C14 — lemmas.  All statements are about the definitions of Model.v, which are assembled
    from the generated rules of GenTyTable.v; a change of a rule in /repo changes the
    generated text and the lemma that depended on it stops checking. *)
From Coq Require Import List Bool String NArith Arith Lia.
From V.C14 Require Import Base GenTyTable Model.
Import ListNotations.
Open Scope string_scope.
Open Scope list_scope.

Lemma lookup_def_spec : forall defs name d, lookup_def defs name = Some d -> In d defs /\ od_name d = name.
Proof.
  induction defs as [|x r IH]; simpl; intros name d H; [discriminate|].
  destruct (String.eqb (od_name x) name) eqn:E.
  - inversion H; subst. split; auto. apply String.eqb_eq; auto.
  - destruct (IH _ _ H); auto.
Qed.

Arguments lookup_def : simpl never.
Arguments the_def : simpl never.

(* ---------------------------------------------------------------- induction on types *)
Section ty_ind_nested.
  Variable P : ty -> Prop.
  Hypothesis HNone : P TNone.
  Hypothesis HNum : forall k, P (TNum k).
  Hypothesis HVarr : forall i c d, P (TVar i c d).
  Hypothesis HFunn : forall ins out, Forall P ins -> P out -> P (TFun ins out).
  Hypothesis HTuple : forall els, Forall P els -> P (TTuple els).
  Hypothesis HOpaquee : forall n args, Forall P (type_args args) -> P (TOpaque n args).
  Hypothesis HStruct : forall s args fields, Forall P (type_args args) -> Forall P fields -> P (TStruct s args fields).

  Fixpoint ty_ind' (t : ty) : P t :=
    let list_rec := (fix go (l : list ty) : Forall P l :=
                       match l with [] => Forall_nil P | x :: r => Forall_cons x (ty_ind' x) (go r) end) in
    let args_rec := (fix go (l : list (arg ty)) : Forall P (type_args l) :=
                       match l return Forall P (type_args l) with
                       | [] => Forall_nil P
                       | ATy x :: r => Forall_cons x (ty_ind' x) (go r)
                       | AConst _ :: r => go r
                       | AConstVar _ :: r => go r
                       end) in
    match t with
    | TNone => HNone
    | TNum k => HNum k
    | TVar i c d => HVarr i c d
    | TFun ins out => HFunn ins out (list_rec ins) (ty_ind' out)
    | TTuple els => HTuple els (list_rec els)
    | TOpaque n args => HOpaquee n args (args_rec args)
    | TStruct s args fields => HStruct s args fields (args_rec args) (list_rec fields)
    end.
End ty_ind_nested.

(* ---------------------------------------------------------------- small list facts *)
Lemma forallb_args_copy : forall (f : ty -> tinfo) (g : tinfo -> bool) args,
  forallb (fun a => negb (av_is_type a) || match a with AVType i => g i | AVConst => false end)
          (map (fun a => match a with ATy t => AVType (f t) | _ => AVConst end) args)
  = forallb (fun t => g (f t)) (type_args args).
Proof.
  induction args as [|a r IH]; simpl; auto. destruct a; simpl; rewrite IH; auto.
Qed.

Lemma forallb_els : forall (f : ty -> tinfo) (g : tinfo -> bool) els,
  forallb (fun a => negb (av_is_type a) || match a with AVType i => g i | AVConst => false end)
          (map (fun e => AVType (f e)) els)
  = forallb (fun t => g (f t)) els.
Proof. induction els as [|a r IH]; simpl; auto. rewrite IH; auto. Qed.

Lemma forallb_map : forall {A B} (f : A -> B) (g : B -> bool) l, forallb g (map f l) = forallb (fun x => g (f x)) l.
Proof. induction l; simpl; auto. rewrite IHl; auto. Qed.

Lemma forallb_app' : forall {A} (f : A -> bool) l1 l2, forallb f (l1 ++ l2) = forallb f l1 && forallb f l2.
Proof. induction l1; simpl; auto. intros. rewrite IHl1, andb_assoc. auto. Qed.

(* ---------------------------------------------------------------- the table of definitions *)
(* intrinsic rules of the property: qubit neither copyable nor droppable, array never
   copyable, no other builtin restricts; and no definition overrides the HUGR bound *)
Definition def_matches_rules (d : odef) : bool :=
  Bool.eqb (od_never_copyable d) (String.eqb (od_name d) "qubit" || String.eqb (od_name d) "array")
  && Bool.eqb (od_never_droppable d) (String.eqb (od_name d) "qubit")
  && match od_bound d with None => true | Some _ => false end.

Lemma table_matches_rules : forallb def_matches_rules gen_opaque_defs = true.
Proof. vm_compute. reflexivity. Qed.


Lemma known_def_rules : forall name d, lookup_def gen_opaque_defs name = Some d ->
  od_never_copyable d = (String.eqb name "qubit" || String.eqb name "array") /\
  od_never_droppable d = String.eqb name "qubit" /\ od_bound d = None.
Proof.
  intros name d H. destruct (lookup_def_spec _ _ _ H) as [Hin Hn].
  pose proof table_matches_rules as T. rewrite forallb_forall in T. specialize (T _ Hin).
  unfold def_matches_rules in T. rewrite Hn in T.
  apply andb_prop in T; destruct T as [T T3]. apply andb_prop in T; destruct T as [T1 T2].
  apply Bool.eqb_prop in T1. apply Bool.eqb_prop in T2. destruct (od_bound d); [discriminate T3|]. auto.
Qed.

Lemma wfb_known : forall name args, wfb (TOpaque name args) = true ->
  exists d, lookup_def gen_opaque_defs name = Some d /\ the_def name = d.
Proof.
  intros name args H. simpl in H. apply andb_prop in H; destruct H as [_ H].
  unfold the_def. destruct (lookup_def gen_opaque_defs name) as [d|]; [|discriminate]. eauto.
Qed.

Lemma wfb_components : forall t, wfb t = true -> Forall (fun c => wfb c = true) (components t).
Proof.
  destruct t; simpl; intros H; auto.
  - apply Forall_forall. rewrite forallb_forall in H. auto.
  - apply andb_prop in H; destruct H as [H _]. clear name.
    induction args as [|a r IH]; simpl in *; auto. destruct a; simpl in *; auto.
    apply andb_prop in H; destruct H. constructor; auto.
  - apply andb_prop in H; destruct H as [Ha Hf]. apply Forall_app. split.
    + apply Forall_forall. rewrite forallb_forall in Hf. auto.
    + clear Hf. induction args as [|a r IH]; simpl in *; auto. destruct a; simpl in *; auto.
      apply andb_prop in Ha; destruct Ha. constructor; auto.
Qed.

(* ---------------------------------------------------------------- one-step structure *)
Lemma copyable_step : forall t, wfb t = true ->
  copyable t = head_copy t && forallb copyable (components t).
Proof.
  intros t W. destruct t as [| k | i c d | ins out | els | name args | s args fields]; try reflexivity.
  - unfold copyable; simpl. destruct c; reflexivity.
  - unfold copyable; simpl. unfold gen_TupleType_copyable, gen_TupleType_intrinsically_copyable.
    simpl. rewrite (forallb_els info ti_copyable). reflexivity.
  - destruct (wfb_known _ _ W) as [d [L D]]. destruct (known_def_rules _ _ L) as [Hc _].
    unfold copyable; simpl. rewrite D.
    unfold gen_OpaqueType_copyable, gen_OpaqueType_intrinsically_copyable.
    rewrite Hc, (forallb_args_copy info ti_copyable). rewrite negb_orb. reflexivity.
  - unfold copyable; simpl.
    unfold gen_StructType_copyable, gen_StructType_intrinsically_copyable.
    rewrite (forallb_args_copy info ti_copyable), forallb_map, forallb_app'. reflexivity.
Qed.

Lemma droppable_step : forall t, wfb t = true ->
  droppable t = head_drop t && forallb droppable (components t).
Proof.
  intros t W. destruct t as [| k | i c d | ins out | els | name args | s args fields]; try reflexivity.
  - unfold droppable; simpl. destruct d; reflexivity.
  - unfold droppable; simpl. unfold gen_TupleType_droppable, gen_TupleType_intrinsically_droppable.
    simpl. rewrite (forallb_els info ti_droppable). reflexivity.
  - destruct (wfb_known _ _ W) as [d [L D]]. destruct (known_def_rules _ _ L) as [_ [Hd _]].
    unfold droppable; simpl. rewrite D.
    unfold gen_OpaqueType_droppable, gen_OpaqueType_intrinsically_droppable.
    rewrite Hd, (forallb_args_copy info ti_droppable). reflexivity.
  - unfold droppable; simpl.
    unfold gen_StructType_droppable, gen_StructType_intrinsically_droppable.
    rewrite (forallb_args_copy info ti_droppable), forallb_map, forallb_app'. reflexivity.
Qed.

(* ---------------------------------------------------------------- occurrence form *)
Lemma occurs_wfb : forall s t, occurs s t -> wfb t = true -> wfb s = true.
Proof.
  induction 1; auto. intros W. apply IHoccurs.
  pose proof (wfb_components _ W) as F. rewrite Forall_forall in F. auto.
Qed.

Lemma copyable_occurs : forall s t, occurs s t -> wfb t = true -> copyable t = true -> copyable s = true.
Proof.
  induction 1; auto. intros W C. 
  pose proof (wfb_components _ W) as F. rewrite Forall_forall in F.
  rewrite (copyable_step _ W) in C. apply andb_prop in C; destruct C as [_ C].
  rewrite forallb_forall in C. auto.
Qed.

Lemma droppable_occurs : forall s t, occurs s t -> wfb t = true -> droppable t = true -> droppable s = true.
Proof.
  induction 1; auto. intros W C. 
  pose proof (wfb_components _ W) as F. rewrite Forall_forall in F.
  rewrite (droppable_step _ W) in C. apply andb_prop in C; destruct C as [_ C].
  rewrite forallb_forall in C. auto.
Qed.

Lemma components_Forall : forall (P : ty -> Prop) t,
  match t with
  | TTuple els => Forall P els
  | TOpaque _ args => Forall P (type_args args)
  | TStruct _ args fields => Forall P (type_args args) /\ Forall P fields
  | _ => True end -> Forall P (components t).
Proof. destruct t; simpl; auto. intros [A B]. apply Forall_app; auto. Qed.

Lemma copyable_leaves : forall t, wfb t = true ->
  (copyable t = true <-> forall s, occurs s t -> head_copy s = true).
Proof.
  intros t W. split.
  - intros C s O. pose proof (copyable_occurs _ _ O W C) as Cs.
    rewrite (copyable_step _ (occurs_wfb _ _ O W)) in Cs. apply andb_prop in Cs. tauto.
  - revert W. induction t using ty_ind'; intros W Hs; rewrite (copyable_step _ W);
      (rewrite (Hs _ (occ_here _)); simpl; auto).
    all: pose proof (wfb_components _ W) as F; rewrite Forall_forall in F.
    all: apply forallb_forall; intros c Hc.
    + rewrite Forall_forall in H. apply (H c Hc (F c Hc)). intros s0 O. apply Hs. eapply occ_in; eauto.
    + rewrite Forall_forall in H. apply (H c Hc (F c Hc)). intros s0 O. apply Hs. eapply occ_in; eauto.
    + assert (HP : Forall (fun x => wfb x = true -> (forall s, occurs s x -> head_copy s = true) -> copyable x = true) (fields ++ type_args args))
        by (apply Forall_app; auto).
      rewrite Forall_forall in HP. apply (HP c Hc (F c Hc)). intros s0 O. apply Hs. eapply occ_in; eauto.
Qed.

Lemma droppable_leaves : forall t, wfb t = true ->
  (droppable t = true <-> forall s, occurs s t -> head_drop s = true).
Proof.
  intros t W. split.
  - intros C s O. pose proof (droppable_occurs _ _ O W C) as Cs.
    rewrite (droppable_step _ (occurs_wfb _ _ O W)) in Cs. apply andb_prop in Cs. tauto.
  - revert W. induction t using ty_ind'; intros W Hs; rewrite (droppable_step _ W);
      (rewrite (Hs _ (occ_here _)); simpl; auto).
    all: pose proof (wfb_components _ W) as F; rewrite Forall_forall in F.
    all: apply forallb_forall; intros c Hc.
    + rewrite Forall_forall in H. apply (H c Hc (F c Hc)). intros s0 O. apply Hs. eapply occ_in; eauto.
    + rewrite Forall_forall in H. apply (H c Hc (F c Hc)). intros s0 O. apply Hs. eapply occ_in; eauto.
    + assert (HP : Forall (fun x => wfb x = true -> (forall s, occurs s x -> head_drop s = true) -> droppable x = true) (fields ++ type_args args))
        by (apply Forall_app; auto).
      rewrite Forall_forall in HP. apply (HP c Hc (F c Hc)). intros s0 O. apply Hs. eapply occ_in; eauto.
Qed.


(* ---------------------------------------------------------------- Guppy-side hugr_bound *)
Lemma base_bound : forall c d : bool,
  (if (negb c && negb d) || (negb c && d) then Linear else Copyable) = if c then Copyable else Linear.
Proof. destruct c, d; reflexivity. Qed.

Lemma bound_join_cons : forall b bs,
  bound_join (b :: bs) = Copyable <-> b = Copyable /\ forallb (fun x => bound_eqb x Copyable) bs = true.
Proof.
  intros b bs. unfold bound_join. simpl.
  assert (E : existsb is_linear_bound bs = negb (forallb (fun x => bound_eqb x Copyable) bs)).
  { induction bs as [|x r IH]; simpl; auto. rewrite IH. destruct x; simpl; auto. }
  rewrite E. destruct b; simpl; destruct (forallb _ bs); simpl; split; intros; try tauto; try discriminate;
    destruct H; try discriminate; auto.
Qed.

Lemma bounds_of_args : forall args,
  map av_hugr_bound (filter av_is_type (map (fun a => match a with ATy t => AVType (info t) | _ => AVConst end) args))
  = map hugr_bound (type_args args).
Proof. induction args as [|a r IH]; simpl; auto. destruct a; simpl; auto. rewrite IH. reflexivity. Qed.

Lemma bounds_of_els : forall els,
  map av_hugr_bound (filter av_is_type (map (fun e => AVType (info e)) els)) = map hugr_bound els.
Proof. induction els as [|a r IH]; simpl; auto. rewrite IH. reflexivity. Qed.

Lemma Forall_forallb_iff : forall (f g : ty -> bool) l,
  Forall (fun x => f x = true <-> g x = true) l -> forallb f l = forallb g l.
Proof.
  induction 1; simpl; auto. rewrite IHForall. destruct (f x), (g x); auto; destruct H; 
  try (discriminate (H eq_refl)); try (discriminate (H1 eq_refl)).
Qed.

Lemma hugr_bound_matches_copyable : forall t, wfb t = true ->
  (hugr_bound t = Copyable <-> copyable t = true).
Proof.
  induction t using ty_ind'; intros W; try (unfold hugr_bound, copyable; simpl; tauto).
  - unfold hugr_bound, copyable; simpl. destruct c, d; simpl; split; auto; discriminate.
  - (* tuple *)
    pose proof (copyable_step _ W) as CS. simpl in CS.
    pose proof (wfb_components _ W) as F. simpl in F.
    unfold hugr_bound at 1. simpl. unfold gen_TupleType_hugr_bound, gen_TupleType_hugr_bound__TypeBase,
      gen_TupleType_linear, gen_TupleType_affine.
    rewrite base_bound, bounds_of_els, bound_join_cons.
    change (gen_TupleType_copyable (map (fun e => AVType (info e)) els)) with (copyable (TTuple els)).
    rewrite forallb_map.
    assert (E : forallb (fun x => bound_eqb (hugr_bound x) Copyable) els = forallb copyable els).
    { apply Forall_forallb_iff. rewrite Forall_forall in *. intros x Hx.
      specialize (H x Hx (F x Hx)). destruct (hugr_bound x); simpl; split; intros; auto; try discriminate.
      - apply H; auto. - destruct H as [_ H]. discriminate (H H0). }
    rewrite E, CS. destruct (forallb copyable els); simpl; split; intros; try tauto; try discriminate;
    try (destruct H0; discriminate).
  - (* opaque *)
    pose proof (copyable_step _ W) as CS. change (components (TOpaque n args)) with (type_args args) in CS.
    pose proof (wfb_components _ W) as F. simpl in F.
    destruct (wfb_known _ _ W) as [d [L D]]. destruct (known_def_rules _ _ L) as [_ [_ Hb]].
    unfold hugr_bound at 1. simpl. rewrite D. unfold gen_OpaqueType_hugr_bound. rewrite Hb.
    unfold gen_OpaqueType_hugr_bound__ParametrizedTypeBase, gen_OpaqueType_hugr_bound__TypeBase,
      gen_OpaqueType_linear, gen_OpaqueType_affine.
    assert (EC : gen_OpaqueType_copyable d (map (fun a => match a with ATy t => AVType (info t) | _ => AVConst end) args)
                 = copyable (TOpaque n args)) by (unfold copyable; simpl; rewrite D; reflexivity).
    rewrite base_bound, bounds_of_args, bound_join_cons, EC.
    rewrite forallb_map.
    assert (E : forallb (fun x => bound_eqb (hugr_bound x) Copyable) (type_args args) = forallb copyable (type_args args)).
    { apply Forall_forallb_iff. rewrite Forall_forall in *. intros x Hx.
      specialize (H x Hx (F x Hx)). destruct (hugr_bound x); simpl; split; intros; auto; try discriminate.
      - apply H; auto. - destruct H as [_ H]. discriminate (H H0). }
    rewrite E, CS. destruct (forallb copyable (type_args args)); rewrite ?andb_true_r, ?andb_false_r;
      destruct (head_copy (TOpaque n args)); simpl; split; intros; try tauto; try discriminate;
      try (destruct H0; discriminate).
  - (* struct *)
    pose proof (copyable_step _ W) as CS. simpl in CS.
    pose proof (wfb_components _ W) as F. simpl in F. apply Forall_app in F. destruct F as [Ff Fa].
    unfold hugr_bound at 1. simpl. unfold gen_StructType_hugr_bound, gen_StructType_hugr_bound__TypeBase,
      gen_StructType_linear, gen_StructType_affine.
    rewrite base_bound, bounds_of_args, bound_join_cons.
    match goal with |- context [if ?c then Copyable else Linear] => change c with (copyable (TStruct s args fields)) end.
    rewrite forallb_map.
    assert (E : forallb (fun x => bound_eqb (hugr_bound x) Copyable) (type_args args) = forallb copyable (type_args args)).
    { apply Forall_forallb_iff. rewrite Forall_forall in *. intros x Hx.
      specialize (H x Hx (Fa x Hx)). destruct (hugr_bound x); simpl; split; intros; auto; try discriminate.
      - apply H; auto. - destruct H as [_ H]. discriminate (H H1). }
    rewrite E, CS, forallb_app'. destruct (forallb copyable (type_args args)); rewrite ?andb_true_r, ?andb_false_r;
      destruct (forallb copyable fields); simpl; split; intros; try tauto; try discriminate;
      try (destruct H1; discriminate).
Qed.

(* ---------------------------------------------------------------- HUGR side equations *)
Lemma tb_tuple : forall hs, type_bound (h_tuple hs) = bound_join (map type_bound hs).
Proof. intros. unfold h_tuple. simpl. rewrite app_nil_r. reflexivity. Qed.

Lemma tb_option : forall h, type_bound (h_option h) = type_bound h.
Proof. intros. unfold h_option, bound_join. simpl. destruct (type_bound h); reflexivity. Qed.

Lemma tb_list : forall h, type_bound (HExt "collections.list.List" [HTy h]) = type_bound h.
Proof. intros. unfold bound_join. simpl. destruct (type_bound h); reflexivity. Qed.

Lemma tb_barray : forall a h, type_bound (HExt "collections.borrow_arr.borrow_array" [a; HTy h]) = Linear.
Proof. reflexivity. Qed.

Lemma tb_static : forall h, type_bound (HExt "collections.static_array.static_array" [HTy h]) = Copyable.
Proof. reflexivity. Qed.

Lemma rd_tuple : forall hs, requires_drop (h_tuple hs) = existsb requires_drop hs.
Proof.
  intros. unfold h_tuple. simpl. unfold gen_requires_drop_Sum. simpl. rewrite app_nil_r.
  induction hs; simpl; auto. rewrite IHhs. reflexivity.
Qed.

Lemma rd_option : forall h, requires_drop (h_option h) = requires_drop h.
Proof. intros. unfold h_option. simpl. unfold gen_requires_drop_Sum. simpl. rewrite orb_false_r. reflexivity. Qed.

Lemma rd_list : forall h, requires_drop (HExt "collections.list.List" [HTy h]) = requires_drop h.
Proof. intros. simpl. unfold gen_requires_drop_ExtType. simpl. rewrite orb_false_r. reflexivity. Qed.

Lemma rd_barray : forall a h, requires_drop (HExt "collections.borrow_arr.borrow_array" [a; HTy h]) = true.
Proof. reflexivity. Qed.

Lemma rd_static : forall h, requires_drop (HExt "collections.static_array.static_array" [HTy h]) = requires_drop h.
Proof. intros. simpl. unfold gen_requires_drop_ExtType. simpl. rewrite orb_false_r. reflexivity. Qed.

(* ---------------------------------------------------------------- the translation invariant *)
Definition Q (t : ty) (h : hty) : Prop :=
  (type_bound h = Copyable <-> copyable t = true) /\
  (requires_drop h = true -> copyable t = false) /\
  (copyable t = false -> droppable t = true -> requires_drop h = true).

Definition Inv (t : ty) : Prop :=
  wfb t = true -> witnessedb t = true -> exists h, to_hugr t = Some h /\ Q t h.

Lemma all_some_Forall2 : forall ts,
  Forall (fun t => exists h, to_hugr t = Some h /\ Q t h) ts ->
  exists hs, all_some (map to_hugr ts) = Some hs /\ Forall2 Q ts hs.
Proof.
  induction 1 as [|t r [h [E q]] _ [hs [Ehs F]]]; simpl.
  - exists []. auto.
  - rewrite E, Ehs. exists (h :: hs). auto.
Qed.

Lemma Q_bounds : forall ts hs, Forall2 Q ts hs ->
  forallb (fun x => bound_eqb x Copyable) (map type_bound hs) = forallb copyable ts.
Proof.
  induction 1 as [|t h ts hs [q _] _ IH]; simpl; auto. rewrite IH.
  destruct (type_bound h), (copyable t); simpl; auto; destruct q as [q1 q2];
    try (discriminate (q1 eq_refl)); try (discriminate (q2 eq_refl)).
Qed.

Lemma Q_rd_sound : forall ts hs, Forall2 Q ts hs ->
  existsb requires_drop hs = true -> forallb copyable ts = false.
Proof.
  induction 1 as [|t h ts hs [_ [q _]] _ IH]; simpl; intros E; [discriminate|].
  apply orb_prop in E. destruct E as [E|E].
  - rewrite (q E). reflexivity.
  - rewrite (IH E). apply andb_false_r.
Qed.

Lemma Q_rd_complete : forall ts hs, Forall2 Q ts hs ->
  forallb copyable ts = false -> forallb droppable ts = true -> existsb requires_drop hs = true.
Proof.
  induction 1 as [|t h ts hs [_ [_ q]] _ IH]; simpl; intros C D; [discriminate|].
  apply andb_prop in D. destruct D as [D1 D2].
  destruct (copyable t) eqn:Ct.
  - simpl in C. rewrite (IH C D2). apply orb_true_r.
  - rewrite (q eq_refl D1). reflexivity.
Qed.

Lemma join_all : forall bs, bound_join bs = Copyable <-> forallb (fun x => bound_eqb x Copyable) bs = true.
Proof.
  intros bs. unfold bound_join.
  assert (E : existsb is_linear_bound bs = negb (forallb (fun x => bound_eqb x Copyable) bs)).
  { induction bs as [|x r IH]; simpl; auto. rewrite IH. destruct x; simpl; auto. }
  rewrite E. destruct (forallb _ bs); simpl; split; auto; discriminate.
Qed.

Lemma Q_tuple : forall t ts hs, Forall2 Q ts hs ->
  copyable t = forallb copyable ts ->
  (forallb copyable ts = false -> droppable t = true -> forallb droppable ts = true) ->
  Q t (h_tuple hs).
Proof.
  intros t ts hs F C D. unfold Q. rewrite tb_tuple, rd_tuple, join_all, (Q_bounds _ _ F), C.
  split; [tauto|]. split.
  - apply (Q_rd_sound _ _ F).
  - intros C' D'. apply (Q_rd_complete _ _ F); auto.
Qed.

Lemma wfb_args_fit : forall name args d, wfb (TOpaque name args) = true ->
  lookup_def gen_opaque_defs name = Some d ->
  args_fit (od_params d) (map (fun a => match a with
                                        | ATy c => Some (copyable c, droppable c)
                                        | _ => None end) args) = true.
Proof.
  intros name args d W L. simpl in W. apply andb_prop in W. destruct W as [_ W]. rewrite L in W. exact W.
Qed.

Lemma Forall_type_args_1 : forall (P : ty -> Prop) t r, Forall P (type_args (ATy t :: r)) -> P t.
Proof. intros P t r H. simpl in H. inversion H; auto. Qed.

Ltac args_shape W :=
  repeat match type of W with
  | args_fit _ (map _ ?a) = true =>
      destruct a as [|[?t|?n|?i] ?r]; simpl in W; try discriminate W
  end.

Lemma Inv_opaque : forall name args, Forall Inv (type_args args) -> Inv (TOpaque name args).
Proof.
  intros name args IH W Wit.
  destruct (wfb_known _ _ W) as [d [L D]].
  pose proof (wfb_args_fit _ _ _ W L) as AF.
  pose proof (wfb_components _ W) as WC. simpl in WC.
  pose proof (copyable_step _ W) as CS. pose proof (droppable_step _ W) as DS.
  assert (WitC : Forall (fun c => witnessedb c = true) (type_args args)).
  { clear - Wit. simpl in Wit. induction args as [|a r IHr]; simpl in *; auto.
    destruct a; simpl in *; auto. apply andb_prop in Wit. destruct Wit. constructor; auto. }
  destruct (lookup_def_spec _ _ _ L) as [Hin Hname]. subst name.
  simpl in Hin.
  repeat (destruct Hin as [Hin|Hin]; [subst d; simpl in AF, CS, DS, L |- *|]); try contradiction.
  - (* bool *) destruct args; [|discriminate AF]. simpl. rewrite ?L. simpl. eexists; split; [reflexivity|].
    unfold Q. rewrite CS. simpl. unfold gen_requires_drop_ExtType. simpl. split; [tauto|]. split; intros; discriminate.
  - (* str *) destruct args; [|discriminate AF]. simpl. rewrite ?L. simpl. eexists; split; [reflexivity|].
    unfold Q. rewrite CS. simpl. unfold gen_requires_drop_ExtType. simpl. split; [tauto|]. split; intros; discriminate.
  - (* list *)
    destruct args as [|[t|n|i] [|a r]]; simpl in AF; try discriminate AF.
    simpl in WC, WitC, IH. inversion WC; subst. inversion WitC; subst. inversion IH; subst.
    destruct (H5 H1 H3) as [h [E [q1 [q2 q3]]]].
    simpl. rewrite E, ?L. simpl. eexists; split; [reflexivity|].
    simpl in CS, DS. rewrite andb_true_r in CS, DS. unfold Q. rewrite tb_list, rd_list, CS, DS.
    assert (TB : forall b : bool, type_bound (if b then h_option h else h) = type_bound h)
      by (intros []; [apply tb_option|reflexivity]).
    assert (RD : forall b : bool, requires_drop (if b then h_option h else h) = requires_drop h)
      by (intros []; [apply rd_option|reflexivity]).
    rewrite TB, RD. repeat split; auto; tauto.
  - (* array *)
    destruct args as [|[t|n|i] [|[t'|n'|i'] [|a r]]]; simpl in AF; rewrite ?andb_false_r in AF; try discriminate AF.
    all: simpl in WC, WitC, IH; inversion WC; subst; inversion WitC; subst; inversion IH; subst.
    all: destruct (H5 H1 H3) as [h [E [q1 [q2 q3]]]].
    all: simpl; rewrite E, ?L; simpl; eexists; (split; [reflexivity|]).
    all: simpl in CS; unfold Q; rewrite tb_barray, rd_barray, CS; repeat split; auto; intros; discriminate.
  - (* frozenarray *)
    destruct args as [|[t|n|i] [|[t'|n'|i'] [|a r]]]; simpl in AF; rewrite ?andb_false_r in AF; try discriminate AF.
    all: simpl in WC, WitC, IH; inversion WC; subst; inversion WitC; subst; inversion IH; subst.
    all: destruct (H5 H1 H3) as [h [E [q1 [q2 q3]]]].
    all: simpl; rewrite E, ?L; simpl; eexists; (split; [reflexivity|]).
    all: simpl in CS, DS; rewrite andb_true_r in CS, DS; unfold Q; rewrite tb_static, rd_static, CS, DS.
    all: rewrite !andb_true_r in AF; apply andb_prop in AF; destruct AF as [AF1 AF2].
    all: rewrite AF1, AF2 in *; repeat split; auto; intros; try discriminate.
  - (* SizedIter *)
    destruct args as [|[t|n|i] [|[t'|n'|i'] [|a r]]]; simpl in AF; rewrite ?andb_false_r in AF; try discriminate AF.
    all: simpl in WC, WitC, IH; inversion WC; subst; inversion WitC; subst; inversion IH; subst.
    all: destruct (H5 H1 H3) as [h [E [q1 [q2 q3]]]].
    all: simpl; rewrite E, ?L; simpl; eexists; (split; [reflexivity|]).
    all: simpl in CS, DS; rewrite andb_true_r in CS, DS; unfold Q; rewrite CS, DS; repeat split; auto; tauto.
  - (* Option *)
    destruct args as [|[t|n|i] [|a r]]; simpl in AF; try discriminate AF.
    simpl in WC, WitC, IH. inversion WC; subst. inversion WitC; subst. inversion IH; subst.
    destruct (H5 H1 H3) as [h [E [q1 [q2 q3]]]].
    simpl. rewrite E, ?L. simpl. eexists; split; [reflexivity|].
    simpl in CS, DS. rewrite andb_true_r in CS, DS. unfold Q. rewrite tb_option, rd_option, CS, DS.
    repeat split; auto; tauto.
  - (* qubit *) destruct args; [|discriminate AF]. simpl. rewrite ?L. simpl. eexists; split; [reflexivity|].
    unfold Q. rewrite CS, DS. simpl. repeat split; auto; intros; discriminate.
Qed.

Lemma Forall_Inv_apply : forall ts, Forall Inv ts ->
  Forall (fun c => wfb c = true) ts -> Forall (fun c => witnessedb c = true) ts ->
  Forall (fun t => exists h, to_hugr t = Some h /\ Q t h) ts.
Proof.
  induction 1; intros W1 W2; constructor; inversion W1; inversion W2; subst; auto.
Qed.

Lemma forallb_Forall' : forall {A} (f : A -> bool) l, forallb f l = true -> Forall (fun x => f x = true) l.
Proof. intros. apply Forall_forall. rewrite forallb_forall in H. auto. Qed.

Lemma droppable_all_of_step : forall b l, b && forallb droppable l = true -> forallb droppable l = true.
Proof. intros. apply andb_prop in H. tauto. Qed.

Lemma Inv_all : forall t, Inv t.
Proof.
  induction t using ty_ind'.
  - intros _ _. eexists; split; [reflexivity|]. unfold Q. repeat split; auto; intros; discriminate.
  - intros _ _. eexists; split; [reflexivity|]. destruct k; unfold Q; repeat split; auto; intros; discriminate.
  - intros _ _. eexists; split; [reflexivity|]. unfold Q, copyable, droppable. simpl.
    destruct c, d; simpl; repeat split; auto; intros; discriminate.
  - intros _ _. eexists; split; [reflexivity|]. unfold Q. repeat split; auto; intros; discriminate.
  - (* tuple *)
    intros W Wit. pose proof (wfb_components _ W) as WC. simpl in WC.
    assert (WitC : Forall (fun c => witnessedb c = true) els) by (apply forallb_Forall'; exact Wit).
    destruct (all_some_Forall2 _ (Forall_Inv_apply _ H WC WitC)) as [hs [E F]].
    simpl. rewrite E. simpl. eexists; split; [reflexivity|].
    pose proof (copyable_step _ W) as CS. pose proof (droppable_step _ W) as DS. simpl in CS, DS.
    apply (Q_tuple _ els hs F CS). intros _ D. rewrite DS in D. exact D.
  - apply Inv_opaque; auto.
  - (* struct *)
    intros W Wit. pose proof (wfb_components _ W) as WC. simpl in WC. apply Forall_app in WC. destruct WC as [WCf WCa].
    simpl in Wit. apply andb_prop in Wit. destruct Wit as [Wit Wimp]. apply andb_prop in Wit. destruct Wit as [_ Witf].
    assert (WitC : Forall (fun c => witnessedb c = true) fields) by (apply forallb_Forall'; exact Witf).
    destruct (all_some_Forall2 _ (Forall_Inv_apply _ H0 WCf WitC)) as [hs [E F]].
    simpl. rewrite E. simpl. eexists; split; [reflexivity|].
    pose proof (copyable_step _ W) as CS. pose proof (droppable_step _ W) as DS. simpl in CS, DS.
    rewrite forallb_app' in CS, DS.
    assert (WA : forallb copyable fields = true -> forallb copyable (type_args args) = true).
    { intros Cf. change (forallb (fun f => ti_copyable (info f)) fields) with (forallb copyable fields) in Wimp.
      rewrite Cf in Wimp. simpl in Wimp. clear - Wimp.
      induction args as [|a r IH]; simpl in *; auto. destruct a; simpl in *; auto.
      apply andb_prop in Wimp. destruct Wimp as [A B]. unfold copyable at 1. rewrite A. auto. }
    apply (Q_tuple _ fields hs F).
    + rewrite CS. destruct (forallb copyable fields); simpl; auto; try (rewrite WA; auto).
    + intros _ D. rewrite DS in D. apply andb_prop in D. tauto.
Qed.

(* ---------------------------------------------------------------- the drop-insertion pass *)
(* specification-side predicate: an out-port that is a value of a type needing a drop and has no link *)
Definition port_needs (p : port) : bool :=
  Nat.eqb (p_links p) 0 && match p_kind p with KValue t => requires_drop t | KOther => false end.

Definition drops_at (i j : nat) (ds : list drop) : list drop :=
  filter (fun d => Nat.eqb (d_node d) i && Nat.eqb (d_port d) j) ds.

Definition expected_drop (i j : nat) (p : port) : list drop :=
  if port_needs p then match p_kind p with KValue t => [mkDrop i j t] | KOther => [] end else [].

Lemma port_gets_drop_spec : forall p, port_gets_drop p = port_needs p.
Proof.
  intros [k l]. unfold port_gets_drop, port_needs, gen_insert_drops_cond. simpl.
  destruct k; simpl; rewrite ?andb_true_r, ?andb_false_r; reflexivity.
Qed.

Lemma drops_at_app : forall i j a b, drops_at i j (a ++ b) = drops_at i j a ++ drops_at i j b.
Proof. intros. unfold drops_at. apply filter_app. Qed.

Lemma drops_at_none : forall i j ds, (forall d, In d ds -> d_node d <> i \/ d_port d <> j) -> drops_at i j ds = [].
Proof.
  induction ds as [|d r IH]; simpl; intros H; auto.
  destruct (H d (or_introl eq_refl)) as [N|N].
  - apply Nat.eqb_neq in N. rewrite N. simpl. apply IH. intros; apply H; auto.
  - apply Nat.eqb_neq in N. rewrite N, andb_false_r. apply IH. intros; apply H; auto.
Qed.

Lemma drop_port_drops : forall ni pi p, snd (drop_port ni pi p) = expected_drop ni pi p.
Proof.
  intros. unfold drop_port, expected_drop. rewrite port_gets_drop_spec. destruct (port_needs p); reflexivity.
Qed.

Lemma drop_ports_range : forall ps ni pi d, In d (snd (drop_ports ni pi ps)) -> d_node d = ni /\ pi <= d_port d.
Proof.
  induction ps as [|p r IH]; simpl; intros ni pi d H; [contradiction|].
  pose proof (drop_port_drops ni pi p) as DP.
  destruct (drop_port ni pi p) as [p' dd]. destruct (drop_ports ni (S pi) r) as [r' ds] eqn:E. simpl in *.
  apply in_app_or in H. destruct H as [H|H].
  - subst dd. unfold expected_drop in H. destruct (port_needs p); [|contradiction].
    destruct (p_kind p); [|contradiction]. destruct H as [H|[]]. subst d. simpl. lia.
  - specialize (IH ni (S pi) d). rewrite E in IH. destruct (IH H). lia.
Qed.

Lemma drop_ports_nth : forall ps ni pi j p, nth_error ps j = Some p ->
  exists p', nth_error (fst (drop_ports ni pi ps)) j = Some p' /\ p_kind p' = p_kind p /\
    drops_at ni (pi + j) (snd (drop_ports ni pi ps)) = expected_drop ni (pi + j) p /\
    p_links p' = p_links p + List.length (expected_drop ni (pi + j) p).
Proof.
  induction ps as [|q r IH]; intros ni pi j p H; [destruct j; discriminate|].
  simpl. pose proof (drop_port_drops ni pi q) as DP.
  pose proof (drop_ports_range r ni (S pi)) as RG.
  destruct (drop_port ni pi q) as [q' dd] eqn:EQ. destruct (drop_ports ni (S pi) r) as [r' ds] eqn:E. simpl in *.
  destruct j as [|j]; simpl in H.
  - inversion H; subst q. exists q'. simpl. rewrite Nat.add_0_r, drops_at_app.
    rewrite (drops_at_none ni pi ds) by (intros d Hd; destruct (RG d Hd); right; lia).
    rewrite app_nil_r. subst dd.
    assert (SELF : drops_at ni pi (expected_drop ni pi p) = expected_drop ni pi p).
    { unfold expected_drop. destruct (port_needs p); auto. destruct (p_kind p); auto.
      unfold drops_at. simpl. rewrite !Nat.eqb_refl. reflexivity. }
    unfold drop_port in EQ. rewrite port_gets_drop_spec in EQ. unfold expected_drop in *.
    destruct (port_needs p) eqn:PN; inversion EQ; subst; simpl; repeat split; auto.
    unfold port_needs in PN. destruct (p_kind p); [|rewrite andb_false_r in PN; discriminate].
    simpl. lia.
  - specialize (IH ni (S pi) j p H). rewrite E in IH. simpl in IH.
    destruct IH as [p' [N [K [DA LK]]]]. exists p'. simpl.
    replace (pi + S j) with (S pi + j) by lia. repeat split; auto.
    rewrite drops_at_app.
    rewrite (drops_at_none ni (S pi + j) dd); auto.
    intros d Hd. subst dd. unfold expected_drop in Hd. destruct (port_needs q); [|contradiction].
    destruct (p_kind q); [|contradiction]. destruct Hd as [Hd|[]]. subst d. simpl. right. lia.
Qed.

Lemma drop_nodes_range : forall ns ni d, In d (snd (drop_nodes ni ns)) -> ni <= d_node d.
Proof.
  induction ns as [|n r IH]; simpl; intros ni d H; [contradiction|].
  pose proof (drop_ports_range (n_out n) ni 0) as RG.
  destruct (gen_insert_drops_skip_node (n_funcdefn n)).
  - destruct (drop_nodes (S ni) r) as [r' ds] eqn:E. simpl in H. specialize (IH (S ni) d). rewrite E in IH. 
    specialize (IH H). lia.
  - destruct (drop_ports ni 0 (n_out n)) as [ps dd]. destruct (drop_nodes (S ni) r) as [r' ds] eqn:E. simpl in *.
    apply in_app_or in H. destruct H as [H|H].
    + destruct (RG d H). lia.
    + specialize (IH (S ni) d). rewrite E in IH. specialize (IH H). lia.
Qed.

Lemma drop_nodes_nth : forall ns ni i n j p,
  nth_error ns i = Some n -> nth_error (n_out n) j = Some p ->
  exists n' p', nth_error (fst (drop_nodes ni ns)) i = Some n' /\ n_funcdefn n' = n_funcdefn n /\
    nth_error (n_out n') j = Some p' /\ p_kind p' = p_kind p /\
    let exp := if n_funcdefn n then [] else expected_drop (ni + i) j p in
    drops_at (ni + i) j (snd (drop_nodes ni ns)) = exp /\ p_links p' = p_links p + List.length exp.
Proof.
  induction ns as [|m r IH]; intros ni i n j p Hn Hp; [destruct i; discriminate|].
  simpl. pose proof (drop_nodes_range r (S ni)) as RG.
  pose proof (drop_ports_range (n_out m) ni 0) as RP.
  destruct i as [|i]; simpl in Hn.
  - inversion Hn; subst m. rewrite Nat.add_0_r. unfold gen_insert_drops_skip_node.
    destruct (n_funcdefn n) eqn:FD.
    + destruct (drop_nodes (S ni) r) as [r' ds] eqn:E. simpl in *.
      exists n, p. rewrite FD. repeat split; auto; try (simpl; lia).
      apply drops_at_none. intros d Hd. specialize (RG d Hd). left. lia.
    + destruct (drop_ports_nth (n_out n) ni 0 j p Hp) as [p' [N [K [DA LK]]]].
      destruct (drop_ports ni 0 (n_out n)) as [ps dd]. destruct (drop_nodes (S ni) r) as [r' ds] eqn:E. simpl in *.
      exists (mkNode false ps), p'. simpl. repeat split; auto.
      rewrite drops_at_app, DA. rewrite (drops_at_none ni j ds); [apply app_nil_r|].
      intros d Hd. specialize (RG d Hd). left. lia.
  - destruct (IH (S ni) i n j p Hn Hp) as [n' [p' [N [F [NP [K [DA LK]]]]]]].
    replace (ni + S i) with (S ni + i) by lia.
    destruct (gen_insert_drops_skip_node (n_funcdefn m)).
    + destruct (drop_nodes (S ni) r) as [r' ds] eqn:E. simpl in *. exists n', p'. repeat split; auto.
    + destruct (drop_ports ni 0 (n_out m)) as [ps dd]. destruct (drop_nodes (S ni) r) as [r' ds] eqn:E. simpl in *.
      exists n', p'. repeat split; auto. rewrite drops_at_app.
      rewrite (drops_at_none (S (ni + i)) j dd); auto.
      intros d Hd. destruct (RP d Hd). left. lia.
Qed.
