(** C14 — vocabulary shared by the generated table (GenTyTable.v) and the hand-written
    model (Model.v).  Only data types and total helper functions; no proofs.

    Reading conventions used by the translator props/C14/tr_tytable.py:
      ht.TypeBound.{Copyable,Linear}          -> bound
      ht.TypeBound.join(a, *gen)               -> bound_join (a :: map/filter ...)
      all(E for x in L) / any(...)             -> forallb / existsb
      arg (an Argument of a parametrized type) -> argview: what the three classification
                                                  properties can observe of an argument
      f (a StructField)                        -> tinfo of the (instantiated) field type
    The accessors on the const-argument view are chosen fail-closed (not copyable, not
    droppable, Linear): Python would raise AttributeError on `ConstArg.ty`; a body that
    forgets the `isinstance(arg, TypeArg)` guard breaks the theorems instead of passing. *)
From Coq Require Import List Bool String NArith.
Import ListNotations.
Open Scope string_scope.
Open Scope list_scope.

Inductive bound := Copyable | Linear.

Definition bound_eqb (a b : bound) : bool :=
  match a, b with Copyable, Copyable | Linear, Linear => true | _, _ => false end.

Definition is_linear_bound (b : bound) : bool := bound_eqb b Linear.

(* hugr TypeBound.join: Linear as soon as one operand is Linear, else Copyable *)
Definition bound_join (bs : list bound) : bound :=
  if existsb is_linear_bound bs then Linear else Copyable.

(* -------- the Guppy side: what one type exposes to its parent -------- *)
Record tinfo := mkInfo { ti_copyable : bool; ti_droppable : bool; ti_hugr_bound : bound }.

Inductive argview := AVType (i : tinfo) | AVConst.

Definition av_is_type (a : argview) : bool := match a with AVType _ => true | AVConst => false end.
Definition av_copyable (a : argview) : bool := match a with AVType i => ti_copyable i | AVConst => false end.
Definition av_droppable (a : argview) : bool := match a with AVType i => ti_droppable i | AVConst => false end.
Definition av_hugr_bound (a : argview) : bound := match a with AVType i => ti_hugr_bound i | AVConst => Linear end.

(* -------- the HUGR side -------- *)
Inductive harg (T : Type) : Type :=
| HTy (t : T)                                    (* ht.TypeTypeArg *)
| HNat (n : N)                                   (* ht.BoundedNatArg *)
| HNatVar (idx : N).                             (* ht.VariableArg of a nat parameter *)
Arguments HTy {T} t.
Arguments HNat {T} n.
Arguments HNatVar {T} idx.

Inductive hty : Type :=
| HExt (qname : string) (args : list (harg hty))   (* ht.ExtType: qualified type-def name + args *)
| HOpaque (qname : string) (args : list (harg hty)) (b : bound)  (* ht.Opaque (never produced by to_hugr; an arm of requires_drop) *)
| HSum (rows : list (list hty))                  (* ht.Sum and its subclasses Tuple / Option / UnitSum *)
| HVar (idx : N) (b : bound)                     (* ht.Variable *)
| HFun                                           (* ht.FunctionType; the signature is not modelled: type_bound and requires_drop ignore it *)
| HQubit                                         (* ht.Qubit *)
| HAlias.                                        (* ht.Alias *)

Definition h_tuple (els : list hty) : hty := HSum [els].
Definition h_option (t : hty) : hty := HSum [[]; [t]].

(* argument of an opaque type as seen by its `to_hugr` function: already converted *)
Inductive carg := CTy (h : hty) (linear : bool) | CConst (h : harg hty).

Inductive param := PType (must_be_copyable must_be_droppable : bool) | PConst.

Record odef := mkOdef {
  od_name : string;
  od_params : list param;
  od_never_copyable : bool;
  od_never_droppable : bool;
  od_bound : option bound;
  od_to_hugr : list carg -> option hty     (* None: an assert / unpacking pattern in the body failed *)
}.

Fixpoint lookup_def (defs : list odef) (name : string) : option odef :=
  match defs with
  | [] => None
  | d :: r => if String.eqb (od_name d) name then Some d else lookup_def r name
  end.

Definition str_in (s : string) (l : list string) : bool := existsb (String.eqb s) l.

(* view of a HUGR type argument inside requires_drop: the recursive result for type args *)
Inductive hargview := HAVType (requires_drop : bool) | HAVOther.
Definition hav_is_type (a : hargview) : bool := match a with HAVType _ => true | _ => false end.
(* fail-closed: Python raises AttributeError on `.ty` of a non-type argument; an unguarded body
   makes every int<6> / array length 'require a drop' and breaks drops_only_linear *)
Definition hav_requires_drop (a : hargview) : bool := match a with HAVType r => r | HAVOther => true end.
