(** C26 — histories over circuit OBJECTS: a small state machine for the loader.
    pytket circuits are mutable objects; `guppy.load_pytket` / `guppy.pytket` only store a
    REFERENCE to the object, and everything derived from it (signature, conversion, wiring) is
    computed when the definition is first checked/compiled.  The contract on the clean tree is
    therefore: a compiled circuit function reflects the contents its circuit object has AT THAT
    COMPILE (not at load time, and not at some earlier compile of the same object).
    The machine is parameterised by [cached]: whether the module keeps converted circuits in
    module-level state keyed by object identity (the clean tree does not; GenState.v, generated
    from the source, says which).  Each definition is compiled at most once in a history
    (re-compiling a definition is the engine's caching, not this module's).  No proofs here. *)
From Coq Require Import List ZArith Bool Arith.
From V.C26 Require Import Model.
Import ListNotations.

Record contents := mkContents { k_circ : circ; k_gates : list Z }.   (* shape + abstract gate list *)

Definition heap := list (nat * contents).                 (* object identity -> current contents *)
Fixpoint hget (h : heap) (o : nat) : option contents :=
  match h with [] => None | (o', c) :: r => if Nat.eqb o o' then Some c else hget r o end.
Fixpoint hset (h : heap) (o : nat) (c : contents) : heap :=
  match h with [] => [(o, c)] | (o', c') :: r => if Nat.eqb o o' then (o, c) :: r else (o', c') :: hset r o c end.

Inductive hop :=
| HSet (o : nat) (c : contents)            (* create object o / change it in place / o := copy of another *)
| HLoad (n o : nat) (arrays : bool)        (* definition n refers to object o *)
| HCompile (n : nat).

(* what one compile produces *)
Record result := mkResult { r_sig : sig; r_call : list wire; r_outs : list (list wire);
                            r_body : contents          (* the contents the called body was converted from *) }.

Record lstate := mkState { l_heap : heap; l_defs : list (nat * (nat * bool));
                           l_conv : list (nat * contents) (* module-level cache: object -> converted *) }.

Fixpoint dget (d : list (nat * (nat * bool))) (n : nat) : option (nat * bool) :=
  match d with [] => None | (n', x) :: r => if Nat.eqb n n' then Some x else dget r n end.

(* everything the wrapper computes from the LIVE circuit, except the parameter order, which it
   reads from the converted function's metadata *)
Definition result_of (arrays : bool) (cur conv : contents) : result :=
  let wc := mkCirc cur.(k_circ).(q_regs) cur.(k_circ).(c_regs) conv.(k_circ).(meta) in
  mkResult (sig_of arrays cur.(k_circ)) (call_args arrays wc) (outputs arrays wc) conv.

Definition step (cached : bool) (st : lstate) (op : hop) : lstate * option result :=
  match op with
  | HSet o c => (mkState (hset st.(l_heap) o c) st.(l_defs) st.(l_conv), None)
  | HLoad n o arrays => (mkState st.(l_heap) ((n, (o, arrays)) :: st.(l_defs)) st.(l_conv), None)
  | HCompile n =>
      match dget st.(l_defs) n with
      | None => (st, None)
      | Some (o, arrays) =>
          match hget st.(l_heap) o with
          | None => (st, None)
          | Some cur =>
              if cached then
                match hget st.(l_conv) o with
                | Some conv => (st, Some (result_of arrays cur conv))
                | None => (mkState st.(l_heap) st.(l_defs) (hset st.(l_conv) o cur), Some (result_of arrays cur cur))
                end
              else (st, Some (result_of arrays cur cur))
          end
      end
  end.

Fixpoint run (cached : bool) (st : lstate) (ops : list hop) : list (option result) :=
  match ops with [] => [] | op :: r => let '(st', res) := step cached st op in res :: run cached st' r end.
Fixpoint final (cached : bool) (st : lstate) (ops : list hop) : lstate :=
  match ops with [] => st | op :: r => final cached (fst (step cached st op)) r end.
Definition init : lstate := mkState [] [] [].
