(** C26 — index algebra of ParsedPytketDef.compile_outer and _signature_from_circuit
    (guppylang_internals/definition/pytket_circuits.py).  Hand-written executable model; the
    differential harness (props/C26) compares it with the real code on generated circuits.
    The ACTION of the circuit (tket's conversion and the gates) is outside /repo and not modelled.
    No proofs in this file. *)
From Coq Require Import List ZArith Bool Arith.
Import ListNotations.

(* a circuit as far as the wiring code looks at it: register sizes in the order pytket reports
   them (q_registers / c_registers), and the names of the symbolic parameters in the order of the
   converted circuit's "TKET1.input_parameters" metadata (names are abstracted to integers; only
   their order matters) *)
Record circ := mkCirc { q_regs : list nat; c_regs : list nat; meta : list Z }.

Definition sum (l : list nat) : nat := fold_right plus 0 l.
Definition n_qubits (c : circ) := sum c.(q_regs).
Definition n_bits (c : circ) := sum c.(c_regs).
Definition n_params (c : circ) := length c.(meta).

(* ---------- sorted(param_order) *)
Fixpoint insert (x : Z) (l : list Z) : list Z :=
  match l with [] => [x] | y :: r => if (x <=? y)%Z then x :: y :: r else y :: insert x r end.
Fixpoint isort (l : list Z) : list Z := match l with [] => [] | x :: r => insert x (isort r) end.

(* ---------- wires *)
Inductive wire :=
| InQ (i : nat)              (* i-th qubit argument (no arrays) *)
| InQArr (reg idx : nat)     (* element idx of the reg-th register array *)
| InP (k : nat)              (* half-turns of the k-th angle argument (user order) *)
| CFalse                     (* constant false for an input bit *)
| Out (k : nat)              (* k-th output of the call to the converted circuit *)
| Missing.

(* dict(zip(lex_names, lex_params)) [name] *)
Fixpoint lookup (name : Z) (tbl : list (Z * wire)) : wire :=
  match tbl with [] => Missing | (n, w) :: r => if (n =? name)%Z then w else lookup name r end.
(* Python's dict(zip(..)) keeps the LAST binding of a repeated key; names are distinct here, so
   first = last (the theorems assume NoDup) *)

Fixpoint reg_wires (reg : nat) (sizes : list nat) : list wire :=
  match sizes with [] => [] | s :: r => map (InQArr reg) (seq 0 s) ++ reg_wires (S reg) r end.

Definition qubit_wires (arrays : bool) (c : circ) : list wire :=
  if arrays then reg_wires 0 c.(q_regs) else map InQ (seq 0 (n_qubits c)).
Definition user_params (c : circ) : list wire := map InP (seq 0 (n_params c)).
Definition param_wires (c : circ) : list wire :=
  let tbl := combine (isort c.(meta)) (user_params c) in map (fun name => lookup name tbl) c.(meta).

(* input_list + bool_wires + param_wires *)
Definition call_args (arrays : bool) (c : circ) : list wire :=
  qubit_wires arrays c ++ repeat CFalse (n_bits c) ++ param_wires c.

(* output_list[n_qubits:] + output_list[:n_qubits] *)
Definition rotated (c : circ) : list wire :=
  let outs := map Out (seq 0 (n_qubits c + n_bits c)) in skipn (n_qubits c) outs ++ firstn (n_qubits c) outs.

Fixpoint chunks (sizes : list nat) (w : list wire) : list (list wire) :=
  match sizes with [] => [] | s :: r => firstn s w :: chunks r (skipn s w) end.

(* outputs of the outer function: single wires, or one array per classical then per qubit register *)
Definition outputs (arrays : bool) (c : circ) : list (list wire) :=
  if arrays then chunks (c.(c_regs) ++ c.(q_regs)) (rotated c) else map (fun w => [w]) (rotated c).

(* ---------- signatures *)
Inductive gty := GQubit | GAngle | GBool | GArr (elem : gty) (n : nat) | GTuple (ts : list gty) | GNone | GOther (k : nat).
Record sig := mkSig { s_inputs : list (gty * bool) (* type, inout? *); s_output : gty }.

Definition row_to_type (ts : list gty) : gty := match ts with [] => GNone | [t] => t | _ => GTuple ts end.

Definition sig_of (arrays : bool) (c : circ) : sig :=
  if arrays then
    mkSig (map (fun s => (GArr GQubit s, true)) c.(q_regs)
           ++ (if Nat.eqb (n_params c) 0 then [] else [(GArr GAngle (n_params c), false)]))
          (row_to_type (map (fun s => GArr GBool s) c.(c_regs)))
  else
    mkSig (repeat (GQubit, true) (n_qubits c) ++ repeat (GAngle, false) (n_params c))
          (row_to_type (repeat GBool (n_bits c))).

Fixpoint gty_eqb (a b : gty) {struct a} : bool :=
  match a, b with
  | GQubit, GQubit | GAngle, GAngle | GBool, GBool | GNone, GNone => true
  | GOther x, GOther y => Nat.eqb x y
  | GArr e n, GArr e' n' => gty_eqb e e' && Nat.eqb n n'
  | GTuple ts, GTuple ts' =>
      (fix go (l l' : list gty) : bool :=
         match l, l' with [], [] => true | x :: r, y :: r' => gty_eqb x y && go r r' | _, _ => false end) ts ts'
  | _, _ => false
  end.
Fixpoint inputs_eqb (a b : list (gty * bool)) : bool :=
  match a, b with
  | [], [] => true
  | (t, f) :: r, (t', f') :: r' => gty_eqb t t' && Bool.eqb f f' && inputs_eqb r r'
  | _, _ => false end.
(* RawPytketDef.parse: circuit_signature.inputs == stub.inputs and circuit_signature.output == stub.output *)
Definition accepts (arrays : bool) (c : circ) (stub : sig) : bool :=
  inputs_eqb (sig_of arrays c).(s_inputs) stub.(s_inputs) && gty_eqb (sig_of arrays c).(s_output) stub.(s_output).
