(** C26 — lemmas about the loader state machine (History.v) for the generated GenState.v. *)
From Coq Require Import List ZArith Bool Arith String.
From V.C26 Require Import Model History GenState.
Import ListNotations.

Lemma circ_eta : forall c, mkCirc (q_regs c) (c_regs c) (meta c) = c.
Proof. destruct c; reflexivity. Qed.

Lemma result_of_same : forall arrays c,
  result_of arrays c c = mkResult (sig_of arrays (k_circ c)) (call_args arrays (k_circ c)) (outputs arrays (k_circ c)) c.
Proof. intros. unfold result_of. rewrite circ_eta. reflexivity. Qed.

Lemma no_state : gen_module_state = [] /\ gen_cached = false /\ gen_conversion_direct = true.
Proof. repeat split; reflexivity. Qed.

Lemma compile_current : forall st n o arrays cur,
  dget (l_defs st) n = Some (o, arrays) -> hget (l_heap st) o = Some cur ->
  step gen_cached st (HCompile n) = (st, Some (result_of arrays cur cur)).
Proof. intros st n o arrays cur D H. unfold step, gen_cached. rewrite D, H. reflexivity. Qed.

(* the memoising variant of the machine really is different: a stale history *)
Definition c1 := mkContents (mkCirc [2] [] []) [1; 2]%Z.
Definition c2 := mkContents (mkCirc [2] [] []) [1; 2; 3; 4]%Z.
Definition stale_history := [HSet 0 c1; HLoad 0 0 false; HCompile 0; HSet 0 c2; HLoad 1 0 false; HCompile 1].
Lemma cached_stale :
  nth 5 (run true init stale_history) None = Some (result_of false c2 c1) /\
  nth 5 (run false init stale_history) None = Some (result_of false c2 c2) /\ c1 <> c2.
Proof. repeat split; try reflexivity. discriminate. Qed.
