(** C26 — lemmas about the wiring model. *)
From Coq Require Import List ZArith Bool Arith Lia Permutation.
From V.C26 Require Import Model.
Import ListNotations.

(* ---------------------------------------------------------------- sorting *)
Fixpoint count_lt (x : Z) (l : list Z) : nat :=
  match l with [] => 0 | y :: r => (if (y <? x)%Z then 1 else 0) + count_lt x r end.

Fixpoint ssorted (l : list Z) : Prop :=
  match l with [] => True | a :: r => Forall (fun y => (a < y)%Z) r /\ ssorted r end.

Lemma insert_perm : forall x l, Permutation (x :: l) (insert x l).
Proof.
  induction l as [|y r IH]; simpl; auto.
  destruct (x <=? y)%Z; auto.
  eapply perm_trans; [apply perm_swap|]. constructor. exact IH.
Qed.
Lemma isort_perm : forall l, Permutation l (isort l).
Proof. induction l; simpl; auto. eapply perm_trans; [|apply insert_perm]. constructor. exact IHl. Qed.

Lemma insert_ssorted : forall x l, ssorted l -> ~ In x l -> ssorted (insert x l).
Proof.
  induction l as [|y r IH]; simpl; intros S N.
  - split; auto.
  - destruct S as [Fy Sr]. destruct (x <=? y)%Z eqn:E.
    + apply Z.leb_le in E. assert (x < y)%Z by (destruct (Z.eq_dec x y); [subst; tauto | lia]).
      simpl. split; [|split; auto]. constructor; auto.
      eapply Forall_impl; [|exact Fy]. simpl. intros; lia.
    + apply Z.leb_gt in E. simpl. split.
      * assert (P : Permutation (x :: r) (insert x r)) by apply insert_perm.
        eapply Permutation_Forall; [exact P|]. constructor; auto.
      * apply IH; auto.
Qed.
Lemma isort_ssorted : forall l, NoDup l -> ssorted (isort l).
Proof.
  induction l; simpl; intros N; auto. inversion N; subst.
  apply insert_ssorted; auto. intro H. apply H1. eapply Permutation_in; [apply Permutation_sym, isort_perm|exact H].
Qed.

Lemma count_lt_perm : forall x l l', Permutation l l' -> count_lt x l = count_lt x l'.
Proof. induction 1; simpl; try lia. Qed.

Lemma count_lt_all_gt : forall x l, Forall (fun y => (x < y)%Z) l -> count_lt x l = 0.
Proof. induction 1; simpl; auto. destruct (x0 <? x)%Z eqn:E; [apply Z.ltb_lt in E; lia | auto]. Qed.

Lemma lookup_sorted : forall s us x, ssorted s -> length us = length s -> In x s ->
  lookup x (combine s us) = nth (count_lt x s) us Missing.
Proof.
  induction s as [|a s IH]; intros us x S L I; [inversion I|].
  destruct us as [|u us]; [discriminate|]. simpl in *. destruct S as [Fa Ss].
  destruct (a =? x)%Z eqn:E.
  - apply Z.eqb_eq in E; subst. rewrite Z.ltb_irrefl. rewrite count_lt_all_gt; auto.
  - apply Z.eqb_neq in E. destruct I as [->|I]; [congruence|].
    assert (a < x)%Z by (rewrite Forall_forall in Fa; auto).
    assert (a <? x = true)%Z as -> by (apply Z.ltb_lt; auto). simpl. apply IH; auto.
Qed.

(* ---------------------------------------------------------------- parameters *)
Lemma nth_user_params : forall c k, k < n_params c -> nth k (user_params c) Missing = InP k.
Proof.
  intros. unfold user_params. rewrite nth_indep with (d' := InP 0) by (rewrite map_length, seq_length; auto).
  change (InP 0) with (InP 0). rewrite map_nth with (d := 0). rewrite seq_nth; auto.
Qed.

Lemma count_lt_bound : forall x l, In x l -> count_lt x l < length l.
Proof.
  induction l; simpl; intros I; [tauto|]. destruct I as [->|I].
  - rewrite Z.ltb_irrefl. simpl. assert (forall l, count_lt x l <= length l) as B.
    { induction l0; simpl; auto. destruct (a <? x)%Z; simpl; lia. } specialize (B l). lia.
  - specialize (IHl I). destruct (a <? x)%Z; simpl; lia.
Qed.

Lemma param_for_name : forall c name, NoDup c.(meta) -> In name c.(meta) ->
  lookup name (combine (isort c.(meta)) (user_params c)) = InP (count_lt name c.(meta)).
Proof.
  intros c name N I.
  assert (P := isort_perm c.(meta)).
  rewrite lookup_sorted.
  - rewrite <- (count_lt_perm name _ _ P). apply nth_user_params. apply count_lt_bound; auto.
  - apply isort_ssorted; auto.
  - unfold user_params. rewrite map_length, seq_length. unfold n_params. apply Permutation_length; auto.
  - eapply Permutation_in; eauto.
Qed.

Lemma perm_correct_lemma : forall c j, NoDup c.(meta) -> j < n_params c ->
  nth j (param_wires c) Missing = InP (count_lt (nth j c.(meta) 0%Z) c.(meta)).
Proof.
  intros c j N L. unfold param_wires.
  set (f := fun name => lookup name (combine (isort (meta c)) (user_params c))).
  rewrite nth_indep with (d' := f 0%Z) by (rewrite map_length; auto).
  rewrite map_nth. unfold f. apply param_for_name; auto. apply nth_In; auto.
Qed.

(* ---------------------------------------------------------------- outputs *)
Lemma rotated_eq : forall c,
  rotated c = map Out (seq (n_qubits c) (n_bits c)) ++ map Out (seq 0 (n_qubits c)).
Proof.
  intros. unfold rotated. rewrite seq_app, map_app. simpl.
  rewrite skipn_app, firstn_app. rewrite !map_length, !seq_length.
  rewrite Nat.sub_diag. simpl. rewrite skipn_all2 by (rewrite map_length, seq_length; auto).
  rewrite firstn_all2 by (rewrite map_length, seq_length; auto). simpl. rewrite app_nil_r. reflexivity.
Qed.

Lemma chunks_concat : forall sizes w, sum sizes = length w -> concat (chunks sizes w) = w.
Proof.
  induction sizes as [|s r IH]; simpl; intros w H.
  - destruct w; auto; discriminate.
  - rewrite IH. apply firstn_skipn. rewrite skipn_length. lia.
Qed.
Lemma chunks_lengths : forall sizes w, sum sizes = length w -> map (@length wire) (chunks sizes w) = sizes.
Proof.
  induction sizes as [|s r IH]; simpl; intros w H; auto.
  rewrite IH by (rewrite skipn_length; lia). rewrite firstn_length. f_equal. lia.
Qed.
Lemma sum_app : forall a b, sum (a ++ b) = sum a + sum b.
Proof. induction a; simpl; intros; [reflexivity|]. rewrite IHa. lia. Qed.
Lemma rotated_length : forall c, length (rotated c) = n_bits c + n_qubits c.
Proof. intros. rewrite rotated_eq, app_length, !map_length, !seq_length. reflexivity. Qed.

Lemma reg_wires_concat : forall sizes reg,
  reg_wires reg sizes = concat (map (fun p => map (InQArr (fst p)) (seq 0 (snd p))) (combine (seq reg (length sizes)) sizes)).
Proof. induction sizes; simpl; intros; auto. rewrite IHsizes. reflexivity. Qed.

(* ---------------------------------------------------------------- signatures *)
Lemma gty_eqb_refl : forall t, gty_eqb t t = true.
Proof.
  fix IH 1. destruct t; simpl; try reflexivity.
  - rewrite IH, Nat.eqb_refl. reflexivity.
  - induction ts; [reflexivity|]. rewrite IH. exact IHts.
  - apply Nat.eqb_refl.
Qed.
Lemma gty_eqb_eq : forall a b, gty_eqb a b = true -> a = b.
Proof.
  fix IH 1. destruct a, b; simpl; intros H; try discriminate; try reflexivity.
  - apply andb_prop in H. destruct H as [H1 H2]. apply IH in H1. apply Nat.eqb_eq in H2. subst. reflexivity.
  - f_equal. revert ts0 H. induction ts; destruct ts0; intros H; try discriminate; auto.
    apply andb_prop in H. destruct H as [H1 H2]. apply IH in H1. subst. f_equal. apply IHts. exact H2.
  - apply Nat.eqb_eq in H. subst. reflexivity.
Qed.
Lemma inputs_eqb_iff : forall a b, inputs_eqb a b = true <-> a = b.
Proof.
  induction a as [|[t f] r IH]; destruct b as [|[t' f'] r']; simpl; split; intros H; try discriminate; auto.
  - apply andb_prop in H. destruct H as [H H3]. apply andb_prop in H. destruct H as [H1 H2].
    apply gty_eqb_eq in H1. apply Bool.eqb_prop in H2. apply IH in H3. subst. reflexivity.
  - inversion H; subst. rewrite gty_eqb_refl, Bool.eqb_reflx. simpl. apply IH. reflexivity.
Qed.
Lemma accepts_iff : forall arrays c stub, accepts arrays c stub = true <-> stub = sig_of arrays c.
Proof.
  intros. unfold accepts. destruct stub as [i o]. simpl. split; intros H.
  - apply andb_prop in H. destruct H as [H1 H2]. apply inputs_eqb_iff in H1. apply gty_eqb_eq in H2.
    destruct (sig_of arrays c); simpl in *; subst; reflexivity.
  - rewrite <- H. simpl. rewrite gty_eqb_refl. assert (inputs_eqb i i = true) as -> by (apply inputs_eqb_iff; auto). reflexivity.
Qed.

(* ---------------------------------------------------------------- what a signature offers *)
Fixpoint leaves (what : gty -> bool) (t : gty) : nat :=
  match t with
  | GArr e n => n * leaves what e
  | GTuple ts => fold_right (fun x acc => leaves what x + acc) 0 ts
  | _ => if what t then 1 else 0
  end.
Definition is_bool (t : gty) := match t with GBool => true | _ => false end.
Definition is_qubit (t : gty) := match t with GQubit => true | _ => false end.
Definition is_angle (t : gty) := match t with GAngle => true | _ => false end.
Definition leaves_in (what : gty -> bool) (ts : list gty) : nat := fold_right (fun x acc => leaves what x + acc) 0 ts.

Lemma leaves_row : forall what ts, (forall t, In t ts -> match t with GTuple _ | GNone => False | _ => True end) ->
  what GNone = false -> leaves what (row_to_type ts) = leaves_in what ts.
Proof.
  intros what ts H N. destruct ts as [|a [|b r]]; simpl.
  - rewrite N. reflexivity.
  - rewrite Nat.add_0_r. reflexivity.
  - reflexivity.
Qed.

Lemma bools_per_bit : forall arrays c, leaves is_bool (s_output (sig_of arrays c)) = n_bits c.
Proof.
  intros [|] c; unfold sig_of; simpl s_output; rewrite leaves_row; auto.
  - unfold n_bits. induction (c_regs c); simpl; auto. rewrite Nat.mul_1_r. f_equal. exact IHl.
  - intros t I. apply in_map_iff in I. destruct I as (s & <- & _). exact I.
  - unfold n_bits. induction (sum (c_regs c)); simpl; auto.
  - intros t I. apply repeat_spec in I. subst. exact I.
Qed.

Lemma leaves_in_app : forall what a b, leaves_in what (a ++ b) = leaves_in what a + leaves_in what b.
Proof. induction a; simpl; intros; [reflexivity|]. rewrite IHa. lia. Qed.
Lemma leaves_in_arr : forall what e l, leaves_in what (map (fun s => GArr e s) l) = sum l * leaves what e.
Proof. induction l; simpl; [reflexivity|]. rewrite IHl. rewrite Nat.mul_add_distr_r. reflexivity. Qed.
Lemma leaves_in_repeat : forall what t n, leaves_in what (repeat t n) = n * leaves what t.
Proof. induction n; simpl; [reflexivity|]. rewrite IHn. reflexivity. Qed.
Lemma map_fst_repeat : forall (t : gty) (f : bool) n, map fst (repeat (t, f) n) = repeat t n.
Proof. induction n; simpl; [reflexivity|]. rewrite IHn. reflexivity. Qed.

Lemma qubits_per_qubit : forall arrays c,
  leaves_in is_qubit (map fst (s_inputs (sig_of arrays c))) = n_qubits c /\
  leaves_in is_angle (map fst (s_inputs (sig_of arrays c))) = n_params c /\
  Forall (fun i => snd i = is_qubit (match fst i with GArr e _ => e | t => t end)) (s_inputs (sig_of arrays c)).
Proof.
  intros [|] c; unfold sig_of; simpl s_inputs; rewrite !map_app, !leaves_in_app.
  - rewrite map_map. simpl fst. rewrite !leaves_in_arr. simpl leaves. repeat split.
    + destruct (n_params c =? 0); simpl; unfold n_qubits; lia.
    + destruct (n_params c =? 0) eqn:E; simpl; [apply Nat.eqb_eq in E|]; lia.
    + apply Forall_app. split.
      * apply Forall_forall. intros x I. apply in_map_iff in I. destruct I as (s & <- & _). reflexivity.
      * destruct (n_params c =? 0); constructor; auto.
  - rewrite !map_fst_repeat, !leaves_in_repeat. simpl leaves. repeat split; try lia.
    apply Forall_app. split; apply Forall_forall; intros x I; apply repeat_spec in I; subst; reflexivity.
Qed.
