From Coq Require Import List ZArith Bool.
From V.C26 Require Import Model Proofs.
Import ListNotations.
Theorem perm_correct : forall c j, NoDup c.(meta) -> j < n_params c ->
  nth j (param_wires c) Missing = InP (count_lt (nth j c.(meta) 0%Z) c.(meta)).
Proof. exact perm_correct_lemma. Qed.
Print Assumptions perm_correct.
