(** C26 — Loaded pytket circuits: the INDEX ALGEBRA of the wrapper that guppylang builds around
    the converted circuit (model of compile_outer / _signature_from_circuit, tied to the real code
    by props/C26).  Not claimed: what the converted circuit itself does (tket), pytket's ordering of
    registers and symbols.  Parameter names are abstracted to integers (only their order matters). *)
From Coq Require Import List ZArith Bool Arith.
From V.C26 Require Import Model Proofs History GenState ProofsHistory.
Import ListNotations.

(* Symbolic parameters are bound in lexicographic name order: whatever order the converted circuit
   lists its parameters in, the j-th parameter of the circuit receives the user's k-th angle where
   k = number of parameter names smaller than its own (i.e. the user's k-th argument reaches the
   parameter with the k-th smallest name). *)
Theorem perm_correct : forall c j, NoDup c.(meta) -> j < n_params c ->
  nth j (param_wires c) Missing = InP (count_lt (nth j c.(meta) 0%Z) c.(meta)).
Proof. exact perm_correct_lemma. Qed.
Print Assumptions perm_correct.

Example perm_correct_instance :
  param_wires (mkCirc [2] [1] [30; 10; 20]%Z) = [InP 2; InP 0; InP 1] /\ NoDup [30; 10; 20]%Z.
Proof. split; [reflexivity | repeat constructor; simpl; intuition discriminate]. Qed.

(* The call receives: the qubits (register by register in q_registers order, elements in index order,
   when arrays are used; the qubit arguments in order otherwise), one constant false per bit, the parameters. *)
Theorem call_wiring : forall arrays c,
  call_args arrays c = qubit_wires arrays c ++ repeat CFalse (n_bits c) ++ param_wires c /\
  qubit_wires false c = map InQ (seq 0 (n_qubits c)) /\
  qubit_wires true c = concat (map (fun p => map (InQArr (fst p)) (seq 0 (snd p)))
                                   (combine (seq 0 (length c.(q_regs))) c.(q_regs))).
Proof. intros. repeat split. apply reg_wires_concat. Qed.
Print Assumptions call_wiring.

(* Outputs: the call returns qubits then bits; the wrapper returns bits then qubits ... *)
Theorem outputs_bits_then_qubits : forall c,
  rotated c = map Out (seq (n_qubits c) (n_bits c)) ++ map Out (seq 0 (n_qubits c)).
Proof. exact rotated_eq. Qed.
Print Assumptions outputs_bits_then_qubits.

(* ... re-packed, with arrays, into one array per classical register then one per qubit register,
   each of its register's size, preserving the order. *)
Theorem arrays_repacked : forall c,
  concat (outputs true c) = rotated c /\ map (@length wire) (outputs true c) = c.(c_regs) ++ c.(q_regs) /\
  concat (outputs false c) = rotated c.
Proof.
  intros c. unfold outputs. repeat split.
  - apply chunks_concat. rewrite sum_app, rotated_length. reflexivity.
  - apply chunks_lengths. rewrite sum_app, rotated_length. reflexivity.
  - induction (rotated c); simpl; auto. f_equal. exact IHl.
Qed.
Print Assumptions arrays_repacked.

(* The inferred signature offers one boolean per classical bit, one (borrowed) qubit per qubit and one
   angle per symbolic parameter, with and without arrays. *)
Theorem signature_counts : forall arrays c,
  leaves is_bool (s_output (sig_of arrays c)) = n_bits c /\
  leaves_in is_qubit (map fst (s_inputs (sig_of arrays c))) = n_qubits c /\
  leaves_in is_angle (map fst (s_inputs (sig_of arrays c))) = n_params c /\
  Forall (fun i => snd i = is_qubit (match fst i with GArr e _ => e | t => t end)) (s_inputs (sig_of arrays c)).
Proof. intros. split; [apply bools_per_bit | apply qubits_per_qubit]. Qed.
Print Assumptions signature_counts.

(* A declared stub is accepted iff its signature equals the inferred one. *)
Theorem stub_accepted_iff : forall arrays c stub, accepts arrays c stub = true <-> stub = sig_of arrays c.
Proof. exact accepts_iff. Qed.
Print Assumptions stub_accepted_iff.

Example stub_rejected_instance :
  accepts false (mkCirc [2] [1] []) (mkSig [(GQubit, true)] GBool) = false /\
  accepts false (mkCirc [2] [1] []) (mkSig [(GQubit, true); (GQubit, true)] GBool) = true.
Proof. split; reflexivity. Qed.

(* ---------------------------------------------------------------- histories over circuit objects *)
(* T: definition/pytket_circuits.py keeps nothing between compiles (no module-level container, memoising
   decorator, global, mutable class attribute/default) and converts the definition's live circuit. *)
Theorem loader_has_no_module_state : gen_module_state = [] /\ gen_cached = false /\ gen_conversion_direct = true.
Proof. exact no_state. Qed.
Print Assumptions loader_has_no_module_state.

(* Whatever happened before (other loads, compiles, in-place changes, copies): compiling a definition yields
   exactly the signature, wiring and converted body of the contents its circuit object has AT THAT COMPILE,
   and leaves the loader unchanged. *)
Theorem compile_reflects_current_contents : forall st n o arrays cur,
  dget (l_defs st) n = Some (o, arrays) -> hget (l_heap st) o = Some cur ->
  step gen_cached st (HCompile n) =
    (st, Some (mkResult (sig_of arrays (k_circ cur)) (call_args arrays (k_circ cur)) (outputs arrays (k_circ cur)) cur)).
Proof. intros st n o arrays cur D H. rewrite <- result_of_same. exact (compile_current st n o arrays cur D H). Qed.
Print Assumptions compile_reflects_current_contents.

(* hence two arbitrary histories that leave the object with equal contents give equal functions *)
Theorem compile_depends_only_on_contents : forall ops1 ops2 n1 n2 o1 o2 arrays cur,
  let s1 := final gen_cached init ops1 in let s2 := final gen_cached init ops2 in
  dget (l_defs s1) n1 = Some (o1, arrays) -> hget (l_heap s1) o1 = Some cur ->
  dget (l_defs s2) n2 = Some (o2, arrays) -> hget (l_heap s2) o2 = Some cur ->
  snd (step gen_cached s1 (HCompile n1)) = snd (step gen_cached s2 (HCompile n2)).
Proof.
  intros. rewrite (compile_current s1 n1 o1 arrays cur), (compile_current s2 n2 o2 arrays cur); auto.
Qed.
Print Assumptions compile_depends_only_on_contents.

(* non-vacuity + the statement is not true of a memoising loader: load, compile, extend in place, load again *)
Example memoising_loader_goes_stale :
  nth 5 (run true init stale_history) None = Some (result_of false c2 c1) /\
  nth 5 (run false init stale_history) None = Some (result_of false c2 c2) /\ c1 <> c2.
Proof. exact cached_stale. Qed.
