(** C22 — executable model of the ownership tracking done while tracing a comptime function.
    LEAF LAYER: single GuppyObjects (one Hugr wire each) with a `used` flag, and the
    dictionary `TracingState.unused_undroppable_objs`.  Every branch condition comes from
    GenTracing.v, i.e. from /repo's source text of this run.  No proofs here. *)
From Coq Require Import List Bool Arith.
Import ListNotations.
From V.C22 Require Import GenTracing.

(** a Guppy type, as far as ownership is concerned *)
Record kind := mkKind { copyable : bool; droppable : bool }.
(** GuppyObject: `_ty` (kind) and whether `_used` is set *)
Record obj := mkObj { okind : kind; oused : bool }.
(** tracing state: id counter (GuppyObjectId.fresh), the allocated objects, and the KEYS of
    `unused_undroppable_objs` in insertion order *)
Record st := mkSt { next : nat; objs : nat -> option obj; unused : list nat }.

Inductive err :=
| EAlreadyUsed (id : nat)   (* GuppyComptimeError "... was already used" *)
| ELeak (id : nat)          (* GuppyError TracingReturnError "... is leaked by this function" *)
| EKeyError (id : nat)      (* dict.pop of an absent key: internal error *)
| ENoObj (id : nat)         (* script refers to an object that was never allocated *)
| EFrozen                   (* mutation of a value derived from an owned argument *)
| EType                     (* type changed / cannot infer / cannot borrow *)
| EPy                       (* plain Python error (IndexError ...) *)
| EStuck.                   (* ill-formed script: outside the model *)
Inductive res (A : Type) := Ok (a : A) | Err (e : err).
Arguments Ok {A} a. Arguments Err {A} e.
Definition bind {A B} (r : res A) (f : A -> res B) : res B := match r with Ok a => f a | Err e => Err e end.

Definition upd (m : nat -> option obj) (id : nat) (o : obj) : nat -> option obj :=
  fun j => if Nat.eqb j id then Some o else m j.
Definition st0 : st := mkSt 0 (fun _ => None) [].

(** Python dict keyed by object id: `d[k] = v`, `d.pop(k)` (KeyError when absent) *)
Definition dict_mem (id : nat) (l : list nat) : bool := existsb (Nat.eqb id) l.
Definition dict_set (id : nat) (l : list nat) : list nat := if dict_mem id l then l else l ++ [id].
Definition dict_pop (id : nat) (l : list nat) : option (list nat) :=
  if dict_mem id l then Some (filter (fun j => negb (Nat.eqb j id)) l) else None.

(** GuppyObject.__init__(ty, wire)  (used=None) *)
Definition create (k : kind) (s : st) : nat * st :=
  let id := next s in
  (id, mkSt (S id) (upd (objs s) id (mkObj k false))
            (if init_registers (copyable k) (droppable k) false then dict_set id (unused s) else unused s)).

(** GuppyObject._use_wire *)
Definition use_wire (id : nat) (s : st) : res st :=
  match objs s id with
  | None => Err (ENoObj id)
  | Some o =>
    let k := okind o in
    if use_raises (copyable k) (droppable k) (oused o) then Err (EAlreadyUsed id)
    else
      let ob := upd (objs s) id (mkObj k true) in
      if use_pops (copyable k) (droppable k) true then
        match dict_pop id (unused s) with
        | Some u => Ok (mkSt (next s) ob u)
        | None => Err (EKeyError id)
        end
      else Ok (mkSt (next s) ob (unused s))
  end.

(** update_packed_value(v, obj) for `v` a GuppyObject: `vid` is v, `nid` the fresh object
    that carries the new wire *)
Definition update_leaf (vid nid : nat) (s : st) : res st :=
  bind (use_wire nid s) (fun s1 =>
  match objs s1 vid with
  | None => Err (ENoObj vid)
  | Some o =>
    let k := okind o in
    let u := if upd_registers (copyable k) (droppable k) (oused o) then dict_set vid (unused s1) else unused s1 in
    Ok (mkSt (next s1) (upd (objs s1) vid (mkObj k false)) u)
  end).

(** end of trace_function: `if state.unused_undroppable_objs: _, unused = popitem(); raise` *)
Definition end_check (s : st) : res unit :=
  if leak_raises (negb (match unused s with [] => true | _ => false end))
  then Err (ELeak (last (unused s) 0)) else Ok tt.

(** leaf-level scripts *)
Inductive lop :=
| LCreate (k : kind)      (* a value is created or received: a new GuppyObject *)
| LUse (id : nat)         (* the value is consumed: passed to a call, packed, returned *)
| LReassign (id : nat) (k : kind).   (* the value was lent to a call and gets a fresh wire back, carried by a
                                        new GuppyObject of kind k (the code asserts it has the value's type) *)

Definition step (o : lop) (s : st) : res st :=
  match o with
  | LCreate k => Ok (snd (create k s))
  | LUse j => use_wire j s
  | LReassign j k =>
    match objs s j with
    | None => Err (ENoObj j)
    | Some _ => let '(nid, s1) := create k s in update_leaf j nid s1
    end
  end.

Fixpoint lrun (ops : list lop) (s : st) : res st :=
  match ops with
  | [] => Ok s
  | o :: t => bind (step o s) (lrun t)
  end.

(** a whole traced function at leaf level: receive the inputs, run the body, hand back the
    result objects and the borrowed inputs, then the leak check *)
Definition trace_leaf (inputs : list kind) (body : list lop) (returned : list nat) : res unit :=
  bind (lrun (map LCreate inputs ++ body ++ map LUse returned) st0) end_check.
