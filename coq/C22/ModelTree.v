(** C22 — TREE LAYER (executable, NO theorem is proved about it; it is validated only by the
    differential harness against real compile() runs).  Python values seen by a comptime
    body: GuppyObjects, None, ints, tuples, (frozen) lists, (frozen) struct objects; and the
    functions that move between them and single wires: unpack_guppy_object,
    guppy_object_from_py, update_packed_value, trace_call, trace_function.  All use-tracking
    goes through the leaf operations of ModelTracing.v. *)
From Coq Require Import List Bool Arith.
Import ListNotations.
From V.C22 Require Import GenTracing ModelTracing.

Inductive ty := TQubit | TInt | TNone | TTup (l : list ty) | TArr (e : ty) (n : nat) | TStruct (sid : nat).

Fixpoint ty_eqb (a b : ty) : bool :=
  match a, b with
  | TQubit, TQubit | TInt, TInt | TNone, TNone => true
  | TTup l1, TTup l2 =>
    (fix go (l1 l2 : list ty) : bool :=
       match l1, l2 with
       | [], [] => true
       | x :: l1', y :: l2' => ty_eqb x y && go l1' l2'
       | _, _ => false
       end) l1 l2
  | TArr e1 n1, TArr e2 n2 => ty_eqb e1 e2 && Nat.eqb n1 n2
  | TStruct s1, TStruct s2 => Nat.eqb s1 s2
  | _, _ => false
  end.

(** struct definitions: field types per struct id *)
Definition sdefs := list (list ty).

Fixpoint kind_of_ty (fuel : nat) (sd : sdefs) (t : ty) : kind :=
  match fuel with
  | 0 => mkKind true true
  | S f =>
    let all := fold_right (fun x k => let kx := kind_of_ty f sd x in
                                      mkKind (copyable kx && copyable k) (droppable kx && droppable k)) (mkKind true true) in
    match t with
    | TQubit => mkKind false false
    | TInt | TNone => mkKind true true
    | TTup l => all l
    | TArr e _ => mkKind false (droppable (kind_of_ty f sd e))
    | TStruct sid => all (nth sid sd [])
    end
  end.

Inductive val := VObj (id : nat) | VNone | VInt | VTup (l : list val) | VList (loc : nat) | VStruct (loc : nat).

Record tst := mkT {
  leaf : st;
  otys : nat -> option ty;                          (* GuppyObject._ty *)
  nloc : nat;
  lists : nat -> option (bool * list val);          (* frozen?, elements *)
  strs : nat -> option (bool * nat * list val) }.   (* frozen?, struct id, field values *)

Definition tst0 : tst := mkT st0 (fun _ => None) 0 (fun _ => None) (fun _ => None).
Definition updm {A} (m : nat -> option A) (k : nat) (v : A) : nat -> option A := fun j => if Nat.eqb j k then Some v else m j.

Notation "x <- e ;; k" := (bind e (fun x => k)) (at level 61, e at next level, right associativity).

Definition create_t (sd : sdefs) (t : ty) (ts : tst) : nat * tst :=
  let '(id, l') := create (kind_of_ty 8 sd t) (leaf ts) in
  (id, mkT l' (updm (otys ts) id t) (nloc ts) (lists ts) (strs ts)).
Definition use_t (id : nat) (ts : tst) : res tst :=
  l' <- use_wire id (leaf ts) ;; Ok (mkT l' (otys ts) (nloc ts) (lists ts) (strs ts)).
Definition ty_of (id : nat) (ts : tst) : res ty := match otys ts id with Some t => Ok t | None => Err (ENoObj id) end.
Definition new_list (fr : bool) (vs : list val) (ts : tst) : val * tst :=
  (VList (nloc ts), mkT (leaf ts) (otys ts) (S (nloc ts)) (updm (lists ts) (nloc ts) (fr, vs)) (strs ts)).
Definition new_struct (fr : bool) (sid : nat) (vs : list val) (ts : tst) : val * tst :=
  (VStruct (nloc ts), mkT (leaf ts) (otys ts) (S (nloc ts)) (lists ts) (updm (strs ts) (nloc ts) (fr, sid, vs))).
Definition set_list (loc : nat) (c : bool * list val) (ts : tst) : tst :=
  mkT (leaf ts) (otys ts) (nloc ts) (updm (lists ts) loc c) (strs ts).
Definition set_struct (loc : nat) (c : bool * nat * list val) (ts : tst) : tst :=
  mkT (leaf ts) (otys ts) (nloc ts) (lists ts) (updm (strs ts) loc c).

Fixpoint set_nth {A} (l : list A) (i : nat) (v : A) : list A :=
  match l, i with
  | [], _ => []
  | _ :: t, 0 => v :: t
  | x :: t, S i' => x :: set_nth t i' v
  end.
Fixpoint del_nth {A} (l : list A) (i : nat) : list A :=
  match l, i with
  | [], _ => []
  | _ :: t, 0 => t
  | x :: t, S i' => x :: del_nth t i'
  end.

(** iteration in the state-and-error monad; the recursive functions below recurse on FUEL
    only and hand the previous level to these iterators *)
Fixpoint map_m {A B} (f : A -> tst -> res (B * tst)) (l : list A) (ts : tst) : res (list B * tst) :=
  match l with
  | [] => Ok ([], ts)
  | x :: rest => r <- f x ts ;; r2 <- map_m f rest (snd r) ;; Ok (fst r :: fst r2, snd r2)
  end.
Fixpoint iter_i {A} (f : nat -> A -> tst -> res tst) (i : nat) (l : list A) (ts : tst) : res tst :=
  match l with
  | [] => Ok ts
  | x :: rest => ts1 <- f i x ts ;; iter_i f (S i) rest ts1
  end.
(** stops at the first `False` *)
Fixpoint all_ok {A} (f : A -> tst -> res (bool * tst)) (l : list A) (ts : tst) : res (bool * tst) :=
  match l with
  | [] => Ok (true, ts)
  | x :: rest => r <- f x ts ;; if fst r then all_ok f rest (snd r) else Ok (false, snd r)
  end.

(** unpack_guppy_object(obj, builder, frozen); `rec` = the same function one level down.
    The frozen flags handed on are generated PER TYPE CASE from the source. *)
Definition unpack_step (rec : nat -> bool -> tst -> res (val * tst)) (sd : sdefs) (id : nat) (frozen : bool) (ts : tst)
  : res (val * tst) :=
  let children (fr : bool) :=
    map_m (fun t ts => let '(cid, ts1) := create_t sd t ts in rec cid fr ts1) in
  t <- ty_of id ts ;;
  match t with
  | TNone => Ok (VNone, ts)
  | TTup tys => ts1 <- use_t id ts ;; r <- children (unpack_tuple_child_frozen frozen) tys ts1 ;; Ok (VTup (fst r), snd r)
  | TStruct sid => ts1 <- use_t id ts ;; r <- children (unpack_struct_child_frozen frozen) (nth sid sd []) ts1 ;;
                   Ok (new_struct (unpack_struct_frozen frozen) sid (fst r) (snd r))
  | TArr e 0 => Ok (VObj id, ts)
  | TArr e n => ts1 <- use_t id ts ;; r <- children (unpack_list_child_frozen frozen) (repeat e n) ts1 ;;
                Ok (new_list (unpack_list_frozen frozen) (fst r) (snd r))
  | _ => Ok (VObj id, ts)
  end.
Fixpoint unpack (fuel : nat) (sd : sdefs) (id : nat) (frozen : bool) (ts : tst) : res (val * tst) :=
  match fuel with
  | 0 => Err EStuck
  | S f => unpack_step (unpack f sd) sd id frozen ts
  end.

Fixpoint use_all (ids : list nat) (ts : tst) : res tst :=
  match ids with [] => Ok ts | i :: r => ts1 <- use_t i ts ;; use_all r ts1 end.
Fixpoint tys_of (ids : list nat) (ts : tst) : res (list ty) :=
  match ids with [] => Ok [] | i :: r => t <- ty_of i ts ;; l <- tys_of r ts ;; Ok (t :: l) end.

(** guppy_object_from_py(v, ...) *)
Definition from_py_step (rec : val -> tst -> res (nat * tst)) (sd : sdefs) (v : val) (ts : tst) : res (nat * tst) :=
  match v with
  | VObj id => Ok (id, ts)
  | VNone => Ok (create_t sd TNone ts)
  | VInt => Ok (create_t sd TInt ts)
  | VTup vs =>
    r <- map_m rec vs ts ;; tys <- tys_of (fst r) (snd r) ;; ts2 <- use_all (fst r) (snd r) ;;
    Ok (create_t sd (TTup tys) ts2)
  | VStruct loc =>
    match strs ts loc with
    | None => Err EStuck
    | Some (_, sid, _) =>
      ts1 <- iter_i (fun i ft ts =>
               (* values[f.name] is read when the field is reached *)
               match strs ts loc with
               | Some (_, _, vals) =>
                 r <- rec (nth i vals VNone) ts ;;
                 t <- ty_of (fst r) (snd r) ;;
                 if ty_eqb t ft then use_t (fst r) (snd r) else Err EType
               | None => Err EStuck
               end) 0 (nth sid sd []) ts ;;
      Ok (create_t sd (TStruct sid) ts1)
    end
  | VList loc =>
    match lists ts loc with
    | None => Err EStuck
    | Some (_, []) => Err EType
    | Some (_, vs) =>
      r <- map_m rec vs ts ;; tys <- tys_of (fst r) (snd r) ;;
      match tys with
      | [] => Err EStuck
      | t0 :: rest =>
        if forallb (ty_eqb t0) rest then ts2 <- use_all (fst r) (snd r) ;; Ok (create_t sd (TArr t0 (length vs)) ts2)
        else Err EType
      end
    end
  end.
Fixpoint from_py (fuel : nat) (sd : sdefs) (v : val) (ts : tst) : res (nat * tst) :=
  match fuel with
  | 0 => Err EStuck
  | S f => from_py_step (from_py f sd) sd v ts
  end.

(** `update_packed_value(v, GuppyObject(t, wire), builder)` -> success.  In the code the second
    argument is always a GuppyObject created on the spot, so the model creates it here. *)
Definition upd_step (rec : val -> ty -> tst -> res (bool * tst)) (sd : sdefs) (v : val) (t : ty) (ts : tst)
  : res (bool * tst) :=
  let '(oid, ts0) := create_t sd t ts in
  match v with
  | VObj vid =>
    match objs (leaf ts) vid with
    | None => Err (ENoObj vid)
    | Some _ =>
      tv <- ty_of vid ts0 ;;
      if ty_eqb tv t then       (* assert v_obj._ty == obj._ty *)
        l' <- update_leaf vid oid (leaf ts0) ;; Ok (true, mkT l' (otys ts0) (nloc ts0) (lists ts0) (strs ts0))
      else Err EPy
    end
  | VNone => Ok (true, ts0)
  | VInt => Ok (false, ts0)
  | VTup vs =>
    match t with
    | TTup tys => ts1 <- use_t oid ts0 ;; all_ok (fun p ts => rec (fst p) (snd p) ts) (combine vs tys) ts1
    | _ => Err EStuck
    end
  | VStruct loc =>
    match strs ts0 loc with
    | None => Err EStuck
    | Some (_, sid, _) =>
      ts1 <- use_t oid ts0 ;;
      ts2 <- iter_i (fun i ft ts =>
               match strs ts loc with
               | Some (_, _, vals) =>
                 r <- rec (nth i vals VNone) ft ts ;;
                 if fst r then Ok (snd r)
                 else
                   (* values[field.name] = obj : the WHOLE struct object, already used *)
                   match strs (snd r) loc with
                   | Some (fr2, sid2, vals2) => Ok (set_struct loc (fr2, sid2, set_nth vals2 i (VObj oid)) (snd r))
                   | None => Err EStuck
                   end
               | None => Err EStuck
               end) 0 (nth sid sd []) ts1 ;;
      Ok (true, ts2)
    end
  | VList loc =>
    match lists ts0 loc with
    | None => Err EStuck
    | Some (_, []) => Ok (false, ts0)
    | Some (_, vs) =>
      match t with
      | TArr ety _ =>
        ts1 <- use_t oid ts0 ;;
        ts2 <- iter_i (fun i x ts =>
                 r <- rec x ety ts ;;
                 if fst r then Ok (snd r)
                 else
                   (* vs[i] = obj : the WHOLE array object; a frozenlist rejects the store *)
                   match lists (snd r) loc with
                   | Some (true, _) => Err EFrozen
                   | Some (false, cur) => Ok (set_list loc (false, set_nth cur i (VObj oid)) (snd r))
                   | None => Err EStuck
                   end) 0 vs ts1 ;;
        Ok (true, ts2)
      | _ => Err EStuck
      end
    end
  end.
Fixpoint upd_fresh (fuel : nat) (sd : sdefs) (v : val) (t : ty) (ts : tst) : res (bool * tst) :=
  match fuel with
  | 0 => Err EStuck
  | S f => upd_step (upd_fresh f sd) sd v t ts
  end.

(* ------------------------------------------------------------------------------- scripts *)
Inductive expr := EVar (x : nat) | EIdx (e : expr) (i : nat) | EFld (e : expr) (f : nat)
                | ETup (l : list expr) | ELst (l : list expr) | EInt.
Inductive mutator := MAppend | MPop | MClear | MReverse | MExtend | MInsert | MDel (i : nat) | MIadd | MImul | MInit
                   | MRemove | MSort.
Inductive stmt :=
| SAssign (x : nat) (e : expr)
| SCall (ret : option nat) (params : list (ty * bool)) (rty : ty) (args : list expr)
| SOpaque (borrows : bool) (args : list expr)     (* barrier(..) = true; panic(msg, ..) / exit(msg, sig, ..) = false *)
| SSetIdx (e : expr) (i : nat) (v : expr)
| SSetFld (e : expr) (f : nat) (v : expr)
| SMut (e : expr) (m : mutator) (v : expr)
| SCopy (x : nat) (e : expr)
| SReturn (e : expr).

Definition env := nat -> option val.

Definition eval_step (rec : expr -> tst -> res (val * tst)) (en : env) (e : expr) (ts : tst) : res (val * tst) :=
  match e with
  | EVar x => match en x with Some v => Ok (v, ts) | None => Err EStuck end
  | EInt => Ok (VInt, ts)
  | EIdx e i =>
    r <- rec e ts ;;
    match fst r with
    | VTup vs => match nth_error vs i with Some v => Ok (v, snd r) | None => Err EPy end
    | VList loc => match lists (snd r) loc with
                   | Some (_, vs) => match nth_error vs i with Some v => Ok (v, snd r) | None => Err EPy end
                   | None => Err EStuck end
    | _ => Err EStuck
    end
  | EFld e f =>
    r <- rec e ts ;;
    match fst r with
    | VStruct loc => match strs (snd r) loc with
                     | Some (_, _, vals) => match nth_error vals f with Some v => Ok (v, snd r) | None => Err EStuck end
                     | None => Err EStuck end
    | _ => Err EStuck
    end
  | ETup l => r <- map_m rec l ts ;; Ok (VTup (fst r), snd r)
  | ELst l => r <- map_m rec l ts ;; Ok (new_list false (fst r) (snd r))
  end.
Fixpoint eval_f (fuel : nat) (en : env) (e : expr) (ts : tst) : res (val * tst) :=
  match fuel with
  | 0 => Err EStuck
  | S f => eval_step (eval_f f en) en e ts
  end.
Definition eval := eval_f 12.
Definition eval_all (en : env) := map_m (eval en).
Definition from_py_all (sd : sdefs) := map_m (from_py 8 sd).

(** trace_call.  `mk_params` gives (type, borrowed) per argument: the declared signature for
    ordinary callees (and for the variant an overloaded function resolves to); for callees
    without a signature of their own (barrier / panic / exit) every argument is accepted at its
    own type and is borrowed (barrier) or consumed (panic, exit) according to the checked call. *)
Definition call_gen (sd : sdefs) (mk_params : list ty -> list (ty * bool)) (rty : ty) (args : list val) (ts : tst)
  : res (val * tst) :=
  r <- from_py_all sd args ts ;;
  ts1 <- use_all (fst r) (snd r) ;;
  tys <- tys_of (fst r) ts1 ;;
  let params := mk_params tys in
  if negb (Nat.eqb (length tys) (length params)) then Err EStuck else
  if negb (forallb (fun p => ty_eqb (fst p) (fst (snd p))) (combine tys params)) then Err EType else
  ts2 <- iter_i (fun _ (a : val * (ty * (ty * bool))) ts =>
           if snd (snd (snd a)) then
             r <- upd_fresh 8 sd (fst a) (fst (snd a)) ts ;;
             if fst r then Ok (snd r) else Err EType
           else Ok ts) 0 (combine args (combine tys params)) ts1 ;;
  let '(rid, ts3) := create_t sd rty ts2 in
  unpack 8 sd rid false ts3.
Definition call_fn (sd : sdefs) (params : list (ty * bool)) := call_gen sd (fun _ => params).
Definition call_opaque (sd : sdefs) (borrows : bool) := call_gen sd (map (fun t => (t, borrows))) TNone.

Definition mutate (m : mutator) (cur : list val) (v : val) : res (list val) :=
  match m with
  | MAppend | MExtend | MIadd => Ok (cur ++ [v])
  | MPop => match cur with [] => Err EPy | _ => Ok (removelast cur) end
  | MClear | MInit => Ok []
  | MReverse => Ok (rev cur)
  | MInsert => Ok (v :: cur)
  | MDel i => if Nat.ltb i (length cur) then Ok (del_nth cur i) else Err EPy
  | MImul => Ok (cur ++ cur)
  | MRemove | MSort => Err EStuck       (* compare elements: only generated on frozen lists *)
  end.

(** one statement; None = fell through, Some v = returned v *)
Definition exec (sd : sdefs) (s : stmt) (en : env) (ts : tst) : res (env * tst * option val) :=
  match s with
  | SAssign x e => r <- eval en e ts ;; Ok (updm en x (fst r), snd r, None)
  | SCall ret params rty args =>
    r <- eval_all en args ts ;;
    r2 <- call_fn sd params rty (fst r) (snd r) ;;
    Ok (match ret with Some x => updm en x (fst r2) | None => en end, snd r2, None)
  | SOpaque borrows args =>
    r <- eval_all en args ts ;;
    r2 <- call_opaque sd borrows (fst r) (snd r) ;;
    Ok (en, snd r2, None)
  | SSetIdx e i v =>
    rv <- eval en v ts ;; r <- eval en e (snd rv) ;;
    match fst r with
    | VList loc =>
      match lists (snd r) loc with
      | Some (true, _) => Err EFrozen
      | Some (false, cur) => if Nat.ltb i (length cur) then Ok (en, set_list loc (false, set_nth cur i (fst rv)) (snd r), None) else Err EPy
      | None => Err EStuck
      end
    | VTup _ => Err EPy
    | _ => Err EStuck
    end
  | SSetFld e f v =>
    rv <- eval en v ts ;; r <- eval en e (snd rv) ;;
    match fst r with
    | VStruct loc =>
      match strs (snd r) loc with
      | Some (fr, sid, vals) =>
        match setattr_outcome (Nat.ltb f (length vals)) fr with
        | SStored => Ok (en, set_struct loc (fr, sid, set_nth vals f (fst rv)) (snd r), None)
        | SRaiseFrozen => Err EFrozen
        | SRaiseAttr => Err EPy
        | SNothing => Ok (en, snd r, None)
        end
      | None => Err EStuck
      end
    | _ => Err EStuck
    end
  | SMut e m v =>
    r <- eval en e ts ;; rv <- eval en v (snd r) ;;
    match fst r with
    | VList loc =>
      match lists (snd rv) loc with
      | Some (true, _) => Err EFrozen
      | Some (false, cur) => nw <- mutate m cur (fst rv) ;; Ok (en, set_list loc (false, nw) (snd rv), None)
      | None => Err EStuck
      end
    | _ => Err EStuck
    end
  | SCopy x e =>
    r <- eval en e ts ;;
    match fst r with
    | VList loc =>
      match lists (snd r) loc with
      | Some (_, cur) => let '(v, ts1) := new_list false cur (snd r) in Ok (updm en x v, ts1, None)
      | None => Err EStuck
      end
    | _ => Err EStuck
    end
  | SReturn e => r <- eval en e ts ;; Ok (en, snd r, Some (fst r))
  end.

Fixpoint exec_body (sd : sdefs) (body : list stmt) (en : env) (ts : tst) : res (tst * val) :=
  match body with
  | [] => Ok (ts, VNone)
  | s :: rest =>
    r <- exec sd s en ts ;;
    match r with
    | (en', ts', Some v) => Ok (ts', v)
    | (en', ts', None) => exec_body sd rest en' ts'
    end
  end.

(** trace_function: parameters are (type, borrowed); parameter i is variable i *)
Definition receive_inputs (sd : sdefs) (params : list (ty * bool)) (ts : tst) : res (list val * tst) :=
  map_m (fun (p : ty * bool) ts => let '(id, ts1) := create_t sd (fst p) ts in unpack 8 sd id (input_frozen (snd p)) ts1) params ts.
Definition return_inouts (sd : sdefs) (ins : list (val * (ty * bool))) (ts : tst) : res tst :=
  iter_i (fun _ (a : val * (ty * bool)) ts =>
    if snd (snd a) then
      r <- from_py 8 sd (fst a) ts ;; ts' <- use_t (fst r) (snd r) ;;
      t' <- ty_of (fst r) ts' ;;
      if ty_eqb t' (fst (snd a)) then Ok ts' else Err EType
    else Ok ts) 0 ins ts.
Definition trace_function (sd : sdefs) (params : list (ty * bool)) (rty : ty) (body : list stmt) : res unit :=
  r <- receive_inputs sd params tst0 ;;
  let en : env := fun i => nth_error (fst r) i in
  r2 <- exec_body sd body en (snd r) ;;
  ro <- from_py 8 sd (snd r2) (fst r2) ;;
  t <- ty_of (fst ro) (snd ro) ;;
  if negb (ty_eqb t rty) then Err EType else
  ts2 <- (match t with TNone | TTup [] => Ok (snd ro) | _ => use_t (fst ro) (snd ro) end) ;;
  ts3 <- return_inouts sd (combine (fst r) params) ts2 ;;
  end_check (leaf ts3).

(** verdict classes compared with the implementation *)
Definition verdict (r : res unit) : nat :=
  match r with
  | Ok _ => 0
  | Err (EAlreadyUsed _) => 1
  | Err (ELeak _) => 2
  | Err EFrozen => 3
  | Err EType => 4
  | Err EPy => 5
  | Err (EKeyError _) => 6
  | Err (ENoObj _) => 7
  | Err EStuck => 8
  end.
