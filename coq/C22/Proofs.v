(** C22 — lemmas.  The spec side is written over the HISTORY of a script (the reversed list
    of leaf operations), independently of the state the model keeps. *)
From Coq Require Import List Bool Arith Lia String ZArith.
Import ListNotations.
From V.C22 Require Import GenTracing ModelTracing ModelFrozen.
Local Open Scope nat_scope.

(* ---------------------------------------------------------------- facts read off the source *)
Lemma init_registers_spec : forall c d, init_registers c d false = negb d.
Proof. intros [] []; reflexivity. Qed.
Lemma use_raises_spec : forall c d u, use_raises c d u = u && negb c.
Proof. intros [] [] []; reflexivity. Qed.
Lemma use_pops_spec : forall c d, use_pops c d true = negb d.
Proof. intros [] []; reflexivity. Qed.
Lemma upd_registers_spec : forall c d u, upd_registers c d u = negb d && u.
Proof. intros [] [] []; reflexivity. Qed.
Lemma leak_raises_spec : forall ne, leak_raises ne = ne.
Proof. intros []; reflexivity. Qed.

(* from here on the generated functions are only used through these equations *)
Definition create' (k : kind) (s : st) : nat * st :=
  (next s, mkSt (S (next s)) (upd (objs s) (next s) (mkObj k false))
                (if negb (droppable k) then dict_set (next s) (unused s) else unused s)).
Definition use_wire' (id : nat) (s : st) : res st :=
  match objs s id with
  | None => Err (ENoObj id)
  | Some o =>
    if oused o && negb (copyable (okind o)) then Err (EAlreadyUsed id)
    else if negb (droppable (okind o)) then
        match dict_pop id (unused s) with
        | Some u => Ok (mkSt (next s) (upd (objs s) id (mkObj (okind o) true)) u)
        | None => Err (EKeyError id)
        end
      else Ok (mkSt (next s) (upd (objs s) id (mkObj (okind o) true)) (unused s))
  end.
Definition update_leaf' (vid nid : nat) (s : st) : res st :=
  bind (use_wire' nid s) (fun s1 =>
  match objs s1 vid with
  | None => Err (ENoObj vid)
  | Some o =>
    Ok (mkSt (next s1) (upd (objs s1) vid (mkObj (okind o) false))
             (if negb (droppable (okind o)) && oused o then dict_set vid (unused s1) else unused s1))
  end).
Lemma create_eq : forall k s, create k s = create' k s.
Proof. intros. unfold create, create'. rewrite init_registers_spec. reflexivity. Qed.
Lemma use_wire_eq : forall id s, use_wire id s = use_wire' id s.
Proof.
  intros. unfold use_wire, use_wire'. destruct (objs s id); [|reflexivity].
  rewrite use_raises_spec, use_pops_spec. reflexivity.
Qed.
Lemma update_leaf_eq : forall v n s, update_leaf v n s = update_leaf' v n s.
Proof.
  intros. unfold update_leaf, update_leaf'. rewrite use_wire_eq. destruct (use_wire' n s); [|reflexivity].
  simpl. destruct (objs a v); [|reflexivity]. rewrite upd_registers_spec. reflexivity.
Qed.

(* ---------------------------------------------------------------------------- dict lemmas *)
Lemma dict_mem_In : forall id l, dict_mem id l = true <-> In id l.
Proof.
  intros id l. unfold dict_mem. rewrite existsb_exists. split.
  - intros [x [H1 H2]]. apply Nat.eqb_eq in H2. subst. exact H1.
  - intros H. exists id. split; [exact H | apply Nat.eqb_refl].
Qed.
Lemma dict_set_In : forall id l x, In x (dict_set id l) <-> x = id \/ In x l.
Proof.
  intros id l x. unfold dict_set. destruct (dict_mem id l) eqn:E.
  - apply dict_mem_In in E. split; [auto | intros [->|H]; auto].
  - rewrite in_app_iff. simpl. split; [intros [H|[H|[]]]; auto | intros [H|H]; auto].
Qed.
Lemma dict_pop_Some : forall id l u, dict_pop id l = Some u -> In id l /\ forall x, In x u <-> (In x l /\ x <> id).
Proof.
  intros id l u. unfold dict_pop. destruct (dict_mem id l) eqn:E; [|discriminate].
  intros H. inversion H; subst; clear H. apply dict_mem_In in E. split; [exact E|].
  intros x. rewrite filter_In. rewrite negb_true_iff, Nat.eqb_neq. tauto.
Qed.
Lemma dict_pop_None : forall id l, dict_pop id l = None <-> ~ In id l.
Proof.
  intros id l. unfold dict_pop. destruct (dict_mem id l) eqn:E.
  - apply dict_mem_In in E. split; [discriminate | tauto].
  - split; [|reflexivity]. intros _ H. apply dict_mem_In in H. congruence.
Qed.

(* ----------------------------------------------------------------- history-based specification *)
(** number of GuppyObjects allocated by a history (most recent operation first) *)
Fixpoint nallocs (r : list lop) : nat :=
  match r with [] => 0 | LUse _ :: r' => nallocs r' | _ :: r' => S (nallocs r') end.
(** the kind of the object with a given id, if the history allocated it *)
Fixpoint kind_of (r : list lop) (id : nat) : option kind :=
  match r with
  | [] => None
  | LCreate k :: r' => if id =? nallocs r' then Some k else kind_of r' id
  | LReassign j k :: r' => if id =? nallocs r' then Some k else kind_of r' id
  | LUse _ :: r' => kind_of r' id
  end.
(** how often the object was consumed since it was created / last got a fresh wire *)
Fixpoint uses (r : list lop) (id : nat) : nat :=
  match r with
  | [] => 0
  | LCreate _ :: r' => if id =? nallocs r' then 0 else uses r' id
  | LUse j :: r' => if id =? j then S (uses r' id) else uses r' id
  | LReassign j _ :: r' => if id =? nallocs r' then 1 else if id =? j then 0 else uses r' id
  end.
(** every Guppy type that is copyable is droppable (there are no relevant types) *)
Definition wf_kind (k : kind) : Prop := copyable k = true -> droppable k = true.
Definition wf_ops (ops : list lop) : Prop :=
  forall k, (In (LCreate k) ops \/ exists j, In (LReassign j k) ops) -> wf_kind k.
(** the operation is allowed after history r *)
Definition allowed (r : list lop) (o : lop) : Prop :=
  match o with
  | LCreate _ => True
  | LUse j => exists k, kind_of r j = Some k /\ (copyable k = true \/ uses r j = 0)
  | LReassign j _ => exists k, kind_of r j = Some k
  end.

Definition Inv (r : list lop) (s : st) : Prop :=
  next s = nallocs r /\
  (forall id, objs s id = match kind_of r id with Some k => Some (mkObj k (0 <? uses r id)) | None => None end) /\
  (forall id, In id (unused s) <-> exists k, kind_of r id = Some k /\ droppable k = false /\ uses r id = 0) /\
  (forall id k, kind_of r id = Some k -> wf_kind k /\ id < nallocs r /\ (copyable k = false -> uses r id <= 1)).

Ltac split_inv :=
  refine (conj _ (conj _ (conj _ _)));
  [ | intros id | intros id; split | intros id k0 H; refine (conj _ (conj _ _)) ].

Lemma Inv0 : Inv [] st0.
Proof.
  repeat split; simpl; intros; try discriminate; try tauto.
  destruct H as [k [H _]]. discriminate.
Qed.

Lemma kind_of_lt : forall r s id k, Inv r s -> kind_of r id = Some k -> id < nallocs r.
Proof. intros r s id k (_ & _ & _ & H) E. apply H in E. tauto. Qed.

Lemma kind_of_fresh : forall r s, Inv r s -> kind_of r (nallocs r) = None.
Proof.
  intros r s I. destruct (kind_of r (nallocs r)) eqn:E; [|reflexivity].
  apply (kind_of_lt _ _ _ _ I) in E. lia.
Qed.

(* ---- create *)
Lemma step_create : forall r s k, Inv r s -> wf_kind k -> Inv (LCreate k :: r) (snd (create k s)).
Proof.
  intros r s k I W. pose proof (kind_of_fresh _ _ I) as F.
  destruct I as (N & O & U & K). rewrite create_eq. unfold create'. simpl.
  split_inv.
  - simpl. rewrite N. reflexivity.
  - unfold upd. simpl. rewrite N. destruct (id =? nallocs r) eqn:E; [reflexivity | apply O].
  - simpl. destruct (droppable k) eqn:D; simpl.
    + intros H. apply U in H. destruct H as [k' [H1 [H2 H3]]]. exists k'.
      destruct (id =? nallocs r) eqn:E; [apply Nat.eqb_eq in E; subst; congruence | auto].
    + intros H. apply dict_set_In in H. destruct H as [->|H].
      * exists k. rewrite N, Nat.eqb_refl. auto.
      * apply U in H. destruct H as [k' [H1 [H2 H3]]]. exists k'.
        destruct (id =? nallocs r) eqn:E; [apply Nat.eqb_eq in E; subst; congruence | auto].
  - simpl. intros [k' [H1 [H2 H3]]]. destruct (id =? nallocs r) eqn:E.
    + apply Nat.eqb_eq in E. inversion H1; subst k'. rewrite H2. simpl. apply dict_set_In. left. congruence.
    + assert (In id (unused s)) by (apply U; exists k'; auto).
      destruct (droppable k); simpl; [auto | apply dict_set_In; auto].
  - simpl in H. destruct (id =? nallocs r) eqn:E; [inversion H; subst; exact W | apply K in H; tauto].
  - simpl in *. destruct (id =? nallocs r) eqn:E; [apply Nat.eqb_eq in E; lia | apply K in H; lia].
  - simpl in *. destruct (id =? nallocs r) eqn:E; [lia | apply K in H; tauto].
Qed.

(* ---- use *)
Lemma use_wire_char : forall r s j, Inv r s ->
  match use_wire j s with
  | Ok s' => allowed r (LUse j) /\ Inv (LUse j :: r) s'
  | Err e => ~ allowed r (LUse j) /\
             e = match kind_of r j with None => ENoObj j | Some _ => EAlreadyUsed j end
  end.
Proof.
  intros r s j I. pose proof I as (N & O & U & K). rewrite use_wire_eq. unfold use_wire'. rewrite O.
  destruct (kind_of r j) as [k|] eqn:E.
  2:{ simpl. split; [intros [k [H _]]; congruence | reflexivity]. }
  simpl.
  destruct (K _ _ E) as (W & L & C1).
  destruct (0 <? uses r j) eqn:Us; simpl.
  - apply Nat.ltb_lt in Us. destruct (copyable k) eqn:C; simpl.
    + (* copyable, used before: droppable, no pop *)
      rewrite (W C). simpl. split; [exists k; auto|].
      split_inv; simpl in *.
      * exact N.
      * unfold upd. destruct (id =? j) eqn:Ej.
        -- apply Nat.eqb_eq in Ej. subst. rewrite E. reflexivity.
        -- apply O.
      * intros H. apply U in H. destruct H as [k' [H1 [H2 H3]]]. exists k'.
        destruct (id =? j) eqn:Ej; [apply Nat.eqb_eq in Ej; subst; lia | auto].
      * intros [k' [H1 [H2 H3]]]. apply U. exists k'. destruct (id =? j); [discriminate | auto].
      * apply K in H. tauto.
      * apply K in H. tauto.
      * intros Hc. destruct (id =? j) eqn:Ej; [apply Nat.eqb_eq in Ej; subst; congruence | apply K in H; tauto].
    + split; [|reflexivity]. intros [k' [H1 [H2|H2]]]; [congruence | lia].
  - apply Nat.ltb_ge in Us. assert (Uz : uses r j = 0) by lia.
    destruct (droppable k) eqn:D; simpl.
    + split; [exists k; auto|]. split_inv; simpl in *.
      * exact N.
      * unfold upd. destruct (id =? j) eqn:Ej.
        -- apply Nat.eqb_eq in Ej. subst. rewrite E. reflexivity.
        -- apply O.
      * intros H. apply U in H. destruct H as [k' [H1 [H2 H3]]]. exists k'.
        destruct (id =? j) eqn:Ej; [apply Nat.eqb_eq in Ej; subst; congruence | auto].
      * intros [k' [H1 [H2 H3]]]. apply U. exists k'. destruct (id =? j); [discriminate | auto].
      * apply K in H. tauto.
      * apply K in H. tauto.
      * intros Hc. destruct (id =? j) eqn:Ej; [apply Nat.eqb_eq in Ej; subst; lia | apply K in H; tauto].
    + assert (Hin : In j (unused s)) by (apply U; exists k; auto).
      destruct (dict_pop j (unused s)) as [u|] eqn:P.
      2:{ apply dict_pop_None in P. contradiction. }
      apply dict_pop_Some in P. destruct P as [_ P].
      split; [exists k; auto|]. split_inv; simpl in *.
      * exact N.
      * unfold upd. destruct (id =? j) eqn:Ej.
        -- apply Nat.eqb_eq in Ej. subst. rewrite E. reflexivity.
        -- apply O.
      * intros H. apply P in H. destruct H as [H Hne]. apply U in H. destruct H as [k' [H1 [H2 H3]]]. exists k'.
        destruct (id =? j) eqn:Ej; [apply Nat.eqb_eq in Ej; contradiction | auto].
      * intros [k' [H1 [H2 H3]]]. apply P. destruct (id =? j) eqn:Ej; [discriminate|].
        apply Nat.eqb_neq in Ej. split; [apply U; exists k'; auto | exact Ej].
      * apply K in H. tauto.
      * apply K in H. tauto.
      * intros Hc. destruct (id =? j) eqn:Ej; [apply Nat.eqb_eq in Ej; subst; lia | apply K in H; tauto].
Qed.

(* ---- reassign *)
Lemma step_reassign : forall r s j k2, Inv r s -> wf_kind k2 ->
  match step (LReassign j k2) s with
  | Ok s' => allowed r (LReassign j k2) /\ Inv (LReassign j k2 :: r) s'
  | Err e => ~ allowed r (LReassign j k2) /\ e = ENoObj j
  end.
Proof.
  intros r s j k2 I W2. pose proof (kind_of_fresh _ _ I) as F. pose proof I as (N & O & U & K).
  unfold step. rewrite O. destruct (kind_of r j) as [k|] eqn:E.
  2:{ simpl. split; [intros [k H]; congruence | reflexivity]. }
  simpl okind. destruct (K _ _ E) as (W & L & C1).
  assert (Jn : j <> nallocs r) by lia.
  rewrite create_eq. unfold create'. rewrite update_leaf_eq. unfold update_leaf', use_wire'. simpl.
  unfold upd at 1. rewrite N, Nat.eqb_refl. simpl.
  (* the fresh object is popped iff it was registered *)
  set (u1 := if negb (droppable k2) then dict_set (nallocs r) (unused s) else unused s).
  assert (P : exists u2, (if negb (droppable k2) then match dict_pop (nallocs r) u1 with Some u => Ok (mkSt (S (nallocs r)) (upd (upd (objs s) (nallocs r) (mkObj k2 false)) (nallocs r) (mkObj k2 true)) u) | None => Err (EKeyError (nallocs r)) end else Ok (mkSt (S (nallocs r)) (upd (upd (objs s) (nallocs r) (mkObj k2 false)) (nallocs r) (mkObj k2 true)) u1))
             = Ok (mkSt (S (nallocs r)) (upd (upd (objs s) (nallocs r) (mkObj k2 false)) (nallocs r) (mkObj k2 true)) u2)
             /\ forall x, In x u2 <-> In x (unused s)).
  { subst u1. destruct (droppable k2) eqn:D; simpl.
    - exists (unused s). split; [reflexivity | tauto].
    - destruct (dict_pop (nallocs r) (dict_set (nallocs r) (unused s))) as [u|] eqn:Pp.
      + exists u. split; [reflexivity|]. apply dict_pop_Some in Pp. destruct Pp as [_ Pp].
        intros x. rewrite Pp, dict_set_In. split.
        * intros [[->|H] Hne]; [contradiction | exact H].
        * intros H. split; [auto|]. intros ->. apply U in H. destruct H as [k' [H _]]. congruence.
      + apply dict_pop_None in Pp. exfalso. apply Pp. apply dict_set_In. auto. }
  destruct P as [u2 [P1 P2]]. rewrite P1. simpl. clear P1.
  unfold upd at 1 2. destruct (j =? nallocs r) eqn:Ej; [apply Nat.eqb_eq in Ej; contradiction|].
  rewrite O, E. simpl.
  split; [exists k; reflexivity|].
  split_inv; simpl in *.
  - reflexivity.
  - unfold upd. destruct (id =? j) eqn:E1.
    + apply Nat.eqb_eq in E1. subst id. rewrite Ej. rewrite E. reflexivity.
    + destruct (id =? nallocs r) eqn:E2; [reflexivity | apply O].
  - intros H. assert (H' : id = j /\ droppable k = false \/ In id (unused s)).
    { destruct (negb (droppable k) && (0 <? uses r j)) eqn:B.
      - apply dict_set_In in H. destruct H as [->|H]; [|right; apply P2; exact H].
        apply andb_true_iff in B. destruct B as [B _]. apply negb_true_iff in B. auto.
      - right. apply P2. exact H. }
    destruct H' as [[-> D]|H'].
    + exists k. rewrite Ej, Nat.eqb_refl. auto.
    + apply U in H'. destruct H' as [k' [H1 [H2 H3]]].
      assert (id <> nallocs r) by (intros ->; congruence).
      apply Nat.eqb_neq in H0. rewrite H0. exists k'.
      destruct (id =? j) eqn:E1; auto.
  - intros [k' [H1 [H2 H3]]]. destruct (id =? nallocs r) eqn:E2; [discriminate|].
    destruct (id =? j) eqn:E1.
    + apply Nat.eqb_eq in E1. subst id. assert (k' = k) by congruence. subst k'.
      destruct (0 <? uses r j) eqn:Us; rewrite H2; simpl.
      * apply dict_set_In. auto.
      * apply P2. apply U. exists k. apply Nat.ltb_ge in Us. repeat split; auto. lia.
    + assert (In id (unused s)) by (apply U; exists k'; auto).
      destruct (negb (droppable k) && (0 <? uses r j)); [apply dict_set_In; right|]; apply P2; assumption.
  - destruct (id =? nallocs r) eqn:E2; [assert (k0 = k2) by congruence; subst; exact W2 | apply K in H; tauto].
  - destruct (id =? nallocs r) eqn:E2; [apply Nat.eqb_eq in E2; lia | apply K in H; lia].
  - intros Hc. destruct (id =? nallocs r) eqn:E2; [lia|].
    destruct (id =? j); [lia | apply K in H; tauto].
Qed.

(* ---- any step *)
Lemma step_char : forall r s o, Inv r s -> (forall k, (o = LCreate k \/ exists j, o = LReassign j k) -> wf_kind k) ->
  match step o s with
  | Ok s' => allowed r o /\ Inv (o :: r) s'
  | Err e => ~ allowed r o /\
             e = match o with
                 | LUse j => match kind_of r j with None => ENoObj j | Some _ => EAlreadyUsed j end
                 | LReassign j _ => ENoObj j
                 | LCreate _ => EStuck
                 end
  end.
Proof.
  intros r s [k|j|j k] I W.
  - simpl. split; [exact Logic.I | apply step_create; auto].
  - apply use_wire_char; exact I.
  - apply step_reassign; [exact I | apply W; right; exists j; reflexivity].
Qed.

Lemma lrun_app : forall a b s, lrun (a ++ b) s = bind (lrun a s) (lrun b).
Proof.
  induction a as [|o a IH]; intros b s; simpl; [reflexivity|].
  destruct (step o s); simpl; [apply IH | reflexivity].
Qed.

Lemma lrun_single : forall o s, lrun [o] s = step o s.
Proof. intros. simpl. destruct (step o s); reflexivity. Qed.

(** all prefixes of a script are allowed *)
Fixpoint legal (r : list lop) (ops : list lop) : Prop :=
  match ops with [] => True | o :: t => allowed r o /\ legal (o :: r) t end.

Lemma lrun_inv_gen : forall ops r s, Inv r s -> wf_ops ops ->
  match lrun ops s with
  | Ok s' => legal r ops /\ Inv (rev ops ++ r) s'
  | Err _ => ~ legal r ops
  end.
Proof.
  induction ops as [|o t IH]; intros r s I W; simpl.
  - split; [exact Logic.I | exact I].
  - pose proof (step_char r s o I) as H.
    assert (Wo : forall k, (o = LCreate k \/ exists j, o = LReassign j k) -> wf_kind k).
    { intros k [->|[j ->]]; apply W; [left; left; reflexivity | right; exists j; left; reflexivity]. }
    specialize (H Wo). destruct (step o s) as [s'|e]; simpl.
    + destruct H as [A I']. assert (Wt : wf_ops t).
      { intros k [Hk|[j Hk]]; apply W; [left; right; exact Hk | right; exists j; right; exact Hk]. }
      specialize (IH (o :: r) s' I' Wt). destruct (lrun t s').
      * destruct IH as [L I'']. split; [split; assumption|]. rewrite <- app_assoc. exact I''.
      * intros [_ L]. apply IH. exact L.
    + destruct H as [A _]. intros [A' _]. contradiction.
Qed.

Lemma lrun_inv : forall ops s, wf_ops ops -> lrun ops st0 = Ok s -> legal [] ops /\ Inv (rev ops) s.
Proof.
  intros ops s W H. pose proof (lrun_inv_gen ops [] st0 Inv0 W) as G. rewrite H in G.
  rewrite app_nil_r in G. exact G.
Qed.

Lemma lrun_legal_iff : forall ops, wf_ops ops -> ((exists s, lrun ops st0 = Ok s) <-> legal [] ops).
Proof.
  intros ops W. pose proof (lrun_inv_gen ops [] st0 Inv0 W) as G. destruct (lrun ops st0) as [s|e].
  - split; [intros _; apply G | intros _; exists s; reflexivity].
  - split; [intros [s H]; discriminate | intros L; contradiction].
Qed.

(* ------------------------------------------------------------------------------ use_once *)
Lemma wf_ops_app : forall a b, wf_ops (a ++ b) -> wf_ops a.
Proof.
  intros a b W k [H|[j H]]; apply W; [left | right; exists j]; apply in_or_app; auto.
Qed.

Lemma use_once_lemma : forall pre suf s id k, wf_ops (pre ++ suf) -> lrun (pre ++ suf) st0 = Ok s ->
  kind_of (rev pre) id = Some k -> copyable k = false -> uses (rev pre) id <= 1.
Proof.
  intros pre suf s id k W H E C. rewrite lrun_app in H.
  destruct (lrun pre st0) as [s1|] eqn:H1; [|discriminate].
  apply lrun_inv in H1; [|eapply wf_ops_app; exact W]. destruct H1 as [_ (_ & _ & _ & K)].
  apply K in E. tauto.
Qed.

Lemma second_use_raises_lemma : forall ops s id k, wf_ops ops -> lrun ops st0 = Ok s ->
  kind_of (rev ops) id = Some k -> copyable k = false -> uses (rev ops) id = 1 ->
  lrun (ops ++ [LUse id]) st0 = Err (EAlreadyUsed id).
Proof.
  intros ops s id k W H E C U1. rewrite lrun_app, H. simpl.
  apply lrun_inv in H; [|exact W]. destruct H as [_ I].
  pose proof (use_wire_char _ _ id I) as G. destruct (use_wire id s) as [s'|e].
  - destruct G as [[k' [E' [C'|U']]] _]; [congruence | lia].
  - destruct G as [_ ->]. rewrite E. reflexivity.
Qed.

Lemma first_use_ok_lemma : forall ops s id k, wf_ops ops -> lrun ops st0 = Ok s ->
  kind_of (rev ops) id = Some k -> (copyable k = true \/ uses (rev ops) id = 0) ->
  exists s', lrun (ops ++ [LUse id]) st0 = Ok s' /\ uses (rev (ops ++ [LUse id])) id = S (uses (rev ops) id).
Proof.
  intros ops s id k W H E A. rewrite lrun_app, H. simpl.
  apply lrun_inv in H; [|exact W]. destruct H as [_ I].
  pose proof (use_wire_char _ _ id I) as G. destruct (use_wire id s) as [s'|e].
  - exists s'. split; [reflexivity|]. rewrite rev_app_distr. simpl. rewrite Nat.eqb_refl. reflexivity.
  - destruct G as [G _]. exfalso. apply G. exists k. auto.
Qed.

Lemma reassign_resets_lemma : forall ops s id k, wf_ops ops -> lrun ops st0 = Ok s ->
  kind_of (rev ops) id = Some k ->
  forall k2, wf_kind k2 ->
  exists s', lrun (ops ++ [LReassign id k2]) st0 = Ok s' /\ uses (rev (ops ++ [LReassign id k2])) id = 0
             /\ kind_of (rev (ops ++ [LReassign id k2])) id = Some k.
Proof.
  intros ops s id k W H E k2 W2. rewrite lrun_app, H.
  change (bind (Ok s) (lrun [LReassign id k2])) with (lrun [LReassign id k2] s). rewrite lrun_single.
  apply lrun_inv in H; [|exact W]. destruct H as [_ I].
  pose proof (step_reassign _ _ id k2 I W2) as G. destruct (step (LReassign id k2) s) as [s'|e].
  - exists s'. split; [reflexivity|]. rewrite rev_app_distr. simpl.
    pose proof (kind_of_lt _ _ _ _ I E) as L.
    assert (id =? nallocs (rev ops) = false) by (apply Nat.eqb_neq; lia).
    rewrite H, Nat.eqb_refl. auto.
  - destruct G as [G _]. exfalso. apply G. exists k. exact E.
Qed.

(* --------------------------------------------------------------------------- leak_detected *)
Definition leaked (r : list lop) (id : nat) : Prop :=
  exists k, kind_of r id = Some k /\ droppable k = false /\ uses r id = 0.

Lemma leak_detected_lemma : forall ops s, wf_ops ops -> lrun ops st0 = Ok s ->
  (end_check s = Ok tt <-> ~ exists id, leaked (rev ops) id) /\
  (forall e, end_check s = Err e -> exists id, e = ELeak id /\ leaked (rev ops) id).
Proof.
  intros ops s W H. apply lrun_inv in H; [|exact W]. destruct H as [_ (N & O & U & K)].
  unfold end_check. rewrite leak_raises_spec. destruct (unused s) as [|a l] eqn:Eu; simpl negb; cbv iota.
  - assert (NoLeak : ~ exists id, leaked (rev ops) id).
    { intros [id L]. apply U in L. destruct L. }
    split; [tauto|]. intros e He. discriminate.
  - assert (Hl : In (last (a :: l) 0) (a :: l)).
    { destruct (exists_last (l := a :: l)) as [l' [x Hx]]; [discriminate|].
      rewrite Hx. rewrite last_last. apply in_or_app. right. left. reflexivity. }
    apply U in Hl. fold (leaked (rev ops) (last (a :: l) 0)) in Hl.
    split.
    + split; [discriminate|]. intros Hn. exfalso. apply Hn. exists (last (a :: l) 0). exact Hl.
    + intros e He. inversion He. eexists. split; [reflexivity | exact Hl].
Qed.

(* ------------------------------------------------------------------------------- frozen *)
Lemma lookup_raise_call : forall ovr m arg fl, lookup m ovr = Some BRaise -> call ovr m arg fl = ORaised fl.
Proof. intros. unfold call. rewrite H. reflexivity. Qed.

(** decidable check that one mutator is rejected on every constructed frozenlist *)
Definition rejects (ovr : list (string * body)) (m : string) : bool :=
  match lookup m ovr with
  | Some BRaise => true
  | Some BInitGuard => match lookup "__init__" ovr with Some BInitGuard => String.eqb m "__init__" | _ => false end
  | _ => false
  end.

Lemma rejects_sound : forall ovr m, rejects ovr m = true ->
  forall xs arg fl, construct ovr xs = Some fl -> call ovr m arg fl = ORaised fl.
Proof.
  intros ovr m R xs arg fl C. unfold rejects in R. unfold construct, call in C.
  destruct (lookup m ovr) as [[| | |]|] eqn:Lm; try discriminate.
  - unfold call. rewrite Lm. reflexivity.
  - destruct (lookup "__init__" ovr) as [[| | |]|] eqn:Li; try discriminate.
    simpl in C. inversion C; subst fl. unfold call. rewrite Lm. reflexivity.
Qed.

(** the constructor installs the given elements *)
Definition init_ok (ovr : list (string * body)) : bool :=
  match lookup "__init__" ovr with None => true | Some BInitGuard => true | _ => false end.
Lemma construct_contents : forall ovr xs, init_ok ovr = true ->
  exists fl, construct ovr xs = Some fl /\ contents fl = xs.
Proof.
  intros ovr xs I. unfold init_ok in I. unfold construct, call.
  destruct (lookup "__init__" ovr) as [[| | |]|]; try discriminate; simpl; eexists; split; reflexivity.
Qed.

Lemma frozen_total_lemma : forall ovr muts, init_ok ovr = true -> forallb (rejects ovr) muts = true ->
  forall xs, exists fl, construct ovr xs = Some fl /\ contents fl = xs /\
    forall m arg, In m muts -> call ovr m arg fl = ORaised fl.
Proof.
  intros ovr muts I F xs. destruct (construct_contents ovr xs I) as [fl [C1 C2]].
  exists fl. repeat split; auto. intros m arg Hm. rewrite forallb_forall in F.
  eapply rejects_sound; [apply F; exact Hm | exact C1].
Qed.

(* ------------------------------------------------------------------- whole traced function *)
Lemma trace_leaf_verdict_lemma : forall ins body ret,
  let ops := (map LCreate ins ++ body ++ map LUse ret)%list in
  wf_ops ops ->
  (trace_leaf ins body ret = Ok tt <-> (legal [] ops /\ ~ exists id, leaked (rev ops) id)) /\
  (forall e, trace_leaf ins body ret = Err e ->
     (exists id, e = ELeak id /\ legal [] ops /\ leaked (rev ops) id) \/ ~ legal [] ops).
Proof.
  intros ins body ret ops W. unfold trace_leaf. fold ops.
  pose proof (lrun_legal_iff ops W) as LI.
  destruct (lrun ops st0) as [s|e0] eqn:R; simpl.
  - pose proof (leak_detected_lemma ops s W R) as (L1 & L2).
    assert (Lg : legal [] ops) by (apply LI; exists s; reflexivity).
    split.
    + rewrite L1. tauto.
    + intros e He. left. destruct (L2 e He) as [id [-> Hl]]. exists id. auto.
  - split.
    + split; [discriminate|]. intros [Lg _]. apply LI in Lg. destruct Lg as [s Hs]. discriminate.
    + intros e He. right. intros Lg. apply LI in Lg. destruct Lg as [s Hs]. discriminate.
Qed.
