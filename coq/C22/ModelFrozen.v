(** C22 — model of `class frozenlist(list)` as a method table (generated) over CPython's list,
    and of GuppyStructObject.__setattr__ (generated).  No proofs here. *)
From Coq Require Import List Bool String ZArith.
Import ListNotations.
From V.C22 Require Import GenTracing.

(** a frozenlist instance: list contents + the instance attribute `_initialised` *)
Record flist := mkFl { contents : list Z; initialised : bool }.

Inductive outcome :=
| ORaised (fl : flist)     (* GuppyComptimeError; the object afterwards *)
| OReturned (fl : flist)   (* returned normally; the object afterwards *)
| OInherited.              (* not overridden: CPython's list implementation runs *)

Fixpoint lookup (m : string) (l : list (string * body)) : option body :=
  match l with
  | [] => None
  | (n, b) :: t => if String.eqb m n then Some b else lookup m t
  end.

(** `getattr(type(fl), m)(fl, ...)`; `arg` is what list.__init__ would install *)
Definition call (ovr : list (string * body)) (m : string) (arg : list Z) (fl : flist) : outcome :=
  match lookup m ovr with
  | None => OInherited
  | Some BRaise => ORaised fl
  | Some BCopy => OReturned fl
  | Some BSelf => OReturned fl
  | Some BInitGuard => if initialised fl then ORaised fl else OReturned (mkFl arg true)
  end.

(** `frozenlist(xs)`: list.__new__ gives an empty list (class default `_initialised = False`),
    then type.__call__ runs `__init__(xs)` *)
Definition construct (ovr : list (string * body)) (xs : list Z) : option flist :=
  match call ovr "__init__" xs (mkFl [] false) with
  | OReturned fl => Some fl
  | OInherited => Some (mkFl xs false)
  | ORaised _ => None
  end.
