(** C22 — lemmas about the TREE layer (ModelTree.v): frozen flags reach every level, and every
    tree-level function is a sequence of leaf operations (so the leaf theorems apply to every
    GuppyObject inside any nesting of tuples, lists and structs). *)
From Coq Require Import List Bool Arith Lia.
Import ListNotations.
From V.C22 Require Import GenTracing ModelTracing ModelTree Proofs.
Local Open Scope nat_scope.

(* ============================================================ primitives (before Opaque) *)
(** the leaf state reached by a sequence of well-formed leaf operations *)
Definition Reach (s s' : st) : Prop := exists ops, wf_ops ops /\ lrun ops s = Ok s'.
(** an "already used" error is a real second use of that object in a reachable leaf state *)
Definition FailsAt (s : st) (e : err) : Prop :=
  match e with
  | EAlreadyUsed id => exists s1, Reach s s1 /\ use_wire id s1 = Err (EAlreadyUsed id)
  | ELeak _ => False          (* only the end-of-function check reports leaks *)
  | _ => True
  end.
Definition not_leafy (e : err) : Prop := match e with EAlreadyUsed _ | ELeak _ => False | _ => True end.
Definition Sim {X} (s : st) (r : res X) (proj : X -> st) : Prop :=
  match r with Ok x => Reach s (proj x) | Err e => FailsAt s e end.

Lemma wf_ops_nil : wf_ops [].
Proof. intros k [H|[j H]]; destruct H. Qed.
Lemma wf_ops_app2 : forall a b, wf_ops a -> wf_ops b -> wf_ops (a ++ b).
Proof.
  intros a b Wa Wb k [H|[j H]]; apply in_app_or in H; destruct H as [H|H];
    [apply Wa; left | apply Wb; left | apply Wa; right; exists j | apply Wb; right; exists j]; exact H.
Qed.
Lemma Reach_refl : forall s, Reach s s.
Proof. intros s. exists []. split; [apply wf_ops_nil | reflexivity]. Qed.
Lemma Reach_trans : forall a b c, Reach a b -> Reach b c -> Reach a c.
Proof.
  intros a b c [o1 [W1 R1]] [o2 [W2 R2]]. exists (o1 ++ o2). split; [apply wf_ops_app2; assumption|].
  rewrite lrun_app, R1. exact R2.
Qed.
Lemma FailsAt_pre : forall s s1 e, Reach s s1 -> FailsAt s1 e -> FailsAt s e.
Proof.
  intros s s1 e R F. destruct e; simpl in *; auto. destruct F as [s2 [R2 U]]. exists s2. split; [eapply Reach_trans; eassumption | exact U].
Qed.
Lemma Sim_pre : forall X s s1 (r : res X) p, Reach s s1 -> Sim s1 r p -> Sim s r p.
Proof. intros X s s1 [x|e] p R S; simpl in *; [eapply Reach_trans; eassumption | eapply FailsAt_pre; eassumption]. Qed.
Lemma Sim_bind : forall X Y s (r : res X) (k : X -> res Y) p q,
  Sim s r p -> (forall x, r = Ok x -> Sim (p x) (k x) q) -> Sim s (bind r k) q.
Proof. intros X Y s [x|e] k p q S K; simpl in *; [eapply Sim_pre; [exact S | apply K; reflexivity] | exact S]. Qed.
Lemma Sim_ok : forall X s (x : X) p, Reach s (p x) -> Sim s (Ok x) p.
Proof. intros. exact H. Qed.
Lemma Sim_err : forall X s e (p : X -> st), not_leafy e -> Sim s (Err e) p.
Proof. intros X s e p H. simpl. destruct e; simpl in *; auto; contradiction. Qed.

Lemma wf_all : forall (g : ty -> kind) l, (forall x, wf_kind (g x)) ->
  wf_kind (fold_right (fun x k => let kx := g x in mkKind (copyable kx && copyable k) (droppable kx && droppable k)) (mkKind true true) l).
Proof.
  intros g l G. induction l as [|x l IH]; simpl; [intro; reflexivity|].
  intros H. simpl in *. apply andb_true_iff in H. destruct H as [H1 H2].
  apply andb_true_iff. split; [apply G; exact H1 | apply IH; exact H2].
Qed.
Lemma kind_of_ty_wf : forall fuel sd t, wf_kind (kind_of_ty fuel sd t).
Proof.
  induction fuel as [|f IH]; intros sd t; simpl; [intro; reflexivity|].
  destruct t; try (intro; simpl in *; (reflexivity || discriminate)); apply wf_all; intros; apply IH.
Qed.

Lemma create_reach : forall k s, wf_kind k -> Reach s (snd (create k s)).
Proof.
  intros k s W. exists [LCreate k]. split; [|reflexivity].
  intros k' [[H|[]]|[j [H|[]]]]; inversion H; subst; exact W.
Qed.
Lemma create_t_leaf : forall sd t ts id ts', create_t sd t ts = (id, ts') ->
  (id, leaf ts') = create (kind_of_ty 8 sd t) (leaf ts) /\ otys ts' id = Some t.
Proof.
  intros sd t ts id ts' H. unfold create_t in H. destruct (create _ _) as [i l] eqn:C. inversion H; subst. simpl.
  split; [reflexivity | unfold updm; rewrite Nat.eqb_refl; reflexivity].
Qed.
Lemma create_t_reach : forall sd t ts id ts', create_t sd t ts = (id, ts') -> Reach (leaf ts) (leaf ts').
Proof.
  intros sd t ts id ts' H. apply create_t_leaf in H. destruct H as [H _].
  pose proof (create_reach (kind_of_ty 8 sd t) (leaf ts) (kind_of_ty_wf _ _ _)) as R. rewrite <- H in R. exact R.
Qed.
Lemma use_wire_err_id : forall id s e, use_wire id s = Err e -> e = EAlreadyUsed id \/ not_leafy e.
Proof.
  intros id s e H. unfold use_wire in H. destruct (objs s id); [|inversion H; right; exact I].
  destruct (use_raises _ _ _); [inversion H; left; reflexivity|].
  destruct (use_pops _ _ _); [destruct (dict_pop _ _)|]; inversion H. right; exact I.
Qed.
Lemma use_wire_sim : forall id s, Sim s (use_wire id s) (fun x => x).
Proof.
  intros id s. destruct (use_wire id s) as [s'|e] eqn:U; simpl.
  - exists [LUse id]. split; [intros k [[H|[]]|[j [H|[]]]]; discriminate | rewrite lrun_single; exact U].
  - destruct (use_wire_err_id _ _ _ U) as [->|N]; [exists s; split; [apply Reach_refl | exact U] | destruct e; simpl in *; auto; destruct N].
Qed.
Lemma use_t_sim : forall id ts, Sim (leaf ts) (use_t id ts) leaf.
Proof.
  intros id ts. unfold use_t. pose proof (use_wire_sim id (leaf ts)) as S.
  destruct (use_wire id (leaf ts)); simpl in *; exact S.
Qed.
(** `GuppyObject(t, wire)` followed by the GuppyObject case of update_packed_value is one
    LReassign step *)
Lemma reassign_sim : forall k s vid o, wf_kind k -> objs s vid = Some o ->
  Sim s (let '(nid, s1) := create k s in update_leaf vid nid s1) (fun x => x).
Proof.
  intros k s vid o W E.
  remember (let '(nid, s1) := create k s in update_leaf vid nid s1) as r eqn:Rr.
  assert (R : step (LReassign vid k) s = r) by (subst r; simpl; rewrite E; reflexivity).
  clear Rr. destruct r as [s'|e]; simpl.
  - exists [LReassign vid k]. split; [|rewrite lrun_single; exact R].
    intros k' [[H|[]]|[j [H|[]]]]; inversion H; subst; exact W.
  - (* the fresh object cannot be "already used" *)
    assert (N : not_leafy e); [|destruct e; simpl in *; auto; destruct N].
    unfold step in R. rewrite E in R. rewrite create_eq in R. unfold create' in R.
    cbv iota beta in R. rewrite update_leaf_eq in R. unfold update_leaf', use_wire' in R. simpl in R.
    unfold upd at 1 in R. rewrite Nat.eqb_refl in R. simpl in R.
    destruct (negb (droppable k)); simpl in R.
    + destruct (dict_pop _ _); simpl in R; [|inversion R; exact I]. destruct (upd _ _ _ vid); inversion R. exact I.
    + destruct (upd _ _ _ vid); inversion R. exact I.
Qed.

Lemma create_t_heap : forall sd t ts id ts', create_t sd t ts = (id, ts') ->
  nloc ts' = nloc ts /\ lists ts' = lists ts /\ strs ts' = strs ts.
Proof. intros sd t ts id ts' H. unfold create_t in H. destruct (create _ _). inversion H. simpl. auto. Qed.
Lemma use_t_heap : forall id ts ts', use_t id ts = Ok ts' ->
  nloc ts' = nloc ts /\ lists ts' = lists ts /\ strs ts' = strs ts.
Proof. intros id ts ts' H. unfold use_t in H. destruct (use_wire id (leaf ts)); simpl in H; inversion H. simpl. auto. Qed.

Lemma ty_of_err : forall id ts e, ty_of id ts = Err e -> not_leafy e.
Proof. intros id ts e H. unfold ty_of in H. destruct (otys ts id); inversion H. exact I. Qed.
Lemma new_list_leaf : forall fr vs ts, leaf (snd (new_list fr vs ts)) = leaf ts.
Proof. reflexivity. Qed.
Lemma new_struct_leaf : forall fr sid vs ts, leaf (snd (new_struct fr sid vs ts)) = leaf ts.
Proof. reflexivity. Qed.
Lemma create_t_reach' : forall sd t ts, Reach (leaf ts) (leaf (snd (create_t sd t ts))).
Proof. intros. destruct (create_t sd t ts) eqn:C. simpl. eapply create_t_reach. exact C. Qed.

Opaque create_t use_t kind_of_ty ty_of new_list new_struct.

(* ====================================================================== A. frozen values *)
(** facts read off the source, per type case of unpack_guppy_object *)
Lemma tuple_child_frozen_true : unpack_tuple_child_frozen true = true. Proof. reflexivity. Qed.
Lemma struct_child_frozen_true : unpack_struct_child_frozen true = true. Proof. reflexivity. Qed.
Lemma list_child_frozen_true : unpack_list_child_frozen true = true. Proof. reflexivity. Qed.
Lemma struct_frozen_true : unpack_struct_frozen true = true. Proof. reflexivity. Qed.
Lemma list_frozen_true : unpack_list_frozen true = true. Proof. reflexivity. Qed.
Lemma owned_input_frozen : input_frozen false = true. Proof. reflexivity. Qed.
Lemma setattr_frozen_field : setattr_outcome true true = SRaiseFrozen. Proof. reflexivity. Qed.

(** every list and struct object reachable from the value, through any nesting of tuples,
    lists and structs, carries the frozen flag *)
Inductive Frozen (ts : tst) : val -> Prop :=
| FObj : forall id, Frozen ts (VObj id)
| FNone : Frozen ts VNone
| FInt : Frozen ts VInt
| FTup : forall vs, FrozenL ts vs -> Frozen ts (VTup vs)
| FList : forall loc vs, lists ts loc = Some (true, vs) -> FrozenL ts vs -> Frozen ts (VList loc)
| FStruct : forall loc sid vs, strs ts loc = Some (true, sid, vs) -> FrozenL ts vs -> Frozen ts (VStruct loc)
with FrozenL (ts : tst) : list val -> Prop :=
| FNil : FrozenL ts []
| FCons : forall v vs, Frozen ts v -> FrozenL ts vs -> FrozenL ts (v :: vs).
Scheme Frozen_mut := Induction for Frozen Sort Prop
  with FrozenL_mut := Induction for FrozenL Sort Prop.
Combined Scheme Frozen_mutind from Frozen_mut, FrozenL_mut.

(** heap well-formedness and extension *)
Definition hwf (ts : tst) : Prop := forall loc, nloc ts <= loc -> lists ts loc = None /\ strs ts loc = None.
Definition ext (ts ts' : tst) : Prop :=
  nloc ts <= nloc ts' /\ forall loc, loc < nloc ts -> lists ts' loc = lists ts loc /\ strs ts' loc = strs ts loc.

Lemma ext_refl : forall ts, ext ts ts.
Proof. intros ts. split; [lia | auto]. Qed.
Lemma ext_trans : forall a b c, ext a b -> ext b c -> ext a c.
Proof.
  intros a b c [L1 E1] [L2 E2]. split; [lia|]. intros loc H.
  destruct (E1 loc H) as [A1 A2]. destruct (E2 loc ltac:(lia)) as [B1 B2]. split; congruence.
Qed.
Lemma hwf_lt_list : forall ts loc x, hwf ts -> lists ts loc = Some x -> loc < nloc ts.
Proof. intros ts loc x W H. destruct (le_lt_dec (nloc ts) loc) as [L|L]; [|exact L]. apply W in L. destruct L. congruence. Qed.
Lemma hwf_lt_struct : forall ts loc x, hwf ts -> strs ts loc = Some x -> loc < nloc ts.
Proof. intros ts loc x W H. destruct (le_lt_dec (nloc ts) loc) as [L|L]; [|exact L]. apply W in L. destruct L. congruence. Qed.

Lemma Frozen_mono_both : forall ts ts', hwf ts -> ext ts ts' ->
  (forall v, Frozen ts v -> Frozen ts' v) /\ (forall vs, FrozenL ts vs -> FrozenL ts' vs).
Proof.
  intros ts ts' W [L E]. apply Frozen_mutind; intros; try (constructor; assumption).
  - apply FList with vs; [|assumption]. pose proof (hwf_lt_list _ _ _ W e) as Hl. destruct (E loc Hl). congruence.
  - apply FStruct with sid vs; [|assumption]. pose proof (hwf_lt_struct _ _ _ W e) as Hl. destruct (E loc Hl). congruence.
Qed.
Lemma Frozen_mono : forall ts ts' v, hwf ts -> ext ts ts' -> Frozen ts v -> Frozen ts' v.
Proof. intros ts ts' v W E. apply (proj1 (Frozen_mono_both ts ts' W E)). Qed.
Lemma FrozenL_mono : forall ts ts' vs, hwf ts -> ext ts ts' -> FrozenL ts vs -> FrozenL ts' vs.
Proof. intros ts ts' v W E. apply (proj2 (Frozen_mono_both ts ts' W E)). Qed.

Lemma same_heap_hwf_ext : forall ts ts', nloc ts' = nloc ts -> lists ts' = lists ts -> strs ts' = strs ts ->
  hwf ts -> hwf ts' /\ ext ts ts'.
Proof.
  intros ts ts' N Li St W. split.
  - intros loc H. rewrite Li, St. apply W. lia.
  - split; [lia|]. intros loc _. rewrite Li, St. auto.
Qed.
Transparent new_list new_struct.
Lemma new_list_props : forall fr vs ts v ts', hwf ts -> new_list fr vs ts = (v, ts') ->
  hwf ts' /\ ext ts ts' /\ v = VList (nloc ts) /\ lists ts' (nloc ts) = Some (fr, vs).
Proof.
  intros fr vs ts v ts' W H. unfold new_list in H. inversion H; subst; clear H.
  split; [|split; [|split]].
  - intros loc Hl. simpl in *. unfold updm. split; [|apply W; lia].
    destruct (loc =? nloc ts) eqn:E; [apply Nat.eqb_eq in E; lia | apply W; lia].
  - split; simpl; [lia|]. intros loc Hl. unfold updm.
    destruct (loc =? nloc ts) eqn:E; [apply Nat.eqb_eq in E; lia | auto].
  - reflexivity.
  - simpl. unfold updm. rewrite Nat.eqb_refl. reflexivity.
Qed.
Lemma new_struct_props : forall fr sid vs ts v ts', hwf ts -> new_struct fr sid vs ts = (v, ts') ->
  hwf ts' /\ ext ts ts' /\ v = VStruct (nloc ts) /\ strs ts' (nloc ts) = Some (fr, sid, vs).
Proof.
  intros fr sid vs ts v ts' W H. unfold new_struct in H. inversion H; subst; clear H.
  split; [|split; [|split]].
  - intros loc Hl. simpl in *. unfold updm. split; [apply W; lia|].
    destruct (loc =? nloc ts) eqn:E; [apply Nat.eqb_eq in E; lia | apply W; lia].
  - split; simpl; [lia|]. intros loc Hl. unfold updm.
    destruct (loc =? nloc ts) eqn:E; [apply Nat.eqb_eq in E; lia | auto].
  - reflexivity.
  - simpl. unfold updm. rewrite Nat.eqb_refl. reflexivity.
Qed.

Opaque new_list new_struct.

(** children of one level: if the level below yields frozen values, so does the iteration *)
Lemma children_frozen : forall sd (rec : nat -> bool -> tst -> res (val * tst)),
  (forall id ts v ts', hwf ts -> rec id true ts = Ok (v, ts') -> hwf ts' /\ ext ts ts' /\ Frozen ts' v) ->
  forall tys ts vs ts', hwf ts ->
  map_m (fun t ts => let '(cid, ts1) := create_t sd t ts in rec cid true ts1) tys ts = Ok (vs, ts') ->
  hwf ts' /\ ext ts ts' /\ FrozenL ts' vs.
Proof.
  intros sd rec IH. induction tys as [|t tys IHt]; intros ts vs ts' W H; simpl in H.
  - inversion H; subst. split; [exact W | split; [apply ext_refl | constructor]].
  - destruct (create_t sd t ts) as [cid ts1] eqn:C. apply create_t_heap in C. destruct C as (C1 & C2 & C3).
    destruct (same_heap_hwf_ext ts ts1 C1 C2 C3 W) as [W1 E1].
    destruct (rec cid true ts1) as [[v tsa]|] eqn:R; simpl in H; [|discriminate].
    destruct (IH _ _ _ _ W1 R) as (Wa & Ea & Fa).
    destruct (map_m _ tys tsa) as [[vs2 tsb]|] eqn:M; simpl in H; [|discriminate].
    inversion H; subst; clear H. destruct (IHt _ _ _ Wa M) as (Wb & Eb & Fb).
    split; [exact Wb | split; [eapply ext_trans; [exact E1 | eapply ext_trans; eassumption] | ]].
    constructor; [exact (Frozen_mono _ _ _ Wa Eb Fa) | exact Fb].
Qed.

Lemma unpack_frozen : forall fuel sd id ts v ts', hwf ts -> unpack fuel sd id true ts = Ok (v, ts') ->
  hwf ts' /\ ext ts ts' /\ Frozen ts' v.
Proof.
  induction fuel as [|f IH]; intros sd id ts v ts' W H; [discriminate|].
  change (unpack (S f) sd id true ts) with (unpack_step (unpack f sd) sd id true ts) in H.
  unfold unpack_step in H. destruct (ty_of id ts) as [t|]; simpl in H; [|discriminate].
  assert (Base : forall x, Ok (x, ts) = Ok (v, ts') -> Frozen ts x -> hwf ts' /\ ext ts ts' /\ Frozen ts' v).
  { intros x E F. inversion E; subst. split; [exact W | split; [apply ext_refl | exact F]]. }
  destruct t as [| | |tys|e n|sid].
  - apply (Base _ H). constructor.
  - apply (Base _ H). constructor.
  - apply (Base _ H). constructor.
  - destruct (use_t id ts) as [ts1|] eqn:U; simpl in H; [|discriminate].
    apply use_t_heap in U. destruct U as (U1 & U2 & U3). destruct (same_heap_hwf_ext ts ts1 U1 U2 U3 W) as [W1 E1].
    rewrite tuple_child_frozen_true in H.
    destruct (map_m _ tys ts1) as [[vs tsa]|] eqn:M; simpl in H; [|discriminate]. inversion H; subst; clear H.
    destruct (children_frozen sd (unpack f sd) (IH sd) _ _ _ _ W1 M) as (Wa & Ea & Fa).
    split; [exact Wa | split; [eapply ext_trans; eassumption | constructor; exact Fa]].
  - destruct n as [|n]; [apply (Base _ H); constructor|].
    remember (repeat e (S n)) as rtys eqn:Ety. clear Ety.
    destruct (use_t id ts) as [ts1|] eqn:U; simpl in H; [|discriminate].
    apply use_t_heap in U. destruct U as (U1 & U2 & U3). destruct (same_heap_hwf_ext ts ts1 U1 U2 U3 W) as [W1 E1].
    rewrite list_child_frozen_true, list_frozen_true in H.
    destruct (map_m _ rtys ts1) as [[vs tsa]|] eqn:M; simpl in H; [|discriminate].
    destruct (children_frozen sd (unpack f sd) (IH sd) _ _ _ _ W1 M) as (Wa & Ea & Fa).
    simpl fst in H. simpl snd in H.
    destruct (new_list true vs tsa) as [v2 ts2] eqn:NL. inversion H; subst; clear H.
    destruct (new_list_props _ _ _ _ _ Wa NL) as (Wb & Eb & -> & Lb).
    split; [exact Wb | split; [eapply ext_trans; [exact E1 | eapply ext_trans; eassumption] | ]].
    apply FList with vs; [exact Lb | exact (FrozenL_mono _ _ _ Wa Eb Fa)].
  - destruct (use_t id ts) as [ts1|] eqn:U; simpl in H; [|discriminate].
    apply use_t_heap in U. destruct U as (U1 & U2 & U3). destruct (same_heap_hwf_ext ts ts1 U1 U2 U3 W) as [W1 E1].
    rewrite struct_child_frozen_true, struct_frozen_true in H.
    destruct (map_m _ (nth sid sd []) ts1) as [[vs tsa]|] eqn:M; simpl in H; [|discriminate].
    destruct (children_frozen sd (unpack f sd) (IH sd) _ _ _ _ W1 M) as (Wa & Ea & Fa).
    simpl fst in H. simpl snd in H.
    destruct (new_struct true sid vs tsa) as [v2 ts2] eqn:NS. inversion H; subst; clear H.
    destruct (new_struct_props _ _ _ _ _ _ Wa NS) as (Wb & Eb & -> & Lb).
    split; [exact Wb | split; [eapply ext_trans; [exact E1 | eapply ext_trans; eassumption] | ]].
    apply FStruct with sid vs; [exact Lb | exact (FrozenL_mono _ _ _ Wa Eb Fa)].
Qed.

Lemma unpack_S : forall f sd id fr ts, unpack (S f) sd id fr ts = unpack_step (unpack f sd) sd id fr ts.
Proof. reflexivity. Qed.
Lemma from_py_S : forall f sd v ts, from_py (S f) sd v ts = from_py_step (from_py f sd) sd v ts.
Proof. reflexivity. Qed.
Lemma upd_fresh_S : forall f sd v t ts, upd_fresh (S f) sd v t ts = upd_step (upd_fresh f sd) sd v t ts.
Proof. reflexivity. Qed.
Lemma eval_f_S : forall f en e ts, eval_f (S f) en e ts = eval_step (eval_f f en) en e ts.
Proof. reflexivity. Qed.
Lemma unpack_0 : forall sd id fr ts, unpack 0 sd id fr ts = Err EStuck. Proof. reflexivity. Qed.
Lemma from_py_0 : forall sd v ts, from_py 0 sd v ts = Err EStuck. Proof. reflexivity. Qed.
Lemma upd_fresh_0 : forall sd v t ts, upd_fresh 0 sd v t ts = Err EStuck. Proof. reflexivity. Qed.
Lemma eval_f_0 : forall en e ts, eval_f 0 en e ts = Err EStuck. Proof. reflexivity. Qed.
Opaque unpack from_py upd_fresh eval_f.

(* ================================================= B. the tree layer refines the leaf layer *)
Lemma Sim_bind_pure : forall X Y s (r : res X) (k : X -> res Y) q,
  (forall e, r = Err e -> not_leafy e) -> (forall x, r = Ok x -> Sim s (k x) q) -> Sim s (bind r k) q.
Proof.
  intros X Y s [x|e] k q E K; simpl; [apply K; reflexivity|]. apply (Sim_err Y s e q). apply E. reflexivity.
Qed.
Lemma tys_of_err : forall ids ts e, tys_of ids ts = Err e -> not_leafy e.
Proof.
  induction ids as [|i ids IH]; intros ts e H; simpl in H; [discriminate|].
  destruct (ty_of i ts) eqn:T; simpl in H; [|inversion H; subst; eapply ty_of_err; exact T].
  destruct (tys_of ids ts) eqn:T2; simpl in H; [discriminate|]. inversion H; subst. eapply IH; exact T2.
Qed.

Lemma map_m_sim : forall A B (f : A -> tst -> res (B * tst)),
  (forall a ts, Sim (leaf ts) (f a ts) (fun r => leaf (snd r))) ->
  forall l ts, Sim (leaf ts) (map_m f l ts) (fun r => leaf (snd r)).
Proof.
  intros A B f F. induction l as [|a l IH]; intros ts; simpl; [apply Reach_refl|].
  eapply Sim_bind; [apply F|]. intros x _. eapply Sim_bind; [apply IH|]. intros y _. simpl. apply Reach_refl.
Qed.
Lemma iter_i_sim : forall A (f : nat -> A -> tst -> res tst),
  (forall i a ts, Sim (leaf ts) (f i a ts) leaf) ->
  forall l i ts, Sim (leaf ts) (iter_i f i l ts) leaf.
Proof.
  intros A f F. induction l as [|a l IH]; intros i ts; simpl; [apply Reach_refl|].
  eapply Sim_bind; [apply F|]. intros x _. apply IH.
Qed.
Lemma all_ok_sim : forall A (f : A -> tst -> res (bool * tst)),
  (forall a ts, Sim (leaf ts) (f a ts) (fun r => leaf (snd r))) ->
  forall l ts, Sim (leaf ts) (all_ok f l ts) (fun r => leaf (snd r)).
Proof.
  intros A f F. induction l as [|a l IH]; intros ts; simpl; [apply Reach_refl|].
  eapply Sim_bind; [apply F|]. intros x _. destruct (fst x); [apply IH | simpl; apply Reach_refl].
Qed.
Lemma use_all_sim : forall ids ts, Sim (leaf ts) (use_all ids ts) leaf.
Proof.
  induction ids as [|i ids IH]; intros ts; simpl; [apply Reach_refl|].
  eapply Sim_bind; [apply use_t_sim|]. intros x _. apply IH.
Qed.

Ltac sim_err := apply Sim_err; exact I.
Ltac sim_ok := first [ apply Reach_refl | simpl; apply Reach_refl | simpl; rewrite ?new_list_leaf, ?new_struct_leaf; apply Reach_refl | apply create_t_reach' ].
Ltac sim_go :=
  repeat first
  [ sim_err
  | solve [eauto with sim]
  | match goal with |- Sim _ (Ok _) _ => unfold Sim; sim_ok end
  | match goal with
    | C : create_t _ _ ?ts = (_, _) |- Sim (leaf ?ts) _ _ =>
      apply (Sim_pre _ _ _ _ _ (create_t_reach _ _ _ _ _ C)); clear C
    end
  | match goal with |- Sim _ (bind (ty_of ?a ?b) _) _ =>
      apply Sim_bind_pure; [intros ? T; exact (ty_of_err _ _ _ T) | intros ? ?] end
  | match goal with |- Sim _ (bind (tys_of ?a ?b) _) _ =>
      apply Sim_bind_pure; [intros ? T; exact (tys_of_err _ _ _ T) | intros ? ?] end
  | match goal with |- Sim _ (bind _ _) _ => eapply Sim_bind; [solve [eauto with sim] | intros ? ?] end
  | match goal with |- Sim _ (match ?x with _ => _ end) _ => destruct x eqn:? end ].

#[export] Hint Resolve use_t_sim use_all_sim : sim.

Lemma unpack_step_sim : forall rec sd,
  (forall id fr ts, Sim (leaf ts) (rec id fr ts) (fun r => leaf (snd r))) ->
  forall id fr ts, Sim (leaf ts) (unpack_step rec sd id fr ts) (fun r => leaf (snd r)).
Proof.
  intros rec sd R id fr ts. unfold unpack_step.
  assert (Ch : forall b tys ts, Sim (leaf ts) (map_m (fun t ts => let '(cid, ts1) := create_t sd t ts in rec cid b ts1) tys ts) (fun r => leaf (snd r))).
  { intros b tys ts0. apply map_m_sim. intros a ts1. destruct (create_t sd a ts1) eqn:C.
    apply (Sim_pre _ _ _ _ _ (create_t_reach _ _ _ _ _ C)). apply R. }
  sim_go; try (eapply Sim_bind; [apply Ch | intros ? ?]); sim_go.
Qed.
Lemma unpack_sim : forall fuel sd id fr ts, Sim (leaf ts) (unpack fuel sd id fr ts) (fun r => leaf (snd r)).
Proof.
  induction fuel as [|f IH]; intros; [rewrite unpack_0; sim_err | rewrite unpack_S; apply unpack_step_sim; intros; apply IH].
Qed.

Lemma from_py_step_sim : forall rec sd,
  (forall v ts, Sim (leaf ts) (rec v ts) (fun r => leaf (snd r))) ->
  forall v ts, Sim (leaf ts) (from_py_step rec sd v ts) (fun r => leaf (snd r)).
Proof.
  intros rec sd R v ts. unfold from_py_step.
  pose proof (map_m_sim _ _ rec R) as M.
  assert (Fl : forall loc l i ts, Sim (leaf ts) (iter_i (fun i ft ts =>
               match strs ts loc with
               | Some (_, _, vals) =>
                 r <- rec (nth i vals VNone) ts ;;
                 t <- ty_of (fst r) (snd r) ;;
                 if ty_eqb t ft then use_t (fst r) (snd r) else Err EType
               | None => Err EStuck
               end) i l ts) leaf).
  { intros loc l i ts0. apply iter_i_sim. intros i0 a ts1. sim_go. }
  destruct v; sim_go; try (eapply Sim_bind; [first [apply M | apply Fl] | intros ? ?]); sim_go.
Qed.
Lemma from_py_sim : forall fuel sd v ts, Sim (leaf ts) (from_py fuel sd v ts) (fun r => leaf (snd r)).
Proof.
  induction fuel as [|f IH]; intros; [rewrite from_py_0; sim_err | rewrite from_py_S; apply from_py_step_sim; intros; apply IH].
Qed.

Lemma upd_step_sim : forall rec sd,
  (forall v t ts, Sim (leaf ts) (rec v t ts) (fun r => leaf (snd r))) ->
  forall v t ts, Sim (leaf ts) (upd_step rec sd v t ts) (fun r => leaf (snd r)).
Proof.
  intros rec sd R v t ts. unfold upd_step. destruct (create_t sd t ts) as [oid ts0] eqn:C.
  destruct v as [vid| | |vs|loc|loc].
  - (* GuppyObject: one LReassign step *)
    destruct (objs (leaf ts) vid) as [o|] eqn:E; [|sim_err].
    apply Sim_bind_pure; [intros ? T; exact (ty_of_err _ _ _ T) | intros tv _].
    destruct (ty_eqb tv t); [|sim_err].
    pose proof (reassign_sim (kind_of_ty 8 sd t) (leaf ts) vid o (kind_of_ty_wf _ _ _) E) as S.
    destruct (create_t_leaf _ _ _ _ _ C) as [CL _]. rewrite <- CL in S.
    eapply Sim_bind; [exact S|]. intros x _. simpl. apply Reach_refl.
  - sim_go.
  - sim_go.
  - sim_go. apply all_ok_sim. intros a ts1. apply R.
  - sim_go. eapply Sim_bind; [|intros ? ?; sim_go].
    apply iter_i_sim. intros i a ts1. sim_go.
  - sim_go. eapply Sim_bind; [|intros ? ?; sim_go].
    apply iter_i_sim. intros i a ts1. sim_go.
Qed.
Lemma upd_fresh_sim : forall fuel sd v t ts, Sim (leaf ts) (upd_fresh fuel sd v t ts) (fun r => leaf (snd r)).
Proof.
  induction fuel as [|f IH]; intros; [rewrite upd_fresh_0; sim_err | rewrite upd_fresh_S; apply upd_step_sim; intros; apply IH].
Qed.

Lemma eval_step_sim : forall rec en,
  (forall e ts, Sim (leaf ts) (rec e ts) (fun r => leaf (snd r))) ->
  forall e ts, Sim (leaf ts) (eval_step rec en e ts) (fun r => leaf (snd r)).
Proof.
  intros rec en R e ts. unfold eval_step. pose proof (map_m_sim _ _ rec R) as M.
  destruct e; sim_go; try (eapply Sim_bind; [first [apply R | apply M] | intros ? ?]); sim_go.
Qed.
Lemma eval_f_sim : forall fuel en e ts, Sim (leaf ts) (eval_f fuel en e ts) (fun r => leaf (snd r)).
Proof.
  induction fuel as [|f IH]; intros; [rewrite eval_f_0; sim_err | rewrite eval_f_S; apply eval_step_sim; intros; apply IH].
Qed.
Lemma eval_sim : forall en e ts, Sim (leaf ts) (eval en e ts) (fun r => leaf (snd r)).
Proof. intros. apply eval_f_sim. Qed.

Lemma call_gen_sim : forall sd mk rty args ts, Sim (leaf ts) (call_gen sd mk rty args ts) (fun r => leaf (snd r)).
Proof.
  intros. unfold call_gen, from_py_all.
  eapply Sim_bind; [apply map_m_sim; intros; apply from_py_sim | intros ? ?].
  eapply Sim_bind; [apply use_all_sim | intros ? ?]. sim_go.
  eapply Sim_bind.
  - apply iter_i_sim. intros i a ts1. sim_go. eapply Sim_bind; [apply upd_fresh_sim | intros ? ?]. sim_go.
  - intros ? ?. sim_go. apply unpack_sim.
Qed.
Lemma call_fn_sim : forall sd params rty args ts, Sim (leaf ts) (call_fn sd params rty args ts) (fun r => leaf (snd r)).
Proof. intros. apply call_gen_sim. Qed.
Lemma call_opaque_sim : forall sd b args ts, Sim (leaf ts) (call_opaque sd b args ts) (fun r => leaf (snd r)).
Proof. intros. apply call_gen_sim. Qed.

#[export] Hint Resolve eval_sim call_fn_sim call_opaque_sim from_py_sim unpack_sim upd_fresh_sim : sim.

Lemma mutate_err : forall m cur v e, mutate m cur v = Err e -> not_leafy e.
Proof.
  intros m cur v e H. destruct m; simpl in H; try discriminate.
  - destruct cur; inversion H; exact I.
  - destruct (i <? length cur); inversion H; exact I.
  - inversion H; exact I.
  - inversion H; exact I.
Qed.

Lemma exec_sim : forall sd s en ts, Sim (leaf ts) (exec sd s en ts) (fun r => leaf (snd (fst r))).
Proof.
  intros sd s en ts. destruct s; unfold exec, eval_all.
  - sim_go.
  - eapply Sim_bind; [apply map_m_sim; intros; apply eval_sim | intros ? ?]. sim_go.
  - eapply Sim_bind; [apply map_m_sim; intros; apply eval_sim | intros ? ?]. sim_go.
  - sim_go.
  - sim_go.
  - sim_go. apply Sim_bind_pure; [intros ? T; exact (mutate_err _ _ _ _ T) | intros ? ?]. sim_go.
  - sim_go.
    match goal with H : new_list _ _ _ = _ |- _ =>
      pose proof (f_equal (fun p => leaf (snd p)) H) as HL; cbv beta in HL; rewrite new_list_leaf in HL end.
    unfold Sim. simpl in *. rewrite <- HL. apply Reach_refl.
  - sim_go.
Qed.
Lemma exec_body_sim : forall sd body en ts, Sim (leaf ts) (exec_body sd body en ts) (fun r => leaf (fst r)).
Proof.
  intros sd. induction body as [|s body IH]; intros en ts; simpl; [apply Reach_refl|].
  eapply Sim_bind; [apply exec_sim | intros [[en' ts'] [v|]] _]; simpl; [apply Reach_refl | apply IH].
Qed.
Lemma receive_inputs_sim : forall sd params ts, Sim (leaf ts) (receive_inputs sd params ts) (fun r => leaf (snd r)).
Proof.
  intros. unfold receive_inputs. apply map_m_sim. intros a ts1. sim_go.
Qed.
Lemma return_inouts_sim : forall sd ins ts, Sim (leaf ts) (return_inouts sd ins ts) leaf.
Proof.
  intros. unfold return_inouts. apply iter_i_sim. intros i a ts1. sim_go.
Qed.

(** everything trace_function does before the leak check *)
Definition trace_pre (sd : sdefs) (params : list (ty * bool)) (rty : ty) (body : list stmt) : res tst :=
  r <- receive_inputs sd params tst0 ;;
  let en : env := fun i => nth_error (fst r) i in
  r2 <- exec_body sd body en (snd r) ;;
  ro <- from_py 8 sd (snd r2) (fst r2) ;;
  t <- ty_of (fst ro) (snd ro) ;;
  if negb (ty_eqb t rty) then Err EType else
  ts2 <- (match t with TNone | TTup [] => Ok (snd ro) | _ => use_t (fst ro) (snd ro) end) ;;
  return_inouts sd (combine (fst r) params) ts2.
Lemma trace_function_split : forall sd params rty body,
  trace_function sd params rty body = bind (trace_pre sd params rty body) (fun ts => end_check (leaf ts)).
Proof.
  intros. unfold trace_function, trace_pre.
  destruct (receive_inputs sd params tst0) as [r|]; simpl; [|reflexivity].
  destruct (exec_body _ _ _ _) as [r2|]; simpl; [|reflexivity].
  destruct (from_py 8 sd (snd r2) (fst r2)) as [ro|]; simpl; [|reflexivity].
  destruct (ty_of (fst ro) (snd ro)) as [t|]; simpl; [|reflexivity].
  destruct (negb (ty_eqb t rty)); [reflexivity|].
  destruct (match t with TNone | TTup [] => Ok (snd ro) | _ => use_t (fst ro) (snd ro) end); simpl; reflexivity.
Qed.
Lemma trace_pre_sim : forall sd params rty body, Sim st0 (trace_pre sd params rty body) leaf.
Proof.
  intros. unfold trace_pre. change st0 with (leaf tst0).
  eapply Sim_bind; [apply receive_inputs_sim | intros r _].
  eapply Sim_bind; [apply exec_body_sim | intros r2 _].
  eapply Sim_bind; [apply from_py_sim | intros ro _].
  apply Sim_bind_pure; [intros ? T; exact (ty_of_err _ _ _ T) | intros t _].
  destruct (negb (ty_eqb t rty)); [sim_err|].
  eapply Sim_bind with (p := leaf); [| intros ? ?; apply return_inouts_sim].
  destruct t as [| | |[|? ?]| |]; try apply use_t_sim; simpl; apply Reach_refl.
Qed.

(** A second use reported anywhere in the tree is a second use at leaf level *)
Lemma fails_is_second_use : forall id, FailsAt st0 (EAlreadyUsed id) ->
  exists ops s k, wf_ops ops /\ lrun ops st0 = Ok s /\ kind_of (rev ops) id = Some k /\
                  copyable k = false /\ uses (rev ops) id = 1.
Proof.
  intros id [s1 [[ops [W R]] U]]. pose proof (lrun_inv ops s1 W R) as [_ I].
  pose proof (use_wire_char _ _ id I) as G. rewrite U in G. destruct G as [NA Ee].
  destruct (kind_of (rev ops) id) as [k|] eqn:K; [|discriminate].
  destruct I as (_ & _ & _ & KK). destruct (KK _ _ K) as (_ & _ & C1).
  exists ops, s1, k. repeat split; auto.
  - destruct (copyable k) eqn:C; [|reflexivity]. exfalso. apply NA. exists k. auto.
  - destruct (copyable k) eqn:C; [exfalso; apply NA; exists k; auto|].
    specialize (C1 eq_refl). destruct (uses (rev ops) id) eqn:Us; [exfalso; apply NA; exists k; auto | lia].
Qed.

Lemma trace_function_refines_lemma : forall sd params rty body,
  match trace_function sd params rty body with
  | Ok _ => exists ops, wf_ops ops /\ legal [] ops /\ ~ exists id, leaked (rev ops) id
  | Err (ELeak id) => exists ops s, wf_ops ops /\ lrun ops st0 = Ok s /\ leaked (rev ops) id
  | Err (EAlreadyUsed id) =>
      exists ops s k, wf_ops ops /\ lrun ops st0 = Ok s /\ kind_of (rev ops) id = Some k /\
                      copyable k = false /\ uses (rev ops) id = 1
  | Err _ => True
  end.
Proof.
  intros. rewrite trace_function_split. pose proof (trace_pre_sim sd params rty body) as S.
  destruct (trace_pre sd params rty body) as [ts|e]; simpl in *.
  - destruct S as [ops [W R]]. pose proof (leak_detected_lemma ops (leaf ts) W R) as [L1 L2].
    destruct (end_check (leaf ts)) as [[]|e] eqn:Ec.
    + exists ops. split; [exact W|]. split; [apply (lrun_inv ops _ W R) | apply L1; reflexivity].
    + destruct (L2 e eq_refl) as [id [-> Hl]]. exists ops, (leaf ts). auto.
  - destruct e; auto; [apply fails_is_second_use; exact S | destruct S].
Qed.

(* ======================================= C. frozen values reject every in-place mutation *)
Lemma setattr_frozen_nonfield : setattr_outcome false true = SRaiseAttr. Proof. reflexivity. Qed.
Lemma FrozenL_nth : forall ts vs i v, FrozenL ts vs -> nth_error vs i = Some v -> Frozen ts v.
Proof.
  intros ts vs i v F. revert i. induction F as [|w ws Hw Hws IHF]; intros [|i] Hn; simpl in Hn; try discriminate.
  - inversion Hn; subst; assumption.
  - eapply IHF; exact Hn.
Qed.
(** components of a frozen value are frozen: tuple / list elements and struct fields *)
Lemma Frozen_component : forall ts v i c, Frozen ts v ->
  match v with
  | VTup vs => nth_error vs i = Some c
  | VList loc => exists fr vs, lists ts loc = Some (fr, vs) /\ nth_error vs i = Some c
  | VStruct loc => exists fr sid vs, strs ts loc = Some (fr, sid, vs) /\ nth_error vs i = Some c
  | _ => False
  end -> Frozen ts c.
Proof.
  intros ts v i c F Hc. destruct F as [| | |vs FL|loc vs HL FL|loc sid vs HS FL]; try contradiction.
  - eapply FrozenL_nth; eassumption.
  - destruct Hc as (fr & vs' & L & N). rewrite HL in L. inversion L; subst. eapply FrozenL_nth; eassumption.
  - destruct Hc as (fr & sid' & vs' & L & N). rewrite HS in L. inversion L; subst. eapply FrozenL_nth; eassumption.
Qed.
Lemma frozen_list_flag : forall ts loc, Frozen ts (VList loc) -> exists vs, lists ts loc = Some (true, vs).
Proof. intros ts loc F. inversion F; subst. eauto. Qed.
Lemma frozen_struct_flag : forall ts loc, Frozen ts (VStruct loc) -> exists sid vs, strs ts loc = Some (true, sid, vs).
Proof. intros ts loc F. inversion F; subst. eauto. Qed.

Lemma mut_frozen_rejected : forall sd en ts e m x r rv loc,
  eval en e ts = Ok r -> eval en x (snd r) = Ok rv -> fst r = VList loc -> Frozen (snd rv) (VList loc) ->
  exec sd (SMut e m x) en ts = Err EFrozen.
Proof.
  intros sd en ts e m x r rv loc E1 E2 V F. destruct (frozen_list_flag _ _ F) as [vs L].
  unfold exec. rewrite E1. simpl. rewrite E2. simpl. rewrite V, L. reflexivity.
Qed.
Lemma setidx_frozen_rejected : forall sd en ts e i x r rv loc,
  eval en x ts = Ok rv -> eval en e (snd rv) = Ok r -> fst r = VList loc -> Frozen (snd r) (VList loc) ->
  exec sd (SSetIdx e i x) en ts = Err EFrozen.
Proof.
  intros sd en ts e i x r rv loc E1 E2 V F. destruct (frozen_list_flag _ _ F) as [vs L].
  unfold exec. rewrite E1. simpl. rewrite E2. simpl. rewrite V, L. reflexivity.
Qed.
Lemma setfld_frozen_rejected : forall sd en ts e f x r rv loc,
  eval en x ts = Ok rv -> eval en e (snd rv) = Ok r -> fst r = VStruct loc -> Frozen (snd r) (VStruct loc) ->
  exec sd (SSetFld e f x) en ts = Err EFrozen \/ exec sd (SSetFld e f x) en ts = Err EPy.
Proof.
  intros sd en ts e f x r rv loc E1 E2 V F. destruct (frozen_struct_flag _ _ F) as (sid & vs & L).
  unfold exec. rewrite E1. simpl. rewrite E2. simpl. rewrite V, L.
  destruct (f <? length vs); [rewrite setattr_frozen_field; left | rewrite setattr_frozen_nonfield; right]; reflexivity.
Qed.
Lemma setidx_tuple_rejected : forall sd en ts e i x r rv vs,
  eval en x ts = Ok rv -> eval en e (snd rv) = Ok r -> fst r = VTup vs -> exec sd (SSetIdx e i x) en ts = Err EPy.
Proof. intros. unfold exec. rewrite H. simpl. rewrite H0. simpl. rewrite H1. reflexivity. Qed.

Lemma hwf0 : hwf tst0.
Proof. intros loc _. split; reflexivity. Qed.
