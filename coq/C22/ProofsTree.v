(** C22 — lemmas about the TREE layer (ModelTree.v): frozen flags reach every level, and every
    tree-level function is a sequence of leaf operations (so the leaf theorems apply to every
    GuppyObject inside any nesting of tuples, lists and structs). *)
From Coq Require Import List Bool Arith Lia.
Import ListNotations.
From V.C22 Require Import GenTracing ModelTracing ModelTree Proofs.
Local Open Scope nat_scope.

(* ====================================================================== A. frozen values *)
(** facts read off the source, per type case of unpack_guppy_object *)
Lemma tuple_child_frozen_true : unpack_tuple_child_frozen true = true. Proof. reflexivity. Qed.
Lemma struct_child_frozen_true : unpack_struct_child_frozen true = true. Proof. reflexivity. Qed.
Lemma list_child_frozen_true : unpack_list_child_frozen true = true. Proof. reflexivity. Qed.
Lemma struct_frozen_true : unpack_struct_frozen true = true. Proof. reflexivity. Qed.
Lemma list_frozen_true : unpack_list_frozen true = true. Proof. reflexivity. Qed.
Lemma owned_input_frozen : input_frozen false = true. Proof. reflexivity. Qed.
Lemma setattr_frozen_field : setattr_outcome true true = SRaiseFrozen. Proof. reflexivity. Qed.

(** every list and struct object reachable from the value, through any nesting of tuples,
    lists and structs, carries the frozen flag *)
Inductive Frozen (ts : tst) : val -> Prop :=
| FObj : forall id, Frozen ts (VObj id)
| FNone : Frozen ts VNone
| FInt : Frozen ts VInt
| FTup : forall vs, FrozenL ts vs -> Frozen ts (VTup vs)
| FList : forall loc vs, lists ts loc = Some (true, vs) -> FrozenL ts vs -> Frozen ts (VList loc)
| FStruct : forall loc sid vs, strs ts loc = Some (true, sid, vs) -> FrozenL ts vs -> Frozen ts (VStruct loc)
with FrozenL (ts : tst) : list val -> Prop :=
| FNil : FrozenL ts []
| FCons : forall v vs, Frozen ts v -> FrozenL ts vs -> FrozenL ts (v :: vs).
Scheme Frozen_mut := Induction for Frozen Sort Prop
  with FrozenL_mut := Induction for FrozenL Sort Prop.
Combined Scheme Frozen_mutind from Frozen_mut, FrozenL_mut.

(** heap well-formedness and extension *)
Definition hwf (ts : tst) : Prop := forall loc, nloc ts <= loc -> lists ts loc = None /\ strs ts loc = None.
Definition ext (ts ts' : tst) : Prop :=
  nloc ts <= nloc ts' /\ forall loc, loc < nloc ts -> lists ts' loc = lists ts loc /\ strs ts' loc = strs ts loc.

Lemma ext_refl : forall ts, ext ts ts.
Proof. intros ts. split; [lia | auto]. Qed.
Lemma ext_trans : forall a b c, ext a b -> ext b c -> ext a c.
Proof.
  intros a b c [L1 E1] [L2 E2]. split; [lia|]. intros loc H.
  destruct (E1 loc H) as [A1 A2]. destruct (E2 loc ltac:(lia)) as [B1 B2]. split; congruence.
Qed.
Lemma hwf_lt_list : forall ts loc x, hwf ts -> lists ts loc = Some x -> loc < nloc ts.
Proof. intros ts loc x W H. destruct (le_lt_dec (nloc ts) loc) as [L|L]; [|exact L]. apply W in L. destruct L. congruence. Qed.
Lemma hwf_lt_struct : forall ts loc x, hwf ts -> strs ts loc = Some x -> loc < nloc ts.
Proof. intros ts loc x W H. destruct (le_lt_dec (nloc ts) loc) as [L|L]; [|exact L]. apply W in L. destruct L. congruence. Qed.

Lemma Frozen_mono_both : forall ts ts', hwf ts -> ext ts ts' ->
  (forall v, Frozen ts v -> Frozen ts' v) /\ (forall vs, FrozenL ts vs -> FrozenL ts' vs).
Proof.
  intros ts ts' W [L E]. apply Frozen_mutind; intros; try (constructor; assumption).
  - apply FList with vs; [|assumption]. pose proof (hwf_lt_list _ _ _ W e) as Hl. destruct (E loc Hl). congruence.
  - apply FStruct with sid vs; [|assumption]. pose proof (hwf_lt_struct _ _ _ W e) as Hl. destruct (E loc Hl). congruence.
Qed.
Lemma Frozen_mono : forall ts ts' v, hwf ts -> ext ts ts' -> Frozen ts v -> Frozen ts' v.
Proof. intros ts ts' v W E. apply (proj1 (Frozen_mono_both ts ts' W E)). Qed.
Lemma FrozenL_mono : forall ts ts' vs, hwf ts -> ext ts ts' -> FrozenL ts vs -> FrozenL ts' vs.
Proof. intros ts ts' v W E. apply (proj2 (Frozen_mono_both ts ts' W E)). Qed.

Lemma create_t_heap : forall sd t ts id ts', create_t sd t ts = (id, ts') ->
  nloc ts' = nloc ts /\ lists ts' = lists ts /\ strs ts' = strs ts.
Proof. intros sd t ts id ts' H. unfold create_t in H. destruct (create _ _). inversion H. simpl. auto. Qed.
Lemma use_t_heap : forall id ts ts', use_t id ts = Ok ts' ->
  nloc ts' = nloc ts /\ lists ts' = lists ts /\ strs ts' = strs ts.
Proof. intros id ts ts' H. unfold use_t in H. destruct (use_wire id (leaf ts)); simpl in H; inversion H. simpl. auto. Qed.
Lemma same_heap_hwf_ext : forall ts ts', nloc ts' = nloc ts -> lists ts' = lists ts -> strs ts' = strs ts ->
  hwf ts -> hwf ts' /\ ext ts ts'.
Proof.
  intros ts ts' N Li St W. split.
  - intros loc H. rewrite Li, St. apply W. lia.
  - split; [lia|]. intros loc _. rewrite Li, St. auto.
Qed.
Lemma new_list_props : forall fr vs ts v ts', hwf ts -> new_list fr vs ts = (v, ts') ->
  hwf ts' /\ ext ts ts' /\ v = VList (nloc ts) /\ lists ts' (nloc ts) = Some (fr, vs).
Proof.
  intros fr vs ts v ts' W H. unfold new_list in H. inversion H; subst; clear H.
  split; [|split; [|split]].
  - intros loc Hl. simpl in *. unfold updm. split; [|apply W; lia].
    destruct (loc =? nloc ts) eqn:E; [apply Nat.eqb_eq in E; lia | apply W; lia].
  - split; simpl; [lia|]. intros loc Hl. unfold updm.
    destruct (loc =? nloc ts) eqn:E; [apply Nat.eqb_eq in E; lia | auto].
  - reflexivity.
  - simpl. unfold updm. rewrite Nat.eqb_refl. reflexivity.
Qed.
Lemma new_struct_props : forall fr sid vs ts v ts', hwf ts -> new_struct fr sid vs ts = (v, ts') ->
  hwf ts' /\ ext ts ts' /\ v = VStruct (nloc ts) /\ strs ts' (nloc ts) = Some (fr, sid, vs).
Proof.
  intros fr sid vs ts v ts' W H. unfold new_struct in H. inversion H; subst; clear H.
  split; [|split; [|split]].
  - intros loc Hl. simpl in *. unfold updm. split; [apply W; lia|].
    destruct (loc =? nloc ts) eqn:E; [apply Nat.eqb_eq in E; lia | apply W; lia].
  - split; simpl; [lia|]. intros loc Hl. unfold updm.
    destruct (loc =? nloc ts) eqn:E; [apply Nat.eqb_eq in E; lia | auto].
  - reflexivity.
  - simpl. unfold updm. rewrite Nat.eqb_refl. reflexivity.
Qed.

(** children of one level: if the level below yields frozen values, so does the iteration *)
Lemma children_frozen : forall sd (rec : nat -> bool -> tst -> res (val * tst)),
  (forall id ts v ts', hwf ts -> rec id true ts = Ok (v, ts') -> hwf ts' /\ ext ts ts' /\ Frozen ts' v) ->
  forall tys ts vs ts', hwf ts ->
  map_m (fun t ts => let '(cid, ts1) := create_t sd t ts in rec cid true ts1) tys ts = Ok (vs, ts') ->
  hwf ts' /\ ext ts ts' /\ FrozenL ts' vs.
Proof.
  intros sd rec IH. induction tys as [|t tys IHt]; intros ts vs ts' W H; simpl in H.
  - inversion H; subst. split; [exact W | split; [apply ext_refl | constructor]].
  - destruct (create_t sd t ts) as [cid ts1] eqn:C. apply create_t_heap in C. destruct C as (C1 & C2 & C3).
    destruct (same_heap_hwf_ext ts ts1 C1 C2 C3 W) as [W1 E1].
    destruct (rec cid true ts1) as [[v tsa]|] eqn:R; simpl in H; [|discriminate].
    destruct (IH _ _ _ _ W1 R) as (Wa & Ea & Fa).
    destruct (map_m _ tys tsa) as [[vs2 tsb]|] eqn:M; simpl in H; [|discriminate].
    inversion H; subst; clear H. destruct (IHt _ _ _ Wa M) as (Wb & Eb & Fb).
    split; [exact Wb | split; [eapply ext_trans; [exact E1 | eapply ext_trans; eassumption] | ]].
    constructor; [eapply Frozen_mono; eassumption | exact Fb].
Qed.

Lemma unpack_frozen : forall fuel sd id ts v ts', hwf ts -> unpack fuel sd id true ts = Ok (v, ts') ->
  hwf ts' /\ ext ts ts' /\ Frozen ts' v.
Proof.
  induction fuel as [|f IH]; intros sd id ts v ts' W H; simpl in H; [discriminate|].
  unfold unpack_step in H. destruct (ty_of id ts) as [t|]; simpl in H; [|discriminate].
  assert (Base : forall x, Ok (x, ts) = Ok (v, ts') -> Frozen ts x -> hwf ts' /\ ext ts ts' /\ Frozen ts' v).
  { intros x E F. inversion E; subst. split; [exact W | split; [apply ext_refl | exact F]]. }
  destruct t as [| | |tys|e n|sid].
  - apply (Base _ H). constructor.
  - apply (Base _ H). constructor.
  - apply (Base _ H). constructor.
  - destruct (use_t id ts) as [ts1|] eqn:U; simpl in H; [|discriminate].
    apply use_t_heap in U. destruct U as (U1 & U2 & U3). destruct (same_heap_hwf_ext ts ts1 U1 U2 U3 W) as [W1 E1].
    rewrite tuple_child_frozen_true in H.
    destruct (map_m _ tys ts1) as [[vs tsa]|] eqn:M; simpl in H; [|discriminate]. inversion H; subst; clear H.
    destruct (children_frozen sd (unpack f sd) (IH sd) _ _ _ _ W1 M) as (Wa & Ea & Fa).
    split; [exact Wa | split; [eapply ext_trans; eassumption | constructor; exact Fa]].
  - destruct n as [|n]; [apply (Base _ H); constructor|].
    destruct (use_t id ts) as [ts1|] eqn:U; simpl in H; [|discriminate].
    apply use_t_heap in U. destruct U as (U1 & U2 & U3). destruct (same_heap_hwf_ext ts ts1 U1 U2 U3 W) as [W1 E1].
    rewrite list_child_frozen_true, list_frozen_true in H.
    destruct (map_m _ (repeat e (S n)) ts1) as [[vs tsa]|] eqn:M; simpl in H; [|discriminate].
    destruct (children_frozen sd (unpack f sd) (IH sd) _ _ _ _ W1 M) as (Wa & Ea & Fa).
    simpl fst in H. simpl snd in H.
    destruct (new_list true vs tsa) as [v2 ts2] eqn:NL. inversion H; subst; clear H.
    destruct (new_list_props _ _ _ _ _ Wa NL) as (Wb & Eb & -> & Lb).
    split; [exact Wb | split; [eapply ext_trans; [exact E1 | eapply ext_trans; eassumption] | ]].
    apply FList with vs; [exact Lb | eapply FrozenL_mono; eassumption].
  - destruct (use_t id ts) as [ts1|] eqn:U; simpl in H; [|discriminate].
    apply use_t_heap in U. destruct U as (U1 & U2 & U3). destruct (same_heap_hwf_ext ts ts1 U1 U2 U3 W) as [W1 E1].
    rewrite struct_child_frozen_true, struct_frozen_true in H.
    destruct (map_m _ (nth sid sd []) ts1) as [[vs tsa]|] eqn:M; simpl in H; [|discriminate].
    destruct (children_frozen sd (unpack f sd) (IH sd) _ _ _ _ W1 M) as (Wa & Ea & Fa).
    simpl fst in H. simpl snd in H.
    destruct (new_struct true sid vs tsa) as [v2 ts2] eqn:NS. inversion H; subst; clear H.
    destruct (new_struct_props _ _ _ _ _ _ Wa NS) as (Wb & Eb & -> & Lb).
    split; [exact Wb | split; [eapply ext_trans; [exact E1 | eapply ext_trans; eassumption] | ]].
    apply FStruct with sid vs; [exact Lb | eapply FrozenL_mono; eassumption].
Qed.
