(** C22 — comptime tracing enforces ownership.   (level: other / partial)
    The theorems are about the leaf-level state machine of ModelTracing.v, whose branch
    conditions are the definitions GENERATED from /repo's source on this run, and about the
    generated frozenlist / __setattr__ tables.  The spec side (kind_of, uses, leaked, legal)
    is written over the history of operations, independently of the state the code keeps.
    Round 2: the TREE layer (ModelTree.v: unpack_guppy_object, guppy_object_from_py,
    update_packed_value, trace_call, statements, trace_function over nested tuples / lists /
    structs) now has theorems too: frozen flags reach every level (per-type-case flags are
    generated), frozen values reject every mutation statement, and every tree-level run is a
    run of leaf operations, so use_once / leak_detected hold for every GuppyObject inside any
    nesting.  Still only differentially validated: that ModelTree.v itself matches the code. *)
From Coq Require Import List Bool Arith String ZArith.
Import ListNotations.
From V.C22 Require Import GenTracing ModelTracing ModelFrozen ModelTree Proofs ProofsTree.
Local Open Scope nat_scope.

(** A non-copyable object passes `_use_wire` at most once between (re)assignments — at every
    point (prefix) of every accepted script. *)
Theorem use_once : forall pre suf s id k,
  wf_ops (pre ++ suf) -> lrun (pre ++ suf) st0 = Ok s ->
  kind_of (rev pre) id = Some k -> copyable k = false -> uses (rev pre) id <= 1.
Proof. exact use_once_lemma. Qed.
Print Assumptions use_once.

(** ... and the second use raises the "already used" error, naming that object. *)
Theorem second_use_raises : forall ops s id k,
  wf_ops ops -> lrun ops st0 = Ok s ->
  kind_of (rev ops) id = Some k -> copyable k = false -> uses (rev ops) id = 1 ->
  lrun (ops ++ [LUse id]) st0 = Err (EAlreadyUsed id).
Proof. exact second_use_raises_lemma. Qed.
Print Assumptions second_use_raises.

(** No spurious rejection: a first use (or any use of a copyable value) is accepted and counted. *)
Theorem available_use_accepted : forall ops s id k,
  wf_ops ops -> lrun ops st0 = Ok s ->
  kind_of (rev ops) id = Some k -> (copyable k = true \/ uses (rev ops) id = 0) ->
  exists s', lrun (ops ++ [LUse id]) st0 = Ok s' /\ uses (rev (ops ++ [LUse id])) id = S (uses (rev ops) id).
Proof. exact first_use_ok_lemma. Qed.
Print Assumptions available_use_accepted.

(** Lending a value to a call (update_packed_value) makes it available again, with its kind. *)
Theorem reassign_makes_available : forall ops s id k,
  wf_ops ops -> lrun ops st0 = Ok s -> kind_of (rev ops) id = Some k ->
  forall k2, wf_kind k2 ->
  exists s', lrun (ops ++ [LReassign id k2]) st0 = Ok s' /\ uses (rev (ops ++ [LReassign id k2])) id = 0
             /\ kind_of (rev (ops ++ [LReassign id k2])) id = Some k.
Proof. exact reassign_resets_lemma. Qed.
Print Assumptions reassign_makes_available.

(** A script is accepted iff every operation is allowed by the history before it. *)
Theorem accepted_iff_legal : forall ops, wf_ops ops -> ((exists s, lrun ops st0 = Ok s) <-> legal [] ops).
Proof. exact lrun_legal_iff. Qed.
Print Assumptions accepted_iff_legal.

(** The end-of-function check raises iff some created/received non-droppable object has not
    been used since it was created / last re-assigned; the object it names is such an object. *)
Theorem leak_detected : forall ops s, wf_ops ops -> lrun ops st0 = Ok s ->
  (end_check s = Ok tt <-> ~ exists id, leaked (rev ops) id) /\
  (forall e, end_check s = Err e -> exists id, e = ELeak id /\ leaked (rev ops) id).
Proof. exact leak_detected_lemma. Qed.
Print Assumptions leak_detected.

(** Whole traced function: inputs received, body, results and borrowed inputs handed back,
    leak check.  Accepted iff the script is legal and nothing is leaked. *)
Theorem trace_function_verdict : forall ins body ret,
  let ops := (map LCreate ins ++ body ++ map LUse ret)%list in
  wf_ops ops ->
  (trace_leaf ins body ret = Ok tt <-> (legal [] ops /\ ~ exists id, leaked (rev ops) id)) /\
  (forall e, trace_leaf ins body ret = Err e ->
     (exists id, e = ELeak id /\ legal [] ops /\ leaked (rev ops) id) \/ ~ legal [] ops).
Proof. exact trace_leaf_verdict_lemma. Qed.
Print Assumptions trace_function_verdict.

(** Every in-place mutator of CPython's list (computed on this run) is overridden by
    frozenlist with a body that raises and leaves the list as constructed. *)
Theorem frozen_total : forall xs, exists fl,
  construct frozen_overrides xs = Some fl /\ contents fl = xs /\
  forall m arg, In m list_mutators -> call frozen_overrides m arg fl = ORaised fl.
Proof. apply frozen_total_lemma; vm_compute; reflexivity. Qed.
Print Assumptions frozen_total.

(** `copy()` is the one sanctioned way out: it is not a mutator and returns normally. *)
Theorem frozen_copy_allowed : forall xs fl arg, construct frozen_overrides xs = Some fl ->
  call frozen_overrides "copy" arg fl = OReturned fl /\ ~ In "copy"%string list_mutators.
Proof.
  intros xs fl arg _. split; [reflexivity|]. vm_compute. intuition discriminate.
Qed.
Print Assumptions frozen_copy_allowed.

(** GuppyStructObject.__setattr__: a frozen struct never stores; an unfrozen one stores fields only. *)
Theorem struct_setattr_frozen :
  (forall is_field, setattr_outcome is_field true <> SStored) /\
  setattr_outcome true true = SRaiseFrozen /\ setattr_outcome true false = SStored /\
  (forall fr, setattr_outcome false fr = SRaiseAttr).
Proof. repeat split; try (intros []; vm_compute; congruence); reflexivity. Qed.
Print Assumptions struct_setattr_frozen.

(** Owned inputs are unpacked frozen, borrowed ones are not, and the flag reaches every level. *)
Theorem owned_inputs_frozen :
  input_frozen false = true /\ input_frozen true = false /\
  (forall f, unpack_tuple_child_frozen f = f /\ unpack_struct_child_frozen f = f /\ unpack_list_child_frozen f = f /\
             unpack_struct_frozen f = f /\ unpack_list_frozen f = f).
Proof. repeat split; try reflexivity; destruct f; reflexivity. Qed.
Print Assumptions owned_inputs_frozen.

(* ------------------------------------------------------------------ tree layer (round 2) *)
(** For an owned argument (and any unpacking with frozen=True) every list and struct object
    reachable through ANY nesting of tuples, lists and structs carries the frozen flag.  The
    flags handed down per type case (tuple / array / struct) are generated from the source. *)
Theorem unpack_freezes_all_levels : forall fuel sd id ts v ts',
  hwf ts -> unpack fuel sd id (input_frozen false) ts = Ok (v, ts') -> Frozen ts' v.
Proof. intros fuel sd id ts v ts' W H. rewrite owned_input_frozen in H. apply (unpack_frozen fuel sd id ts v ts' W H). Qed.
Print Assumptions unpack_freezes_all_levels.

(** ... components of frozen values are frozen (so the theorem below applies at every path) *)
Theorem frozen_components : forall ts v i c, Frozen ts v ->
  match v with
  | VTup vs => nth_error vs i = Some c
  | VList loc => exists fr vs, lists ts loc = Some (fr, vs) /\ nth_error vs i = Some c
  | VStruct loc => exists fr sid vs, strs ts loc = Some (fr, sid, vs) /\ nth_error vs i = Some c
  | _ => False
  end -> Frozen ts c.
Proof. exact Frozen_component. Qed.
Print Assumptions frozen_components.

(** ... and every in-place mutation statement whose target evaluates to a frozen list / struct
    (or a tuple) is rejected: 13 list mutators, item assignment, field assignment. *)
Theorem frozen_values_reject_mutation : forall sd en ts e x,
  (forall m r rv loc, eval en e ts = Ok r -> eval en x (snd r) = Ok rv -> fst r = VList loc ->
     Frozen (snd rv) (VList loc) -> exec sd (SMut e m x) en ts = Err EFrozen) /\
  (forall i r rv loc, eval en x ts = Ok rv -> eval en e (snd rv) = Ok r -> fst r = VList loc ->
     Frozen (snd r) (VList loc) -> exec sd (SSetIdx e i x) en ts = Err EFrozen) /\
  (forall f r rv loc, eval en x ts = Ok rv -> eval en e (snd rv) = Ok r -> fst r = VStruct loc ->
     Frozen (snd r) (VStruct loc) ->
     exec sd (SSetFld e f x) en ts = Err EFrozen \/ exec sd (SSetFld e f x) en ts = Err EPy) /\
  (forall i r rv vs, eval en x ts = Ok rv -> eval en e (snd rv) = Ok r -> fst r = VTup vs ->
     exec sd (SSetIdx e i x) en ts = Err EPy).
Proof.
  intros. repeat split; intros.
  - eapply mut_frozen_rejected; eassumption.
  - eapply setidx_frozen_rejected; eassumption.
  - eapply setfld_frozen_rejected; eassumption.
  - eapply setidx_tuple_rejected; eassumption.
Qed.
Print Assumptions frozen_values_reject_mutation.

(** Every tree-level run is a run of leaf operations (tree_use_once + tree_leak_detected):
    for every comptime body over nested tuples / lists / structs,
    - accepted  => the GuppyObjects it touched form a LEGAL leaf history in which nothing is leaked
                   (so by use_once every non-copyable leaf, at any depth, was used at most once between
                   (re)assignments, and every non-droppable one was used);
    - "already used" for object id => id is non-copyable and had exactly one use since its creation /
                   last re-assignment in a reachable leaf history (a genuine second use, whether of a
                   leaf or of a packed container object);
    - "leaked" for object id => id is a non-droppable object with no use since creation / re-assignment,
                   and no leak error is raised anywhere but in the final check. *)
Theorem tree_refines_leaf : forall sd params rty body,
  match trace_function sd params rty body with
  | Ok _ => exists ops, wf_ops ops /\ legal [] ops /\ ~ exists id, leaked (rev ops) id
  | Err (ELeak id) => exists ops s, wf_ops ops /\ lrun ops st0 = Ok s /\ leaked (rev ops) id
  | Err (EAlreadyUsed id) =>
      exists ops s k, wf_ops ops /\ lrun ops st0 = Ok s /\ kind_of (rev ops) id = Some k /\
                      copyable k = false /\ uses (rev ops) id = 1
  | Err _ => True
  end.
Proof. exact trace_function_refines_lemma. Qed.
Print Assumptions tree_refines_leaf.

(** The building blocks refine too; in particular update_packed_value (with its fresh object)
    is a sequence of leaf steps in which each GuppyObject of the subtree gets one LReassign
    (reassign_makes_available), and packing (from_py) / unpacking are sequences of LCreate / LUse. *)
Theorem tree_ops_refine_leaf : forall fuel sd ts,
  (forall id fr, Sim (leaf ts) (unpack fuel sd id fr ts) (fun r => leaf (snd r))) /\
  (forall v, Sim (leaf ts) (from_py fuel sd v ts) (fun r => leaf (snd r))) /\
  (forall v t, Sim (leaf ts) (upd_fresh fuel sd v t ts) (fun r => leaf (snd r))) /\
  (forall params rty args, Sim (leaf ts) (call_fn sd params rty args ts) (fun r => leaf (snd r))).
Proof.
  intros. repeat split; intros; [apply unpack_sim | apply from_py_sim | apply upd_fresh_sim | apply call_fn_sim].
Qed.
Print Assumptions tree_ops_refine_leaf.

(** the hypotheses are satisfiable on non-trivial scripts *)
Definition qubit_k := mkKind false false.
Definition int_k := mkKind true true.
Definition arr_int_k := mkKind false true.
Example ex_accept : trace_leaf [qubit_k; int_k] [LUse 0; LReassign 0 qubit_k; LUse 1; LUse 1; LCreate qubit_k; LUse 3] [0] = Ok tt.
Proof. vm_compute. reflexivity. Qed.
Example ex_reuse : trace_leaf [qubit_k] [LUse 0] [0] = Err (EAlreadyUsed 0).
Proof. vm_compute. reflexivity. Qed.
Example ex_leak : trace_leaf [qubit_k; arr_int_k] [LCreate qubit_k] [0] = Err (ELeak 2).
Proof. vm_compute. reflexivity. Qed.
Example ex_wf : wf_ops [LCreate qubit_k; LCreate int_k; LCreate arr_int_k; LUse 0].
Proof.
  intros k [[H|[H|[H|[H|[]]]]]|[j [H|[H|[H|[H|[]]]]]]]; inversion H; subst; intro; (reflexivity || discriminate).
Qed.

(** tree layer (differentially validated only): sample verdicts of the executable model.
    0 accepted, 1 already used, 2 leaked, 3 mutation of an owned-derived value *)
Definition sd0 : sdefs := [[TQubit; TInt]].
Example tree_borrow_then_return :
  verdict (trace_function sd0 [(TArr TQubit 2, false)] (TArr TQubit 2)
    [SCall None [(TQubit, true)] TNone [EIdx (EVar 0) 1]; SReturn (EVar 0)]) = 0.
Proof. vm_compute. reflexivity. Qed.
Example tree_element_reused :
  verdict (trace_function sd0 [(TArr TQubit 2, true)] TNone
    [SCall None [(TQubit, true); (TQubit, true)] TNone [EIdx (EVar 0) 0; EIdx (EVar 0) 0]]) = 1.
Proof. vm_compute. reflexivity. Qed.
Example tree_struct_field_leaked :
  verdict (trace_function sd0 [(TStruct 0, false)] TNone []) = 2.
Proof. vm_compute. reflexivity. Qed.
Example tree_owned_struct_frozen :
  verdict (trace_function sd0 [(TStruct 0, false)] (TStruct 0) [SSetFld (EVar 0) 1 EInt; SReturn (EVar 0)]) = 3.
Proof. vm_compute. reflexivity. Qed.
Example tree_owned_list_init_frozen :
  verdict (trace_function sd0 [(TArr TQubit 2, false)] (TArr TQubit 2) [SMut (EVar 0) MInit EInt; SReturn (EVar 0)]) = 3.
Proof. vm_compute. reflexivity. Qed.
