(** C13 — Generic instantiation and monomorphization preserve meaning (property theorems). *)
From Coq Require Import ZArith List Bool Arith.
From V.C13 Require Import Model Proofs.
Import ListNotations.

(* instantiating a term with a full argument list = textual simultaneous substitution *)
Theorem instantiate_full_subst_tm : forall d l t, scoped (length l) t = true ->
  insf l t = subst (fun i => nth i l d) t.
Proof. exact insf_subst. Qed.
Print Assumptions instantiate_full_subst_tm.
