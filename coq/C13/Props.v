(** C13 — Generic instantiation and monomorphization preserve meaning.

    All statements are about the executable model [Model.v] of guppylang's
    Instantiator / FunctionType.instantiate_partial / compile_variable_idx / to_hugr under
    partial monomorphization; the model is tied to /repo by the differential correspondence
    of props/C13/check.py on every run.  Quantification is over ALL well-scoped signatures
    (unbounded parameter lists, unbounded type depth).  Values are not modelled: "same
    runtime results" is reduced to these type-level laws (there is no emulator for /repo's
    HUGR). *)
From Coq Require Import ZArith List Bool Arith.
From V.C13 Require Import Model Proofs.
Import ListNotations.

(* a signature used by the Examples: forall T, (c1: nat @comptime), U.  (T, arr[U, c1]) -> (U, T) *)
Definition ex_f : fty :=
  mk_fty [TVar 0 true true; TOpq 0 [TVar 2 false true; CVar (TNum KNat) 1]; TNum KNat]
         [FNo; FOwned; FComptime]
         (TTup [TVar 2 false true; TVar 0 true true] false)
         [PTy 0 true true; PCon 1 (TNum KNat) true; PTy 2 false true].

(** 1. instantiate = textual simultaneous substitution (terms and whole signatures) *)
Theorem instantiate_full_subst_tm : forall d l t, scoped (length l) t = true ->
  insf l t = subst (fun i => nth i l d) t.
Proof. exact insf_subst. Qed.
Print Assumptions instantiate_full_subst_tm.

Theorem instantiate_full_subst : forall d f args,
  wf_fty f = true -> length args = length (f_params f) ->
  let r := fun i => nth i (map set_preserve args) d in
  instantiate f args = mkF (map (subst r) (f_ins f)) (f_fl f) (subst r (f_out f)) []
                           (map (subst r) (f_cargs f)).
Proof. exact instantiate_subst. Qed.
Print Assumptions instantiate_full_subst.

Example instantiate_full_subst_ex :
  wf_fty ex_f = true /\
  instantiate ex_f [TTup [TNum KInt] false; CVal (TNum KNat) 4; TNum KFloat]
  = mkF [TTup [TNum KInt] true; TOpq 0 [TNum KFloat; CVal (TNum KNat) 4]; TNum KNat]
        [FNo; FOwned; FComptime] (TTup [TNum KFloat; TTup [TNum KInt] true] false) []
        [CVal (TNum KNat) 4].
Proof. vm_compute. auto. Qed.

(** 2. instantiating a subset and then the rest = instantiating all at once (structural
       equality of the whole signature: inputs, output, remaining parameters, comptime args),
       for signatures whose const parameter types are closed *)
Theorem instantiate_partial_compose : forall f a1 a2,
  wf_fty f = true -> closed_ctypes (f_params f) = true -> forallb arg_closed a1 = true ->
  length a1 = length (f_params f) -> length a2 = length (filter is_none a1) ->
  instantiate_partial (instantiate_partial f a1) a2 = instantiate_partial f (compose_args a1 a2).
Proof. exact ip_compose_strict. Qed.
Print Assumptions instantiate_partial_compose.

Example instantiate_partial_compose_ex :
  let a1 := [None; Some (CVal (TNum KNat) 4); None] in
  let a2 := [Some (TNone false); None] in
  closed_ctypes (f_params ex_f) = true /\ forallb arg_closed a1 = true /\
  compose_args a1 a2 = [Some (TNone false); Some (CVal (TNum KNat) 4); None] /\
  f_params (instantiate_partial (instantiate_partial ex_f a1) a2) = [PTy 0 false true] /\
  f_out (instantiate_partial (instantiate_partial ex_f a1) a2)
    = TTup [TVar 0 false true; TNone true] false.
Proof. vm_compute. auto 6. Qed.

(*    With DEPENDENT const parameter types the law fails under structural equality: the
      BoundConstVar substituted for a remaining const parameter carries the parameter's
      un-instantiated type (stale annotation).  Witness replayed on /repo (known finding). *)
Definition dep_f : fty :=
  mk_fty [TVar 0 true true; TOpq 1 [CVar (TVar 0 true true) 1]] [FNo; FNo] (TVar 0 true true)
         [PTy 0 true true; PCon 1 (TVar 0 true true) false].
Theorem instantiate_partial_compose_dependent_refuted : exists f a1 a2,
  wf_fty f = true /\ forallb arg_closed a1 = true /\
  length a1 = length (f_params f) /\ length a2 = length (filter is_none a1) /\
  instantiate_partial (instantiate_partial f a1) a2 <> instantiate_partial f (compose_args a1 a2)
  /\ erase_fty (instantiate_partial (instantiate_partial f a1) a2)
     = erase_fty (instantiate_partial f (compose_args a1 a2)).
Proof.
  exists dep_f, [Some (TNum KInt); None], [None]. vm_compute.
  repeat split; auto. intro H. discriminate H.
Qed.
Print Assumptions instantiate_partial_compose_dependent_refuted.

(*    In general (dependent const parameter types included) the composition law holds modulo
      the type annotations of constants: everything a substitution or the HUGR translation of a
      well-typed program looks at — inputs, output, comptime args, the remaining parameters with
      their (erased) types, indices and flags — agrees. *)
Theorem instantiate_partial_compose_erased : forall f a1 a2,
  wf_fty f = true -> forallb arg_closed a1 = true ->
  length a1 = length (f_params f) -> length a2 = length (filter is_none a1) ->
  erase_fty (instantiate_partial (instantiate_partial f a1) a2)
  = erase_fty (instantiate_partial f (compose_args a1 a2)).
Proof. exact ip_compose_erased. Qed.
Print Assumptions instantiate_partial_compose_erased.

Example instantiate_partial_compose_erased_ex :
  (* forall T, (c1: T), U.  first U := float, then T := int *)
  let f := mk_fty [TOpq 1 [CVar (TVar 0 true true) 1; TVar 2 true true]] [FNo] (TVar 0 true true)
                  [PTy 0 true true; PCon 1 (TVar 0 true true) true; PTy 2 true true] in
  let a1 := [None; None; Some (TNum KFloat)] in
  let a2 := [Some (TNum KInt); None] in
  wf_fty f = true /\ closed_ctypes (f_params f) = false /\
  f_params (instantiate_partial (instantiate_partial f a1) a2) = [PCon 0 (TNum KInt) false].
Proof. vm_compute. auto. Qed.

(** 3. the remaining parameters: the unspecialised ones in their original order, renumbered
       0..k-1, const bounds instantiated with the instantiation of the earlier parameters *)
Theorem remaining_params_spec : forall f a,
  f_params (instantiate_partial f a) = remaining_spec (f_params f) a [] 0.
Proof.
  intros. unfold instantiate_partial. rewrite ip_loop_spec. simpl. apply ip_spec_remaining.
Qed.
Print Assumptions remaining_params_spec.

(*    instantiate_partial with no argument given is the identity EXCEPT that with_idx forgets
      from_comptime_arg (replayed on /repo, known finding; harmless for HUGR because
      comptime_args is passed on explicitly) *)
Theorem identity_drops_comptime_flag_refuted : exists f,
  wf_fty f = true /\ instantiate_partial f (map (fun _ => None) (f_params f)) <> f /\
  instantiate_partial f (map (fun _ => None) (f_params f))
  = mkF (f_ins f) (f_fl f) (f_out f) (map drop_ct (f_params f)) (f_cargs f).
Proof. exists ex_f. vm_compute. repeat split; auto. intro H. discriminate H. Qed.
Print Assumptions identity_drops_comptime_flag_refuted.

(** 4. compile_variable_idx = rank among the unspecialised parameters: strictly increasing
       on them, below their number, and onto 0..k-1 *)
Theorem compile_variable_idx_rank : forall (m : list (option tm)),
  let k := length (filter is_none m) in
  (forall i, nth_error m i = Some None -> compile_variable_idx i m < k) /\
  (forall i j, i < j -> nth_error m i = Some None ->
               compile_variable_idx i m < compile_variable_idx j m) /\
  (forall r, r < k -> exists i, nth_error m i = Some None /\ compile_variable_idx i m = r).
Proof.
  intros m k. split; [|split].
  - intros i E. apply rank_lt_total, E.
  - intros i j L E. apply rank_strict; auto.
  - intros r L. apply rank_onto, L.
Qed.
Print Assumptions compile_variable_idx_rank.

Example compile_variable_idx_ex :
  map (fun i => compile_variable_idx i [None; Some (TNum KInt); None; None; Some (TNum KNat)])
      [0; 2; 3] = [0; 1; 2].
Proof. reflexivity. Qed.

(** 5. type-level commutation: translating a type to HUGR under a partial monomorphization
       (CompilerContext.type_var_to_hugr / const_var_to_hugr with current_mono_args = m)
       = HUGR-level specialisation of the generic translation (to_hugr_poly's body): the
       specialised variables are replaced by the translated arguments, the others are
       renumbered by their rank.  Errors (HErr = InternalGuppyError) commute too. *)
Theorem to_hugr_monomorphize_commutes : forall m t, mono_ok m t = true ->
  to_hugr_m m t = hspec (mono_harg m) (fun i => compile_variable_idx i m) (to_hugr0 t).
Proof. exact to_hugr_mono_hspec. Qed.
Print Assumptions to_hugr_monomorphize_commutes.

Example to_hugr_monomorphize_commutes_ex :
  let m := [Some (TTup [TNum KInt] false); None; None] in
  let t := TFun (f_ins ex_f) (f_fl ex_f) (f_out ex_f) in
  mono_ok m t = true /\
  to_hugr_m m t = HFun [HTup [HInt]; HOpq 0 [HVar 1 false; HVarArg 0]]
                       [HVar 1 false; HTup [HInt]].
Proof. vm_compute. auto. Qed.

(** 6. partially_monomorphize_args (no outer monomorphization) marks exactly: the const
       parameters whose instantiated type is not nat, and every parameter mentioned in the
       original non-nat type of a const parameter; marked entries carry the given argument,
       all others stay None.  Hypothesis: each const parameter's idx points at its own
       argument (true when idx = position). *)
Theorem partially_monomorphize_args_marks_exactly : forall ps args j,
  length ps = length args -> j < length args ->
  Forall (fun pa => forall i t c, fst pa = PCon i t c -> nth_error args i = Some (snd pa))
         (combine ps args) ->
  nth_error (fst (partially_monomorphize_args ps args None)) j
  = Some (if needs_mono ps args j then nth_error args j else None).
Proof. exact pma_marks. Qed.
Print Assumptions partially_monomorphize_args_marks_exactly.

Example partially_monomorphize_args_ex :
  (* forall T, (x: T), (n: nat).  T := nat: only T is monomorphized; T := int: T and x *)
  let ps := [PTy 0 true true; PCon 1 (TVar 0 true true) true; PCon 2 (TNum KNat) false] in
  fst (partially_monomorphize_args ps [TNum KNat; CVal (TNum KNat) 5; CVal (TNum KNat) 2] None)
    = [Some (TNum KNat); None; None] /\
  fst (partially_monomorphize_args ps [TNum KInt; CVal (TNum KInt) 5; CVal (TNum KNat) 2] None)
    = [Some (TNum KInt); Some (CVal (TNum KInt) 5); None].
Proof. vm_compute. auto. Qed.

(** 7. rows at call sites: the number of return wires that `_pack_returns` consumes for the
       INSTANTIATED return type of a generic callee equals the number of output ports of the
       HUGR function declared from the GENERIC signature (a type variable in return position is
       one port whatever it is instantiated with: instantiate_partial marks instantiated
       None / tuples with `preserve`, and type_to_row / _pack_returns honour the mark). *)
Theorem call_row_matches_pack_returns : forall f a,
  pack_returns_consumes (f_out (instantiate_partial f a)) = declared_outs (f_out f).
Proof. exact call_row_matches. Qed.
Print Assumptions call_row_matches_pack_returns.

Example call_row_matches_pack_returns_ex :
  let f := mk_fty [TVar 0 true true] [FNo] (TVar 0 true true) [PTy 0 true true] in
  map (fun a => (f_out (instantiate f [a]), pack_returns_consumes (f_out (instantiate f [a]))))
      [TNone false; TTup [] false; TTup [TNum KInt; TNum KInt] false]
  = [(TNone true, 1); (TTup [] true, 1); (TTup [TNum KInt; TNum KInt] true, 1)]
  /\ pack_returns_consumes (TNone false) = 0 /\ pack_returns_consumes (TTup [TNum KInt; TNum KInt] false) = 2.
Proof. vm_compute. auto. Qed.
