(** C13 — executable model of generic instantiation and partial monomorphization.

    Modelled code (guppylang-internals 0.21.6):
      tys/subst.py     Instantiator (_transform_BoundTypeVar/_transform_BoundConstVar)
      tys/const.py     ConstValue.transform, BoundConstVar.transform
      tys/ty.py        *.transform, FunctionType.__init__ (comptime_args default),
                       FunctionType.instantiate_partial / instantiate, type_to_row,
                       to_hugr / to_hugr_poly / _to_hugr_function_type
      tys/param.py     with_idx, to_bound, instantiate_bounds, to_hugr
      tys/arg.py       TypeArg.to_hugr / ConstArg.to_hugr
      tys/common.py    QuantifiedToHugrContext
      compiler/core.py compile_variable_idx, type_var_to_hugr, const_var_to_hugr,
                       require_monomorphization, partially_monomorphize_args

    Types, constants and arguments live in ONE syntactic class [tm] (an argument is a type
    or a constant; constants are the CVal/CVar heads).  Display names are not modelled.
    NO proofs in this file. *)
From Coq Require Import ZArith List Bool Arith.
Import ListNotations.

Inductive numk := KNat | KInt | KFloat.
Inductive flag := FNo | FInout | FOwned | FComptime.

Inductive tm : Type :=
| TVar (i : nat) (cp dr : bool)            (* BoundTypeVar(idx, copyable, droppable) *)
| TNum (k : numk)                          (* NumericType *)
| TNone (p : bool)                         (* NoneType(preserve) *)
| TTup (ts : list tm) (p : bool)           (* TupleType(element_types, preserve) *)
| TOpq (d : nat) (args : list tm)          (* OpaqueType / StructType by definition id *)
| TFun (ins : list tm) (fl : list flag) (out : tm)   (* non-parametrized FunctionType *)
| CVal (t : tm) (v : Z)                    (* ConstValue(ty, value) *)
| CVar (t : tm) (i : nat).                 (* BoundConstVar(ty, idx) *)

Inductive param :=
| PTy (idx : nat) (cp dr : bool)           (* TypeParam(idx, must_be_copyable, must_be_droppable) *)
| PCon (idx : nat) (t : tm) (ct : bool).   (* ConstParam(idx, ty, from_comptime_arg) *)

Record fty := mkF { f_ins : list tm; f_fl : list flag; f_out : tm;
                    f_params : list param; f_cargs : list tm }.

Definition is_nat (t : tm) : bool := match t with TNum KNat => true | _ => false end.
Definition is_const (t : tm) : bool := match t with CVal _ _ | CVar _ _ => true | _ => false end.
Definition is_none {A} (o : option A) : bool := match o with None => true | Some _ => false end.

(* ------------------------------------------------------------------ Instantiator ---- *)
(* [inst s t] = t.transform(Instantiator(s, allow_partial=True)); entries [None] of the
   (partial) instantiation leave the variable alone.  With no [None] entry this is also
   Instantiator(s) (allow_partial=False). *)
Fixpoint inst (s : list (option tm)) (t : tm) : tm :=
  match t with
  | TVar i cp dr =>
      match nth_error s i with
      | Some (Some a) => a
      | Some None => t
      | None => TVar (i - length s) cp dr
      end
  | TNum _ | TNone _ => t
  | TTup ts p => TTup (map (inst s) ts) p
  | TOpq d args => TOpq d (map (inst s) args)
  | TFun ins fl out => TFun (map (inst s) ins) fl (inst s out)
  | CVal _ _ => t                                   (* ConstValue.transform: unchanged *)
  | CVar ty i =>
      match nth_error s i with
      | Some (Some a) => a
      | Some None =>                                 (* BoundConstVar.transform: only the TOP of the
                                                        annotation is offered to the transformer *)
          CVar (match ty with TVar _ _ _ => inst s ty | _ => ty end) i
      | None => CVar ty (i - length s)               (* annotation untouched *)
      end
  end.

Definition insf (l : list tm) (t : tm) : tm := inst (map Some l) t.

(* ------------------------------------------------------------------ parameters ------ *)
Definition p_idx (p : param) : nat := match p with PTy i _ _ => i | PCon i _ _ => i end.
Definition with_idx (k : nat) (p : param) : param :=
  match p with PTy _ cp dr => PTy k cp dr | PCon _ t _ => PCon k t false end.   (* flag dropped *)
Definition to_bound (p : param) : tm :=
  match p with PTy i cp dr => TVar i cp dr | PCon i t _ => CVar t i end.
Definition inst_bounds (s : list (option tm)) (p : param) : param :=
  match p with PTy _ _ _ => p | PCon i t ct => PCon i (inst s t) ct end.
Definition set_preserve (a : tm) : tm :=
  match a with TTup ts _ => TTup ts true | TNone _ => TNone true | _ => a end.

(* FunctionType(inputs, output, params): comptime_args default *)
Definition default_cargs (ps : list param) : list tm :=
  flat_map (fun p => match p with PCon _ _ true => [to_bound p] | _ => [] end) ps.
Definition mk_fty ins fl out ps := mkF ins fl out ps (default_cargs ps).

(* the loop of instantiate_partial: returns (full_inst, remaining_params) *)
Fixpoint ip_loop (ps : list param) (args : list (option tm)) (full : list tm) (rem : list param)
  : list tm * list param :=
  match ps, args with
  | p :: ps', a :: args' =>
      match a with
      | None => let p' := with_idx (length rem) p in
                ip_loop ps' args' (full ++ [set_preserve (to_bound p')])
                        (rem ++ [inst_bounds (map Some full) p'])
      | Some x => ip_loop ps' args' (full ++ [set_preserve x]) rem
      end
  | _, _ => (full, rem)
  end.

Definition instantiate_partial (f : fty) (args : list (option tm)) : fty :=
  let '(full, rem) := ip_loop (f_params f) args [] [] in
  mkF (map (insf full) (f_ins f)) (f_fl f) (insf full (f_out f)) rem
      (map (insf full) (f_cargs f)).
Definition instantiate (f : fty) (args : list tm) : fty := instantiate_partial f (map Some args).

(* ------------------------------------------------------------------ scoping ---------- *)
Fixpoint bound_vars (t : tm) : list nat :=
  match t with
  | TVar i _ _ => [i]
  | TNum _ | TNone _ => []
  | TTup ts _ => flat_map bound_vars ts
  | TOpq _ args => flat_map bound_vars args
  | TFun ins _ out => flat_map bound_vars ins ++ bound_vars out
  | CVal ty _ => bound_vars ty
  | CVar ty i => i :: bound_vars ty
  end.

(* every variable index (also inside annotations) is < n *)
Fixpoint scoped (n : nat) (t : tm) : bool :=
  match t with
  | TVar i _ _ => i <? n
  | TNum _ | TNone _ => true
  | TTup ts _ => forallb (scoped n) ts
  | TOpq _ args => forallb (scoped n) args
  | TFun ins _ out => forallb (scoped n) ins && scoped n out
  | CVal ty _ => scoped n ty
  | CVar ty i => (i <? n) && scoped n ty
  end.

(* well-formed parameter list: idx = position (from k), const types mention earlier params only *)
Fixpoint wf_params (k : nat) (ps : list param) : bool :=
  match ps with
  | [] => true
  | p :: ps' => (p_idx p =? k) && (match p with PCon _ t _ => scoped k t | _ => true end)
                && wf_params (S k) ps'
  end.
Definition wf_fty (f : fty) : bool :=
  let n := length (f_params f) in
  wf_params 0 (f_params f) && forallb (scoped n) (f_ins f) && scoped n (f_out f)
  && forallb (scoped n) (f_cargs f).
Definition closed_ctypes (ps : list param) : bool :=
  forallb (fun p => match p with PCon _ t _ => scoped 0 t | _ => true end) ps.

(* erase the type annotations of constants (they never influence a substitution) *)
Fixpoint erase (t : tm) : tm :=
  match t with
  | TVar _ _ _ | TNum _ | TNone _ => t
  | TTup ts p => TTup (map erase ts) p
  | TOpq d args => TOpq d (map erase args)
  | TFun ins fl out => TFun (map erase ins) fl (erase out)
  | CVal _ v => CVal (TNone false) v
  | CVar _ i => CVar (TNone false) i
  end.
Definition erase_param (p : param) : param :=
  match p with PTy _ _ _ => p | PCon i t ct => PCon i (erase t) ct end.
Definition erase_fty (f : fty) : fty :=
  mkF (map erase (f_ins f)) (f_fl f) (erase (f_out f)) (map erase_param (f_params f))
      (map erase (f_cargs f)).
(* forget from_comptime_arg (what with_idx does) *)
Definition drop_ct (p : param) : param :=
  match p with PTy _ _ _ => p | PCon i t _ => PCon i t false end.

(* ------------------------------------------------------------------ specification ---- *)
(* textual simultaneous substitution: every variable with index i is replaced by [r i] *)
Fixpoint subst (r : nat -> tm) (t : tm) : tm :=
  match t with
  | TVar i _ _ => r i
  | TNum _ | TNone _ => t
  | TTup ts p => TTup (map (subst r) ts) p
  | TOpq d args => TOpq d (map (subst r) args)
  | TFun ins fl out => TFun (map (subst r) ins) fl (subst r out)
  | CVal _ _ => t
  | CVar _ i => r i
  end.

(* rank of position i among the [None] entries of m: how many j < i are unspecialised *)
Definition rank {A} (m : list (option A)) (i : nat) : nat :=
  length (filter is_none (firstn i m)).
(* compile_variable_idx(idx, mono_args) = sum(1 for arg in mono_args[:idx] if arg is None) *)
Definition compile_variable_idx (idx : nat) (m : list (option tm)) : nat := rank m idx.

(* sequential composition of two partial instantiations (second one over the remaining
   parameters of the first, in their order) *)
Fixpoint compose_args (a1 : list (option tm)) (a2 : list (option tm)) : list (option tm) :=
  match a1 with
  | [] => []
  | Some x :: a1' => Some x :: compose_args a1' a2
  | None :: a1' => match a2 with
                   | y :: a2' => y :: compose_args a1' a2'
                   | [] => None :: compose_args a1' []
                   end
  end.

(* the remaining parameters, specified directly: the unspecialised ones, in the original
   order, renumbered 0.., bounds instantiated with the instantiation of the earlier ones *)
Fixpoint remaining_spec (ps : list param) (args : list (option tm)) (pre : list tm) (k : nat)
  : list param :=
  match ps, args with
  | p :: ps', Some x :: args' => remaining_spec ps' args' (pre ++ [set_preserve x]) k
  | p :: ps', None :: args' =>
      match p with
      | PTy _ cp dr => PTy k cp dr :: remaining_spec ps' args' (pre ++ [TVar k cp dr]) (S k)
      | PCon _ t ct => PCon k (insf pre t) false
                       :: remaining_spec ps' args' (pre ++ [CVar t k]) (S k)
      end
  | _, _ => []
  end.

(* ------------------------------------------------------------------ HUGR side -------- *)
Inductive htm : Type :=
| HVar (i : nat) (copy : bool)     (* ht.Variable(idx, bound) *)
| HInt | HFloat
| HTup (l : list htm)
| HOpq (d : nat) (args : list htm)
| HFun (ins outs : list htm)
| HNat (n : Z)                     (* BoundedNatArg *)
| HVarArg (i : nat)                (* VariableArg(idx, BoundedNatParam) *)
| HErr.                            (* InternalGuppyError / IndexError raised here *)

Fixpoint sel {A} (keep : flag -> bool) (l : list A) (fl : list flag) : list A :=
  match l, fl with
  | x :: l', f :: fl' => if keep f then x :: sel keep l' fl' else sel keep l' fl'
  | _, _ => []
  end.
Definition not_comptime (f : flag) := match f with FComptime => false | _ => true end.
Definition is_inout (f : flag) := match f with FInout => true | _ => false end.

Section ToHugr.
  (* the two capabilities of a ToHugrContext *)
  Variable tv : nat -> bool -> bool -> htm.
  Variable cv : tm -> nat -> htm.
  Fixpoint to_hugr (t : tm) : htm :=
    match t with
    | TVar i cp dr => tv i cp dr
    | TNum KFloat => HFloat
    | TNum _ => HInt
    | TNone _ => HTup []
    | TTup ts _ => HTup (map to_hugr ts)
    | TOpq d args => HOpq d (map to_hugr args)
    | TFun ins fl out =>
        let hins := map to_hugr ins in
        HFun (sel not_comptime hins fl)
             ((match out with
               | TNone false => []
               | TTup ts false => map to_hugr ts
               | _ => [to_hugr out]
               end) ++ sel is_inout hins fl)
    | CVal ty v => if is_nat ty then HNat v else HErr
    | CVar ty i => cv ty i
    end.
  (* FunctionType._to_hugr_function_type on the top-level signature *)
  Definition sig_to_hugr (f : fty) : htm := to_hugr (TFun (f_ins f) (f_fl f) (f_out f)).
End ToHugr.

(* CompilerContext with current_mono_args = None *)
Definition tv0 (i : nat) (cp dr : bool) : htm := HVar i cp.
Definition cv0 (ty : tm) (i : nat) : htm := if is_nat ty then HVarArg i else HErr.
Definition to_hugr0 := to_hugr tv0 cv0.

(* QuantifiedToHugrContext(params) *)
Definition param_to_hugr_ok (p : param) : bool :=
  match p with PTy _ _ _ => true | PCon _ t _ => is_nat t end.
Definition cv_q (ps : list param) (ty : tm) (i : nat) : htm :=
  match nth_error ps i with
  | Some p => if param_to_hugr_ok p then HVarArg i else HErr
  | None => HErr
  end.
Definition to_hugr_q (ps : list param) := to_hugr tv0 (cv_q ps).

(* CompilerContext with current_mono_args = Some m  (mono args are closed) *)
Definition tv_m (m : list (option tm)) (i : nat) (cp dr : bool) : htm :=
  match nth_error m i with
  | Some (Some a) => if is_const a then HErr else to_hugr0 a
  | Some None => HVar (compile_variable_idx i m) cp
  | None => HErr
  end.
Definition cv_m (m : list (option tm)) (ty : tm) (i : nat) : htm :=
  if is_nat ty then
    match nth_error m i with
    | Some (Some (CVal _ v)) => HNat v
    | Some None => HVarArg (compile_variable_idx i m)
    | _ => HErr
    end
  else HErr.
Definition to_hugr_m (m : list (option tm)) := to_hugr (tv_m m) (cv_m m).

(* HUGR-level partial specialisation: variable i is replaced by [r i] when given, and
   renumbered by [rn] otherwise *)
Fixpoint hspec (r : nat -> option htm) (rn : nat -> nat) (h : htm) : htm :=
  match h with
  | HVar i c => match r i with Some x => x | None => HVar (rn i) c end
  | HVarArg i => match r i with Some x => x | None => HVarArg (rn i) end
  | HInt | HFloat | HNat _ | HErr => h
  | HTup l => HTup (map (hspec r rn) l)
  | HOpq d args => HOpq d (map (hspec r rn) args)
  | HFun ins outs => HFun (map (hspec r rn) ins) (map (hspec r rn) outs)
  end.

Fixpoint has_err (h : htm) : bool :=
  match h with
  | HErr => true
  | HVar _ _ | HInt | HFloat | HNat _ | HVarArg _ => false
  | HTup l => existsb has_err l
  | HOpq _ args => existsb has_err args
  | HFun ins outs => existsb has_err ins || existsb has_err outs
  end.

(* the HUGR translation of the specialised arguments *)
Definition mono_harg (m : list (option tm)) (i : nat) : option htm :=
  match nth_error m i with
  | Some (Some a) => Some (to_hugr0 a)
  | _ => None
  end.

(* hypothesis of the commutation theorem: wherever a nat-annotated const variable is
   specialised, the argument is a nat value; type variables are specialised by types;
   every index is covered by m *)
Fixpoint mono_ok (m : list (option tm)) (t : tm) : bool :=
  match t with
  | TVar i _ _ => match nth_error m i with
                  | Some (Some a) => negb (is_const a)
                  | Some None => true
                  | None => false end
  | TNum _ | TNone _ => true
  | TTup ts _ => forallb (mono_ok m) ts
  | TOpq _ args => forallb (mono_ok m) args
  | TFun ins _ out => forallb (mono_ok m) ins && mono_ok m out
  | CVal _ _ => true
  | CVar ty i => if is_nat ty then
                   match nth_error m i with
                   | Some (Some (CVal ty' _)) => is_nat ty'
                   | Some None => true
                   | _ => false end
                 else true
  end.

(* ------------------------------------------------------------------ monomorphization - *)
Fixpoint set_nth {A} (l : list A) (i : nat) (x : A) : list A :=
  match l, i with
  | [], _ => []
  | _ :: l', O => x :: l'
  | y :: l', S i' => y :: set_nth l' i' x
  end.

(* require_monomorphization(params): positions of the parameters returned *)
Definition require_mono (ps : list param) : list nat :=
  flat_map (fun p => match p with
                     | PCon i t _ => if is_nat t then [] else i :: bound_vars t
                     | _ => [] end) ps.

Definition mark_vars (args : list tm) (vs : list nat) (mono : list (option tm)) :=
  fold_left (fun mo v => set_nth mo v (nth_error args v)) vs mono.

Definition pma_step (args : list tm) (mono : list (option tm)) (pa : param * tm) :=
  match fst pa with
  | PCon idx oty _ =>
      let mono1 := if is_nat oty then mono else mark_vars args (bound_vars oty) mono in
      if is_nat (insf args oty) then mono1 else set_nth mono1 idx (Some (snd pa))
  | PTy _ _ _ => mono
  end.

(* partially_monomorphize_args(params, args, ctx) with ctx.current_mono_args = cur *)
Definition partially_monomorphize_args (ps : list param) (args : list tm)
           (cur : option (list (option tm))) : list (option tm) * list tm :=
  let args' := match cur with Some m => map (inst m) args | None => args end in
  let mono := fold_left (pma_step args') (combine ps args') (repeat None (length args')) in
  (mono, flat_map (fun am => if is_none (snd am) then [fst am] else []) (combine args' mono)).

(* specification of the marking, written as a predicate on positions *)
Definition needs_mono (ps : list param) (args : list tm) (i : nat) : bool :=
  existsb (fun p => match p with
                    | PCon j oty _ =>
                        (negb (is_nat oty) && existsb (Nat.eqb i) (bound_vars oty))
                        || (negb (is_nat (insf args oty)) && (i =? j))
                    | _ => false end) ps.

(* ------------------------------------------------------------------ rows at call sites - *)
(* tys/ty.py type_to_row *)
Definition type_to_row (t : tm) : list tm :=
  match t with TNone false => [] | TTup ts false => ts | _ => [t] end.
(* compiler/expr_compiler.py ExprCompiler._pack_returns: how many return wires of the call it
   consumes for a callee whose (instantiated) return type is t *)
Definition pack_returns_consumes (t : tm) : nat :=
  match t with
  | TNone false => length (type_to_row t)
  | TTup _ false => length (type_to_row t)
  | _ => 1
  end.
(* regular (non-inout) output ports of the HUGR function declared for a signature with return
   type t: _to_hugr_function_type uses type_to_row(output) *)
Definition declared_outs (t : tm) : nat := length (type_to_row t).
