(** C13 — flat [list Z] serialisation of model values, used only by the correspondence
    harness (props/C13/check.py decodes it).  No proofs. *)
From Coq Require Import ZArith List Bool.
From V.C13 Require Import Model.
Import ListNotations.
Open Scope Z_scope.

Definition zb (b : bool) : Z := if b then 1 else 0.
Definition zn (n : nat) : Z := Z.of_nat n.
Definition zk (k : numk) : Z := match k with KNat => 0 | KInt => 1 | KFloat => 2 end.
Definition zf (f : flag) : Z := match f with FNo => 0 | FInout => 1 | FOwned => 2 | FComptime => 4 end.

Fixpoint enc (t : tm) : list Z :=
  match t with
  | TVar i cp dr => [0; zn i; zb cp; zb dr]
  | TNum k => [1; zk k]
  | TNone p => [2; zb p]
  | TTup ts p => [3; zb p; zn (length ts)] ++ flat_map enc ts
  | TOpq d args => [4; zn d; zn (length args)] ++ flat_map enc args
  | TFun ins fl out => [5; zn (length ins)] ++ flat_map enc ins ++ map zf fl ++ enc out
  | CVal ty v => [6; v] ++ enc ty
  | CVar ty i => [7; zn i] ++ enc ty
  end.

Definition enc_opt (o : option tm) : list Z := match o with None => [9] | Some t => enc t end.
Definition enc_list (l : list tm) : list Z := zn (length l) :: flat_map enc l.
Definition enc_olist (l : list (option tm)) : list Z := zn (length l) :: flat_map enc_opt l.
Definition enc_param (p : param) : list Z :=
  match p with
  | PTy i cp dr => [0; zn i; zb cp; zb dr]
  | PCon i t ct => [1; zn i; zb ct] ++ enc t
  end.
Definition enc_fty (f : fty) : list Z :=
  enc_list (f_ins f) ++ map zf (f_fl f) ++ enc (f_out f)
  ++ (zn (length (f_params f)) :: flat_map enc_param (f_params f)) ++ enc_list (f_cargs f).

Fixpoint henc (h : htm) : list Z :=
  match h with
  | HVar i c => [0; zn i; zb c]
  | HInt => [1]
  | HFloat => [2]
  | HTup l => [3; zn (length l)] ++ flat_map henc l
  | HOpq d args => [4; zn d; zn (length args)] ++ flat_map henc args
  | HFun ins outs => [5; zn (length ins); zn (length outs)] ++ flat_map henc ins ++ flat_map henc outs
  | HNat n => [6; n]
  | HVarArg i => [7; zn i]
  | HErr => [8]
  end.

Definition enc_nats (l : list nat) : list Z := map zn l.

(* sequence of instantiate_partial steps; all intermediate results *)
Fixpoint ip_steps (f : fty) (steps : list (list (option tm))) : list fty :=
  match steps with
  | [] => []
  | s :: rest => let f' := instantiate_partial f s in f' :: ip_steps f' rest
  end.
Definition enc_ftys (l : list fty) : list Z := zn (length l) :: flat_map enc_fty l.

(* monomorphize: instantiate_partial + to_hugr_poly *)
Definition hparam_enc (p : param) : list Z :=
  match p with
  | PTy _ cp _ => [0; zb cp]
  | PCon _ t _ => if is_nat t then [1] else [8]
  end.
Definition poly (f : fty) (m : list (option tm)) : list Z :=
  let g := instantiate_partial f m in
  (zn (length (f_params g)) :: flat_map hparam_enc (f_params g))
  ++ henc (sig_to_hugr tv0 (cv_q (f_params g)) g).
Definition sig_m (f : fty) (m : list (option tm)) : list Z :=
  henc (sig_to_hugr (tv_m m) (cv_m m) f).
Definition pma_enc (r : list (option tm) * list tm) : list Z := enc_olist (fst r) ++ enc_list (snd r).
