(** C13 — lemmas about the de Bruijn algebra of [Model.v]. *)
From Coq Require Import ZArith List Bool Arith Lia.
From V.C13 Require Import Model.
Import ListNotations.

(* ------------------------------------------------------------- induction principle --- *)
Section TmInd.
  Variable P : tm -> Prop.
  Hypothesis HVar : forall i cp dr, P (TVar i cp dr).
  Hypothesis HNum : forall k, P (TNum k).
  Hypothesis HNone : forall p, P (TNone p).
  Hypothesis HTup : forall ts p, Forall P ts -> P (TTup ts p).
  Hypothesis HOpq : forall d args, Forall P args -> P (TOpq d args).
  Hypothesis HFun : forall ins fl out, Forall P ins -> P out -> P (TFun ins fl out).
  Hypothesis HCVal : forall t v, P t -> P (CVal t v).
  Hypothesis HCVar : forall t i, P t -> P (CVar t i).
  Fixpoint tm_ind' (t : tm) : P t :=
    let go := fix go (l : list tm) : Forall P l :=
      match l with [] => Forall_nil P | x :: l' => Forall_cons x (tm_ind' x) (go l') end in
    match t with
    | TVar i cp dr => HVar i cp dr
    | TNum k => HNum k
    | TNone p => HNone p
    | TTup ts p => HTup ts p (go ts)
    | TOpq d args => HOpq d args (go args)
    | TFun ins fl out => HFun ins fl out (go ins) (tm_ind' out)
    | CVal t v => HCVal t v (tm_ind' t)
    | CVar t i => HCVar t i (tm_ind' t)
    end.
End TmInd.

Lemma map_ext_Forall {A B} (f g : A -> B) l :
  Forall (fun x => f x = g x) l -> map f l = map g l.
Proof. induction 1; simpl; congruence. Qed.

Lemma map_ext_sc {B} (f g : tm -> B) (b : tm -> bool) l :
  Forall (fun x => b x = true -> f x = g x) l -> forallb b l = true -> map f l = map g l.
Proof.
  induction 1; simpl; intros H1; auto.
  apply andb_true_iff in H1. destruct H1. f_equal; auto.
Qed.

Lemma nth_error_map_Some {A} (l : list A) i :
  nth_error (map Some l) i = match nth_error l i with Some a => Some (Some a) | None => None end.
Proof. revert i; induction l; destruct i; simpl; auto. Qed.

(* ------------------------------------------------------------- instantiate = subst --- *)
Lemma insf_subst : forall d l t, scoped (length l) t = true ->
  insf l t = subst (fun i => nth i l d) t.
Proof.
  intros d l. unfold insf. induction t using tm_ind'; simpl; intros S; auto.
  - apply Nat.ltb_lt in S. rewrite nth_error_map_Some.
    destruct (nth_error l i) eqn:E.
    + f_equal. symmetry. apply nth_error_nth with (d := d) in E. now rewrite E.
    + apply nth_error_None in E. lia.
  - f_equal. apply map_ext_sc with (b := scoped (length l)); [exact H | exact S].
  - f_equal. apply map_ext_sc with (b := scoped (length l)); [exact H | exact S].
  - apply andb_true_iff in S. destruct S as [S1 S2]. f_equal; auto.
    apply map_ext_sc with (b := scoped (length l)); [exact H | exact S1].
  - apply andb_true_iff in S. destruct S as [S1 S2]. apply Nat.ltb_lt in S1.
    rewrite nth_error_map_Some.
    destruct (nth_error l i) eqn:E.
    + symmetry. apply nth_error_nth with (d := d) in E. now rewrite E.
    + apply nth_error_None in E. lia.
Qed.


(* composition of two full instantiations *)
Lemma insf_compose : forall l1 l2 t, scoped (length l1) t = true ->
  insf l2 (insf l1 t) = insf (map (insf l2) l1) t.
Proof.
  intros l1 l2. unfold insf. induction t using tm_ind'; simpl; intros S; auto.
  - apply Nat.ltb_lt in S. rewrite !nth_error_map_Some, nth_error_map.
    destruct (nth_error l1 i) eqn:E; simpl; auto.
    apply nth_error_None in E. lia.
  - rewrite map_map. f_equal; apply map_ext_sc with (b := scoped (length l1)); [exact H | exact S].
  - rewrite map_map. f_equal; apply map_ext_sc with (b := scoped (length l1)); [exact H | exact S].
  - apply andb_true_iff in S. destruct S as [S1 S2]. rewrite map_map. f_equal; auto.
    apply map_ext_sc with (b := scoped (length l1)); [exact H | exact S1].
  - apply andb_true_iff in S. destruct S as [S1 S2]. apply Nat.ltb_lt in S1.
    rewrite !nth_error_map_Some, nth_error_map.
    destruct (nth_error l1 i) eqn:E; simpl; auto.
    apply nth_error_None in E. lia.
Qed.

(* a longer instantiation agrees with its prefix on terms scoped by the prefix *)
Lemma insf_app : forall pre ext t, scoped (length pre) t = true ->
  insf (pre ++ ext) t = insf pre t.
Proof.
  intros pre ext. unfold insf. induction t using tm_ind'; simpl; intros S; auto.
  - apply Nat.ltb_lt in S. rewrite map_app, nth_error_app1 by (rewrite map_length; lia).
    rewrite nth_error_map_Some. destruct (nth_error pre i) eqn:E; auto.
    apply nth_error_None in E. lia.
  - f_equal; apply map_ext_sc with (b := scoped (length pre)); [exact H | exact S].
  - f_equal; apply map_ext_sc with (b := scoped (length pre)); [exact H | exact S].
  - apply andb_true_iff in S. destruct S as [S1 S2]. f_equal; auto.
    apply map_ext_sc with (b := scoped (length pre)); [exact H | exact S1].
  - apply andb_true_iff in S. destruct S as [S1 S2]. apply Nat.ltb_lt in S1.
    rewrite map_app, nth_error_app1 by (rewrite map_length; lia).
    rewrite nth_error_map_Some. destruct (nth_error pre i) eqn:E; auto.
    apply nth_error_None in E. lia.
Qed.

Lemma scoped_mono : forall n m t, n <= m -> scoped n t = true -> scoped m t = true.
Proof.
  intros n m t L. induction t using tm_ind'; simpl; intros S; auto.
  - apply Nat.ltb_lt in S. apply Nat.ltb_lt. lia.
  - apply forallb_forall. intros x Hx. rewrite forallb_forall in S.
    rewrite Forall_forall in H. auto.
  - apply forallb_forall. intros x Hx. rewrite forallb_forall in S.
    rewrite Forall_forall in H. auto.
  - apply andb_true_iff in S. destruct S as [S1 S2]. apply andb_true_iff. split; auto.
    apply forallb_forall. intros x Hx. rewrite forallb_forall in S1.
    rewrite Forall_forall in H. auto.
  - apply andb_true_iff in S. destruct S as [S1 S2]. apply andb_true_iff. split; auto.
    apply Nat.ltb_lt in S1. apply Nat.ltb_lt. lia.
Qed.

(* closed terms are not touched by any instantiation *)
Lemma inst_closed : forall s t, scoped 0 t = true -> inst s t = t.
Proof.
  intros s. induction t using tm_ind'; simpl; intros S; auto; try discriminate.
  - f_equal. rewrite <- (map_id ts) at 2. apply map_ext_sc with (b := scoped 0); [exact H | exact S].
  - f_equal. rewrite <- (map_id args) at 2. apply map_ext_sc with (b := scoped 0); [exact H | exact S].
  - apply andb_true_iff in S. destruct S as [S1 S2]. f_equal; auto.
    rewrite <- (map_id ins) at 2. apply map_ext_sc with (b := scoped 0); [exact H | exact S1].
Qed.

Lemma set_preserve_scoped : forall n a, scoped n a = true -> scoped n (set_preserve a) = true.
Proof. destruct a; simpl; auto. Qed.

(* ------------------------------------------------------------- the loop, unrolled ----- *)
Fixpoint ip_spec (ps : list param) (args : list (option tm)) (F : list tm) (k : nat)
  : list tm * list param :=
  match ps, args with
  | p :: ps', None :: args' =>
      let p' := with_idx k p in
      let b := set_preserve (to_bound p') in
      let r := ip_spec ps' args' (F ++ [b]) (S k) in
      (b :: fst r, inst_bounds (map Some F) p' :: snd r)
  | p :: ps', Some x :: args' =>
      let r := ip_spec ps' args' (F ++ [set_preserve x]) k in
      (set_preserve x :: fst r, snd r)
  | _, _ => ([], [])
  end.

Lemma ip_loop_spec : forall ps args F R,
  ip_loop ps args F R = (F ++ fst (ip_spec ps args F (length R)),
                         R ++ snd (ip_spec ps args F (length R))).
Proof.
  induction ps as [|p ps IH]; intros [|[x|] args] F R; simpl; rewrite ?app_nil_r; auto.
  - rewrite IH. simpl. now rewrite <- !app_assoc.
  - rewrite IH. rewrite app_length, Nat.add_1_r. simpl. now rewrite <- !app_assoc.
Qed.
