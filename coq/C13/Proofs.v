(** C13 — lemmas about the de Bruijn algebra of [Model.v]. *)
From Coq Require Import ZArith List Bool Arith Lia.
From V.C13 Require Import Model.
Import ListNotations.

(* ------------------------------------------------------------- induction principle --- *)
Section TmInd.
  Variable P : tm -> Prop.
  Hypothesis HVar : forall i cp dr, P (TVar i cp dr).
  Hypothesis HNum : forall k, P (TNum k).
  Hypothesis HNone : forall p, P (TNone p).
  Hypothesis HTup : forall ts p, Forall P ts -> P (TTup ts p).
  Hypothesis HOpq : forall d args, Forall P args -> P (TOpq d args).
  Hypothesis HFun : forall ins fl out, Forall P ins -> P out -> P (TFun ins fl out).
  Hypothesis HCVal : forall t v, P t -> P (CVal t v).
  Hypothesis HCVar : forall t i, P t -> P (CVar t i).
  Fixpoint tm_ind' (t : tm) : P t :=
    let go := fix go (l : list tm) : Forall P l :=
      match l with [] => Forall_nil P | x :: l' => Forall_cons x (tm_ind' x) (go l') end in
    match t with
    | TVar i cp dr => HVar i cp dr
    | TNum k => HNum k
    | TNone p => HNone p
    | TTup ts p => HTup ts p (go ts)
    | TOpq d args => HOpq d args (go args)
    | TFun ins fl out => HFun ins fl out (go ins) (tm_ind' out)
    | CVal t v => HCVal t v (tm_ind' t)
    | CVar t i => HCVar t i (tm_ind' t)
    end.
End TmInd.

Lemma map_ext_Forall {A B} (f g : A -> B) l :
  Forall (fun x => f x = g x) l -> map f l = map g l.
Proof. induction 1; simpl; congruence. Qed.

Lemma map_ext_sc {B} (f g : tm -> B) (b : tm -> bool) l :
  Forall (fun x => b x = true -> f x = g x) l -> forallb b l = true -> map f l = map g l.
Proof.
  induction 1; simpl; intros H1; auto.
  apply andb_true_iff in H1. destruct H1. f_equal; auto.
Qed.

Lemma nth_error_map_Some {A} (l : list A) i :
  nth_error (map Some l) i = match nth_error l i with Some a => Some (Some a) | None => None end.
Proof. revert i; induction l; destruct i; simpl; auto. Qed.

(* ------------------------------------------------------------- instantiate = subst --- *)
Lemma insf_subst : forall d l t, scoped (length l) t = true ->
  insf l t = subst (fun i => nth i l d) t.
Proof.
  intros d l. unfold insf. induction t using tm_ind'; simpl; intros S; auto.
  - apply Nat.ltb_lt in S. rewrite nth_error_map_Some.
    destruct (nth_error l i) eqn:E.
    + f_equal. symmetry. apply nth_error_nth with (d := d) in E. now rewrite E.
    + apply nth_error_None in E. lia.
  - f_equal. apply map_ext_sc with (b := scoped (length l)); [exact H | exact S].
  - f_equal. apply map_ext_sc with (b := scoped (length l)); [exact H | exact S].
  - apply andb_true_iff in S. destruct S as [S1 S2]. f_equal; auto.
    apply map_ext_sc with (b := scoped (length l)); [exact H | exact S1].
  - apply andb_true_iff in S. destruct S as [S1 S2]. apply Nat.ltb_lt in S1.
    rewrite nth_error_map_Some.
    destruct (nth_error l i) eqn:E.
    + symmetry. apply nth_error_nth with (d := d) in E. now rewrite E.
    + apply nth_error_None in E. lia.
Qed.


(* composition of two full instantiations *)
Lemma insf_compose : forall l1 l2 t, scoped (length l1) t = true ->
  insf l2 (insf l1 t) = insf (map (insf l2) l1) t.
Proof.
  intros l1 l2. unfold insf. induction t using tm_ind'; simpl; intros S; auto.
  - apply Nat.ltb_lt in S. rewrite !nth_error_map_Some, nth_error_map.
    destruct (nth_error l1 i) eqn:E; simpl; auto.
    apply nth_error_None in E. lia.
  - rewrite map_map. f_equal; apply map_ext_sc with (b := scoped (length l1)); [exact H | exact S].
  - rewrite map_map. f_equal; apply map_ext_sc with (b := scoped (length l1)); [exact H | exact S].
  - apply andb_true_iff in S. destruct S as [S1 S2]. rewrite map_map. f_equal; auto.
    apply map_ext_sc with (b := scoped (length l1)); [exact H | exact S1].
  - apply andb_true_iff in S. destruct S as [S1 S2]. apply Nat.ltb_lt in S1.
    rewrite !nth_error_map_Some, nth_error_map.
    destruct (nth_error l1 i) eqn:E; simpl; auto.
    apply nth_error_None in E. lia.
Qed.

(* a longer instantiation agrees with its prefix on terms scoped by the prefix *)
Lemma insf_app : forall pre ext t, scoped (length pre) t = true ->
  insf (pre ++ ext) t = insf pre t.
Proof.
  intros pre ext. unfold insf. induction t using tm_ind'; simpl; intros S; auto.
  - apply Nat.ltb_lt in S. rewrite map_app, nth_error_app1 by (rewrite map_length; lia).
    rewrite nth_error_map_Some. destruct (nth_error pre i) eqn:E; auto.
    apply nth_error_None in E. lia.
  - f_equal; apply map_ext_sc with (b := scoped (length pre)); [exact H | exact S].
  - f_equal; apply map_ext_sc with (b := scoped (length pre)); [exact H | exact S].
  - apply andb_true_iff in S. destruct S as [S1 S2]. f_equal; auto.
    apply map_ext_sc with (b := scoped (length pre)); [exact H | exact S1].
  - apply andb_true_iff in S. destruct S as [S1 S2]. apply Nat.ltb_lt in S1.
    rewrite map_app, nth_error_app1 by (rewrite map_length; lia).
    rewrite nth_error_map_Some. destruct (nth_error pre i) eqn:E; auto.
    apply nth_error_None in E. lia.
Qed.

Lemma scoped_mono : forall n m t, n <= m -> scoped n t = true -> scoped m t = true.
Proof.
  intros n m t L. induction t using tm_ind'; simpl; intros S; auto.
  - apply Nat.ltb_lt in S. apply Nat.ltb_lt. lia.
  - apply forallb_forall. intros x Hx. rewrite forallb_forall in S.
    rewrite Forall_forall in H. auto.
  - apply forallb_forall. intros x Hx. rewrite forallb_forall in S.
    rewrite Forall_forall in H. auto.
  - apply andb_true_iff in S. destruct S as [S1 S2]. apply andb_true_iff. split; auto.
    apply forallb_forall. intros x Hx. rewrite forallb_forall in S1.
    rewrite Forall_forall in H. auto.
  - apply andb_true_iff in S. destruct S as [S1 S2]. apply andb_true_iff. split; auto.
    apply Nat.ltb_lt in S1. apply Nat.ltb_lt. lia.
Qed.

(* closed terms are not touched by any instantiation *)
Lemma inst_closed : forall s t, scoped 0 t = true -> inst s t = t.
Proof.
  intros s. induction t using tm_ind'; simpl; intros S; auto; try discriminate.
  - f_equal. rewrite <- (map_id ts) at 2. apply map_ext_sc with (b := scoped 0); [exact H | exact S].
  - f_equal. rewrite <- (map_id args) at 2. apply map_ext_sc with (b := scoped 0); [exact H | exact S].
  - apply andb_true_iff in S. destruct S as [S1 S2]. f_equal; auto.
    rewrite <- (map_id ins) at 2. apply map_ext_sc with (b := scoped 0); [exact H | exact S1].
Qed.

Lemma set_preserve_scoped : forall n a, scoped n a = true -> scoped n (set_preserve a) = true.
Proof. destruct a; simpl; auto. Qed.

(* ------------------------------------------------------------- the loop, unrolled ----- *)
Fixpoint ip_spec (ps : list param) (args : list (option tm)) (F : list tm) (k : nat)
  : list tm * list param :=
  match ps, args with
  | p :: ps', None :: args' =>
      let p' := with_idx k p in
      let b := set_preserve (to_bound p') in
      let r := ip_spec ps' args' (F ++ [b]) (S k) in
      (b :: fst r, inst_bounds (map Some F) p' :: snd r)
  | p :: ps', Some x :: args' =>
      let r := ip_spec ps' args' (F ++ [set_preserve x]) k in
      (set_preserve x :: fst r, snd r)
  | _, _ => ([], [])
  end.

Lemma ip_loop_spec : forall ps args F R,
  ip_loop ps args F R = (F ++ fst (ip_spec ps args F (length R)),
                         R ++ snd (ip_spec ps args F (length R))).
Proof.
  induction ps as [|p ps IH]; intros [|[x|] args] F R; simpl; rewrite ?app_nil_r; auto.
  - rewrite IH. simpl. now rewrite <- !app_assoc.
  - rewrite IH. rewrite app_length, Nat.add_1_r. simpl. now rewrite <- !app_assoc.
Qed.

(* ------------------------------------------------------------- rank ------------------ *)
Lemma rank_S {A} (m : list (option A)) i :
  rank m (S i) = rank m i + match nth_error m i with Some None => 1 | _ => 0 end.
Proof.
  unfold rank. revert i. induction m as [|x m IH]; intros [|i]; simpl; auto.
  - destruct x; simpl; auto.
  - specialize (IH i). destruct x; simpl in *; lia.
Qed.

Lemma rank_mono {A} (m : list (option A)) i j : i <= j -> rank m i <= rank m j.
Proof. induction 1; auto. rewrite rank_S. lia. Qed.

Lemma rank_strict {A} (m : list (option A)) i j :
  i < j -> nth_error m i = Some None -> rank m i < rank m j.
Proof.
  intros L E. apply Nat.lt_le_trans with (rank m (S i)).
  - rewrite rank_S, E. lia.
  - apply rank_mono. lia.
Qed.

Lemma rank_total {A} (m : list (option A)) :
  rank m (length m) = length (filter is_none m).
Proof. unfold rank. now rewrite firstn_all. Qed.

Lemma rank_lt_total {A} (m : list (option A)) i :
  nth_error m i = Some None -> rank m i < length (filter is_none m).
Proof.
  intros E. rewrite <- rank_total. apply rank_strict; auto.
  apply nth_error_Some. congruence.
Qed.

(* every k below the number of unspecialised parameters is the rank of one of them *)
Lemma rank_onto {A} (m : list (option A)) k :
  k < length (filter is_none m) -> exists i, nth_error m i = Some None /\ rank m i = k.
Proof.
  revert k. induction m as [|x m IH]; simpl; intros k L; [lia|].
  destruct x as [a|]; simpl in L.
  - destruct (IH k L) as [i [E R]]. exists (S i). split; auto.
  - destruct k as [|k].
    + exists 0. split; auto.
    + destruct (IH k) as [i [E R]]; [lia|]. exists (S i). split; auto.
      unfold rank in *. simpl. now rewrite R.
Qed.

(* ------------------------------------------------------------- composition ----------- *)
Definition arg_closed (o : option tm) : bool :=
  match o with Some x => scoped 0 x | None => true end.

Lemma sp_to_bound p : set_preserve (to_bound p) = to_bound p.
Proof. destruct p; reflexivity. Qed.

Lemma insf_to_bound : forall F x X p,
  insf (F ++ x :: X) (to_bound (with_idx (length F) p)) = x.
Proof.
  intros. destruct p; unfold insf; simpl;
    rewrite map_app, nth_error_app2 by (rewrite map_length; lia);
    rewrite map_length, Nat.sub_diag; reflexivity.
Qed.

Lemma insf_closed l t : scoped 0 t = true -> insf l t = t.
Proof. apply inst_closed. Qed.

Lemma closed_ctypes_cons p ps : closed_ctypes (p :: ps) = true ->
  (match p with PCon _ t _ => scoped 0 t = true | _ => True end) /\ closed_ctypes ps = true.
Proof. unfold closed_ctypes. simpl. intros H. apply andb_true_iff in H. destruct p; tauto. Qed.

Lemma scoped_to_bound k p :
  (match p with PCon _ t _ => scoped 0 t = true | _ => True end) ->
  scoped (S k) (to_bound (with_idx k p)) = true.
Proof.
  destruct p; simpl; intros H.
  - apply Nat.ltb_lt. lia.
  - apply andb_true_iff. split. apply Nat.ltb_lt; lia. eapply scoped_mono; [|exact H]. lia.
Qed.

Lemma Forall_scoped_mono n m l : n <= m ->
  Forall (fun t => scoped n t = true) l -> Forall (fun t => scoped m t = true) l.
Proof. intros L. apply Forall_impl. intros. eapply scoped_mono; eauto. Qed.

Lemma map_insf_app F x l : Forall (fun t => scoped (length F) t = true) l ->
  map (insf (F ++ x)) l = map (insf F) l.
Proof. intros H. apply map_ext_Forall. eapply Forall_impl; [|exact H]. intros. now apply insf_app. Qed.

Lemma ip_spec_compose : forall ps a1 a2 F1 F2 k2,
  closed_ctypes ps = true -> forallb arg_closed a1 = true ->
  length a1 = length ps -> length a2 = length (filter is_none a1) ->
  Forall (fun t => scoped (length F2) t = true) F1 ->
  fst (ip_spec ps (compose_args a1 a2) (map (insf F2) F1) k2)
    = map (insf (F2 ++ fst (ip_spec (snd (ip_spec ps a1 F1 (length F2))) a2 F2 k2)))
          (fst (ip_spec ps a1 F1 (length F2)))
  /\ snd (ip_spec ps (compose_args a1 a2) (map (insf F2) F1) k2)
     = snd (ip_spec (snd (ip_spec ps a1 F1 (length F2))) a2 F2 k2).
Proof.
  induction ps as [|p ps IH]; intros a1 a2 F1 F2 k2 CT CA L1 L2 SC.
  - destruct a1; simpl in *; try discriminate. destruct a2; simpl in *; try discriminate. auto.
  - destruct a1 as [|[x|] a1]; simpl in L1; try discriminate.
    + (* first step specialises p with the closed x *)
      simpl in CA. apply andb_true_iff in CA. destruct CA as [Cx CA].
      apply closed_ctypes_cons in CT. destruct CT as [_ CT].
      assert (Cs : scoped 0 (set_preserve x) = true) by now apply set_preserve_scoped.
      simpl.
      specialize (IH a1 a2 (F1 ++ [set_preserve x]) F2 k2 CT CA ltac:(lia) L2).
      rewrite map_app in IH. simpl in IH. rewrite (insf_closed F2 _ Cs) in IH.
      match type of IH with ?A -> _ => assert (HA : A) end.
      { apply Forall_app. split; auto. constructor; auto. eapply scoped_mono; [|exact Cs]. lia. }
      specialize (IH HA). destruct IH as [IH1 IH2].
      split; simpl; [|exact IH2].
      rewrite IH1. f_equal. symmetry. now apply insf_closed.
    + (* first step leaves p generic *)
      simpl in CA. simpl in L2.
      destruct a2 as [|y a2]; simpl in L2; try discriminate.
      pose proof (closed_ctypes_cons _ _ CT) as [Cp CT'].
      assert (SB := scoped_to_bound (length F2) p Cp).
      destruct y as [z|].
      * (* ... and the second step specialises it with z *)
        simpl. rewrite !sp_to_bound.
        specialize (IH a1 a2 (F1 ++ [to_bound (with_idx (length F2) p)]) (F2 ++ [set_preserve z]) k2
                       CT' CA ltac:(lia) ltac:(lia)).
        rewrite app_length in IH. simpl in IH. rewrite Nat.add_1_r in IH.
        rewrite map_app in IH. simpl in IH.
        rewrite (insf_to_bound F2 (set_preserve z) [] p) in IH.
        rewrite (map_insf_app F2 [set_preserve z] F1 SC) in IH.
        match type of IH with ?A -> _ => assert (HA : A) end.
        { apply Forall_app. split. eapply Forall_scoped_mono; [|exact SC]; lia. constructor; auto. }
        specialize (IH HA). destruct IH as [IH1 IH2].
        split; simpl; [|exact IH2].
        rewrite IH1. rewrite <- !app_assoc. simpl.
        f_equal. symmetry. apply insf_to_bound.
      * (* ... and so does the second *)
        simpl. rewrite !sp_to_bound.
        assert (EB : to_bound (with_idx k2 (inst_bounds (map Some F1) (with_idx (length F2) p)))
                     = to_bound (with_idx k2 p)).
        { destruct p; simpl; auto. simpl in Cp. f_equal. now apply inst_closed. }
        assert (EP : inst_bounds (map Some F2) (with_idx k2 (inst_bounds (map Some F1) (with_idx (length F2) p)))
                     = inst_bounds (map Some (map (insf F2) F1)) (with_idx k2 p)).
        { destruct p; simpl; auto. simpl in Cp. f_equal.
          rewrite (inst_closed (map Some F1) _ Cp), (inst_closed (map Some F2) _ Cp), (inst_closed _ _ Cp). reflexivity. }
        rewrite EB, EP.
        specialize (IH a1 a2 (F1 ++ [to_bound (with_idx (length F2) p)]) (F2 ++ [to_bound (with_idx k2 p)]) (S k2)
                       CT' CA ltac:(lia) ltac:(lia)).
        rewrite app_length in IH. simpl in IH. rewrite Nat.add_1_r in IH.
        rewrite map_app in IH. simpl in IH.
        rewrite (insf_to_bound F2 (to_bound (with_idx k2 p)) [] p) in IH.
        rewrite (map_insf_app F2 [to_bound (with_idx k2 p)] F1 SC) in IH.
        match type of IH with ?A -> _ => assert (HA : A) end.
        { apply Forall_app. split. eapply Forall_scoped_mono; [|exact SC]; lia. constructor; auto. }
        specialize (IH HA). destruct IH as [IH1 IH2].
        split; simpl.
        -- rewrite IH1. rewrite <- !app_assoc. simpl.
           f_equal. symmetry. apply insf_to_bound.
        -- now rewrite IH2.
Qed.

Lemma ip_spec_fst_length : forall ps a F k, length a = length ps ->
  length (fst (ip_spec ps a F k)) = length ps.
Proof.
  induction ps as [|p ps IH]; intros [|[x|] a] F k L; simpl in *; try discriminate; auto.
Qed.

Lemma map_insf_compose l1 l2 ts : forallb (scoped (length l1)) ts = true ->
  map (insf l2) (map (insf l1) ts) = map (insf (map (insf l2) l1)) ts.
Proof.
  intros H. rewrite map_map. apply map_ext_sc with (b := scoped (length l1)); auto.
  apply Forall_forall. intros. now apply insf_compose.
Qed.

Lemma ip_compose_strict : forall f a1 a2,
  wf_fty f = true -> closed_ctypes (f_params f) = true -> forallb arg_closed a1 = true ->
  length a1 = length (f_params f) -> length a2 = length (filter is_none a1) ->
  instantiate_partial (instantiate_partial f a1) a2 = instantiate_partial f (compose_args a1 a2).
Proof.
  intros f a1 a2 WF CT CA L1 L2. unfold instantiate_partial.
  rewrite (ip_loop_spec (f_params f) a1 [] []). simpl.
  rewrite (ip_loop_spec _ a2 [] []). simpl.
  rewrite (ip_loop_spec (f_params f) (compose_args a1 a2) [] []). simpl.
  destruct (ip_spec_compose (f_params f) a1 a2 [] [] 0 CT CA L1 L2 (Forall_nil _)) as [E1 E2].
  simpl in E1, E2. rewrite E1, E2.
  unfold wf_fty in WF. repeat (apply andb_true_iff in WF; destruct WF as [WF ?]).
  assert (LL := ip_spec_fst_length (f_params f) a1 [] 0 L1).
  f_equal.
  - apply map_insf_compose. now rewrite LL.
  - apply insf_compose. now rewrite LL.
  - apply map_insf_compose. now rewrite LL.
Qed.

(* full instantiation *)
Lemma ip_spec_full : forall ps args F k, length args = length ps ->
  ip_spec ps (map Some args) F k = (map set_preserve args, []).
Proof.
  induction ps as [|p ps IH]; intros [|x args] F k L; simpl in *; try discriminate; auto.
  rewrite IH by lia. reflexivity.
Qed.

Lemma instantiate_subst : forall d f args,
  wf_fty f = true -> length args = length (f_params f) ->
  let r := fun i => nth i (map set_preserve args) d in
  instantiate f args = mkF (map (subst r) (f_ins f)) (f_fl f) (subst r (f_out f)) []
                           (map (subst r) (f_cargs f)).
Proof.
  intros d f args WF L r. unfold instantiate, instantiate_partial.
  rewrite ip_loop_spec. simpl. rewrite ip_spec_full by auto. simpl.
  unfold wf_fty in WF. repeat (apply andb_true_iff in WF; destruct WF as [WF ?]).
  assert (LL : length (map set_preserve args) = length (f_params f)) by now rewrite map_length.
  f_equal.
  - apply map_ext_sc with (b := scoped (length (f_params f))); auto.
    apply Forall_forall. intros. apply insf_subst. now rewrite LL.
  - apply insf_subst. now rewrite LL.
  - apply map_ext_sc with (b := scoped (length (f_params f))); auto.
    apply Forall_forall. intros. apply insf_subst. now rewrite LL.
Qed.

(* remaining parameters *)
Lemma ip_spec_remaining : forall ps a F k,
  snd (ip_spec ps a F k) = remaining_spec ps a F k.
Proof.
  induction ps as [|p ps IH]; intros [|[x|] a] F k; simpl; auto.
  destruct p; simpl; rewrite IH; reflexivity.
Qed.

(* ------------------------------------------------------------- HUGR commutation ------ *)
Lemma map_sel {A B} (f : A -> B) keep l fl : map f (sel keep l fl) = sel keep (map f l) fl.
Proof.
  revert fl. induction l as [|x l IH]; intros [|b fl]; simpl; auto.
  destruct (keep b); simpl; now rewrite IH.
Qed.

Lemma map_ext_mono {B} (f g : tm -> B) m l :
  Forall (fun x => mono_ok m x = true -> f x = g x) l -> forallb (mono_ok m) l = true ->
  map f l = map g l.
Proof. apply map_ext_sc. Qed.

Lemma to_hugr_mono_hspec : forall m t, mono_ok m t = true ->
  to_hugr_m m t = hspec (mono_harg m) (fun i => rank m i) (to_hugr0 t).
Proof.
  intros m. unfold to_hugr_m, to_hugr0.
  induction t using tm_ind'; simpl; intros OK; auto.
  - unfold tv_m, tv0, mono_harg. simpl.
    destruct (nth_error m i) as [[a|]|]; try discriminate; auto.
    apply negb_true_iff in OK. now rewrite OK.
  - destruct k; reflexivity.
  - f_equal. rewrite map_map. apply map_ext_mono with (m := m); auto.
  - f_equal. rewrite map_map. apply map_ext_mono with (m := m); auto.
  - apply andb_true_iff in OK. destruct OK as [O1 O2].
    assert (E : map (to_hugr (tv_m m) (cv_m m)) ins
                = map (hspec (mono_harg m) (fun i => rank m i)) (map (to_hugr tv0 cv0) ins)).
    { rewrite map_map. apply map_ext_mono with (m := m); auto. }
    rewrite E, !map_app, !map_sel. f_equal. f_equal.
    specialize (IHt O2).
    destruct t as [ | | [|] | ts [|] | | | | ]; simpl in *; try congruence.
  - destruct (is_nat t); reflexivity.
  - unfold cv_m, cv0, mono_harg. destruct (is_nat t) eqn:N; simpl; auto.
    destruct (nth_error m i) as [[a|]|]; try discriminate; auto.
    destruct a; try discriminate. simpl. now rewrite OK.
Qed.

(* ------------------------------------------------------------- partially_monomorphize_args *)
Lemma set_nth_length {A} (l : list A) i x : length (set_nth l i x) = length l.
Proof. revert i; induction l; destruct i; simpl; auto. Qed.

Lemma nth_error_set_nth {A} (l : list A) i x j :
  nth_error (set_nth l i x) j = if (i =? j) && (i <? length l) then Some x else nth_error l j.
Proof.
  revert i j; induction l as [|a l IH]; intros i j.
  - simpl. rewrite andb_false_r. reflexivity.
  - destruct i as [|i], j as [|j]; simpl; auto. rewrite IH. reflexivity.
Qed.

(* marking the variables of a type *)
Lemma mark_vars_length args vs mono : length (mark_vars args vs mono) = length mono.
Proof.
  unfold mark_vars. revert mono. induction vs; simpl; intros; auto.
  rewrite IHvs. apply set_nth_length.
Qed.

Lemma nth_error_mark_vars args vs : forall mono j, j < length mono ->
  nth_error (mark_vars args vs mono) j
  = if existsb (Nat.eqb j) vs then Some (nth_error args j) else nth_error mono j.
Proof.
  unfold mark_vars. induction vs as [|v vs IH]; simpl; intros mono j L; auto.
  rewrite IH by (now rewrite set_nth_length).
  destruct (existsb (Nat.eqb j) vs) eqn:E.
  - now rewrite orb_true_r.
  - rewrite orb_false_r. rewrite nth_error_set_nth.
    destruct (j =? v) eqn:J.
    + apply Nat.eqb_eq in J. subst. rewrite Nat.eqb_refl. simpl.
      apply Nat.ltb_lt in L. now rewrite L.
    + rewrite Nat.eqb_sym, J. reflexivity.
Qed.

Definition clause (args : list tm) (i : nat) (p : param) : bool :=
  match p with
  | PCon j oty _ => (negb (is_nat oty) && existsb (Nat.eqb i) (bound_vars oty))
                    || (negb (is_nat (insf args oty)) && (i =? j))
  | _ => false end.

Lemma pma_step_length args mono pa : length (pma_step args mono pa) = length mono.
Proof.
  unfold pma_step. destruct (fst pa); auto.
  destruct (is_nat t); destruct (is_nat (insf args t));
    rewrite ?set_nth_length, ?mark_vars_length; auto.
Qed.

(* one step: position j is marked by p, or keeps its state *)
Lemma pma_step_nth args mono p a j : j < length mono ->
  (forall i t c, p = PCon i t c -> nth_error args i = Some a) ->
  nth_error (pma_step args mono (p, a)) j
  = if clause args j p then Some (nth_error args j) else nth_error mono j.
Proof.
  intros L HA. unfold pma_step, clause. simpl. destruct p as [|i t c]; auto.
  specialize (HA i t c eq_refl).
  destruct (is_nat t) eqn:N1; simpl.
  - destruct (is_nat (insf args t)) eqn:N2; simpl; auto.
    rewrite nth_error_set_nth. rewrite (Nat.eqb_sym j i).
    destruct (i =? j) eqn:E; simpl; auto.
    apply Nat.eqb_eq in E. subst. apply Nat.ltb_lt in L. rewrite L. now rewrite HA.
  - destruct (is_nat (insf args t)) eqn:N2; simpl.
    + rewrite orb_false_r. now apply nth_error_mark_vars.
    + rewrite nth_error_set_nth, mark_vars_length. rewrite (Nat.eqb_sym j i).
      rewrite nth_error_mark_vars by auto.
      destruct (i =? j) eqn:E; simpl.
      * apply Nat.eqb_eq in E. subst. apply Nat.ltb_lt in L. rewrite L.
        rewrite orb_true_r. now rewrite HA.
      * now rewrite orb_false_r.
Qed.

Lemma pma_fold_nth args : forall pas mono j, j < length mono ->
  Forall (fun pa => forall i t c, fst pa = PCon i t c -> nth_error args i = Some (snd pa)) pas ->
  nth_error (fold_left (pma_step args) pas mono) j
  = if existsb (fun pa => clause args j (fst pa)) pas then Some (nth_error args j)
    else nth_error mono j.
Proof.
  induction pas as [|[p a] pas IH]; simpl; intros mono j L HF; auto.
  inversion HF as [|? ? H1 H2]; subst. simpl in H1.
  rewrite IH by (rewrite ?pma_step_length; auto).
  destruct (existsb (fun pa => clause args j (fst pa)) pas) eqn:E.
  - now rewrite orb_true_r.
  - rewrite orb_false_r. now apply pma_step_nth.
Qed.

Lemma existsb_combine_fst {A B} (f : A -> bool) (l : list A) (l' : list B) :
  length l = length l' -> existsb (fun pa => f (fst pa)) (combine l l') = existsb f l.
Proof.
  revert l'. induction l as [|a l IH]; intros [|b l'] L; simpl in *; try discriminate; auto.
  rewrite IH; auto.
Qed.

Lemma pma_marks : forall ps args j,
  length ps = length args -> j < length args ->
  Forall (fun pa => forall i t c, fst pa = PCon i t c -> nth_error args i = Some (snd pa))
         (combine ps args) ->
  nth_error (fst (partially_monomorphize_args ps args None)) j
  = Some (if needs_mono ps args j then nth_error args j else None).
Proof.
  intros ps args j L J HF. unfold partially_monomorphize_args. simpl.
  rewrite pma_fold_nth; auto; [|now rewrite repeat_length].
  rewrite (existsb_combine_fst (clause args j) ps args L).
  change (existsb (clause args j) ps) with (needs_mono ps args j).
  destruct (needs_mono ps args j); auto.
  apply nth_error_repeat. auto.
Qed.
(* ------------------------------------------------------------- composition modulo annotations *)
Lemma erase_insf : forall l t, erase (insf l t) = insf (map erase l) (erase t).
Proof.
  intros l. unfold insf. set (s' := map Some (map erase l)).
  induction t using tm_ind'; simpl; auto.
  - subst s'. rewrite !nth_error_map_Some, nth_error_map, !map_length.
    destruct (nth_error l i); simpl; auto.
  - f_equal. rewrite !map_map. now apply map_ext_Forall.
  - f_equal. rewrite !map_map. now apply map_ext_Forall.
  - f_equal; auto. rewrite !map_map. now apply map_ext_Forall.
  - subst s'. rewrite !nth_error_map_Some, nth_error_map, !map_length.
    destruct (nth_error l i); simpl; auto.
Qed.

Lemma scoped_erase : forall n t, scoped n t = true -> scoped n (erase t) = true.
Proof.
  intros n. induction t using tm_ind'; simpl; intros S; auto.
  - rewrite forallb_forall in *. intros x Hx. apply in_map_iff in Hx. destruct Hx as [y [<- Hy]].
    rewrite Forall_forall in H. auto.
  - rewrite forallb_forall in *. intros x Hx. apply in_map_iff in Hx. destruct Hx as [y [<- Hy]].
    rewrite Forall_forall in H. auto.
  - apply andb_true_iff in S. destruct S as [S1 S2]. apply andb_true_iff. split; auto.
    rewrite forallb_forall in *. intros x Hx. apply in_map_iff in Hx. destruct Hx as [y [<- Hy]].
    rewrite Forall_forall in H. auto.
  - apply andb_true_iff in S. destruct S as [S1 S2]. now rewrite S1.
Qed.

Lemma insf_app_len : forall pre ext t n, length pre = n -> scoped n t = true ->
  insf (pre ++ ext) t = insf pre t.
Proof. intros. subst. now apply insf_app. Qed.

Lemma map_insf_app_len F x l n : length F = n -> Forall (fun t => scoped n t = true) l ->
  map (insf (F ++ x)) l = map (insf F) l.
Proof. intros. subst. now apply map_insf_app. Qed.

Lemma insf_erased_bound : forall F x X p n, length F = n ->
  insf (F ++ x :: X) (erase (to_bound (with_idx n p))) = x.
Proof.
  intros F x X p n <-. destruct p; unfold insf; simpl;
    rewrite map_app, nth_error_app2 by (rewrite map_length; lia);
    rewrite map_length, Nat.sub_diag; reflexivity.
Qed.

Lemma erase_bound_rebound k k' s p :
  erase (to_bound (with_idx k (inst_bounds s (with_idx k' p)))) = erase (to_bound (with_idx k p)).
Proof. destruct p; reflexivity. Qed.

Lemma scoped_erased_bound k p : scoped (S k) (erase (to_bound (with_idx k p))) = true.
Proof. destruct p; simpl; rewrite ?andb_true_r; apply Nat.ltb_lt; lia. Qed.

Lemma wf_params_cons k p ps : wf_params k (p :: ps) = true ->
  (match p with PCon _ t _ => scoped k t = true | _ => True end) /\ wf_params (S k) ps = true.
Proof.
  simpl. intros H. apply andb_true_iff in H. destruct H as [H H2].
  apply andb_true_iff in H. destruct H as [_ H1]. destruct p; auto.
Qed.

Lemma erase_entry F1 F2 F12 k1 k2 p :
  (match p with PCon _ t _ => scoped (length F1) t = true | _ => True end) ->
  map erase F12 = map (insf (map erase F2)) (map erase F1) ->
  erase_param (inst_bounds (map Some F2) (with_idx k2 (inst_bounds (map Some F1) (with_idx k1 p))))
  = erase_param (inst_bounds (map Some F12) (with_idx k2 p)).
Proof.
  intros SC E. destruct p as [|i t c]; simpl; auto. f_equal.
  change (erase (insf F2 (insf F1 t)) = erase (insf F12 t)).
  rewrite !erase_insf, E. apply insf_compose. rewrite map_length. now apply scoped_erase.
Qed.

Lemma ip_spec_compose_erased : forall ps a1 a2 F1 F2 F12 k2,
  wf_params (length F1) ps = true -> forallb arg_closed a1 = true ->
  length a1 = length ps -> length a2 = length (filter is_none a1) ->
  Forall (fun t => scoped (length F2) t = true) (map erase F1) ->
  map erase F12 = map (insf (map erase F2)) (map erase F1) ->
  map erase (fst (ip_spec ps (compose_args a1 a2) F12 k2))
    = map (insf (map erase (F2 ++ fst (ip_spec (snd (ip_spec ps a1 F1 (length F2))) a2 F2 k2))))
          (map erase (fst (ip_spec ps a1 F1 (length F2))))
  /\ map erase_param (snd (ip_spec ps (compose_args a1 a2) F12 k2))
     = map erase_param (snd (ip_spec (snd (ip_spec ps a1 F1 (length F2))) a2 F2 k2)).
Proof.
  induction ps as [|p ps IH]; intros a1 a2 F1 F2 F12 k2 WF CA L1 L2 SC E.
  - destruct a1; simpl in *; try discriminate. destruct a2; simpl in *; try discriminate. auto.
  - apply wf_params_cons in WF. destruct WF as [Wp WF].
    destruct a1 as [|[x|] a1]; simpl in L1; try discriminate.
    + simpl in CA. apply andb_true_iff in CA. destruct CA as [Cx CA].
      assert (Cs : scoped 0 (erase (set_preserve x)) = true)
        by (apply scoped_erase; now apply set_preserve_scoped).
      simpl.
      specialize (IH a1 a2 (F1 ++ [set_preserve x]) F2 (F12 ++ [set_preserve x]) k2).
      rewrite app_length, Nat.add_1_r in IH. specialize (IH WF CA ltac:(lia) L2).
      rewrite !map_app in IH. simpl in IH.
      match type of IH with ?A -> _ => assert (HA : A) end.
      { apply Forall_app. split; auto. constructor; auto. eapply scoped_mono; [|exact Cs]. lia. }
      specialize (IH HA). clear HA.
      match type of IH with ?A -> _ => assert (HA : A) end.
      { rewrite E. f_equal. f_equal. symmetry. now apply insf_closed. }
      specialize (IH HA). clear HA.
      destruct IH as [IH1 IH2].
      split; [|exact IH2].
      rewrite !map_app. rewrite IH1. f_equal. symmetry. now apply insf_closed.
    + simpl in CA. simpl in L2.
      destruct a2 as [|y a2]; simpl in L2; try discriminate.
      assert (SB := scoped_erased_bound (length F2) p).
      destruct y as [z|].
      * simpl. rewrite !sp_to_bound.
        specialize (IH a1 a2 (F1 ++ [to_bound (with_idx (length F2) p)]) (F2 ++ [set_preserve z])
                       (F12 ++ [set_preserve z]) k2).
        rewrite !app_length, !Nat.add_1_r in IH. specialize (IH WF CA ltac:(lia) ltac:(lia)).
        rewrite !map_app in IH. simpl in IH.
        match type of IH with ?A -> _ => assert (HA : A) end.
        { apply Forall_app. split. eapply Forall_scoped_mono; [|exact SC]; lia. constructor; auto. }
        specialize (IH HA). clear HA.
        match type of IH with ?A -> _ => assert (HA : A) end.
        { rewrite E. f_equal.
          - symmetry. apply map_insf_app_len with (n := length F2); auto. now rewrite map_length.
          - f_equal. symmetry. apply insf_erased_bound. now rewrite map_length. }
        specialize (IH HA). clear HA.
        destruct IH as [IH1 IH2].
        split; [|exact IH2].
        rewrite IH1. rewrite !map_app. simpl. rewrite <- !app_assoc. simpl.
        f_equal. symmetry. apply insf_erased_bound. now rewrite map_length.
      * simpl. rewrite !sp_to_bound.
        specialize (IH a1 a2 (F1 ++ [to_bound (with_idx (length F2) p)])
                       (F2 ++ [to_bound (with_idx k2 (inst_bounds (map Some F1) (with_idx (length F2) p)))])
                       (F12 ++ [to_bound (with_idx k2 p)]) (S k2)).
        rewrite !app_length, !Nat.add_1_r in IH. specialize (IH WF CA ltac:(lia) ltac:(lia)).
        rewrite !map_app in IH. simpl in IH. rewrite erase_bound_rebound in IH.
        match type of IH with ?A -> _ => assert (HA : A) end.
        { apply Forall_app. split. eapply Forall_scoped_mono; [|exact SC]; lia. constructor; auto. }
        specialize (IH HA). clear HA.
        match type of IH with ?A -> _ => assert (HA : A) end.
        { rewrite E. f_equal.
          - symmetry. apply map_insf_app_len with (n := length F2); auto. now rewrite map_length.
          - f_equal. symmetry. apply insf_erased_bound. now rewrite map_length. }
        specialize (IH HA). clear HA.
        destruct IH as [IH1 IH2].
        split.
        -- rewrite IH1. rewrite !map_app. simpl. rewrite <- !app_assoc. simpl.
           rewrite ?erase_bound_rebound.
           f_equal. symmetry. apply insf_erased_bound. now rewrite map_length.
        -- simpl. rewrite IH2. f_equal. symmetry. now apply erase_entry.
Qed.

Lemma erase_sp a : erase (set_preserve a) = set_preserve (erase a).
Proof. destruct a; reflexivity. Qed.

Lemma ip_compose_erased : forall f a1 a2,
  wf_fty f = true -> forallb arg_closed a1 = true ->
  length a1 = length (f_params f) -> length a2 = length (filter is_none a1) ->
  erase_fty (instantiate_partial (instantiate_partial f a1) a2)
  = erase_fty (instantiate_partial f (compose_args a1 a2)).
Proof.
  intros f a1 a2 WF CA L1 L2. unfold instantiate_partial.
  rewrite (ip_loop_spec (f_params f) a1 [] []). simpl.
  rewrite (ip_loop_spec _ a2 [] []). simpl.
  rewrite (ip_loop_spec (f_params f) (compose_args a1 a2) [] []). simpl.
  unfold wf_fty in WF. repeat (apply andb_true_iff in WF; destruct WF as [WF ?]).
  destruct (ip_spec_compose_erased (f_params f) a1 a2 [] [] [] 0 WF CA L1 L2 (Forall_nil _) eq_refl)
    as [E1 E2].
  simpl in E1, E2.
  assert (LL := ip_spec_fst_length (f_params f) a1 [] 0 L1).
  assert (K : forall t, scoped (length (f_params f)) t = true ->
     erase (insf (fst (ip_spec (snd (ip_spec (f_params f) a1 [] 0)) a2 [] 0))
                 (insf (fst (ip_spec (f_params f) a1 [] 0)) t))
     = erase (insf (fst (ip_spec (f_params f) (compose_args a1 a2) [] 0)) t)).
  { intros t St. rewrite !erase_insf, E1. apply insf_compose.
    rewrite map_length, LL. now apply scoped_erase. }
  unfold erase_fty. simpl. f_equal.
  - rewrite !map_map. apply map_ext_sc with (b := scoped (length (f_params f))); auto.
    apply Forall_forall. intros. now apply K.
  - now apply K.
  - exact (eq_sym E2).
  - rewrite !map_map. apply map_ext_sc with (b := scoped (length (f_params f))); auto.
    apply Forall_forall. intros. now apply K.
Qed.

(* ------------------------------------------------------------- rows at call sites ------- *)
Definition row_stable (a : tm) : bool :=
  match a with TNone false => false | TTup _ false => false | _ => true end.

Lemma ip_spec_row_stable : forall ps a F k,
  Forall (fun t => row_stable t = true) (fst (ip_spec ps a F k)).
Proof.
  induction ps as [|p ps IH]; intros [|[x|] a] F k; simpl; try constructor; auto.
  - destruct x as [| |[|]|? [|]| | | |]; reflexivity.
  - rewrite sp_to_bound. destruct p; reflexivity.
Qed.

Lemma consumes_insf : forall full t,
  Forall (fun a => row_stable a = true) full ->
  pack_returns_consumes (insf full t) = declared_outs t.
Proof.
  intros full t ST. unfold insf, declared_outs.
  destruct t as [i cp dr| |[|]|ts [|]| | | |ty i]; simpl; auto.
  - rewrite nth_error_map_Some. destruct (nth_error full i) eqn:E; simpl; auto.
    rewrite Forall_forall in ST. specialize (ST t (nth_error_In _ _ E)).
    destruct t as [| |[|]|? [|]| | | |]; simpl in *; auto; discriminate.
  - now rewrite map_length.
  - rewrite nth_error_map_Some. destruct (nth_error full i) eqn:E; simpl; auto.
    rewrite Forall_forall in ST. specialize (ST t (nth_error_In _ _ E)).
    destruct t as [| |[|]|? [|]| | | |]; simpl in *; auto; discriminate.
Qed.

Lemma call_row_matches : forall f a,
  pack_returns_consumes (f_out (instantiate_partial f a)) = declared_outs (f_out f).
Proof.
  intros f a. unfold instantiate_partial. rewrite ip_loop_spec. simpl.
  apply consumes_insf. apply ip_spec_row_stable.
Qed.
