(** C09 — Dataflow analyses equal the path-based solution in any visit order.

    Model: V.C09.Analysis (executable, mirrors cfg/analysis.py and CFG.analyze; tied to the
    code by the correspondence harness props/C09).  All positive theorems are about the
    REPAIRED re-queue policy (props/C09/fix-1.patch: dummy neighbours are re-queued too);
    the policy as released in guppylang 0.21.6 is refuted by
    [order_dependent_as_coded_refuted].
    Quantifiers: every finite CFG [g] with in-range successor indices ([wf_cfg]), arbitrary
    use/def sets, dummy edges, unreachable blocks, every initial set, and EVERY pop order:
    [sched_run step queue s s'] holds iff [s'] has an empty work list and is reached from
    [s] by popping, each time, an arbitrary member of the work list.  No size bound.
    Path-based solutions ([live_on_path], [dead_on_all_paths], [unassigned_before],
    [assigned_before], [never_assigned_before]) are defined in Spec.v from the wording of
    the property, without reference to the algorithm. *)
From Coq Require Import List Bool Arith.
From V.C09 Require Import Analysis Spec ProofsLive ProofsAssign ProofsTop ProofsPaths ProofsWalks.
Import ListNotations.

(** ** Termination *)

(* whatever the pop order the work list empties; [live_fuel] / [ass_fuel] iterations are
   enough for [run_with], whose result is therefore a terminal state of [sched_run] *)
Theorem run_terminates : forall g, wf_cfg g = true ->
  (forall incl I sched,
     fst (live_run Repaired incl g I sched) = [] /\
     sched_run (live_step Repaired incl g) fst (live_init g I) (live_run Repaired incl g I sched)) /\
  (forall D0 M0 sched,
     fq (ass_run Repaired g D0 M0 sched) = [] /\
     sched_run (ass_step Repaired g D0) fq (ass_init g D0 M0) (ass_run Repaired g D0 M0 sched)).
Proof.
  intros g W. split; intros.
  - apply ProofsLive.live_run_terminates; auto.
  - apply ProofsAssign.ass_run_terminates; auto.
Qed.
Print Assumptions run_terminates.

(* no infinite pop sequence exists from the initial liveness state (well-foundedness) *)
Theorem live_pops_well_founded : forall incl g I, wf_cfg g = true ->
  Acc (fun s2 s1 => linv incl g I s1 /\ exists b, In b (fst s1) /\ s2 = live_step Repaired incl g b s1)
      (live_init g I).
Proof. exact ProofsLive.live_pops_wf. Qed.
Print Assumptions live_pops_well_founded.

(** ** Liveness = path-based solution, for every pop order *)

(* x outside the initial set: live before b  <->  x is read on some path from b before being
   reassigned (least solution).
   x in the initial set (the borrowed variables in CFG.analyze): NOT live before b  <->  on
   every path from b, x is reassigned or the path ends before x is read, and no infinite path
   avoids both (greatest solution: the borrowed-variable rule of cfg.py, stated exactly). *)
Theorem live_char : forall incl g I, wf_cfg g = true ->
  forall s', sched_run (live_step Repaired incl g) fst (live_init g I) s' ->
  forall b x, b < nblocks g ->
    (~ In x I -> (In x (getv (snd s') b) <-> live_on_path incl g x b)) /\
    (In x I -> (~ In x (getv (snd s') b) <-> dead_on_all_paths incl g x b)).
Proof. exact ProofsLive.live_terminal_char. Qed.
Print Assumptions live_char.

(* the property's wording, when nothing is borrowed *)
Corollary live_char_plain : forall incl g, wf_cfg g = true ->
  forall s', sched_run (live_step Repaired incl g) fst (live_init g []) s' ->
  forall b x, b < nblocks g -> (In x (getv (snd s') b) <-> live_on_path incl g x b).
Proof. intros incl g W s' H b x Hb. apply (live_char incl g [] W s' H b x Hb). intros []. Qed.
Print Assumptions live_char_plain.

(* the same with the path written out: p = b1 ... bk, b -> b1 -> ... -> bk flow edges,
   x read in bk, x not assigned in b, b1, ..., b(k-1) *)
Corollary live_char_explicit_paths : forall incl g, wf_cfg g = true ->
  forall s', sched_run (live_step Repaired incl g) fst (live_init g []) s' ->
  forall b x, b < nblocks g ->
    (In x (getv (snd s') b) <-> exists p, live_witness incl g x b p).
Proof. intros. rewrite <- live_on_path_iff_witness. apply live_char_plain; auto. Qed.
Print Assumptions live_char_explicit_paths.

(* the initial-set (borrowed variable) rule in positive form *)
Theorem live_char_initial_positive : forall incl g I, wf_cfg g = true ->
  forall s', sched_run (live_step Repaired incl g) fst (live_init g I) s' ->
  forall b x, b < nblocks g -> In x I ->
    (live_on_path incl g x b \/ (forall k, exists p, length p = k /\ idle_walk incl g x b p)) ->
    In x (getv (snd s') b).
Proof. exact live_initial_positive. Qed.
Print Assumptions live_char_initial_positive.

(* ... and as an equivalence: for a variable of the initial set (a borrowed variable),
   live before b  <->  read on some path from b before being reassigned, OR there are walks of
   every length from b that never reassign it (in a finite graph: an infinite such path, i.e.
   the function may loop forever without giving the variable a new value) *)
Theorem live_char_initial_paths : forall incl g I, wf_cfg g = true ->
  forall s', sched_run (live_step Repaired incl g) fst (live_init g I) s' ->
  forall b x, b < nblocks g -> In x I ->
    (In x (getv (snd s') b) <->
     live_on_path incl g x b \/ (forall k, exists p, length p = k /\ idle_walk incl g x b p)).
Proof. intros incl g I W. exact (live_initial_paths incl g W I). Qed.
Print Assumptions live_char_initial_paths.

(* pigeonhole: a walk of at least |blocks| edges that never reassigns x revisits a block, so
   such walks exist in every length (an infinite path) *)
Theorem idle_walk_pumping : forall incl g x b p, idle_walk incl g x b p -> nblocks g <= length p ->
  forall k, exists p', length p' = k /\ idle_walk incl g x b p'.
Proof. exact idle_walk_pump. Qed.
Print Assumptions idle_walk_pumping.

(* hence, for a variable of the initial set: live before b  <->  read on some path from b
   before being reassigned, OR some walk of exactly |blocks| edges from b never reassigns it *)
Theorem live_char_initial_nwalk : forall incl g I, wf_cfg g = true ->
  forall s', sched_run (live_step Repaired incl g) fst (live_init g I) s' ->
  forall b x, b < nblocks g -> In x I ->
    (In x (getv (snd s') b) <->
     live_on_path incl g x b \/ exists p, length p = nblocks g /\ idle_walk incl g x b p).
Proof. exact live_initial_nwalk. Qed.
Print Assumptions live_char_initial_nwalk.

(** ** Definitely / maybe assigned = all-paths / some-path solution, for every pop order *)

(* definitely assigned before b  <->  x is a known variable and NO path from a source (a block
   without predecessors: the entry) to b leaves x unassigned *)
Theorem def_char : forall g D0 M0, wf_cfg g = true ->
  forall s', sched_run (ass_step Repaired g D0) fq (ass_init g D0 M0) s' ->
  forall b x, b < nblocks g ->
    (In x (getv (befD s') b) <-> In x (all_vars g D0) /\ ~ unassigned_before g D0 x b).
Proof. intros g D0 M0 W s' H b x Hb. apply (ass_terminal_char g D0 M0 W s' H b x Hb). Qed.
Print Assumptions def_char.

(* maybe assigned before b  <->  SOME path into b assigns x (least solution); for the
   variables of maybe_ass_before_entry the greatest solution, stated through its complement *)
Theorem maybe_char : forall g D0 M0, wf_cfg g = true ->
  forall s', sched_run (ass_step Repaired g D0) fq (ass_init g D0 M0) s' ->
  forall b x, b < nblocks g ->
    (~ In x M0 -> (In x (getv (befM s') b) <-> assigned_before g D0 x b)) /\
    (In x M0 -> (~ In x (getv (befM s') b) <-> never_assigned_before g D0 x b)).
Proof. intros g D0 M0 W s' H b x Hb. apply (ass_terminal_char g D0 M0 W s' H b x Hb). Qed.
Print Assumptions maybe_char.

(* positive form of the greatest solution: a variable of maybe_ass_before_entry is maybe
   assigned before b  <->  some path into b assigns it, OR a backward walk of |blocks| edges
   from b exists (b lies on or behind a cycle: an infinite backward path) *)
Theorem maybe_char_initial_nwalk : forall g D0 M0, wf_cfg g = true ->
  forall s', sched_run (ass_step Repaired g D0) fq (ass_init g D0 M0) s' ->
  forall b x, b < nblocks g -> In x M0 ->
    (In x (getv (befM s') b) <->
     assigned_before g D0 x b \/ exists q, length q = nblocks g /\ back_walk g b q).
Proof. exact maybe_initial_nwalk. Qed.
Print Assumptions maybe_char_initial_nwalk.

(** ** Order independence *)

Theorem order_independent : forall g, wf_cfg g = true ->
  (forall incl I s1 s2,
     sched_run (live_step Repaired incl g) fst (live_init g I) s1 ->
     sched_run (live_step Repaired incl g) fst (live_init g I) s2 ->
     same_sets (nblocks g) (snd s1) (snd s2)) /\
  (forall D0 M0 s1 s2,
     sched_run (ass_step Repaired g D0) fq (ass_init g D0 M0) s1 ->
     sched_run (ass_step Repaired g D0) fq (ass_init g D0 M0) s2 ->
     same_sets (nblocks g) (befD s1) (befD s2) /\ same_sets (nblocks g) (befM s1) (befM s2)).
Proof.
  intros g W. split; intros.
  - eapply live_order_independent_lemma; eauto.
  - eapply ass_order_independent_lemma; eauto.
Qed.
Print Assumptions order_independent.

(* CFG.analyze: live_before, ass_before, maybe_ass_before do not depend on the two schedules *)
Theorem cfg_analyze_order_independent : forall g D0 M0 inout, wf_cfg g = true ->
  forall s1 s2 t1 t2,
  let '(l, d, m) := cfg_analyze Repaired g D0 M0 inout s1 s2 in
  let '(l', d', m') := cfg_analyze Repaired g D0 M0 inout t1 t2 in
  same_sets (nblocks g) l l' /\ same_sets (nblocks g) d d' /\ same_sets (nblocks g) m m'.
Proof. exact cfg_analyze_order_independent_lemma. Qed.
Print Assumptions cfg_analyze_order_independent.

(** ** The executable results meet the path-based solutions (what C06/C08/C10 consume) *)

Theorem liveness_correct : forall incl g I, wf_cfg g = true -> forall sched b x, b < nblocks g ->
  (~ In x I -> (In x (getv (liveness Repaired incl g I sched) b) <-> live_on_path incl g x b)) /\
  (In x I -> (~ In x (getv (liveness Repaired incl g I sched) b) <-> dead_on_all_paths incl g x b)).
Proof. exact liveness_correct_lemma. Qed.
Print Assumptions liveness_correct.

Theorem assignment_correct : forall g D0 M0, wf_cfg g = true -> forall sched b x, b < nblocks g ->
  (In x (getv (fst (assignment Repaired g D0 M0 sched)) b) <->
     In x (all_vars g D0) /\ ~ unassigned_before g D0 x b) /\
  (~ In x M0 -> (In x (getv (snd (assignment Repaired g D0 M0 sched)) b) <-> assigned_before g D0 x b)) /\
  (In x M0 -> (~ In x (getv (snd (assignment Repaired g D0 M0 sched)) b) <-> never_assigned_before g D0 x b)).
Proof. exact assignment_correct_lemma. Qed.
Print Assumptions assignment_correct.

(* CFG.analyze(D0, M0, inout) = the two analyses on the CFG whose exit reads the borrowed
   variables, liveness started from the borrowed variables, dummy edges included *)
Theorem cfg_analyze_is : forall g D0 M0 inout s1 s2,
  cfg_analyze Repaired g D0 M0 inout s1 s2 =
  (liveness Repaired true (with_exit_uses g inout) inout s1,
   fst (assignment Repaired (with_exit_uses g inout) D0 M0 s2),
   snd (assignment Repaired (with_exit_uses g inout) D0 M0 s2)) /\
  (wf_cfg g = true -> wf_cfg (with_exit_uses g inout) = true) /\
  nblocks (with_exit_uses g inout) = nblocks g.
Proof.
  intros. split; [apply cfg_analyze_eq|]. split; [apply wf_with_exit_uses | apply nblocks_with_exit_uses].
Qed.
Print Assumptions cfg_analyze_is.

(** ** Refutations (findings) *)

Definition pue_cfg : cfg :=   (* entry P = 0, exit E = 1, unreachable U = 2 reading x = 7 *)
  [mkBlock [1] [2] [] []; mkBlock [] [] [] []; mkBlock [1] [] [7] []].
Definition pue_fwd : cfg :=   (* P assigns 3, U assigns 4; P ~> U dummy, U -> E *)
  [mkBlock [1] [2] [] [3]; mkBlock [] [] [] []; mkBlock [1] [] [] [4]].

(* with the re-queue AS RELEASED (real neighbours only) two pop orders of the same CFG end
   with an empty work list and different sets: liveness of x before the entry, and the
   definitely-assigned set before the unreachable block *)
Theorem order_dependent_as_coded_refuted :
  (exists g I s1 s2 b x, wf_cfg g = true /\
     fst (live_run Coded true g I s1) = [] /\ fst (live_run Coded true g I s2) = [] /\
     b < nblocks g /\
     ~ In x (getv (liveness Coded true g I s1) b) /\ In x (getv (liveness Coded true g I s2) b)) /\
  (exists g D0 M0 s1 s2 b x, wf_cfg g = true /\
     fq (ass_run Coded g D0 M0 s1) = [] /\ fq (ass_run Coded g D0 M0 s2) = [] /\
     b < nblocks g /\
     ~ In x (getv (fst (assignment Coded g D0 M0 s1)) b) /\ In x (getv (fst (assignment Coded g D0 M0 s2)) b)).
Proof.
  split.
  - exists pue_cfg, [], [0; 0; 0], [2; 1; 0], 0, 7. vm_compute. repeat split; auto; try (intros []).
  - exists pue_fwd, [5], [5; 6], [0; 0; 0; 0; 0], [2; 0; 0; 0; 0], 2, 4. vm_compute. repeat split; auto;
    try (intros [H|[H|[]]]; discriminate).
Qed.
Print Assumptions order_dependent_as_coded_refuted.

(* the literal wording ("live = read on some path before being reassigned") fails for a
   borrowed variable that is reassigned after a loop: CFG.analyze reports x = 0 live before
   the loop header 2 although no path from 2 reads x before block 3 reassigns it *)
Theorem live_plain_wording_refuted_for_borrowed :
  exists g inout b x, wf_cfg g = true /\ b < nblocks g /\
    (let '(l, _, _) := cfg_analyze Repaired g [x] [x] inout [] [] in In x (getv l b)) /\
    ~ live_on_path true (with_exit_uses g inout) x b.
Proof.
  exists borrow_cfg, [0], 2, 0. split; [reflexivity|]. split; [vm_compute; auto|]. split.
  - vm_compute. auto.
  - intros H. apply borrow_not_on_path in H. discriminate.
Qed.
Print Assumptions live_plain_wording_refuted_for_borrowed.

(** ** The hypotheses are satisfiable on a non-trivial instance
    (a loop 2 -> 2, an `if False` dummy edge 0 ~> 4 into unreachable block 4 which jumps into
    the loop, a borrowed variable 2): the CFG is well formed, a terminal state exists for an
    arbitrary schedule, and the sets are the expected ones. *)
Definition ex_cfg : cfg :=
  [mkBlock [2] [4] [] [0]; mkBlock [] [] [] []; mkBlock [2; 3] [] [0] [1];
   mkBlock [1] [] [1] []; mkBlock [2] [] [2] [0]].

Example ex_nontrivial :
  wf_cfg ex_cfg = true /\
  (exists s', sched_run (live_step Repaired true ex_cfg) fst (live_init ex_cfg [2]) s') /\
  (let '(l, d, m) := cfg_analyze Repaired ex_cfg [2] [2] [2] [3; 1; 4; 1; 5] [9; 2; 6] in
   (norm_vals l, norm_vals d, norm_vals m)) =
  ([[2]; [2]; [0; 2]; [1; 2]; [2]],
   [[2]; [0; 1; 2]; [0; 2]; [0; 1; 2]; [0; 2]],
   [[2]; [0; 1; 2]; [0; 1; 2]; [0; 1; 2]; [0; 2]]).
Proof.
  split; [reflexivity|]. split; [|vm_compute; reflexivity].
  eexists. apply (ProofsLive.live_run_terminates true ex_cfg [2] eq_refl [1; 0; 3]).
Qed.
