(** C09 — Dataflow analyses equal the path-based solution in any visit order.

    Model: V.C09.Analysis (executable, mirrors cfg/analysis.py and CFG.analyze; tied to the
    code by the correspondence harness props/C09).  All theorems are about the REPAIRED
    re-queue policy (fix-1.patch: dummy neighbours are re-queued too); the policy as coded
    in guppylang 0.21.6 is refuted by [order_dependent_as_coded_refuted].
    Quantifiers: every finite CFG [g] with in-range successor indices ([wf_cfg]), arbitrary
    use/def sets, dummy edges, unreachable blocks, every initial set, and EVERY pop order
    ([sched_run] relates the initial state to each state with an empty work list reachable
    by popping arbitrary members of the work list).  No size bound anywhere. *)
From Coq Require Import List Bool Arith.
From V.C09 Require Import Analysis Spec ProofsLive.
Import ListNotations.

(** ** Liveness *)

(* Termination: whatever the pop order, the work list empties; [live_fuel] iterations
   suffice for [run_with]; the pop relation is well-founded from the initial state. *)
Theorem live_run_terminates : forall incl g I, wf_cfg g = true -> forall sched,
  fst (live_run Repaired incl g I sched) = [] /\
  sched_run (live_step Repaired incl g) fst (live_init g I) (live_run Repaired incl g I sched).
Proof. exact ProofsLive.live_run_terminates. Qed.
Print Assumptions live_run_terminates.

(* Path characterisation at an empty work list, for every pop order.
   x outside the initial set: live before b  <->  x is read on some path from b before
   being reassigned (least solution).
   x in the initial set (borrowed variables in CFG.analyze): NOT live before b  <->  on every
   path from b, x is reassigned or the path ends before x is read, and no infinite path
   avoids both (greatest solution: the borrowed-variable rule of cfg.py, stated exactly). *)
Theorem live_char : forall incl g I, wf_cfg g = true ->
  forall s', sched_run (live_step Repaired incl g) fst (live_init g I) s' ->
  forall b x, b < nblocks g ->
    (~ In x I -> (In x (getv (snd s') b) <-> live_on_path incl g x b)) /\
    (In x I -> (~ In x (getv (snd s') b) <-> dead_on_all_paths incl g x b)).
Proof. exact ProofsLive.live_terminal_char. Qed.
Print Assumptions live_char.
