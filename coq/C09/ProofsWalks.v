(** V.C09.ProofsWalks — the greatest-fixpoint cases in positive path form with a walk of
    exactly [nblocks g] edges (pigeonhole: it revisits a block, so it is an infinite path). *)
From Coq Require Import List Bool Arith Lia.
From V.C09 Require Import Analysis SetLemmas Generic Spec Walks ProofsLive ProofsPaths
  ProofsAssign GenericWalks.
Import ListNotations.

(** liveness: a walk of n edges that never reassigns x gives such walks of every length *)
Lemma idle_walk_pump : forall incl g x b p, idle_walk incl g x b p -> nblocks g <= length p ->
  forall k, exists p', length p' = k /\ idle_walk incl g x b p'.
Proof.
  intros incl g x b p H Hl k.
  exact (pump (nblocks g) (flow_succ incl g) (fun c => ~ In x (b_def (blk g c))) b p H Hl k).
Qed.

Lemma live_initial_nwalk : forall incl g I, wf_cfg g = true ->
  forall s', sched_run (live_step Repaired incl g) fst (live_init g I) s' ->
  forall b x, b < nblocks g -> In x I ->
    (In x (getv (snd s') b) <->
     live_on_path incl g x b \/ exists p, length p = nblocks g /\ idle_walk incl g x b p).
Proof.
  intros incl g I W s' H b x Hb HI. rewrite (live_initial_paths incl g W I s' H b x Hb HI). split.
  - intros [Hl|Hw]; auto.
  - intros [Hl|[p [Hlen Hw]]]; auto. right. apply (idle_walk_pump incl g x b p Hw). lia.
Qed.

(** maybe-assigned, for the variables of maybe_ass_before_entry *)
Definition back_walk (g : cfg) (b : nat) (q : list nat) : Prop :=
  walk (flow_pred true g) b q /\ forall c, In c (b :: q) -> c < nblocks g.

Section MaybeWalk.
Variable g : cfg.
Variables D0 M0 : list nat.
Hypothesis W : wf_cfg g = true.
Notation n := (nblocks g).
Notation failM x := (fail aK n (aN g) (agen g) (apass g) (abnd D0) (false, x)).
Notation reachM x := (reach aK n (aN g) (agen g) (apass g) (abnd D0) (false, x)).
Notation gwM x := (okwalk n (aN g) (fun c => apass g c (false, x) = true)).

Lemma failM_dec : forall x b, b < n -> failM x b \/ ~ failM x b.
Proof.
  intros x b Hb. destruct (ass_run_terminates g D0 [x] W []) as [_ R].
  destruct (ass_after_char g D0 [x] W _ R b (false, x) Hb) as [_ Hhi].
  assert (Hh : ahi g D0 [x] (false, x) = true) by (simpl; rewrite Nat.eqb_refl; reflexivity).
  specialize (Hhi Hh).
  destruct (alphaA (aftD (ass_run Repaired g D0 [x] [])) (aftM (ass_run Repaired g D0 [x] [])) b (false, x)) eqn:E.
  - right. intro Hf. apply Hhi in Hf. discriminate.
  - left. apply Hhi. reflexivity.
Qed.

Lemma back_walk_gw : forall x b q, back_walk g b q <-> gwM x b q.
Proof.
  intros x b q. unfold back_walk, okwalk. split; intros [Hw Hn]; split; auto;
    intros c Hc; try (split; [apply Hn; auto | reflexivity]); apply (Hn c Hc).
Qed.

Theorem maybe_initial_nwalk : forall s', sched_run (ass_step Repaired g D0) fq (ass_init g D0 M0) s' ->
  forall b x, b < n -> In x M0 ->
    (In x (getv (befM s') b) <->
     assigned_before g D0 x b \/ exists q, length q = n /\ back_walk g b q).
Proof.
  intros s' H b x Hb HM.
  destruct (ass_terminal_char g D0 M0 W s' H b x Hb) as [_ [_ C]]. specialize (C HM).
  unfold never_assigned_before, assigned_before in *. fold (aN g) in *.
  assert (Hwf := aN_wf g).
  split.
  - intros Hin.
    assert (Hnn : ~ ((aN g b = [] /\ ~ In x D0) \/
                     (aN g b <> [] /\ forall p, In p (aN g b) -> never_assigned_after g D0 x p))).
    { intro Hnb. apply C in Hnb. contradiction. }
    assert (HN : aN g b = [] \/ aN g b <> []) by (destruct (aN g b); [left | right]; congruence).
    destruct HN as [HN|HN].
    + destruct (in_dec Nat.eq_dec x D0) as [Hd|Hd]; [left; left; auto|].
      exfalso. apply Hnn. left. auto.
    + destruct (some_not_fail_or_all aK n (aN g) (agen g) (apass g) (abnd D0) (false, x)
                  (failM_dec x) (aN g b) (fun c Hc => Hwf b c Hb Hc)) as [[p [Hp Hnf]]|Hall].
      * destruct (not_fail_walk aK n (aN g) (agen g) (apass g) (abnd D0) Hwf (false, x)
                    (failM_dec x) (n - 1) p (Hwf b p Hb Hp) Hnf) as [Hr|[q [Hl Hq]]].
        -- left. right. exists p. split; auto. apply reach_ass; auto.
        -- right. exists (p :: q). split; [simpl; lia|].
           apply back_walk_gw in Hq. destruct Hq as [Hw Hn]. split; [simpl; auto|].
           intros c [<-|Hc]; auto.
      * exfalso. apply Hnn. right. split; auto. intros p Hp. apply fail_never; auto.
  - intros Hor. destruct (in_dec Nat.eq_dec x (getv (befM s') b)) as [|Hn]; auto. exfalso.
    apply C in Hn. destruct Hor as [[[HN Hd]|[p [Hp Ha]]]|[q [Hl Hq]]].
    + destruct Hn as [[_ Hnd]|[Hne _]]; [contradiction | congruence].
    + destruct Hn as [[HN _]|[_ Hall]]; [rewrite HN in Hp; destruct Hp|].
      apply reach_ass in Ha; auto. apply Hall, fail_never in Hp; auto.
      eapply reach_fail_excl; eauto.
    + destruct Hn as [[HN _]|[_ Hall]].
      * destruct q as [|p t]; [simpl in Hl; lia|]. destruct Hq as [[Hp _] _].
        unfold aN in HN. simpl in Hp. rewrite HN in Hp. destruct Hp.
      * destruct (list_bound (aN g b) (fun c J => forall p, gwM x c p -> length p < J)) as [J HJ].
        -- intros c J J' H0 Hle p Hp. specialize (H0 p Hp). lia.
        -- intros c Hc. apply (fail_bounds aK n (aN g) (agen g) (apass g) (abnd D0) (false, x)).
           apply fail_never; auto.
        -- destruct (pump n (aN g) (fun _ => True) b q) with (k := S J) as [q' [Hl' [Hw' Hn']]].
           { destruct Hq as [Hw Hnodes]. split; auto. }
           { lia. }
           destruct q' as [|p t]; [discriminate|]. destruct Hw' as [Hp Hw'].
           assert (length t < J); [|simpl in Hl'; lia].
           apply (HJ p Hp). apply back_walk_gw. split; auto.
           intros c Hc. apply Hn'. right; auto.
Qed.
End MaybeWalk.
