(** V.C09.Spec — the path-based solutions, written from the property's wording and
    independently of the worklist algorithm.  "Exists a finite path such that ..." is an
    inductive predicate; its dual "every path ... (and no infinite path escapes)" is the
    well-founded inductive predicate with a [forall successor] premise.  Definitions only. *)
From Coq Require Import List Bool Arith.
From V.C09 Require Import Analysis.
Import ListNotations.

Section LiveSpec.
Variable incl : bool.
Variable g : cfg.

(** x is read on some path from the start of block b before being reassigned:
    b = b0 -> b1 -> ... -> bk along flow edges, x in use(bk), x not in def(bi) for i < k
    (within one block the uses recorded in [b_use] happen before its assignments). *)
Inductive live_on_path (x : nat) : nat -> Prop :=
| lp_use b : b < nblocks g -> In x (b_use (blk g b)) -> live_on_path x b
| lp_step b c : b < nblocks g -> ~ In x (b_def (blk g b)) -> In c (flow_succ incl g b) ->
                live_on_path x c -> live_on_path x b.

(** the same with the path written out: [p] lists b1 ... bk *)
Fixpoint walk (E : nat -> list nat) (b : nat) (p : list nat) : Prop :=
  match p with [] => True | c :: t => In c (E b) /\ walk E c t end.
Definition live_witness (x b : nat) (p : list nat) : Prop :=
  walk (flow_succ incl g) b p /\
  (forall c, In c (b :: p) -> c < nblocks g) /\
  In x (b_use (blk g (last p b))) /\
  (forall c, In c (removelast (b :: p)) -> ~ In x (b_def (blk g c))).

(** on EVERY path from b, x is reassigned -- or the path ends -- before x is read, and no
    infinite path avoids both (the predicate is inductive, hence well-founded) *)
Inductive dead_on_all_paths (x : nat) : nat -> Prop :=
| dp b : b < nblocks g -> ~ In x (b_use (blk g b)) ->
         (In x (b_def (blk g b)) \/ forall c, In c (flow_succ incl g b) -> dead_on_all_paths x c) ->
         dead_on_all_paths x b.

(** an arbitrarily long walk from b on which x is neither read nor reassigned
    (in a finite graph: an infinite one, i.e. a reachable cycle) *)
Definition idle_walk (x b : nat) (p : list nat) : Prop :=
  walk (flow_succ incl g) b p /\
  (forall c, In c (b :: p) -> c < nblocks g /\ ~ In x (b_def (blk g c))).
End LiveSpec.

Section AssSpec.
Variable g : cfg.
Variable D0 : list nat.   (* assigned before the entry *)
Notation P := (flow_pred true g).

(** there is a path  s = b0 -> ... -> bk = b  from a source (a block without predecessors:
    the entry) to the END of b on which x is never assigned, x not assigned before s *)
Inductive unassigned_after (x : nat) : nat -> Prop :=
| ua_src b : b < nblocks g -> ~ In x (b_def (blk g b)) -> P b = [] -> ~ In x D0 -> unassigned_after x b
| ua_step b p : b < nblocks g -> ~ In x (b_def (blk g b)) -> In p (P b) -> unassigned_after x p ->
                unassigned_after x b.
(** ... to the START of b *)
Definition unassigned_before (x b : nat) : Prop :=
  (P b = [] /\ ~ In x D0) \/ exists p, In p (P b) /\ unassigned_after x p.

(** some path into the END of b assigns x (in a block of the path, or before a source) *)
Inductive assigned_after (x : nat) : nat -> Prop :=
| aa_def b : b < nblocks g -> In x (b_def (blk g b)) -> assigned_after x b
| aa_src b : b < nblocks g -> P b = [] -> In x D0 -> assigned_after x b
| aa_step b p : b < nblocks g -> In p (P b) -> assigned_after x p -> assigned_after x b.
Definition assigned_before (x b : nat) : Prop :=
  (P b = [] /\ In x D0) \/ exists p, In p (P b) /\ assigned_after x p.

(** every backward path from the END of b reaches a source without meeting an assignment
    of x, x is not assigned before that source, and no infinite backward path exists *)
Inductive never_assigned_after (x : nat) : nat -> Prop :=
| na b : b < nblocks g -> ~ In x (b_def (blk g b)) ->
         ((P b = [] /\ ~ In x D0) \/
          (P b <> [] /\ forall p, In p (P b) -> never_assigned_after x p)) ->
         never_assigned_after x b.
Definition never_assigned_before (x b : nat) : Prop :=
  (P b = [] /\ ~ In x D0) \/ (P b <> [] /\ forall p, In p (P b) -> never_assigned_after x p).
End AssSpec.

(** two per-block results denote the same sets *)
Definition same_sets (n : nat) (L1 L2 : vals) : Prop :=
  forall b x, b < n -> (In x (getv L1 b) <-> In x (getv L2 b)).
