(** V.C09.Walks — pigeonhole / pumping for walks in a finite graph: a walk with at least
    [n] edges through blocks [< n] revisits a block, hence walks of every length exist. *)
From Coq Require Import List Bool Arith Lia.
From V.C09 Require Import Analysis SetLemmas Spec.
Import ListNotations.

Lemma dup_or_nodup : forall l : list nat,
  NoDup l \/ exists a l1 l2 l3, l = l1 ++ a :: l2 ++ a :: l3.
Proof.
  induction l as [|a t IH].
  - left. constructor.
  - destruct (in_dec Nat.eq_dec a t) as [Hin|Hn].
    + right. apply in_split in Hin. destruct Hin as [l2 [l3 ->]]. exists a, [], l2, l3. reflexivity.
    + destruct IH as [Hnd|[b [l1 [l2 [l3 ->]]]]].
      * left. constructor; auto.
      * right. exists b, (a :: l1), l2, l3. reflexivity.
Qed.

Section Walks.
Variable n : nat.
Variable E : nat -> list nat.
Variable ok : nat -> Prop.

Definition okwalk (b : nat) (p : list nat) : Prop :=
  walk E b p /\ forall c, In c (b :: p) -> c < n /\ ok c.

Lemma walk_next : forall p b, walk E b p -> forall u c c' v, b :: p = u ++ c :: c' :: v -> In c' (E c).
Proof.
  induction p as [|b' p IH]; intros b Hw u c c' v Heq.
  - destruct u as [|h [|h' u]]; simpl in Heq; discriminate.
  - destruct Hw as [Hb' Hw]. destruct u as [|h u]; simpl in Heq.
    + injection Heq as -> -> _. exact Hb'.
    + injection Heq as _ Heq. eapply IH; eauto.
Qed.

(* a set of blocks closed under "has an ok successor inside" carries walks of every length *)
Lemma closed_walks : forall T : list nat,
  (forall c, In c T -> c < n /\ ok c /\ exists c', In c' T /\ In c' (E c)) ->
  forall k c, In c T -> exists p, length p = k /\ okwalk c p.
Proof.
  intros T HT. induction k as [|k IH]; intros c Hc.
  - exists []. split; auto. split; [exact I|]. intros c0 [<-|[]]. destruct (HT c Hc) as [? [? _]]. auto.
  - destruct (HT c Hc) as [Hcn [Hok [c' [Hc' He]]]]. destruct (IH c' Hc') as [p [Hl [Hw Hn]]].
    exists (c' :: p). split; [simpl; auto|]. split; [simpl; auto|].
    intros c0 [<-|Hin]; auto.
Qed.

Theorem pump : forall b p, okwalk b p -> n <= length p ->
  forall k, exists p', length p' = k /\ okwalk b p'.
Proof.
  intros b p [Hw Hn] Hlen k.
  destruct (dup_or_nodup (b :: p)) as [Hnd|[a [l1 [l2 [l3 Heq]]]]].
  - exfalso. assert (length (b :: p) <= n).
    { apply NoDup_bounded_length; auto. intros c Hc. apply Hn; auto. }
    simpl in H. lia.
  - set (T := l1 ++ a :: l2).
    assert (HL : b :: p = T ++ a :: l3).
    { rewrite Heq. unfold T. rewrite <- app_assoc. reflexivity. }
    assert (HaT : In a T) by (unfold T; apply in_or_app; right; left; auto).
    assert (HTsub : forall c, In c T -> In c (b :: p)).
    { intros c Hc. rewrite HL. apply in_or_app. auto. }
    assert (HbT : In b T).
    { destruct T as [|h T'] eqn:ET; [destruct HaT|]. simpl in HL. injection HL as -> _. left; auto. }
    apply (closed_walks T); auto.
    intros c Hc. destruct (Hn c (HTsub c Hc)) as [Hcn Hok]. split; auto. split; auto.
    apply in_split in Hc. destruct Hc as [t1 [t2 Ht]].
    destruct t2 as [|d t2].
    + exists a. split; auto. apply (walk_next p b Hw t1 c a l3). rewrite HL, Ht.
      rewrite <- app_assoc. reflexivity.
    + exists d. split.
      * rewrite Ht. apply in_or_app. right. right. left. auto.
      * apply (walk_next p b Hw t1 c d (t2 ++ a :: l3)). rewrite HL, Ht.
        rewrite <- app_assoc. reflexivity.
Qed.
End Walks.
