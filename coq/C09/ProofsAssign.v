(** V.C09.ProofsAssign — the assignment model (repaired re-queue) refines the abstract
    system of Generic.v with keys (component, variable): component [true] is
    "NOT definitely assigned after the block", component [false] is "maybe assigned after
    the block".  Termination, path characterisation of the returned vals_before. *)
From Coq Require Import List Bool Arith Lia.
From V.C09 Require Import Analysis SetLemmas Generic Spec ProofsLive.
Import ListNotations.

Lemma negb_forallb : forall (A : Type) (f : A -> bool) l,
  negb (forallb f l) = existsb (fun c => negb (f c)) l.
Proof. intros A f l. induction l as [|c t IH]; simpl; auto. rewrite negb_andb, IH. reflexivity. Qed.

Lemma forallb_map : forall (A B : Type) (h : A -> B) (f : B -> bool) l,
  forallb f (map h l) = forallb (fun c => f (h c)) l.
Proof. intros. induction l as [|c t IH]; simpl; auto. rewrite IH. reflexivity. Qed.

Lemma memb_joinD : forall AD AM D0 ps x,
  memb x (fst (ass_join AD AM D0 ps)) =
  match ps with [] => memb x D0 | _ => forallb (fun c => memb x (getv AD c)) ps end.
Proof.
  intros AD AM D0 [|p ps'] x; simpl; auto.
  rewrite memb_fold_inter, forallb_map. reflexivity.
Qed.

Lemma memb_joinM : forall AD AM D0 ps x,
  memb x (snd (ass_join AD AM D0 ps)) =
  match ps with [] => memb x D0 | _ => existsb (fun c => memb x (getv AM c)) ps end.
Proof.
  intros AD AM D0 [|p ps'] x; auto. unfold ass_join, snd. apply memb_flat_map.
Qed.

Lemma flat_map_ext_in' : forall (f h : nat -> list nat) l, (forall c, In c l -> f c = h c) ->
  flat_map f l = flat_map h l.
Proof.
  intros f h l. induction l as [|c t IH]; intros H; simpl; auto.
  rewrite (H c) by (left; auto). rewrite IH; auto. intros; apply H; right; auto.
Qed.

Lemma join_local : forall AD AM AD' AM' D0 ps,
  (forall c, In c ps -> getv AD c = getv AD' c /\ getv AM c = getv AM' c) ->
  ass_join AD AM D0 ps = ass_join AD' AM' D0 ps.
Proof.
  intros AD AM AD' AM' D0 [|p ps'] H; auto. unfold ass_join. f_equal.
  - destruct (H p (or_introl eq_refl)) as [-> _]. f_equal.
    apply map_ext_in. intros c Hc. apply H. right; auto.
  - apply flat_map_ext_in'. intros c Hc. apply H. auto.
Qed.

Section Ass.
Variable g : cfg.
Variables D0 M0 : list nat.
Hypothesis W : wf_cfg g = true.

Notation n := (nblocks g).
Definition aK := (bool * nat)%type.
Definition aN := flow_pred true g.
Definition aR := flow_succ true g.
Notation ALL := (all_vars g D0).
Definition agen (b : nat) (k : aK) : bool :=
  let (t, x) := k in if t then false else memb x (b_def (blk g b)).
Definition apass (b : nat) (k : aK) : bool :=
  let (t, x) := k in if t then negb (memb x (b_def (blk g b))) else true.
Definition abnd (k : aK) : bool := let (t, x) := k in if t then negb (memb x D0) else memb x D0.
Definition ahi (k : aK) : bool := let (t, x) := k in if t then negb (memb x ALL) else memb x M0.
Definition avars := ass_vars g D0 M0.
Definition akeys : list aK := map (pair true) avars ++ map (pair false) avars.

Lemma aK_eq_dec : forall a b : aK, {a = b} + {a <> b}.
Proof. decide equality; [apply Nat.eq_dec | apply bool_dec]. Qed.

Lemma akeys_In : forall t x, In x avars -> In (t, x) akeys.
Proof.
  intros t x H. unfold akeys. apply in_app_iff. destruct t; [left|right]; apply in_map; auto.
Qed.

Lemma def_sub_ALL : forall b x, b < n -> memb x (b_def (blk g b)) = true -> memb x ALL = true.
Proof.
  intros b x Hb H. apply memb_In. apply memb_In in H. unfold all_vars. apply in_app_iff. left.
  apply in_flat_map. exists (blk g b). split; auto. apply blk_In; auto.
Qed.
Lemma D0_sub_ALL : forall x, memb x D0 = true -> memb x ALL = true.
Proof. intros x H. unfold all_vars. rewrite memb_app, H. apply orb_true_r. Qed.
Lemma ALL_sub_vars : forall x, memb x ALL = true -> In x avars.
Proof. intros x H. unfold avars, ass_vars. apply in_app_iff. left. apply memb_In; auto. Qed.
Lemma M0_sub_vars : forall x, memb x M0 = true -> In x avars.
Proof. intros x H. unfold avars, ass_vars. apply in_app_iff. right. apply memb_In; auto. Qed.

Lemma aN_wf : forall b c, b < n -> In c (aN b) -> c < n.
Proof. intros b c _ H. apply inv_edges_In in H. tauto. Qed.
Lemma aR_wf : forall b c, b < n -> In c (aR b) -> c < n.
Proof. intros. eapply wf_succ_lt; eauto. Qed.
Lemma aRN : forall b c, b < n -> c < n -> In b (aN c) -> In c (aR b).
Proof. intros b c _ _ H. apply inv_edges_In in H. tauto. Qed.

Lemma aout_lo : forall k, ~ In k akeys -> ahi k = false ->
  abnd k = false /\ forall b, b < n -> agen b k = false.
Proof.
  intros [[|] x] Hk Hh; simpl in *.
  - exfalso. apply Hk, akeys_In, ALL_sub_vars. apply negb_false_iff; auto.
  - assert (HA : memb x ALL = false).
    { destruct (memb x ALL) eqn:E; auto. exfalso. apply Hk, akeys_In, ALL_sub_vars; auto. }
    split.
    + destruct (memb x D0) eqn:E; auto. apply D0_sub_ALL in E. congruence.
    + intros b Hb. destruct (memb x (b_def (blk g b))) eqn:E; auto.
      apply def_sub_ALL in E; auto. congruence.
Qed.

Lemma aout_hi : forall k, ~ In k akeys -> ahi k = true ->
  abnd k = true /\ forall b, b < n -> apass b k = true.
Proof.
  intros [[|] x] Hk Hh; simpl in *.
  - apply negb_true_iff in Hh. split.
    + destruct (memb x D0) eqn:E; auto. apply D0_sub_ALL in E. congruence.
    + intros b Hb. destruct (memb x (b_def (blk g b))) eqn:E; auto.
      apply def_sub_ALL in E; auto. congruence.
  - exfalso. apply Hk, akeys_In, M0_sub_vars; auto.
Qed.

Notation aF := (F aK aN agen apass abnd).
Notation aainv := (ainv aK n aN agen apass abnd ahi akeys).

Definition alphaA (AD AM : vals) : AV aK :=
  fun b k => let (t, x) := k in if t then negb (memb x (getv AD b)) else memb x (getv AM b).

Lemma join_F_D : forall AD AM b x,
  negb (memb x (fst (ass_join AD AM D0 (aN b)) ++ b_def (blk g b))) = aF (alphaA AD AM) b (true, x).
Proof.
  intros AD AM b x. unfold F, comb, agen, apass, abnd, alphaA. simpl.
  rewrite memb_app, negb_orb, memb_joinD, andb_comm. f_equal.
  destruct (aN b) as [|p ps]; [reflexivity | apply negb_forallb].
Qed.

Lemma join_F_M : forall AD AM b x,
  memb x (snd (ass_join AD AM D0 (aN b)) ++ b_def (blk g b)) = aF (alphaA AD AM) b (false, x).
Proof.
  intros AD AM b x. unfold F, comb, agen, apass, abnd, alphaA. simpl.
  rewrite memb_app, memb_joinM, orb_comm. f_equal; destruct (aN b) as [|p ps]; reflexivity.
Qed.

Definition bef_ok (s : fstate) : Prop :=
  forall b, b < n -> ~ In b (fq s) ->
    getv (befD s) b = fst (ass_join (aftD s) (aftM s) D0 (aN b)) /\
    getv (befM s) b = snd (ass_join (aftD s) (aftM s) D0 (aN b)).

Definition finv (s : fstate) : Prop :=
  length (befD s) = n /\ length (befM s) = n /\ length (aftD s) = n /\ length (aftM s) = n /\
  NoDup (fq s) /\ aainv (fq s) (alphaA (aftD s) (aftM s)) /\ bef_ok s.
Definition fmu (s : fstate) : nat :=
  phi aK n ahi akeys (alphaA (aftD s) (aftM s)) * (n + 1) + length (fq s).

(** the change test *)
Lemma test_true : forall AD AM b,
  let j := ass_join AD AM D0 (aN b) in
  set_eqb (fst j ++ b_def (blk g b)) (getv AD b) && set_eqb (snd j ++ b_def (blk g b)) (getv AM b) = true ->
  forall k, aF (alphaA AD AM) b k = alphaA AD AM b k.
Proof.
  intros AD AM b j H [[|] x]; apply andb_true_iff in H; destruct H as [H1 H2].
  - rewrite <- join_F_D. fold j. unfold alphaA. f_equal. apply set_eqb_true; auto.
  - rewrite <- join_F_M. fold j. unfold alphaA. apply set_eqb_true; auto.
Qed.

Lemma test_false : forall AD AM b,
  let j := ass_join AD AM D0 (aN b) in
  set_eqb (fst j ++ b_def (blk g b)) (getv AD b) && set_eqb (snd j ++ b_def (blk g b)) (getv AM b) = false ->
  exists k, aF (alphaA AD AM) b k <> alphaA AD AM b k.
Proof.
  intros AD AM b j H. apply andb_false_iff in H. destruct H as [H|H];
    apply set_eqb_false in H; destruct H as [x Hx].
  - exists (true, x). rewrite <- join_F_D. fold j. unfold alphaA.
    intro E. apply Hx. destruct (memb x (fst j ++ b_def (blk g b))), (memb x (getv AD b)); simpl in E; congruence.
  - exists (false, x). rewrite <- join_F_M. fold j. unfold alphaA. exact Hx.
Qed.

Lemma alphaA_setv : forall AD AM b ad am c k, length AD = n -> length AM = n -> b < n ->
  alphaA (setv AD b ad) (setv AM b am) c k =
  if Nat.eqb c b then alphaA (setv AD b ad) (setv AM b am) b k else alphaA AD AM c k.
Proof.
  intros AD AM b ad am c [t x] HD HM Hb. destruct (Nat.eqb c b) eqn:E.
  - apply Nat.eqb_eq in E. subst. reflexivity.
  - unfold alphaA. rewrite !getv_setv by lia. rewrite E. reflexivity.
Qed.

Lemma alphaA_setv_same : forall AD AM b k, length AD = n -> length AM = n -> b < n ->
  let j := ass_join AD AM D0 (aN b) in
  alphaA (setv AD b (fst j ++ b_def (blk g b))) (setv AM b (snd j ++ b_def (blk g b))) b k =
  aF (alphaA AD AM) b k.
Proof.
  intros AD AM b [[|] x] HD HM Hb j; unfold alphaA; rewrite getv_setv by lia; rewrite Nat.eqb_refl.
  - apply join_F_D.
  - apply join_F_M.
Qed.

Lemma ass_step_eq : forall b s,
  let j := ass_join (aftD s) (aftM s) D0 (aN b) in
  let ad := fst j ++ b_def (blk g b) in
  let am := snd j ++ b_def (blk g b) in
  ass_step Repaired g D0 b s =
  if set_eqb ad (getv (aftD s) b) && set_eqb am (getv (aftM s) b)
  then mkF (q_remove b (fq s)) (setv (befD s) b (fst j)) (setv (befM s) b (snd j)) (aftD s) (aftM s)
  else mkF (q_add (aR b) (q_remove b (fq s))) (setv (befD s) b (fst j)) (setv (befM s) b (snd j))
           (setv (aftD s) b ad) (setv (aftM s) b am).
Proof.
  intros b s. unfold ass_step. fold aN. destruct (ass_join (aftD s) (aftM s) D0 (aN b)) as [bd bm].
  reflexivity.
Qed.

Lemma ass_step_ok : forall s b, finv s -> In b (fq s) ->
  finv (ass_step Repaired g D0 b s) /\ fmu (ass_step Repaired g D0 b s) < fmu s.
Proof.
  intros s b (HbD & HbM & HaD & HaM & Hnd & HA & HB) Hb.
  assert (Hbn : b < n) by (eapply ai_q; eauto).
  rewrite ass_step_eq.
  set (j := ass_join (aftD s) (aftM s) D0 (aN b)).
  set (ad := fst j ++ b_def (blk g b)). set (am := snd j ++ b_def (blk g b)).
  destruct (set_eqb ad (getv (aftD s) b) && set_eqb am (getv (aftM s) b)) eqn:E.
  - (* no change *)
    pose proof (test_true _ _ _ E) as Hsame.
    assert (HA' : aainv (q_remove b (fq s)) (alphaA (aftD s) (aftM s))).
    { eapply astep_inv with (R := aR); eauto using aN_wf, aR_wf, aRN, aout_lo, aout_hi.
      apply as_same; auto. intros c. apply q_remove_In. }
    split.
    + unfold finv; simpl. rewrite !setv_length.
      split; [auto|]. split; [auto|]. split; [auto|]. split; [auto|].
      split; [apply q_remove_NoDup; auto|]. split; [exact HA'|].
      { intros c Hc Hnq. simpl in *. destruct (Nat.eq_dec c b) as [->|Hne].
        -- rewrite !getv_setv by lia. rewrite Nat.eqb_refl. auto.
        -- rewrite !getv_setv by lia. apply Nat.eqb_neq in Hne. rewrite Hne.
           apply HB; auto. intro Hq. apply Hnq. apply q_remove_In. split; auto.
           apply Nat.eqb_neq; auto. }
    + unfold fmu; simpl. pose proof (q_remove_length b (fq s) Hb). lia.
  - (* change *)
    pose proof (test_false _ _ _ E) as Hchg.
    assert (Hal : forall c k, alphaA (setv (aftD s) b ad) (setv (aftM s) b am) c k =
                  upd aK (alphaA (aftD s) (aftM s)) b (aF (alphaA (aftD s) (aftM s)) b) c k).
    { intros c k. rewrite alphaA_setv by auto. unfold upd. destruct (Nat.eqb c b); auto.
      apply alphaA_setv_same; auto. }
    assert (HA' : aainv (q_add (aR b) (q_remove b (fq s))) (alphaA (setv (aftD s) b ad) (setv (aftM s) b am))).
    { eapply astep_inv with (R := aR); eauto using aN_wf, aR_wf, aRN, aout_lo, aout_hi.
      apply as_chg; auto. intros c. rewrite q_add_In, q_remove_In. tauto. }
    split.
    + unfold finv; simpl. rewrite !setv_length.
      split; [auto|]. split; [auto|]. split; [auto|]. split; [auto|].
      split; [apply q_add_NoDup, q_remove_NoDup; auto|]. split; [exact HA'|].
      { intros c Hc Hnq. simpl in *.
        assert (HnR : ~ In c (aR b)) by (intro; apply Hnq, q_add_In; auto).
        assert (HnN : ~ In b (aN c)) by (intro; apply HnR, aRN; auto).
        assert (Hloc : ass_join (setv (aftD s) b ad) (setv (aftM s) b am) D0 (aN c) =
                       ass_join (aftD s) (aftM s) D0 (aN c)).
        { apply join_local. intros p Hp. rewrite !getv_setv by lia.
          destruct (Nat.eqb p b) eqn:Ep; auto. apply Nat.eqb_eq in Ep. subst. contradiction. }
        rewrite Hloc. destruct (Nat.eq_dec c b) as [->|Hne].
        -- rewrite !getv_setv by lia. rewrite Nat.eqb_refl. auto.
        -- rewrite !getv_setv by lia. apply Nat.eqb_neq in Hne. rewrite Hne.
           apply HB; auto. intro Hq. apply Hnq. apply q_add_In. right. apply q_remove_In. split; auto.
           apply Nat.eqb_neq; auto. }
    + unfold fmu; simpl.
      assert (Hphi : phi aK n ahi akeys (alphaA (setv (aftD s) b ad) (setv (aftM s) b am)) <
                     phi aK n ahi akeys (alphaA (aftD s) (aftM s))).
      { rewrite (phi_ext aK n ahi akeys _ _ Hal).
        eapply phi_dec; eauto using aN_wf, aout_lo, aout_hi, aK_eq_dec. }
      assert (Hlen : length (q_add (aR b) (q_remove b (fq s))) <= n).
      { apply NoDup_bounded_length; [apply q_add_NoDup, q_remove_NoDup; auto|].
        intros c Hc. eapply ai_q; eauto. }
      nia.
Qed.

(** initial state *)
Lemma init_alpha_D : forall b x, b < n ->
  alphaA (aftD (ass_init g D0 M0)) (aftM (ass_init g D0 M0)) b (true, x) = negb (memb x ALL).
Proof.
  intros b x Hb. unfold alphaA, ass_init. simpl.
  rewrite (getv_map block (fun bl => ALL ++ b_def bl) g empty_block b Hb). fold (blk g b).
  rewrite memb_app. destruct (memb x ALL) eqn:E; auto. simpl.
  destruct (memb x (b_def (blk g b))) eqn:E2; auto. apply def_sub_ALL in E2; auto. congruence.
Qed.

Lemma init_alpha_M : forall b x, b < n ->
  alphaA (aftD (ass_init g D0 M0)) (aftM (ass_init g D0 M0)) b (false, x) =
  memb x M0 || memb x (b_def (blk g b)).
Proof.
  intros b x Hb. unfold alphaA, ass_init. simpl.
  rewrite (getv_map block (fun bl => M0 ++ b_def bl) g empty_block b Hb). fold (blk g b).
  apply memb_app.
Qed.

Lemma init_fq : fq (ass_init g D0 M0) = seq 0 n.
Proof. reflexivity. Qed.

Lemma init_ainv : aainv (seq 0 n) (alphaA (aftD (ass_init g D0 M0)) (aftM (ass_init g D0 M0))).
Proof.
  split.
  - intros b Hb. apply in_seq in Hb. lia.
  - intros b [[|] x] Hb Hk.
    + rewrite init_alpha_D; auto.
    + rewrite init_alpha_M; auto. simpl.
      assert (HA : memb x ALL = false).
      { destruct (memb x ALL) eqn:E; auto. exfalso. apply Hk, akeys_In, ALL_sub_vars; auto. }
      destruct (memb x M0) eqn:E1; [exfalso; apply Hk, akeys_In, M0_sub_vars; auto|].
      destruct (memb x (b_def (blk g b))) eqn:E2; auto. apply def_sub_ALL in E2; auto. congruence.
  - intros b [[|] x] Hb Hh Hv.
    + rewrite init_alpha_D in Hv; auto. simpl in Hh. congruence.
    + rewrite init_alpha_M in Hv; auto. simpl in Hh. rewrite Hh in Hv. simpl in Hv.
      apply F_true. left. exact Hv.
  - intros b [[|] x] Hb Hh _.
    + rewrite init_alpha_D; auto.
    + rewrite init_alpha_M; auto. simpl in Hh. rewrite Hh. reflexivity.
  - intros b [[|] x] Hb Hh Hv.
    + rewrite init_alpha_D in Hv; auto. simpl in Hh. congruence.
    + rewrite init_alpha_M in Hv; auto. simpl in Hh. rewrite Hh in Hv. simpl in Hv.
      apply r_gen; auto.
  - intros b [[|] x] Hb Hh Hv.
    + rewrite init_alpha_D in Hv; auto. simpl in Hh. congruence.
    + rewrite init_alpha_M in Hv; auto. simpl in Hh. rewrite Hh in Hv. discriminate.
  - intros b Hb Hq. exfalso. apply Hq. apply in_seq. lia.
Qed.

Lemma ass_init_inv : finv (ass_init g D0 M0).
Proof.
  unfold finv. rewrite init_fq.
  split; [unfold ass_init; simpl; apply map_length|].
  split; [unfold ass_init; simpl; apply map_length|].
  split; [unfold ass_init; simpl; apply map_length|].
  split; [unfold ass_init; simpl; apply map_length|].
  split; [apply seq_NoDup|]. split; [apply init_ainv|].
  intros b Hb Hq. exfalso. apply Hq. rewrite init_fq. apply in_seq. lia.
Qed.

Lemma ass_init_mu : fmu (ass_init g D0 M0) < ass_fuel g D0 M0.
Proof.
  unfold fmu, ass_fuel, fuel_for.
  set (p := phi aK n ahi akeys (alphaA (aftD (ass_init g D0 M0)) (aftM (ass_init g D0 M0)))).
  assert (H : p <= n * length akeys) by apply phi_bound.
  assert (Hk : length akeys = 2 * length (ass_vars g D0 M0)).
  { unfold akeys, avars. rewrite app_length, !map_length. lia. }
  rewrite Hk in H.
  assert (H2 : p * (n + 1) <= (n * (2 * length (ass_vars g D0 M0))) * (n + 1)) by (apply Nat.mul_le_mono_r; exact H).
  unfold ass_init. simpl fq. rewrite seq_length. unfold nblocks in *. lia.
Qed.

(** spec predicates = generic reach / fail *)
Lemma reach_unass : forall x b, reach aK n aN agen apass abnd (true, x) b <-> unassigned_after g D0 x b.
Proof.
  intros x b. split; intros H.
  - induction H as [b Hb Hg|b Hb Hp HN Hbn|b c Hb Hp Hc Hr IH]; simpl in *.
    + discriminate.
    + apply ua_src; auto; apply memb_false; apply negb_true_iff; auto.
    + apply ua_step with c; auto. apply memb_false; apply negb_true_iff; auto.
  - induction H as [b Hb Hd HN HD|b p Hb Hd Hp Hu IH].
    + apply r_bnd; simpl; auto; apply negb_true_iff; apply memb_false; auto.
    + apply r_step with p; simpl; auto. apply negb_true_iff; apply memb_false; auto.
Qed.

Lemma reach_ass : forall x b, reach aK n aN agen apass abnd (false, x) b <-> assigned_after g D0 x b.
Proof.
  intros x b. split; intros H.
  - induction H as [b Hb Hg|b Hb Hp HN Hbn|b c Hb Hp Hc Hr IH]; simpl in *.
    + apply aa_def; auto. apply memb_In; auto.
    + apply aa_src; auto. apply memb_In; auto.
    + apply aa_step with c; auto.
  - induction H as [b Hb Hd|b Hb HN HD|b p Hb Hp Hu IH].
    + apply r_gen; simpl; auto. apply memb_In; auto.
    + apply r_bnd; simpl; auto. apply memb_In; auto.
    + apply r_step with p; simpl; auto.
Qed.

Lemma never_ind2 : forall (x : nat) (P : nat -> Prop),
  (forall b, b < n -> ~ In x (b_def (blk g b)) ->
     ((aN b = [] /\ ~ In x D0) \/
      (aN b <> [] /\ forall p, In p (aN b) -> never_assigned_after g D0 x p /\ P p)) -> P b) ->
  forall b, never_assigned_after g D0 x b -> P b.
Proof.
  intros x P H. fix IH 2. intros b Hd. destruct Hd as [b Hb Hu Hd].
  apply H; auto. destruct Hd as [?|[Hne Hall]]; auto.
  right. split; auto.
Qed.

Lemma fail_never : forall x b, fail aK n aN agen apass abnd (false, x) b <-> never_assigned_after g D0 x b.
Proof.
  intros x b. split; intros H.
  - induction H as [b Hb Hg Hd] using fail_ind2. simpl in *.
    apply na; auto. { apply memb_false; auto. }
    destruct Hd as [Hp|[[E Hbn]|[Hne Hall]]].
    + discriminate.
    + left. split; auto. apply memb_false; auto.
    + right. split; auto. intros p Hp. apply Hall; auto.
  - revert b H. apply (never_ind2 x (fun b => fail aK n aN agen apass abnd (false, x) b)).
    intros b Hb Hd Hc. apply f_intro; simpl; auto. { apply memb_false; auto. }
    destruct Hc as [[E HD]|[Hne Hall]].
    + right; left. split; auto. apply memb_false; auto.
    + right; right. split; auto. intros p Hp. apply Hall; auto.
Qed.

Lemma no_fail_outside : forall x b, memb x ALL = false -> ~ fail aK n aN agen apass abnd (true, x) b.
Proof.
  intros x b HA H. induction H as [b Hb Hg Hd] using fail_ind2. simpl in *.
  destruct Hd as [Hp|[[E Hbn]|[Hne Hall]]].
  - apply negb_false_iff in Hp. apply def_sub_ALL in Hp; auto. congruence.
  - apply negb_false_iff in Hbn. apply D0_sub_ALL in Hbn. congruence.
  - destruct (aN b) as [|p ps] eqn:E; [congruence|].
    destruct (Hall p (or_introl eq_refl)) as [_ []].
Qed.

(** the cached vals_after at an empty work list, in terms of the generic predicates *)
Lemma ass_after_char : forall s', sched_run (ass_step Repaired g D0) fq (ass_init g D0 M0) s' ->
  forall c k, c < n ->
    (ahi k = false -> (alphaA (aftD s') (aftM s') c k = true <-> reach aK n aN agen apass abnd k c)) /\
    (ahi k = true -> (alphaA (aftD s') (aftM s') c k = false <-> fail aK n aN agen apass abnd k c)).
Proof.
  intros s' Hrun c k Hc.
  destruct (sched_run_inv _ _ _ finv fmu ass_step_ok _ _ Hrun ass_init_inv)
    as [(_ & _ & _ & _ & _ & HA & _) Hq].
  rewrite Hq in HA.
  apply (terminal_char aK n aN agen apass abnd ahi akeys _ HA c k Hc).
Qed.

(** characterisation of the RETURNED vals_before at an empty work list *)
Theorem ass_terminal_char : forall s', sched_run (ass_step Repaired g D0) fq (ass_init g D0 M0) s' ->
  forall b x, b < n ->
    (In x (getv (befD s') b) <-> In x ALL /\ ~ unassigned_before g D0 x b) /\
    (~ In x M0 -> (In x (getv (befM s') b) <-> assigned_before g D0 x b)) /\
    (In x M0 -> (~ In x (getv (befM s') b) <-> never_assigned_before g D0 x b)).
Proof.
  intros s' Hrun b x Hb.
  unfold unassigned_before, assigned_before, never_assigned_before. fold aN.
  destruct (sched_run_inv _ _ _ finv fmu ass_step_ok _ _ Hrun ass_init_inv)
    as [(_ & _ & HaD & HaM & _ & HA & HB) Hq].
  rewrite Hq in HA.
  assert (HbefD : getv (befD s') b = fst (ass_join (aftD s') (aftM s') D0 (aN b)) /\
                  getv (befM s') b = snd (ass_join (aftD s') (aftM s') D0 (aN b))).
  { apply HB; auto. rewrite Hq. auto. }
  destruct HbefD as [HD HM].
  set (V := alphaA (aftD s') (aftM s')) in *.
  assert (TC := fun c k Hc => terminal_char aK n aN agen apass abnd ahi akeys V HA c k Hc).
  (* value of the D component after block c *)
  assert (VD : forall c, c < n -> memb x (getv (aftD s') c) = false <->
                 (memb x ALL = false \/ unassigned_after g D0 x c)).
  { intros c Hc. destruct (TC c (true, x) Hc) as [Hlo Hhi]. simpl in Hlo, Hhi.
    destruct (memb x ALL) eqn:EA; simpl in *.
    - rewrite <- reach_unass, <- (Hlo eq_refl). unfold V, alphaA. rewrite negb_true_iff.
      split; [auto | intros [?|?]; [discriminate | auto]].
    - split; [auto | intros _].
      destruct (memb x (getv (aftD s') c)) eqn:Em; auto. exfalso.
      apply (no_fail_outside x c EA). apply (Hhi eq_refl). reflexivity. }
  split; [|split].
  - (* definitely assigned *)
    rewrite <- (memb_In x (getv (befD s') b)), <- (memb_In x ALL). rewrite HD, memb_joinD.
    destruct (aN b) as [|p ps] eqn:EN.
    + split.
      * intros H. split; [apply D0_sub_ALL; auto|]. intros [[_ Hn]|[p [Hp _]]]; [apply Hn, memb_In; auto | destruct Hp].
      * intros [_ Hn]. destruct (memb x D0) eqn:E; auto. exfalso. apply Hn. left. split; auto.
        apply memb_false; auto.
    + rewrite <- EN. rewrite forallb_forall. split.
      * intros H. split.
        -- destruct (memb x ALL) eqn:EA; auto. exfalso.
           assert (Hp : In p (aN b)) by (rewrite EN; left; auto).
           pose proof (H p Hp) as Hm. assert (Hpn := aN_wf b p Hb Hp).
           destruct (VD p Hpn) as [_ Hback]. rewrite Hback in Hm; auto. discriminate.
        -- intros [[E _]|[q [Hq' Hu]]]; [congruence|].
           assert (Hqn := aN_wf b q Hb Hq'). destruct (VD q Hqn) as [_ Hback].
           specialize (H q Hq'). rewrite Hback in H; auto. discriminate.
      * intros [HAll Hn] q Hq'. destruct (memb x (getv (aftD s') q)) eqn:Em; auto. exfalso.
        assert (Hqn := aN_wf b q Hb Hq'). apply (VD q Hqn) in Em. destruct Em as [Em|Em]; [congruence|].
        apply Hn. right. exists q. auto.
  - (* maybe assigned, x not in M0 *)
    intros HM0. apply memb_false in HM0.
    rewrite <- (memb_In x (getv (befM s') b)). rewrite HM, memb_joinM.
    assert (VM : forall c, c < n -> memb x (getv (aftM s') c) = true <-> assigned_after g D0 x c).
    { intros c Hc. destruct (TC c (false, x) Hc) as [Hlo _]. simpl in Hlo.
      rewrite <- reach_ass. apply (Hlo HM0). }
    destruct (aN b) as [|p ps] eqn:EN.
    + rewrite memb_In. split; [intros H; left; auto | intros [[_ H]|[q [Hq' _]]]; [auto | destruct Hq']].
    + rewrite <- EN. rewrite existsb_exists. split.
      * intros [q [Hq' Hm]]. right. exists q. split; auto. apply VM; auto. eapply aN_wf; eauto.
      * intros [[E _]|[q [Hq' Ha]]]; [congruence|]. exists q. split; auto. apply VM; auto. eapply aN_wf; eauto.
  - (* maybe assigned, x in M0 *)
    intros HM0. apply memb_In in HM0.
    rewrite <- (memb_false x (getv (befM s') b)). rewrite HM, memb_joinM.
    assert (VM : forall c, c < n -> memb x (getv (aftM s') c) = false <-> never_assigned_after g D0 x c).
    { intros c Hc. destruct (TC c (false, x) Hc) as [_ Hhi]. simpl in Hhi.
      rewrite <- fail_never. apply (Hhi HM0). }
    destruct (aN b) as [|p ps] eqn:EN.
    + rewrite memb_false. split; [intros H; left; auto | intros [[_ H]|[E _]]; [auto | congruence]].
    + rewrite <- EN. split.
      * intros H. right. split; [rewrite EN; discriminate|]. intros q Hq'.
        apply VM; [eapply aN_wf; eauto|]. eapply existsb_false_all in H; eauto.
      * intros [[E _]|[_ Hall]]; [congruence|].
        destruct (existsb (fun c => memb x (getv (aftM s') c)) (aN b)) eqn:Ex; auto.
        apply existsb_exists in Ex. destruct Ex as [q [Hq' Hm]].
        assert (Hqn := aN_wf b q Hb Hq'). apply Hall, (VM q Hqn) in Hq'. congruence.
Qed.

Theorem ass_run_terminates : forall sched,
  fq (ass_run Repaired g D0 M0 sched) = [] /\
  sched_run (ass_step Repaired g D0) fq (ass_init g D0 M0) (ass_run Repaired g D0 M0 sched).
Proof.
  intros sched. unfold ass_run.
  apply (run_with_done _ _ _ finv fmu ass_step_ok); [apply ass_init_inv | apply ass_init_mu].
Qed.

End Ass.
