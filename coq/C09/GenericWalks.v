(** V.C09.GenericWalks — positive path form of the greatest solution of Generic.v:
    [~ fail k b  <->  reach k b  \/  a walk of n edges from b through passing blocks exists]
    (such a walk revisits a block, so it stands for an infinite one: Walks.pump). *)
From Coq Require Import List Bool Arith Lia.
From V.C09 Require Import Analysis SetLemmas Generic Spec Walks ProofsLive ProofsPaths.
Import ListNotations.

Section GW.
Variable K : Type.
Variable n : nat.
Variable N : nat -> list nat.
Variables gen pass : nat -> K -> bool.
Variable bnd : K -> bool.
Hypothesis N_wf : forall b c, b < n -> In c (N b) -> c < n.
Variable k : K.
Notation failk := (fail K n N gen pass bnd k).
Notation reachk := (reach K n N gen pass bnd k).
Hypothesis fail_dec : forall b, b < n -> failk b \/ ~ failk b.
Notation gw := (okwalk n N (fun c => pass c k = true)).

Lemma some_not_fail_or_all : forall l, (forall c, In c l -> c < n) ->
  (exists c, In c l /\ ~ failk c) \/ (forall c, In c l -> failk c).
Proof.
  induction l as [|c t IH]; intros Hl.
  - right. intros c [].
  - destruct (fail_dec c (Hl c (or_introl eq_refl))) as [Hd|Hnd].
    + destruct (IH (fun c' Hc' => Hl c' (or_intror Hc'))) as [[c' [Hc' Hn]]|Hall].
      * left. exists c'. split; [right; auto | auto].
      * right. intros c' [<-|Hc']; auto.
    + left. exists c. split; [left; auto | auto].
Qed.

Lemma not_fail_walk : forall j b, b < n -> ~ failk b ->
  reachk b \/ exists p, length p = j /\ gw b p.
Proof.
  induction j as [|j IH]; intros b Hb Hnf.
  - destruct (gen b k) eqn:Eg; [left; apply r_gen; auto|].
    destruct (pass b k) eqn:Ep.
    + right. exists []. split; auto. split; [exact I|]. intros c [<-|[]]. auto.
    + exfalso. apply Hnf. apply f_intro; auto.
  - destruct (gen b k) eqn:Eg; [left; apply r_gen; auto|].
    destruct (pass b k) eqn:Ep; [|exfalso; apply Hnf; apply f_intro; auto].
    assert (HN : N b = [] \/ N b <> []) by (destruct (N b); [left | right]; congruence).
    destruct HN as [HN|HN].
    + destruct (bnd k) eqn:Eb; [left; apply r_bnd; auto|].
      exfalso. apply Hnf. apply f_intro; auto.
    + destruct (some_not_fail_or_all (N b) (fun c Hc => N_wf b c Hb Hc)) as [[c [Hc Hn]]|Hall].
      * destruct (IH c (N_wf b c Hb Hc) Hn) as [Hr|[p [Hl [Hw Hnodes]]]].
        -- left. apply r_step with c; auto.
        -- right. exists (c :: p). split; [simpl; auto|]. split; [simpl; auto|].
           intros c' [<-|Hc']; auto.
      * exfalso. apply Hnf. apply f_intro; auto.
Qed.

Lemma fail_bounds : forall b, failk b -> exists J, forall p, gw b p -> length p < J.
Proof.
  apply (fail_ind2 K n N gen pass bnd k (fun b => exists J, forall p, gw b p -> length p < J)).
  intros b Hb Hg [Hp|[[EN Hbn]|[Hne Hall]]].
  - exists 0. intros p [_ Hn]. destruct (Hn b (or_introl eq_refl)) as [_ Hpass]. congruence.
  - exists 1. intros p [Hw _]. destruct p as [|c t]; simpl; [lia|].
    destruct Hw as [Hc _]. rewrite EN in Hc. destruct Hc.
  - destruct (list_bound (N b) (fun c J => forall p, gw c p -> length p < J)) as [J HJ].
    + intros c J J' H Hle p Hp. specialize (H p Hp). lia.
    + intros c Hc. destruct (Hall c Hc) as [_ HJc]. exact HJc.
    + exists (S J). intros p [Hw Hn]. destruct p as [|c t]; simpl; [lia|].
      destruct Hw as [Hc Hw]. assert (length t < J); [|lia].
      apply (HJ c Hc). split; auto. intros c' Hc'. apply Hn. right; auto.
Qed.

Theorem not_fail_iff : forall b, b < n ->
  (~ failk b <-> reachk b \/ exists p, length p = n /\ gw b p).
Proof.
  intros b Hb. split.
  - apply not_fail_walk; auto.
  - intros [Hr|[p [Hl Hw]]] Hf.
    + eapply reach_fail_excl; eauto.
    + destruct (fail_bounds b Hf) as [J HJ].
      destruct (pump n N _ b p Hw (Nat.eq_le_incl _ _ (eq_sym Hl)) J) as [p' [Hl' Hw']].
      specialize (HJ p' Hw'). lia.
Qed.
End GW.
