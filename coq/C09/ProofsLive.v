(** V.C09.ProofsLive — the liveness model (repaired re-queue) refines the abstract
    system of Generic.v; termination, path characterisation, order independence. *)
From Coq Require Import List Bool Arith Lia.
From V.C09 Require Import Analysis SetLemmas Generic Spec.
Import ListNotations.

Lemma blk_In : forall (g : cfg) b, b < nblocks g -> In (blk g b) g.
Proof. intros. unfold blk. apply nth_In. assumption. Qed.

Lemma wf_succ_lt : forall incl g b c, wf_cfg g = true -> b < nblocks g ->
  In c (flow_succ incl g b) -> c < nblocks g.
Proof.
  intros incl g b c W Hb Hc. unfold wf_cfg in W. rewrite forallb_forall in W.
  specialize (W _ (blk_In g b Hb)). rewrite forallb_forall in W.
  apply Nat.ltb_lt. apply W. unfold flow_succ in Hc. apply in_app_iff in Hc.
  apply in_app_iff. destruct Hc as [Hc|Hc]; auto. destruct incl; [auto | destruct Hc].
Qed.

Lemma inv_edges_In : forall n e b p, In p (inv_edges n e b) <-> p < n /\ In b (e p).
Proof.
  intros. unfold inv_edges. rewrite filter_In, in_seq, memb_In. intuition lia.
Qed.

Section Live.
Variable incl : bool.
Variable g : cfg.
Variable I : list nat.
Hypothesis W : wf_cfg g = true.

Notation n := (nblocks g).
Definition lN := flow_succ incl g.
Definition lR := flow_pred incl g.
Definition lgen (b x : nat) := memb x (b_use (blk g b)).
Definition lpass (b x : nat) := negb (memb x (b_def (blk g b))).
Definition lbnd (x : nat) := false.
Definition lhi (x : nat) := memb x I.
Definition lkeys := live_keys g I.

Lemma lN_wf : forall b c, b < n -> In c (lN b) -> c < n.
Proof. intros. eapply wf_succ_lt; eauto. Qed.
Lemma lR_wf : forall b c, b < n -> In c (lR b) -> c < n.
Proof. intros b c _ H. apply inv_edges_In in H. tauto. Qed.
Lemma lRN : forall b c, b < n -> c < n -> In b (lN c) -> In c (lR b).
Proof. intros. apply inv_edges_In. auto. Qed.
Lemma lout_lo : forall k, ~ In k lkeys -> lhi k = false ->
  lbnd k = false /\ forall b, b < n -> lgen b k = false.
Proof.
  intros k Hk _. split; auto. intros b Hb. unfold lgen. apply memb_false. intro Hin.
  apply Hk. unfold lkeys, live_keys. apply in_app_iff. right. apply in_flat_map.
  exists (blk g b). split; auto. apply blk_In; auto.
Qed.
Lemma lout_hi : forall k, ~ In k lkeys -> lhi k = true ->
  lbnd k = true /\ forall b, b < n -> lpass b k = true.
Proof.
  intros k Hk Hh. exfalso. apply Hk. unfold lkeys, live_keys. apply in_app_iff. left.
  apply memb_In. exact Hh.
Qed.

Notation lF := (F nat lN lgen lpass lbnd).
Notation lainv := (ainv nat n lN lgen lpass lbnd lhi lkeys).
Definition alpha (L : vals) : AV nat := fun b x => memb x (getv L b).

Lemma transfer_F : forall L b x,
  memb x (live_transfer g b (live_join L (flow_succ incl g b))) = lF (alpha L) b x.
Proof.
  intros L b x. unfold live_transfer, live_join, F, comb, lgen, lpass, lbnd, lN, alpha.
  rewrite memb_app, memb_diff, memb_flat_map. f_equal. rewrite andb_comm. f_equal.
  destruct (flow_succ incl g b); reflexivity.
Qed.

Definition linv (s : bstate) : Prop :=
  length (snd s) = n /\ NoDup (fst s) /\ lainv (fst s) (alpha (snd s)).
Definition lmu (s : bstate) : nat :=
  phi nat n lhi lkeys (alpha (snd s)) * (n + 1) + length (fst s).

Lemma live_step_astep : forall q L b, length L = n -> b < n ->
  astep nat lN lR lgen lpass lbnd b q (alpha L)
        (fst (live_step Repaired incl g b (q, L))) (alpha (snd (live_step Repaired incl g b (q, L)))).
Proof.
  intros q L b HL Hb. unfold live_step.
  set (v := live_transfer g b (live_join L (flow_succ incl g b))).
  destruct (set_eqb (getv L b) v) eqn:E; simpl.
  - apply as_same.
    + intros k. rewrite <- transfer_F. fold v. unfold alpha.
      symmetry. apply set_eqb_true. exact E.
    + intros c. apply q_remove_In.
    + reflexivity.
  - apply as_chg.
    + apply set_eqb_false in E. destruct E as [k Hk]. exists k.
      rewrite <- transfer_F. fold v. unfold alpha. congruence.
    + intros c. rewrite q_add_In, q_remove_In. unfold lR. tauto.
    + intros c k. unfold upd. rewrite <- transfer_F. fold v. unfold alpha.
      rewrite getv_setv by lia. destruct (Nat.eqb c b); auto.
Qed.

Lemma live_step_ok : forall s b, linv s -> In b (fst s) ->
  linv (live_step Repaired incl g b s) /\ lmu (live_step Repaired incl g b s) < lmu s.
Proof.
  intros [q L] b [HL [Hnd HA]] Hb. simpl in *.
  assert (Hbn : b < n) by (eapply ai_q; eauto).
  pose proof (live_step_astep q L b HL Hbn) as Hst.
  assert (HA' : lainv (fst (live_step Repaired incl g b (q, L)))
                      (alpha (snd (live_step Repaired incl g b (q, L))))).
  { eapply astep_inv; eauto using lN_wf, lR_wf, lRN, lout_lo, lout_hi. }
  unfold linv, lmu. unfold live_step in *.
  set (v := live_transfer g b (live_join L (flow_succ incl g b))) in *.
  destruct (set_eqb (getv L b) v) eqn:E; simpl in *.
  - split; [split; [auto | split; [apply q_remove_NoDup; auto | auto]] |].
    pose proof (q_remove_length b q Hb). lia.
  - split; [split; [rewrite setv_length; auto | split; [apply q_add_NoDup, q_remove_NoDup; auto | auto]] |].
    assert (Hphi : phi nat n lhi lkeys (alpha (setv L b v)) < phi nat n lhi lkeys (alpha L)).
    { rewrite (phi_ext nat n lhi lkeys (alpha (setv L b v)) (upd nat (alpha L) b (lF (alpha L) b))).
      - eapply phi_dec; eauto using lN_wf, lR_wf, lRN, lout_lo, lout_hi, Nat.eq_dec.
        apply set_eqb_false in E. destruct E as [k Hk]. exists k.
        rewrite <- transfer_F. fold v. unfold alpha. congruence.
      - intros c k. unfold upd. rewrite <- transfer_F. fold v. unfold alpha.
        rewrite getv_setv by lia. destruct (Nat.eqb c b); auto. }
    assert (Hlen : length (q_add (flow_pred incl g b) (q_remove b q)) <= n).
    { apply NoDup_bounded_length; [apply q_add_NoDup, q_remove_NoDup; auto|].
      intros c Hc. eapply ai_q; eauto. }
    nia.
Qed.

Lemma getv_init : forall b, b < n -> getv (map (fun _ : block => I) g) b = I.
Proof. intros b Hb. rewrite (getv_map block (fun _ => I) g empty_block b Hb). reflexivity. Qed.

Lemma live_init_inv : linv (live_init g I).
Proof.
  unfold linv, live_init. simpl. split; [apply map_length | split; [apply seq_NoDup|]].
  split.
  - intros b Hb. apply in_seq in Hb. lia.
  - intros b k Hb _. unfold alpha. rewrite getv_init; auto.
  - intros b k Hb Hh Hv. unfold alpha in Hv. rewrite getv_init in Hv; auto. unfold lhi in Hh. congruence.
  - intros b k Hb Hh _. unfold alpha. rewrite getv_init; auto.
  - intros b k Hb Hh Hv. unfold alpha in Hv. rewrite getv_init in Hv; auto. unfold lhi in Hh. congruence.
  - intros b k Hb Hh Hv. unfold alpha in Hv. rewrite getv_init in Hv; auto. unfold lhi in Hh. congruence.
  - intros b Hb Hq. exfalso. apply Hq. apply in_seq. lia.
Qed.

Lemma live_init_mu : lmu (live_init g I) < live_fuel g I.
Proof.
  unfold lmu, live_init, live_fuel, fuel_for. simpl fst. simpl snd. rewrite seq_length.
  pose proof (phi_bound nat n lhi lkeys (alpha (map (fun _ : block => I) g))) as H.
  unfold lkeys in H.
  set (p := phi nat n lhi lkeys (alpha (map (fun _ : block => I) g))) in *.
  assert (H2 : p * (n + 1) <= (n * length (live_keys g I)) * (n + 1)) by (apply Nat.mul_le_mono_r; exact H).
  unfold nblocks in *. lia.
Qed.

(** spec predicates = generic reach / fail *)
Lemma reach_live : forall x b, reach nat n lN lgen lpass lbnd x b <-> live_on_path incl g x b.
Proof.
  intros x b. split; intros H.
  - induction H as [b Hb Hg|b Hb Hp HN Hbn|b c Hb Hp Hc Hr IH].
    + apply lp_use; auto. apply memb_In; auto.
    + discriminate.
    + apply lp_step with c; auto. unfold lpass in Hp. apply negb_true_iff in Hp. apply memb_false; auto.
  - induction H as [b Hb Hu|b c Hb Hd Hc Hl IH].
    + apply r_gen; auto. apply memb_In; auto.
    + apply r_step with c; auto. unfold lpass. apply negb_true_iff, memb_false; auto.
Qed.

Lemma dead_ind2 : forall (x : nat) (P : nat -> Prop),
  (forall b, b < n -> ~ In x (b_use (blk g b)) ->
     (In x (b_def (blk g b)) \/
      (forall c, In c (flow_succ incl g b) -> dead_on_all_paths incl g x c /\ P c)) -> P b) ->
  forall b, dead_on_all_paths incl g x b -> P b.
Proof.
  intros x P H. fix IH 2. intros b Hd. destruct Hd as [b Hb Hu Hd].
  apply H; auto. destruct Hd as [?|Hall]; auto.
Qed.

Lemma fail_live : forall x b, fail nat n lN lgen lpass lbnd x b <-> dead_on_all_paths incl g x b.
Proof.
  intros x b. split; intros H.
  - induction H as [b Hb Hg Hd] using fail_ind2.
    apply dp; auto. { apply memb_false; auto. }
    destruct Hd as [Hp|[[E _]|[_ Hall]]].
    + left. unfold lpass in Hp. apply negb_false_iff in Hp. apply memb_In; auto.
    + right. intros c Hc. unfold lN in E. rewrite E in Hc. destruct Hc.
    + right. intros c Hc. apply Hall; auto.
  - revert b H. apply (dead_ind2 x (fun b => fail nat n lN lgen lpass lbnd x b)). intros b Hb Hu Hd.
    apply f_intro; auto. { apply memb_false; auto. }
    destruct Hd as [Hd|Hall].
    + left. unfold lpass. apply negb_false_iff, memb_In; auto.
    + right. destruct (lN b) as [|c0 l] eqn:E.
      * left; auto.
      * right. split; [discriminate|]. intros c Hc. apply Hall. unfold lN in E. rewrite E. auto.
Qed.

(** main results *)
Theorem live_terminal_char : forall s', sched_run (live_step Repaired incl g) fst (live_init g I) s' ->
  forall b x, b < n ->
    (~ In x I -> (In x (getv (snd s') b) <-> live_on_path incl g x b)) /\
    (In x I -> (~ In x (getv (snd s') b) <-> dead_on_all_paths incl g x b)).
Proof.
  intros s' Hrun b x Hb.
  destruct (sched_run_inv _ _ _ linv lmu live_step_ok _ _ Hrun live_init_inv) as [[HL [_ HA]] Hq].
  rewrite Hq in HA.
  destruct (terminal_char nat n lN lgen lpass lbnd lhi lkeys _ HA b x Hb) as [Hlo Hhi].
  split; intros HI.
  - rewrite <- reach_live, <- Hlo; [|apply memb_false; auto]. unfold alpha. symmetry. apply memb_In.
  - rewrite <- fail_live, <- Hhi; [|apply memb_In; auto]. unfold alpha. symmetry. apply memb_false.
Qed.

Theorem live_run_terminates : forall sched,
  fst (live_run Repaired incl g I sched) = [] /\
  sched_run (live_step Repaired incl g) fst (live_init g I) (live_run Repaired incl g I sched).
Proof.
  intros sched. unfold live_run.
  apply (run_with_done _ _ _ linv lmu live_step_ok); [apply live_init_inv | apply live_init_mu].
Qed.

Theorem live_pops_wf :
  Acc (fun s2 s1 => linv s1 /\ exists b, In b (fst s1) /\ s2 = live_step Repaired incl g b s1) (live_init g I).
Proof. apply (pops_wf _ _ _ linv lmu live_step_ok). apply live_init_inv. Qed.

End Live.
