(** V.C09.Generic — abstract chaotic iteration of a separable boolean dataflow system.

    Both analyses of cfg/analysis.py are, per key (a variable, or a (component, variable)
    pair), a boolean equation system on the blocks of a finite graph

        X b  =  gen b k  ||  (pass b k  &&  (if N b = [] then bnd k else  OR_{c in N b} X c))

    iterated from below (keys with [hi k = false]) or from above ([hi k = true]).
    [N b] are the blocks whose value block [b] reads; [R b] the blocks that are re-queued
    when the value of [b] changes.  The only thing required of [R] is [RN]: every reader of
    [b] is re-queued.  This is exactly what the code in /repo gets wrong for dummy edges.

    This file proves, for ANY sequence of pops:
      - the invariant [ainv] is preserved by a worklist step ([astep_inv]);
      - when the worklist is empty the value is the path-based solution ([terminal_char]):
        from below  X b  <->  reach k b   (a finite N-path to a generator / boundary),
        from above  ~X b <->  fail k b    (every N-path dies: well-founded);
      - the potential [phi] strictly decreases whenever a value changes ([phi_dec]). *)
From Coq Require Import List Bool Arith Lia.
Import ListNotations.

Section Generic.
Variable K : Type.
Variable K_eq_dec : forall a b : K, {a = b} + {a <> b}.
Variable n : nat.
Variables N R : nat -> list nat.
Variables gen pass : nat -> K -> bool.
Variable bnd : K -> bool.
Variable hi : K -> bool.
Variable keys : list K.

Hypothesis N_wf : forall b c, b < n -> In c (N b) -> c < n.
Hypothesis R_wf : forall b c, b < n -> In c (R b) -> c < n.
Hypothesis RN : forall b c, b < n -> c < n -> In b (N c) -> In c (R b).
Hypothesis out_lo : forall k, ~ In k keys -> hi k = false ->
  bnd k = false /\ forall b, b < n -> gen b k = false.
Hypothesis out_hi : forall k, ~ In k keys -> hi k = true ->
  bnd k = true /\ forall b, b < n -> pass b k = true.

Definition AV := nat -> K -> bool.

Definition comb (V : AV) b k : bool :=
  match N b with [] => bnd k | _ => existsb (fun c => V c k) (N b) end.
Definition F (V : AV) b k : bool := gen b k || (pass b k && comb V b k).

(** path-based solutions *)
Inductive reach (k : K) : nat -> Prop :=
| r_gen b : b < n -> gen b k = true -> reach k b
| r_bnd b : b < n -> pass b k = true -> N b = [] -> bnd k = true -> reach k b
| r_step b c : b < n -> pass b k = true -> In c (N b) -> reach k c -> reach k b.

Inductive fail (k : K) : nat -> Prop :=
| f_intro b : b < n -> gen b k = false ->
    (pass b k = false \/ (N b = [] /\ bnd k = false) \/
     (N b <> [] /\ forall c, In c (N b) -> fail k c)) -> fail k b.

Lemma reach_fail_excl : forall k b, reach k b -> fail k b -> False.
Proof.
  intros k b Hr. induction Hr as [b Hb Hg|b Hb Hp HN Hbn|b c Hb Hp Hc Hr IH]; intros Hf;
    destruct Hf as [b Hb' Hg' Hd].
  - congruence.
  - destruct Hd as [?|[[? ?]|[? ?]]]; congruence.
  - destruct Hd as [?|[[E ?]|[? Hall]]]; try congruence.
    + rewrite E in Hc. destruct Hc.
    + eauto.
Qed.

Lemma comb_true : forall V b k, comb V b k = true <->
  (N b = [] /\ bnd k = true) \/ (exists c, In c (N b) /\ V c k = true).
Proof.
  intros V b k. unfold comb. destruct (N b) as [|c0 l] eqn:E.
  - split; [intros; left; auto | intros [[_ H]|[c [[] _]]]; auto].
  - rewrite existsb_exists. split.
    + intros H; right; exact H.
    + intros [[H _]|H]; [discriminate | exact H].
Qed.

Lemma F_true : forall V b k, F V b k = true <->
  gen b k = true \/ (pass b k = true /\
     ((N b = [] /\ bnd k = true) \/ exists c, In c (N b) /\ V c k = true)).
Proof.
  intros. unfold F. rewrite orb_true_iff, andb_true_iff, comb_true. tauto.
Qed.

Lemma F_local : forall V W b k, (forall c, In c (N b) -> V c k = W c k) -> F V b k = F W b k.
Proof.
  intros V W b k H. unfold F, comb. f_equal. f_equal.
  destruct (N b) as [|c0 l] eqn:E; [reflexivity|].
  rewrite <- E in *. clear E.
  induction (N b) as [|c t IH]; simpl; [reflexivity|].
  rewrite H by (left; reflexivity). f_equal. apply IH. intros; apply H; right; assumption.
Qed.

Lemma F_ext : forall V W b k, (forall c k, V c k = W c k) -> F V b k = F W b k.
Proof. intros. apply F_local. intros; auto. Qed.

Lemma F_mono : forall V W b k, b < n ->
  (forall c, c < n -> V c k = true -> W c k = true) -> F V b k = true -> F W b k = true.
Proof.
  intros V W b k Hb H. rewrite !F_true. intros [?|[? [?|[c [Hc Hv]]]]]; auto.
  right; split; auto. right. exists c; split; auto. apply H; auto. eapply N_wf; eauto.
Qed.

Lemma F_reach : forall V b k, b < n ->
  (forall c, c < n -> V c k = true -> reach k c) -> F V b k = true -> reach k b.
Proof.
  intros V b k Hb H. rewrite F_true. intros [?|[? [[? ?]|[c [Hc Hv]]]]].
  - apply r_gen; auto.
  - apply r_bnd; auto.
  - apply r_step with c; auto. apply H; auto. eapply N_wf; eauto.
Qed.

Lemma existsb_false_all : forall (f : nat -> bool) l, existsb f l = false -> forall c, In c l -> f c = false.
Proof.
  intros f l H c Hc. destruct (f c) eqn:E; auto.
  assert (existsb f l = true) by (apply existsb_exists; eauto). congruence.
Qed.

Lemma F_fail : forall V b k, b < n ->
  (forall c, c < n -> V c k = false -> fail k c) -> F V b k = false -> fail k b.
Proof.
  intros V b k Hb H HF. unfold F in HF. apply orb_false_iff in HF. destruct HF as [Hg Hp].
  apply f_intro; auto. apply andb_false_iff in Hp. destruct Hp as [Hp|Hc]; auto.
  right. unfold comb in Hc. destruct (N b) as [|c0 l] eqn:E; auto.
  right. split; [discriminate|]. intros c Hin. apply H.
  - eapply N_wf; eauto. rewrite E; auto.
  - eapply existsb_false_all in Hc; eauto.
Qed.

Lemma fix_reach : forall V k, (forall b, b < n -> V b k = F V b k) ->
  forall b, reach k b -> V b k = true.
Proof.
  intros V k Hfix b Hr. induction Hr; rewrite Hfix by auto; apply F_true; auto.
  right; split; auto. right; eauto.
Qed.

(* fail has a nested (forall c) premise: write the induction principle by hand *)
Lemma fail_ind2 : forall (k : K) (P : nat -> Prop),
  (forall b, b < n -> gen b k = false ->
     (pass b k = false \/ (N b = [] /\ bnd k = false) \/
      (N b <> [] /\ forall c, In c (N b) -> fail k c /\ P c)) -> P b) ->
  forall b, fail k b -> P b.
Proof.
  intros k P H. fix IH 2. intros b Hf. destruct Hf as [b Hb Hg Hd].
  apply H; auto. destruct Hd as [?|[?|[Hne Hall]]]; auto.
  right; right. split; auto.
Qed.

Lemma fix_fail : forall V k, (forall b, b < n -> V b k = F V b k) ->
  forall b, fail k b -> V b k = false.
Proof.
  intros V k Hfix b Hf. induction Hf as [b Hb Hg Hd] using fail_ind2.
  rewrite Hfix by auto. unfold F. rewrite Hg. simpl.
  destruct Hd as [Hp|[[E Hbn]|[Hne Hall]]].
  - rewrite Hp. reflexivity.
  - unfold comb. rewrite E, Hbn. apply andb_false_r.
  - apply andb_false_iff. right. unfold comb. destruct (N b) as [|c0 l] eqn:E; [congruence|].
    rewrite <- E in *. destruct (existsb (fun c => V c k) (N b)) eqn:Ex; auto.
    apply existsb_exists in Ex. destruct Ex as [c [Hc Hv]]. destruct (Hall c Hc) as [_ Hc']. congruence.
Qed.

(** the worklist step, specified up to the membership of the queue and the pointwise
    value of the state *)
Definition upd (V : AV) b (v : K -> bool) : AV := fun c k => if Nat.eqb c b then v k else V c k.

Inductive astep (b : nat) (q : list nat) (V : AV) (q' : list nat) (V' : AV) : Prop :=
| as_same : (forall k, F V b k = V b k) ->
            (forall c, In c q' <-> In c q /\ c <> b) ->
            (forall c k, V' c k = V c k) -> astep b q V q' V'
| as_chg : (exists k, F V b k <> V b k) ->
           (forall c, In c q' <-> (In c q /\ c <> b) \/ In c (R b)) ->
           (forall c k, V' c k = upd V b (F V b) c k) -> astep b q V q' V'.

Record ainv (q : list nat) (V : AV) : Prop := {
  ai_q : forall b, In b q -> b < n;
  ai_out : forall b k, b < n -> ~ In k keys -> V b k = hi k;
  ai_lo_mono : forall b k, b < n -> hi k = false -> V b k = true -> F V b k = true;
  ai_hi_mono : forall b k, b < n -> hi k = true -> F V b k = true -> V b k = true;
  ai_lo_sound : forall b k, b < n -> hi k = false -> V b k = true -> reach k b;
  ai_hi_sound : forall b k, b < n -> hi k = true -> V b k = false -> fail k b;
  ai_fix : forall b, b < n -> ~ In b q -> forall k, V b k = F V b k }.

Lemma ainv_ext : forall q q' V V', (forall c, In c q' <-> In c q) -> (forall c k, V' c k = V c k) ->
  ainv q V -> ainv q' V'.
Proof.
  intros q q' V V' Hq HV [A1 A2 A3 A4 A5 A6 A7].
  assert (HF : forall b k, F V' b k = F V b k) by (intros; apply F_ext; auto).
  split; intros.
  - apply A1, Hq; auto.
  - rewrite HV; auto.
  - rewrite HF. rewrite HV in *. auto.
  - rewrite HF in *. rewrite HV. auto.
  - rewrite HV in *; auto.
  - rewrite HV in *; auto.
  - rewrite HF, HV. apply A7; auto. rewrite <- Hq; auto.
Qed.

Lemma F_out : forall q V b k, ainv q V -> b < n -> ~ In k keys -> F V b k = hi k.
Proof.
  intros q V b k A Hb Hk. destruct (hi k) eqn:Hh.
  - destruct (out_hi k Hk Hh) as [Hbn Hp]. apply F_true. right. split; auto.
    destruct (N b) as [|c0 l] eqn:E; [left; auto|]. right. exists c0. split; [left; auto|].
    rewrite (ai_out _ _ A); auto. apply (N_wf b); auto. rewrite E; left; auto.
  - destruct (out_lo k Hk Hh) as [Hbn Hg]. unfold F. rewrite Hg by auto. simpl.
    apply andb_false_iff. right. unfold comb. destruct (N b) as [|c0 l] eqn:E; auto.
    rewrite <- E. destruct (existsb (fun c => V c k) (N b)) eqn:Ex; auto.
    apply existsb_exists in Ex. destruct Ex as [c [Hc Hv]].
    rewrite (ai_out _ _ A) in Hv; auto; [congruence|]. eapply N_wf; eauto.
Qed.

Lemma upd_same : forall V b v k, upd V b v b k = v k.
Proof. intros. unfold upd. rewrite Nat.eqb_refl. reflexivity. Qed.
Lemma upd_other : forall V b v c k, c <> b -> upd V b v c k = V c k.
Proof. intros. unfold upd. apply Nat.eqb_neq in H. rewrite H. reflexivity. Qed.

Lemma ainv_upd : forall q q' V b, ainv q V -> In b q ->
  (forall c, In c q' <-> (In c q /\ c <> b) \/ In c (R b)) ->
  ainv q' (upd V b (F V b)).
Proof.
  intros q q' V b A Hbq Hq'. pose proof (ai_q _ _ A b Hbq) as Hb.
  set (W := upd V b (F V b)).
  assert (Wlo : forall c k, c < n -> hi k = false -> V c k = true -> W c k = true).
  { intros c k Hc Hh Hv. unfold W. destruct (Nat.eq_dec c b) as [->|Hne].
    - rewrite upd_same. eapply ai_lo_mono; eauto.
    - rewrite upd_other; auto. }
  assert (Whi : forall c k, c < n -> hi k = true -> W c k = true -> V c k = true).
  { intros c k Hc Hh Hv. unfold W in Hv. destruct (Nat.eq_dec c b) as [->|Hne].
    - rewrite upd_same in Hv. eapply ai_hi_mono; eauto.
    - rewrite upd_other in Hv; auto. }
  split.
  - intros c Hc. apply Hq' in Hc. destruct Hc as [[Hc _]|Hc]; [eapply ai_q; eauto | eapply R_wf; eauto].
  - intros c k Hc Hk. unfold W. destruct (Nat.eq_dec c b) as [->|Hne].
    + rewrite upd_same. eapply F_out; eauto.
    + rewrite upd_other; auto. eapply ai_out; eauto.
  - intros c k Hc Hh Hv. destruct (Nat.eq_dec c b) as [->|Hne].
    + unfold W in Hv. rewrite upd_same in Hv. apply F_mono with (V := V); auto.
    + unfold W in Hv. rewrite upd_other in Hv; auto.
      apply F_mono with (V := V); auto. eapply ai_lo_mono; eauto.
  - intros c k Hc Hh Hv.
    assert (HFV : F V c k = true) by (apply F_mono with (V := W); auto).
    unfold W. destruct (Nat.eq_dec c b) as [->|Hne].
    + rewrite upd_same. auto.
    + rewrite upd_other; auto. eapply ai_hi_mono; eauto.
  - intros c k Hc Hh Hv. unfold W in Hv. destruct (Nat.eq_dec c b) as [->|Hne].
    + rewrite upd_same in Hv. eapply F_reach; eauto. intros; eapply ai_lo_sound; eauto.
    + rewrite upd_other in Hv; auto. eapply ai_lo_sound; eauto.
  - intros c k Hc Hh Hv. unfold W in Hv. destruct (Nat.eq_dec c b) as [->|Hne].
    + rewrite upd_same in Hv. eapply F_fail; eauto. intros; eapply ai_hi_sound; eauto.
    + rewrite upd_other in Hv; auto. eapply ai_hi_sound; eauto.
  - intros c Hc Hnq k.
    assert (HnR : ~ In c (R b)) by (intro; apply Hnq, Hq'; auto).
    assert (HnN : ~ In b (N c)) by (intro; apply HnR, RN; auto).
    assert (HFW : F W c k = F V c k).
    { apply F_local. intros c' Hc'. unfold W. rewrite upd_other; auto. intro; subst; auto. }
    rewrite HFW. unfold W. destruct (Nat.eq_dec c b) as [->|Hne].
    + rewrite upd_same. reflexivity.
    + rewrite upd_other; auto. eapply ai_fix; eauto. intro Hcq. apply Hnq, Hq'. auto.
Qed.

Theorem astep_inv : forall b q V q' V', ainv q V -> In b q -> astep b q V q' V' -> ainv q' V'.
Proof.
  intros b q V q' V' A Hbq [Hsame Hq' HV' | Hchg Hq' HV'].
  - pose proof (ai_q _ _ A b Hbq) as Hb.
    apply ainv_ext with (q := q') (V := V); auto; [tauto|].
    destruct A as [A1 A2 A3 A4 A5 A6 A7]. split; auto.
    + intros c Hc. apply Hq' in Hc. apply A1; tauto.
    + intros c Hc Hnq k. destruct (Nat.eq_dec c b) as [->|Hne].
      * symmetry; apply Hsame.
      * apply A7; auto. intro. apply Hnq, Hq'. auto.
  - apply ainv_ext with (q := q') (V := upd V b (F V b)); auto; [tauto|].
    eapply ainv_upd; eauto.
Qed.

Theorem terminal_char : forall V, ainv [] V -> forall b k, b < n ->
  (hi k = false -> (V b k = true <-> reach k b)) /\
  (hi k = true -> (V b k = false <-> fail k b)).
Proof.
  intros V A b k Hb.
  assert (Hfix : forall b, b < n -> V b k = F V b k) by (intros; eapply ai_fix; eauto).
  split; intros Hh; split; intros H.
  - eapply ai_lo_sound; eauto.
  - eapply fix_reach; eauto.
  - eapply ai_hi_sound; eauto.
  - eapply fix_fail; eauto.
Qed.

(** potential *)
Definition bad (V : AV) b k : bool := if hi k then V b k else negb (V b k).
Definition phi_b (V : AV) b : nat := length (filter (bad V b) keys).
Definition phi (V : AV) : nat := list_sum (map (phi_b V) (seq 0 n)).

Lemma filter_ext_len : forall (f g : K -> bool) l, (forall x, In x l -> f x = g x) ->
  length (filter f l) = length (filter g l).
Proof.
  intros f g l H. rewrite (filter_ext_in f g l H). reflexivity.
Qed.

Lemma phi_ext : forall V W, (forall c k, V c k = W c k) -> phi V = phi W.
Proof.
  intros V W H. unfold phi. f_equal. apply map_ext. intros b. unfold phi_b.
  apply filter_ext_len. intros. unfold bad. rewrite H. reflexivity.
Qed.

Lemma filter_len_le : forall (f g : K -> bool) l, (forall x, In x l -> f x = true -> g x = true) ->
  length (filter f l) <= length (filter g l).
Proof.
  intros f g l. induction l as [|x t IH]; intros H; simpl; auto.
  assert (IH' := IH (fun y Hy => H y (or_intror Hy))).
  destruct (f x) eqn:Ef.
  - rewrite (H x (or_introl eq_refl) Ef). simpl. lia.
  - destruct (g x); simpl; lia.
Qed.

Lemma filter_len_lt : forall (f g : K -> bool) l, (forall x, In x l -> f x = true -> g x = true) ->
  (exists x, In x l /\ f x = false /\ g x = true) ->
  length (filter f l) < length (filter g l).
Proof.
  intros f g l. induction l as [|x t IH]; intros H [y [Hy [Hf Hg]]]; [destruct Hy|].
  assert (Hle := filter_len_le f g t (fun z Hz => H z (or_intror Hz))).
  simpl. destruct Hy as [->|Hy].
  - rewrite Hf, Hg. simpl. lia.
  - assert (IH' := IH (fun z Hz => H z (or_intror Hz)) (ex_intro _ y (conj Hy (conj Hf Hg)))).
    destruct (f x) eqn:Ef.
    + rewrite (H x (or_introl eq_refl) Ef). simpl. lia.
    + destruct (g x); simpl; lia.
Qed.

Lemma sum_seq_lt : forall (f g : nat -> nat) m b s, s <= b < s + m ->
  (forall c, c <> b -> f c = g c) -> f b < g b ->
  list_sum (map f (seq s m)) < list_sum (map g (seq s m)).
Proof.
  intros f g m. induction m as [|m IH]; intros b s Hb Hne Hlt; [lia|].
  simpl. destruct (Nat.eq_dec s b) as [->|Hsb].
  - assert (E : map f (seq (S b) m) = map g (seq (S b) m)).
    { apply map_ext_in. intros c Hc. apply in_seq in Hc. apply Hne. lia. }
    rewrite E. lia.
  - rewrite (Hne s Hsb). assert (IH' : list_sum (map f (seq (S s) m)) < list_sum (map g (seq (S s) m))).
    { apply IH with (b := b); auto. lia. }
    lia.
Qed.

Theorem phi_dec : forall q V b, ainv q V -> b < n -> (exists k, F V b k <> V b k) ->
  phi (upd V b (F V b)) < phi V.
Proof.
  intros q V b A Hb [k Hk]. unfold phi. apply sum_seq_lt with (b := b); [lia| |].
  - intros c Hc. unfold phi_b. apply filter_ext_len. intros. unfold bad. rewrite upd_other; auto.
  - unfold phi_b. apply filter_len_lt.
    + intros x _. unfold bad. rewrite upd_same. destruct (hi x) eqn:Hh.
      * eapply ai_hi_mono; eauto.
      * intros HF. destruct (V b x) eqn:Hv; auto.
        erewrite ai_lo_mono in HF; eauto.
    + exists k. assert (Hin : In k keys).
      { destruct (in_dec K_eq_dec k keys) as [|Hn]; auto.
        exfalso. apply Hk. rewrite (F_out _ _ _ _ A Hb Hn). symmetry. eapply ai_out; eauto. }
      split; auto. unfold bad. rewrite upd_same. destruct (hi k) eqn:Hh.
      * destruct (F V b k) eqn:HF.
        -- exfalso. apply Hk. symmetry. eapply ai_hi_mono; eauto.
        -- destruct (V b k); try congruence; auto.
      * destruct (V b k) eqn:Hv.
        -- exfalso. apply Hk. eapply ai_lo_mono; eauto.
        -- destruct (F V b k); try congruence; auto.
Qed.

Lemma filter_len_bound : forall (f : K -> bool) l, length (filter f l) <= length l.
Proof. intros f l. induction l as [|x t IHt]; simpl; auto. destruct (f x); simpl; lia. Qed.

Lemma phi_bound : forall V, phi V <= n * length keys.
Proof.
  intros V. unfold phi.
  assert (H : forall s m, list_sum (map (phi_b V) (seq s m)) <= m * length keys).
  { intros s m; revert s. induction m; intros s; simpl; auto.
    assert (phi_b V s <= length keys) by apply filter_len_bound.
    specialize (IHm (S s)). lia. }
  apply H.
Qed.

End Generic.
