(** V.C09.Analysis — executable model of guppylang_internals/cfg/analysis.py
    (BackwardAnalysis.run + LivenessAnalysis, ForwardAnalysis.run + AssignmentAnalysis)
    and of CFG.analyze (cfg/cfg.py).  Definitions only; the proofs are in ProofsLive.v,
    ProofsAssign.v, the property theorems in Props.v.  Imported by C06, C08, C10.

    INTERFACE
    ---------
    Sets of variables / blocks are lists of [nat] read up to membership ([memb], [set_eqb]);
    [norm] gives the sorted duplicate-free canonical form.
    A CFG is a [list block]; block [i] is the [i]-th element (Python: [bb.idx], entry = 0,
    exit = 1 for CFGs made by [CFG()]).  A block records its real successors, its dummy
    successors (never-taken edges) and its use / def sets (VariableStats.used/.assigned
    keys).  Predecessor lists are not stored: they are the inverse of the successor lists
    ([flow_pred], [real_pred]); the harness checks this for every Python CFG it builds.
    [wf_cfg g] = every successor index is a block of [g].

    [flow_succ incl g b] / [flow_pred incl g b]: the edges values flow along
       (real ones, plus dummy ones when [incl] = include_unreachable()).
    Requeue policy [rq : requeue]:
       [Repaired]  after a change re-queue ALL blocks that read the changed value
                   (real and, when [incl], dummy neighbours)  -- /repo after fix-1.patch;
       [Coded]     re-queue the real neighbours only          -- /repo 0.21.6 as released.

    Liveness   (state [bstate] = (work list, live_before per block)):
       [live_init g I]               initial state, I = the [initial] dict's keys
       [live_step rq incl g b s]     one iteration of the while loop popping block [b]
       [liveness rq incl g I sched]  the result of LivenessAnalysis(...).run(bbs)
    Assignment (state [fstate]; include_unreachable = True, the only mode /repo uses):
       [ass_init g D0 M0], [ass_step rq g D0 b s], [assignment rq g D0 M0 sched]
       result = (ass_before per block, maybe_ass_before per block)
    [cfg_analyze rq g D0 M0 inout s1 s2] = (live_before, ass_before, maybe_ass_before)
       as set by CFG.analyze(D0, M0, inout).

    Schedules: the work list is kept sorted by block index without duplicates (it is a
    Python set); a schedule is a list of naturals, the i-th pop takes the element of rank
    [k_i mod |queue|] (rank 0 when the schedule is exhausted).  Every pop order is obtained
    by some schedule; the theorems quantify over the nondeterministic relation
    [sched_run] instead.  [run_with] stops when the list is empty or the fuel is used up;
    [live_fuel]/[ass_fuel] are proved sufficient. *)
From Coq Require Import List Bool Arith.
Import ListNotations.

(** * finite sets as lists *)
Definition memb (x : nat) (l : list nat) : bool := existsb (Nat.eqb x) l.
Definition subsetb (a b : list nat) : bool := forallb (fun x => memb x b) a.
Definition set_eqb (a b : list nat) : bool := subsetb a b && subsetb b a.
Definition diff (a b : list nat) : list nat := filter (fun x => negb (memb x b)) a.
Definition inter (a b : list nat) : list nat := filter (fun x => memb x b) a.

Fixpoint ins_pos (x : nat) (l : list nat) : list nat :=
  match l with
  | [] => [x]
  | y :: t => if x <=? y then x :: l else y :: ins_pos x t
  end.
(** insert into a (sorted) duplicate-free list *)
Definition q_ins (x : nat) (q : list nat) : list nat := if memb x q then q else ins_pos x q.
Definition q_add (l q : list nat) : list nat := fold_left (fun acc x => q_ins x acc) l q.
Definition q_remove (b : nat) (q : list nat) : list nat := filter (fun c => negb (Nat.eqb c b)) q.
(** sorted duplicate-free canonical form *)
Definition norm (l : list nat) : list nat := q_add l [].

(** * control-flow graphs *)
Record block := mkBlock {
  b_succ : list nat;   (* BB.successors (indices) *)
  b_dsucc : list nat;  (* BB.dummy_successors *)
  b_use : list nat;    (* VariableStats.used keys *)
  b_def : list nat     (* VariableStats.assigned keys *)
}.
Definition cfg := list block.
Definition empty_block := mkBlock [] [] [] [].
Definition blk (g : cfg) (b : nat) : block := nth b g empty_block.
Definition nblocks (g : cfg) : nat := length g.
Definition wf_cfg (g : cfg) : bool :=
  forallb (fun bl => forallb (fun s => s <? nblocks g) (b_succ bl ++ b_dsucc bl)) g.

Definition real_succ (g : cfg) (b : nat) : list nat := b_succ (blk g b).
Definition flow_succ (incl : bool) (g : cfg) (b : nat) : list nat :=
  b_succ (blk g b) ++ (if incl then b_dsucc (blk g b) else []).
Definition inv_edges (n : nat) (e : nat -> list nat) (b : nat) : list nat :=
  filter (fun p => memb b (e p)) (seq 0 n).
Definition real_pred (g : cfg) (b : nat) : list nat := inv_edges (nblocks g) (real_succ g) b.
Definition flow_pred (incl : bool) (g : cfg) (b : nat) : list nat :=
  inv_edges (nblocks g) (flow_succ incl g) b.

Inductive requeue := Repaired | Coded.

(** * per-block values *)
Definition vals := list (list nat).
Definition getv (L : vals) (b : nat) : list nat := nth b L [].
Fixpoint setv {A} (l : list A) (i : nat) (v : A) : list A :=
  match l, i with
  | [], _ => []
  | _ :: t, 0 => v :: t
  | h :: t, S i => h :: setv t i v
  end.

(** * schedules *)
Definition pick (k : nat) (q : list nat) : nat := nth (k mod length q) q 0.

Section Run.
Variable St : Type.
Variable step : nat -> St -> St.
Variable queue : St -> list nat.
Fixpoint run_with (sched : list nat) (fuel : nat) (s : St) : St :=
  match fuel with
  | 0 => s
  | S f =>
      match queue s with
      | [] => s
      | q => run_with (tl sched) f (step (pick (hd 0 sched) q) s)
      end
  end.
(** all pop orders: [sched_run s s'] iff [s'] has an empty work list and is reached from
    [s] by popping, each time, an arbitrary member of the work list *)
Inductive sched_run : St -> St -> Prop :=
| sr_stop s : queue s = [] -> sched_run s s
| sr_pop s b s' : In b (queue s) -> sched_run (step b s) s' -> sched_run s s'.
End Run.
Arguments run_with {St}.
Arguments sched_run {St}.

(** * backward analysis: liveness *)
Definition bstate := (list nat * vals)%type.

(* LivenessAnalysis.join: keys of the union of the successors' dicts *)
Definition live_join (L : vals) (ss : list nat) : list nat := flat_map (getv L) ss.
(* LivenessAnalysis.apply_bb: keys of  {x: bb for x in used} | {x: b for live_after if x not assigned} *)
Definition live_transfer (g : cfg) (b : nat) (a : list nat) : list nat :=
  b_use (blk g b) ++ diff a (b_def (blk g b)).

Definition back_requeue (rq : requeue) (incl : bool) (g : cfg) (b : nat) : list nat :=
  match rq with Repaired => flow_pred incl g b | Coded => real_pred g b end.

(* body of the while loop of BackwardAnalysis.run with bb = block b *)
Definition live_step (rq : requeue) (incl : bool) (g : cfg) (b : nat) (s : bstate) : bstate :=
  let (q, L) := s in
  let v := live_transfer g b (live_join L (flow_succ incl g b)) in
  if set_eqb (getv L b) v                      (* LivenessAnalysis.eq: same keys *)
  then (q_remove b q, L)
  else (q_add (back_requeue rq incl g b) (q_remove b q), setv L b v).

Definition live_init (g : cfg) (I : list nat) : bstate :=
  (seq 0 (nblocks g), map (fun _ => I) g).

Definition live_keys (g : cfg) (I : list nat) : list nat := I ++ flat_map b_use g.
Definition fuel_for (n nkeys : nat) : nat := (n * nkeys) * (n + 1) + n + 1.
Definition live_fuel (g : cfg) (I : list nat) : nat :=
  fuel_for (nblocks g) (length (live_keys g I)).

Definition live_run (rq : requeue) (incl : bool) (g : cfg) (I : list nat) (sched : list nat) : bstate :=
  run_with (live_step rq incl g) fst sched (live_fuel g I) (live_init g I).
Definition liveness rq incl g I sched : vals := snd (live_run rq incl g I sched).

(** * forward analysis: definite / maybe assignment (include_unreachable = True) *)
Record fstate := mkF {
  fq : list nat;
  befD : vals; befM : vals;   (* vals_before, the returned result *)
  aftD : vals; aftM : vals    (* vals_after, the cache *)
}.

Definition all_vars (g : cfg) (D0 : list nat) : list nat := flat_map b_def g ++ D0.

(* AssignmentAnalysis.join *)
Definition ass_join (AD AM : vals) (D0 : list nat) (ps : list nat) : list nat * list nat :=
  match ps with
  | [] => (D0, D0)
  | p :: ps' => (fold_left inter (map (getv AD) ps') (getv AD p), flat_map (getv AM) ps)
  end.

Definition fwd_requeue (rq : requeue) (g : cfg) (b : nat) : list nat :=
  match rq with Repaired => flow_succ true g b | Coded => real_succ g b end.

(* body of the while loop of ForwardAnalysis.run with bb = block b *)
Definition ass_step (rq : requeue) (g : cfg) (D0 : list nat) (b : nat) (s : fstate) : fstate :=
  let ps := flow_pred true g b in
  let (bd, bm) := ass_join (aftD s) (aftM s) D0 ps in
  let ad := bd ++ b_def (blk g b) in
  let am := bm ++ b_def (blk g b) in
  let bD := setv (befD s) b bd in
  let bM := setv (befM s) b bm in
  if set_eqb ad (getv (aftD s) b) && set_eqb am (getv (aftM s) b)
  then mkF (q_remove b (fq s)) bD bM (aftD s) (aftM s)
  else mkF (q_add (fwd_requeue rq g b) (q_remove b (fq s))) bD bM
           (setv (aftD s) b ad) (setv (aftM s) b am).

Definition ass_init (g : cfg) (D0 M0 : list nat) : fstate :=
  let all := all_vars g D0 in
  mkF (seq 0 (nblocks g))
      (map (fun _ => all) g) (map (fun _ => M0) g)
      (map (fun bl => all ++ b_def bl) g) (map (fun bl => M0 ++ b_def bl) g).

(* key universe of the forward system: one copy of the variables per component *)
Definition ass_vars (g : cfg) (D0 M0 : list nat) : list nat := all_vars g D0 ++ M0.
Definition ass_fuel (g : cfg) (D0 M0 : list nat) : nat :=
  fuel_for (nblocks g) (2 * length (ass_vars g D0 M0)).

Definition ass_run (rq : requeue) (g : cfg) (D0 M0 : list nat) (sched : list nat) : fstate :=
  run_with (ass_step rq g D0) fq sched (ass_fuel g D0 M0) (ass_init g D0 M0).
Definition assignment rq g D0 M0 sched : vals * vals :=
  let s := ass_run rq g D0 M0 sched in (befD s, befM s).

(** * CFG.analyze *)
Definition exit_idx : nat := 1.
(* stats[self.exit_bb].used |= {x: ... for x in inout_vars} *)
Definition with_exit_uses (g : cfg) (inout : list nat) : cfg :=
  let bl := blk g exit_idx in
  setv g exit_idx (mkBlock (b_succ bl) (b_dsucc bl) (b_use bl ++ inout) (b_def bl)).

Definition cfg_analyze (rq : requeue) (g : cfg) (D0 M0 inout : list nat) (s1 s2 : list nat)
  : vals * vals * vals :=
  let g' := with_exit_uses g inout in
  let '(d, m) := assignment rq g' D0 M0 s2 in
  (liveness rq true g' inout s1, d, m).

(** canonical output for the correspondence harness *)
Definition norm_vals (L : vals) : vals := map norm L.
