(** V.C09.SetLemmas — facts about the list-as-set operations, the work list, [setv]/[getv]
    and the generic [run_with]/[sched_run] of Analysis.v. *)
From Coq Require Import List Bool Arith Lia.
From V.C09 Require Import Analysis.
Import ListNotations.

Lemma memb_In : forall x l, memb x l = true <-> In x l.
Proof.
  intros x l. unfold memb. rewrite existsb_exists. split.
  - intros [y [Hy E]]. apply Nat.eqb_eq in E. subst; auto.
  - intros H. exists x. split; auto. apply Nat.eqb_refl.
Qed.

Lemma memb_false : forall x l, memb x l = false <-> ~ In x l.
Proof.
  intros x l. split.
  - intros H Hin. apply memb_In in Hin. congruence.
  - intros H. destruct (memb x l) eqn:E; auto. apply memb_In in E. contradiction.
Qed.

Lemma memb_app : forall x a b, memb x (a ++ b) = memb x a || memb x b.
Proof. intros. unfold memb. apply existsb_app. Qed.

Lemma memb_filter : forall x f l, memb x (filter f l) = memb x l && f x.
Proof.
  intros x f l. induction l as [|y t IH]; simpl; auto.
  destruct (f y) eqn:Ef; simpl; rewrite IH.
  - destruct (Nat.eqb x y) eqn:E; simpl; auto. apply Nat.eqb_eq in E. subst. rewrite Ef.
    destruct (memb y t); reflexivity.
  - destruct (Nat.eqb x y) eqn:E; simpl; auto. apply Nat.eqb_eq in E. subst. rewrite Ef.
    rewrite andb_false_r. reflexivity.
Qed.

Lemma memb_diff : forall x a b, memb x (diff a b) = memb x a && negb (memb x b).
Proof. intros. unfold diff. apply memb_filter. Qed.

Lemma memb_inter : forall x a b, memb x (inter a b) = memb x a && memb x b.
Proof. intros. unfold inter. apply memb_filter. Qed.

Lemma memb_flat_map : forall x (f : nat -> list nat) l,
  memb x (flat_map f l) = existsb (fun c => memb x (f c)) l.
Proof.
  intros x f l. induction l as [|c t IH]; simpl; auto. rewrite memb_app, IH. reflexivity.
Qed.

Lemma memb_fold_inter : forall x ls a,
  memb x (fold_left inter ls a) = memb x a && forallb (memb x) ls.
Proof.
  intros x ls. induction ls as [|l t IH]; intros a; simpl.
  - rewrite andb_true_r. reflexivity.
  - rewrite IH, memb_inter. rewrite andb_assoc. reflexivity.
Qed.

Lemma subsetb_true : forall a b, subsetb a b = true <-> forall x, memb x a = true -> memb x b = true.
Proof.
  intros a b. unfold subsetb. rewrite forallb_forall. split.
  - intros H x Hx. apply H. apply memb_In; auto.
  - intros H x Hx. apply H. apply memb_In; auto.
Qed.

Lemma set_eqb_true : forall a b, set_eqb a b = true -> forall x, memb x a = memb x b.
Proof.
  intros a b H x. unfold set_eqb in H. apply andb_true_iff in H. destruct H as [H1 H2].
  rewrite subsetb_true in H1, H2. specialize (H1 x). specialize (H2 x).
  destruct (memb x a), (memb x b); auto. symmetry; auto.
Qed.

Lemma subsetb_false : forall a b, subsetb a b = false -> exists x, memb x a = true /\ memb x b = false.
Proof.
  intros a b. unfold subsetb. induction a as [|y t IH]; simpl; [discriminate|].
  destruct (memb y b) eqn:E; simpl.
  - intros H. destruct (IH H) as [x [H1 H2]]. exists x. split; auto.
    unfold memb in *. simpl. rewrite H1. apply orb_true_r.
  - intros _. exists y. split; auto. unfold memb. simpl. rewrite Nat.eqb_refl. reflexivity.
Qed.

Lemma set_eqb_false : forall a b, set_eqb a b = false -> exists x, memb x a <> memb x b.
Proof.
  intros a b H. unfold set_eqb in H. apply andb_false_iff in H. destruct H as [H|H];
    apply subsetb_false in H; destruct H as [x [H1 H2]]; exists x; congruence.
Qed.

(** work list *)
Lemma q_remove_In : forall b q c, In c (q_remove b q) <-> In c q /\ c <> b.
Proof.
  intros. unfold q_remove. rewrite filter_In. rewrite negb_true_iff, Nat.eqb_neq. tauto.
Qed.

Lemma q_remove_NoDup : forall b q, NoDup q -> NoDup (q_remove b q).
Proof. intros. unfold q_remove. apply NoDup_filter. assumption. Qed.

Lemma ins_pos_In : forall x l c, In c (ins_pos x l) <-> c = x \/ In c l.
Proof.
  intros x l c. induction l as [|y t IH]; simpl.
  - intuition.
  - destruct (x <=? y); simpl; rewrite ?IH; intuition.
Qed.

Lemma ins_pos_NoDup : forall x l, ~ In x l -> NoDup l -> NoDup (ins_pos x l).
Proof.
  intros x l. induction l as [|y t IH]; intros Hx Hn; simpl.
  - constructor; auto.
  - destruct (x <=? y).
    + constructor; auto.
    + inversion Hn; subst. constructor.
      * rewrite ins_pos_In. intros [->|H]; [apply Hx; left; auto | auto].
      * apply IH; auto. intro; apply Hx; right; auto.
Qed.

Lemma q_ins_In : forall x q c, In c (q_ins x q) <-> c = x \/ In c q.
Proof.
  intros x q c. unfold q_ins. destruct (memb x q) eqn:E.
  - apply memb_In in E. split; auto. intros [->|H]; auto.
  - apply ins_pos_In.
Qed.

Lemma q_ins_NoDup : forall x q, NoDup q -> NoDup (q_ins x q).
Proof.
  intros x q H. unfold q_ins. destruct (memb x q) eqn:E; auto.
  apply ins_pos_NoDup; auto. apply memb_false; auto.
Qed.

Lemma q_add_In : forall l q c, In c (q_add l q) <-> In c l \/ In c q.
Proof.
  intros l. unfold q_add. induction l as [|x t IH]; intros q c; simpl.
  - tauto.
  - rewrite IH, q_ins_In. intuition.
Qed.

Lemma q_add_NoDup : forall l q, NoDup q -> NoDup (q_add l q).
Proof.
  intros l. unfold q_add. induction l as [|x t IH]; intros q H; simpl; auto.
  apply IH. apply q_ins_NoDup; auto.
Qed.

Lemma NoDup_bounded_length : forall q n, NoDup q -> (forall c, In c q -> c < n) -> length q <= n.
Proof.
  intros q n Hn Hb. rewrite <- (seq_length n 0). apply NoDup_incl_length; auto.
  intros c Hc. apply in_seq. specialize (Hb c Hc). lia.
Qed.

Lemma filter_length_le' : forall (f : nat -> bool) l, length (filter f l) <= length l.
Proof. intros f l. induction l as [|y t IH]; simpl; auto. destruct (f y); simpl; lia. Qed.

Lemma filter_length_lt : forall (f : nat -> bool) l x, In x l -> f x = false ->
  length (filter f l) < length l.
Proof.
  intros f l x. induction l as [|y t IH]; intros Hin Hf; [destruct Hin|].
  simpl. assert (Hle : length (filter f t) <= length t) by apply filter_length_le'.
  destruct Hin as [->|Hin].
  - rewrite Hf. lia.
  - specialize (IH Hin Hf). destruct (f y); simpl; lia.
Qed.

Lemma q_remove_length : forall b q, In b q -> length (q_remove b q) < length q.
Proof.
  intros b q H. unfold q_remove. apply filter_length_lt with (x := b); auto.
  rewrite Nat.eqb_refl. reflexivity.
Qed.

(** per-block values *)
Lemma setv_length : forall A (l : list A) i v, length (setv l i v) = length l.
Proof. intros A l. induction l as [|h t IH]; intros [|i] v; simpl; auto. Qed.

Lemma nth_setv : forall A (l : list A) i j v d, i < length l ->
  nth j (setv l i v) d = if Nat.eqb j i then v else nth j l d.
Proof.
  intros A l. induction l as [|h t IH]; intros i j v d Hi; simpl in Hi; [lia|].
  destruct i as [|i], j as [|j]; simpl; auto. apply IH. lia.
Qed.

Lemma getv_setv : forall (L : vals) b c v, b < length L ->
  getv (setv L b v) c = if Nat.eqb c b then v else getv L c.
Proof. intros. unfold getv. apply nth_setv. assumption. Qed.

Lemma getv_map : forall (A : Type) (f : A -> list nat) (g : list A) (d : A) b, b < length g ->
  getv (map f g) b = f (nth b g d).
Proof.
  intros A f g d b Hb. unfold getv. rewrite (nth_indep _ [] (f d)) by (rewrite map_length; auto).
  apply map_nth.
Qed.

(** schedules *)
Lemma pick_In : forall k q, q <> [] -> In (pick k q) q.
Proof.
  intros k q Hq. unfold pick. apply nth_In. apply Nat.mod_upper_bound.
  destruct q; simpl; [congruence | lia].
Qed.

Section RunLemmas.
Variable St : Type.
Variable step : nat -> St -> St.
Variable queue : St -> list nat.
Variable Inv : St -> Prop.
Variable mu : St -> nat.
Hypothesis Hstep : forall s b, Inv s -> In b (queue s) -> Inv (step b s) /\ mu (step b s) < mu s.

Lemma run_with_done : forall fuel sched s, Inv s -> mu s < fuel ->
  queue (run_with step queue sched fuel s) = [] /\
  sched_run step queue s (run_with step queue sched fuel s).
Proof.
  induction fuel as [|f IH]; intros sched s Hi Hm; [lia|].
  simpl. destruct (queue s) as [|c t] eqn:Eq.
  - split; auto. apply sr_stop; auto.
  - assert (Hin : In (pick (hd 0 sched) (c :: t)) (queue s)).
    { rewrite Eq. apply pick_In. discriminate. }
    destruct (Hstep s _ Hi Hin) as [Hi' Hm'].
    destruct (IH (tl sched) _ Hi') as [H1 H2]; [lia|].
    split; auto. eapply sr_pop; eauto.
Qed.

Lemma sched_run_inv : forall s s', sched_run step queue s s' -> Inv s -> Inv s' /\ queue s' = [].
Proof.
  intros s s' H. induction H as [s Hq | s b s' Hb Hr IH]; intros Hi; auto.
  apply IH. apply Hstep; auto.
Qed.

(** every pop order terminates: the pop relation is well-founded on invariant states *)
Lemma pops_wf : forall s, Inv s -> Acc (fun s2 s1 => Inv s1 /\ exists b, In b (queue s1) /\ s2 = step b s1) s.
Proof.
  intros s. remember (mu s) as m eqn:Em. revert s Em.
  induction m as [m IH] using lt_wf_ind. intros s Em Hi. constructor.
  intros s2 [_ [b [Hb ->]]]. destruct (Hstep s b Hi Hb) as [Hi' Hm].
  apply (IH (mu (step b s))); auto. lia.
Qed.
End RunLemmas.
