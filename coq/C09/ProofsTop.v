(** V.C09.ProofsTop — order independence, CFG.analyze, witnesses. *)
From Coq Require Import List Bool Arith Lia.
From V.C09 Require Import Analysis SetLemmas Generic Spec ProofsLive ProofsAssign.
Import ListNotations.

Lemma In_nat_dec : forall (x : nat) l, In x l \/ ~ In x l.
Proof. intros. destruct (in_dec Nat.eq_dec x l); auto. Qed.

Lemma iff_by_neg : forall A B : Prop, (A \/ ~ A) -> (B \/ ~ B) -> (~ A <-> ~ B) -> (A <-> B).
Proof. intros A B [a|na] [b|nb] H; tauto. Qed.

Lemma live_order_independent_lemma : forall incl g I, wf_cfg g = true -> forall s1 s2,
  sched_run (live_step Repaired incl g) fst (live_init g I) s1 ->
  sched_run (live_step Repaired incl g) fst (live_init g I) s2 ->
  same_sets (nblocks g) (snd s1) (snd s2).
Proof.
  intros incl g I W s1 s2 H1 H2 b x Hb.
  destruct (live_terminal_char incl g I W s1 H1 b x Hb) as [A1 B1].
  destruct (live_terminal_char incl g I W s2 H2 b x Hb) as [A2 B2].
  destruct (In_nat_dec x I) as [Hi|Hi].
  - apply iff_by_neg; try apply In_nat_dec. rewrite (B1 Hi), (B2 Hi). tauto.
  - rewrite (A1 Hi), (A2 Hi). tauto.
Qed.

Lemma ass_order_independent_lemma : forall g D0 M0, wf_cfg g = true -> forall s1 s2,
  sched_run (ass_step Repaired g D0) fq (ass_init g D0 M0) s1 ->
  sched_run (ass_step Repaired g D0) fq (ass_init g D0 M0) s2 ->
  same_sets (nblocks g) (befD s1) (befD s2) /\ same_sets (nblocks g) (befM s1) (befM s2).
Proof.
  intros g D0 M0 W s1 s2 H1 H2. split; intros b x Hb;
    destruct (ass_terminal_char g D0 M0 W s1 H1 b x Hb) as [A1 [B1 C1]];
    destruct (ass_terminal_char g D0 M0 W s2 H2 b x Hb) as [A2 [B2 C2]].
  - rewrite A1, A2. tauto.
  - destruct (In_nat_dec x M0) as [Hi|Hi].
    + apply iff_by_neg; try apply In_nat_dec. rewrite (C1 Hi), (C2 Hi). tauto.
    + rewrite (B1 Hi), (B2 Hi). tauto.
Qed.

(** CFG.analyze: marking the borrowed variables as used in the exit keeps the CFG well formed *)
Lemma forallb_setv : forall A (f : A -> bool) l i v, forallb f l = true -> f v = true ->
  forallb f (setv l i v) = true.
Proof.
  intros A f l. induction l as [|h t IH]; intros i v Hl Hv; simpl in *; auto.
  apply andb_true_iff in Hl. destruct Hl as [Hh Ht]. destruct i; simpl; rewrite ?Hh, ?Hv; simpl; auto.
Qed.

Lemma wf_with_exit_uses : forall g inout, wf_cfg g = true -> wf_cfg (with_exit_uses g inout) = true.
Proof.
  intros g inout W. unfold wf_cfg, with_exit_uses. unfold nblocks. rewrite setv_length.
  apply forallb_setv; auto. simpl.
  unfold wf_cfg in W. rewrite forallb_forall in W.
  destruct (Nat.lt_ge_cases exit_idx (length g)) as [Hlt|Hge].
  - apply W. apply blk_In. exact Hlt.
  - unfold blk. rewrite nth_overflow by exact Hge. reflexivity.
Qed.

Lemma nblocks_with_exit_uses : forall g inout, nblocks (with_exit_uses g inout) = nblocks g.
Proof. intros. unfold with_exit_uses, nblocks. apply setv_length. Qed.

Lemma cfg_analyze_order_independent_lemma : forall g D0 M0 inout, wf_cfg g = true ->
  forall s1 s2 t1 t2,
  let '(l, d, m) := cfg_analyze Repaired g D0 M0 inout s1 s2 in
  let '(l', d', m') := cfg_analyze Repaired g D0 M0 inout t1 t2 in
  same_sets (nblocks g) l l' /\ same_sets (nblocks g) d d' /\ same_sets (nblocks g) m m'.
Proof.
  intros g D0 M0 inout W s1 s2 t1 t2. unfold cfg_analyze, assignment, liveness.
  set (g' := with_exit_uses g inout).
  assert (W' : wf_cfg g' = true) by (apply wf_with_exit_uses; auto).
  rewrite <- (nblocks_with_exit_uses g inout). fold g'.
  destruct (live_run_terminates true g' inout W' s1) as [_ R1].
  destruct (live_run_terminates true g' inout W' t1) as [_ R2].
  destruct (ass_run_terminates g' D0 M0 W' s2) as [_ R3].
  destruct (ass_run_terminates g' D0 M0 W' t2) as [_ R4].
  split; [|apply (ass_order_independent_lemma g' D0 M0 W' _ _ R3 R4)].
  apply (live_order_independent_lemma true g' inout W' _ _ R1 R2).
Qed.

(** the literal wording fails for a borrowed variable that is reassigned after a loop *)
Definition borrow_cfg : cfg :=
  [mkBlock [2] [] [] []; mkBlock [] [] [] []; mkBlock [2; 3] [] [] []; mkBlock [1] [] [] [0]].

Lemma borrow_not_on_path : forall b, live_on_path true (with_exit_uses borrow_cfg [0]) 0 b -> b = 1.
Proof.
  intros b H. induction H as [b Hb Hu|b c Hb Hd Hc Hl IH].
  - destruct b as [|[|[|[|b]]]]; simpl in *; auto; try tauto. unfold nblocks in Hb. simpl in Hb. lia.
  - subst c. destruct b as [|[|[|[|b]]]]; simpl in *; auto.
    + destruct Hc as [Hc|[]]. discriminate.
    + destruct Hc as [Hc|[Hc|[]]]; discriminate.
    + exfalso. apply Hd. auto.
    + unfold nblocks in Hb. simpl in Hb. lia.
Qed.

(** the executable results ([run_with] with the proved fuel) meet the path-based solutions:
    the form in which C06 / C08 / C10 consume the analyses *)
Lemma liveness_correct_lemma : forall incl g I, wf_cfg g = true -> forall sched b x, b < nblocks g ->
  (~ In x I -> (In x (getv (liveness Repaired incl g I sched) b) <-> live_on_path incl g x b)) /\
  (In x I -> (~ In x (getv (liveness Repaired incl g I sched) b) <-> dead_on_all_paths incl g x b)).
Proof.
  intros incl g I W sched b x Hb. unfold liveness.
  destruct (live_run_terminates incl g I W sched) as [_ R].
  apply (live_terminal_char incl g I W _ R b x Hb).
Qed.

Lemma assignment_correct_lemma : forall g D0 M0, wf_cfg g = true -> forall sched b x, b < nblocks g ->
  (In x (getv (fst (assignment Repaired g D0 M0 sched)) b) <->
     In x (all_vars g D0) /\ ~ unassigned_before g D0 x b) /\
  (~ In x M0 -> (In x (getv (snd (assignment Repaired g D0 M0 sched)) b) <-> assigned_before g D0 x b)) /\
  (In x M0 -> (~ In x (getv (snd (assignment Repaired g D0 M0 sched)) b) <-> never_assigned_before g D0 x b)).
Proof.
  intros g D0 M0 W sched b x Hb. unfold assignment. simpl.
  destruct (ass_run_terminates g D0 M0 W sched) as [_ R].
  apply (ass_terminal_char g D0 M0 W _ R b x Hb).
Qed.

Lemma cfg_analyze_eq : forall g D0 M0 inout s1 s2,
  cfg_analyze Repaired g D0 M0 inout s1 s2 =
  (liveness Repaired true (with_exit_uses g inout) inout s1,
   fst (assignment Repaired (with_exit_uses g inout) D0 M0 s2),
   snd (assignment Repaired (with_exit_uses g inout) D0 M0 s2)).
Proof. intros. unfold cfg_analyze, assignment. reflexivity. Qed.
