(** V.C09.ProofsPaths — the inductive path predicates of Spec.v written with explicit paths. *)
From Coq Require Import List Bool Arith Lia.
From V.C09 Require Import Analysis Spec ProofsLive.
Import ListNotations.

Lemma last_cons : forall (p : list nat) c b, last (c :: p) b = last p c.
Proof.
  induction p as [|d t IH]; intros c b; [reflexivity|].
  change (last (c :: d :: t) b) with (last (d :: t) b). rewrite (IH d b), (IH d c). reflexivity.
Qed.

(** "read on some path before being reassigned", with the path written out *)
Theorem live_on_path_iff_witness : forall incl g x b,
  live_on_path incl g x b <-> exists p, live_witness incl g x b p.
Proof.
  intros incl g x b. split.
  - intros H. induction H as [b Hb Hu|b c Hb Hd Hc Hl IH].
    + exists []. unfold live_witness. simpl. split; [exact I|]. split; [intros c [<-|[]]; auto|].
      split; auto; try (intros c []).
    + destruct IH as [p [Hw [Hn [Hu Hdd]]]]. exists (c :: p). unfold live_witness.
      split; [simpl; auto|]. split; [intros c' [<-|Hc']; auto|].
      split; [rewrite last_cons; exact Hu|].
      intros c' Hc'. change (removelast (b :: c :: p)) with (b :: removelast (c :: p)) in Hc'.
      destruct Hc' as [<-|Hc']; auto.
  - intros [p H]. revert b H. induction p as [|c t IH]; intros b [Hw [Hn [Hu Hd]]].
    + apply lp_use; [apply Hn; left; auto | exact Hu].
    + destruct Hw as [Hc Hw]. apply lp_step with c.
      * apply Hn; left; auto.
      * apply Hd. change (removelast (b :: c :: t)) with (b :: removelast (c :: t)). left; auto.
      * exact Hc.
      * apply IH. split; [exact Hw|]. split; [intros c' Hc'; apply Hn; right; auto|].
        split; [rewrite <- (last_cons t c b); exact Hu|].
        intros c' Hc'. apply Hd. change (removelast (b :: c :: t)) with (b :: removelast (c :: t)).
        right; auto.
Qed.

Lemma list_bound : forall (l : list nat) (R : nat -> nat -> Prop),
  (forall c K K', R c K -> K <= K' -> R c K') ->
  (forall c, In c l -> exists K, R c K) -> exists K, forall c, In c l -> R c K.
Proof.
  intros l R Hm. induction l as [|c t IH]; intros H.
  - exists 0. intros c [].
  - destruct (H c (or_introl eq_refl)) as [Kc Hc].
    destruct (IH (fun c' Hc' => H c' (or_intror Hc'))) as [Kt Ht].
    exists (Nat.max Kc Kt). intros c' [<-|Hc'].
    + apply Hm with Kc; auto. apply Nat.le_max_l.
    + apply Hm with Kt; auto. apply Nat.le_max_r.
Qed.

(** if x is dead on all paths from b, the walks from b on which x is never reassigned have
    bounded length: "no infinite path avoids a reassignment" *)
Theorem dead_bounds_idle_walks : forall incl g x b, dead_on_all_paths incl g x b ->
  exists K, forall p, idle_walk incl g x b p -> length p < K.
Proof.
  intros incl g x. apply (dead_ind2 incl g x (fun b => exists K, forall p, idle_walk incl g x b p -> length p < K)).
  intros b Hb Hu [Hdef|Hall].
  - exists 0. intros p [_ Hn]. destruct (Hn b (or_introl eq_refl)) as [_ Hnd]. contradiction.
  - destruct (list_bound (flow_succ incl g b)
               (fun c K => forall p, idle_walk incl g x c p -> length p < K)) as [K HK].
    + intros c K K' H Hle p Hp. specialize (H p Hp). lia.
    + intros c Hc. destruct (Hall c Hc) as [_ HKc]. exact HKc.
    + exists (S K). intros p [Hw Hn]. destruct p as [|c t]; simpl; [lia|].
      destruct Hw as [Hc Hw]. assert (length t < K); [|lia].
      apply (HK c Hc). split; auto. intros c' Hc'. apply Hn. right; auto.
Qed.

Corollary unbounded_idle_walks_not_dead : forall incl g x b,
  (forall k, exists p, length p = k /\ idle_walk incl g x b p) -> ~ dead_on_all_paths incl g x b.
Proof.
  intros incl g x b H Hd. destruct (dead_bounds_idle_walks incl g x b Hd) as [K HK].
  destruct (H K) as [p [Hl Hp]]. specialize (HK p Hp). lia.
Qed.

Lemma live_dead_excl : forall incl g x b,
  live_on_path incl g x b -> dead_on_all_paths incl g x b -> False.
Proof.
  intros incl g x b H1 H2. apply reach_live in H1. apply fail_live in H2.
  eapply Generic.reach_fail_excl; eauto.
Qed.

(** the borrowed-variable rule in positive form: a variable of the initial set is live
    wherever it is read on some path before being reassigned, and wherever arbitrarily long
    (in a finite graph: infinite) paths never reassign it *)
Lemma live_initial_positive : forall incl g I, wf_cfg g = true ->
  forall s', sched_run (live_step Repaired incl g) fst (live_init g I) s' ->
  forall b x, b < nblocks g -> In x I ->
    (live_on_path incl g x b \/ (forall k, exists p, length p = k /\ idle_walk incl g x b p)) ->
    In x (getv (snd s') b).
Proof.
  intros incl g I W s' H b x Hb HI Hor.
  destruct (in_dec Nat.eq_dec x (getv (snd s') b)) as [|Hn]; auto. exfalso.
  apply (live_terminal_char incl g I W s' H b x Hb) in Hn; auto.
  destruct Hor as [Hl|Hw].
  - eapply live_dead_excl; eauto.
  - eapply unbounded_idle_walks_not_dead; eauto.
Qed.
