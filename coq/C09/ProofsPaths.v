(** V.C09.ProofsPaths — the inductive path predicates of Spec.v written with explicit paths. *)
From Coq Require Import List Bool Arith Lia.
From V.C09 Require Import Analysis Spec ProofsLive.
Import ListNotations.

Lemma last_cons : forall (p : list nat) c b, last (c :: p) b = last p c.
Proof.
  induction p as [|d t IH]; intros c b; [reflexivity|].
  change (last (c :: d :: t) b) with (last (d :: t) b). rewrite (IH d b), (IH d c). reflexivity.
Qed.

(** "read on some path before being reassigned", with the path written out *)
Theorem live_on_path_iff_witness : forall incl g x b,
  live_on_path incl g x b <-> exists p, live_witness incl g x b p.
Proof.
  intros incl g x b. split.
  - intros H. induction H as [b Hb Hu|b c Hb Hd Hc Hl IH].
    + exists []. unfold live_witness. simpl. split; [exact I|]. split; [intros c [<-|[]]; auto|].
      split; auto; try (intros c []).
    + destruct IH as [p [Hw [Hn [Hu Hdd]]]]. exists (c :: p). unfold live_witness.
      split; [simpl; auto|]. split; [intros c' [<-|Hc']; auto|].
      split; [rewrite last_cons; exact Hu|].
      intros c' Hc'. change (removelast (b :: c :: p)) with (b :: removelast (c :: p)) in Hc'.
      destruct Hc' as [<-|Hc']; auto.
  - intros [p H]. revert b H. induction p as [|c t IH]; intros b [Hw [Hn [Hu Hd]]].
    + apply lp_use; [apply Hn; left; auto | exact Hu].
    + destruct Hw as [Hc Hw]. apply lp_step with c.
      * apply Hn; left; auto.
      * apply Hd. change (removelast (b :: c :: t)) with (b :: removelast (c :: t)). left; auto.
      * exact Hc.
      * apply IH. split; [exact Hw|]. split; [intros c' Hc'; apply Hn; right; auto|].
        split; [rewrite <- (last_cons t c b); exact Hu|].
        intros c' Hc'. apply Hd. change (removelast (b :: c :: t)) with (b :: removelast (c :: t)).
        right; auto.
Qed.

Lemma list_bound : forall (l : list nat) (R : nat -> nat -> Prop),
  (forall c K K', R c K -> K <= K' -> R c K') ->
  (forall c, In c l -> exists K, R c K) -> exists K, forall c, In c l -> R c K.
Proof.
  intros l R Hm. induction l as [|c t IH]; intros H.
  - exists 0. intros c [].
  - destruct (H c (or_introl eq_refl)) as [Kc Hc].
    destruct (IH (fun c' Hc' => H c' (or_intror Hc'))) as [Kt Ht].
    exists (Nat.max Kc Kt). intros c' [<-|Hc'].
    + apply Hm with Kc; auto. apply Nat.le_max_l.
    + apply Hm with Kt; auto. apply Nat.le_max_r.
Qed.

(** if x is dead on all paths from b, the walks from b on which x is never reassigned have
    bounded length: "no infinite path avoids a reassignment" *)
Theorem dead_bounds_idle_walks : forall incl g x b, dead_on_all_paths incl g x b ->
  exists K, forall p, idle_walk incl g x b p -> length p < K.
Proof.
  intros incl g x. apply (dead_ind2 incl g x (fun b => exists K, forall p, idle_walk incl g x b p -> length p < K)).
  intros b Hb Hu [Hdef|Hall].
  - exists 0. intros p [_ Hn]. destruct (Hn b (or_introl eq_refl)) as [_ Hnd]. contradiction.
  - destruct (list_bound (flow_succ incl g b)
               (fun c K => forall p, idle_walk incl g x c p -> length p < K)) as [K HK].
    + intros c K K' H Hle p Hp. specialize (H p Hp). lia.
    + intros c Hc. destruct (Hall c Hc) as [_ HKc]. exact HKc.
    + exists (S K). intros p [Hw Hn]. destruct p as [|c t]; simpl; [lia|].
      destruct Hw as [Hc Hw]. assert (length t < K); [|lia].
      apply (HK c Hc). split; auto. intros c' Hc'. apply Hn. right; auto.
Qed.

Corollary unbounded_idle_walks_not_dead : forall incl g x b,
  (forall k, exists p, length p = k /\ idle_walk incl g x b p) -> ~ dead_on_all_paths incl g x b.
Proof.
  intros incl g x b H Hd. destruct (dead_bounds_idle_walks incl g x b Hd) as [K HK].
  destruct (H K) as [p [Hl Hp]]. specialize (HK p Hp). lia.
Qed.

Lemma live_dead_excl : forall incl g x b,
  live_on_path incl g x b -> dead_on_all_paths incl g x b -> False.
Proof.
  intros incl g x b H1 H2. apply reach_live in H1. apply fail_live in H2.
  eapply Generic.reach_fail_excl; eauto.
Qed.

(** the borrowed-variable rule in positive form: a variable of the initial set is live
    wherever it is read on some path before being reassigned, and wherever arbitrarily long
    (in a finite graph: infinite) paths never reassign it *)
Lemma live_initial_positive : forall incl g I, wf_cfg g = true ->
  forall s', sched_run (live_step Repaired incl g) fst (live_init g I) s' ->
  forall b x, b < nblocks g -> In x I ->
    (live_on_path incl g x b \/ (forall k, exists p, length p = k /\ idle_walk incl g x b p)) ->
    In x (getv (snd s') b).
Proof.
  intros incl g I W s' H b x Hb HI Hor.
  destruct (in_dec Nat.eq_dec x (getv (snd s') b)) as [|Hn]; auto. exfalso.
  apply (live_terminal_char incl g I W s' H b x Hb) in Hn; auto.
  destruct Hor as [Hl|Hw].
  - eapply live_dead_excl; eauto.
  - eapply unbounded_idle_walks_not_dead; eauto.
Qed.

(** ** the converse: the complement of [dead_on_all_paths] in positive, path form.
    Both path predicates are decidable because the (terminating, characterised) analysis
    decides them. *)
Section Positive.
Variable incl : bool.
Variable g : cfg.
Hypothesis W : wf_cfg g = true.

Lemma live_on_path_dec : forall x b, b < nblocks g ->
  live_on_path incl g x b \/ ~ live_on_path incl g x b.
Proof.
  intros x b Hb. destruct (live_run_terminates incl g [] W []) as [_ R].
  destruct (live_terminal_char incl g [] W _ R b x Hb) as [A _].
  destruct (in_dec Nat.eq_dec x (getv (snd (live_run Repaired incl g [] [])) b)) as [Hi|Hn].
  - left. apply A; auto.
  - right. intro H. apply Hn. apply A; auto.
Qed.

Lemma dead_dec : forall x b, b < nblocks g ->
  dead_on_all_paths incl g x b \/ ~ dead_on_all_paths incl g x b.
Proof.
  intros x b Hb. destruct (live_run_terminates incl g [x] W []) as [_ R].
  destruct (live_terminal_char incl g [x] W _ R b x Hb) as [_ B].
  assert (Hx : In x [x]) by (left; auto).
  destruct (in_dec Nat.eq_dec x (getv (snd (live_run Repaired incl g [x] [])) b)) as [Hi|Hn].
  - right. intro H. apply (B Hx) in H. contradiction.
  - left. apply (B Hx). exact Hn.
Qed.

Lemma some_not_dead_or_all_dead : forall x l, (forall c, In c l -> c < nblocks g) ->
  (exists c, In c l /\ ~ dead_on_all_paths incl g x c) \/
  (forall c, In c l -> dead_on_all_paths incl g x c).
Proof.
  intros x l. induction l as [|c t IH]; intros Hl.
  - right. intros c [].
  - destruct (dead_dec x c (Hl c (or_introl eq_refl))) as [Hd|Hnd].
    + destruct (IH (fun c' Hc' => Hl c' (or_intror Hc'))) as [[c' [Hc' Hn]]|Hall].
      * left. exists c'. split; [right; auto | auto].
      * right. intros c' [<-|Hc']; auto.
    + left. exists c. split; [left; auto | auto].
Qed.

Lemma not_dead_walk : forall x k b, b < nblocks g -> ~ dead_on_all_paths incl g x b ->
  live_on_path incl g x b \/ exists p, length p = k /\ idle_walk incl g x b p.
Proof.
  intros x k. induction k as [|k IH]; intros b Hb Hnd.
  - destruct (in_dec Nat.eq_dec x (b_use (blk g b))) as [Hu|Hu]; [left; apply lp_use; auto|].
    destruct (in_dec Nat.eq_dec x (b_def (blk g b))) as [Hd|Hd].
    + exfalso. apply Hnd. apply dp; auto.
    + right. exists []. split; auto. split; [exact I|]. intros c [<-|[]]. auto.
  - destruct (in_dec Nat.eq_dec x (b_use (blk g b))) as [Hu|Hu]; [left; apply lp_use; auto|].
    destruct (in_dec Nat.eq_dec x (b_def (blk g b))) as [Hd|Hd].
    + exfalso. apply Hnd. apply dp; auto.
    + destruct (some_not_dead_or_all_dead x (flow_succ incl g b)) as [[c [Hc Hn]]|Hall].
      * intros c Hc. eapply wf_succ_lt; eauto.
      * assert (Hcn : c < nblocks g) by (eapply wf_succ_lt; eauto).
        destruct (IH c Hcn Hn) as [Hl|[p [Hlen [Hw Hnodes]]]].
        -- left. apply lp_step with c; auto.
        -- right. exists (c :: p). split; [simpl; auto|]. split; [simpl; auto|].
           intros c' [<-|Hc']; auto.
      * exfalso. apply Hnd. apply dp; auto.
Qed.

(** for a variable of the initial set: live before b  <->  read on some path from b before being
    reassigned, OR walks of every length from b never reassign it (an infinite such path) *)
Theorem live_initial_paths : forall I s', sched_run (live_step Repaired incl g) fst (live_init g I) s' ->
  forall b x, b < nblocks g -> In x I ->
    (In x (getv (snd s') b) <->
     live_on_path incl g x b \/ (forall k, exists p, length p = k /\ idle_walk incl g x b p)).
Proof.
  intros I s' H b x Hb HI. split.
  - intros Hin.
    assert (Hnd : ~ dead_on_all_paths incl g x b).
    { intro Hd. apply (live_terminal_char incl g I W s' H b x Hb) in Hd; auto. }
    destruct (live_on_path_dec x b Hb) as [Hl|Hnl]; [left; auto|].
    right. intros k. destruct (not_dead_walk x k b Hb Hnd) as [Hl|Hp]; [contradiction | exact Hp].
  - apply (live_initial_positive incl g I W s' H b x Hb HI).
Qed.
End Positive.
