(** C33 — executable model of histories over the experimental-feature gate.
    Hand-written: the *driver* (what Python's `with`, `try`, a bare call and a call of a
    gate do).  Generated (GenExperimental.v): what the constructors, __enter__, __exit__
    and the gate functions themselves do.  No proofs in this file. *)
From Coq Require Import ZArith String Bool List.
From V.C33 Require Import ModelBase GenExperimental GenSites.
Import ListNotations.
Open Scope Z_scope.

Definition cm_init (c : cm) : bool -> bool * obj :=
  match c with Enable => enable_init | Disable => disable_init end.
Definition cm_enter (c : cm) : bool -> obj -> bool * obj :=
  match c with Enable => enable_enter | Disable => disable_enter end.
Definition cm_exit (c : cm) : bool -> obj -> bool * obj * bool :=
  match c with Enable => enable_exit | Disable => disable_exit end.

(** Histories.  [AWith c body] is `with C(): body`; [ABare c] is the bare call `C()`;
    [ANew c] keeps the constructed object (`o_k = C()`, k = number of objects kept so
    far) and [AWithObj k body] is `with o_k: body` — possibly much later, possibly twice;
    [ACheck gt] checks a program that uses the feature guarded by [gt] (the error
    propagates like any exception); [ARaise] raises an unrelated exception;
    [ATry body] is `try: body  except Exception: pass`. *)
Inductive act :=
| ABare (c : cm)
| AWith (c : cm) (body : acts)
| ANew (c : cm)
| AWithObj (k : nat) (body : acts)
| ACheck (gt : gate)
| ARaise
| ATry (body : acts)
with acts :=
| ANil
| ACons (a : act) (rest : acts).

(** Interpreter state: the module global, the kept objects (with their class), and — for
    the specification only — what the *observer* saw the flag to be just before each kept
    object's constructor ran ([seen]; never read by the transitions). *)
Record state := mkState { flag : bool; heap : list (cm * obj); seen : list bool }.

Definition b2z (b : bool) : Z := if b then 1 else 0.
Definition c2z (c : cm) : Z := match c with Enable => 1 | Disable => 0 end.

(** Observable trace; one event = a short list of integers (same encoding as the harness):
    [1;c;f]        bare call / kept constructor of class c, flag afterwards f
    [2;c;f]        body of a with block of class c starts, flag f
    [3;c;b;a;x]    with block of class c left: observer saw flag b before the matching
                   constructor call, flag after __exit__ is a, x=1 iff left by an exception
    [4;i;ok;f]     gate i called with flag f; ok=1 accepted, 0 raised
    [5]            unrelated exception raised
    [6;x]          try block done, x=1 iff it caught an exception
    [7;k]          with on a non-existent object k (never generated; skipped)
    [8;c;f]        body of `with o_k` (kept object of class c) starts, flag f            *)
Definition event := list Z.

Fixpoint set_nth {A} (k : nat) (x : A) (l : list A) : list A :=
  match k, l with
  | _, [] => []
  | O, _ :: t => x :: t
  | S k', h :: t => h :: set_nth k' x t
  end.

Fixpoint run_act (a : act) (st : state) {struct a} : state * bool * list event :=
  match a with
  | ABare c =>
      let '(g1, _) := cm_init c (flag st) in
      (mkState g1 (heap st) (seen st), false, [[1; c2z c; b2z g1]])
  | ANew c =>
      let '(g1, o) := cm_init c (flag st) in
      (mkState g1 (heap st ++ [(c, o)]) (seen st ++ [flag st]), false, [[1; c2z c; b2z g1]])
  | AWith c body =>
      let before := flag st in
      let '(g1, o) := cm_init c (flag st) in
      let '(g2, o1) := cm_enter c g1 o in
      let '(st2, raised, tr) := run_acts body (mkState g2 (heap st) (seen st)) in
      let '(g3, _, suppress) := cm_exit c (flag st2) o1 in
      (mkState g3 (heap st2) (seen st2), raised && negb suppress,
       ([2; c2z c; b2z g2] :: tr) ++ [[3; c2z c; b2z before; b2z g3; b2z raised]])
  | AWithObj k body =>
      match nth_error (heap st) k, nth_error (seen st) k with
      | Some (c, o), Some before =>
          (* the object is re-read from the heap at exit: a nested `with o_k` may have
             touched it in between *)
          let '(g1, o1) := cm_enter c (flag st) o in
          let st1 := mkState g1 (set_nth k (c, o1) (heap st)) (seen st) in
          let '(st2, raised, tr) := run_acts body st1 in
          let o2 := match nth_error (heap st2) k with Some (_, o') => o' | None => o1 end in
          let '(g3, o3, suppress) := cm_exit c (flag st2) o2 in
          (mkState g3 (set_nth k (c, o3) (heap st2)) (seen st2), raised && negb suppress,
           ([8; c2z c; b2z g1] :: tr) ++ [[3; c2z c; b2z before; b2z g3; b2z raised]])
      | _, _ => (st, false, [[7; Z.of_nat k]])
      end
  | ACheck gt =>
      match gate_run gt (flag st) with
      | Ok _ => (st, false, [[4; gate_index gt; 1; b2z (flag st)]])
      | Raise _ => (st, true, [[4; gate_index gt; 0; b2z (flag st)]])
      end
  | ARaise => (st, true, [[5]])
  | ATry body =>
      let '(st1, raised, tr) := run_acts body st in
      (st1, false, tr ++ [[6; b2z raised]])
  end
with run_acts (l : acts) (st : state) {struct l} : state * bool * list event :=
  match l with
  | ANil => (st, false, [])
  | ACons a rest =>
      let '(st1, raised, tr) := run_act a st in
      if raised then (st1, true, tr)
      else let '(st2, raised2, tr2) := run_acts rest st1 in (st2, raised2, tr ++ tr2)
  end.

Definition init_state (g : bool) : state := mkState g [] [].
(** A fresh interpreter process: the flag has its module-level initial value. *)
Definition run_fresh (l : acts) : state * bool * list event := run_acts l (init_state initial_flag).

(** ----- specification-side observers (independent of the generated code) ----- *)

(** every with-exit event reports the flag the observer saw before the matching constructor *)
Definition exit_restored (e : event) : bool :=
  match e with
  | [3; _; b; a; _] => Z.eqb b a
  | _ => true
  end.
(** every with-entry event of class c reports flag = what c stands for *)
Definition entry_set (e : event) : bool :=
  match e with
  | [2; c; f] => Z.eqb c f
  | _ => true
  end.
(** every bare call / kept constructor leaves the flag at what the class stands for *)
Definition ctor_set (e : event) : bool :=
  match e with
  | [1; c; f] => Z.eqb c f
  | _ => true
  end.
(** every gate call accepted iff the flag was set *)
Definition gate_consistent (e : event) : bool :=
  match e with
  | [4; _; ok; f] => Z.eqb ok f
  | _ => true
  end.

(** histories without constructor / with actions: only checks, raises, try *)
Fixpoint passive_act (a : act) : bool :=
  match a with
  | ACheck _ | ARaise => true
  | ATry b => passive_acts b
  | _ => false
  end
with passive_acts (l : acts) : bool :=
  match l with ANil => true | ACons a r => passive_act a && passive_acts r end.

(** scoped histories: the gate is only ever touched through `with C():` blocks *)
Fixpoint scoped_act (a : act) : bool :=
  match a with
  | ACheck _ | ARaise => true
  | AWith _ b | ATry b => scoped_acts b
  | _ => false
  end
with scoped_acts (l : acts) : bool :=
  match l with ANil => true | ACons a r => scoped_act a && scoped_acts r end.

(** ----- call-site inventory: specification side ----- *)
(** The entry points of the four features in the checker / CFG builder, written down from
    reading what each feature *is* (a list literal in checking and in synthesis mode, a
    list comprehension, the type `list[...]`; a call whose callee is a tuple of functions,
    in both modes; a nested function that captures a variable; a `with` statement), and
    the exact condition under which the gate must be called there:
      ""                   unconditionally in the function body
      "function_tensor"    the callee's type is a tuple that parses as a function tensor
      "captures_nonempty"  the nested function captures at least one variable: the guard is
                           the truth value of the very set of captured variables that the
                           checked definition records (live at the nested function's entry,
                           not its own parameters, locals of the enclosing scope) — nothing
                           narrower (the generator classifies the guard; GenSites.v).
    [r_outer]: the enclosing conditions (else-branches of earlier type dispatch), exact. *)
Record req := mkReq { r_feature : feature; r_file : string; r_qual : string; r_kind : string; r_outer : list string }.
Definition required_sites : list req := [
  mkReq Lists "checker/expr_checker.py" "ExprChecker.visit_List" "" [];
  mkReq Lists "checker/expr_checker.py" "ExprSynthesizer.visit_List" "" [];
  mkReq Lists "cfg/builder.py" "ExprBuilder.visit_ListComp" "" [];
  mkReq Lists "tys/builtin.py" "_ListTypeDef.check_instantiate" "" [];
  mkReq FunctionTensors "checker/expr_checker.py" "ExprChecker.visit_Call" "function_tensor" [];
  mkReq FunctionTensors "checker/expr_checker.py" "ExprSynthesizer.visit_Call" "function_tensor"
        ["not (isinstance(ty, FunctionType))"];
  mkReq CapturingClosures "checker/func_checker.py" "check_nested_func_def" "captures_nonempty" [];
  mkReq Modifiers "cfg/builder.py" "CFGBuilder.visit_With" "" []
]%string.

Definition gate_eqb (a b : gate) : bool := Z.eqb (gate_index a) (gate_index b).
Fixpoint strs_eqb (a b : list string) : bool :=
  match a, b with
  | [], [] => true
  | x :: a', y :: b' => String.eqb x y && strs_eqb a' b'
  | _, _ => false
  end.

(** a generated site satisfies a requirement: same function, the feature's gate, nothing
    but plain assignments before the call in its block, exactly the required condition *)
Definition site_meets (r : req) (s : site) : bool :=
  String.eqb (r_file r) (s_file s) && String.eqb (r_qual r) (s_qual s)
  && gate_eqb (s_gate s) (feature_gate (r_feature r))
  && forallb (String.eqb "Assign") (s_pre s)
  && String.eqb (r_kind r) (s_kind s)
  && strs_eqb (r_outer r) (removelast (s_guards s)).
Definition req_met (r : req) : bool := existsb (site_meets r) gate_sites.
