(** C33 — Experimental features are gated and the gate state is restored.
    Every statement is about the definitions GENERATED from /repo on this run
    (GenExperimental.v: the flag's initial value, the constructor/__enter__/__exit__
    bodies of enable_/disable_experimental_features, all check_*_enabled functions;
    GenSites.v: every call of a gate in the package sources), driven by the hand-written
    semantics of `with` / `try` / bare calls in Model.v.  Histories ([acts]) are arbitrary
    finite nestings of: bare calls, `with C():` blocks, kept objects used later as context
    managers, checks of programs using a gated feature, unrelated exceptions, try/except. *)
From Coq Require Import ZArith String Bool List.
From V.C33 Require Import ModelBase GenExperimental GenSites Model Proofs.
Import ListNotations.
Open Scope Z_scope.

(** 1. Each gate raises iff the flag is false (and otherwise returns normally). *)
Theorem gate_blocks : forall gt g,
  (gate_run gt g = Ok tt <-> g = true) /\ ((exists e, gate_run gt g = Raise e) <-> g = false).
Proof. intros. split; [apply gate_spec_ok | apply gate_spec_raise]. Qed.
Print Assumptions gate_blocks.

(** 1b. A fresh process has the gate closed for every feature the property names. *)
Theorem fresh_process_rejects : forall f, exists e, gate_run (feature_gate f) initial_flag = Raise e.
Proof. intro f. apply gate_spec_raise. reflexivity. Qed.
Print Assumptions fresh_process_rejects.

(** 1c. The diagnostic is the experimental-feature error naming the feature — proved for
    lists, function tensors and modifiers.  PARTIAL: for capturing closures the code raises
    `UnsupportedError("Capturing closures")` instead (reported by the check as a known
    finding; upstream's golden file tests/error/experimental_errors/capturing_closure.err
    pins that wording). *)
Theorem gate_error_class_partial : forall f, f <> CapturingClosures ->
  gate_run (feature_gate f) false = Raise ("ExperimentalFeatureError:" ++ things f).
Proof. destruct f; intro H; try reflexivity. congruence. Qed.
Print Assumptions gate_error_class_partial.

(** 2. Restoration.  In every history, from every initial flag, every with block that is
    left — normally or by an exception, on a fresh `C()` or on an object constructed
    earlier — leaves the flag equal to what the observer saw just before the matching
    constructor call. *)
Theorem cm_restores : forall l g,
  Forall (fun e => exit_restored e = true) (snd (run_acts l (init_state g))).
Proof.
  intros. destruct run_sound as [_ H]. destruct (H l (init_state g) (init_state_inv g)) as (_ & _ & G).
  apply good_parts in G. tauto.
Qed.
Print Assumptions cm_restores.

(** 2b. A `with C():` block as a whole: the flag afterwards is the flag before, whatever
    the body does (bare calls included); an exception from the body is never swallowed;
    the body starts with the flag C stands for. *)
Theorem with_block_neutral : forall c body st,
  flag (fst (fst (run_act (AWith c body) st))) = flag st /\
  snd (fst (run_act (AWith c body) st)) = snd (fst (run_acts body (mkState (target c) (heap st) (seen st)))) /\
  exists tr, snd (run_act (AWith c body) st) = [2; c2z c; b2z (target c)] :: tr.
Proof. intros. split; [apply with_restores_any_body|]. split; [apply with_propagates | apply with_body_flag]. Qed.
Print Assumptions with_block_neutral.

(** 2c. Histories that touch the gate only through `with C():` blocks end with the flag
    they started with, whether they end normally or by an exception. *)
Theorem scoped_history_neutral : forall l st, scoped_acts l = true ->
  flag (fst (fst (run_acts l st))) = flag st.
Proof. exact (proj2 scoped_neutral). Qed.
Print Assumptions scoped_history_neutral.

(** 3. Constructors set the flag (it is the constructor, not __enter__, that does), and
    bare calls set it permanently: nothing but another constructor or an __exit__ changes it. *)
Theorem constructors_set_flag : forall l g,
  Forall (fun e => entry_set e = true) (snd (run_acts l (init_state g))) /\
  Forall (fun e => ctor_set e = true) (snd (run_acts l (init_state g))).
Proof.
  intros. destruct run_sound as [_ H]. destruct (H l (init_state g) (init_state_inv g)) as (_ & _ & G).
  apply good_parts in G. tauto.
Qed.
Print Assumptions constructors_set_flag.

Theorem bare_permanent : forall c l st, passive_acts l = true ->
  flag (fst (fst (run_acts (ACons (ABare c) l) st))) = target c /\
  snd (fst (run_act (ABare c) st)) = false /\ snd (run_act (ABare c) st) = [[1; c2z c; b2z (target c)]].
Proof.
  intros c l st Hp. rewrite bare_sets. split; [|split; reflexivity].
  simpl. rewrite init_spec. simpl.
  pose proof (proj2 passive_keeps l (mkState (target c) (heap st) (seen st)) Hp) as K.
  destruct (run_acts l _) as [[s r] t]. simpl in *. now subst s.
Qed.
Print Assumptions bare_permanent.

(** 4. Interleaved checks: in every history every check of a gated program is accepted iff
    the flag is set at that moment. *)
Theorem checks_follow_flag : forall l g,
  Forall (fun e => gate_consistent e = true) (snd (run_acts l (init_state g))).
Proof.
  intros. destruct run_sound as [_ H]. destruct (H l (init_state g) (init_state_inv g)) as (_ & _ & G).
  apply good_parts in G. tauto.
Qed.
Print Assumptions checks_follow_flag.

(** 5. Where the gates are called: every entry point of the four features (Model.v,
    [required_sites]) calls the feature's gate before anything but plain assignments, under
    exactly the required condition — unconditionally; "the callee type is a function tensor";
    "the nested function's set of captured variables is non-empty" (the guard is the truth
    value of the set the checked definition records as captured, not a narrowed copy);
    nobody outside experimental.py holds a copy of the flag. *)
Theorem gated_entry_points :
  forallb req_met required_sites = true /\ foreign_flag_uses = [] /\
  forall f, exists r, In r required_sites /\ r_feature r = f /\ req_met r = true.
Proof.
  split; [exact sites_ok|]. split; [exact no_foreign_flag|].
  intro f. pose proof sites_ok as S. rewrite forallb_forall in S.
  destruct f; [exists (nth 0 required_sites (mkReq Lists "" "" "" [])) | exists (nth 4 required_sites (mkReq Lists "" "" "" []))
              | exists (nth 6 required_sites (mkReq Lists "" "" "" [])) | exists (nth 7 required_sites (mkReq Lists "" "" "" []))];
    (split; [simpl; tauto|]); (split; [reflexivity|]); apply S; simpl; tauto.
Qed.
Print Assumptions gated_entry_points.

(** Non-trivial instance (hypotheses satisfiable, events really occur): in a fresh process
      with enable():            # outer
          check(lists)          # accepted
          try:
              with disable():   # inner, left by the exception of the rejected check
                  check(modifiers)
          except: pass
          o = disable()         # kept object, flag now off
          enable()              # bare
      with o: raise             # much later: restores the flag seen before `o = disable()`
    *)
Example history_demo :
  run_fresh (ACons (AWith Enable
               (ACons (ACheck (feature_gate Lists))
               (ACons (ATry (ACons (AWith Disable (ACons (ACheck (feature_gate Modifiers)) ANil)) ANil))
               (ACons (ANew Disable) (ACons (ABare Enable) ANil)))))
            (ACons (AWithObj 0 (ACons ARaise ANil)) ANil))
  = (mkState true [(Disable, mkObj true)] [true], true,
     [[2;1;1]; [4; gate_index (feature_gate Lists); 1; 1];
      [2;0;0]; [4; gate_index (feature_gate Modifiers); 0; 0]; [3;0;1;1;1]; [6;1];
      [1;0;0]; [1;1;1]; [3;1;0;0;0];
      [8;0;0]; [5]; [3;0;1;1;1]]).
Proof. vm_compute. reflexivity. Qed.
