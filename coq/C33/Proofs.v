(** C33 — lemmas.  The only facts used about the GENERATED code are [init_spec],
    [enter_spec], [exit_spec], [gate_spec*] below; each is re-proved against the freshly
    generated definitions on every run. *)
From Coq Require Import ZArith String Bool List Lia.
From V.C33 Require Import ModelBase GenExperimental GenSites Model.
Import ListNotations.
Open Scope Z_scope.

(** ---------- what the generated method bodies do ---------- *)
Lemma init_spec : forall c g, cm_init c g = (target c, mkObj g).
Proof. destruct c; reflexivity. Qed.
Lemma enter_spec : forall c g o, cm_enter c g o = (g, o).
Proof. destruct c, o; reflexivity. Qed.
Lemma exit_spec : forall c g o, cm_exit c g o = (original o, o, false).
Proof. destruct c, o; reflexivity. Qed.

Lemma gate_spec_ok : forall gt g, gate_run gt g = Ok tt <-> g = true.
Proof. destruct gt, g; simpl; split; intro H; try reflexivity; discriminate H. Qed.
Lemma gate_spec_raise : forall gt g, (exists e, gate_run gt g = Raise e) <-> g = false.
Proof.
  destruct gt, g; simpl; split; intro H; try reflexivity;
    try (destruct H as [? H']; discriminate H'); try discriminate H; eexists; reflexivity.
Qed.
Lemma gate_total : forall gt g, gate_run gt g = Ok tt \/ exists e, gate_run gt g = Raise e.
Proof. destruct gt, g; simpl; auto; right; eexists; reflexivity. Qed.

Lemma all_gates_complete : forall gt, In gt all_gates.
Proof. destruct gt; simpl; tauto. Qed.

(** ---------- list helpers ---------- *)
Lemma set_nth_same : forall {A} k (x : A) l, nth_error l k = Some x -> set_nth k x l = l.
Proof.
  induction k; destruct l; simpl; intros; try discriminate; try congruence.
  f_equal. apply IHk. assumption.
Qed.
Lemma set_nth_none : forall {A} k (x : A) l, nth_error l k = None -> set_nth k x l = l.
Proof.
  induction k; destruct l; simpl; intros; try discriminate; try reflexivity.
  f_equal. apply IHk. assumption.
Qed.
Lemma map_set_nth : forall {A B} (f : A -> B) k x l, map f (set_nth k x l) = set_nth k (f x) (map f l).
Proof. induction k; destruct l; simpl; intros; try reflexivity. f_equal. apply IHk. Qed.
Lemma nth_error_app_l : forall {A} (l e : list A) k x, nth_error l k = Some x -> nth_error (l ++ e) k = Some x.
Proof. intros. rewrite nth_error_app1; [assumption|]. apply nth_error_Some. congruence. Qed.

(** ---------- the invariant ---------- *)
Definition Inv (st : state) : Prop := map (fun p => original (snd p)) (heap st) = seen st.
Definition good (e : event) : bool := exit_restored e && entry_set e && ctor_set e && gate_consistent e.
Definition Good (tr : list event) : Prop := Forall (fun e => good e = true) tr.
Definition extends (st st' : state) : Prop := exists ext, seen st' = seen st ++ ext.

Lemma extends_refl : forall st, extends st st.
Proof. intro. exists []. now rewrite app_nil_r. Qed.
Lemma extends_trans : forall a b c, extends a b -> extends b c -> extends a c.
Proof. intros a b c [x Hx] [y Hy]. exists (x ++ y). rewrite Hy, Hx. now rewrite app_assoc. Qed.

Lemma Inv_flag : forall st g, Inv st -> Inv (mkState g (heap st) (seen st)).
Proof. intros st g H. exact H. Qed.
Lemma extends_same : forall st st', seen st' = seen st -> extends st st'.
Proof. intros st st' H. exists []. now rewrite app_nil_r. Qed.

Lemma b2z_eqb : forall b, Z.eqb (b2z b) (b2z b) = true.
Proof. intro. apply Z.eqb_refl. Qed.
Lemma c2z_target : forall c, Z.eqb (c2z c) (b2z (target c)) = true.
Proof. destruct c; reflexivity. Qed.

Definition sound_res (st : state) (r : state * bool * list event) : Prop :=
  Inv (fst (fst r)) /\ extends st (fst (fst r)) /\ Good (snd r).

Scheme act_mut := Induction for act Sort Prop
  with acts_mut := Induction for acts Sort Prop.
Combined Scheme act_acts_ind from act_mut, acts_mut.

Lemma run_sound :
  (forall a st, Inv st -> sound_res st (run_act a st)) /\
  (forall l st, Inv st -> sound_res st (run_acts l st)).
Proof.
  apply act_acts_ind; unfold sound_res.
  - (* ABare *) intros c st HI. simpl. rewrite init_spec. simpl.
    split; [apply Inv_flag; exact HI|]. split; [apply extends_same; reflexivity|].
    constructor; [|constructor]. unfold good; simpl. rewrite c2z_target. reflexivity.
  - (* AWith *) intros c body IH st HI. simpl. rewrite init_spec. rewrite enter_spec.
    specialize (IH (mkState (target c) (heap st) (seen st)) HI).
    destruct (run_acts body (mkState (target c) (heap st) (seen st))) as [[st2 raised] tr].
    simpl in IH. destruct IH as (I2 & E2 & G2).
    rewrite exit_spec. simpl.
    split; [exact I2|]. split; [exact E2|].
    constructor.
    + unfold good; simpl. rewrite c2z_target. reflexivity.
    + apply Forall_app. split; [exact G2|].
      constructor; [|constructor]. unfold good; simpl. rewrite Z.eqb_refl. reflexivity.
  - (* ANew *) intros c st HI. simpl. rewrite init_spec. simpl.
    split.
    + unfold Inv in *. simpl. rewrite map_app. simpl. now rewrite HI.
    + split; [exists [flag st]; reflexivity|].
      constructor; [|constructor]. unfold good; simpl. rewrite c2z_target. reflexivity.
  - (* AWithObj *) intros k body IH st HI. simpl.
    destruct (nth_error (heap st) k) as [[c o]|] eqn:Hh.
    2:{ simpl. split; [exact HI|]. split; [apply extends_refl|]. constructor; [reflexivity|constructor]. }
    destruct (nth_error (seen st) k) as [before|] eqn:Hs.
    2:{ simpl. split; [exact HI|]. split; [apply extends_refl|]. constructor; [reflexivity|constructor]. }
    rewrite enter_spec. rewrite (set_nth_same k (c, o) (heap st) Hh).
    assert (Hst : mkState (flag st) (heap st) (seen st) = st) by (destruct st; reflexivity).
    rewrite Hst. specialize (IH st HI).
    destruct (run_acts body st) as [[st2 raised] tr]. simpl in IH. destruct IH as (I2 & E2 & G2).
    (* the object found at exit still carries the observer's value *)
    assert (Hs2 : nth_error (seen st2) k = Some before).
    { destruct E2 as [ext E]. rewrite E. apply nth_error_app_l. exact Hs. }
    assert (Ho2 : exists c' o', nth_error (heap st2) k = Some (c', o') /\ original o' = before).
    { unfold Inv in I2. rewrite <- I2 in Hs2. rewrite nth_error_map in Hs2.
      destruct (nth_error (heap st2) k) as [[c' o']|]; simpl in Hs2; [|discriminate].
      exists c', o'. split; [reflexivity|]. congruence. }
    destruct Ho2 as (c' & o' & Hh2 & Hor). rewrite Hh2. rewrite exit_spec. simpl.
    split.
    + unfold Inv in *. simpl. rewrite map_set_nth. simpl.
      rewrite set_nth_same; [exact I2|]. rewrite nth_error_map, Hh2. reflexivity.
    + split; [exact E2|]. constructor; [reflexivity|].
      apply Forall_app. split; [exact G2|].
      constructor; [|constructor]. unfold good; simpl. rewrite Hor, Z.eqb_refl. reflexivity.
  - (* ACheck *) intros gt st HI. simpl.
    destruct (gate_run gt (flag st)) as [u|e] eqn:Hg; simpl.
    + split; [exact HI|]. split; [apply extends_refl|]. constructor; [|constructor].
      assert (flag st = true) as -> by (apply (gate_spec_ok gt); destruct u; exact Hg). reflexivity.
    + split; [exact HI|]. split; [apply extends_refl|]. constructor; [|constructor].
      assert (flag st = false) as -> by (apply (gate_spec_raise gt); eauto). reflexivity.
  - (* ARaise *) intros st HI. simpl. split; [exact HI|]. split; [apply extends_refl|].
    constructor; [reflexivity|constructor].
  - (* ATry *) intros body IH st HI. simpl. specialize (IH st HI).
    destruct (run_acts body st) as [[st1 raised] tr]. simpl in *. destruct IH as (I & E & G).
    split; [exact I|]. split; [exact E|]. apply Forall_app. split; [exact G|].
    constructor; [reflexivity|constructor].
  - (* ANil *) intros st HI. simpl. split; [exact HI|]. split; [apply extends_refl|]. constructor.
  - (* ACons *) intros a IHa rest IHr st HI. simpl. specialize (IHa st HI).
    destruct (run_act a st) as [[st1 raised] tr]. simpl in IHa. destruct IHa as (I1 & E1 & G1).
    destruct raised; simpl.
    + split; [exact I1|]. split; [exact E1|]. exact G1.
    + specialize (IHr st1 I1). destruct (run_acts rest st1) as [[st2 r2] tr2]. simpl in *.
      destruct IHr as (I2 & E2 & G2). split; [exact I2|]. split; [eapply extends_trans; eauto|].
      apply Forall_app. split; assumption.
Qed.

Lemma init_state_inv : forall g, Inv (init_state g).
Proof. intro. reflexivity. Qed.

Lemma good_parts : forall tr, Good tr ->
  Forall (fun e => exit_restored e = true) tr /\ Forall (fun e => entry_set e = true) tr /\
  Forall (fun e => ctor_set e = true) tr /\ Forall (fun e => gate_consistent e = true) tr.
Proof.
  intros tr H. repeat split; eapply Forall_impl; try exact H; intros e He; unfold good in He;
    repeat (apply andb_true_iff in He; destruct He as [He ?]); assumption.
Qed.

(** ---------- a with block restores the flag whatever its body does ---------- *)
Lemma with_restores_any_body : forall c body st,
  flag (fst (fst (run_act (AWith c body) st))) = flag st.
Proof.
  intros. simpl. rewrite init_spec, enter_spec.
  destruct (run_acts body _) as [[st2 raised] tr]. rewrite exit_spec. reflexivity.
Qed.

Lemma with_propagates : forall c body st,
  snd (fst (run_act (AWith c body) st)) =
  snd (fst (run_acts body (mkState (target c) (heap st) (seen st)))).
Proof.
  intros. simpl. rewrite init_spec, enter_spec.
  destruct (run_acts body _) as [[st2 raised] tr]. rewrite exit_spec. simpl.
  now rewrite andb_true_r.
Qed.

Lemma with_body_flag : forall c body st,
  exists tr, snd (run_act (AWith c body) st) = [2; c2z c; b2z (target c)] :: tr.
Proof.
  intros. simpl. rewrite init_spec, enter_spec.
  destruct (run_acts body _) as [[st2 raised] tr]. rewrite exit_spec. simpl. eexists. reflexivity.
Qed.

(** ---------- bare calls ---------- *)
Lemma bare_sets : forall c st,
  run_act (ABare c) st = (mkState (target c) (heap st) (seen st), false, [[1; c2z c; b2z (target c)]]).
Proof. intros. simpl. rewrite init_spec. reflexivity. Qed.

Lemma passive_keeps :
  (forall a st, passive_act a = true -> fst (fst (run_act a st)) = st) /\
  (forall l st, passive_acts l = true -> fst (fst (run_acts l st)) = st).
Proof.
  apply act_acts_ind; simpl; intros; try discriminate; try reflexivity.
  - destruct (gate_run gt (flag st)); reflexivity.
  - specialize (H st H0). destruct (run_acts body st) as [[s r] t]. exact H.
  - apply andb_true_iff in H1. destruct H1 as [Ha Hr].
    specialize (H st Ha). destruct (run_act a st) as [[s1 r1] t1]. simpl in H. subst s1.
    destruct r1; [reflexivity|].
    specialize (H0 st Hr). destruct (run_acts rest st) as [[s2 r2] t2]. exact H0.
Qed.

(** ---------- scoped histories are flag-neutral ---------- *)
Lemma scoped_neutral :
  (forall a st, scoped_act a = true -> flag (fst (fst (run_act a st))) = flag st) /\
  (forall l st, scoped_acts l = true -> flag (fst (fst (run_acts l st))) = flag st).
Proof.
  apply act_acts_ind; intros; try discriminate.
  - apply with_restores_any_body.
  - simpl. destruct (gate_run gt (flag st)); reflexivity.
  - reflexivity.
  - simpl in *. specialize (H st H0). destruct (run_acts body st) as [[s r] t]. exact H.
  - reflexivity.
  - simpl in H1. apply andb_true_iff in H1. destruct H1 as [Ha Hr]. simpl.
    specialize (H st Ha). destruct (run_act a st) as [[s1 r1] t1]. simpl in H.
    destruct r1; [exact H|].
    specialize (H0 s1 Hr). destruct (run_acts rest s1) as [[s2 r2] t2]. simpl in *. congruence.
Qed.

(** ---------- call sites ---------- *)
Lemma sites_ok : forallb req_met required_sites = true.
Proof. vm_compute. reflexivity. Qed.
Lemma no_foreign_flag : foreign_flag_uses = [].
Proof. reflexivity. Qed.
Lemma every_feature_required : forall f, existsb (fun r => match r_feature r, f with
   | Lists, Lists | FunctionTensors, FunctionTensors | CapturingClosures, CapturingClosures | Modifiers, Modifiers => true
   | _, _ => false end) required_sites = true.
Proof. destruct f; reflexivity. Qed.
