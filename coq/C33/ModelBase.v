(** C33 — hand-written base types for the experimental-feature gate.
    Everything that depends on /repo's experimental.py (the gate table, the bodies of
    __init__/__enter__/__exit__ of the two context-manager classes, the call-site
    inventory) is GENERATED into GenExperimental.v / GenSites.v on every run. *)
From Coq Require Import ZArith String Bool List.
From V.Lib Require Export Outcome.

(** The two classes `enable_experimental_features` / `disable_experimental_features`. *)
Inductive cm := Enable | Disable.

(** The instance state of such an object: the attribute `self.original`. *)
Record obj := mkObj { original : bool }.

(** The four features the property names (specification side, not read from the code). *)
Inductive feature := Lists | FunctionTensors | CapturingClosures | Modifiers.
Definition all_features : list feature := Lists :: FunctionTensors :: CapturingClosures :: Modifiers :: nil.

(** What the user-facing diagnostic calls the feature ("{things} are an experimental feature"). *)
Definition things (f : feature) : string :=
  match f with
  | Lists => "Lists" | FunctionTensors => "Function tensors"
  | CapturingClosures => "Capturing closures" | Modifiers => "Modifiers"
  end.

(** What a setting means for a class: the value its constructor must establish. *)
Definition target (c : cm) : bool := match c with Enable => true | Disable => false end.

(** substring test used by the call-site inventory *)
Fixpoint contains (needle hay : string) : bool :=
  if prefix needle hay then true
  else match hay with EmptyString => false | String _ t => contains needle t end.
